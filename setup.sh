#!/bin/bash
# Builds the Coq development from files on disk only (offline).
set -e
cd "$(dirname "$0")"
/venv/bin/python harness/regen.py
cd coq
{ echo "-R . SpyneV"; find . -name '*.v' | sed 's|^\./||' | sort; } > _CoqProject.new
if ! cmp -s _CoqProject.new _CoqProject; then mv _CoqProject.new _CoqProject; coq_makefile -f _CoqProject -o Makefile >/dev/null; else rm _CoqProject.new; fi
[ -f Makefile ] || coq_makefile -f _CoqProject -o Makefile >/dev/null
timeout 3000 make -j16 "$@"
