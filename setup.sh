#!/bin/bash
# Builds the Coq development from files on disk only (offline).
set -e
cd "$(dirname "$0")"
/venv/bin/python harness/regen.py || echo "setup: a translator failed closed on this tree (reported by the checks that need it)" >&2
cd coq
{ echo "-R . SpyneV"; find . -name '*.v' | sed 's|^\./||' | sort; } > _CoqProject.new
if ! cmp -s _CoqProject.new _CoqProject; then mv _CoqProject.new _CoqProject; coq_makefile -f _CoqProject -o Makefile >/dev/null; else rm _CoqProject.new; fi
[ -f Makefile ] || coq_makefile -f _CoqProject -o Makefile >/dev/null
# -k: build everything that can be built.  A proof that does not compile against the generated tables of
# the tree as it is now is not a setup failure: the check of that property rebuilds its own targets and
# reports the broken obligation (VIOLATION ... no-failing-input-found or a concrete replay).
if ! timeout 3000 make -k -j16 "$@"; then
  echo "setup: some Coq files did not compile (reported by the checks that depend on them)" >&2
fi
exit 0
