(** C11 — a request runs exactly the method it names.
    Property theorems only; each closed by [exact] of a lemma of C11/Theorems.v or C11/Proofs.v.

    Vocabulary (coq/C11/Model.v, Proofs.v, Theorems.v):
      construct a            Application(services, tns) of the repaired tree: Built routing-table | Rejected why
      all_descs ss           the MethodDescriptors the decorators produce for the services ss, in listing order
      named D n false/true   the primary / auxiliary descriptors of D whose public name is n (string equality)
      get_call_handles       ProtocolBase.get_call_handles;  dispatch = the user functions a request runs, or NotFound
      names tns ps r n       request r names public name n of namespace tns through its protocol's channel
      answer D n             Invoked (uids of named D n false ++ named D n true), or NotFound when there are none
      server_patterns t      HttpBase.__init__ of the repaired tree: the HttpPattern list (address, verb, method name)
                             in the order match_pattern tries them, or Rejected RDupPattern
      serve a                Application(...) then WsgiApplication(app): Built (routing table, pattern list) | Rejected
      before p q             the sort key (address, verb or '') of q is <= that of p
      pats_consistent l      patterns of l with the same (address, verb) belong to methods of one name
      aux_no_pats D          auxiliary methods carry no HttpPatterns;  verbs_nonempty l: no verb is the empty string *)
From Coq Require Import ZArith List Bool Permutation Sorted.
From SpyneV Require Import Base.Prelude C11.Model C11.Proofs C11.PatProofs C11.Theorems C11.Examples.
Import ListNotations.
Open Scope Z_scope.

(** HIT.  In every application that constructs, looking up "{tns}n" (or the unqualified n) yields exactly
    the primary method named n, if any (at most one), followed by the auxiliary methods named n, in listing order. *)
Theorem C11_hit : forall a t,
  construct a = Built t ->
  let D := all_descs (a_services a) in
  descs_of a = Built D /\
  forall n,
    get_call_handles (a_tns a) t (method_key (a_tns a) n) = named D n false ++ named D n true
    /\ (starts_with LBRACE n = false ->
        get_call_handles (a_tns a) t n = named D n false ++ named D n true)
    /\ (length (named D n false) <= 1)%nat.
Proof. exact hit. Qed.

(** ... so a function is among the handlers iff it is registered under exactly that name, and no
    function occurs twice *)
Theorem C11_exactly_named : forall a t,
  construct a = Built t ->
  let D := all_descs (a_services a) in
  forall n,
    (forall d, In d (get_call_handles (a_tns a) t (method_key (a_tns a) n)) <-> In d D /\ d_name d = n)
    /\ (NoDup (map d_uid D) -> NoDup (map d_uid (get_call_handles (a_tns a) t (method_key (a_tns a) n)))).
Proof. exact exactly_named. Qed.

(** every protocol's naming channel (XML root tag / SOAP body child, qualified with the tns or unqualified;
    the single key of a dict document; the msgpack-rpc method field; HttpPattern; last URL segment):
    what runs is a function of the public name alone *)
Theorem C11_dispatch_channels : forall a t ps r n,
  construct a = Built t -> names (a_tns a) ps r n ->
  dispatch (a_tns a) t ps r = answer (all_descs (a_services a)) n.
Proof. exact dispatch_channels. Qed.

(** MISS.  A name nothing is registered under runs nothing and yields the not-found fault *)
Theorem C11_miss : forall a t ps r n,
  construct a = Built t -> names (a_tns a) ps r n ->
  (forall d, In d (all_descs (a_services a)) -> d_name d <> n) ->
  dispatch (a_tns a) t ps r = NotFound.
Proof. exact miss. Qed.

(** a name qualified with any other namespace is not found, whatever its local part *)
Theorem C11_other_namespace_miss : forall a t ps ns l,
  construct a = Built t -> ns <> a_tns a -> ~ In RBRACE ns -> ~ In RBRACE (a_tns a) ->
  dispatch (a_tns a) t ps (RXml (Some ns) l) = NotFound.
Proof. exact other_namespace_miss. Qed.

(** near misses: lookup is string equality, so whatever distinguishes n' from a registered n (case, a
    prefix, a suffix, ...) the request for n runs the function and the request for n' runs nothing *)
Theorem C11_near_miss : forall a t ps r r' n n' d,
  construct a = Built t ->
  In d (all_descs (a_services a)) -> d_name d = n ->
  names (a_tns a) ps r n -> names (a_tns a) ps r' n' ->
  (forall d', In d' (all_descs (a_services a)) -> d_name d' <> n') ->
  (exists l, dispatch (a_tns a) t ps r = Invoked l /\ In (d_uid d) l)
  /\ dispatch (a_tns a) t ps r' = NotFound.
Proof. exact near_miss. Qed.

(** CONSTRUCTION succeeds exactly under conditions that do not mention the order of anything:
    every class is well formed, the internal keys, the "module.service.name" keys are duplicate free,
    no two different message classes share a "{ns}name", at most one primary method per public name *)
Theorem C11_construct_iff : forall a,
  (exists t, construct a = Built t) <->
  (let D := all_descs (a_services a) in
   ok_services (a_services a) /\
   NoDup (map d_ikey D) /\
   consistent (flat_map (fun d => d_classes d (a_tns a)) D) /\
   NoDup (map d_mkey D) /\
   forall n, (length (named D n false) <= 1)%nat).
Proof. exact construct_iff. Qed.

(** ORDER.  For every permutation of the service list: construction succeeds iff it did, and every name
    has the same primary handler and the same auxiliary handlers (the latter up to their order) *)
Theorem C11_permutation : forall a a',
  a_tns a = a_tns a' -> Permutation (a_services a) (a_services a') ->
  ((exists t, construct a = Built t) <-> (exists t', construct a' = Built t'))
  /\ forall t t', construct a = Built t -> construct a' = Built t' ->
     forall n, exists p x x',
       get_call_handles (a_tns a) t (method_key (a_tns a) n) = p ++ x
       /\ get_call_handles (a_tns a') t' (method_key (a_tns a') n) = p ++ x'
       /\ Permutation x x' /\ (length p <= 1)%nat
       /\ Forall (fun d => d_aux d = false) p /\ Forall (fun d => d_aux d = true) x.
Proof. exact permutation. Qed.

(** DUPLICATES.  Two primary methods (anywhere in the application) with the same public name: rejected *)
Theorem C11_duplicate_rejected : forall a D l1 d1 l2 d2 l3,
  descs_of a = Built D -> D = l1 ++ d1 :: l2 ++ d2 :: l3 ->
  d_aux d1 = false -> d_aux d2 = false -> d_name d1 = d_name d2 ->
  exists r, construct a = Rejected r.
Proof. exact duplicate_rejected. Qed.

(** HTTP.  When every pattern that matches the request belongs to methods of one name, that name is
    chosen in every arrangement of the pattern list (the tie order of HttpBase's sort is irrelevant) *)
Theorem C11_http_unambiguous : forall tns ps verb path n,
  (forall p, In p ps -> pat_match verb (http_path path) p = true -> snd p = n) ->
  (exists p, In p ps /\ pat_match verb (http_path path) p = true) ->
  forall ps', Permutation ps ps' ->
    method_request_string tns ps' (RHttp verb path) = n.
Proof. exact http_unambiguous. Qed.

(** and when no pattern matches, the last URL segment, qualified with the tns, is the name *)
Theorem C11_http_fallback : forall tns ps verb pre n,
  (forall p, In p ps -> pat_match verb (http_path (pre ++ SLASH :: n)) p = false) -> ~ In SLASH n ->
  method_request_string tns ps (RHttp verb (pre ++ SLASH :: n)) = method_key tns n.
Proof. exact http_fallback. Qed.

(** HTTP, server construction.  The pattern list is the patterns of the head method of every route, sorted
    descending by (address, verb); a server is built iff no two methods carry the same (address, verb) *)
Theorem C11_pattern_order : forall t,
  ((exists ps, server_patterns t = Built ps) <-> pats_consistent (collect_patterns t))
  /\ forall ps, server_patterns t = Built ps ->
       Permutation ps (collect_patterns t) /\ StronglySorted before ps /\ pats_consistent ps.
Proof. exact pattern_order. Qed.

(** DUPLICATES, HTTP.  Two primary methods of different names carrying the same HttpPattern: the server is rejected *)
Theorem C11_identical_pattern_rejected : forall a t d1 d2 p,
  construct a = Built t ->
  let D := all_descs (a_services a) in
  In d1 D -> In d2 D -> d_aux d1 = false -> d_aux d2 = false -> d_name d1 <> d_name d2 ->
  In p (d_pats d1) -> In p (d_pats d2) ->
  server_patterns t = Rejected RDupPattern.
Proof. exact identical_pattern_rejected. Qed.

(** ORDER, every channel.  For every permutation of the service list: a server is built iff it was, it tries
    the same HttpPatterns in the same order, and every request whatsoever (named or not, any protocol) finds the
    same primary handler and the same auxiliary handlers (the latter up to their order) *)
Theorem C11_permutation_served : forall a a',
  a_tns a = a_tns a' -> Permutation (a_services a) (a_services a') ->
  aux_no_pats (all_descs (a_services a)) ->
  ((exists s, serve a = Built s) <-> (exists s', serve a' = Built s'))
  /\ forall t ps t' ps', serve a = Built (t, ps) -> serve a' = Built (t', ps') -> verbs_nonempty ps ->
     ps = ps' /\
     forall r, exists p x x',
       get_call_handles (a_tns a) t (method_request_string (a_tns a) ps r) = p ++ x
       /\ get_call_handles (a_tns a') t' (method_request_string (a_tns a') ps' r) = p ++ x'
       /\ Permutation x x' /\ (length p <= 1)%nat
       /\ Forall (fun d => d_aux d = false) p /\ Forall (fun d => d_aux d = true) x.
Proof. exact permutation_served. Qed.

(** NAMELESS.  A request that names no method at all (method_request_string stays None: a SOAP Fault
    element sent as the request) runs nothing and is not found; every other request is decided by [dispatch],
    to which all theorems above apply *)
Theorem C11_nameless : forall tns t ps w,
  (exists r, w = Named r /\ dispatch_wire tns t ps w = dispatch tns t ps r)
  \/ (w = Nameless /\ dispatch_wire tns t ps w = NotFound).
Proof. exact wire_cases. Qed.

(** ------------------------------------------------------------------ non-vacuity *)

(** x_app = [S1 {foo, Foo, foobar (+ GET /api/<x>)}; S2 auxiliary {foo}] constructs; "foo" runs 1 then 4 *)
Example C11_ex_hit :
  (exists t, construct x_app = Built t)
  /\ map d_uid (get_call_handles x_tns x_table (method_key x_tns x_foo)) = [1; 4]
  /\ map d_uid (named (all_descs (a_services x_app)) x_foo false) = [1]
  /\ map d_uid (named (all_descs (a_services x_app)) x_foo true) = [4]
  /\ NoDup (map d_uid (all_descs (a_services x_app))).
Proof.
  repeat split; try (vm_compute; eauto; fail).
  vm_compute. repeat constructor; simpl; intuition discriminate.
Qed.

(** every channel names "foo"; case / prefix / suffix / other-namespace variants are not found *)
Example C11_ex_channels :
  names x_tns x_ps (RXml (Some x_tns) x_foo) x_foo /\ names x_tns x_ps (RXml None x_foo) x_foo
  /\ names x_tns x_ps (RDictKey x_foo) x_foo /\ names x_tns x_ps (RMsgpackRpc x_foo) x_foo
  /\ names x_tns x_ps (RHttp x_GET (47 :: 118 :: 49 :: 47 :: x_foo)) x_foo         (* GET /v1/foo: last segment *)
  /\ names x_tns x_ps (RHttp x_GET [47; 97; 112; 105; 47; 113]) x_foobar            (* GET /api/q: HttpPattern *)
  /\ dispatch x_tns x_table x_ps (RDictKey x_foo) = Invoked [1; 4]
  /\ dispatch x_tns x_table x_ps (RHttp x_GET [47; 97; 112; 105; 47; 113]) = Invoked [3]
  /\ dispatch x_tns x_table x_ps (RDictKey (map (fun c => if (97 <=? c) && (c <=? 122) then c - 32 else c) x_foo)) = NotFound
  /\ dispatch x_tns x_table x_ps (RDictKey x_fo) = NotFound
  /\ dispatch x_tns x_table x_ps (RDictKey x_foob) = NotFound
  /\ dispatch x_tns x_table x_ps (RXml (Some x_other) x_foo) = NotFound
  /\ dispatch x_tns x_table x_ps (RDictKey (qname x_other x_foo)) = NotFound
  /\ (forall d, In d (all_descs (a_services x_app)) -> d_name d <> x_foob)
  /\ x_other <> x_tns /\ ~ In RBRACE x_other /\ ~ In RBRACE x_tns.
Proof.
  repeat split; try (vm_compute; auto; fail).
  - vm_compute. intros d H. repeat (destruct H as [<- | H]; [discriminate|]). destruct H.
  - discriminate.
  - vm_compute. intuition discriminate.
  - vm_compute. intuition discriminate.
Qed.

(** the other service order constructs too and gives the same routes; a second primary "foo" is rejected;
    the construction conditions hold of x_app *)
Example C11_ex_order_and_duplicates :
  Permutation (a_services x_app) (a_services x_app_rev)
  /\ (exists t, construct x_app_rev = Built t)
  /\ table_view x_table_rev = table_view x_table
  /\ construct x_app_dup = Rejected RDupMessage
  /\ match all_descs (a_services x_app_dup) with
     | d1 :: m1 :: m2 :: m3 :: d2 :: nil =>
         descs_of x_app_dup = Built ([] ++ d1 :: [m1; m2; m3] ++ d2 :: [])
         /\ d_aux d1 = false /\ d_aux d2 = false /\ d_name d1 = d_name d2 /\ d_uid d1 = 1 /\ d_uid d2 = 5
     | _ => False
     end.
Proof.
  split; [apply perm_swap|].
  split; [vm_compute; eauto|].
  split; [vm_compute; reflexivity|].
  split; [vm_compute; reflexivity|].
  vm_compute. repeat split; reflexivity.
Qed.

(** S1.foobar and S4.bar both carry GET /api/<x>: the application is built, the server is not;
    S5.baz carries /api/<x> for any verb: both listings are served, with the pattern of foobar (which names a
    verb) first, so GET /api/q runs foobar (3) and DELETE /api/q runs baz (7) in both *)
Example C11_ex_patterns :
  (exists t, construct x_app_pat = Built t /\ server_patterns t = Rejected RDupPattern)
  /\ (exists t ps t' ps', serve x_app_tie = Built (t, ps) /\ serve x_app_tie_rev = Built (t', ps')
        /\ ps = ps' /\ map snd ps = [x_foobar; [98; 97; 122]]
        /\ dispatch x_tns t ps (RHttp x_GET [47; 97; 112; 105; 47; 113]) = Invoked [3]
        /\ dispatch x_tns t' ps' (RHttp x_GET [47; 97; 112; 105; 47; 113]) = Invoked [3]
        /\ dispatch x_tns t ps (RHttp [68; 69; 76; 69; 84; 69] [47; 97; 112; 105; 47; 113]) = Invoked [7]
        /\ dispatch x_tns t' ps' (RHttp [68; 69; 76; 69; 84; 69] [47; 97; 112; 105; 47; 113]) = Invoked [7])
  /\ Permutation (a_services x_app_tie) (a_services x_app_tie_rev)
  /\ aux_no_pats (all_descs (a_services x_app_tie))
  /\ verbs_nonempty (match serve x_app_tie with Built (_, ps) => ps | Rejected _ => [] end)
  /\ pats_consistent (collect_patterns x_table) /\ x_ps <> [].
Proof.
  split; [eexists; split; vm_compute; reflexivity|].
  split; [do 4 eexists; repeat split; vm_compute; reflexivity|].
  split; [apply Permutation_rev|].
  split.
  - intros d I A. vm_compute in I. repeat (destruct I as [<- | I]; [try discriminate A; reflexivity|]). destruct I.
  - split; [|split].
    + intros p I. vm_compute in I. repeat (destruct I as [<- | I]; [discriminate|]). destruct I.
    + apply server_iff. vm_compute. eauto.
    + vm_compute. discriminate.
Qed.

Example C11_ex_nameless :
  dispatch_wire x_tns x_table x_ps Nameless = NotFound
  /\ dispatch_wire x_tns x_table x_ps (Named (RDictKey x_foo)) = Invoked [1; 4].
Proof. split; vm_compute; reflexivity. Qed.
