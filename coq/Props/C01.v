(** C01 — XML/SOAP wire fidelity.  Property theorems only; each closed by [exact] of a lemma
    proved in C01/XmlProofs.v, C01/LeafProofs.v over the SHARED model Wire/Xml.v (three leaf kinds).  The richer
    object-level theorems are in Props/C01_x.v, the call-level ones in Props/C01_call.v. *)
From SpyneV Require Import Base.Prelude Wire.Universe Wire.Xml C01.Leaf C01.XmlProofs C01.LeafProofs.

(** XmlDocument.from_element after XmlDocument.to_parent and an lxml serialise/parse cycle
    ([wire]) returns exactly [norm v], for every well-formed universe, every declared type,
    every schema-conformant value, with and without validator='soft', for every fuel that
    covers the value (the conformance check at that fuel passes); the leaf codec is any codec
    that is lossless on its declared domain. *)
Theorem C01_xml_rt : forall (L : leaf_codec) (C : xcfg) (U : universe),
  (forall p v, prim_has p v = true -> lc_ok L p v = true ->
     exists s, lc_pr L p v = Ok s /\ lc_rd L p s = Ok v /\ (p <> PText -> s <> [])) ->
  (forall e, x_resolve C e = None) -> x_poly C = false -> wf_universe U = true ->
  forall n t v ns name, xconf L U n t v = true ->
    exists e, to_parent L C U n t ns name v = Ok e
              /\ from_element L C U n t (wire e) = Ok (norm U n t v).
Proof. exact xml_rt. Qed.

(** the same with Spyne's Integer / Unicode / Boolean text codecs as modelled for C08: no
    hypothesis left but well-formedness of the universe and conformance of the value *)
Theorem C01_xml_rt_spyne : forall (soft : bool) (tns : option text) (U : universe),
  wf_universe U = true ->
  forall n t v ns name, xconf spyne_leaf U n t v = true ->
    exists e, to_parent spyne_leaf (cfg soft tns) U n t ns name v = Ok e
              /\ from_element spyne_leaf (cfg soft tns) U n t (wire e) = Ok (norm U n t v).
Proof. exact xml_rt_spyne. Qed.

(** non-vacuity: a universe with inheritance, a required XmlAttribute, a wrapped array and
    two max_occurs>1 members; a conformant value with an absent optional member, a nil
    member, an empty wrapped array, an empty unwrapped sequence and an empty string *)
Definition ex_U : universe :=
  [ mkcls [117] [65] None
      [ mkfield [105; 100] (TPrim PInt) 1 (Some 1) false KAttr;
        mkfield [115] (TPrim PText) 1 (Some 1) false KElem;
        mkfield [111] (TPrim PBool) 0 (Some 1) false KElem ];
    mkcls [117] [66] (Some 0%nat)
      [ mkfield [97] (TArr (TPrim PInt)) 0 (Some 1) true KElem;
        mkfield [109] (TRef 0%nat) 0 None true KElem;
        mkfield [110] (TPrim PInt) 0 (Some 3) true KElem;
        mkfield [122] (TRef 0%nat) 1 (Some 1) true KElem ] ].
Definition ex_v : val :=
  VObj 1%nat [ VLeaf (LInt (-5)); VLeaf (LText []); VNone;
               VList []; VList [VObj 0%nat [VLeaf (LInt 7); VLeaf (LText [97]); VLeaf (LBool true)]; VNone];
               VList []; VNone ].
Example C01_ex_rt :
  wf_universe ex_U = true
  /\ xconf spyne_leaf ex_U 5 (TRef 1%nat) ex_v = true
  /\ norm ex_U 5 (TRef 1%nat) ex_v <> ex_v
  /\ (forall soft, match to_parent spyne_leaf (cfg soft None) ex_U 5 (TRef 1%nat) [117] [66] ex_v with
                   | Ok e => out_eqb val_eqb (from_element spyne_leaf (cfg soft None) ex_U 5 (TRef 1%nat) (wire e))
                                     (Ok (norm ex_U 5 (TRef 1%nat) ex_v))
                   | _ => false
                   end = true).
Proof.
  split; [vm_compute; reflexivity|]. split; [vm_compute; reflexivity|].
  split; [vm_compute; discriminate|]. intros [|]; vm_compute; reflexivity.
Qed.
