(** C08 — Uuid (default serialisation): lossless text form, Spyne's UUID_PATTERN, totality.
    Property theorems only.

    A UUID is its 128-bit integer; [uuid_to_unicode] is str(uuid.UUID), [uuid_from_unicode] is
    uuid.UUID(text) behind Spyne's [except (ValueError, TypeError, UnicodeDecodeError)];
    [rx_UUID_PATTERN] is the AST regenerated from spyne/model/primitive/string.py:UUID_PATTERN (the
    pattern facet the published schema carries for Uuid, an xs:string restriction); [re_fullmatch] is
    the generic matcher of C08/Regex.v. *)
From SpyneV Require Import Base.Digits C08.UuidModel C08.UuidProofs C08.Regex C08.RegexUuid Gen.Regexes.

(** reading back what was written gives the same 128 bits *)
Theorem C08_uuid_roundtrip : forall u, 0 <= u < 2 ^ 128 -> uuid_from_unicode (uuid_to_unicode u) = Ok u.
Proof. exact uuid_roundtrip. Qed.

(** the written text matches UUID_PATTERN in full *)
Theorem C08_uuid_out_lex : forall u,
  re_fullmatch rx_UUID_PATTERN (uuid_to_unicode u) = Some (uuid_to_unicode u, [], []).
Proof. exact uuid_out_lex. Qed.

(** every text UUID_PATTERN matches in full (upper or lower case) is read as the value of its digits *)
Theorem C08_uuid_in_lex : forall s x,
  re_fullmatch rx_UUID_PATTERN s = Some x -> uuid_from_unicode s = Ok (uuid_den s).
Proof. exact uuid_in_lex. Qed.

(** the reader lets no exception escape, and what it returns is a 128-bit value *)
Theorem C08_uuid_reader_total : forall s, is_crash (uuid_from_unicode s) = false.
Proof. exact uuid_reader_total. Qed.
Theorem C08_uuid_reader_range : forall s u, uuid_from_unicode s = Ok u -> 0 <= u < 2 ^ 128.
Proof. exact uuid_reader_range. Qed.

(** non-vacuity *)
Example C08_uuid_ex :
  uuid_to_unicode 24197857161011715162171839636988778104
  = [49;50;51;52;53;54;55;56;45;49;50;51;52;45;53;54;55;56;45;49;50;51;52;45;53;54;55;56;49;50;51;52;53;54;55;56]
  /\ uuid_from_unicode (uuid_to_unicode 24197857161011715162171839636988778104) = Ok 24197857161011715162171839636988778104
  /\ uuid_from_unicode (uuid_to_unicode (2 ^ 128 - 1)) = Ok (2 ^ 128 - 1)
  /\ uuid_from_unicode [123;65;66;67;68;69;70;48;49;45;50;51;52;53;54;55;56;57;97;98;99;100;101;102;48;49;50;51;52;53;54;55;56;57;125]
     = Ok 228367255721259569362527394270995113865.
Proof. vm_compute. auto. Qed.
Example C08_uuid_ex_lex :
  re_fullmatch rx_UUID_PATTERN (uuid_to_unicode 10) <> None
  /\ re_fullmatch rx_UUID_PATTERN [49;50;51] = None
  /\ uuid_from_unicode [49;50;51] = VFault
  /\ uuid_den [65;45;49] = 161.
Proof. vm_compute. repeat split; congruence. Qed.
