(** C08 — ByteArray text forms (base64, urlsafe base64, hex) are lossless and lie
    in the XSD lexical spaces xs:base64Binary / xs:hexBinary.
    Property theorems only; each closed by [exact] of a lemma of C08/BinProofs.v.
    A byte string is a list of integers each satisfying [byte_ok] (0 <= b < 256). *)
From SpyneV Require Import Base.Prelude C08.BinModel C08.BinProofs.
From SpyneV Require Import C08.DurModel.   (* only for [lower] = str.lower() on ASCII *)

(** F1. decode (encode bs) = bs for every byte string, standard and urlsafe alphabet,
    every length (0, 1, 2 mod 3: both padded forms) *)
Theorem C08_base64_roundtrip : forall url bs,
  Forall (fun b => byte_ok b = true) bs -> b64decode url (b64encode url bs) = Ok bs.
Proof. exact b64_roundtrip. Qed.

(** F2. unhexlify (hexlify bs) = bs for every byte string *)
Theorem C08_hex_roundtrip : forall bs,
  Forall (fun b => byte_ok b = true) bs -> unhexlify (hexlify bs) = Ok bs.
Proof. exact hex_roundtrip. Qed.

(** F3. the base64 text is a canonical xs:base64Binary literal *)
Theorem C08_base64_out_lex : forall bs,
  Forall (fun b => byte_ok b = true) bs -> xs_base64 (b64encode false bs) = true.
Proof. exact b64encode_xs. Qed.

(** F4. the hex text is an xs:hexBinary literal *)
Theorem C08_hex_out_lex : forall bs,
  Forall (fun b => byte_ok b = true) bs -> xs_hex (hexlify bs) = true.
Proof. exact hexlify_xs. Qed.

(** F5. the decoders are total on arbitrary text: a value or ValidationError *)
Theorem C08_base64_reader_total : forall url s, is_crash (b64decode url s) = false.
Proof. exact b64decode_total. Qed.

Theorem C08_hex_reader_total : forall s, is_crash (unhexlify s) = false.
Proof. exact unhexlify_total. Qed.

(** whatever the hex reader accepts is a byte string *)
Theorem C08_hex_reader_bytes : forall s bs,
  unhexlify s = Ok bs -> Forall (fun b => byte_ok b = true) bs.
Proof. exact unhexlify_bytes. Qed.

(** whatever the lenient base64 readers accept is a byte string *)
Theorem C08_base64_reader_bytes : forall url s bs,
  b64decode url s = Ok bs -> Forall (fun b => byte_ok b = true) bs.
Proof. exact b64decode_bytes. Qed.

(** input lexical space: every canonical xs:base64Binary literal is read, by the
    standard and by the urlsafe reader, as the byte string whose encoding it is *)
Theorem C08_base64_in_lex : forall s, xs_base64 s = true ->
  exists bs, Forall (fun b => byte_ok b = true) bs /\ b64encode false bs = s
             /\ forall url, b64decode url s = Ok bs.
Proof. exact b64_in_lex. Qed.

(** every xs:hexBinary literal, upper or lower case, is read as the byte string
    whose hexlify is the literal in lower case *)
Theorem C08_hex_in_lex : forall s, xs_hex s = true ->
  exists bs, Forall (fun b => byte_ok b = true) bs /\ unhexlify s = Ok bs
             /\ hexlify bs = map lower s.
Proof. exact hex_in_lex. Qed.

(** non-vacuity *)
(* b"\x00\xff\xfb\xef\xbe" : 5 bytes, one padding character, uses '+'/'/' resp. '-'/'_' *)
Example C08_ex_base64_roundtrip :
  Forall (fun b => byte_ok b = true) [0; 255; 251; 239; 190]
  /\ b64encode false [0; 255; 251; 239; 190] = [65; 80; 47; 55; 55; 55; 52; 61]
  /\ b64encode true [0; 255; 251; 239; 190] = [65; 80; 95; 55; 55; 55; 52; 61]
  /\ b64decode false (b64encode false [0; 255; 251; 239; 190]) = Ok [0; 255; 251; 239; 190]
  /\ b64decode true (b64encode true [0; 255; 251; 239; 190]) = Ok [0; 255; 251; 239; 190].
Proof. vm_compute. repeat split; repeat constructor. Qed.
Example C08_ex_hex_roundtrip :
  Forall (fun b => byte_ok b = true) [0; 171; 255]
  /\ hexlify [0; 171; 255] = [48; 48; 97; 98; 102; 102]
  /\ unhexlify (hexlify [0; 171; 255]) = Ok [0; 171; 255].
Proof. vm_compute. repeat split; repeat constructor. Qed.
(* one byte: two padding characters; "QQ==" is accepted, the non-canonical "QR==" is not *)
Example C08_ex_base64_out_lex :
  Forall (fun b => byte_ok b = true) [65]
  /\ b64encode false [65] = [81; 81; 61; 61] /\ xs_base64 [81; 81; 61; 61] = true
  /\ xs_base64 [81; 82; 61; 61] = false /\ xs_base64 [81; 81; 61] = false.
Proof. vm_compute. repeat split; repeat constructor. Qed.
Example C08_ex_hex_out_lex :
  Forall (fun b => byte_ok b = true) [222; 173]
  /\ xs_hex (hexlify [222; 173]) = true /\ xs_hex [100; 101; 97] = false.
Proof. vm_compute. repeat split; repeat constructor. Qed.
(* truncated quad, non-ASCII text, embedded junk: ValidationError or leniently decoded, never a crash *)
Example C08_ex_base64_reader_total :
  b64decode false [81; 81; 61] = VFault /\ b64decode false [81; 233; 81] = VFault
  /\ b64decode true [81; 233; 81; 61; 61] = Ok [65] /\ b64decode false [81; 10; 81; 61; 61; 120] = Ok [65].
Proof. vm_compute. repeat split. Qed.
Example C08_ex_hex_reader_total :
  unhexlify [48] = VFault /\ unhexlify [48; 103] = VFault /\ unhexlify [65; 98] = Ok [171].
Proof. vm_compute. repeat split. Qed.
Example C08_ex_hex_reader_bytes : unhexlify [70; 70; 48; 48] = Ok [255; 0].
Proof. vm_compute. reflexivity. Qed.
Example C08_ex_base64_reader_bytes : b64decode true [45; 95; 45; 95] = Ok [251; 255; 191].
Proof. vm_compute. reflexivity. Qed.
(* "+/8=" : a literal with one padding character; read by both readers as b"\xfb\xff" *)
Example C08_ex_base64_in_lex :
  xs_base64 [43; 47; 56; 61] = true /\ b64decode false [43; 47; 56; 61] = Ok [251; 255]
  /\ b64decode true [43; 47; 56; 61] = Ok [251; 255] /\ b64encode false [251; 255] = [43; 47; 56; 61].
Proof. vm_compute. repeat split. Qed.
(* "Ab" (mixed case) *)
Example C08_ex_hex_in_lex :
  xs_hex [65; 98] = true /\ unhexlify [65; 98] = Ok [171] /\ hexlify [171] = map lower [65; 98].
Proof. vm_compute. repeat split. Qed.
