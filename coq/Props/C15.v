(** C15 — deriving a model never changes another model; field order is deterministic.
    Property theorems only.  The model is the class store of C15/Model.v (spyne/model/_base.py
    [_s_customize], [SimpleModel.customize]; spyne/model/complex.py [ComplexModelBase.customize],
    [_process_child_attrs], [Array], [Mandatory], the class statement, [append_field] /
    [insert_field]; spyne/util/odict.py); the notions used in the statements are in C15/Spec.v.

    [inv s] = the store is well formed (identities name classes, field tables have distinct names,
    a registered variant is newer than its root and registered once) and the registry of variants
    is complete.  It holds of the initial pool (checked on every run by evaluating [wfb] /
    [completeb]) and, by [C15_invariants_hold], after every history. *)
From Coq Require Import ZArith List Bool Lia.
From SpyneV Require Import C15.Spec C15.OdictProofs C15.StoreProofs C15.OpProofs C15.EvoProofs
  C15.Proofs C15.FieldsProofs C15.DecimalProofs C15.ProtoProofs C15.ExStore.
Import ListNotations.
Open Scope Z_scope.

(** ** the invariants hold along every history of operations *)
Theorem C15_invariants_hold : forall ops s, inv s -> inv (run s ops).
Proof. exact run_inv. Qed.

Theorem C15_invariants_decidable : forall s, wfb s = true -> completeb s = true -> inv s.
Proof. intros s W C. split; [exact (wfb_wf s W) | exact (completeb_complete s C)]. Qed.

(** ** a derivation (primitive customization, customize with child_attrs / child_attrs_all /
    child_attrs_noexc, Array / Iterable, Mandatory, the class statement) returns a NEW class and
    leaves every class that existed before observably unchanged: same record, same snapshot at
    every depth, same resolved attributes, type name, parent, flat field table, same verdicts *)
Theorem C15_derivation_returns_new_class : forall s o s' res,
  inv s -> is_derivation o = true -> step s o = ROk (s', res) ->
  res = Some (size s) /\ size s < size s'.
Proof.
  intros s o s' res I D H. destruct (step_derivation_ok s o s' res I D H) as [A [B _]]. auto.
Qed.

Theorem C15_frame_derivation : forall s o s' res c,
  inv s -> is_derivation o = true -> step s o = ROk (s', res) -> 0 <= c < size s ->
  same_view s s' c.
Proof. exact frame_derivation. Qed.

(** ** any step: a class is unchanged unless it refers (transitively, through base class, parent
    or field types) to a class whose field table the step writes — and only append_field /
    insert_field write any ([touched] is empty for derivations) *)
Theorem C15_frame_step : forall s o s' res c,
  inv s -> step s o = ROk (s', res) -> 0 <= c < size s ->
  (forall z, In z (touched s o) -> ~ reaches (cl s) c z) -> same_view s s' c.
Proof. exact frame_step. Qed.

(** ** all histories (an operation that raises leaves the store as it was: [run]) *)
Theorem C15_frame_history : forall ops s c,
  inv s -> 0 <= c < size s -> undisturbed c s ops -> same_view s (run s ops) c.
Proof. exact frame_history. Qed.

Theorem C15_frame_derivations : forall ops s c,
  inv s -> 0 <= c < size s -> forallb is_derivation ops = true -> same_view s (run s ops) c.
Proof. exact frame_derivations. Qed.

(** ** evolution writes field tables only, and only those of the class and of its registered
    variants: every other class keeps its record, and even the written ones keep kind, base class,
    own attributes, __orig__, __type_name__ and __extends__ *)
Theorem C15_evolution_records : forall s o s' res,
  inv s -> step s o = ROk (s', res) ->
  (forall x, 0 <= x < size s -> ~ In x (touched s o) -> lookup s' x = lookup s x) /\
  (forall x r, lookup s x = Some r ->
     exists r', lookup s' x = Some r' /\
       c_kind r' = c_kind r /\ c_base r' = c_base r /\ c_attrs r' = c_attrs r /\
       c_orig r' = c_orig r /\ c_tname r' = c_tname r /\ c_extends r' = c_extends r).
Proof. exact evolution_records. Qed.

(** ** a field added to a class afterwards appears in the class and in EVERY customized variant
    of it (every complex class whose __orig__ is the class), with a type derived from the given one *)
Theorem C15_propagates : forall s o s' res c k t,
  inv s -> step s o = ROk (s', res) ->
  (o = OAppend c k t \/ exists i, o = OInsert c i k t) ->
  forall x r,
    lookup s x = Some r ->
    (x = c \/
     (is_simple (c_kind r) = false /\ c_orig r = Some c /\ c_base r <> Some CID_COMPLEXMODEL /\
      exists rc, lookup s c = Some rc /\ c_orig rc = None)) ->
    exists t', tassoc k (fields_of s' x) = Some t' /\ root_of s' t' = root_of s t.
Proof. exact propagates. Qed.

(** ** the new class carries exactly the requested constraints over the original's
    ([fresh_lookup]: the most recent request for the attribute, else a fresh
    _explicit_type_name = False, else what the original shows); stated for every fuel of the walk
    along the base classes: the new class is one step above its original *)
Theorem C15_fresh_simple : forall s c kw s' n,
  wf s -> customize_simple s c kw = ROk (s', n) ->
  exists r fam kw1 r',
    lookup s c = Some r /\ c_kind r = KSimple fam /\
    (match fam with FDecimal => decimal_pre s c kw | _ => ROk kw end) = ROk kw1 /\
    n = size s /\ lookup s' n = Some r' /\
    c_kind r' = KSimple fam /\ c_base r' = Some c /\ c_orig r' = Some (root_of s c) /\
    c_fields r' = [] /\
    forall fuel k, resolve_f (S fuel) (cl s') n k = fresh_lookup s c (eff_kw s kw1) fuel k.
Proof. exact fresh_simple. Qed.

Theorem C15_fresh_complex : forall fuel s c kw ca caa s' n,
  inv s -> customize_complex fuel s c kw ca caa = ROk (s', n) ->
  exists r r',
    lookup s c = Some r /\ is_simple (c_kind r) = false /\
    n = size s /\ lookup s' n = Some r' /\
    c_kind r' = c_kind r /\ c_base r' = Some c /\ c_orig r' = Some (root_of s c) /\
    forall fuel k, resolve_f (S fuel) (cl s') n k = fresh_lookup s c (eff_kw s kw) fuel k.
Proof. exact fresh_complex. Qed.

(** the protocol objects passed as prot= / protocol= / p= are caller data: no operation, and no
    history, writes their type_attrs (the keyword set of a derivation is a COPY of them, updated
    with the keywords: [eff_kw]) *)
Theorem C15_protocols_untouched : forall s o s' res,
  step s o = ROk (s', res) -> protos s' = protos s.
Proof. exact step_protos. Qed.

Theorem C15_protocols_untouched_history : forall ops s, protos (run s ops) = protos s.
Proof. exact run_protos. Qed.

(** calling a derived ByteArray type, T(kw), without naming an encoding is customize(): the new
    class has the encoding of T (unless the protocol defaults name one) *)
Theorem C15_call_keeps_encoding : forall s c r kw s' n,
  wf s -> lookup s c = Some r -> c_kind r = KSimple FByteArray ->
  call_simple s c kw = ROk (s', n) ->
  zassoc K_ENCODING kw = None -> requested K_ENCODING (eff_kw s kw) = None ->
  forall fuel, resolve_f (S fuel) (cl s') n K_ENCODING = resolve_f fuel (cl s) c K_ENCODING.
Proof. exact call_keeps_encoding. Qed.

(** Mandatory(cls) of any kind of class: the new class has min_occurs = 1 and is not nillable *)
Theorem C15_mandatory_is_mandatory : forall fuel s c s' n,
  inv s -> mandatory fuel s c = ROk (s', n) ->
  forall f, resolve_f (S f) (cl s') n K_MIN_OCCURS = Some (VInt 1) /\
            resolve_f (S f) (cl s') n K_NULLABLE = Some (VBool false).
Proof. exact mandatory_attrs. Qed.

(** Array(T, **kw) / Iterable(T, **kw): exactly one member, of type T or a class customized from
    T; the array carries kw over the attributes of Array / Iterable *)
Theorem C15_array_shape : forall s base t kw s' n,
  inv s -> make_array s base t kw = ROk (s', n) ->
  exists member ser,
    fields_of s' n = [(member, ser)] /\ root_of s' ser = root_of s t /\
    forall f k, resolve_f (S f) (cl s') n k = fresh_lookup s base (eff_kw s kw) f k.
Proof. exact array_shape. Qed.

(** customize() without child attributes: the same field table (same names, same order, the very
    same field types) and the same parent *)
Theorem C15_customize_keeps_fields : forall s c kw s' n,
  customize_plain s c kw = ROk (s', n) ->
  fields_of s' n = fields_of s c /\ get_extends s' n = get_extends s c.
Proof. exact customize_plain_fields. Qed.

(** customize() with child_attrs / child_attrs_all / child_attrs_noexc: the same field names in
    the same order, and every field type is the original's or a class customized from it *)
Theorem C15_customize_keeps_order : forall s c kw ca caa ne s' n r,
  inv s -> lookup s c = Some r -> is_simple (c_kind r) = false ->
  customize s c kw ca caa ne = ROk (s', n) ->
  fields_derive s (fields_of s c) s' (fields_of s' n).
Proof. exact customize_fields. Qed.

(** the keyword set Decimal._s_customize passes on (repaired code): every request is kept;
    max_str_len is the requested one, else total_digits + 2 when total_digits are requested, else
    not requested at all, i.e. inherited through [fresh_lookup] *)
Theorem C15_fresh_decimal_keywords : forall s c kw kw1,
  decimal_pre s c kw = ROk kw1 -> NoDup (map fst kw) ->
  (forall k, k <> K_MAX_STR_LEN -> requested k kw1 = requested k kw) /\
  requested K_MAX_STR_LEN kw1 =
    match kwget kw K_MAX_STR_LEN with
    | Some m => Some m
    | None => match kwget kw K_TOTAL_DIGITS with Some t => num_add2 t | None => None end
    end.
Proof. exact decimal_keywords. Qed.

(** ** field order *)
(** append_field puts a new name last and leaves a known name where it is; insert_field puts the
    name at the Python list index among the other names — in the class and in each of its variants;
    every other class keeps its field table *)
Theorem C15_order_append : forall s c k t s',
  inv s -> append_field s c k t = ROk s' ->
  forall x, 0 <= x < size s ->
    (In x (touched s (OAppend c k t)) -> keys (fields_of s' x) = G_append k (keys (fields_of s x))) /\
    (~ In x (touched s (OAppend c k t)) -> fields_of s' x = fields_of s x).
Proof. exact append_field_keys. Qed.

Theorem C15_order_insert : forall s c i k t s',
  inv s -> insert_field s c i k t = ROk s' ->
  forall x, 0 <= x < size s ->
    (In x (touched s (OInsert c i k t)) -> keys (fields_of s' x) = G_insert i k (keys (fields_of s x))) /\
    (~ In x (touched s (OInsert c i k t)) -> fields_of s' x = fields_of s x).
Proof. exact insert_field_keys. Qed.

(** the class statement: the own field table is the declared one, in declaration order *)
Theorem C15_order_declared : forall s parent name fs s' n,
  subclass s parent name fs = ROk (s', n) ->
  fields_of s' n = fs /\ NoDup (keys fs) /\
  ((fields_of s parent <> [] \/ get_extends s parent <> None) -> get_extends s' n = Some parent).
Proof. exact subclass_fields. Qed.

(** the flat field table (_get_flat_type_info): the parent's flat table first, then the own
    fields in their order; a name the parent already has keeps the parent's place *)
Theorem C15_order_flat : forall fuel l c r,
  nth_cls l c = Some r ->
  keys (flat_f (S fuel) l c) =
  first_ins (keys (match extends_f FUEL l c with Some p => flat_f fuel l p | None => [] end))
            (keys (c_fields r)).
Proof. exact flat_order. Qed.

Theorem C15_order_parents_first : forall fuel l c r,
  nth_cls l c = Some r -> NoDup (keys (c_fields r)) ->
  let parent := match extends_f FUEL l c with Some p => flat_f fuel l p | None => [] end in
  (forall k, In k (keys (c_fields r)) -> ~ In k (keys parent)) ->
  keys (flat_f (S fuel) l c) = keys parent ++ keys (c_fields r).
Proof. exact flat_order_disjoint. Qed.

Theorem C15_order_flat_distinct : forall fuel l c, NoDup (keys (flat_f fuel l c)).
Proof. exact flat_NoDup. Qed.

(** the odict: key order is first-insertion order; [insert] puts the key at the Python list
    index among the other keys; keys stay distinct *)
Theorem C15_odict_keys : forall (l items : list (text * cid)) i k v,
  keys (od_set k v l) = (if tmemk k (keys l) then keys l else keys l ++ [k]) /\
  keys (od_update l items) = first_ins (keys l) (keys items) /\
  keys (od_insert i k v l) = py_insert i k (remove_key k (keys l)) /\
  (NoDup (keys l) ->
   NoDup (keys (od_set k v l)) /\ NoDup (keys (od_update l items)) /\ NoDup (keys (od_insert i k v l))).
Proof.
  intros. split; [apply keys_od_set | split; [apply keys_od_update | split; [apply keys_od_insert |]]].
  intros. split; [apply NoDup_od_set; auto | split; [apply NoDup_od_update; auto | apply NoDup_od_insert; auto]].
Qed.

(** ** non-vacuity: concrete instances meeting the hypotheses (C15/ExStore.v) *)
Example C15_ex_invariants : inv ex0 /\ inv ex1 /\ size ex1 = 13.
Proof.
  split; [apply C15_invariants_decidable; reflexivity |].
  split; [apply C15_invariants_decidable; vm_compute; reflexivity | vm_compute; reflexivity].
Qed.

Example C15_ex_derivation :
  exists s', step ex1 (OMandatory 9) = ROk (s', Some 13) /\ is_derivation (OMandatory 9) = true /\
             same_view ex1 s' 9 /\ fields_of s' 13 <> fields_of s' 9.
Proof.
  destruct (step ex1 (OMandatory 9)) as [[s' r] | |] eqn:E; try (vm_compute in E; discriminate).
  assert (R : r = Some 13) by (vm_compute in E; inversion E; reflexivity). subst r.
  exists s'. split; [reflexivity | split; [reflexivity | split]].
  - eapply C15_frame_derivation; [| | exact E |].
    + apply C15_invariants_decidable; vm_compute; reflexivity.
    + reflexivity.
    + replace (size ex1) with 13 by (vm_compute; reflexivity). lia.
  - vm_compute in E. inversion E. subst s'. vm_compute. discriminate.
Qed.

Example C15_ex_history :
  forallb is_derivation ex_hist = true /\ same_view ex0 (run ex0 ex_hist) 3 /\
  size ex0 < size (run ex0 ex_hist).
Proof.
  split; [reflexivity | split].
  - apply C15_frame_derivations; [apply C15_invariants_decidable; reflexivity | | reflexivity].
    replace (size ex0) with 5 by (vm_compute; reflexivity). lia.
  - vm_compute. reflexivity.
Qed.

(** an evolution step: Integer (#3) refers to nothing, so it is undisturbed by it *)
Example C15_ex_undisturbed :
  undisturbed 3 ex1 [OAppend 5 t_z 3] /\ touched ex1 (OAppend 5 t_z 3) = [5; 6; 10; 12].
Proof.
  split; [| vm_compute; reflexivity].
  unfold undisturbed. split; [| exact I].
  intros z Z R.
  assert (E : z = 3).
  { eapply reaches_leaf; [| | | | exact R]; vm_compute; auto. }
  subst z. vm_compute in Z. destruct Z as [Z | [Z | [Z | [Z | []]]]]; discriminate.
Qed.

Example C15_ex_propagates :
  exists s', step ex1 (OAppend 5 t_z 3) = ROk (s', None) /\
    (forall x, In x [5; 6; 10; 12] -> exists t', tassoc t_z (fields_of s' x) = Some t' /\ root_of s' t' = 3) /\
    lookup s' 8 = lookup ex1 8.
Proof.
  destruct (step ex1 (OAppend 5 t_z 3)) as [[s' r] | |] eqn:E; try (vm_compute in E; discriminate).
  assert (R : r = None) by (vm_compute in E; inversion E; reflexivity). subst r.
  assert (I : inv ex1) by (apply C15_invariants_decidable; vm_compute; reflexivity).
  exists s'. split; [reflexivity | split].
  - intros x X.
    assert (P := C15_propagates ex1 _ s' None 5 t_z 3 I E (or_introl eq_refl) x).
    assert (RT : root_of ex1 3 = 3) by (vm_compute; reflexivity). rewrite RT in P.
    destruct X as [X | [X | [X | [X | []]]]]; subst x.
    + eapply P; [vm_compute; reflexivity | left; reflexivity].
    + eapply P; [vm_compute; reflexivity |]. right.
      split; [reflexivity | split; [reflexivity | split; [discriminate |]]].
      eexists. split; [vm_compute; reflexivity | reflexivity].
    + eapply P; [vm_compute; reflexivity |]. right.
      split; [reflexivity | split; [reflexivity | split; [discriminate |]]].
      eexists. split; [vm_compute; reflexivity | reflexivity].
    + eapply P; [vm_compute; reflexivity |]. right.
      split; [reflexivity | split; [reflexivity | split; [discriminate |]]].
      eexists. split; [vm_compute; reflexivity | reflexivity].
  - destruct (C15_evolution_records ex1 _ s' None I E) as [A _]. apply A.
    + replace (size ex1) with 13 by (vm_compute; reflexivity). lia.
    + vm_compute. intros [X | [X | [X | [X | []]]]]; discriminate.
Qed.

Example C15_ex_fresh :
  exists s' r', customize_simple ex0 3 [(K_GE, VInt 5); (K_MAX_OCCURS, VStr t_unbounded)] = ROk (s', 5) /\
    lookup s' 5 = Some r' /\
    resolve s' 5 K_GE = Some (VInt 5) /\ resolve s' 5 K_MAX_OCCURS = Some VInf /\
    resolve s' 5 K_MAX_STR_LEN = Some (VInt 1024) /\ resolve ex0 3 K_GE = Some VNegInf.
Proof. vm_compute. eexists. eexists. repeat split. Qed.

Example C15_ex_customize_order :
  exists r, lookup ex0 0 = Some r /\
  let s5 := run ex0 [OSubclass 0 t_K [(t_a, 3); (t_b, 4)]] in
  exists s' n, customize s5 5 [(K_MIN_OCCURS, VInt 1)] (Some [(t_a, [(K_MIN_OCCURS, VInt 1)])])
                         (Some [(K_NULLABLE, VBool false)]) (Some [(t_b, [(K_MAX_OCCURS, VInt 2)])])
               = ROk (s', n) /\
    keys (fields_of s' n) = [t_a; t_b] /\ fields_of s' n <> fields_of s5 5 /\
    exists kw1, decimal_pre ex0 3 [(K_TOTAL_DIGITS, VInt 5); (K_GE, VInt 0)] = ROk kw1 /\
                requested K_MAX_STR_LEN kw1 = Some (VInt 7).
Proof.
  eexists. split; [vm_compute; reflexivity |]. vm_compute.
  eexists. eexists. split; [reflexivity |]. split; [reflexivity |]. split; [discriminate |].
  eexists. split; reflexivity.
Qed.

Example C15_ex_evolution_order :
  exists s1 s2, append_field ex1 5 t_z 3 = ROk s1 /\ insert_field s1 5 1 t_K 4 = ROk s2 /\
    keys (fields_of s2 5) = [t_a; t_K; t_b; t_z] /\ keys (fields_of s2 12) = [t_a; t_K; t_b; t_z] /\
    keys (fields_of s2 8) = [t_z].
Proof. vm_compute. eexists. eexists. repeat split. Qed.

Example C15_ex_mandatory_array :
  match make_array ex0 1 3 [(K_MIN_OCCURS, VInt 2)] with
  | ROk (s1, a) =>
    match mandatory FUEL s1 a with
    | ROk (s2, m) =>
      Some (a, m, resolve s2 m K_MIN_OCCURS, resolve s2 a K_MIN_OCCURS,
            map snd (fields_of s2 m), map snd (fields_of s2 a),
            resolve s2 8 K_MIN_OCCURS, resolve s2 6 K_MIN_OCCURS)
    | _ => None
    end
  | _ => None
  end = Some (5, 7, Some (VInt 1), Some (VInt 2), [8], [6], Some (VInt 1), Some (VInt 0)).
Proof. vm_compute. reflexivity. Qed.

(** HexBlob = ByteArray(encoding='hex'); HexBlob(min_occurs=1) is still hex, named hexBinary;
    Unicode(prot=#0, max_len=3) gets min_occurs = 1 from the protocol and leaves the protocol alone,
    so that Unicode(prot=#0) afterwards has no max_len of 3 *)
Example C15_ex_call_and_prot :
  match call_simple ex0b 5 [(K_ENCODING, VStr t_hex)] with
  | ROk (s1, h) =>
    match call_simple s1 h [(K_MIN_OCCURS, VInt 1)] with
    | ROk (s2, h2) =>
      match call_simple s2 4 [(K_PROT, VInt 0); (K_MAX_LEN, VInt 3)] with
      | ROk (s3, u1) =>
        match call_simple s3 4 [(K_P, VInt 0)] with
        | ROk (s4, u2) =>
          Some (resolve s4 h2 K_ENCODING, get_tname s4 h2, resolve s4 h2 K_MIN_OCCURS,
                resolve s4 u1 K_MIN_OCCURS, resolve s4 u1 K_MAX_LEN, resolve s4 u1 K_PROT,
                resolve s4 u2 K_MIN_OCCURS, resolve s4 u2 K_MAX_LEN, resolve s4 u2 K_PROT, protos s4)
        | _ => None
        end
      | _ => None
      end
    | _ => None
    end
  | _ => None
  end = Some (Some (VStr t_enc_hex), Some (TStr t_hexBinary), Some (VInt 1),
              Some (VInt 1), Some (VInt 3), Some (VInt 0),
              Some (VInt 1), Some VInf, Some (VInt 0), protos ex0b).
Proof. vm_compute. reflexivity. Qed.

Example C15_ex_order :
  keys (flat ex1 8) = [t_a; t_b; t_z] /\ keys (fields_of ex1 8) = [t_z] /\
  keys (fields_of ex1 6) = keys (fields_of ex1 5).
Proof. vm_compute. repeat split. Qed.
