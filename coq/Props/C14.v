(** C14 — event hooks fire in documented order, exactly once, on success and failure.
    Property theorems only.  The request pipeline ([driver_prog]: WsgiApplication.handle_rpc and
    the ServerBase call sequence over generate_contexts / get_in_object / get_out_object /
    get_out_string / close, Application.process_request, MethodContext.__init__ / close, and the
    order in which MethodContext.fire_event reaches the managers, what MethodDescriptor.__init__
    puts into a descriptor's event_managers - and that nothing else writes to it) is GENERATED from the source
    on every run (Gen/Pipeline.v); [spec_ok], [wsgi_ok], [frame_ok] (C14/Spec.v) are the
    property text as a decision procedure on traces. *)
From SpyneV Require Import C14.Model C14.Spec C14.Drivers C14.Sweep C14.OSetProofs C14.Proofs C14.ListenerProofs.

(** TRACE THEOREM.  For the WSGI transport and for the ServerBase call sequence, for every
    outcome of the protocol steps and of the user function in the property's alphabet
    ([scen_adm]: a Fault from parsing / envelope / dispatch / argument decoding; a Fault or any
    other exception from the user function; on WSGI a Fault or any other exception from the
    serialiser of an eagerly serialising protocol — in any combination, for all four
    combinations of the two protocol-dependent facts), for EVERY set of event managers
    (application, service classes, method-level, in/out protocol, transport) however they were
    filled, every method descriptor, and every behaviour of the listeners in which only
    method_call / method_return_object listeners raise (a Fault or another exception, any
    listener, any position):
    the call returns, no code outside the model is reached, and the firing-level trace is:
    method_context_created first and method_context_closed last, each exactly once; the user
    function at most once and only after a method_call firing that completed;
    method_return_object fired iff the function ran and returned normally;
    method_exception_object fired iff the call ended in a fault; the trace ends with
    <x>_object, <x>_document, <x>_string, closed of the matching family and nothing of the
    other family's document / string events; no event fired twice; (WSGI) wsgi_call right
    after creation, exactly one of wsgi_return / wsgi_exception matching the outcome right
    before close, wsgi_close right after; deserialisation completed before the function *)
Theorem C14_trace_ok : forall drv sc parts w dms b,
  scen_adm (is_wsgi drv) sc = true -> quiet_beh b ->
  verdict drv sc (run (fire_world parts w dms b) sc (driver_prog drv)) = true.
Proof. exact trace_ok. Qed.

(** the same for an arbitrary fire function (whatever calling listeners means) *)
Theorem C14_trace_ok_any_fire : forall drv sc fire,
  scen_adm (is_wsgi drv) sc = true -> quiet fire ->
  verdict drv sc (run fire sc (driver_prog drv)) = true.
Proof. exact trace_ok_fire. Qed.

(** ServerBase has no fault path for a return value its out protocol cannot serialise: the
    full statement (serialiser failures allowed, [scen_adm true]) is FALSE for the ServerBase
    call sequence — C14_trace_ok above is the partial statement whose guard
    [is_wsgi drv || sc_ser sc = None] excludes exactly that region — ... *)
Theorem C14_serverbase_unserialisable_refuted :
  exists sc b, scen_adm true sc = true /\ quiet_beh b /\
    forall parts w dms, verdict DServerBase sc (run (fire_world parts w dms b) sc (driver_prog DServerBase)) = false.
Proof. exact sb_unserialisable_refuted. Qed.

(** ... and this is all that goes wrong there: either the serialiser is not reached with a
    return value (the trace is as specified), or the exception escapes get_out_string after the
    function ran once and method_return_object fired, and neither method_exception_object nor
    method_context_closed is ever fired *)
Theorem C14_serverbase_unserialisable_escapes : forall sc parts w dms b k,
  scen_adm true sc = true -> quiet_beh b -> sc_ser sc = Some k ->
  let out := run (fire_world parts w dms b) sc (driver_prog DServerBase) in
  verdict DServerBase sc out = true \/ escape_shape k out = true.
Proof. exact sb_unserialisable. Qed.

(** WHICH LISTENERS, IN WHICH ORDER.  A firing calls the handlers of the managers it reaches
    (ctx.fire_event: the generated order — application, then the method's managers, then the
    service class's; a manager's own fire_event: that manager), each once, in list order; if
    one raises, exactly the ones before it and itself were called.  Any managers, any listeners,
    any behaviours. *)
Theorem C14_listeners_in_order : forall parts w dms b t e d calls r,
  fire_world parts w dms b t e d = (calls, r) ->
  let hs := handlers_reached parts w dms t e d in
  match r with
  | None => calls = hs /\ forall h, In h hs -> b h e = None
  | Some k => exists pre h post, hs = pre ++ h :: post /\ calls = pre ++ [h] /\ b h e = Some k
                                 /\ forall h', In h' pre -> b h' e = None
  end.
Proof. exact listeners_in_order. Qed.

(** LISTENER-LEVEL FRAME of a call: what the application / service / method listeners and the
    user function see starts with every method_context_created listener (in order, once each)
    and ends with every method_context_closed listener of the application, with no call for
    either event in between *)
Theorem C14_created_first_closed_last : forall drv sc parts w dms b,
  scen_adm (is_wsgi drv) sc = true -> quiet_beh b ->
  exists mid,
    method_calls (fst (fst (run (fire_world parts w dms b) sc (driver_prog drv)))) =
      map (LCall Ecreated) (handlers_reached parts w dms TCtx Ecreated false)
      ++ mid ++ map (LCall Eclosed) (em_get (w_app w) Eclosed)
    /\ forallb (fun c => negb (call_is Ecreated c || call_is Eclosed c)) mid = true.
Proof. exact created_first_closed_last. Qed.

(** REGISTRATION ORDER: after any sequence of add_listener calls on a manager, the handlers of
    an event are the listeners registered for it, first registration of each, in order *)
Theorem C14_registration_order : forall ops e,
  em_get (add_all [] ops) e = dedup_first (regs_for e ops).
Proof. exact registration_order. Qed.

(** registering a listener again changes no handler list *)
Theorem C14_registered_twice_runs_once : forall m e h, In h (em_get m e) ->
  forall e', em_get (add_listener m e h) e' = em_get m e'.
Proof. exact registered_twice_runs_once. Qed.

(** after ANY registration program (class statements, manager creations, add_listener calls on
    any manager, in any order) no manager lists a listener twice for an event: with
    C14_listeners_in_order, a listener runs at most once per manager and firing *)
Theorem C14_world_handlers_nodup : forall prog w, reg_run world0 prog = Some w -> nodup_world w.
Proof. exact world_handlers_nodup. Qed.

(** INHERITANCE: a class statement creates a service class whose handlers, for every event, are
    the handlers its bases have at that moment (bases left to right, each listener once) and
    leaves every other manager unchanged *)
Theorem C14_inherited : forall w bases w', wf_world w -> reg_step w (RNewClass bases) = Some w' ->
  exists bs, opt_all (map (nth_error (w_cls w)) bases) = Some bs
    /\ w_cls w' = w_cls w ++ [base_event_handlers bs]
    /\ (forall e, em_get (base_event_handlers bs) e = dedup_first (concat (map (fun b => em_get b e) bs)))
    /\ w_app w' = w_app w /\ w_meth w' = w_meth w /\ w_tpt w' = w_tpt w
    /\ w_pin w' = w_pin w /\ w_pout w' = w_pout w.
Proof. exact inherited. Qed.

(** THE HANDLERS OF A SERVICE CLASS within ANY program (any statements before its class
    statement, any after): what its bases had when it was created, bases left to right, then
    what was registered on the class itself afterwards — first occurrence of each listener,
    in that order.  (Listeners added to a base after the subclass exists are not inherited.) *)
Theorem C14_class_handlers : forall pre bases post w1 w1' w2 e,
  reg_run world0 pre = Some w1 -> reg_step w1 (RNewClass bases) = Some w1' -> reg_run w1' post = Some w2 ->
  exists bs m, opt_all (map (nth_error (w_cls w1)) bases) = Some bs
    /\ nth_error (w_cls w2) (length (w_cls w1)) = Some m
    /\ em_get m e = dedup_first (concat (map (fun b => em_get b e) bs) ++ own_regs (length (w_cls w1)) e post).
Proof. exact class_handlers. Qed.

Theorem C14_inherited_member : forall bs b e h, Forall wf_em bs -> In b bs -> In h (em_get b e) ->
  In h (em_get (base_event_handlers bs) e).
Proof. exact inherited_member. Qed.

(* ------------------------------------------------------------------ non-vacuity *)
(** a base service with listener 10, a subclass (the called method's class) with 11 and 10
    again, a method-level manager with 20, application listeners 1, 2, 1 *)
Definition ex_prog : list regop :=
  [RNewMgr; RNewClass []; RAdd (MSvc 0) Ecall 10; RAdd (MSvc 0) Eexc_obj 10; RNewClass [0%nat];
   RAdd (MSvc 1) Ecall 11; RAdd (MSvc 1) Ecall 10; RAdd (MMeth 0) Ecall 20;
   RAdd MApp Ecreated 1; RAdd MApp Ecall 1; RAdd MApp Ecall 2; RAdd MApp Ecall 1; RAdd MApp Eclosed 1;
   RAdd MApp Eexc_obj 2].
Definition ex_desc : desc := {| d_mgrs := [0%nat]; d_cls := 1%nat |}.
Definition ex_sc (fn : option exk) : scen :=
  {| sc_recon := None; sc_create := None; sc_decomp := None; sc_dispatch := None; sc_deser := None; sc_fn := fn;
     sc_ser := None; sc_redirect := None; sc_after_on_fault := true; sc_doc_early := false; sc_opaque := false |}.
Definition ex_run (drv : driver) (sc : scen) (b : beh) :=
  match reg_run world0 ex_prog with
  | Some w => match desc_managers g_desc_parts w ex_desc with
              | Some dms => Some (run (fire_world g_ctx_fire_parts w dms b) sc (driver_prog drv))
              | None => None
              end
  | None => None
  end.
Definition ex_calls (drv : driver) (sc : scen) (b : beh) :=
  match ex_run drv sc b with Some (t, _, _) => method_calls t | None => [] end.

(** C14_trace_ok / C14_created_first_closed_last: the hypotheses hold on a run in which the
    service-level method_call listener 11 raises; the listeners see created, the method_call
    listeners in order up to 11 (10 once although registered on base and subclass), no
    function, then exception_object and closed *)
Example C14_ex_trace :
  let b : beh := fun h e => if (h =? 11) && ev_eqb e Ecall then Some KOther else None in
  scen_adm true (ex_sc None) = true
  /\ ex_calls DWsgi (ex_sc None) b =
       [LCall Ecreated 1; LCall Ecall 1; LCall Ecall 2; LCall Ecall 20; LCall Ecall 10; LCall Ecall 11;
        LCall Eexc_obj 2; LCall Eexc_obj 10; LCall Eclosed 1]
  /\ ex_calls DServerBase (ex_sc (Some KFault)) (fun _ _ => None) =
       [LCall Ecreated 1; LCall Ecall 1; LCall Ecall 2; LCall Ecall 20; LCall Ecall 10; LCall Ecall 11; LFunc;
        LCall Eexc_obj 2; LCall Eexc_obj 10; LCall Eclosed 1].
Proof. vm_compute. repeat split; reflexivity. Qed.

Example C14_ex_quiet_beh :
  quiet_beh (fun h e => if (h =? 11) && ev_eqb e Ecall then Some KOther else None).
Proof.
  intros h e k H. destruct ((h =? 11) && ev_eqb e Ecall) eqn:E; [|discriminate].
  apply andb_true_iff in E; destruct E as [_ E]. apply ev_eqb_eq in E. inversion H; subst. auto.
Qed.

Example C14_ex_any_fire : quiet (tabfire (Some KFault) None None (Some KOther))
  /\ verdict DWsgi (ex_sc None) (run (tabfire (Some KFault) None None (Some KOther)) (ex_sc None) (driver_prog DWsgi)) = true.
Proof.
  split; [|vm_compute; reflexivity].
  intros t e d k H. destruct t, e, d; simpl in H; try discriminate; inversion H; subst; auto.
Qed.

(** C14_serverbase_unserialisable_*: the witness is the plain success path with a serialiser failure *)
Example C14_ex_serverbase :
  scen_adm true sc_nul = true /\ scen_adm false sc_nul = false
  /\ escape_shape KOther (run (tabfire None None None None) sc_nul (driver_prog DServerBase)) = true
  /\ verdict DWsgi sc_nul (run (tabfire None None None None) sc_nul (driver_prog DWsgi)) = true.
Proof. vm_compute. repeat split; reflexivity. Qed.

(** C14_listeners_in_order: a ctx-level method_call firing with the descriptor set reaches
    application, method manager, service class; listener 20 raising cuts the calls after it *)
Example C14_ex_order :
  match reg_run world0 ex_prog with
  | Some w => match desc_managers g_desc_parts w ex_desc with
              | Some dms =>
                  handlers_reached g_ctx_fire_parts w dms TCtx Ecall true = [1; 2; 20; 10; 11]
                  /\ handlers_reached g_ctx_fire_parts w dms TCtx Ecall false = [1; 2]
                  /\ fire_world g_ctx_fire_parts w dms (fun h _ => if h =? 20 then Some KFault else None) TCtx Ecall true
                     = ([1; 2; 20], Some KFault)
              | None => False
              end
  | None => False
  end.
Proof. vm_compute. repeat split; reflexivity. Qed.

Example C14_ex_registration :
  em_get (add_all [] [(Ecall, 3); (Eret_obj, 9); (Ecall, 1); (Ecall, 3); (Ecall, 2)]) Ecall = [3; 1; 2]
  /\ regs_for Ecall [(Ecall, 3); (Eret_obj, 9); (Ecall, 1); (Ecall, 3); (Ecall, 2)] = [3; 1; 3; 2]
  /\ em_get (add_listener (add_all [] [(Ecall, 3); (Ecall, 1)]) Ecall 3) Ecall = [3; 1].
Proof. vm_compute. repeat split; reflexivity. Qed.

Example C14_ex_class_handlers :
  let pre := [RNewMgr; RNewClass []; RAdd (MSvc 0) Ecall 10; RAdd (MSvc 0) Eexc_obj 10] in
  let post := [RAdd (MSvc 1) Ecall 11; RAdd (MSvc 1) Ecall 10; RAdd (MSvc 0) Ecall 12; RAdd (MSvc 1) Ecall 11] in
  match reg_run world0 pre with
  | Some w1 => match reg_step w1 (RNewClass [0%nat]) with
               | Some w1' => match reg_run w1' post with
                             | Some w2 => length (w_cls w1) = 1%nat /\ own_regs 1 Ecall post = [11; 10; 11]
                                          /\ map (fun c => em_get c Ecall) (w_cls w2) = [[10; 12]; [10; 11]]
                             | None => False
                             end
               | None => False
               end
  | None => False
  end.
Proof. vm_compute. repeat split; reflexivity. Qed.

Example C14_ex_inherited :
  match reg_run world0 ex_prog with
  | Some w => map (fun c => em_get c Ecall) (w_cls w) = [[10]; [10; 11]]
              /\ map (fun c => em_get c Eexc_obj) (w_cls w) = [[10]; [10]]
  | None => False
  end.
Proof. vm_compute. repeat split; reflexivity. Qed.
