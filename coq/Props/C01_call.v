(** C01 — XML/SOAP wire fidelity at the CALL level: sent values reach the function, results reach
    the client.  Property theorems only; closed by [exact] of C01/CallProofs.v over the models
    C01/Call.v (server pipeline, message synthesis, envelopes, headers, client) and C01/XmlX.v. *)
From SpyneV Require Import C01.Univ C01.XmlX C01.LeafX C01.Call C01.CallSpec C01.XmlXProofs C01.LeafXProofs C01.CallProofs.
From SpyneV Require Import Gen.NumTypes.

(** For every leaf codec that is lossless on its domain, every protocol (XmlDocument, Soap11,
    Soap12), every validator setting (None, soft; lxml under the hypothesis that libxml2 accepts the
    request body the client writes), every class table and service whose synthesised class table
    is well-formed and whose method names are distinct, every method [m] of it of any body style,
    EVERY user function [f], all header values and arguments that conform to the declared types:
      - the request the client writes makes the server return normally with a call log of exactly
        one entry: [f] was invoked once, with ctx.in_header and the argument tuple equal to the
        sent values up to [norm] (absent = None, empty unwrapped sequence = None, b'' = None);
      - if the value [f] returned (and the out header it set) conform to the declared return types,
        the response document is read back by the client as exactly that value up to [norm].
    [s_tns Sv <> env_ns P]: the service does not live in the SOAP envelope namespace. *)
Theorem C01_call_fidelity : forall L : leaf_codec, leaf_sound L ->
  forall (P : proto) (V : vmode) (schema_valid : xnode -> bool) (U0 : universe) (Sv : service) (fuel : nat),
  wf_universe (synth U0 Sv) = true ->
  nodup_text (map m_name (s_methods Sv)) = true ->
  s_tns Sv <> env_ns P ->
  forall (i : nat) (m : method) (f : ufun) (hv : option (list val)) (args : list val) (ret : val) (oh : option (list val)),
  nth_error (s_methods Sv) i = Some m ->
  hdr_distinct (synth U0 Sv) (m_in_header m) = true ->
  hdr_distinct (synth U0 Sv) (m_out_header m) = true ->
  args_conf L U0 Sv fuel i m args = true ->
  hdrs_conf L U0 Sv fuel (m_in_header m) hv = true ->
  (V = ValLxml -> forall e, enc L (synth U0 Sv) fuel (fst (req_ty U0 i m)) (s_tns Sv) (m_name m) (req_value U0 i m args) = Ok e ->
                  schema_valid (wire e) = true) ->
  f (m_name m) (seen_header P U0 Sv fuel (m_in_header m) hv) (seen_args U0 Sv fuel i m args) = (ret, oh) ->
  ret_conf L U0 Sv fuel i m ret = true ->
  hdrs_conf L U0 Sv fuel (m_out_header m) oh = true ->
  exists req resp,
    client_request L P U0 Sv fuel i m hv args = Ok req
    /\ server L P V schema_valid U0 Sv fuel f (wire req)
       = RReturn [(m_name m, seen_header P U0 Sv fuel (m_in_header m) hv, seen_args U0 Sv fuel i m args)] resp
    /\ client_response L P V U0 Sv fuel i m (wire resp)
       = Ok (seen_ret U0 Sv fuel i m ret, seen_header P U0 Sv fuel (m_out_header m) oh).
Proof. exact call_fidelity_lemma. Qed.

(** the same with Spyne's primitive codecs as modelled for C08: no hypothesis on the codec is left *)
Theorem C01_call_fidelity_spyne :
  forall (P : proto) (V : vmode) (schema_valid : xnode -> bool) (U0 : universe) (Sv : service) (fuel : nat),
  wf_universe (synth U0 Sv) = true ->
  nodup_text (map m_name (s_methods Sv)) = true ->
  s_tns Sv <> env_ns P ->
  forall (i : nat) (m : method) (f : ufun) (hv : option (list val)) (args : list val) (ret : val) (oh : option (list val)),
  nth_error (s_methods Sv) i = Some m ->
  hdr_distinct (synth U0 Sv) (m_in_header m) = true ->
  hdr_distinct (synth U0 Sv) (m_out_header m) = true ->
  args_conf spyne_leaf U0 Sv fuel i m args = true ->
  hdrs_conf spyne_leaf U0 Sv fuel (m_in_header m) hv = true ->
  (V = ValLxml -> forall e, enc spyne_leaf (synth U0 Sv) fuel (fst (req_ty U0 i m)) (s_tns Sv) (m_name m) (req_value U0 i m args) = Ok e ->
                  schema_valid (wire e) = true) ->
  f (m_name m) (seen_header P U0 Sv fuel (m_in_header m) hv) (seen_args U0 Sv fuel i m args) = (ret, oh) ->
  ret_conf spyne_leaf U0 Sv fuel i m ret = true ->
  hdrs_conf spyne_leaf U0 Sv fuel (m_out_header m) oh = true ->
  exists req resp,
    client_request spyne_leaf P U0 Sv fuel i m hv args = Ok req
    /\ server spyne_leaf P V schema_valid U0 Sv fuel f (wire req)
       = RReturn [(m_name m, seen_header P U0 Sv fuel (m_in_header m) hv, seen_args U0 Sv fuel i m args)] resp
    /\ client_response spyne_leaf P V U0 Sv fuel i m (wire resp)
       = Ok (seen_ret U0 Sv fuel i m ret, seen_header P U0 Sv fuel (m_out_header m) oh).
Proof. exact (call_fidelity_lemma spyne_leaf spyne_leaf_sound). Qed.

(** non-vacuity: a service with a wrapped method (two parameters, two return values, one header
    class in, the same out), a bare method on a class and an out_bare method; the wrapped call over
    SOAP 1.2 with soft validation carries an absent optional argument, an empty unwrapped sequence
    and a header; all hypotheses hold and the three conclusions compute. *)
Definition lt_int : ltype := lt_integer.
Definition ex_U0 : universe :=
  [ mkcls [117] [72] None [ mkfield [116] (TLeaf lt_string) 0 (Some 1) true KElem None None ];
    mkcls [117] [75] None
      [ mkfield [105] (TLeaf lt_int) 1 (Some 1) true KAttr None None;
        mkfield [120] (TLeaf lt_boolean) 0 None true KElem None None ] ].
Definition ex_Sv : service :=
  mkservice [117; 114; 110; 58; 116]
    [ mkmethod [111; 112; 49] SWrapped
        [ mkfield [97] (TLeaf lt_int) 0 (Some 1) true KElem None None; mkfield [98] (TRef 1%nat) 0 (Some 2) true KElem None None ]
        [ mkfield [] (TLeaf lt_string) 0 (Some 1) true KElem None None; mkfield [] (TRef 1%nat) 0 (Some 1) true KElem None None ]
        [0%nat] [0%nat];
      mkmethod [111; 112; 50] SBare [ mkfield [107] (TRef 1%nat) 0 (Some 1) true KElem None None ]
        [ mkfield [] (TLeaf lt_int) 0 (Some 1) true KElem None None ] [] [];
      mkmethod [111; 112; 51] SOutBare [ mkfield [97] (TLeaf lt_int) 0 (Some 1) true KElem None None ]
        [ mkfield [] (TRef 1%nat) 0 (Some 1) true KElem None None ] [] [] ].
Definition ex_m : method := nth 0 (s_methods ex_Sv) (mkmethod [] SWrapped [] [] [] []).
Definition ex_args : list val := [VNone; VList []].
Definition ex_hv : option (list val) := Some [VObj 0%nat [VLeaf (LText [104; 105])]].
Definition ex_ret : val := VList [VLeaf (LText []); VObj 1%nat [VLeaf (LInt (-7)); VList [VLeaf (LBool true); VNone]]].
Definition ex_f : ufun := fun _ _ _ => (ex_ret, ex_hv).

Example C01_ex_call :
  wf_universe (synth ex_U0 ex_Sv) = true
  /\ nodup_text (map m_name (s_methods ex_Sv)) = true
  /\ hdr_distinct (synth ex_U0 ex_Sv) (m_in_header ex_m) = true
  /\ args_conf spyne_leaf ex_U0 ex_Sv 8 0 ex_m ex_args = true
  /\ hdrs_conf spyne_leaf ex_U0 ex_Sv 8 (m_in_header ex_m) ex_hv = true
  /\ ret_conf spyne_leaf ex_U0 ex_Sv 8 0 ex_m ex_ret = true
  /\ seen_args ex_U0 ex_Sv 8 0 ex_m ex_args = [VNone; VNone]
  /\ match client_request spyne_leaf PSoap12 ex_U0 ex_Sv 8 0 ex_m ex_hv ex_args with
     | Ok req =>
         match server spyne_leaf PSoap12 ValSoft (fun _ => true) ex_U0 ex_Sv 8 ex_f (wire req) with
         | RReturn log resp =>
             log_eqb log [(m_name ex_m, ex_hv, [VNone; VNone])]
             && out_eqb (fun a b => val_eqb (fst a) (fst b) && olist_eqb (snd a) (snd b))
                        (client_response spyne_leaf PSoap12 ValSoft ex_U0 ex_Sv 8 0 ex_m (wire resp))
                        (Ok (ex_ret, ex_hv))
         | _ => false
         end
     | _ => false
     end = true.
Proof. vm_compute. repeat split; reflexivity. Qed.

(** The statement about DOCUMENTS.  A request (response) on the wire is a sequence of character data,
    elements, comments and processing instructions ([dnode]); what it denotes under XML Schema is its
    comment- and PI-free reading ([denoted]); what the protocol is handed is what its lxml parser builds
    with the options of XmlDocument.__init__ ([parsed], generated flags).  Under the hypotheses of
    C01_call_fidelity, EVERY document that denotes the client's request makes the server invoke [f] exactly
    once with the sent values, and every document that denotes the response is read back as the returned
    value: comments / PIs between the items of an array or inside character data change nothing. *)
Theorem C01_call_documents : forall L : leaf_codec, leaf_sound L ->
  forall (P : proto) (V : vmode) (schema_valid : xnode -> bool) (U0 : universe) (Sv : service) (fuel : nat),
  wf_universe (synth U0 Sv) = true ->
  nodup_text (map m_name (s_methods Sv)) = true ->
  s_tns Sv <> env_ns P ->
  forall (i : nat) (m : method) (f : ufun) (hv : option (list val)) (args : list val) (ret : val) (oh : option (list val)),
  nth_error (s_methods Sv) i = Some m ->
  hdr_distinct (synth U0 Sv) (m_in_header m) = true ->
  hdr_distinct (synth U0 Sv) (m_out_header m) = true ->
  args_conf L U0 Sv fuel i m args = true ->
  hdrs_conf L U0 Sv fuel (m_in_header m) hv = true ->
  (V = ValLxml -> forall e, enc L (synth U0 Sv) fuel (fst (req_ty U0 i m)) (s_tns Sv) (m_name m) (req_value U0 i m args) = Ok e ->
                  schema_valid (wire e) = true) ->
  f (m_name m) (seen_header P U0 Sv fuel (m_in_header m) hv) (seen_args U0 Sv fuel i m args) = (ret, oh) ->
  ret_conf L U0 Sv fuel i m ret = true ->
  hdrs_conf L U0 Sv fuel (m_out_header m) oh = true ->
  exists req resp,
    client_request L P U0 Sv fuel i m hv args = Ok req
    /\ (forall d : dnode, denoted d = wire req ->
        server L P V schema_valid U0 Sv fuel f (parsed d)
        = RReturn [(m_name m, seen_header P U0 Sv fuel (m_in_header m) hv, seen_args U0 Sv fuel i m args)] resp)
    /\ (forall d : dnode, denoted d = wire resp ->
        client_response L P V U0 Sv fuel i m (parsed d)
        = Ok (seen_ret U0 Sv fuel i m ret, seen_header P U0 Sv fuel (m_out_header m) oh)).
Proof. exact call_fidelity_documents. Qed.

(** non-vacuity: the request of C01_ex_call with a comment before the content of every element, a PI inside
    every piece of character data and a comment after every child element ([decorate]) denotes that request,
    is NOT the tree a parser that keeps comments and PIs would build, and reaches [ex_f] with the same values *)
Example C01_ex_documents :
  match client_request spyne_leaf PSoap12 ex_U0 ex_Sv 8 0 ex_m ex_hv ex_args with
  | Ok req =>
      let d := decorate (wire req) in
      xnode_eqb (denoted d) (wire req)
      && negb (xnode_eqb (parse_doc false false d) (wire req))
      && match server spyne_leaf PSoap12 ValSoft (fun _ => true) ex_U0 ex_Sv 8 ex_f (parsed d) with
         | RReturn log resp =>
             log_eqb log [(m_name ex_m, ex_hv, [VNone; VNone])]
             && out_eqb (fun a b => val_eqb (fst a) (fst b) && olist_eqb (snd a) (snd b))
                        (client_response spyne_leaf PSoap12 ValSoft ex_U0 ex_Sv 8 0 ex_m (parsed (decorate (wire resp))))
                        (Ok (ex_ret, ex_hv))
         | _ => false
         end
  | _ => false
  end = true.
Proof. vm_compute. reflexivity. Qed.

(** The arguments of a client call.  client.service.f( *pos, **kw ) writes the request of the argument tuple in which the
    sequential arguments fill the parameters in order, every name-based argument that is passed takes its parameter
    WHATEVER its value (0, False, '' and the empty sequence included) and a parameter passed neither way is None; with
    C01_call_fidelity, those are the values that reach the function. *)
Theorem C01_call_named_args : forall (L : leaf_codec) (P : proto) (U0 : universe) (Sv : service) (fuel : nat)
  (i : nat) (m : method) (hv : option (list val)) (pos : list val) (kw : list (text * val)),
  client_request_named L P U0 Sv fuel i m hv pos kw
  = client_request L P U0 Sv fuel i m hv (merge_args MergeKwWins (map f_name (m_params m)) pos kw).
Proof. exact client_named_args. Qed.

(** non-vacuity: f(5, b=False) and f(a=0) keep the falsy name-based values; the truthiness rule would lose them *)
Example C01_ex_named_args :
  merge_args MergeKwWins [[97]; [98]] [VLeaf (LInt 5)] [([98], VLeaf (LBool false))] = [VLeaf (LInt 5); VLeaf (LBool false)]
  /\ merge_args MergeKwWins [[97]; [98]] [] [([97], VLeaf (LInt 0))] = [VLeaf (LInt 0); VNone]
  /\ merge_args MergeKwWins [[97]; [98]] [VLeaf (LInt 5)] [([97], VLeaf (LInt 0))] = [VLeaf (LInt 0); VNone]
  /\ merge_args MergeKwTruthyWins [[97]; [98]] [VLeaf (LInt 5)] [([97], VLeaf (LInt 0))] = [VLeaf (LInt 5); VNone].
Proof. vm_compute. repeat split; reflexivity. Qed.
