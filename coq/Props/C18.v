(** C18 — calling a method through NullServer behaves like calling it over the wire.
    Property theorems only.

    Reading guide.  [decorate] is what @rpc/@srpc makes of a declaration (body style, in/out
    message classes); [null_call] is server.service.<key>(args..., kwargs...) on a NullServer;
    [wire_call xfer p] is a reference client sending the same call through protocol p
    (PXml = XmlDocument, PSoap = Soap11, PHier = JsonDocument/Yaml/MessagePack) to the ServerBase
    pipeline and decoding the reply; [xfer] is the protocol's codec of whole messages, assumed to
    carry the two messages of the call unchanged ([codec_carries]: C01 / C02).  The user function
    is an arbitrary [f]; [fun_fits] says its return value has the declared arity.
    [outcome_rel]: same sequence of returned values (tuple / list / generator alike) or same
    fault.  [ref_trace]: method_call, the function entered with [delivered] arguments,
    method_return_object / method_exception_object.

    The if/elif chains of _cb_sync, process_request and get_out_object, is_out_bare(), the
    event names and the field table NullServer uses are the generated Gen/NullSrv.v. *)
From SpyneV Require Import C18.Spec C18.Proofs.

(** message class synthesis per body style (decorator.py) *)
Theorem C18_decorate_shapes : forall U dc d, decorate U dc = Ok d -> shape d.
Proof. exact decorate_shape. Qed.

(** the property, for every protocol, outside the two regions where the pinned WIRE side cannot
    carry the call at all ([wire_supported]: non-wrapped replies over plain XmlDocument while
    XmlDocument.serialize hands the list to the serializer; bare requests over HierDictDocument) *)
Theorem C18_null_eq_wire_partial : forall xfer tns U p dcs ms key d hs f args kw,
  decorate_all U dcs = Ok ms ->
  find_method ms key = Some d ->
  null_supported U d -> wire_supported U p d ->
  call_ok (param_names U d) args kw ->
  hdr_ok p d hs ->
  codec_carries xfer U p d (hdr_of hs) f args kw ->
  fun_fits U d (hdr_of hs) f args kw ->
  outcome_rel (fst (null_call U ms key (hdr_of hs) f args kw))
              (fst (wire_call xfer tns U p ms key hs f args kw))
  /\ app_trace (snd (null_call U ms key (hdr_of hs) f args kw)) = ref_trace U d (hdr_of hs) f args kw
  /\ app_trace (snd (wire_call xfer tns U p ms key hs f args kw)) = ref_trace U d (hdr_of hs) f args kw.
Proof. exact null_eq_wire. Qed.

(** full strength against Soap11: every supported body style, headers included *)
Theorem C18_null_eq_wire_soap : forall xfer tns U dcs ms key d hs f args kw,
  decorate_all U dcs = Ok ms -> find_method ms key = Some d ->
  null_supported U d ->
  call_ok (param_names U d) args kw ->
  hdr_ok PSoap d hs ->
  codec_carries xfer U PSoap d (hdr_of hs) f args kw ->
  fun_fits U d (hdr_of hs) f args kw ->
  outcome_rel (fst (null_call U ms key (hdr_of hs) f args kw))
              (fst (wire_call xfer tns U PSoap ms key hs f args kw))
  /\ app_trace (snd (null_call U ms key (hdr_of hs) f args kw)) = ref_trace U d (hdr_of hs) f args kw
  /\ app_trace (snd (wire_call xfer tns U PSoap ms key hs f args kw)) = ref_trace U d (hdr_of hs) f args kw.
Proof. exact null_eq_wire_soap. Qed.

(** full strength against XmlDocument as soon as its serialize() takes ctx.out_object[0] *)
Theorem C18_null_eq_wire_xml_when_first : forall xfer tns U dcs ms key d f args kw,
  xml_nonwrapped = NWFirst ->
  decorate_all U dcs = Ok ms -> find_method ms key = Some d ->
  null_supported U d ->
  call_ok (param_names U d) args kw ->
  codec_carries xfer U PXml d None f args kw ->
  fun_fits U d None f args kw ->
  outcome_rel (fst (null_call U ms key None f args kw))
              (fst (wire_call xfer tns U PXml ms key [] f args kw))
  /\ app_trace (snd (null_call U ms key None f args kw)) = ref_trace U d None f args kw
  /\ app_trace (snd (wire_call xfer tns U PXml ms key [] f args kw)) = ref_trace U d None f args kw.
Proof. exact null_eq_wire_xml_when_first. Qed.

(** the region excluded for the dict-document protocols is a real disagreement (known finding) *)
Theorem C18_hier_bare_request_refuted :
  exists U dcs ms key d args kw,
    decorate_all U dcs = Ok ms /\ find_method ms key = Some d /\ null_supported U d /\
    call_ok (param_names U d) args kw /\
    forall f, ~ In (EvUser None (delivered U d args kw)) (snd (wire_call xfer_id [117] U PHier ms key [] f args kw))
              /\ In (EvUser None (delivered U d args kw)) (snd (null_call U ms key None f args kw)).
Proof. exact hier_bare_request_refuted. Qed.

(** keyword and positional invocation are equivalent *)
Theorem C18_kw_eq_pos : forall U dcs ms key d h f args kw,
  decorate_all U dcs = Ok ms -> find_method ms key = Some d ->
  null_supported U d -> call_ok (param_names U d) args kw ->
  null_call U ms key h f args kw = null_call U ms key h f (bind_args (param_names U d) args kw) [].
Proof. exact kw_eq_pos. Qed.

(** an Ignored return is delivered to the direct caller and sent as empty over the wire *)
Theorem C18_ignored : forall xfer tns U p dcs ms key d hs f args kw pl,
  decorate_all U dcs = Ok ms ->
  find_method ms key = Some d ->
  null_supported U d -> wire_supported U p d ->
  call_ok (param_names U d) args kw ->
  hdr_ok p d hs ->
  f (hdr_of hs) (delivered U d args kw) = URet (PIgnored pl) ->
  (forall r, client_request U d args kw = Ok r -> xfer p (md_in d) r = Ok r) ->
  (forall m, srv_response U p d (out_object_of d (PIgnored pl)) = Ok m -> xfer p (md_out d) m = Ok m) ->
  fst (null_call U ms key (hdr_of hs) f args kw) = Returned (PIgnored pl)
  /\ fst (wire_call xfer tns U p ms key hs f args kw) = Returned (empty_result U d).
Proof. exact ignored_direct_and_empty_on_wire. Qed.

(** NullServer(ostr=True) returns the response the wire server writes, Ignored included *)
Theorem C18_ostr_is_the_wire_response : forall U p dcs ms key d h f args kw x,
  decorate_all U dcs = Ok ms ->
  find_method ms key = Some d ->
  null_supported U d ->
  call_ok (param_names U d) args kw ->
  f h (delivered U d args kw) = URet x ->
  (ret_fits d x = true \/ exists pl, x = PIgnored pl) ->
  fst (null_call_ostr U p ms key h f args kw) =
    match srv_response U p d (out_object_of d x) with
    | Ok m => ReturnedDoc m
    | Crash e => Crashed e
    | VFault => Raised validation_error
    end.
Proof. exact ostr_is_the_wire_response. Qed.

(** an unknown method name is a Client.ResourceNotFound fault on both paths (the wire names the
    resource by its qualified name) *)
Theorem C18_unknown_method : forall xfer tns U p ms key hs h f args kw,
  find_method ms key = None ->
  fst (null_call U ms key h f args kw) = Raised (resource_not_found key)
  /\ fst (wire_call xfer tns U p ms key hs f args kw) = Raised (resource_not_found (qname tns key))
  /\ snd (null_call U ms key h f args kw) = [].
Proof. exact unknown_method_same_fault. Qed.

(** outside conformance: more positional arguments than parameters is an IndexError in NullServer *)
Theorem C18_null_too_many_args : forall U ms key d h f args kw ti,
  find_method ms key = Some d ->
  msg_type_info U null_ti_source (md_in d) = Ok ti ->
  (length ti < length args)%nat ->
  null_call U ms key h f args kw = (Crashed IndexError, []).
Proof. exact null_too_many_args. Qed.

(** why the two repairs were needed (statements about the pinned variants, independent of the tree) *)
Theorem C18_own_type_info_refuted :
  exists U dcs ms key d args kw,
    decorate_all U dcs = Ok ms /\ find_method ms key = Some d /\ null_supported U d /\
    call_ok (param_names U d) args kw /\
    forall f, ~ In (EvUser None (delivered U d args kw)) (snd (null_call_gen TIOwn U ms key None f args kw)).
Proof. exact own_type_info_refuted. Qed.

Theorem C18_ignored_empty_tuple_refuted : forall U nm fs g1 g2 gs nh pl,
  let d := mkdesc nm BWrapped (MWrap fs) (MWrap (g1 :: g2 :: gs)) nh in
  let pinned := [(CIgnoredHead, IgnOneNone); (CIsIgnored, IgnEmptyTuple)] in
  (do o <- srv_ignored_gen pinned U d (out_object_of d (PIgnored pl)); resp_value U PXml d o) = Crash IndexError
  /\ (do o <- srv_ignored_gen pinned U d (out_object_of d (PIgnored pl)); resp_value U PHier d o) = Crash IndexError.
Proof. exact ignored_empty_tuple_refuted. Qed.

(* ------------------------------------------------------------------ non-vacuity *)
(** a service over class K(a, b) and D(K)(c): a wrapped method with two parameters and two return
    values, the bare method bd(D) -> D, an out_bare method and an EMPTY one *)
Definition ex_dcs : list decl :=
  [ mkdecl [119] DWrapped [([97], TPrim PInt); ([98], TPrim PText)] (RetMany [TPrim PInt; TPrim PText]) 1;
    mkdecl [98; 100] DBare [([107], TRef 1%nat)] (RetOne (TRef 1%nat)) 0;
    mkdecl [111] DOutBare [([97], TPrim PInt)] (RetOne (TRef 0%nat)) 0;
    mkdecl [101] DBare [] RetNone 0 ].
Definition ex_ms : list descriptor :=
  match decorate_all U_inh ex_dcs with Ok ms => ms | _ => [] end.
(** echoes two arguments as a tuple, one argument as itself *)
Definition ex_f : ufun := fun h a =>
  match a with
  | [PVal x; PVal y] => URet (PTuple [x; y])
  | [x] => URet x
  | _ => URet (PVal VNone)
  end.

Example C18_ex_decorate :
  map md_style ex_ms = [BWrapped; BBare; BOutBare; BEmpty] /\ length ex_ms = 4%nat.
Proof. vm_compute. split; reflexivity. Qed.

Example C18_ex_null_eq_wire :
  let d := mkdesc [119] BWrapped (MWrap [([97], TPrim PInt); ([98], TPrim PText)])
                  (MWrap [([119; 82; 101; 115; 117; 108; 116; 48], TPrim PInt);
                          ([119; 82; 101; 115; 117; 108; 116; 49], TPrim PText)]) 1 in
  let args := [VLeaf (LInt 3)] in
  let kw := [([98], VLeaf (LText [120]))] in
  let hs := [VObj 0%nat [VLeaf (LInt 1); VNone]] in
  decorate_all U_inh ex_dcs = Ok ex_ms /\ find_method ex_ms [119] = Some d
  /\ null_supported U_inh d /\ wire_supported U_inh PSoap d /\ call_ok (param_names U_inh d) args kw
  /\ hdr_ok PSoap d hs /\ codec_carries xfer_id U_inh PSoap d (hdr_of hs) ex_f args kw
  /\ fun_fits U_inh d (hdr_of hs) ex_f args kw
  /\ fst (null_call U_inh ex_ms [119] (hdr_of hs) ex_f args kw) = Returned (PTuple [VLeaf (LInt 3); VLeaf (LText [120])])
  /\ fst (wire_call xfer_id [117] U_inh PSoap ex_ms [119] hs ex_f args kw) = Returned (PTuple [VLeaf (LInt 3); VLeaf (LText [120])])
  /\ ref_trace U_inh d (hdr_of hs) ex_f args kw =
       [EvFire MethodCall;
        EvUser (Some (HOne (VObj 0%nat [VLeaf (LInt 1); VNone]))) [PVal (VLeaf (LInt 3)); PVal (VLeaf (LText [120]))];
        EvFire MethodReturnObject].
Proof.
  cbv zeta. repeat split; try reflexivity.
  - right. reflexivity.
  - cbn. auto.
  - intros k Hin. cbn in Hin. destruct Hin as [<-|[]]. reflexivity.
  - right. split; reflexivity.
  - intros x Hx. vm_compute in Hx. inversion Hx. reflexivity.
Qed.

Example C18_ex_bare_inherited_and_kw :
  let args := [VLeaf (LInt 1)] in
  let kw := [([99], VLeaf (LBool true))] in
  find_method ex_ms [98; 100] = Some d_bd
  /\ call_ok (param_names U_inh d_bd) args kw
  /\ delivered U_inh d_bd args kw = [PVal (VObj 1%nat [VLeaf (LInt 1); VNone; VLeaf (LBool true)])]
  /\ null_call U_inh ex_ms [98; 100] None ex_f args kw
     = null_call U_inh ex_ms [98; 100] None ex_f [VLeaf (LInt 1); VNone; VLeaf (LBool true)] []
  /\ fst (wire_call xfer_id [117] U_inh PSoap ex_ms [98; 100] [] ex_f args kw)
     = fst (null_call U_inh ex_ms [98; 100] None ex_f args kw).
Proof.
  cbv zeta. repeat split; try reflexivity.
  - cbn. auto.
  - intros k Hin. cbn in Hin. destruct Hin as [<-|[]]. reflexivity.
Qed.

Example C18_ex_ignored_and_ostr :
  let fi : ufun := fun _ _ => URet (PIgnored (VLeaf (LText [120]))) in
  fst (null_call U_inh ex_ms [119] None fi [VLeaf (LInt 3)] []) = Returned (PIgnored (VLeaf (LText [120])))
  /\ fst (wire_call xfer_id [117] U_inh PXml ex_ms [119] [] fi [VLeaf (LInt 3)] []) = Returned (PTuple [VNone; VNone])
  /\ fst (wire_call xfer_id [117] U_inh PHier ex_ms [111] [] fi [VLeaf (LInt 3)] []) = Returned (PVal VNone)
  /\ fst (null_call_ostr U_inh PSoap ex_ms [119] None fi [VLeaf (LInt 3)] []) = ReturnedDoc (RWrap [VNone; VNone])
  /\ fst (null_call_ostr U_inh PHier ex_ms [111] None ex_f [VLeaf (LInt 3)] []) = ReturnedDoc (RBare (VLeaf (LInt 3))).
Proof. vm_compute. repeat split; reflexivity. Qed.

Example C18_ex_unknown_and_too_many :
  find_method ex_ms [122] = None
  /\ fst (null_call U_inh ex_ms [122] None ex_f [] []) = Raised (resource_not_found [122])
  /\ null_call U_inh ex_ms [119] None ex_f [VNone; VNone; VNone] [] = (Crashed IndexError, []).
Proof. vm_compute. repeat split; reflexivity. Qed.
