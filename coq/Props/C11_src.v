(** C11 — the tie between coq/C11/Model.v and the tokens of the Spyne source that decide which function a
    request runs.  Gen/RouteKeys.v is regenerated from the working tree on every run by
    harness/translate/routekeys.py (fail closed: any statement of the listed functions that is not the one the
    model mirrors makes rk_shape_ok false).  Property theorems only. *)
From Coq Require Import ZArith List Bool.
From SpyneV Require Import Base.Prelude C11.SrcLang C11.Model Gen.RouteKeys C11.SourceTie.
Import ListNotations.
Open Scope Z_scope.

(** process_method, get_call_handles, generate_method_contexts, the four gen_method_request_string /
    decompose_incoming_envelope sites, XmlDocument/Soap11 (.tag), check_unique_method_keys, HttpBase.__init__
    and HttpBase.match_pattern have, statement for statement, the shape the model mirrors *)
Theorem C11_src_shape : rk_shape_ok = true.
Proof. exact src_shape. Qed.

(** the route key of process_method and every protocol's method_request_string are "{tns}name", for all tns, name *)
Theorem C11_src_formats : forall tns n,
  render rk_pm_fmt [tns; n] = Some (method_key tns n)
  /\ render rk_gch_fmt [tns; n] = Some (method_key tns n)
  /\ render rk_dictdoc_fmt [tns; n] = Some (method_key tns n)
  /\ render rk_msgpackdoc_fmt [tns; n] = Some (method_key tns n)
  /\ render rk_msgpackrpc_fmt [tns; n] = Some (method_key tns n)
  /\ render rk_wsgi_fmt [tns; n] = Some (method_key tns n).
Proof. exact src_formats. Qed.

(** get_call_handles with the None guard, the prefix test and the format found in the source is the model's,
    for all inputs *)
Theorem C11_src_get_call_handles : forall tns t mrs,
  get_call_handles_src tns t mrs = Some (get_call_handles_opt tns t mrs).
Proof. exact src_get_call_handles. Qed.

(** process_method with the format and the insert index found in the source is the model's, for all inputs *)
Theorem C11_src_process_method : forall tns st d,
  0 <= rk_pm_insert_index /\ process_method_src tns st d = Some (process_method tns st d).
Proof. exact src_process_method. Qed.

(** HttpRpc's fallback name is the text after the last '/' *)
Theorem C11_src_last_segment : rk_wsgi_sep = [SLASH] /\ rk_wsgi_idx = -1.
Proof. exact src_last_segment. Qed.

(** non-vacuity: the extracted format renders a key; the extracted lookup finds a handler and misses a near miss *)
Example C11_src_ex :
  render rk_pm_fmt [[117; 114; 110]; [102]] = Some [123; 117; 114; 110; 125; 102]
  /\ get_call_handles_src [117] [([123; 117; 125; 102], [])] (Some [102]) = Some []
  /\ get_call_handles_src [117] [] None = Some []
  /\ rk_gch_prefix = [123] /\ rk_pm_insert_index = 0.
Proof. repeat split. Qed.
