(** C03 — HttpRpc flat key/value fidelity.  Property theorems only.

    Model (coq/C03/Model.v): _s2cmi, RE_HTTP_ARRAY_INDEX.sub/findall/split, _natural_key,
    sorted(), simple_dict_to_object (both strict_arrays branches), get_simple_type_info,
    object_to_simple_dict, _parse_qs with urllib.parse.unquote on ASCII escapes.
    Specification (coq/C03/Spec.v): sparse values [sval] (what the client means), their
    spelling in the documented notation [spell], the value the user function must receive
    [compact_fields], covered signatures [wf_sig], admissible query-string encodings [enc_qs]. *)
From Coq Require Import ZArith List Bool Sorted Permutation.
From SpyneV Require Import Base.Prelude C03.Model C03.Check C03.Spec C03.S2cmi C03.Unflat C03.Request C03.Flatten C03.Refute C03.Response.
Import ListNotations.
Open Scope Z_scope.

(** every array stays in index order whatever the order of arrival: after ANY sequence of sparse
    indexes the element list is strictly increasing, holds exactly the indexes that arrived, and
    _s2cmi's map sends each index to the position of its element (the number of smaller indexes) *)
Theorem C03_s2cmi_rank : forall idxs m l, arr_run idxs = (m, l) ->
  StronglySorted Z.lt l /\
  (forall i, In i l <-> In i idxs) /\
  (forall i, In i idxs ->
     exists c, zget m i = Some c /\ 0 <= c /\ nth_error l (Z.to_nat c) = Some i /\
               c = Z.of_nat (length (filter (fun x => x <? i) l))).
Proof. exact s2cmi_rank. Qed.

(** for every covered signature (nested objects, arrays of objects, primitive arrays, any
    hier_delim without '['), both strict_arrays settings, every conformant value (any increasing
    sparse labels; contiguous when strict; primitive arrays as repeated keys or indexed keys) and
    EVERY permutation of the pairs of its spelling, simple_dict_to_object succeeds and the user
    function receives exactly that value, every array in index order *)
Theorem C03_request_fidelity : forall strict d fs vs doc,
  wf_sig d fs = true -> conf_fields strict fs vs = true ->
  Permutation doc (spell d fs vs) ->
  exists o, unflatten true strict d fs doc = Ok o /\ erase_obj o = compact_fields fs vs.
Proof. exact request_fidelity. Qed.

(** _parse_qs returns the pairs grouped by key for every admissible encoding of every pair
    sequence ('&' or ';' separators, empty pieces, '+' for space, %XX in either case) *)
Theorem C03_qs_roundtrip : forall pairs qs, enc_qs pairs qs -> parse_qs qs = Some (gsome (group pairs)).
Proof. exact qs_roundtrip. Qed.

(** end to end over a GET: any query string that encodes, in any order, the pairs spelling the value *)
Theorem C03_get_fidelity : forall strict d fs vs pairs qs,
  wf_sig d fs = true -> conf_fields strict fs vs = true ->
  enc_qs pairs qs -> Permutation (group pairs) (spell d fs vs) ->
  run_get true strict d fs qs = Some (Ok (compact_fields fs vs)).
Proof. exact get_fidelity. Qed.

(** conversely: what object_to_simple_dict writes for an object, sent back as pairs in any order,
    gives an equal object *)
Theorem C03_flatten_roundtrip : forall strict d fs inst doc,
  wf_sig d fs = true -> typed_obj fs inst = true ->
  Permutation doc (sent_doc (flatten d fs inst)) ->
  exists o, unflatten true strict d fs doc = Ok o /\ erase_obj o = inst.
Proof. exact flatten_roundtrip. Qed.

(** the response to a call that returns one primitive: for every header class of primitive members
    and arrays of primitives and every header object, each member that is set reaches start_response
    with its exact text (an array as one header line per element, in order), a member that is not set
    leaves what the transport had, Content-Length is the decimal length of the body, and the body is
    exactly the chunks written for the return value *)
Theorem C03_response_fidelity : forall base hfs hinst chunks,
  NoDup (map fst base) -> NoDup (map fst hfs) -> flat_class hfs -> ~ In CONTENT_LENGTH (map fst hfs) ->
  snd (http_response base hfs hinst chunks) = concat chunks /\
  hdr_lookup CONTENT_LENGTH (fst (http_response base hfs hinst chunks)) = [str_idx (len (concat chunks))] /\
  forall k arr, In (k, TPrim arr) hfs ->
    hdr_lookup k (fst (http_response base hfs hinst chunks)) =
    match member_value arr (getd hinst k) with
    | Some f => fval_values f
    | None => hdr_lookup k (gen_http_headers base)
    end.
Proof. exact response_fidelity. Qed.

(** a DateTime header (Expires, Last-Modified, ...) is written as the RFC 7231 date of the INSTANT the value
    denotes (Model.imf_fixdate: the value is taken to UTC first, whatever offset it carried); for every instant
    of the years 1900-2199 the calendar date and time of day written denote exactly that instant *)
Theorem C03_header_date_instant : forall e, -2208988800 <= e < 7258118400 ->
  instant_of_fields (imf_fields e) = e /\
  let '(y, m, d, hh, mi, ss) := imf_fields e in
  1 <= y <= 9999 /\ 1 <= m <= 12 /\ 1 <= d <= 31 /\ 0 <= hh < 24 /\ 0 <= mi < 60 /\ 0 <= ss < 60.
Proof. exact header_date_instant. Qed.

(** the defect of the pinned tree (plain string sort of the keys; repaired by the proposed fix):
    the documented indexed notation with more than ten elements is scrambled ... *)
Theorem C03_request_fidelity_pinned_refuted :
  exists strict d fs vs, wf_sig d fs = true /\ conf_fields strict fs vs = true /\
    ~ (exists o, unflatten false strict d fs (spell d fs vs) = Ok o /\ erase_obj o = compact_fields fs vs).
Proof. exact pinned_sort_refuted. Qed.
(** ... and rejected outright under strict_arrays=True *)
Theorem C03_request_fidelity_pinned_strict_refuted :
  exists d fs vs, wf_sig d fs = true /\ conf_fields true fs vs = true /\
    unflatten false true d fs (spell d fs vs) = VFault.
Proof. exact pinned_sort_strict_refuted. Qed.

(** the full converse statement (every object) is refuted by the values the notation cannot
    carry: an empty primitive array and an object with no member set come back as None;
    C03_flatten_roundtrip is the statement under the guard [typed_obj] that excludes exactly those *)
Theorem C03_flatten_roundtrip_refuted :
  exists d fs inst1 inst2, wf_sig d fs = true /\
    names_eqb (map fst inst1) (map fst fs) = true /\ names_eqb (map fst inst2) (map fst fs) = true /\
    ~ (exists o, unflatten true false d fs (sent_doc (flatten d fs inst1)) = Ok o /\ erase_obj o = inst1) /\
    ~ (exists o, unflatten true false d fs (sent_doc (flatten d fs inst2)) = Ok o /\ erase_obj o = inst2).
Proof. exact unspellable_refuted. Qed.

(* ------------------------------------------------------------------ non-vacuity *)
Definition ex_d : text := [46].                                   (* "." *)
Definition ex_fs : list (text * ty) :=
  [([120; 115], TPrim true);                                      (* xs : Array(primitive) *)
   ([112; 115], TObj true [([105], TPrim false); ([113], TObj false [([115], TPrim false)])])].
                                                                  (* ps : Array({i, q: {s}}) *)
Definition ex_vs : list sval :=
  [SIdx (map (fun i => (i, str_idx (100 + i))) [0; 1; 2; 3; 4; 5; 6; 7; 8; 9; 10; 11]);
   SArr [(2, SObj [SStr [55]; SNone]); (10, SObj [SNone; SObj [SStr [120]]]); (11, SObj [SStr [56]; SNone])]].

Example C03_ex_s2cmi : arr_run [11; 2; 0; 10; 3; 2] = ([(11, 4); (2, 1); (0, 0); (10, 3); (3, 2)], [0; 2; 3; 10; 11]).
Proof. vm_compute. reflexivity. Qed.

(** twelve indexed primitives and a sparse array of nested objects, pairs in reverse order *)
Example C03_ex_request :
  wf_sig ex_d ex_fs = true /\ conf_fields false ex_fs ex_vs = true /\
  Permutation (rev (spell ex_d ex_fs ex_vs)) (spell ex_d ex_fs ex_vs) /\
  option_map erase_obj (match unflatten true false ex_d ex_fs (rev (spell ex_d ex_fs ex_vs)) with Ok o => Some o | _ => None end)
    = Some (compact_fields ex_fs ex_vs) /\
  length (spell ex_d ex_fs ex_vs) = 15%nat.
Proof.
  split; [vm_compute; reflexivity|]. split; [vm_compute; reflexivity|].
  split; [symmetry; apply Permutation_rev|]. split; vm_compute; reflexivity.
Qed.

Definition ex_pairs : list (text * text) := [([97], [49; 32]); ([98], [38]); ([97], [50])].   (* a="1 ", b="&", a="2" *)
Definition ex_qs : text := [97; 61; 49; 43; 59; 59; 98; 61; 37; 50; 54; 38; 97; 61; 50].      (* a=1+;;b=%26&a=2 *)
Lemma ex_enc : enc_qs ex_pairs ex_qs.
Proof.
  apply (EQ_cons [97] [49; 32] [97] [49; 43] 59 _ [59; 98; 61; 37; 50; 54; 38; 97; 61; 50]).
  - apply (ET_cons 97 [97] [] []); [apply EC_lit; reflexivity | constructor].
  - apply (ET_cons 49 [49] [32] [43]); [apply EC_lit; reflexivity|].
    apply (ET_cons 32 [43] [] []); [apply EC_plus | constructor].
  - reflexivity.
  - apply EQ_sep; [reflexivity|].
    apply (EQ_cons [98] [38] [98] [37; 50; 54] 38 _ [97; 61; 50]).
    + apply (ET_cons 98 [98] [] []); [apply EC_lit; reflexivity | constructor].
    + apply (ET_cons 38 [37; 50; 54] [] []); [|constructor]. apply EC_hex; [split; [discriminate | reflexivity] | reflexivity | reflexivity].
    + reflexivity.
    + apply (EQ_last [97] [50] [97] [50]).
      * apply (ET_cons 97 [97] [] []); [apply EC_lit; reflexivity | constructor].
      * apply (ET_cons 50 [50] [] []); [apply EC_lit; reflexivity | constructor].
Qed.
Example C03_ex_qs : enc_qs ex_pairs ex_qs /\
  parse_qs ex_qs = Some [([97], [Some [49; 32]; Some [50]]); ([98], [Some [38]])].
Proof. split; [exact ex_enc | vm_compute; reflexivity]. Qed.

(** a GET for f(a = Array(primitive)) with a=1&a=2 in an encoded query string *)
Definition ex_fs2 : list (text * ty) := [([97], TPrim true); ([98], TPrim false)].
Definition ex_vs2 : list sval := [SRep [[49; 32]; [50]]; SStr [38]].
Example C03_ex_get :
  wf_sig ex_d ex_fs2 = true /\ conf_fields true ex_fs2 ex_vs2 = true /\ enc_qs ex_pairs ex_qs /\
  Permutation (group ex_pairs) (spell ex_d ex_fs2 ex_vs2) /\
  run_get true true ex_d ex_fs2 ex_qs = Some (Ok [([97], VList [[49; 32]; [50]]); ([98], VStr [38])]).
Proof.
  split; [vm_compute; reflexivity|]. split; [vm_compute; reflexivity|]. split; [exact ex_enc|].
  split; [vm_compute; apply Permutation_refl | vm_compute; reflexivity].
Qed.

(** an object with a two-element array of nested objects and a primitive array *)
Definition ex_inst : list (text * val) :=
  [([120; 115], VList [[49]; [50]]);
   ([112; 115], VArr [] [VObj [([105], VStr [55]); ([113], VNone)];
                        VObj [([105], VNone); ([113], VObj [([115], VStr [120])])]])].
Example C03_ex_flatten :
  wf_sig ex_d ex_fs = true /\ typed_obj ex_fs ex_inst = true /\
  length (sent_doc (flatten ex_d ex_fs ex_inst)) = 3%nat /\
  Permutation (rev (sent_doc (flatten ex_d ex_fs ex_inst))) (sent_doc (flatten ex_d ex_fs ex_inst)) /\
  option_map erase_obj (match unflatten true true ex_d ex_fs (rev (sent_doc (flatten ex_d ex_fs ex_inst))) with
                        | Ok o => Some o | _ => None end) = Some ex_inst.
Proof.
  split; [vm_compute; reflexivity|]. split; [vm_compute; reflexivity|]. split; [vm_compute; reflexivity|].
  split; [symmetry; apply Permutation_rev | vm_compute; reflexivity].
Qed.

(** the refutation witnesses are conformant values of covered signatures (see C03/Refute.v) *)
Example C03_ex_pinned :
  wf_sig t_dot [(t_xs, TPrim true)] = true /\ conf_fields false [(t_xs, TPrim true)] [SIdx eleven] = true /\
  (exists o, unflatten true false t_dot [(t_xs, TPrim true)] (spell t_dot [(t_xs, TPrim true)] [SIdx eleven]) = Ok o /\
             erase_obj o = compact_fields [(t_xs, TPrim true)] [SIdx eleven]).
Proof.
  split; [reflexivity|]. split; [reflexivity|]. eexists. split; vm_compute; reflexivity.
Qed.

(** X-Count: 7, two Set-Cookie lines, body "ok" *)
Example C03_ex_response :
  http_response [([67], FOne [116])] [([88], TPrim false); ([83], TPrim true)]
                [([88], VStr [55]); ([83], VList [[97]; [98]])] [[111]; [107]]
  = ([([67], [116]); ([88], [55]); ([83], [97]); ([83], [98]); (CONTENT_LENGTH, [50])], [111; 107]).
Proof. vm_compute. reflexivity. Qed.

(** RFC 7231's own example: 784111777 s after the epoch is "Sun, 06 Nov 1994 08:49:37 GMT" *)
Example C03_ex_header_date :
  imf_fixdate 784111777 = [83; 117; 110; 44; 32; 48; 54; 32; 78; 111; 118; 32; 49; 57; 57; 52; 32;
                           48; 56; 58; 52; 57; 58; 51; 55; 32; 71; 77; 84] /\
  imf_fields 784111777 = (1994, 11, 6, 8, 49, 37).
Proof. split; vm_compute; reflexivity. Qed.
