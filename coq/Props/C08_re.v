(** C08 — the regular expressions of the date/time codecs, tied semantically.
    Property theorems only; each closed by [exact] of a lemma proved elsewhere.

    [rx_*] are the ASTs regenerated on every run from Python's own parse of the pattern strings the
    imported modules compute (Gen/Regexes.v).  [re_match] is the generic backtracking matcher of
    C08/Regex.v ([\d] = ASCII digits: stated restriction).  The theorems say that the hand-written
    scanners and readers of C08/DtModel.v -- over which the round-trip, lexical and totality
    theorems of Props/C08_dt.v are stated -- compute exactly what the readers of
    spyne/protocol/_inbase.py compute when written over the generic matcher and these ASTs, for
    ALL input strings. *)
From SpyneV Require Import C08.Regex C08.RegexProofs C08.RegexRef C08.RegexDt C08.RegexTie C08.DtModel C08.DurModel
                           C08.RegexDurRef Gen.Regexes.

(** DATE_PATTERN, TIME_PATTERN, OFFSET_PATTERN as prefix scanners *)
Theorem C08_re_scan_date : forall s, scan_date s = rx_scan_date rx_DATE_PATTERN s.
Proof. exact scan_date_gen. Qed.
Theorem C08_re_scan_time : forall s, scan_time s = rx_scan_time rx_TIME_PATTERN s.
Proof. exact scan_time_gen. Qed.
Theorem C08_re_scan_offset : forall s, scan_offset s = rx_scan_offset rx_OFFSET_PATTERN s.
Proof. exact scan_offset_gen. Qed.
(** the compiled module-level copies of _inbase.py *)
Theorem C08_re_scan_date_inbase : forall s, scan_date s = rx_scan_date rx_inbase_date s.
Proof. exact scan_date_inbase_gen. Qed.
Theorem C08_re_scan_time_inbase : forall s, scan_time s = rx_scan_time rx_inbase_time s.
Proof. exact scan_time_inbase_gen. Qed.
(** Date._offset_re *)
Theorem C08_re_scan_date_tz : forall s, scan_date_tz s = rx_scan_date_tz rx_Date_offset s.
Proof. exact scan_date_tz_gen. Qed.

(** the three-way match of datetime_from_unicode_iso (DateTime._utc_re, then _offset_re, then
    _local_re) with _parse_datetime_iso_match on the groups: the whole reader *)
Theorem C08_re_datetime_reader : forall s,
  datetime_from_unicode_iso_rx rx_DateTime_utc rx_DateTime_offset rx_DateTime_local s
  = datetime_from_unicode_iso s.
Proof. exact datetime_reader_gen. Qed.
(** date_from_unicode: strptime, else Date._offset_re *)
Theorem C08_re_date_reader : forall s, date_from_unicode_rx rx_Date_offset s = date_from_unicode s.
Proof. exact date_reader_gen. Qed.
(** time_from_unicode over _time_re *)
Theorem C08_re_time_reader : forall s, time_from_unicode_rx rx_inbase_time s = time_from_unicode s.
Proof. exact time_reader_gen. Qed.

(** duration_from_unicode over _duration_re: the optional groups of the pattern never need
    backtracking, the hand-written scanner of C08/DurModel.v takes the same decisions *)
Theorem C08_re_duration_reader : forall s,
  duration_from_unicode_rx rx_inbase_duration s = duration_from_unicode s.
Proof. exact duration_reader_gen. Qed.

(** DATETIME_PATTERN is the concatenation the source writes *)
Theorem C08_re_datetime_pattern_composed : forall s e,
  m rx_DATETIME_PATTERN s e = m (RSeq rx_DATE_PATTERN (RSeq tsep rx_TIME_PATTERN)) s e.
Proof. exact datetime_pattern_composed. Qed.

(** the generic matcher: the repetition fuel [S (lo + length s)] is sufficient (any additional fuel
    gives the same list of matches), every match splits the input, and the normal form used for
    the tie preserves the matches *)
Theorem C08_re_fuel_sufficient : forall a extra lo hi s e,
  rep (m a) (extra + S (lo + length s)) lo hi s e = m (RRep lo hi a) s e.
Proof. intros a. exact (rep_fuel_sufficient (m a) (m_splits a)). Qed.
Theorem C08_re_match_splits : forall r s e mt t e', In (mt, t, e') (m r s e) -> s = mt ++ t.
Proof. exact m_splits. Qed.
Theorem C08_re_norm_sound : forall r s e, m (norm r) s e = m r s e.
Proof. exact norm_sound. Qed.

(** non-vacuity *)
Example C08_re_ex_date :
  rx_scan_date rx_DATE_PATTERN [50;48;50;48;45;48;49;45;51;49;84] = Some (mkdate 2020 1 31, [84])
  /\ rx_scan_date rx_DATE_PATTERN [50;48;50;48;45;49;45;51;49] = None.
Proof. vm_compute. auto. Qed.
Example C08_re_ex_inbase :
  rx_scan_date rx_inbase_date [50;48;50;48;45;48;49;45;51;49] = Some (mkdate 2020 1 31, [])
  /\ rx_scan_time rx_inbase_time [49;50;58;51;52;58;53;54] = Some (12, 34, 56, None, []).
Proof. vm_compute. auto. Qed.
Example C08_re_ex_time :
  rx_scan_time rx_TIME_PATTERN [49;50;58;51;52;58;53;54;46;53;48;90] = Some (12, 34, 56, Some [53;48], [90]).
Proof. vm_compute. reflexivity. Qed.
Example C08_re_ex_offset :
  rx_scan_offset rx_OFFSET_PATTERN [45;48;52;58;52;57] = Some (true, 4, 49, []).
Proof. vm_compute. reflexivity. Qed.
Example C08_re_ex_datetime :
  datetime_from_unicode_iso_rx rx_DateTime_utc rx_DateTime_offset rx_DateTime_local
    [50;48;50;48;45;48;49;45;51;49;84;49;50;58;51;52;58;53;54;45;48;52;58;52;57]
  = Ok (mkdt (mkdate 2020 1 31) (mktod 12 34 56 0) (Some (-289)))
  /\ datetime_from_unicode_iso_rx rx_DateTime_utc rx_DateTime_offset rx_DateTime_local
    [50;48;50;48;45;48;49;45;51;49;84;49;50;58;51;52;58;53;54;90;120] = VFault.
Proof. vm_compute. auto. Qed.
Example C08_re_ex_date_tz :
  rx_scan_date_tz rx_Date_offset [50;48;50;48;45;48;49;45;51;49;43;48;50;58;48;48] = Some (mkdate 2020 1 31)
  /\ date_from_unicode_rx rx_Date_offset [50;48;50;48;45;48;50;45;51;49;90] = VFault.
Proof. vm_compute. auto. Qed.
Example C08_re_ex_time_reader :
  time_from_unicode_rx rx_inbase_time [49;50;58;51;52;58;53;54;46;53] = Ok (mktod 12 34 56 500000).
Proof. vm_compute. reflexivity. Qed.
Example C08_re_ex_duration :
  duration_from_unicode_rx rx_inbase_duration [45;80;49;68;84;50;72;51;77;52;46;53;83] = Ok (-93784500000)
  /\ duration_from_unicode_rx rx_inbase_duration [80;49;77;84] = Ok 2592000000000
  /\ duration_from_unicode_rx rx_inbase_duration [80;49;72] = VFault.
Proof. vm_compute. auto. Qed.
Example C08_re_ex_generic :
  (* (a|ab)(c|bcd)(d* ) on "abcd": the backtracking order of the alternatives decides *)
  let a := RChar (mkcset false [CRange 97 97]) in let b := RChar (mkcset false [CRange 98 98]) in
  let c := RChar (mkcset false [CRange 99 99]) in let d := RChar (mkcset false [CRange 100 100]) in
  re_match (RSeq (RGroup [49] (RAlt a (RSeq a b)))
           (RSeq (RGroup [50] (RAlt c (RSeq b (RSeq c d)))) (RGroup [51] (RRep 0 None d))))
           [97;98;99;100]
  = Some ([97;98;99;100], [], [([51], []); ([50], [98;99;100]); ([49], [97])])
  /\ norm (RRep 2 (Some 2%nat) (RChar (mkcset false [CDigit])))
     = RSeq (RChar (mkcset false [CRange 48 57])) (RChar (mkcset false [CRange 48 57])).
Proof. vm_compute. auto. Qed.
