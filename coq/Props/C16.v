(** C16 — inheritance and polymorphism preserve the runtime class.  Property theorems only. *)
From SpyneV Require Import Base.Prelude Wire.Universe Wire.Xml C01.Leaf C16.Model C16.Leaf Gen.C16Shape.

(** the source facts the model is parameterised by are the ones the theorems below are proved for *)
Theorem C16_shape_src : shape_src = shape_ok.
Proof. reflexivity. Qed.
