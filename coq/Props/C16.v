(** C16 — inheritance and polymorphism preserve the runtime class.  Property theorems only;
    each closed by [exact] of a lemma of C16/Main.v.  The theorems are stated over
    [shape_src], the record of source facts that harness/translate/c16shape.py regenerates
    from spyne/model/complex.py, spyne/protocol/_base.py, spyne/protocol/xml.py,
    spyne/protocol/soap/soap11.py and spyne/interface/_base.py on every run; the lemmas are
    about [shape_ok], so every [exact] below is also the obligation that the source still has
    the shape the proofs are about.

    Vocabulary (C16/Model.v): [flat_ti] get_flat_type_info with the odict override rule;
    [penc]/[pdec] XmlDocument.to_parent / from_element with xsi:type, the prefix table of the
    interface and the namespace declarations in scope; [marks] the resolution of every
    xsi:type of a document by the receiver's rule; [populate] Interface.add_class over the
    message classes; [h_enc]/[h_dec] the dict-document family with class-name wrapper keys;
    [pconf]/[hconf] schema-conformant values in which an instance of a subclass may stand
    where a class is declared; [pnorm] the property's identifications (an empty unwrapped
    sequence is None), which never change a runtime class; [project] the declared class's
    projection of a value. *)
From Coq Require Import ZArith List Bool Lia.
From SpyneV Require Import Base.Prelude Wire.Universe Wire.Xml C01.Leaf C16.Model C16.Leaf C16.DeriveProofs C16.Main Gen.C16Shape.
Import ListNotations.
Open Scope Z_scope.

(** the source has the shape the proofs are about *)
Theorem C16_shape_src : shape_src = shape_ok.
Proof. reflexivity. Qed.

(** The parent links of the universes below are Spyne's __extends__, which the metaclass derives
    from the Python class statements ([derive]).  It keeps the Python base of every class
    provided no class is both without a base and without members ... *)
Theorem C16_extends_partial : forall P, bases_ok P ->
  forall i p, nth_error P i = Some p ->
    exists cl, get_cls (derive shape_src P) i = Some cl /\ c_parent cl = py_base p /\ c_own cl = py_own p.
Proof. exact extends_partial. Qed.

(** ... and not otherwise (known finding C16|emptyroot): "for every class statement, __extends__
    is the Python base" is false; a subclass of a member-less root class does not extend it, is
    not among its registered subclasses and is not substitutable for it in any protocol. *)
Theorem C16_extends_refuted :
  exists P i p b, nth_error P i = Some p /\ py_base p = Some b /\ (b < i)%nat
                  /\ exists cl, get_cls (derive shape_src P) i = Some cl /\ c_parent cl <> Some b.
Proof. exact extends_refuted. Qed.

(** A subclass carries its ancestors' members followed by its own: the flattened type info
    (what the dict protocols iterate) and the member list of the XML serialiser both are the
    parent's flattened members followed by the class's own, for every class of every
    well-formed universe. *)
Theorem C16_flat_fields : forall U c, wf_universe U = true ->
  flat_ti shape_src U c = flat_fields U c
  /\ option_map (map snd) (members_of shape_src U c) = flat_fields U c
  /\ forall cl, get_cls U c = Some cl ->
       flat_ti shape_src U c = match c_parent cl with
                               | None => Some (c_own cl)
                               | Some p => match flat_ti shape_src U p with
                                           | Some pf => Some (pf ++ c_own cl)
                                           | None => None
                                           end
                               end.
Proof. exact flat_fields_main. Qed.

(** ... and without any hypothesis on member names: the class's type info is the parent's,
    updated in odict fashion (a redeclared member keeps the ancestor's position and takes the
    subclass's type, new members are appended in order). *)
Theorem C16_flat_override :
  (forall fuel U c cl, get_cls U c = Some cl ->
     flat_ti_fuel shape_src (S fuel) U c [] =
       match c_parent cl with
       | None => Some (od_update [] (c_own cl))
       | Some p => match flat_ti_fuel shape_src fuel U p [] with
                   | Some pf => Some (od_update pf (c_own cl))
                   | None => None
                   end
       end)
  /\ (forall d f, map f_name (od_set d f)
                  = if text_mem (f_name f) (map f_name d) then map f_name d else map f_name d ++ [f_name f])
  /\ (forall d f, find_field (f_name f) (od_set d f) = Some f)
  /\ (forall d f k, k <> f_name f -> find_field k (od_set d f) = find_field k d).
Proof. exact flat_override_main. Qed.

(** The interface registers, for every class it registers, all of its subclasses at any depth
    when the hierarchy is placed in one namespace; the message classes and the classes of
    their members (through arrays) are registered.  [populate] returning [Some] excludes fuel
    exhaustion; [keys_ok]: distinct types of the program have distinct '{ns}name' keys. *)
Theorem C16_registry_subclasses : forall U tns fuel roots reg,
  wf_universe U = true -> keys_ok U tns = true -> same_ns_tree U = true ->
  (forall r, In r roots -> (r < length U)%nat) ->
  populate shape_src U tns fuel roots = Some reg ->
  (forall r, In r roots -> registered reg U r = true)
  /\ (forall c d, registered reg U c = true -> is_subclass U d c = true -> registered reg U d = true)
  /\ (forall c cl f c', registered reg U c = true -> get_cls U c = Some cl -> In f (c_own cl) ->
        base_class (f_ty f) = Some c' -> registered reg U c' = true).
Proof. exact registry_main. Qed.

(** XML, polymorphic or not: for every leaf codec that is lossless on its domain, every
    configuration without soft validation that parses xsi:type and whose prefixes are
    non-empty and colon-free, every well-formed universe and every conformant value in which
    (when polymorphic) instances of registered subclasses stand where a class is declared:
    the value is written, and what from_element reads back from the parsed document, under
    any namespace context, is the same value (up to [pnorm]) with the same runtime class at
    every position. *)
Theorem C16_xml_poly_rt : forall (L : leaf_codec) (C : pcfg) (U : universe),
  (forall p v, prim_has p v = true -> lc_ok L p v = true ->
     exists s, lc_pr L p v = Ok s /\ lc_rd L p s = Ok v /\ (p <> PText -> s <> [])) ->
  wf_universe U = true -> p_soft C = false -> p_parse_xsi C = true ->
  (forall ns, pfx_ok (p_pm C ns) = true) ->
  forall n t v ns name,
    pconf L U (p_poly C) (registered (p_reg C) U) n t v = true ->
    exists e, penc shape_src L C U n t ns name v = Ok e
              /\ forall sc nillable, pdec shape_src L C U n sc t nillable (wire e) = Ok (pnorm U n t v).
Proof. exact xml_rt_main. Qed.

(** every type marker that to_parent writes resolves, by the receiver's rule and under the
    declarations of the document itself (whatever the context adds), to the key of a class;
    with polymorphic=False no marker is written at all *)
Theorem C16_xml_marker_resolves : forall L C U, elem_only U = true -> (forall ns, pfx_ok (p_pm C ns) = true) ->
  forall k t ns name v e, penc shape_src L C U k t ns name v = Ok e ->
    (forall n sc, Forall (fun m => exists d, m = RQ (cls_ns U d) (cls_name U d)) (marks n sc e))
    /\ (p_poly C = false -> forall n sc, marks n sc e = []).
Proof. exact xml_marks_main. Qed.

(** with polymorphic=False the document written for a conformant value holding instances of
    subclasses is the document written for its projection on the declared classes, the
    projection is a conformant value of the declared classes, and it is what the receiver
    reads back *)
Theorem C16_xml_mono : forall (L : leaf_codec) (C : pcfg) (U : universe),
  (forall p v, prim_has p v = true -> lc_ok L p v = true ->
     exists s, lc_pr L p v = Ok s /\ lc_rd L p s = Ok v /\ (p <> PText -> s <> [])) ->
  wf_universe U = true -> p_soft C = false -> p_parse_xsi C = true ->
  (forall ns, pfx_ok (p_pm C ns) = true) ->
  p_poly C = false -> forall regchk n t v ns name,
    pconf L U true (fun _ => true) n t v = true ->
    penc shape_src L C U n t ns name v = penc shape_src L C U n t ns name (project U n t v)
    /\ pconf L U false regchk n t (project U n t v) = true
    /\ exists e, penc shape_src L C U n t ns name v = Ok e
                 /\ forall sc nillable, pdec shape_src L C U n sc t nillable (wire e) = Ok (pnorm U n t (project U n t v)).
Proof. exact xml_mono_main. Qed.

(** whatever the document says: an object decoded where class [c] is declared is an instance
    of [c] or of a subclass; a marker is honoured only if its prefix is bound in scope, the
    key is in the interface's registry and _get_xsi_target accepts the registered class (the
    declared class or a subclass); a marker that is unbound, unknown or not accepted (an unrelated
    class, another primitive, another array type) is refused with a validation fault *)
Theorem C16_xml_marker_sound : forall L C U,
  (forall k sc c nillable e d fs,
     pdec shape_src L C U k sc (TRef c) nillable e = Ok (VObj d fs) -> is_subclass U d c = true)
  /\ (forall k sc c nillable ns n atts txt kids v q,
        p_parse_xsi C = true ->
        is_nil (real_atts atts) = false -> lookup_att xsi_ns t_type (real_atts atts) = Some q ->
        pdec shape_src L C U (S k) sc (TRef c) nillable (XElt ns n atts txt kids) = Ok v ->
        exists key d fs, resolve_qname (decls_of atts ++ sc) q = Some key
                         /\ reg_find (p_reg C) key = Some (TRef d)
                         /\ is_subclass U d c = true /\ v = VObj d fs)
  /\ (forall k sc t nillable ns n atts txt kids q,
        p_parse_xsi C = true ->
        is_nil (real_atts atts) = false -> lookup_att xsi_ns t_type (real_atts atts) = Some q ->
        (match resolve_qname (decls_of atts ++ sc) q with
         | None => true
         | Some key => match reg_find (p_reg C) key with
                       | None => true
                       | Some t' => match xsi_target U (p_tns C) t t' with None => true | Some _ => false end
                       end
         end = true) ->
        pdec shape_src L C U (S k) sc t nillable (XElt ns n atts txt kids) = VFault).
Proof. exact xml_sound_main. Qed.

(** get_subclasses, the list a wrapper key is looked up in, holds every strict subclass at any depth *)
Theorem C16_subclasses_closure : forall U c d cl, wf_universe U = true -> get_cls U d = Some cl ->
  is_subclass U d c = true -> d <> c -> In d (get_subclasses (S (length U)) U c).
Proof. exact subclasses_closure_main. Qed.

(** dict documents (JSON / YAML / MessagePack, ignore_wrappers=False), polymorphic or not: a
    conformant value is written under class-name wrapper keys and read back as the same value
    with the same runtime class at every position *)
Theorem C16_hier_poly_rt : forall H U poly,
  (forall p v, prim_has p v = true -> hl_ok H p v = true ->
     exists j, hl_pr H p v = Ok j /\ hl_rd H p j = Ok v /\ j <> JNull) ->
  wf_universe U = true -> sub_names_ok U = true ->
  forall k t v, hconf H U poly k t v = true ->
    exists j, h_enc shape_src H poly U k t v = Ok j /\ h_dec shape_src H U k t j = Ok v.
Proof. exact hier_rt_main. Qed.

(** with polymorphic=False the document is that of the projection on the declared classes,
    and the projection is what is read back *)
Theorem C16_hier_mono : forall H U,
  (forall p v, prim_has p v = true -> hl_ok H p v = true ->
     exists j, hl_pr H p v = Ok j /\ hl_rd H p j = Ok v /\ j <> JNull) ->
  wf_universe U = true -> sub_names_ok U = true ->
  forall k t v, hconf H U true k t v = true ->
    h_enc shape_src H false U k t v = h_enc shape_src H false U k t (project U k t v)
    /\ exists j, h_enc shape_src H false U k t v = Ok j /\ h_dec shape_src H U k t j = Ok (project U k t v).
Proof. exact hier_mono_main. Qed.

(** an object decoded where [c] is declared is an instance of [c] or of a subclass; a wrapper
    key that names no subclass of a class that has subclasses is refused *)
Theorem C16_hier_marker_sound : forall H U,
  (forall k c j d fs, h_dec shape_src H U k (TRef c) j = Ok (VObj d fs) -> is_subclass U d c = true)
  /\ (forall k c nm inner,
        text_eqb (cls_name U c) nm = false -> get_subclasses (S (length U)) U c <> [] ->
        find_cid (fun s => text_eqb (cls_name U s) nm) (get_subclasses (S (length U)) U c) = None ->
        h_dec shape_src H U (S k) (TRef c) (JMap [(nm, inner)]) = VFault).
Proof. exact hier_sound_main. Qed.

(** ProtocolMixin.get_polymorphic_target, regenerated from the normalised source (locals substituted,
    log calls dropped, early returns and if/else identified), is the decision the model uses ... *)
Theorem C16_gpt_src : forall poly same_cls is_inst map_none,
  gpt_src poly same_cls is_inst map_none = gpt_decide poly same_cls is_inst map_none.
Proof. intros [|] [|] [|] [|]; reflexivity. Qed.

(** ... with the default (empty) polymap *)
Theorem C16_gpt_model : forall poly U c d,
  poly_target shape_src poly U c d
  = match gpt_decide poly (Nat.eqb d c) (is_subclass U d c) true with
    | GDecl => (c, false)
    | GInst => (d, true)
    | GMap => (d, true)
    end.
Proof. exact poly_target_decide. Qed.

(** XmlDocument._get_xsi_target, regenerated from the source as a decision over five facts about
    the declared and the registered class, is the decision the model uses ... *)
Theorem C16_xsi_target_src : forall same_orig sup_array same_key sup_complex sub_of,
  xsi_target_src same_orig sup_array same_key sup_complex sub_of
  = xsi_decide same_orig sup_array same_key sup_complex sub_of.
Proof. intros [|] [|] [|] [|] [|]; reflexivity. Qed.

(** ... and what it lets through is the declared type itself (for Array types only under the
    same key; the declared customisation is kept) or, where a user class is declared, a user
    class that is a subclass of it; a primitive or an array slot is never retyped *)
Theorem C16_xsi_target_spec : forall U tns decl new t, xsi_target U tns decl new = Some t ->
  (t = decl \/ exists c c', decl = TRef c /\ new = TRef c' /\ t = TRef c' /\ is_subclass U c' c = true)
  /\ (forall p, decl = TPrim p -> new = TPrim p /\ t = decl)
  /\ (forall e, decl = TArr e -> exists e', new = TArr e' /\ key_of U tns (TArr e') = key_of U tns (TArr e) /\ t = decl).
Proof. exact xsi_target_main. Qed.

(** the same with Spyne's Integer / Unicode / Boolean text codecs (C08 through C01/Leaf.v) and
    the registry the interface builds: nothing left to assume about leaves *)
Theorem C16_xml_poly_rt_spyne : forall (tns : text) (poly : bool) (pm : text -> text) (U : universe)
    (fuel : nat) (roots : list cid) (reg : registry) (unres : list (text * text)),
  wf_universe U = true -> (forall ns, pfx_ok (pm ns) = true) ->
  populate shape_src U tns fuel roots = Some reg ->
  forall n t v ns name,
    pconf spyne_leaf U poly (registered reg U) n t v = true ->
    exists e, penc shape_src spyne_leaf (mkpcfg false tns poly true pm reg unres) U n t ns name v = Ok e
              /\ forall sc nillable,
                   pdec shape_src spyne_leaf (mkpcfg false tns poly true pm reg unres) U n sc t nillable (wire e) = Ok (pnorm U n t v).
Proof. exact xml_rt_spyne_main. Qed.

Theorem C16_hier_poly_rt_spyne : forall U poly, wf_universe U = true -> sub_names_ok U = true ->
  forall k t v, hconf dict_leaf U poly k t v = true ->
    exists j, h_enc shape_src dict_leaf poly U k t v = Ok j /\ h_dec shape_src dict_leaf U k t j = Ok v.
Proof. exact hier_rt_spyne_main. Qed.

(* ------------------------------------------------------------------ non-vacuity *)
(** a program: Base(a) <- Mid() <- Leaf(c, kid : Base) in urn:b (a member-less intermediate
    class, a recursive member), Other(z) in urn:b, Box(x : Base, xs : Array(Base), ms : Base with max_occurs unbounded)
    in urn:a, and the message classes of  echo(Box) -> Box  in urn:a *)
Definition ua : text := [117; 114; 110; 58; 97].   (* urn:a *)
Definition ub : text := [117; 114; 110; 58; 98].   (* urn:b *)
Definition fld (n : text) (t : ty) (mn : Z) (mx : option Z) : field := mkfield n t mn mx true KElem.
Definition ex_U : universe :=
  [ mkcls ub [66; 97; 115; 101] None [fld [97] (TPrim PInt) 1 (Some 1)];                                       (* 0 Base *)
    mkcls ub [77; 105; 100] (Some 0%nat) [];                                                                  (* 1 Mid *)
    mkcls ub [76; 101; 97; 102] (Some 1%nat) [fld [99] (TPrim PText) 0 (Some 1); fld [107; 105; 100] (TRef 0%nat) 0 (Some 1)];  (* 2 Leaf *)
    mkcls ub [79; 116; 104; 101; 114] None [fld [122] (TPrim PBool) 0 (Some 1)];                              (* 3 Other *)
    mkcls ua [66; 111; 120] None [fld [120] (TRef 0%nat) 0 (Some 1); fld [120; 115] (TArr (TRef 0%nat)) 0 (Some 1);
                                  fld [109; 115] (TRef 1%nat) 0 None];                                        (* 4 Box *)
    mkcls ua [101; 99; 104; 111] None [fld [120] (TRef 4%nat) 0 (Some 1)];                                    (* 5 echo *)
    mkcls ua [101; 99; 104; 111; 82] None [fld [114] (TRef 4%nat) 0 (Some 1)] ].                              (* 6 echoR *)
Definition ex_pm (ns : text) : text := if text_eqb ns ua then [116; 110; 115] else [115; 48].   (* tns / s0 *)
Definition ex_reg : registry := match populate shape_src ex_U ua 60 [5%nat; 6%nat] with Some r => r | None => [] end.
Definition ex_leafv : val := VObj 2%nat [VLeaf (LInt 7); VLeaf (LText [104; 105]); VObj 1%nat [VLeaf (LInt (-1))]].
Definition ex_box : val :=
  VObj 4%nat [ ex_leafv;
               VList [VObj 0%nat [VLeaf (LInt 0)]; VObj 1%nat [VLeaf (LInt 1)]; ex_leafv];
               VList [VObj 2%nat [VLeaf (LInt 5); VNone; VNone]; VObj 1%nat [VLeaf (LInt 6)]] ].
Definition ex_msg : val := VObj 5%nat [ex_box].
Definition ex_cfg (poly : bool) : pcfg := mkpcfg false ua poly true ex_pm ex_reg [].

Example C16_ex_extends :
  bases_ok [mkpy None ub [65] [fld [97] (TPrim PInt) 0 (Some 1)]; mkpy (Some 0%nat) ub [66] []; mkpy (Some 1%nat) ub [67] [fld [99] (TPrim PInt) 0 (Some 1)]]
  /\ map c_parent (derive shape_src [mkpy None ub [65] [fld [97] (TPrim PInt) 0 (Some 1)]; mkpy (Some 0%nat) ub [66] [];
                                      mkpy (Some 1%nat) ub [67] [fld [99] (TPrim PInt) 0 (Some 1)]])
     = [None; Some 0%nat; Some 1%nat].
Proof.
  split; [|vm_compute; reflexivity].
  intros [|[|[|i]]] p H; cbn in H; inversion H; subst; cbn; try lia; try discriminate. destruct i; discriminate.
Qed.

Example C16_ex_flat :
  wf_universe ex_U = true
  /\ option_map (map f_name) (flat_ti shape_src ex_U 2%nat) = Some [[97]; [99]; [107; 105; 100]]
  /\ od_update [fld [97] (TPrim PInt) 1 (Some 1); fld [98] (TPrim PInt) 0 (Some 1)]
               [fld [97] (TPrim PText) 0 (Some 1); fld [99] (TPrim PBool) 0 (Some 1)]
     = [fld [97] (TPrim PText) 0 (Some 1); fld [98] (TPrim PInt) 0 (Some 1); fld [99] (TPrim PBool) 0 (Some 1)].
Proof. repeat split; vm_compute; reflexivity. Qed.

Example C16_ex_registry :
  keys_ok ex_U ua = true /\ same_ns_tree ex_U = true /\ sub_names_ok ex_U = true /\ elem_only ex_U = true
  /\ populate shape_src ex_U ua 60 [5%nat; 6%nat] <> None
  /\ forallb (registered ex_reg ex_U) [0; 1; 2; 4; 5; 6]%nat = true
  /\ registered ex_reg ex_U 3%nat = false.
Proof. repeat split; try (vm_compute; reflexivity). vm_compute. discriminate. Qed.

Example C16_ex_xml :
  (forall ns, pfx_ok (ex_pm ns) = true)
  /\ pconf spyne_leaf ex_U true (registered ex_reg ex_U) 8 (TRef 5%nat) ex_msg = true
  /\ (match penc shape_src spyne_leaf (ex_cfg true) ex_U 8 (TRef 5%nat) ua [101; 99; 104; 111] ex_msg with
      | Ok e => out_eqb val_eqb (pdec shape_src spyne_leaf (ex_cfg true) ex_U 8 [] (TRef 5%nat) true (wire e))
                                (Ok (pnorm ex_U 8 (TRef 5%nat) ex_msg))
                && Nat.eqb (length (marks 8 [] e)) 6
      | _ => false
      end = true)
  /\ pconf spyne_leaf ex_U true (fun _ => true) 8 (TRef 5%nat) ex_msg = true
  /\ project ex_U 8 (TRef 5%nat) ex_msg <> ex_msg
  /\ (match penc shape_src spyne_leaf (ex_cfg false) ex_U 8 (TRef 5%nat) ua [101; 99; 104; 111] ex_msg with
      | Ok e => out_eqb val_eqb (pdec shape_src spyne_leaf (ex_cfg false) ex_U 8 [] (TRef 5%nat) true (wire e))
                                (Ok (pnorm ex_U 8 (TRef 5%nat) (project ex_U 8 (TRef 5%nat) ex_msg)))
                && Nat.eqb (length (marks 8 [] e)) 0
      | _ => false
      end = true).
Proof.
  split; [intro ns; unfold ex_pm; destruct (text_eqb ns ua); reflexivity|].
  split; [vm_compute; reflexivity|]. split; [vm_compute; reflexivity|]. split; [vm_compute; reflexivity|].
  split; [vm_compute; discriminate|vm_compute; reflexivity].
Qed.

(** an unknown marker, an unbound prefix and a class that is not a subclass (Other where Base is
    declared) are refused; the same element with the marker of a registered subclass is read *)
Definition ex_elt (q : text) (decl : list attr) : xnode :=
  XElt ua [120] ((xsi_ns, t_type, q) :: decl) None [XElt ub [97] [] (Some [55]) []].
Example C16_ex_refused :
  let d := [(xmlns_ns, [115; 48], ub)] in
  pdec shape_src spyne_leaf (ex_cfg true) ex_U 5 [] (TRef 0%nat) true (ex_elt [115; 48; 58; 77; 105; 100] d)
    = Ok (VObj 1%nat [VLeaf (LInt 7)])
  /\ pdec shape_src spyne_leaf (ex_cfg true) ex_U 5 [] (TRef 0%nat) true (ex_elt [115; 48; 58; 77; 105; 100] []) = VFault
  /\ pdec shape_src spyne_leaf (ex_cfg true) ex_U 5 [] (TRef 0%nat) true (ex_elt [115; 48; 58; 78; 111; 112; 101] d) = VFault
  /\ pdec shape_src spyne_leaf (ex_cfg true) ex_U 5 [] (TRef 0%nat) true (ex_elt [115; 48; 58; 79; 116; 104; 101; 114] d) = VFault.
Proof. repeat split; vm_compute; reflexivity. Qed.

Example C16_ex_hier :
  hconf dict_leaf ex_U true 8 (TRef 5%nat) ex_msg = true
  /\ (match h_enc shape_src dict_leaf true ex_U 8 (TRef 5%nat) ex_msg with
      | Ok j => out_eqb val_eqb (h_dec shape_src dict_leaf ex_U 8 (TRef 5%nat) j) (Ok ex_msg)
      | _ => false
      end = true)
  /\ (match h_enc shape_src dict_leaf false ex_U 8 (TRef 5%nat) ex_msg with
      | Ok j => out_eqb val_eqb (h_dec shape_src dict_leaf ex_U 8 (TRef 5%nat) j) (Ok (project ex_U 8 (TRef 5%nat) ex_msg))
      | _ => false
      end = true)
  /\ h_dec shape_src dict_leaf ex_U 5 (TRef 0%nat) (JMap [([79; 116; 104; 101; 114], JMap [])]) = VFault.
Proof. repeat split; vm_compute; reflexivity. Qed.
