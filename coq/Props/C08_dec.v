(** C08 — Decimal: lossless text form, xs:decimal literals, and the exact region where the written
    text leaves the xs:decimal lexical space.  Property theorems only.

    [dec] is a finite Python Decimal (sign, coefficient, exponent); [decimal_to_unicode] is
    str(value) (Wire/Decimal.v:dec_str), [decimal_from_unicode] is the reader of
    spyne/protocol/_inbase.py with [Decimal(str)] modelled in C08/DecModel.v; [attrs_Decimal] is
    regenerated from spyne/model/primitive/number.py (max_str_len = 1024).  [dec_in_limits] is what
    the maximal decimal context can hold (every Decimal object satisfies it). *)
From SpyneV Require Import Base.Digits Base.Ext Wire.Decimal C08.DecModel C08.DecProofs Gen.NumTypes.

(** reading back what was written gives the same sign, coefficient and exponent: every finite Decimal *)
Theorem C08_dec_roundtrip : forall a d,
  0 <= d_coef d -> dec_in_limits d = true ->
  ext_leb (Fin (len (dec_str d))) (na_max_str_len a) = true ->
  decimal_from_unicode a (decimal_to_unicode d) = Ok d.
Proof. exact decimal_roundtrip. Qed.

(** every xs:decimal literal that denotes a representable value is read as that value *)
Theorem C08_dec_in_lex : forall a s v,
  xs_decimal s = Some v -> dec_in_limits v = true ->
  ext_leb (Fin (len s)) (na_max_str_len a) = true ->
  decimal_from_unicode a s = Ok v.
Proof. exact decimal_in_lex. Qed.

(** the written text is an xs:decimal literal (denoting the value) exactly when str() uses no
    exponent: exponent <= 0 and more than -6 digits left of the point *)
Theorem C08_dec_out_lex_partial : forall d, 0 <= d_coef d -> dec_plain_form d = true ->
  xs_decimal (decimal_to_unicode d) = Some d.
Proof. exact decimal_out_lex_plain. Qed.
Theorem C08_dec_out_lex_refuted :
  exists d, 0 <= d_coef d /\ dec_in_limits d = true /\ xs_decimal (decimal_to_unicode d) = None.
Proof. exact decimal_out_lex_refuted. Qed.
Theorem C08_dec_out_lex_scientific : forall d, 0 <= d_coef d -> dec_plain_form d = false ->
  xs_decimal (decimal_to_unicode d) = None.
Proof. exact decimal_out_lex_scientific. Qed.
Theorem C08_dec_out_lex_iff : forall d, 0 <= d_coef d ->
  (xs_decimal (decimal_to_unicode d) = Some d <-> dec_plain_form d = true).
Proof. exact decimal_out_lex_iff. Qed.

(** the reader lets no exception escape and returns finite numbers only (NaN, sNaN and the
    infinities, which Decimal() accepts, are refused) *)
Theorem C08_dec_reader_total : forall a s, is_crash (decimal_from_unicode a s) = false.
Proof. exact decimal_reader_total. Qed.
Theorem C08_dec_reader_finite : forall a s d, decimal_from_unicode a s = Ok d ->
  py_decimal s = Some (PFin d) /\ ext_leb (Fin (len s)) (na_max_str_len a) = true.
Proof. exact decimal_reader_finite. Qed.

(** non-vacuity *)
Example C08_dec_ex_roundtrip :
  decimal_to_unicode (mkdec true 12345 (-7)) = [45;48;46;48;48;49;50;51;52;53]
  /\ decimal_from_unicode attrs_Decimal (decimal_to_unicode (mkdec true 12345 (-7))) = Ok (mkdec true 12345 (-7))
  /\ decimal_from_unicode attrs_Decimal (decimal_to_unicode (mkdec false 1 10)) = Ok (mkdec false 1 10)
  /\ dec_in_limits (mkdec false 1 10) = true.
Proof. vm_compute. auto. Qed.
Example C08_dec_ex_in_lex :
  xs_decimal [43;48;48;55;46;49;48] = Some (mkdec false 710 (-2))
  /\ decimal_from_unicode attrs_Decimal [43;48;48;55;46;49;48] = Ok (mkdec false 710 (-2))
  /\ xs_decimal [49;69;43;49;48] = None.
Proof. vm_compute. auto. Qed.
Example C08_dec_ex_out_lex :
  dec_plain_form (mkdec false 1 (-6)) = true /\ dec_plain_form (mkdec false 1 (-7)) = false
  /\ decimal_to_unicode (mkdec false 1 (-7)) = [49;69;45;55]
  /\ xs_decimal (decimal_to_unicode (mkdec false 1 (-6))) = Some (mkdec false 1 (-6)).
Proof. vm_compute. auto. Qed.
Example C08_dec_ex_special :
  py_decimal [45;73;110;102] = Some (PInfinity true) /\ decimal_from_unicode attrs_Decimal [45;73;110;102] = VFault
  /\ py_decimal [78;97;78] = Some (PNaN false false) /\ decimal_from_unicode attrs_Decimal [78;97;78] = VFault
  /\ decimal_from_unicode attrs_Decimal [49;95;48] = Ok (mkdec false 10 0)
  /\ decimal_from_unicode attrs_Decimal [49;69;43;49;48;48;48;48;48;48;48;48;48;48;48;48;48;48;48;48;48;48;48] = VFault.
Proof. vm_compute. auto 10. Qed.
