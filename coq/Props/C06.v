(** C06 — the published XML Schema is truthful about the wire.  Property theorems only; each
    closed by [exact] of a lemma proved in C06/*.v over the models C06/Xsd.v (XSD validity,
    written from the XML Schema recommendation), C06/Model.v (Spyne's schema emitter, XML
    writer and soft validation) and the tables generated from the emitter's source
    (Gen/XsdEmit.v, Gen/NumTypes.v). *)
From SpyneV Require Import C06.Spec C06.Closure C06.LeafProofs C06.StructProofs C06.ClosureProofs C06.Main.

(** Every document Spyne writes for a value that satisfies the declared constraints is valid
    against the schema Spyne publishes — for every well-formed universe (multi-namespace,
    inheritance, XmlAttribute members, choice groups, Array classes, max_occurs > 1,
    defaults, restrictions on every leaf class), every class of it, every conformant value
    and every nesting depth.  [resolves_b] is the decidable check that the published schema
    defines every name it refers to (evaluated for each generated universe by the
    correspondence); [patterns_known] / [constants_ok] / [opq_ok] are the hypotheses on the
    libraries the leaf codecs delegate to. *)
Theorem C06_emitted_valid :
  forall (pat : text -> option re) (olex : okind -> text -> option Z) (ord : okind -> text -> out Z)
         (U : univ) (tns : text),
    dec_leaf_hyp pat olex ->
    wf_univ U = true -> resolves_b (schema_of U tns) U = true ->
    patterns_known pat U -> constants_ok olex ord U ->
    forall n c cl v e m,
      get_klass U c = Some cl -> v <> NNone ->
      vconf U (opq_ok olex ord) n (DRef c) v = true ->
      emit U n (DRef c) None (k_ns cl) (k_name cl) v = Ok e ->
      (n + length U < m)%nat ->
      valid_doc pat olex m (schema_of U tns) (wire e) = true.
Proof.
  intros pat olex ord U tns Hdec Hwf Hres. apply (emitted_doc_valid pat olex ord U (schema_of U tns) Hdec Hwf).
  exact (resolves_b_sound _ _ Hres).
Qed.

(** Leaf level, both directions at once: on the text of ANY integer (conformant or not) the
    published simple type of a customised integer class and soft validation reach the same
    verdict, for gt / ge / lt / le / values and the value space of the class.  Guards =
    constraints only one side implements: total_digits (schema only), max_str_len (soft only). *)
Theorem C06_int_verdicts_agree :
  forall pat olex ord st k nil z,
    st_base st = BInt k -> wf_stype st = true ->
    fa_total_digits (st_fa st) = None ->
    ext_leb (Fin (len (str_int z))) (fa_max_str_len (st_fa st)) = true ->
    st_simple_ok pat olex st (str_int z) = is_ok (soft_leaf ord st nil (Some (str_int z))).
Proof. exact int_leaf_agree. Qed.

(** strings: on EVERY text (and on the empty element), for min_len / max_len / values /
    pattern; anyURI for texts without blanks at the ends (whiteSpace = collapse) *)
Theorem C06_str_verdicts_agree :
  forall pat olex ord st uri nil txt,
    st_base st = BStr uri -> wf_stype st = true ->
    (forall p r, fa_pattern (st_fa st) = Some (p, r) -> pat p = Some r) ->
    (uri = true -> match txt with Some s => xs_trim s = s | None => True end) ->
    st_elem_ok pat olex st None txt = is_ok (soft_leaf ord st nil txt).
Proof. exact str_leaf_agree. Qed.

Theorem C06_bool_verdicts_agree :
  forall pat olex ord st nil s,
    st_base st = BBool -> wf_stype st = true -> xs_bool_lit olex s = true ->
    st_simple_ok pat olex st s = is_ok (soft_leaf ord st nil (Some s)).
Proof. exact bool_leaf_agree. Qed.

(** the decidable closure check is sound *)
Theorem C06_closure_check_sound : forall S U, resolves_b S U = true -> resolves S U.
Proof. exact resolves_b_sound. Qed.

(* ------------------------------------------------------------------ non-vacuity *)
Definition ex_fa (ge le : option sval) (vals : list sval) (mn mx : option Z) (msl : ext) : facets :=
  mkfacets None ge None le vals mn mx None None None msl.
Definition ex_int : stype :=
  mkstype (BInt (KFixed true 8)) (ex_fa (Some (SInt (-3))) (Some (SInt 5)) [] None None PosInf) (Some ([117; 114; 110; 58; 116], [65; 95; 105; 84])).
Definition ex_str : stype :=
  mkstype (BStr false) (ex_fa None None [] (Some 1) (Some 3) PosInf) (Some ([117; 114; 110; 58; 116], [65; 95; 115; 84])).
Definition ex_plain : stype := mkstype (BInt KInteger) (ex_fa None None [] None None (Fin 1024)) None.
Definition ex_bool : stype := mkstype BBool (ex_fa None None [] None None PosInf) None.
(** class A (urn:t): a required attribute, a restricted byte, a restricted string with a
    default, a choice of two optional members, an Array of integers;
    class B (urn:u) extends A with a repeated member of class A *)
Definition ex_U : univ :=
  [ mkklass [117; 114; 110; 58; 116] [65] None
      [ IOne (mkfld [105; 100] (DLeaf ex_plain) 1 (Fin 1) false FAttr None None);
        IOne (mkfld [105] (DLeaf ex_int) 1 (Fin 1) false FElem None None);
        IOne (mkfld [115] (DLeaf ex_str) 0 (Fin 1) true FElem (Some (SText [120])) None);
        IGroup 0 [ mkfld [112] (DLeaf ex_bool) 0 (Fin 1) true FElem None None;
                   mkfld [113] (DLeaf ex_plain) 0 (Fin 2) false FElem None None ];
        IOne (mkfld [97] (DArr ([117; 114; 110; 58; 116], [105; 65]) [105; 110; 116] (DLeaf ex_plain)) 0 (Fin 1) true FElem None None) ];
    mkklass [117; 114; 110; 58; 117] [66] (Some 0%nat)
      [ IOne (mkfld [109] (DRef 0%nat) 0 PosInf true FElem None None) ] ].
Definition ex_a : value :=
  NObj 0%nat [NLeaf (SInt 7); NLeaf (SInt (-3)); NNone; NNone; NList [NLeaf (SInt 1); NLeaf (SInt 2)]; NList [NLeaf (SInt 10); NNone]].
Definition ex_v : value :=
  NObj 1%nat [NLeaf (SInt 1); NLeaf (SInt 5); NLeaf (SText [97; 98]); NLeaf (SBool true); NNone; NNone; NList [ex_a]].

Example C06_ex_emitted_valid :
  let pat := pat_of [] in let olex := olex_of [] in let ord := ord_of [] in
  let tns := [117; 114; 110; 58; 116] in
  wf_univ ex_U = true
  /\ resolves_b (schema_of ex_U tns) ex_U = true
  /\ vconf ex_U (opq_ok olex ord) 4 (DRef 1%nat) ex_v = true
  /\ match emit ex_U 4 (DRef 1%nat) None [117; 114; 110; 58; 117] [66] ex_v with
     | Ok e => valid_doc pat olex 8 (schema_of ex_U tns) (wire e)
     | _ => false
     end = true.
Proof. vm_compute. repeat split. Qed.

Example C06_ex_int_agree :
  st_simple_ok (pat_of []) (olex_of []) ex_int (str_int 5) = true
  /\ soft_leaf (ord_of []) ex_int false (Some (str_int 5)) = Ok tt
  /\ st_simple_ok (pat_of []) (olex_of []) ex_int (str_int 6) = false
  /\ soft_leaf (ord_of []) ex_int false (Some (str_int 6)) = VFault
  /\ st_simple_ok (pat_of []) (olex_of []) ex_int (str_int (-129)) = false
  /\ soft_leaf (ord_of []) ex_int false (Some (str_int (-129))) = VFault.
Proof. vm_compute. repeat split. Qed.

Example C06_ex_str_agree :
  st_elem_ok (pat_of []) (olex_of []) ex_str None (Some [97; 98; 99]) = true
  /\ soft_leaf (ord_of []) ex_str false (Some [97; 98; 99]) = Ok tt
  /\ st_elem_ok (pat_of []) (olex_of []) ex_str None None = false
  /\ soft_leaf (ord_of []) ex_str false None = VFault.
Proof. vm_compute. repeat split. Qed.
