(** C06 — the published XML Schema is truthful about the wire.  Property theorems only; each
    closed by [exact] of a lemma proved in C06/*.v over the models C06/Xsd.v (XSD validity,
    written from the XML Schema recommendation), C06/Model.v (Spyne's schema emitter, XML
    writer and soft validation) and the tables generated from the emitter's source
    (Gen/XsdEmit.v, Gen/NumTypes.v). *)
From SpyneV Require Import C06.Spec C06.Docs C06.Closure C06.LeafProofs C06.StructProofs C06.AgreeProofs C06.ClosureProofs C06.DecProofs C06.Main.

(** Every document Spyne writes for a value that satisfies the declared constraints is valid
    against the schema Spyne publishes — for every well-formed universe (multi-namespace,
    inheritance, XmlAttribute members, choice groups, Array classes, max_occurs > 1,
    defaults, restrictions on every leaf class), every class of it, every conformant value
    and every nesting depth.
    [resolves_b] is the decidable check that the published schema defines every name it refers
    to (evaluated for each generated universe by the correspondence).  [patterns_known],
    [constants_ok] and the [opq_ok] half of [wire_ok] are the hypotheses on the libraries the
    delegated leaf codecs call.  Integers, strings, booleans and decimal.Decimal need none.
    PARTIAL in two named regions, both known findings of the pinned tree:
      * a Decimal must be one that str() writes without exponent ([wire_ok]; the statement
        without this guard is refuted below: C06_decimal_wire_refuted);
      * None may not stand where Spyne writes an xsi:nil element of a class with a required
        XmlAttribute ([nil_ok] inside [vconf]; refuted below: C06_nil_required_refuted). *)
Theorem C06_emitted_valid_partial :
  forall (pat : text -> option re) (olex : okind -> text -> option Z) (ord : okind -> text -> out Z)
         (U : univ) (tns : text),
    wf_univ U = true -> resolves_b (schema_of U tns) U = true ->
    patterns_known pat U -> constants_ok olex ord U ->
    forall n c cl v e m,
      get_klass U c = Some cl -> v <> NNone ->
      vconf U (wire_ok olex ord) n (DRef c) v = true ->
      emit U n (DRef c) None (k_ns cl) (k_name cl) v = Ok e ->
      (n + length U < m)%nat ->
      valid_doc pat olex m (schema_of U tns) (wire e) = true.
Proof.
  intros pat olex ord U tns Hwf Hres.
  apply (emitted_doc_valid pat olex ord U (schema_of U tns) (dec_wire_holds pat olex) (dec_literal_holds pat olex) Hwf).
  exact (resolves_b_sound _ _ Hres).
Qed.

(** what the schema emitter writes for a Decimal facet, enumeration or default value
    (format(value, 'f')) is an xs:decimal literal of the same number, for EVERY finite Decimal *)
Theorem C06_decimal_literal :
  forall d, (0 <= d_coeff d)%Z -> xs_decimal (dec_plain d) = Some (plain_value (d_neg d) d) /\ same_num (plain_value (d_neg d) d) d.
Proof. intros d H. split; [exact (xs_decimal_plain d H)|exact (plain_value_same d H)]. Qed.

Theorem C06_decimal_literal_valid :
  forall pat olex st d, st_base st = BDec -> wf_stype st = true -> leaf_conf st (SDec d) = true ->
    st_simple_ok pat olex st (schema_text BDec (SDec d)) = true.
Proof. exact dec_literal_holds. Qed.

(** ... while what Spyne writes on the wire for a Decimal (str(value)) is not: the full
    statement is refuted by Decimal('1E+10') in an unrestricted Decimal member *)
Definition ex_dec : stype := mkstype BDec (mkfacets None None None None [] None None None None None (Fin 1024)) None.
Theorem C06_decimal_wire_refuted :
  exists st d, wf_stype st = true /\ leaf_conf st (SDec d) = true
               /\ st_simple_ok (fun _ => None) (fun _ _ => None) st (dec_print decimal_printer d) = false.
Proof. exists ex_dec, (mkdec false 1 10). vm_compute. repeat split. Qed.

(** None for a nillable member whose class has a required XmlAttribute: Spyne writes
    <x xsi:nil="true"/>, which the schema it publishes rejects (the attribute is required on a
    nilled element too).  Class K0 {a : XmlAttribute(Unicode, min_occurs=1)}, class K1
    {x : K0, min_occurs=1, nillable}, value K1(x=None). *)
Definition nil_U : univ :=
  [ mkklass [117; 114; 110; 58; 116] [75; 48] None
      [ IOne (mkfld [97] (DLeaf (mkstype (BStr false) (mkfacets None None None None [] None None None None None PosInf) None))
                    1 (Fin 1) true FAttr None None) ];
    mkklass [117; 114; 110; 58; 116] [75; 49] None
      [ IOne (mkfld [120] (DRef 0%nat) 1 (Fin 1) true FElem None None) ] ].
Theorem C06_nil_required_refuted :
  let tns := [117; 114; 110; 58; 116] in
  wf_univ nil_U = true /\ resolves_b (schema_of nil_U tns) nil_U = true
  /\ match emit nil_U 3 (DRef 1%nat) None tns [75; 49] (NObj 1%nat [NNone]) with
     | Ok e => valid_doc (fun _ => None) (fun _ _ => None) 8 (schema_of nil_U tns) (wire e)
     | _ => true
     end = false.
Proof. vm_compute. repeat split. Qed.

(** For documents that use only declared members in declared order, schema validation and soft
    validation reach the same accept / reject verdict — for every well-formed universe, every
    class, every nesting depth, every number of occurrences of every member, every placement of
    xsi:nil, every attribute present or absent, and leaf contents as in [la_canon] (the text of
    ANY integer, ANY string, the boolean literals).  [ddoc] excludes only what one of the two
    validators does not implement: content inside a nilled element, two members of one choice
    group, an empty element of a member with a default, a nilled class with a required
    attribute (known finding), xsi attributes other than xsi:nil. *)
Theorem C06_verdicts_agree :
  forall (pat : text -> option re) (olex : okind -> text -> option Z) (ord : okind -> text -> out Z)
         (U : univ) (tns : text),
    wf_univ U = true -> resolves_b (schema_of U tns) U = true -> patterns_known pat U ->
    forall n c cl e m,
      get_klass U c = Some cl ->
      match e with
      | XElt ns name atts _ _ => text_eqb ns (k_ns cl) && text_eqb name (k_name cl) && negb (is_nil_att atts)
      | XOther => false
      end = true ->
      ddoc U (la_canon olex) n (DRef c) false None e = true ->
      (n + length U < m)%nat ->
      valid_doc pat olex m (schema_of U tns) e = is_ok (soft U ord n (DRef c) true e).
Proof.
  intros pat olex ord U tns Hwf Hres. apply (doc_verdicts_agree pat olex ord U (schema_of U tns) Hwf).
  exact (resolves_b_sound _ _ Hres).
Qed.

(** the same at every position and for ANY leaf contents on which the leaf validators agree
    ([LA] with its hypothesis): the structural half of the agreement *)
Theorem C06_verdicts_agree_structure :
  forall pat olex ord U S (LA : stype -> bool -> option text -> option text -> bool),
    wf_univ U = true -> resolves S U ->
    (forall st nil d txt, In (DLeaf st) (tys_of U) -> wf_stype st = true -> LA st nil d txt = true ->
       st_elem_ok pat olex st d txt = is_ok (soft_leaf ord st nil txt)) ->
    forall n t nillable dflt e,
      ty_known U t -> ddoc U LA n t nillable dflt e = true ->
      forall m, (n + length U < m)%nat ->
        valid_elem pat olex m S (type_qn U t) nillable dflt e = is_ok (soft U ord n t nillable e).
Proof. exact verdicts_agree. Qed.

(** Leaf level, both directions at once: on the text of ANY integer (conformant or not) the
    published simple type of a customised integer class and soft validation reach the same
    verdict, for gt / ge / lt / le / values and the value space of the class.  Guards =
    constraints only one side implements: total_digits (schema only), max_str_len (soft only). *)
Theorem C06_int_verdicts_agree :
  forall pat olex ord st k nil z,
    st_base st = BInt k -> wf_stype st = true ->
    fa_total_digits (st_fa st) = None ->
    ext_leb (Fin (len (str_int z))) (fa_max_str_len (st_fa st)) = true ->
    st_simple_ok pat olex st (str_int z) = is_ok (soft_leaf ord st nil (Some (str_int z))).
Proof. exact int_leaf_agree. Qed.

(** strings: on EVERY text (and on the empty element), for min_len / max_len / values /
    pattern; anyURI for texts without blanks at the ends (whiteSpace = collapse) *)
Theorem C06_str_verdicts_agree :
  forall pat olex ord st uri nil txt,
    st_base st = BStr uri -> wf_stype st = true ->
    (forall p r, fa_pattern (st_fa st) = Some (p, r) -> pat p = Some r) ->
    (uri = true -> match txt with Some s => xs_trim s = s | None => True end) ->
    st_elem_ok pat olex st None txt = is_ok (soft_leaf ord st nil txt).
Proof. exact str_leaf_agree. Qed.

Theorem C06_bool_verdicts_agree :
  forall pat olex ord st nil s,
    st_base st = BBool -> wf_stype st = true -> xs_bool_lit olex s = true ->
    st_simple_ok pat olex st s = is_ok (soft_leaf ord st nil (Some s)).
Proof. exact bool_leaf_agree. Qed.

(** the decidable closure check is sound *)
Theorem C06_closure_check_sound : forall S U, resolves_b S U = true -> resolves S U.
Proof. exact resolves_b_sound. Qed.

(* ------------------------------------------------------------------ non-vacuity *)
Definition ex_fa (ge le : option sval) (vals : list sval) (mn mx : option Z) (msl : ext) : facets :=
  mkfacets None ge None le vals mn mx None None None msl.
Definition ex_int : stype :=
  mkstype (BInt (KFixed true 8)) (ex_fa (Some (SInt (-3))) (Some (SInt 5)) [] None None PosInf) (Some ([117; 114; 110; 58; 116], [65; 95; 105; 84])).
Definition ex_str : stype :=
  mkstype (BStr false) (ex_fa None None [] (Some 1) (Some 3) PosInf) (Some ([117; 114; 110; 58; 116], [65; 95; 115; 84])).
Definition ex_plain : stype := mkstype (BInt KInteger) (ex_fa None None [] None None (Fin 1024)) None.
Definition ex_bool : stype := mkstype BBool (ex_fa None None [] None None PosInf) None.
(** class A (urn:t): a required attribute, a restricted byte, a restricted string with a
    default, a choice of two optional members, an Array of integers;
    class B (urn:u) extends A with a repeated member of class A *)
Definition ex_U : univ :=
  [ mkklass [117; 114; 110; 58; 116] [65] None
      [ IOne (mkfld [105; 100] (DLeaf ex_plain) 1 (Fin 1) false FAttr None None);
        IOne (mkfld [105] (DLeaf ex_int) 1 (Fin 1) false FElem None None);
        IOne (mkfld [115] (DLeaf ex_str) 0 (Fin 1) true FElem (Some (SText [120])) None);
        IGroup 0 [ mkfld [112] (DLeaf ex_bool) 0 (Fin 1) true FElem None None;
                   mkfld [113] (DLeaf ex_plain) 0 (Fin 2) false FElem None None ];
        IOne (mkfld [97] (DArr ([117; 114; 110; 58; 116], [105; 65]) [105; 110; 116] (DLeaf ex_plain)) 0 (Fin 1) true FElem None None) ];
    mkklass [117; 114; 110; 58; 117] [66] (Some 0%nat)
      [ IOne (mkfld [109] (DRef 0%nat) 0 PosInf true FElem None None) ] ].
Definition ex_a : value :=
  NObj 0%nat [NLeaf (SInt 7); NLeaf (SInt (-3)); NNone; NNone; NList [NLeaf (SInt 1); NLeaf (SInt 2)]; NList [NLeaf (SInt 10); NNone]].
Definition ex_v : value :=
  NObj 1%nat [NLeaf (SInt 1); NLeaf (SInt 5); NLeaf (SText [97; 98]); NLeaf (SBool true); NNone; NNone; NList [ex_a]].

Example C06_ex_emitted_valid :
  let pat := pat_of [] in let olex := olex_of [] in let ord := ord_of [] in
  let tns := [117; 114; 110; 58; 116] in
  wf_univ ex_U = true
  /\ resolves_b (schema_of ex_U tns) ex_U = true
  /\ vconf ex_U (wire_ok olex ord) 4 (DRef 1%nat) ex_v = true
  /\ match emit ex_U 4 (DRef 1%nat) None [117; 114; 110; 58; 117] [66] ex_v with
     | Ok e => valid_doc pat olex 8 (schema_of ex_U tns) (wire e)
     | _ => false
     end = true.
Proof. vm_compute. repeat split. Qed.

Example C06_ex_int_agree :
  st_simple_ok (pat_of []) (olex_of []) ex_int (str_int 5) = true
  /\ soft_leaf (ord_of []) ex_int false (Some (str_int 5)) = Ok tt
  /\ st_simple_ok (pat_of []) (olex_of []) ex_int (str_int 6) = false
  /\ soft_leaf (ord_of []) ex_int false (Some (str_int 6)) = VFault
  /\ st_simple_ok (pat_of []) (olex_of []) ex_int (str_int (-129)) = false
  /\ soft_leaf (ord_of []) ex_int false (Some (str_int (-129))) = VFault.
Proof. vm_compute. repeat split. Qed.

Example C06_ex_str_agree :
  st_elem_ok (pat_of []) (olex_of []) ex_str None (Some [97; 98; 99]) = true
  /\ soft_leaf (ord_of []) ex_str false (Some [97; 98; 99]) = Ok tt
  /\ st_elem_ok (pat_of []) (olex_of []) ex_str None None = false
  /\ soft_leaf (ord_of []) ex_str false None = VFault.
Proof. vm_compute. repeat split. Qed.

(** documents of class A of [ex_U] in declared order: a valid one, and one with three q
    (max_occurs = 2) — both validators accept the first and reject the second *)
Definition ex_doc (qs : list xnode) (i : text) : xnode :=
  XElt [117; 114; 110; 58; 116] [65] [([], [105; 100], [55])] None
    ([ XElt [117; 114; 110; 58; 116] [105] [] (Some i) [] ] ++ qs).
Definition ex_q (s : text) : xnode := XElt [117; 114; 110; 58; 116] [113] [] (Some s) [].
Example C06_ex_verdicts :
  let pat := pat_of [] in let olex := olex_of [] in let ord := ord_of [] in
  let tns := [117; 114; 110; 58; 116] in
  let good := ex_doc [ex_q [49]; ex_q [50]] [45; 51] in
  let many := ex_doc [ex_q [49]; ex_q [50]; ex_q [51]] [45; 51] in
  let range := ex_doc [] [54] in
  ddoc ex_U (la_canon olex) 4 (DRef 0%nat) false None good = true
  /\ ddoc ex_U (la_canon olex) 4 (DRef 0%nat) false None many = true
  /\ ddoc ex_U (la_canon olex) 4 (DRef 0%nat) false None range = true
  /\ valid_doc pat olex 8 (schema_of ex_U tns) good = true /\ soft ex_U ord 4 (DRef 0%nat) true good = Ok tt
  /\ valid_doc pat olex 8 (schema_of ex_U tns) many = false /\ soft ex_U ord 4 (DRef 0%nat) true many = VFault
  /\ valid_doc pat olex 8 (schema_of ex_U tns) range = false /\ soft ex_U ord 4 (DRef 0%nat) true range = VFault.
Proof. vm_compute. repeat split. Qed.
