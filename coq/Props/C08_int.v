(** C08 — integers, addendum: the explicit '+' sign of the XSD lexical space.
    Property theorems only. *)
From SpyneV Require Import Base.Digits Base.Ext C08.IntModel C08.IntProofs C08.IntPlus Gen.NumTypes.

(** for every fixed-width type of the table regenerated from spyne/model/primitive/number.py
    (byte ... unsignedLong): '+' followed by the canonical digits of any non-negative value of the
    type's value space passes the max_str_len guard and is read as that value *)
Theorem C08_bounded_plus_sign :
  Forall (fun '(signed, bits, a, vn) =>
            forall z, 0 <= z <= hi signed bits ->
                      integer_from_unicode a (43 :: str_nat z) = Ok z)
         bounded_int_types.
Proof. exact bounded_plus_sign. Qed.

Example C08_ex_plus_sign :
  integer_from_unicode attrs_UnsignedInteger8 [43; 50; 53; 53] = Ok 255
  /\ integer_from_unicode attrs_Integer8 [43; 49; 50; 55] = Ok 127
  /\ integer_from_unicode attrs_UnsignedInteger64 (43 :: str_nat 18446744073709551615) = Ok 18446744073709551615
  /\ hi false 8 = 255.
Proof. vm_compute. auto. Qed.
