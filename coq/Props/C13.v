(** C13 — WSGI response protocol and request-size limit.
    Property theorems only; each closed by [exact] of a lemma proved in C13/Proofs.v.
    [trace c r] is the sequence of events (reads of wsgi.input, the user function,
    start_response, body chunks, context close, escaping exceptions) that the
    modelled WsgiApplication produces for configuration [c] and request scenario
    [r]; everything below the WSGI layer (protocols, user code, serialisers, the
    input stream, the server's consumption of the iterable) is a field of [r] and
    hence universally quantified. *)
From Coq Require Import ZArith List Bool.
From SpyneV Require Import Base.Prelude Base.Digits C13.Model C13.Proofs.
Import ListNotations.
Open Scope Z_scope.

(** start_response is never called twice and never after a body chunk or after
    the context was closed — for every request, configuration, stream, fault
    and abort point, without any side condition *)
Theorem C13_start_discipline : forall c r, start_discipline (trace c r) = true.
Proof. exact start_discipline_holds. Qed.

(** ... and it is called exactly once, provided the layers below do what C10/C09
    demand of them (no non-Fault exception out of the input protocol or out of
    the fault serialiser); in particular also when chunked=False joins a lazily
    produced body that fails (repaired in /repo: "fix: report a result generator
    that fails while the unchunked response is joined") *)
Theorem C13_one_start : forall c r, total_layers r ->
  count is_start (trace c r) = 1%nat.
Proof. exact one_start. Qed.

(** when it is not called at all, the callable raised (the server answers 500 itself) *)
Theorem C13_no_start_means_raise : forall c r, count is_start (trace c r) = 0%nat ->
  exists e, o_resp (run c r) = Escapes e.
Proof. exact no_start_raises. Qed.

(** a Content-Length header, when sent, is the size of the body: what the server
    has been handed is a prefix of a body of exactly that many bytes, and all of
    it when the server iterates to the end *)
Theorem C13_clen : forall c r k n, In (Start k (Some n)) (trace c r) ->
  exists rest, n = total_sent (trace c r) + sumz rest /\ (take r = None -> rest = []).
Proof. exact clen_holds. Qed.

(** at most max_content_length bytes are ever read from wsgi.input: whatever the
    stream answers, whatever CONTENT_LENGTH says *)
Theorem C13_read_bound : forall c r, 0 <= bl c -> 0 <= mcl c ->
  total_read (trace c r) <= mcl c.
Proof. exact read_bound. Qed.

(** ... and never even asked for: every read(n) has n within what is left of the limit *)
Theorem C13_asks_bound : forall c r, 0 <= bl c -> 0 <= mcl c ->
  asks_within (mcl c) (trace c r).
Proof. exact asks_bound. Qed.

(** a declared length above the limit: nothing is read, user code does not run,
    the response is the RequestTooLong fault (or, if serialising that fault
    crashes, that exception) *)
Theorem C13_too_long_declared : forall c r s n,
  is_wsdl r = false -> clen r = Some s -> int_of_text s = Some n -> n > mcl c ->
  ~ In User (trace c r) /\ total_read (trace c r) = 0 /\
  match s_eser r with
  | ESerOk ch => trace c r = Start (RErr FTooLong) (Some (sumz ch))
                                   :: serve ch false finalize (take r) (closes r)
  | ESerExn e => trace c r = [Raise e]
  end.
Proof. exact too_long_declared_trace. Qed.

(** user code runs only on a body that fits: its declared length is within the
    limit, or — no declared length, body read by the input protocol — the end of
    the stream was seen before max_content_length bytes were read *)
Theorem C13_user_means_fits : forall c r, is_wsdl r = false -> In User (trace c r) ->
  match clen r with
  | Some s => exists n, declared_length c (Some s) = LLen n true /\ n <= mcl c
  | None => consume r = true -> saw_eof (trace c r) = true /\ total_read (trace c r) < mcl c
  end.
Proof. exact user_means_fits. Qed.

Theorem C13_too_long_undeclared : forall c r,
  is_wsdl r = false -> clen r = None -> consume r = true ->
  saw_eof (trace c r) = false -> ~ In User (trace c r).
Proof. exact too_long_undeclared. Qed.

(** the guard [consume r = true] is needed: an input protocol that never reads
    the body (HttpRpc) lets user code run whatever an undeclared body holds *)
Theorem C13_too_long_unread_refuted : exists c r,
  is_wsdl r = false /\ clen r = None /\ sumz (stream r) > mcl c /\ In User (trace c r).
Proof.
  exists (Cfg true 100 10),
         (Req false WNoDoc None [60; 60] false SOk SOk (UReturn RPlain)
              (SerOk (BSized [3])) (ESerOk [5]) None true).
  repeat split; try reflexivity. vm_compute. auto.
Qed.

(** the context is closed at most once and no body chunk is handed over after
    that — for every request, fault and abort point, without side condition *)
Theorem C13_close_discipline : forall c r, close_discipline (trace c r) = true.
Proof. exact close_discipline_holds. Qed.

(** ... and exactly once for every started response, when the server calls
    close() on the iterable (PEP 3333) or iterates it to the end *)
Theorem C13_closed_once : forall c r k cl, In (Start k cl) (trace c r) ->
  closes r = true \/ take r = None -> count is_ctxclose (trace c r) = 1%nat.
Proof. exact closed_once. Qed.

(** non-vacuity: concrete, non-trivial instances *)
Definition ex_cfg := Cfg true 250 100.
(* a 168-byte SOAP request read in three short reads, a streamed 3-chunk answer, client gone after 2 chunks *)
Definition ex_req := Req false WNoDoc (Some [49; 54; 56]) [100; 30; 38; 0] true SOk SOk
                         (UReturn (RGen FItem)) (SerOk (BLazy [4; 4; 4] false)) (ESerOk [330])
                         (Some 2%nat) true.
Example C13_ex_trace : trace ex_cfg ex_req =
  [Read 100 100; Read 68 30; Read 38 38; User; Start ROk None; Chunk 4; Chunk 4; CtxClose; WsgiClose].
Proof. reflexivity. Qed.
Example C13_ex_one_start : total_layers ex_req
  /\ count is_start (trace ex_cfg ex_req) = 1%nat /\ count is_ctxclose (trace ex_cfg ex_req) = 1%nat.
Proof. repeat split; try discriminate; try reflexivity. eexists; reflexivity. Qed.
(* declared 300 > 250 *)
Example C13_ex_too_long :
  trace ex_cfg (Req false WNoDoc (Some [51; 48; 48]) [300] true SOk SOk (UReturn RPlain)
                    (SerOk (BSized [261])) (ESerOk [330]) None true)
  = [Start (RErr FTooLong) (Some 330); Chunk 330; CtxClose; WsgiClose].
Proof. reflexivity. Qed.
(* no declared length, 268 bytes offered: 250 read, no end of stream, refused *)
Example C13_ex_undeclared :
  trace ex_cfg (Req false WNoDoc None [100; 100; 68] true SOk SOk (UReturn RPlain)
                    (SerOk (BSized [261])) (ESerOk [330]) None true)
  = [Read 100 100; Read 100 100; Read 50 50; Start (RErr FTooLong) (Some 330); Chunk 330; CtxClose; WsgiClose].
Proof. reflexivity. Qed.
(* chunked=False, the lazily produced body fails while it is joined: answered as a Server fault *)
Example C13_ex_lazy_join_fails :
  trace (Cfg false 100 10) (Req false WNoDoc None [] false SOk SOk (UReturn (RGen FItem))
                                (SerOk (BLazy [3] true)) (ESerOk [5]) None true)
  = [User; Start (RErr FOther) (Some 5); Chunk 5; CtxClose; WsgiClose].
Proof. reflexivity. Qed.
(* Content-Length present, full consumption *)
Example C13_ex_clen : In (Start ROk (Some 12)) (trace (Cfg false 250 100)
     (Req false WNoDoc None [] false SOk SOk (UReturn RPlain) (SerOk (BSized [4; 4; 4])) (ESerOk [5]) None false))
  /\ total_sent (trace (Cfg false 250 100)
     (Req false WNoDoc None [] false SOk SOk (UReturn RPlain) (SerOk (BSized [4; 4; 4])) (ESerOk [5]) None false)) = 12.
Proof. vm_compute. auto. Qed.
Example C13_ex_wsdl : trace ex_cfg (Req true (WBuild (Some 5599)) None [] false SOk SOk (URaise FOther) SerExn (ESerExn OtherExn) None true)
  = [Start RWsdl200 (Some 5599); Chunk 5599; CtxClose].
Proof. reflexivity. Qed.

(** the response iterable statement by statement ([ri_close_steps] is generated from
    _ResponseIterator.close): with a close callback that does not raise it is the [serve]
    the theorems above are about ... *)
Theorem C13_iterator_refines : forall fin ch f tk cl,
  serve_it ch f fin false tk cl = serve ch f fin tk cl.
Proof. exact serve_it_refines. Qed.

(** ... and when the close callback raises (a wsgi_close listener fails, a ctx.files handle fails
    to close) the context is still closed exactly once, also after the close() the server owes *)
Theorem C13_closed_once_failing_close : forall c r cf k cl, In (Start k cl) (trace_cf c r cf) ->
  closes r = true \/ take r = None -> count is_ctxclose (trace_cf c r cf) = 1%nat.
Proof. exact closed_once_failing_close. Qed.

(* the streamed answer of ex_req iterated to the end with a failing wsgi_close listener, then close() *)
Example C13_ex_failing_close :
  trace_cf ex_cfg (Req false WNoDoc (Some [49; 54; 56]) [100; 30; 38; 0] true SOk SOk
                       (UReturn (RGen FItem)) (SerOk (BLazy [4; 4] false)) (ESerOk [330]) None true) CFListener
  = [Read 100 100; Read 68 30; Read 38 38; User; Start ROk None; Chunk 4; Chunk 4; CtxClose; WsgiClose; Raise OtherExn].
Proof. reflexivity. Qed.
