(** C08 — primitive text forms are lossless and lie in the XSD lexical space.
    Property theorems only; each closed by [exact] of a lemma proved elsewhere. *)
From SpyneV Require Import Base.Digits Base.DigitsProofs Base.Ext C08.IntModel C08.IntProofs Gen.NumTypes.

(** Python's str(int)/int(str) round trip, every integer *)
Theorem C08_int_text_roundtrip : forall z, int_of_text (str_int z) = Some z.
Proof. exact int_of_text_str_int. Qed.

(** the text written for any integer is an xs:integer literal *)
Theorem C08_int_out_lex : forall z, xs_integer (integer_to_unicode z) = true.
Proof. exact str_int_xs. Qed.

(** fixed-width types (table generated from spyne/model/primitive/number.py):
    validate_native accepts exactly the XSD value space ... *)
Theorem C08_bounded_native_exact :
  Forall (fun '(signed, bits, a, vn) =>
            forall z, vn a z = true <-> lo signed bits <= z <= hi signed bits)
         bounded_int_types.
Proof. exact bounded_native_exact. Qed.

(** ... and print-then-read is the identity on it, with no length side condition *)
Theorem C08_bounded_roundtrip :
  Forall (fun '(signed, bits, a, vn) =>
            forall z, lo signed bits <= z <= hi signed bits ->
                      integer_from_unicode a (integer_to_unicode z) = Ok z /\ vn a z = true)
         bounded_int_types.
Proof. exact bounded_roundtrip. Qed.

(** arbitrary-size integers: under the declared max_str_len *)
Theorem C08_integer_roundtrip : forall a z,
  ext_leb (Fin (len (str_int z))) (na_max_str_len a) = true ->
  integer_from_unicode a (integer_to_unicode z) = Ok z.
Proof. exact integer_roundtrip. Qed.

(** every xs:integer literal within the declared length guard is read as its denotation *)
Theorem C08_integer_in_lex : forall a s,
  xs_integer s = true -> ext_leb (Fin (len s)) (na_max_str_len a) = true ->
  integer_from_unicode a s = Ok (den_integer s).
Proof. exact integer_in_lex. Qed.

(** non-vacuity: concrete instances meet the hypotheses *)
Example C08_ex_bounded : integer_from_unicode attrs_Integer8 (integer_to_unicode (-128)) = Ok (-128)
  /\ validate_native_UnsignedInteger16 attrs_UnsignedInteger16 65535 = true
  /\ length bounded_int_types = 8%nat.
Proof. vm_compute. auto. Qed.
Example C08_ex_in_lex : xs_integer [43; 48; 48; 55] = true
  /\ integer_from_unicode attrs_Integer [43; 48; 48; 55] = Ok 7.
Proof. vm_compute. auto. Qed.
