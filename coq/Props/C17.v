(** C17 — XML input is parsed with safe defaults.
    Property theorems only; each closed by [exact] of a lemma proved elsewhere.
    [parse_sites], [init_defaults], [parser_kwargs_src] are GENERATED from the
    working tree (Gen/XmlParserCfg.v): the first theorems are re-proved against
    what spyne/protocol/xml.py, soap/soap11.py and soap/mime.py say now. *)
From Coq Require Import String.
From SpyneV Require Import Base.Prelude C17.Cfg C17.Xml C17.Proofs C17.TableProofs Gen.XmlParserCfg.

(** every lxml parse call that reads request bytes gets the safe configuration
    (resolve_entities=False, load_dtd/dtd_validation/attribute_defaults=False,
    no_network=True, huge_tree=False, recover=False) when the protocol is built
    with default settings, and sits inside try/except XMLSyntaxError ->
    Fault('Client.XMLSyntaxError') *)
Theorem C17_defaults_safe :
  Forall (fun s => is_request s = true -> site_ok init_defaults parser_kwargs_src s = true) parse_sites.
Proof. exact defaults_safe. Qed.

(** under a safe configuration no document makes the parser open a file or a connection ... *)
Theorem C17_no_external : forall c w d, safeb c = true -> p_events (parse c w d) = [].
Proof. exact no_external. Qed.

(** ... and the whole result (tree, entity table, rejection) is the same whatever the file
    system and the network contain: no external content can reach anything downstream *)
Theorem C17_world_independent : forall c w w' d, safeb c = true -> parse c w d = parse c w' d.
Proof. exact world_independent. Qed.

(** what comes back is the request's own tree, references kept as references
    (undeclared ones dropped from attribute values): nothing is expanded into
    the tree, no DTD attribute default is added, XInclude elements stay elements *)
Theorem C17_tree_verbatim : forall c w d t g,
  safeb c = true -> p_out (parse c w d) = PTree t g -> t = scrub g (d_root d).
Proof. exact tree_verbatim. Qed.

(** accepted documents are at most 256 elements deep *)
Theorem C17_depth_bounded : forall c w d t g,
  safeb c = true -> p_out (parse c w d) = PTree t g -> depth_of (d_root d) <= 256.
Proof. exact depth_bounded. Qed.

(** at every request parse site of the working tree, with default settings, for every
    document and every world: nothing is loaded, and the request either ends as
    Fault('Client.XMLSyntaxError') or continues with its own verbatim tree of depth <= 256
    (in particular every document libxml2 refuses — expansion beyond the amplification guard,
    entity nesting or loops, element nesting — is a client syntax fault, never an escaping
    exception) *)
Theorem C17_rejections_are_client_faults : forall s c,
  In s parse_sites -> is_request s = true -> site_cfg init_defaults parser_kwargs_src s = SCfg c ->
  forall w d,
    fst (create_in_document (s_catch s) c w d) = [] /\
    (snd (create_in_document (s_catch s) c w d) = RSyntaxFault
     \/ exists g, snd (create_in_document (s_catch s) c w d) = RDoc (scrub g (d_root d)) g
                 /\ depth_of (d_root d) <= 256).
Proof. exact request_sites_behave. Qed.

(** the multipart/related path (parse, write back, parse again) with safe configurations at
    both sites: nothing loaded, independent of the world, never an escaping syntax error *)
Theorem C17_swa_safe : forall cA cB w w' d,
  safeb cA = true -> safeb cB = true ->
  fst (swa_pipeline true cA true cB w d) = [] /\
  swa_pipeline true cA true cB w d = swa_pipeline true cA true cB w' d /\
  snd (swa_pipeline true cA true cB w d) <> REscapes.
Proof. exact swa_safe. Qed.

(** REFUTED in full strength: "no entity is ever expanded".  Reading an attribute
    substitutes internal entities whatever the options are (known finding
    C17|internal-entity-expanded|attribute|...); C17_tree_verbatim is the part that holds
    (element content), C17_world_independent bounds what can be substituted (never external). *)
Theorem C17_no_entity_expansion_refuted :
  exists c w d t g,
    safeb c = true /\ p_out (parse c w d) = PTree t g /\
    d_root d = NElem 1 [(8, [PRef 1])] [NRef 1] /\
    flat c g t = [TOpen 1; TAttr 8 [88; 89; 90]; TRef 1; TClose].
Proof. exact no_entity_expansion_refuted. Qed.

(** non-vacuity of [safeb] as a hypothesis and necessity of its clauses: each flipped alone
    lets a violating document through (file read, expansion into text, DTD fetched, connection
    attempted, deep nesting accepted, bomb not reported) *)
Theorem C17_safe_clauses_needed :
  (p_events (parse (with_resolve RAll safe_cfg) wworld d_external) = [LoadFile 1] /\
   p_out (parse (with_resolve RAll safe_cfg) wworld d_external)
     = PTree (NElem 1 [] [NText [83; 69; 67; 82; 69; 84]]) [(1, EExt (mkExt SFile 1))]) /\
  (exists g, p_out (parse (with_resolve RInternal safe_cfg) wworld d_internal)
     = PTree (NElem 1 [(8, [PText [88; 89; 90]])] [NText [88; 89; 90]]) g) /\
  p_events (parse (set_kw safe_cfg K_load_dtd (PVBool true)) wworld d_subset) = [LoadFile 2] /\
  p_events (parse (set_kw safe_cfg K_attribute_defaults (PVBool true)) wworld d_pe) = [LoadFile 2] /\
  p_events (parse (set_kw safe_cfg K_dtd_validation (PVBool true)) wworld d_subset) = [LoadFile 2] /\
  p_events (parse (set_kw (with_resolve RAll safe_cfg) K_no_network (PVBool false)) wworld d_external_http)
     = [NetConnect SHttp 1] /\
  p_events (parse (with_resolve RAll safe_cfg) wworld d_external_http) = [] /\
  (exists t g, p_out (parse (set_kw safe_cfg K_huge_tree (PVBool true)) wworld d_deep) = PTree t g) /\
  p_out (parse safe_cfg wworld d_deep) = PErr /\
  p_out (parse (set_kw safe_cfg K_recover (PVBool true)) wworld d_bomb) = PRecovered /\
  p_out (parse safe_cfg wworld d_bomb) = PErr.
Proof. exact safe_clauses_needed. Qed.

(** non-vacuity: the table is not empty, has request sites, and they evaluate to the safe configuration *)
Example C17_ex_table :
  (2 <=? Z.of_nat (List.length (filter is_request parse_sites))) = true
  /\ safeb safe_cfg = true
  /\ existsb (fun s => is_request s &&
                       match site_cfg init_defaults parser_kwargs_src s with
                       | SCfg c => forallb (fun p => fst p =? snd p) (combine (cfg_bits c) (cfg_bits safe_cfg))
                       | _ => false end) parse_sites = true.
Proof. vm_compute. auto. Qed.

(** non-vacuity: a request with an external entity at a text position is accepted verbatim
    under the safe configuration; a 300-deep one and a bomb are rejected *)
Example C17_ex_parse :
  p_out (parse safe_cfg wworld d_external) = PTree (NElem 1 [] [NRef 1]) [(1, EExt (mkExt SFile 1))]
  /\ p_events (parse safe_cfg wworld d_external) = []
  /\ snd (create_in_document true safe_cfg wworld d_bomb) = RSyntaxFault
  /\ snd (create_in_document true safe_cfg wworld d_deep) = RSyntaxFault.
Proof. vm_compute. auto. Qed.
