(** C04 — user code only ever receives values of the declared types.  Property theorems
    only; each closed by [exact] of a lemma proved in C04/*.v.

    XML / SOAP path: model C04/XmlModel.v of XmlDocument.from_element over the shared type
    universes of Wire/Universe.v.  [has_type U poly v t] is the property's judgement: None,
    a primitive of the declared kind, a list of members of the declared element type, an
    instance of the declared class or (with polymorphism, [poly = true]) of a subclass of it,
    all of whose members are again of their declared types.  The table [xsi_target] is
    generated on every run from the source of from_element / _get_xsi_target
    (Gen/XsiGuard.v). *)
From SpyneV Require Import Base.Prelude Wire.Universe Wire.Xml C01.Leaf C04.Guard C04.XmlModel C04.XmlProofs
                           C04.XmlFinal Gen.XsiGuard C04.DictModel C04.DictProofs C04.DictFinal Gen.DictLeaf.

(** Whatever document is sent — every tree, every in-scope namespace map, every attribute,
    xsi:type values naming any class of any registry — whatever the universe, the declared
    type, the validator (None / 'soft'; 'lxml' runs the same deserialiser after schema
    validation) and the parse_xsi_type setting: a value returned by from_element has the
    declared type; subclass instances only appear when xsi:type parsing is on.  The leaf
    readers are any functions that return values of their own kind. *)
Theorem C04_xml_typed : forall (L : leaf_codec) (C : xcfg4) (U : universe),
  (forall p s v, lc_rd L p s = Ok v -> prim_has p v = true) ->
  wf_universe U = true -> attrs_single U = true -> x4_target C = xsi_target ->
  forall fuel t nillable e v,
    dec4 L C U fuel t nillable e = Ok v -> has_type U (x4_parse C) v t.
Proof. exact xml_typed. Qed.

(** the same with Spyne's Integer / Unicode / Boolean readers as modelled for C08: no
    hypothesis left but well-formedness of the universe *)
Theorem C04_xml_typed_spyne : forall (C : xcfg4) (U : universe),
  wf_universe U = true -> attrs_single U = true -> x4_target C = xsi_target ->
  forall fuel t e v,
    from_element4 spyne_leaf C U fuel t e = Ok v -> has_type U (x4_parse C) v t.
Proof. exact xml_typed_spyne. Qed.

(** the call: the arguments handed to the user function are the members of an instance of the
    request message class (or of a registered subclass of it), one per declared parameter,
    each of the type declared for that parameter *)
Theorem C04_xml_args_typed : forall (L : leaf_codec) (C : xcfg4) (U : universe),
  (forall p s v, lc_rd L p s = Ok v -> prim_has p v = true) ->
  wf_universe U = true -> attrs_single U = true -> x4_target C = xsi_target ->
  forall fuel m root args,
    call_args L C U fuel m root = Ok args ->
    exists d ffs, (if x4_parse C then is_subclass U d m else Nat.eqb d m) = true
                  /\ flat_fields U d = Some ffs
                  /\ Forall2 (member_has_type U (x4_parse C)) ffs args.
Proof. exact xml_args_typed. Qed.

(** a request that would need a substitution is answered with a validation fault: an
    xsi:type that names no registered class, or a class that is not a subclass of the
    declared one, or another Array class, makes from_element raise ValidationError — for
    every element, every position, every validator setting *)
Theorem C04_xml_retag_rejected : forall (L : leaf_codec) (C : xcfg4) (U : universe),
  x4_target C = xsi_target -> x4_parse C = true ->
  forall fuel t nillable ns name nsmap atts txt kids s,
    is_nil atts = false -> lookup_att xsi_ns t_type atts = Some s ->
    (xsi_class C nsmap s = None \/ exists g, xsi_class C nsmap s = Some g /\ unrelated C U t g) ->
    dec4 L C U (S fuel) t nillable (XE ns name nsmap atts txt kids) = VFault.
Proof. exact xml_retag_rejected. Qed.

(** the code before the repair (cls = newclass, the table that always answers XNew) does not
    have the property: an Integer slot receives the str 'abc' *)
Theorem C04_xml_unguarded_refuted :
  exists (C : xcfg4) (U : universe) fuel t e v,
    x4_target C = xsi_table_unguarded /\ wf_universe U = true /\ attrs_single U = true
    /\ from_element4 spyne_leaf C U fuel t e = Ok v /\ ~ has_type U (x4_parse C) v t.
Proof. exact xml_unguarded_refuted. Qed.

(* ------------------------------------------------------------------ non-vacuity *)

(** class A {id : XmlAttribute(Integer) required; s : Unicode}; class B(A) {kids : Array(Integer);
    m : A, max_occurs unbounded}; the registry of an application with tns 'urn:t' *)
Definition ex_ns : text := [117; 114; 110; 58; 116].
Definition ex_U : universe :=
  [ mkcls ex_ns [65] None
      [ mkfield [105; 100] (TPrim PInt) 1 (Some 1) false KAttr;
        mkfield [115] (TPrim PText) 0 (Some 1) true KElem ];
    mkcls ex_ns [66] (Some 0%nat)
      [ mkfield [107; 105; 100; 115] (TArr (TPrim PInt)) 0 (Some 1) true KElem;
        mkfield [109] (TRef 0%nat) 0 None true KElem ] ].
Definition ex_reg : list (text * rtarget) :=
  [ (classkey ex_ns [65], RTy (TRef 0%nat)); (classkey ex_ns [66], RTy (TRef 1%nat));
    (classkey xsd_ns t_string, RTy (TPrim PText)); (classkey xsd_ns t_integer, RTy (TPrim PInt));
    (classkey ex_ns (t_integer ++ t_Array), RTy (TArr (TPrim PInt))); (classkey ex_ns [102], ROther) ].
Definition ex_C : xcfg4 := mkx4 true true (Some ex_ns) ex_reg xsi_target.
Definition ex_nsmap : list (option text * text) := [(Some [116], ex_ns); (Some [120; 115], xsd_ns)].
(** <x xsi:type="t:B" id="7"><s>abc</s><kids><integer>5</integer></kids><m id="5"/></x> where an A is declared *)
Definition ex_doc (ty : text) : xn :=
  XE ex_ns [120] ex_nsmap [(xsi_ns, t_type, ty); ([], [105; 100], [55])] None
    [ XE ex_ns [115] ex_nsmap [] (Some [97; 98; 99]) [];
      XE ex_ns [107; 105; 100; 115] ex_nsmap [] None [XE ex_ns t_integer ex_nsmap [] (Some [53]) []];
      XE ex_ns [109] ex_nsmap [([], [105; 100], [53])] None [] ].

Example C04_ex_typed :
  wf_universe ex_U = true /\ attrs_single ex_U = true
  /\ from_element4 spyne_leaf ex_C ex_U 5 (TRef 0%nat) (ex_doc [116; 58; 66])
     = Ok (VObj 1%nat [VLeaf (LInt 7); VLeaf (LText [97; 98; 99]); VList [VLeaf (LInt 5)];
                       VList [VObj 0%nat [VLeaf (LInt 5); VNone]]]).
Proof. split; [reflexivity|]. split; [reflexivity|]. vm_compute. reflexivity. Qed.

Example C04_ex_args :
  call_args spyne_leaf ex_C ex_U 5 0%nat (ex_doc [116; 58; 65]) = Ok [VLeaf (LInt 7); VLeaf (LText [97; 98; 99])].
Proof. vm_compute. reflexivity. Qed.

(** the same element tagged xs:string, t:integerArray or t:f: the hypotheses of the refusal
    theorem hold, and it is refused *)
Example C04_ex_rejected :
  is_nil [(xsi_ns, t_type, [120; 115; 58; 115; 116; 114; 105; 110; 103])] = false
  /\ xsi_class ex_C ex_nsmap [120; 115; 58; 115; 116; 114; 105; 110; 103] = Some (RTy (TPrim PText))
  /\ unrelated ex_C ex_U (TRef 0%nat) (RTy (TPrim PText))
  /\ from_element4 spyne_leaf ex_C ex_U 5 (TRef 0%nat) (ex_doc [120; 115; 58; 115; 116; 114; 105; 110; 103]) = VFault
  /\ from_element4 spyne_leaf ex_C ex_U 5 (TRef 0%nat) (ex_doc [116; 58; 102]) = VFault
  /\ from_element4 spyne_leaf ex_C ex_U 5 (TRef 0%nat)
       (ex_doc [116; 58; 105; 110; 116; 101; 103; 101; 114; 65; 114; 114; 97; 121]) = VFault.
Proof.
  split; [reflexivity|]. split; [vm_compute; reflexivity|]. split; [left; reflexivity|].
  repeat split; vm_compute; reflexivity.
Qed.

(* ================================================================== dict documents *)

(** JSON / YAML / MessagePack path: model C04/DictModel.v of HierDictDocument._doc_to_object
    and _from_dict_value with the leaf tables of the three protocols, over its own universes
    (Integer family with hardware bounds, Double, Boolean, Unicode, Date, ByteArray; classes
    with single inheritance; wrapped arrays; members with max_occurs > 1).  [has_dtype U v t]:
    None; an int (or bool) within the declared width where an Integer type is declared; a
    float or an int where Double is declared; a bool, a str, a date, a sequence of byte
    strings for Boolean, Unicode, Date, ByteArray; a list of members of the element type
    where an Array is declared; an instance of the declared class or of a subclass of it.
    The source-level choices [dict_leaf] (identity test of _ret_bool, integral floats for
    Integer members, null object / array members read as None) are regenerated from the
    source on every run (Gen/DictLeaf.v). *)

(** Whatever document is sent — every JSON/YAML/MessagePack value of every kind at every
    position, scalars for maps, maps for lists, lists for scalars, arbitrary keys, wrapper
    keys naming any class — whatever the universe, the declared type, the protocol and its
    ignore_wrappers setting: under validator='soft' a value returned by _from_dict_value has
    the declared type.  Excluded, exactly: ByteArray members over MessagePack (a str given
    for them is refuted below; every other kind is refused).  The text readers are any functions that return values of their own kind. *)
Theorem C04_dict_typed_partial : forall (C : dcfg) (U : duniverse),
  d_soft C = true -> d_leaf C = dict_leaf (d_proto C) ->
  ((forall p s v, d_rd C p s = Ok v -> rd_kind p v) /\ (forall p b v, d_rdb C p b = Ok v -> rd_kind p v)) ->
  dwf U = true ->
  forall fuel t nullable d v,
    (d_proto C <> PMsgpack \/ (duniv_no_bytes U = true /\ dty_no_bytes t = true)) ->
    fdv C U fuel t nullable d = Ok v -> has_dtype U v t.
Proof. exact dict_typed. Qed.

(** the call: the arguments are the members of an instance of the request message class, one
    per declared parameter, each of its declared type — or there are none at all (a null body
    document: Python then refuses the call unless the function takes no argument) *)
Theorem C04_dict_args_typed_partial : forall (C : dcfg) (U : duniverse),
  d_soft C = true -> d_leaf C = dict_leaf (d_proto C) ->
  ((forall p s v, d_rd C p s = Ok v -> rd_kind p v) /\ (forall p b v, d_rdb C p b = Ok v -> rd_kind p v)) ->
  dwf U = true ->
  forall fuel m d args,
    (d_proto C <> PMsgpack \/ duniv_no_bytes U = true) ->
    dict_call_args C U fuel m d = Ok args ->
    args = [] \/ exists c ffs, dsub U c m = true /\ dflat U c = Some ffs /\ Forall2 (dmember_has U) ffs args.
Proof. exact dict_args_typed_gen. Qed.

(** the excluded region is a defect: over MessagePack a ByteArray member given text (a str,
    not the bin type) receives that str wrapped in a tuple, not bytes *)
Theorem C04_dict_msgpack_bytes_refuted :
  exists (C : dcfg) (U : duniverse) fuel t d v,
    d_proto C = PMsgpack /\ d_soft C = true /\ d_leaf C = dict_leaf PMsgpack /\ dwf U = true
    /\ fdv C U fuel t true d = Ok v /\ ~ has_dtype U v t.
Proof. exact dict_msgpack_bytes_refuted. Qed.

(** the code before the repairs does not have the property: an Integer member receives the
    float 2.0, a Boolean member the int 1, a ComplexModel member the list [], and (validate()
    run before XmlAttribute / XmlData is unwrapped) an XmlAttribute(Unicode) member the list [1] *)
Theorem C04_dict_unrepaired_refuted :
  let C := mkdcfg PJson true true unrepaired no_reader no_reader no_decode in
  dwf one_class = true
  /\ (fdv C one_class 2 (DPrim (DInt None None)) true (JFlt (FInt 2)) = Ok (NFlt (FInt 2))
      /\ ~ has_dtype one_class (NFlt (FInt 2)) (DPrim (DInt None None)))
  /\ (fdv C one_class 2 (DPrim DBool) true (JInt 1) = Ok (NInt 1)
      /\ ~ has_dtype one_class (NInt 1) (DPrim DBool))
  /\ (fdv C one_class 2 (DRef 0%nat) true JNull = Ok (NList [])
      /\ ~ has_dtype one_class (NList []) (DRef 0%nat))
  /\ (fdv C one_class 2 (DWrap DText) true (JList [JInt 1]) = Ok (NRaw (JList [JInt 1]))
      /\ ~ has_dtype one_class (NRaw (JList [JInt 1])) (DWrap DText)).
Proof. exact dict_unrepaired_refuted. Qed.

(* ------------------------------------------------------------------ non-vacuity *)

(** class A {i : Integer8; s : Unicode}; class B(A) {bs : Array(Boolean); m : A, max_occurs unbounded};
    readers that accept the text '7' as the integer 7 *)
Definition exd_U : duniverse :=
  [ mkdc [65] None [ mkdf [105] (DPrim (DInt (Some (-128)) (Some 127))) 0 (Some 1) true;
                     mkdf [115] (DPrim DText) 0 (Some 1) true ] [1%nat];
    mkdc [66] (Some 0%nat) [ mkdf [98; 115] (DArr (DPrim DBool)) 0 (Some 1) true;
                             mkdf [109] (DRef 0%nat) 0 None true ] [] ].
Definition exd_rd (p : dprim) (s : text) : out nv :=
  match p with DInt _ _ => if text_eqb s [55] then Ok (NInt 7) else VFault | _ => VFault end.
Definition exd_C (p : proto) (wrappers : bool) : dcfg := mkdcfg p true (negb wrappers) (dict_leaf p) exd_rd exd_rd (fun b => Some b).

Example C04_ex_dict_readers :
  (forall p s v, exd_rd p s = Ok v -> rd_kind p v) /\ dwf exd_U = true.
Proof.
  split; [|reflexivity]. intros p s v H. unfold exd_rd in H. destruct p; try discriminate.
  destruct (text_eqb s [55]); [|discriminate]. inversion H. exact I.
Qed.

(** {"B": {"i": 2.0, "s": "x", "bs": [true, null], "m": [{"A": {"i": "7"}}, ["7", "y"]]}} sent where an A is
    declared, wrappers on: JSON refuses the text "7" for an integer, MessagePack reads it; the integral float
    arrives as the int 2 *)
Definition exd_doc (seven : jv) : jv :=
  JMap [ (JStr [66], JMap [ (JStr [105], JFlt (FInt 2)); (JStr [115], JStr [120]);
                            (JStr [98; 115], JList [JBool true; JNull]);
                            (JStr [109], JList [ JMap [(JStr [65], JMap [(JStr [105], seven)])];
                                                 JMap [(JStr [65], JList [seven; JStr [121]])] ]) ]) ].
Example C04_ex_dict_typed :
  fdv (exd_C PMsgpack true) exd_U 5 (DRef 0%nat) true (exd_doc (JStr [55]))
    = Ok (NObj 1%nat [NInt 2; NText [120]; NList [NBool true; NNone];
                      NList [NObj 0%nat [NInt 7; NNone]; NObj 0%nat [NInt 7; NText [121]]]])
  /\ fdv (exd_C PJson true) exd_U 5 (DRef 0%nat) true (exd_doc (JStr [55])) = VFault
  /\ fdv (exd_C PJson true) exd_U 5 (DRef 0%nat) true (exd_doc (JInt 7))
    = Ok (NObj 1%nat [NInt 2; NText [120]; NList [NBool true; NNone];
                      NList [NObj 0%nat [NInt 7; NNone]; NObj 0%nat [NInt 7; NText [121]]]])
  /\ fdv (exd_C PJson true) exd_U 5 (DRef 0%nat) true (exd_doc (JInt 300)) = VFault
  /\ fdv (exd_C PYaml true) exd_U 5 (DRef 0%nat) true (exd_doc (JFlt FFrac)) = VFault
  /\ fdv (exd_C PJson true) exd_U 5 (DRef 0%nat) true (JMap [(JStr [67], JMap [])]) = VFault.
Proof. repeat split; vm_compute; reflexivity. Qed.

Example C04_ex_dict_args :
  dict_call_args (exd_C PJson false) exd_U 5 0%nat (JMap [(JStr [105], JBool true); (JStr [115], JNull); (JInt 3, JInt 4)])
    = Ok [NInt 1; NNone].
Proof. vm_compute. reflexivity. Qed.
