(** C10 — hostile or malformed requests end in a client fault, never a crash.
    Property theorems only (each [exact] a lemma of C10/Proofs*.v, C10/Theorems.v) and one
    non-vacuity example per theorem.

    Vocabulary (C10/Exn.v, Leaf.v, Xml.v, Dict.v, Pipe.v; try/except tables, guards and call
    skeletons from Gen/ReqPipe.v, regenerated from the Spyne sources on every run):
      res A       = Ret a | Raise cls code        every Python raise, Faults with their faultcode
      safe x      = x is a value or a Fault whose code is in the Client family
      outcome     = Called c | Answered cls code | Escaped cls code
      good o      = Called, or Answered with a Fault of the Client family; never Escaped
      wf_app A    = class references of the application resolve
      *_request_ok = what the parser library may raise (lxml / json / PyYAML / msgpack) *)
From SpyneV Require Import C10.Pipe C10.Proofs C10.ProofsDict C10.Theorems.

(** ---- bytes -> document: every declared parser failure becomes a Client fault ---- *)
Theorem C10_syntax_xml : forall first second,
  lib_in XML_FIRST first -> lib_in XML_SECOND second -> safe (xml_create_in_document first second).
Proof. exact xml_create_in_document_safe. Qed.

Theorem C10_syntax_soap : forall decode first second,
  match decode with None => True | Some e => mem_exn e SOAP_DECODE_RAISES = true end ->
  lib_in XML_FIRST first -> lib_in XML_SECOND second -> safe (soap_parse_xml_string decode first second).
Proof. exact soap_parse_safe. Qed.

Theorem C10_syntax_json : forall rq, dict_request_ok PJson rq -> safe (dict_create_in_document PJson rq).
Proof. exact (dict_create_in_document_safe PJson). Qed.

(** PyYAML raises AttributeError / KeyError for an explicit !!timestamp / !!bool tag on a scalar of
    another kind (known findings): for ALL exceptions the statement is false ... *)
Theorem C10_syntax_yaml_refuted : exists e, ~ safe (yaml_create_in_document None (@LibRaise jv e)).
Proof. exact yaml_syntax_refuted. Qed.
(** ... and it holds for everything PyYAML documents (the YAMLError family, ValueError) *)
Theorem C10_syntax_yaml_partial : forall rq, dict_request_ok PYaml rq -> safe (dict_create_in_document PYaml rq).
Proof. exact (dict_create_in_document_safe PYaml). Qed.

Theorem C10_syntax_msgpack : forall rq, dict_request_ok PMsgpack rq -> safe (dict_create_in_document PMsgpack rq).
Proof. exact (dict_create_in_document_safe PMsgpack). Qed.

(** ---- leaf text -> value: every reader, on every text ---- *)
Theorem C10_leaf_total : forall soap k s,
  safe (read_leaf soap g_xml_enum_member k s) /\ safe (read_leaf soap g_inbase_enum_member k s).
Proof. intros. split; [apply read_leaf_safe_xml | apply read_leaf_safe_inbase]. Qed.

(** ---- binary data (ByteArray, File): from_base64 / from_urlsafe_base64 / from_hex on text of every
    length in every encoding, and on a byte string (YAML !!binary, the bin type of MessagePack) ---- *)
Theorem C10_binary_total : forall e s,
  safe (read_bytes e s) /\ safe (from_urlsafe_bytes s) /\ safe (from_hex s).
Proof. exact binary_total. Qed.

(** ---- document -> call, through ServerBase: for ALL documents, ALL well-formed applications ---- *)
Theorem C10_xml_total : forall soft A rq,
  wf_app A = true -> xml_request_ok rq -> good (xml_server soft A rq) = true.
Proof. exact xml_total. Qed.

Theorem C10_soap_total : forall ns_soap soft A rq,
  wf_app A = true -> soap_request_ok rq -> good (soap_server ns_soap soft A rq) = true.
Proof. exact soap_total. Qed.

Theorem C10_dict_total : forall fmt P soft A fuel rq,
  wf_app A = true -> dict_request_ok P rq -> good_or_fuel (dict_server fmt P soft A fuel rq) = true.
Proof. exact dict_total. Qed.

(** the fuel sentinel does not occur once the fuel covers the nesting of the declared types *)
Theorem C10_dict_fuel_sufficient : forall fmt P soft A fuel rq,
  wf_app A = true -> dict_request_ok P rq -> fuel_fits A fuel = true ->
  good (dict_server fmt P soft A fuel rq) = true.
Proof. exact dict_fuel_sufficient. Qed.

(** ---- the same through WsgiApplication.handle_rpc (statement skeleton from the source) ---- *)
Theorem C10_xml_wsgi_total : forall soft A reconstruct rq,
  wf_app A = true -> xml_request_ok rq -> safe reconstruct -> good (xml_wsgi soft A reconstruct rq) = true.
Proof. exact xml_wsgi_total. Qed.
Theorem C10_soap_wsgi_total : forall ns_soap soft A reconstruct rq,
  wf_app A = true -> soap_request_ok rq -> safe reconstruct -> good (soap_wsgi ns_soap soft A reconstruct rq) = true.
Proof. exact soap_wsgi_total. Qed.
Theorem C10_dict_wsgi_total : forall fmt P soft A fuel reconstruct rq,
  wf_app A = true -> dict_request_ok P rq -> safe reconstruct ->
  good_or_fuel (dict_wsgi fmt P soft A fuel reconstruct rq) = true.
Proof. exact dict_wsgi_total. Qed.

(** the charset parameter of Content-Type: whatever codecs.lookup does with it (LookupError,
    TypeError, ValueError, a codec that is no text encoding), __reconstruct_wsgi_request returns or
    raises a Client fault - the [reconstruct] the three theorems above ask to be safe *)
Theorem C10_wsgi_charset : forall cl,
  match cl with CLRaise e => mem_exn e CODEC_LOOKUP_RAISES = true | _ => True end ->
  safe (reconstruct_wsgi_request cl).
Proof. exact reconstruct_safe. Qed.

(** ---- the user function is run only for a request nothing was raised for ---- *)
Theorem C10_fault_means_not_called :
  forall (H : Type) (head : res H) (deser : H -> res unit) (cls_of : H -> nat) (reconstruct : res unit) c,
  safe head -> (forall h, head = Ret h -> safeF (deser h)) -> safe reconstruct ->
  (server_run H head deser cls_of = Called c -> exists h, head = Ret h /\ deser h = Ret tt /\ c = cls_of h)
  /\ (wsgi_run H head deser cls_of reconstruct = Called c ->
      reconstruct = Ret tt /\ exists h, head = Ret h /\ deser h = Ret tt /\ c = cls_of h).
Proof. exact called_only_without_fault. Qed.

(** ServerBase.get_out_object on a context whose in_error is set raises it and calls nothing *)
Theorem C10_get_out_object_guard : forall e c, get_out_object_on_error e c = Escaped e c.
Proof. exact get_out_object_guard. Qed.

(** ---- non-vacuity: a concrete application and concrete requests ---- *)
Definition ex_tns : text := [116; 110; 115].
Definition ex_app : app :=
  mkapp ex_tns
    [mkcls [103] true
       [mkfield [105] (TLeaf (LInt PosInf)) 0 (Fin 1) true KElem;
        mkfield [100; 116] (TLeaf LDateTime) 0 (Fin 1) true KElem;
        mkfield [108] (TArr 0 (TLeaf LText)) 0 (Fin 1) true KElem]]
    [([123; 116; 110; 115; 125; 103], Some (TRef 0, true))]
    [([123; 116; 110; 115; 125; 103], mkmsig 0 (TRef 0) true None);
     ([123; 116; 110; 115; 125; 111; 112], mkmsig 1 (TLeaf (LInt (Fin 1024))) true (Some [111; 112]));
     ([123; 116; 110; 115; 125; 111; 112; 97], mkmsig 2 (TArr 0 (TLeaf LText)) true (Some [111; 112; 97]))].
Definition ex_m0 : msig := mkmsig 0 (TRef 0) true None.
Definition ex_root (itext : text) : xnode :=
  XE [123; 116; 110; 115; 125; 103] [] [] None [XE [123; 116; 110; 115; 125; 105] [] [] (Some itext) []].
Definition ex_xreq (itext : text) : xml_request := mkxreq (LibOk (ex_root itext)) (LibRaise EXMLSyntaxError) None.
Definition t_ClientValidationError : text := [67; 108; 105; 101; 110; 116; 46; 86; 97; 108; 105; 100; 97; 116; 105; 111; 110; 69; 114; 114; 111; 114].
Definition t_ClientXMLSyntaxError : text := [67; 108; 105; 101; 110; 116; 46; 88; 77; 76; 83; 121; 110; 116; 97; 120; 69; 114; 114; 111; 114].
Definition t_ClientSoapError : text := [67; 108; 105; 101; 110; 116; 46; 83; 111; 97; 112; 69; 114; 114; 111; 114].
Definition t_ClientJsonDecodeError : text := [67; 108; 105; 101; 110; 116; 46; 74; 115; 111; 110; 68; 101; 99; 111; 100; 101; 69; 114; 114; 111; 114].

Example C10_ex_syntax_xml :
  lib_in XML_FIRST (@LibRaise xnode EXMLSyntaxError) /\ lib_in XML_SECOND (@LibRaise xnode EXMLSyntaxError)
  /\ xml_create_in_document (@LibRaise xnode EXMLSyntaxError) (LibRaise EXMLSyntaxError) = Raise EFault t_ClientXMLSyntaxError.
Proof. vm_compute. repeat split; auto. Qed.
Example C10_ex_syntax_soap :
  soap_parse_xml_string (Some EUnicodeDecodeError) (@LibRaise xnode EXMLSyntaxError) (LibRaise EXMLSyntaxError)
  = Raise EFault t_ClientXMLSyntaxError.
Proof. reflexivity. Qed.
Example C10_ex_syntax_json :
  dict_request_ok PJson (mkdreq None (LibRaise ERecursionError))
  /\ dict_create_in_document PJson (mkdreq None (LibRaise ERecursionError)) = Raise EFault t_ClientJsonDecodeError.
Proof. vm_compute. repeat split; auto. Qed.
Example C10_ex_syntax_yaml :
  dict_request_ok PYaml (mkdreq None (LibRaise EScannerError))
  /\ is_client (match dict_create_in_document PYaml (mkdreq None (LibRaise EScannerError)) with
                | Raise _ c => c | Ret _ => [] end) = true
  /\ yaml_create_in_document None (@LibRaise jv EAttributeError) = Raise EAttributeError [].
Proof. vm_compute. repeat split; auto. Qed.
Example C10_ex_syntax_msgpack :
  dict_request_ok PMsgpack (mkdreq None (LibRaise EMsgpackExtraData))
  /\ dict_create_in_document PMsgpack (mkdreq None (LibRaise EMsgpackExtraData))
     = Raise EMessagePackDecodeError (fault_code EMessagePackDecodeError).
Proof. vm_compute. repeat split; auto. Qed.
(** month 13, hour 25 and a UTC offset of 99 hours are answered with ValidationError *)
Example C10_ex_leaf :
  read_leaf false g_xml_enum_member LDateTime [50; 48; 50; 48; 45; 49; 51; 45; 48; 49; 84; 48; 48; 58; 48; 48; 58; 48; 48] = Raise EValidationError t_ClientValidationError
  /\ read_leaf false g_xml_enum_member LTime [50; 53; 58; 48; 48; 58; 48; 48] = Raise EValidationError t_ClientValidationError
  /\ read_leaf false g_xml_enum_member LDateTime [50; 48; 50; 48; 45; 48; 49; 45; 48; 50; 84; 48; 51; 58; 48; 52; 58; 48; 53; 43; 57; 57; 58; 48; 48] = Raise EValidationError t_ClientValidationError
  /\ match read_leaf false g_xml_enum_member LDateTime [50; 48; 50; 48; 45; 48; 49; 45; 48; 50; 84; 48; 51; 58; 48; 52; 58; 48; 53; 90] with Ret _ => True | _ => False end.
Proof. vm_compute. repeat split; auto. Qed.
(** malformed url-safe base64 of 99 and of 101 characters (4n+3 without padding, 4n+1) is answered with
    ValidationError, 100 characters decode to 75 bytes; non-hex text of 100 characters and an odd number
    of hex digits likewise; a non-ASCII letter is refused by base64 and skipped by url-safe base64 *)
Example C10_ex_binary :
  read_bytes BUrl (repeat 65 99) = Raise EValidationError t_ClientValidationError
  /\ read_bytes BUrl (repeat 65 101) = Raise EValidationError t_ClientValidationError
  /\ read_bytes BUrl (repeat 65 100) = Ret (VBytes (repeat 0 75))
  /\ read_bytes BHex (repeat 122 100) = Raise EValidationError t_ClientValidationError
  /\ read_bytes BHex (repeat 48 101) = Raise EValidationError t_ClientValidationError
  /\ read_bytes BBase64 [89; 87; 74; 106; 233] = Raise EValidationError t_ClientValidationError
  /\ read_bytes BUrl [89; 87; 74; 106; 233] = Ret (VBytes [97; 98; 99])
  /\ read_bytes BUrl [89; 87; 74; 106; 55296] = Raise EValidationError t_ClientValidationError.
Proof. vm_compute. repeat split; auto. Qed.
Example C10_ex_xml :
  wf_app ex_app = true /\ xml_request_ok (ex_xreq [53])
  /\ xml_server true ex_app (ex_xreq [53]) = Called 0
  /\ xml_server true ex_app (ex_xreq [97; 98; 99]) = Answered EValidationError t_ClientValidationError
  /\ xml_server true ex_app (mkxreq (LibRaise EXMLSyntaxError) (LibRaise EXMLSyntaxError) None)
     = Answered EFault t_ClientXMLSyntaxError.
Proof. vm_compute. repeat split; auto. Qed.
(** an envelope without a body, and a well-formed call *)
Example C10_ex_soap :
  soap_request_ok (mksreq None (LibOk (XE (qname NS_SOAP11 t_Envelope) [] [] None [XE (qname NS_SOAP11 t_Body) [] [] None []])) (LibRaise EXMLSyntaxError) None)
  /\ soap_server NS_SOAP11 false ex_app
       (mksreq None (LibOk (XE (qname NS_SOAP11 t_Envelope) [] [] None [XE (qname NS_SOAP11 t_Body) [] [] None []])) (LibRaise EXMLSyntaxError) None)
     = Answered EFault t_ClientSoapError
  /\ soap_server NS_SOAP11 false ex_app
       (mksreq None (LibOk (XE (qname NS_SOAP11 t_Envelope) [] [] None [XE (qname NS_SOAP11 t_Body) [] [] None [ex_root [53]]])) (LibRaise EXMLSyntaxError) None)
     = Called 0.
Proof. vm_compute. repeat split; auto. Qed.
(** a JSON list where a dateTime is expected, a number where an array is expected, a valid call *)
Example C10_ex_dict :
  dict_request_ok PJson (mkdreq None (LibOk (JMap [(JStr [103], JMap [(JStr [100; 116], JList [JInt 1])])])))
  /\ dict_server (fun _ => []) PJson false ex_app 5
       (mkdreq None (LibOk (JMap [(JStr [103], JMap [(JStr [100; 116], JList [JInt 1])])])))
     = Answered EValidationError t_ClientValidationError
  /\ dict_server (fun _ => []) PJson false ex_app 5
       (mkdreq None (LibOk (JMap [(JStr [103], JMap [(JStr [108], JInt 5)])])))
     = Answered EValidationError t_ClientValidationError
  /\ dict_server (fun _ => []) PJson true ex_app 5
       (mkdreq None (LibOk (JMap [(JStr [103], JMap [(JStr [105], JInt 5); (JStr [108], JList [JStr [97; 98; 99]])])])))
     = Called 0.
Proof. vm_compute. repeat split; auto. Qed.
Example C10_ex_dict_fuel :
  fuel_fits ex_app 2 = true /\ fuel_fits ex_app 0 = false
  /\ dict_server (fun _ => []) PJson false ex_app 0
       (mkdreq None (LibOk (JMap [(JStr [103], JMap [])]))) = Escaped EOutOfFuel [].
Proof. vm_compute. repeat split; auto. Qed.
Example C10_ex_wsgi :
  xml_wsgi true ex_app (Ret tt) (ex_xreq [53]) = Called 0
  /\ xml_wsgi true ex_app (Ret tt) (ex_xreq [97; 98; 99]) = Answered EValidationError t_ClientValidationError
  /\ xml_wsgi true ex_app (Raise ERequestTooLongError (fault_code ERequestTooLongError)) (ex_xreq [53])
     = Answered ERequestTooLongError (fault_code ERequestTooLongError)
  /\ soap_wsgi NS_SOAP11 false ex_app (Ret tt) (mksreq None (LibRaise EXMLSyntaxError) (LibRaise EXMLSyntaxError) None)
     = Answered EFault t_ClientXMLSyntaxError
  /\ dict_wsgi (fun _ => []) PMsgpack false ex_app 5 (Ret tt) (mkdreq None (LibOk (JList [])))
     = Answered EValidationError t_ClientValidationError.
Proof. vm_compute. repeat split; auto. Qed.
(** bare methods: an empty request element, a malformed primitive, null, a scalar for an array *)
Example C10_ex_bare :
  xml_server true ex_app (mkxreq (LibOk (XE [123; 116; 110; 115; 125; 111; 112] [] [] None [])) (LibRaise EXMLSyntaxError) None) = Called 1
  /\ xml_server true ex_app (mkxreq (LibOk (XE [123; 116; 110; 115; 125; 111; 112] [] [] (Some [97; 98; 99]) [])) (LibRaise EXMLSyntaxError) None)
     = Answered EValidationError t_ClientValidationError
  /\ dict_server (fun _ => []) PJson true ex_app 5 (mkdreq None (LibOk (JMap [(JStr [111; 112], JNull)]))) = Called 1
  /\ dict_server (fun _ => []) PJson false ex_app 5 (mkdreq None (LibOk (JMap [(JStr [111; 112], JList [JInt 1])])))
     = Answered EValidationError t_ClientValidationError
  /\ dict_server (fun _ => []) PJson false ex_app 5 (mkdreq None (LibOk (JMap [(JStr [111; 112; 97], JInt 5)])))
     = Answered EValidationError t_ClientValidationError
  /\ dict_server (fun _ => []) PJson false ex_app 5 (mkdreq None (LibOk (JMap [(JStr [111; 112; 97], JList [JStr [120]])]))) = Called 2.
Proof. vm_compute. repeat split; auto. Qed.
Example C10_ex_charset :
  reconstruct_wsgi_request (CLRaise ELookupError) = Raise EValidationError t_ClientValidationError
  /\ reconstruct_wsgi_request (CLRaise ETypeError) = Raise EValidationError t_ClientValidationError
  /\ reconstruct_wsgi_request (CLFound false) = Raise EValidationError t_ClientValidationError
  /\ reconstruct_wsgi_request (CLFound true) = Ret tt
  /\ xml_wsgi true ex_app (reconstruct_wsgi_request (CLFound false)) (ex_xreq [53])
     = Answered EValidationError t_ClientValidationError.
Proof. vm_compute. repeat split; auto. Qed.
Example C10_ex_called :
  xml_server true ex_app (ex_xreq [53]) = Called 0
  /\ xml_decode_head ex_app (ex_xreq [53]) = Ret (ex_m0, ex_root [53])
  /\ xml_deserialize true ex_app ex_m0 (ex_root [53]) = Ret tt.
Proof. vm_compute. repeat split; auto. Qed.
Example C10_ex_guard :
  get_out_object_guarded = true
  /\ get_out_object_on_error EValidationError t_ClientValidationError = Escaped EValidationError t_ClientValidationError.
Proof. vm_compute. repeat split; auto. Qed.
