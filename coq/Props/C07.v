(** C07 -- WSDL/XSD are well-formed, closed, deterministic and drive a foreign client.
    Property theorems only; each closed by [exact] of a lemma proved in coq/C07/. *)
From Coq Require Import ZArith List Bool Permutation.
From SpyneV Require Import Base.Prelude C07.Model C07.SortProofs C07.PrefixProofs C07.WsdlProofs C07.TopoProofs C07.SchemaProofs C07.TieProofs C07.ImportProofs.
Import ListNotations.
Open Scope Z_scope.

(** Interface.get_namespace_prefix, any sequence of calls from consistent tables:
    the calls succeed, the tables stay consistent, earlier answers never change,
    no prefix is ever given to two namespaces and every requested namespace ends
    up with a prefix that maps back to it *)
Theorem C07_prefix_inj : forall l st, pst_wf st ->
  exists st', alloc_all st l = ROk st' /\ pst_wf st' /\ pst_le st st' /\
    forall ns, In ns l -> exists p, lookup ns (prefmap st') = Some p /\ lookup p (nsmap st') = Some ns.
Proof. exact alloc_all_ok. Qed.

Theorem C07_prefix_unique : forall st ns1 ns2 p, pst_wf st ->
  lookup ns1 (prefmap st) = Some p -> lookup ns2 (prefmap st) = Some p -> ns1 = ns2.
Proof. exact pst_wf_inj. Qed.

(** the loop "while pref in self.nsmap" ends within |nsmap|+1 iterations *)
Theorem C07_prefix_total : forall m c, find_free (S (length m)) m c <> None.
Proof. exact find_free_total. Qed.

(** sorted(set of namespace strings) does not depend on the iteration order of the set *)
Theorem C07_sort_det : forall l l', Permutation l l' -> isort text_leb l = isort text_leb l'.
Proof. exact sort_text_det. Qed.

(** toposort2 never runs out of the fuel |data|+1 (for every set order, every key) *)
Theorem C07_toposort_total : forall key perm d, toposort2 perm key d <> RErr EModelLimit.
Proof. exact toposort2_total. Qed.

(** every class is handed over exactly once and after all its dependencies *)
Theorem C07_toposort_sound : forall key perm d tiers,
  (forall l, Permutation (perm l) l) ->
  NoDup (keys (data0 d)) -> deps_closed (data0 d) ->
  toposort2 perm key d = ROk tiers ->
  (d = [] /\ tiers = [] \/
   Permutation (concat tiers) (keys (data0 d)) /\
   forall k dep x l1 l2, In (k, dep) (data0 d) -> In x dep -> concat tiers = l1 ++ k :: l2 -> In x l1).
Proof. exact toposort2_sound. Qed.

(** the result does not depend on the iteration order of the Python sets,
    PROVIDED the sort key is injective on the items (the hypothesis the pinned
    tree violated: repr() is shared by all Array(...) and customised classes) *)
Theorem C07_toposort_det : forall key perm1 perm2,
  (forall l, Permutation (perm1 l) l) -> (forall l, Permutation (perm2 l) l) ->
  forall d, (forall x y, In x (keys (data0 d)) -> In y (keys (data0 d)) -> key x = key y -> x = y) ->
  toposort2 perm1 key d = toposort2 perm2 key d.
Proof. exact toposort2_det. Qed.

(** the document skeleton, the prefixes written and the xmlns table are invariant
    under every permutation of every hash-ordered collection the build iterates
    (tiers of toposort2, the import sets) *)
Theorem C07_doc_det : forall perm1 perm2 a imp,
  (forall l, Permutation (perm1 l) l) -> (forall l, Permutation (perm2 l) l) ->
  imports_equiv (a_imports a) imp ->
  (forall x y, In x (keys (data0 (a_deps a))) -> In y (keys (data0 (a_deps a))) ->
               class_key a x = class_key a y -> x = y) ->
  wsdl_of perm1 a = wsdl_of perm2 (with_imports a imp) /\
  render perm1 a = render perm2 (with_imports a imp).
Proof. exact doc_det_thm. Qed.

(** the same with the hypothesis in its decidable form, which the harness evaluates
    on the snapshot of every generated application *)
Theorem C07_doc_det_decidable : forall perm1 perm2 a imp,
  (forall l, Permutation (perm1 l) l) -> (forall l, Permutation (perm2 l) l) ->
  imports_equiv (a_imports a) imp -> key_injb a = true ->
  wsdl_of perm1 a = wsdl_of perm2 (with_imports a imp) /\
  render perm1 a = render perm2 (with_imports a imp).
Proof. exact doc_det_b. Qed.

(** ties are harmless between classes that write nothing: the same conclusion when,
    in every tier, the key separates the classes whose handler writes a node
    (Array(...) specialisations and customised variants of a class share all four
    components of the key; default simple types among them are only tagged) *)
Theorem C07_doc_det_tiers : forall perm1 perm2 a imp,
  (forall l, Permutation (perm1 l) l) -> (forall l, Permutation (perm2 l) l) ->
  imports_equiv (a_imports a) imp -> tier_sepb a = true ->
  wsdl_of perm1 a = wsdl_of perm2 (with_imports a imp) /\
  render perm1 a = render perm2 (with_imports a imp).
Proof. exact doc_det_tiers_thm. Qed.

(** the tuple toposort2 sorts by (read from the source) has the namespace, the type
    name and the element name of a class among its components: classes it cannot
    tell apart are published under the same names *)
Theorem C07_topo_key_names :
  forallb (fun k => existsb (kcomp_eqb k) gen_topo_key) [KNamespace; KTypeName; KSubName] = true.
Proof. exact topo_key_names. Qed.

(** every message, portType and binding reference of the WSDL resolves to a
    definition in the document, for every snapshot on which the build succeeds *)
Theorem C07_wsdl_closed : forall perm a d,
  wsdl_of perm a = ROk d -> faults_in_tns a -> wsdl_closed d.
Proof. exact wsdl_closed_thm. Qed.

(** the portType operations are, one for one, the exposed methods, each under the
    port type its method declares, with a matching operation in a binding of that
    port type; no binding operation without a method *)
Theorem C07_one_op : forall perm a d, wsdl_of perm a = ROk d -> one_op a d.
Proof. exact one_op_thm. Qed.

(** binding names are unique and are, in order, the port type names *)
Theorem C07_binding_unique : forall perm a d, wsdl_of perm a = ROk d ->
  NoDup (map b_name (d_binds d)) /\ map b_name (d_binds d) = map pt_name (d_pts d).
Proof. exact binding_unique_thm. Qed.

(** port types and bindings pair off one to one; a binding lists, in the same
    order, one matching operation per operation of its port type; all in all every
    exposed method is exactly one binding operation (no port type listed twice in
    one service's __port_types__) *)
Theorem C07_binding_ops : forall perm a d, wsdl_of perm a = ROk d ->
  (forall s, In s (a_svcs a) -> NoDup (s_ports s)) ->
  Forall2 (fun p b => bind_matches p b (d_tns d)) (d_pts d) (d_binds d) /\
  Permutation (flat_map b_ops (d_binds d)) (map (mk_bop a) (all_meths a)).
Proof. exact binding_ops_thm. Qed.

(** every base=, member type= and element type= of every schema resolves to a
    complexType of the document or to an XSD builtin, and every wsdl:part element=
    resolves to an xs:element of the document -- for every snapshot that
    populate_interface can leave behind ([wf_snap]: classes registered together
    with their bases; requests / responses registered and either in the target
    namespace or the element of a registered class; headers and faults registered
    under their own element name) and every iteration order of the sets *)
Theorem C07_schema_closed : forall perm a d,
  (forall l, Permutation (perm l) l) -> wsdl_of perm a = ROk d -> wf_snap a ->
  schema_closed d /\ parts_closed d.
Proof. exact schema_closed_thm. Qed.

(** every schema document imports every namespace it refers to (XSD part 1, 4.2.3):
    each base=, member type= and element type= written in a schema names the
    schema's own namespace, the XSD namespace or a namespace of its xs:import list
    -- given what add_class / add_method registered in Interface.imports
    ([wf_importsb], decidable, evaluated on every snapshot) *)
Theorem C07_imports_closed : forall perm a d,
  wsdl_of perm a = ROk d -> wf_importsb a = true -> imports_closed d.
Proof. exact imports_closed_thm. Qed.

(** the document is built from the Interface alone: build_interface_document starts
    by rebuilding the schema nodes from an empty table (read from the source), which
    is the initial state [wsdl_of] starts from -- whatever was built on the same
    Wsdl11 object before (the validation schema of validator='lxml') *)
Theorem C07_rebuilds_schema : gen_rebuilds_schema = true.
Proof. reflexivity. Qed.

(** ... and from empty portType / binding / service tables: build_interface_document
    empties port_type_dict, binding_dict and service_elt_dict before anything else
    (read from the source), so [porttypes], [bindings] and [services], which are
    computed from the snapshot alone, describe a second build on the same Wsdl11
    instance (the next ?wsdl request after a build that failed half way) as well *)
Theorem C07_resets_tables : gen_resets_tables = true.
Proof. reflexivity. Qed.

(** the hypothesis is decidable; the harness evaluates [wf_snapb] on the snapshot of
    every generated application *)
Theorem C07_wf_decidable : forall a, wf_snapb a = true -> wf_snap a.
Proof. exact wf_snapb_ok. Qed.

(* ---------------------------------------------------------------- witnesses *)
Definition tx (l : list Z) : text := l.
Definition tns0 := tx [116; 110; 115].                    (* "tns" as a namespace name *)
Definition mkmsg (n : text) (ens : text) : msg :=
  {| m_cid := -1; m_complex := false; m_ename := n; m_ens := ens; m_tn := n; m_tns := tns0; m_part := n |}.
Definition mkmeth (n : text) (port : option text) (hs : option (list msg)) (fs : list msg) : meth :=
  {| me_name := n; me_op := n; me_port := port; me_in := mkmsg n tns0; me_out := mkmsg (n ++ [82]) tns0;
     me_inh := hs; me_outh := None; me_faults := fs |}.
Definition pst0 : pstate :=
  {| prefmap := [([120; 115; 100], [120; 115]); (tns0, [116; 110; 115])];
     nsmap := [([120; 115], [120; 115; 100]); ([116; 110; 115], tns0)]; counter := 0 |}.
Definition app_of (svcs : list svc) : snap :=
  {| a_tns := tns0; a_name := [65]; a_classes := []; a_deps := []; a_imports := [(tns0, [[98]; [97]])];
     a_svcs := svcs; a_pst := pst0 |}.

(** two port types in one service, a header, a fault, and a second service on the default port *)
Definition ex_app : snap := app_of
  [ {| s_name := [83; 48]; s_ports := [[80; 65]; [80; 66]];
       s_meths := [mkmeth [109; 48] (Some [80; 66]) (Some [mkmsg [72] [104]]) [mkmsg [70] tns0];
                   mkmeth [109; 49] (Some [80; 65]) (Some [mkmsg [72] [104]; mkmsg [71] [103]]) []] |};
    {| s_name := [83; 49]; s_ports := []; s_meths := [mkmeth [109; 50] None None []] |} ].

Example C07_ex_build : exists d, wsdl_of (fun l => l) ex_app = ROk d /\ faults_in_tns ex_app
  /\ length (d_pts d) = 3%nat /\ length (d_binds d) = 3%nat /\ length (d_msgs d) = 9%nat
  /\ map (fun p => length (pt_ops p)) (d_pts d) = [1%nat; 1%nat; 1%nat].
Proof.
  eexists. split; [vm_compute; reflexivity|]. split.
  - intros m f Hm Hf. vm_compute in Hm.
    destruct Hm as [<-|[<-|[<-|[]]]]; simpl in Hf; try tauto. destruct Hf as [<-|[]]. reflexivity.
  - vm_compute. auto.
Qed.

Example C07_ex_prefix : pst_wf pst0 /\
  exists st, alloc_all pst0 [[104]; tns0; [103]; [104]] = ROk st /\
             lookup [103] (prefmap st) = Some [115; 49] /\ counter st = 2.
Proof.
  split.
  - intros ns p H. unfold pst0 in *. simpl in *.
    destruct (text_eqb ns [120; 115; 100]) eqn:E1.
    + inversion H; subst. apply text_eqb_eq in E1. subst. reflexivity.
    + destruct (text_eqb ns tns0) eqn:E2; try discriminate.
      inversion H; subst. apply text_eqb_eq in E2. subst. reflexivity.
  - eexists. vm_compute. auto.
Qed.

Example C07_ex_sort : isort text_leb [[98]; [97; 98]; [97]] = [[97]; [97; 98]; [98]]
  /\ isort text_leb [[97]; [98]; [97; 98]] = [[97]; [97; 98]; [98]].
Proof. vm_compute. auto. Qed.

Example C07_ex_topo :
  toposort2 (fun l => l) (fun z => [z]) [(1, [2; 3]); (2, [3]); (4, [4])] = ROk [[3; 4]; [2]; [1]]
  /\ toposort2 (@rev Z) (fun z => [z]) [(1, [2; 3]); (2, [3]); (4, [4])] = ROk [[3; 4]; [2]; [1]]
  /\ toposort2 (fun l => l) (fun z => [z]) [(1, [2]); (2, [1])] = RErr EAssertCyclic
  /\ NoDup (keys (data0 [(1, [2; 3]); (2, [3]); (4, [4])]))
  /\ deps_closed (data0 [(1, [2; 3]); (2, [3]); (4, [4])]).
Proof.
  repeat split; try (vm_compute; reflexivity).
  - vm_compute. repeat constructor; simpl; intuition discriminate.
  - intros k dep x Hk Hx. vm_compute in Hk. vm_compute.
    repeat (destruct Hk as [Hk|Hk]; [inversion Hk; subst; simpl in Hx; intuition|]). destruct Hk.
Qed.

(** with a key that is NOT injective the order does depend on the set order:
    the missing hypothesis is necessary (this is the pinned tree's second defect) *)
Example C07_ex_topo_key_needed :
  toposort2 (fun l => l) (fun _ => []) [(1, []); (2, [])]
  <> toposort2 (@rev Z) (fun _ => []) [(1, []); (2, [])].
Proof. vm_compute. discriminate. Qed.

(** two services that declare the same port type name share the portType AND its
    binding (the pinned tree wrote two bindings of that name; repaired) *)
Definition shared_app : snap := app_of
  [ {| s_name := [83; 48]; s_ports := [[80]]; s_meths := [mkmeth [109; 48] (Some [80]) None []] |};
    {| s_name := [83; 49]; s_ports := [[80]]; s_meths := [mkmeth [109; 49] (Some [80]) None []] |} ].
Example C07_ex_shared : exists d, wsdl_of (fun l => l) shared_app = ROk d
  /\ map b_name (d_binds d) = [[80]] /\ map (fun b => map bo_name (b_ops b)) (d_binds d) = [[[109; 48]; [109; 49]]]
  /\ (forall s, In s (a_svcs shared_app) -> NoDup (s_ports s)).
Proof.
  eexists. split; [vm_compute; reflexivity|]. split; [reflexivity|]. split; [reflexivity|].
  intros s [<-|[<-|[]]]; repeat constructor; simpl; tauto.
Qed.

(** REFUTED in general: a part's element need not be defined by any schema.  A
    bare, non-complex message whose element lives outside the target namespace
    gets its xs:element in the tns schema (add_missing_elements_for_methods)
    (known finding C07|closed|...|bare-simple-foreign-ns). *)
Definition foreign_bare_app : snap := app_of
  [ {| s_name := [83; 48]; s_ports := [];
       s_meths := [ {| me_name := [102]; me_op := [109]; me_port := None;
                       me_in := mkmsg [102] [111]; me_out := mkmsg [114] tns0;
                       me_inh := None; me_outh := None; me_faults := [] |} ] |} ].
Definition part_defined (d : adoc) (p : text * qn) : Prop :=
  exists s, In s (d_schemas d) /\ sc_ns s = fst (snd p) /\ In (snd (snd p)) (map fst (sc_elems s)).
Theorem C07_foreign_bare_refuted :
  exists a d, wsdl_of (fun l => l) a = ROk d /\ wf_snapb a = false /\
    exists g p, In g (d_msgs d) /\ In p (mg_parts g) /\ ~ part_defined d p.
Proof.
  exists foreign_bare_app. eexists. split; [vm_compute; reflexivity|]. split; [vm_compute; reflexivity|].
  eexists. eexists. split; [left; reflexivity|]. split; [left; reflexivity|].
  intros (s & Hs & E & _). simpl in Hs. destruct Hs as [<-|[]]. vm_compute in E. discriminate.
Qed.

(** a snapshot with classes: a request and a response in the target namespace, a
    class in another namespace, a header that extends it from a third one, a fault;
    the hypothesis of C07_schema_closed holds and the build succeeds *)
Definition kcls (id : Z) (ns tn : text) (base : option Z) (fs : list (text * Z)) : cls :=
  {| c_id := id; c_repr := tn; c_subs := []; c_ns := ns; c_tn := tn; c_kind := KComplex; c_base := base;
     c_fields := fs; c_ename := tn; c_ens := ns |}.
Definition cmsg (id : Z) (ns tn : text) : msg :=
  {| m_cid := id; m_complex := true; m_ename := tn; m_ens := ns; m_tn := tn; m_tns := ns; m_part := tn |}.
Definition ex_schema_app : snap :=
  {| a_tns := tns0; a_name := [65];
     a_classes := [ {| c_id := 0; c_repr := [115]; c_subs := []; c_ns := xsd_ns; c_tn := [115; 116; 114; 105; 110; 103];
                       c_kind := KPlain; c_base := None; c_fields := []; c_ename := []; c_ens := xsd_ns |};
                    kcls 1 tns0 [109] None [([97], 0)]; kcls 2 tns0 [114] None [([120], 3)];
                    kcls 3 [107] [75] None [([115], 0)]; kcls 4 [104] [72] (Some 3) []; kcls 5 tns0 [70] None [] ];
     a_deps := [(1, [0]); (2, [3]); (3, [0]); (4, [3]); (5, [])];
     a_imports := [(tns0, [[107]; [104]]); ([107], []); ([104], [[107]])];
     a_svcs := [ {| s_name := [83]; s_ports := [];
                    s_meths := [ {| me_name := [109]; me_op := [109]; me_port := None;
                                    me_in := cmsg 1 tns0 [109]; me_out := cmsg 2 tns0 [114];
                                    me_inh := Some [cmsg 4 [104] [72]]; me_outh := None;
                                    me_faults := [cmsg 5 tns0 [70]] |} ] |} ];
     a_pst := pst0 |}.
Example C07_ex_schema : wf_snapb ex_schema_app = true /\
  exists d, wsdl_of (fun l => l) ex_schema_app = ROk d /\ map sc_ns (d_schemas d) = [tns0; [107]; [104]]
            /\ map (fun s => length (sc_types s)) (d_schemas d) = [3%nat; 1%nat; 1%nat].
Proof. split; [vm_compute; reflexivity|]. eexists. split; [vm_compute; reflexivity|]. vm_compute. auto. Qed.

(** REFUTED without the guard: a class registered as the bare response of one method
    (its only registered variant is published under the response element name) and
    used as the header of another leaves the header part without an element
    (known finding C07|closed|dangling-element|message/part|bare-class-reused-as-header) *)
Definition header_reuse_app : snap :=
  {| a_tns := tns0; a_name := [65];
     a_classes := [ {| c_id := 1; c_repr := [75]; c_subs := [114]; c_ns := [107]; c_tn := [75]; c_kind := KComplex; c_base := None;
                       c_fields := []; c_ename := [114]; c_ens := tns0 |} ];
     a_deps := [(1, [])]; a_imports := [(tns0, [[107]]); ([107], [])];
     a_svcs := [ {| s_name := [83]; s_ports := [];
                    s_meths := [ {| me_name := [109]; me_op := [109]; me_port := None;
                                    me_in := mkmsg [109] tns0;
                                    me_out := {| m_cid := 1; m_complex := true; m_ename := [114]; m_ens := tns0;
                                                 m_tn := [75]; m_tns := [107]; m_part := [114] |};
                                    me_inh := Some [cmsg (-1) [107] [75]]; me_outh := None; me_faults := [] |} ] |} ];
     a_pst := pst0 |}.
Theorem C07_header_reuse_refuted :
  exists a d, wsdl_of (fun l => l) a = ROk d /\ wf_snapb a = false /\ ~ parts_closed d.
Proof.
  exists header_reuse_app. eexists. split; [vm_compute; reflexivity|]. split; [vm_compute; reflexivity|].
  intros PC. unfold parts_closed in PC.
  specialize (PC {| mg_name := [75]; mg_parts := [([75], ([107], [75]))] |} ([75], ([107], [75]))).
  destruct PC as (s & Hs & E & Hin).
  - vm_compute. auto.
  - left. reflexivity.
  - simpl in Hs. destruct Hs as [<-|[<-|[]]]; vm_compute in E; try discriminate.
    vm_compute in Hin. tauto.
Qed.

(** the hypotheses of C07_doc_det / C07_doc_det_decidable hold on that snapshot, and
    reversing every set (the tiers, the import sets) leaves the rendering unchanged *)
Example C07_ex_det : key_injb ex_schema_app = true /\
  imports_equiv (a_imports ex_schema_app) [(tns0, [[104]; [107]]); ([107], []); ([104], [[107]])] /\
  render (fun l => l) ex_schema_app
  = render (@rev Z) (with_imports ex_schema_app [(tns0, [[104]; [107]]); ([107], []); ([104], [[107]])]) /\
  exists r, render (fun l => l) ex_schema_app = ROk r.
Proof.
  split; [vm_compute; reflexivity|]. split.
  - constructor; [split; [reflexivity|apply perm_swap]|].
    constructor; [split; [reflexivity|apply Permutation_refl]|].
    constructor; [split; [reflexivity|apply Permutation_refl]|]. constructor.
  - split; [vm_compute; reflexivity|]. eexists. vm_compute. reflexivity.
Qed.

(** Unicode and the Unicode(max_occurs=inf) an Array holds: one key, two classes;
    C07_doc_det does not apply, C07_doc_det_tiers does *)
Definition plain_twins_app : snap :=
  let str id := {| c_id := id; c_repr := [115]; c_subs := []; c_ns := xsd_ns; c_tn := [115; 116; 114; 105; 110; 103];
                   c_kind := KPlain; c_base := None; c_fields := []; c_ename := []; c_ens := xsd_ns |} in
  {| a_tns := tns0; a_name := [65];
     a_classes := [ str 0; str 9; kcls 1 tns0 [109] None [([97], 0); ([98], 9)]; kcls 2 tns0 [114] None [] ];
     a_deps := [(1, [0; 9]); (2, [])]; a_imports := [(tns0, [])];
     a_svcs := [ {| s_name := [83]; s_ports := [];
                    s_meths := [ {| me_name := [109]; me_op := [109]; me_port := None;
                                    me_in := cmsg 1 tns0 [109]; me_out := cmsg 2 tns0 [114];
                                    me_inh := None; me_outh := None; me_faults := [] |} ] |} ];
     a_pst := pst0 |}.
Example C07_ex_tiers : key_injb plain_twins_app = false /\ tier_sepb plain_twins_app = true /\
  tier_sepb ex_schema_app = true /\
  exists r, render (fun l => l) plain_twins_app = ROk r /\ render (@rev Z) plain_twins_app = ROk r.
Proof.
  split; [vm_compute; reflexivity|]. split; [vm_compute; reflexivity|]. split; [vm_compute; reflexivity|].
  eexists. split; vm_compute; reflexivity.
Qed.

(** the hypothesis of C07_imports_closed holds on the snapshot with three
    namespaces, and fails as soon as the tns schema loses the import its header
    element needs *)
Example C07_ex_imports : wf_importsb ex_schema_app = true /\
  wf_importsb (with_imports ex_schema_app [(tns0, [[104]]); ([107], []); ([104], [[107]])]) = false.
Proof. split; vm_compute; reflexivity. Qed.
