(** C08, date/time family — property theorems only; each closed by [exact] of a
    lemma of C08/DtProofs.v (or C08/FracSweep.v), followed by a non-vacuity
    Example on a concrete, non-trivial instance.
    Model: C08/DtModel.v (printers = isoformat(), readers = the regex scanners +
    the binary64 computation of the microseconds, XSD recognisers xs_dateTime /
    xs_time / xs_date with denotations). *)
From SpyneV Require Import Base.Digits Base.DigitsProofs C08.DtModel C08.ScanLemmas
  C08.FracSweep C08.DtProofs.

(** ---- 1. UTC offsets: every offset pytz.FixedOffset accepts is printed and
    scanned back to the same number of minutes (all 2 879 of them, by arithmetic) *)
Theorem C08_dt_offset_roundtrip : forall m, -1440 < m < 1440 ->
  scan_offset (offset_iso m) = Some (m <? 0, Z.abs m / 60, Z.abs m mod 60, [])
  /\ offset_minutes (m <? 0) (Z.abs m / 60) (Z.abs m mod 60) = m.
Proof. exact offset_roundtrip. Qed.

Example C08_dt_ex_offset :
  offset_iso (-30) = [45; 48; 48; 58; 51; 48]
  /\ scan_offset (offset_iso (-30)) = Some (true, 0, 30, [])
  /\ offset_minutes true 0 30 = -30.
Proof. vm_compute. auto. Qed.

(** ---- the fraction of a second through binary64 (exhaustive sweeps, bound in
    the statement): isoformat's six digits ... *)
Theorem C08_dt_usec_six_digits : forall k, 0 <= k < 10 ^ 6 -> usec_of_frac (zpad 6 k) = k.
Proof. exact usec_of_frac_zpad6. Qed.

(** ... and every fraction of one to six digits, every value *)
Theorem C08_dt_usec_exact : forall d k, 1 <= d <= 6 -> 0 <= k < 10 ^ d ->
  usec_core k d = k * 10 ^ (6 - d).
Proof. exact usec_core_exact. Qed.

Example C08_dt_ex_usec_exact : usec_core 123 3 = 123000 /\ usec_core 99999 5 = 999990.
Proof. vm_compute. auto. Qed.

Theorem C08_dt_usec_digits : forall ds,
  Forall (fun c => is_digit c = true) ds -> (1 <= length ds <= 6)%nat ->
  usec_of_frac ds = val_digits 0 ds * 10 ^ (6 - Z.of_nat (length ds)).
Proof. exact usec_of_frac_digits. Qed.

(** ".007" and ".29" *)
Example C08_dt_ex_usec_digits :
  forallb is_digit [48; 48; 55] = true /\ usec_of_frac [48; 48; 55] = 7000
  /\ usec_of_frac [50; 57] = 290000.
Proof. vm_compute. auto. Qed.

Example C08_dt_ex_usec :
  usec_of_frac (zpad 6 999999) = 999999 /\ usec_of_frac (zpad 6 1) = 1
  /\ usec_core 7 1 = 700000 /\ usec_of_frac [50; 57] = 290000.
Proof. vm_compute. auto. Qed.

(** ---- 2. datetime: print then read is the identity on every datetime Python
    can hold with a fixed offset (microseconds and offset included) *)
Theorem C08_dt_datetime_roundtrip : forall v, valid_datetime v = true ->
  datetime_from_unicode_iso (datetime_iso v) = Ok v.
Proof. exact datetime_roundtrip. Qed.

(** 2024-02-29T23:59:59.000001-00:30 *)
Example C08_dt_ex_datetime_roundtrip :
  let v := mkdt (mkdate 2024 2 29) (mktod 23 59 59 1) (Some (-30)) in
  valid_datetime v = true
  /\ datetime_iso v = [50; 48; 50; 52; 45; 48; 50; 45; 50; 57; 84; 50; 51; 58; 53; 57; 58; 53; 57;
                       46; 48; 48; 48; 48; 48; 49; 45; 48; 48; 58; 51; 48]
  /\ datetime_from_unicode_iso (datetime_iso v) = Ok v.
Proof. vm_compute. auto. Qed.

(** ---- 3. time and date round trips *)
Theorem C08_dt_time_roundtrip : forall t, valid_tod t = true ->
  time_from_unicode (time_iso t) = Ok t.
Proof. exact time_roundtrip. Qed.

Example C08_dt_ex_time_roundtrip :
  let t := mktod 23 59 59 999999 in
  valid_tod t = true
  /\ time_iso t = [50; 51; 58; 53; 57; 58; 53; 57; 46; 57; 57; 57; 57; 57; 57]
  /\ time_from_unicode (time_iso t) = Ok t.
Proof. vm_compute. auto. Qed.

Theorem C08_dt_date_roundtrip : forall d, valid_date d = true ->
  date_from_unicode (date_iso d) = Ok d.
Proof. exact date_roundtrip. Qed.

Example C08_dt_ex_date_roundtrip :
  let d := mkdate 2024 2 29 in
  valid_date d = true /\ date_iso d = [50; 48; 50; 52; 45; 48; 50; 45; 50; 57]
  /\ date_from_unicode (date_iso d) = Ok d.
Proof. vm_compute. auto. Qed.

(** ---- 4. what is written lies in the XSD lexical space and denotes the value.
    For datetimes the offset must be within XSD's +-14:00 ... *)
Theorem C08_dt_datetime_out_lex_partial : forall v, valid_datetime v = true ->
  match dt_off v with None => True | Some m => -840 <= m <= 840 end ->
  xs_dateTime (datetime_iso v) = Some v.
Proof. exact datetime_out_lex. Qed.

Example C08_dt_ex_datetime_out_lex :
  let v := mkdt (mkdate 1 1 1) (mktod 0 0 0 500) (Some 840) in
  valid_datetime v = true /\ xs_dateTime (datetime_iso v) = Some v.
Proof. vm_compute. auto. Qed.

(** ... and without that guard the statement is false: pytz.FixedOffset(841) is a
    legal tzinfo and is written as +14:01, which no xs:dateTime literal may carry *)
Theorem C08_dt_datetime_out_lex_refuted :
  exists v, valid_datetime v = true /\ xs_dateTime (datetime_iso v) = None.
Proof. exact datetime_out_lex_unguarded_refuted. Qed.

Example C08_dt_ex_out_lex_refuted :
  let v := mkdt (mkdate 2020 1 1) (mktod 0 0 0 0) (Some 841) in
  valid_datetime v = true
  /\ datetime_iso v = [50; 48; 50; 48; 45; 48; 49; 45; 48; 49; 84; 48; 48; 58; 48; 48; 58; 48; 48;
                       43; 49; 52; 58; 48; 49]
  /\ xs_dateTime (datetime_iso v) = None
  /\ datetime_from_unicode_iso (datetime_iso v) = Ok v.
Proof. vm_compute. auto. Qed.

(** the guard is exact *)
Theorem C08_dt_datetime_out_lex_iff : forall v, valid_datetime v = true ->
  (xs_dateTime (datetime_iso v) = Some v <->
   match dt_off v with None => True | Some m => -840 <= m <= 840 end).
Proof. exact datetime_out_lex_iff. Qed.

Example C08_dt_ex_out_lex_iff :
  valid_datetime (mkdt (mkdate 2020 1 1) (mktod 0 0 0 0) (Some (-841))) = true
  /\ xs_dateTime (datetime_iso (mkdt (mkdate 2020 1 1) (mktod 0 0 0 0) (Some (-841)))) = None
  /\ xs_dateTime (datetime_iso (mkdt (mkdate 2020 1 1) (mktod 0 0 0 0) (Some (-840))))
     = Some (mkdt (mkdate 2020 1 1) (mktod 0 0 0 0) (Some (-840))).
Proof. vm_compute. auto. Qed.

Theorem C08_dt_time_out_lex : forall t, valid_tod t = true -> xs_time (time_iso t) = Some t.
Proof. exact time_out_lex. Qed.

Example C08_dt_ex_time_out_lex :
  valid_tod (mktod 7 8 9 120000) = true
  /\ xs_time (time_iso (mktod 7 8 9 120000)) = Some (mktod 7 8 9 120000).
Proof. vm_compute. auto. Qed.

Theorem C08_dt_date_out_lex : forall d, valid_date d = true -> xs_date (date_iso d) = Some d.
Proof. exact date_out_lex. Qed.

Example C08_dt_ex_date_out_lex :
  valid_date (mkdate 9999 12 31) = true
  /\ xs_date (date_iso (mkdate 9999 12 31)) = Some (mkdate 9999 12 31).
Proof. vm_compute. auto. Qed.

(** ---- 5. every literal of the (restricted) XSD lexical space is read as its
    denotation: 4-digit year, hour <= 23, 1..6 fraction digits, Z or +-hh:mm up
    to 14:00 *)
Theorem C08_dt_datetime_in_lex : forall s v,
  xs_dateTime s = Some v -> datetime_from_unicode_iso s = Ok v.
Proof. exact datetime_in_lex. Qed.

(** 2020-01-01T12:34:56.5+14:00 *)
Example C08_dt_ex_datetime_in_lex :
  let s := [50; 48; 50; 48; 45; 48; 49; 45; 48; 49; 84; 49; 50; 58; 51; 52; 58; 53; 54; 46; 53;
            43; 49; 52; 58; 48; 48] in
  let v := mkdt (mkdate 2020 1 1) (mktod 12 34 56 500000) (Some 840) in
  xs_dateTime s = Some v /\ datetime_from_unicode_iso s = Ok v.
Proof. vm_compute. auto. Qed.

Theorem C08_dt_time_in_lex : forall s t, xs_time s = Some t -> time_from_unicode s = Ok t.
Proof. exact time_in_lex. Qed.

(** 23:59:59.25 *)
Example C08_dt_ex_time_in_lex :
  let s := [50; 51; 58; 53; 57; 58; 53; 57; 46; 50; 53] in
  xs_time s = Some (mktod 23 59 59 250000) /\ time_from_unicode s = Ok (mktod 23 59 59 250000).
Proof. vm_compute. auto. Qed.

Theorem C08_dt_date_in_lex : forall s d, xs_date s = Some d -> date_from_unicode s = Ok d.
Proof. exact date_in_lex. Qed.

(** 2020-02-29Z (strptime refuses the zone, the offset regex takes over) and 2024-02-29 *)
Example C08_dt_ex_date_in_lex :
  let s := [50; 48; 50; 48; 45; 48; 50; 45; 50; 57; 90] in
  let s' := [50; 48; 50; 52; 45; 48; 50; 45; 50; 57] in
  xs_date s = Some (mkdate 2020 2 29) /\ date_from_unicode s = Ok (mkdate 2020 2 29)
  /\ strptime_ymd s = None
  /\ xs_date s' = Some (mkdate 2024 2 29) /\ strptime_ymd s' = Some (mkdate 2024 2 29).
Proof. vm_compute. repeat split; reflexivity. Qed.

(** ---- 6. totality: the reader's outcome is a ValidationError when the (anchored)
    regex does not match the whole text, and otherwise depends only on the validity of the scanned
    fields [dt_fields s]: Ok, or the ValueError of datetime(...) /
    pytz.FixedOffset(...) escaping (the escape property C10 is about).  No
    other exception is possible. *)
Theorem C08_dt_datetime_reader_shape : forall s,
  datetime_from_unicode_iso s =
  match dt_fields s with
  | None => VFault
  | Some v => if valid_datetime v then Ok v else Crash ValueError
  end.
Proof. exact datetime_reader_shape. Qed.

(** "2000-02-29 01:02:03.123456789Z": space separator, nine fraction digits (rounded
    by the float computation), Z: outside the restricted XSD space, still read *)
Example C08_dt_ex_datetime_reader_shape :
  let s := [50; 48; 48; 48; 45; 48; 50; 45; 50; 57; 32; 48; 49; 58; 48; 50; 58; 48; 51; 46;
            49; 50; 51; 52; 53; 54; 55; 56; 57; 90] in
  let v := mkdt (mkdate 2000 2 29) (mktod 1 2 3 123457) (Some 0) in
  dt_fields s = Some v /\ valid_datetime v = true /\ datetime_from_unicode_iso s = Ok v
  /\ xs_dateTime s = None.
Proof. vm_compute. auto. Qed.

Theorem C08_dt_datetime_only_valueerror : forall s e,
  datetime_from_unicode_iso s = Crash e -> e = ValueError.
Proof. exact datetime_only_valueerror. Qed.

(** 1999-12-31T23:59:60Z: a leap second is a ValueError, not a ValidationError *)
Example C08_dt_ex_datetime_only_valueerror :
  datetime_from_unicode_iso [49; 57; 57; 57; 45; 49; 50; 45; 51; 49; 84; 50; 51; 58; 53; 57;
                             58; 54; 48; 90] = Crash ValueError.
Proof. vm_compute. auto. Qed.

Theorem C08_dt_datetime_crash_iff : forall s,
  datetime_from_unicode_iso s = Crash ValueError <->
  exists v, dt_fields s = Some v /\ valid_datetime v = false.
Proof. exact datetime_crash_iff. Qed.

(** 2020-13-01T00:00:00 (month 13) and "2020-01-01 00:00:00+24:00" (offset 1440)
    escape as ValueError; "x" is a ValidationError *)
Example C08_dt_ex_datetime_crash :
  let s1 := [50; 48; 50; 48; 45; 49; 51; 45; 48; 49; 84; 48; 48; 58; 48; 48; 58; 48; 48] in
  let s2 := [50; 48; 50; 48; 45; 48; 49; 45; 48; 49; 32; 48; 48; 58; 48; 48; 58; 48; 48;
             43; 50; 52; 58; 48; 48] in
  datetime_from_unicode_iso s1 = Crash ValueError
  /\ dt_fields s1 = Some (mkdt (mkdate 2020 13 1) (mktod 0 0 0 0) None)
  /\ datetime_from_unicode_iso s2 = Crash ValueError
  /\ dt_fields s2 = Some (mkdt (mkdate 2020 1 1) (mktod 0 0 0 0) (Some 1440))
  /\ datetime_from_unicode_iso [120] = VFault /\ dt_fields [120] = None.
Proof. vm_compute. repeat split; reflexivity. Qed.

(** ---- 7. no trailing text is ignored (repaired readers: the regexes end in \Z):
    any accepted text extended by text that cannot continue a literal (first
    character not a digit, '.', 'Z', '+' or '-') is a ValidationError *)
Theorem C08_dt_datetime_no_trailing_junk : forall s v c junk,
  datetime_from_unicode_iso s = Ok v ->
  is_digit c = false -> c <> 46 -> c <> 90 -> c <> 43 -> c <> 45 ->
  datetime_from_unicode_iso (s ++ c :: junk) = VFault.
Proof. exact datetime_no_trailing_junk. Qed.

(** "2020-01-01T00:00:00+01:00" is read; followed by " x" or "junk" it is rejected *)
Example C08_dt_ex_datetime_no_trailing_junk :
  let s := [50; 48; 50; 48; 45; 48; 49; 45; 48; 49; 84; 48; 48; 58; 48; 48; 58; 48; 48; 43; 48; 49; 58; 48; 48] in
  datetime_from_unicode_iso s = Ok (mkdt (mkdate 2020 1 1) (mktod 0 0 0 0) (Some 60))
  /\ datetime_from_unicode_iso (s ++ [32; 120]) = VFault
  /\ datetime_from_unicode_iso (s ++ [106; 117; 110; 107]) = VFault
  /\ is_digit 32 = false.
Proof. vm_compute. auto. Qed.

(** the two smaller readers *)
Theorem C08_dt_time_only_valueerror : forall s e, time_from_unicode s = Crash e -> e = ValueError.
Proof. exact time_only_valueerror. Qed.

(** 24:00:00 *)
Example C08_dt_ex_time_only_valueerror :
  time_from_unicode [50; 52; 58; 48; 48; 58; 48; 48] = Crash ValueError.
Proof. vm_compute. auto. Qed.

Theorem C08_dt_time_crash_iff : forall s,
  time_from_unicode s = Crash ValueError <->
  exists h m x f rest, scan_time s = Some (h, m, x, f, rest)
                       /\ valid_tod (mktod h m x (usec_of f)) = false.
Proof. exact time_crash_iff. Qed.

(** 12:00:60 *)
Example C08_dt_ex_time_crash :
  time_from_unicode [49; 50; 58; 48; 48; 58; 54; 48] = Crash ValueError
  /\ scan_time [49; 50; 58; 48; 48; 58; 54; 48] = Some (12, 0, 60, None, []).
Proof. vm_compute. auto. Qed.

Theorem C08_dt_date_only_valueerror : forall s e, date_from_unicode s = Crash e -> e = ValueError.
Proof. exact date_only_valueerror. Qed.

(** 2020-00-10Z *)
Example C08_dt_ex_date_only_valueerror :
  date_from_unicode [50; 48; 50; 48; 45; 48; 48; 45; 49; 48; 90] = Crash ValueError.
Proof. vm_compute. auto. Qed.

Theorem C08_dt_date_crash_iff : forall s,
  date_from_unicode s = Crash ValueError <->
  strptime_ymd s = None /\ exists d, scan_date_tz s = Some d /\ valid_date d = false.
Proof. exact date_crash_iff. Qed.

(** 2021-02-29+01:00 *)
Example C08_dt_ex_date_crash :
  let s := [50; 48; 50; 49; 45; 48; 50; 45; 50; 57; 43; 48; 49; 58; 48; 48] in
  date_from_unicode s = Crash ValueError /\ scan_date_tz s = Some (mkdate 2021 2 29).
Proof. vm_compute. auto. Qed.
