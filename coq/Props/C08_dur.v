(** C08 — Duration and Boolean: text forms are lossless and lie in the XSD lexical space.
    Property theorems only; each closed by [exact] of a lemma of C08/DurProofs.v.
    A timedelta is its exact number of microseconds [n]; [td_ok n] is the range
    of datetime.timedelta (|normalised days| <= 999999999). *)
From SpyneV Require Import Base.Digits C08.DtModel C08.DurModel C08.DurLang C08.DurProofs.

(** A. print-then-read is the identity on every timedelta: negative, zero, whole
    days, every combination of present/absent D/H/M/S components, microseconds *)
Theorem C08_duration_roundtrip : forall n, td_ok n = true ->
  duration_from_unicode (duration_to_unicode n) = Ok n.
Proof. exact duration_roundtrip. Qed.

(** B. the written text is in the xs:duration lexical space (D/H/M/S fragment)
    and denotes exactly the value *)
Theorem C08_duration_out_lex : forall n, td_ok n = true ->
  xs_duration (duration_to_unicode n) = Some n.
Proof. exact duration_out_lex. Qed.

(** ... indeed for every integer number of microseconds, in range or not *)
Theorem C08_duration_out_lex_all : forall n, xs_duration (duration_to_unicode n) = Some n.
Proof. exact duration_out_lex_all. Qed.

(** C. every literal of the lexical space whose denotation is a timedelta is
    read as that denotation.  The reader builds the positive magnitude first
    and negates it afterwards, hence the second guard ... *)
Theorem C08_duration_in_lex : forall s n,
  xs_duration s = Some n -> td_ok n = true -> td_ok (Z.abs n) = true ->
  duration_from_unicode s = Ok n.
Proof. exact duration_in_lex_guarded. Qed.

(** ... which is implied by the first: timedelta's range is [-999999999 d,
    +999999999 d 23:59:59.999999], so the magnitude of a representable
    negative duration is representable *)
Theorem C08_duration_range_abs : forall n, td_ok n = true -> td_ok (Z.abs n) = true.
Proof. exact td_ok_abs. Qed.

Theorem C08_duration_in_lex_strong : forall s n,
  xs_duration s = Some n -> td_ok n = true -> duration_from_unicode s = Ok n.
Proof. exact duration_in_lex. Qed.

(** D. the reader is total: it returns a value or raises ValidationError, nothing else *)
Theorem C08_duration_reader_total : forall s, is_crash (duration_from_unicode s) = false.
Proof. exact duration_total. Qed.

(** out of timedelta's range the reader refuses instead of wrapping *)
Theorem C08_duration_out_of_range : forall n, td_ok n = false ->
  duration_from_unicode (duration_to_unicode n) = VFault.
Proof. exact duration_roundtrip_range. Qed.

(** the repaired behaviour (regex anchored with \Z): the reader ignores no part of
    its input.  Whenever it returns a value, the WHOLE text is a word of
    -?P(nY)?(nM)?(nD)?(T(nH)?(nM)?(n(.f)?S)?)? cut into exactly those pieces
    ([dur_lang], C08/DurLang.v, stated without the scanners), and the value is
    the one the pieces denote. *)
Theorem C08_dur_no_trailing_junk : forall s n, duration_from_unicode s = Ok n -> dur_lang s n.
Proof. exact duration_no_trailing_junk. Qed.

(** in particular anything appended to "PT<k>S" is refused, whatever it is *)
Theorem C08_dur_suffix_rejected : forall k x junk, 0 <= k ->
  duration_from_unicode (80 :: 84 :: str_nat k ++ 83 :: x :: junk) = VFault.
Proof. exact duration_rejects_suffix_after_S. Qed.

(** E. Boolean *)
Theorem C08_boolean_roundtrip : forall b, boolean_from_unicode (boolean_to_unicode b) = b.
Proof. exact boolean_roundtrip. Qed.

Theorem C08_boolean_out_lex : forall b, xs_boolean (boolean_to_unicode b) = Some b.
Proof. exact boolean_out_lex. Qed.

Theorem C08_boolean_in_lex : forall s b, xs_boolean s = Some b -> boolean_from_unicode s = b.
Proof. exact boolean_in_lex. Qed.

(** non-vacuity: concrete, non-trivial instances meet the hypotheses *)
(* -(1 day 2 h 3 min 4.000005 s) is written "-P1DT2H3M4.000005S" *)
Example C08_ex_duration_roundtrip :
  td_ok (-93784000005) = true
  /\ duration_to_unicode (-93784000005)
     = [45; 80; 49; 68; 84; 50; 72; 51; 77; 52; 46; 48; 48; 48; 48; 48; 53; 83]
  /\ duration_from_unicode (duration_to_unicode (-93784000005)) = Ok (-93784000005).
Proof. vm_compute. auto. Qed.
(* zero is "PT0S", two whole days "P2D", 50 us "PT0.000050S" *)
Example C08_ex_duration_out_lex :
  td_ok 0 = true /\ duration_to_unicode 0 = [80; 84; 48; 83] /\ xs_duration [80; 84; 48; 83] = Some 0
  /\ duration_to_unicode 172800000000 = [80; 50; 68]
  /\ xs_duration (duration_to_unicode 172800000000) = Some 172800000000
  /\ xs_duration (duration_to_unicode 50) = Some 50.
Proof. vm_compute. auto 10. Qed.
(* the extreme timedeltas are in range *)
Example C08_ex_duration_out_lex_all :
  td_ok (- 999999999 * US_DAY) = true /\ td_ok (1000000000 * US_DAY - 1) = true
  /\ td_ok (1000000000 * US_DAY) = false /\ td_ok (- 999999999 * US_DAY - 1) = false
  /\ xs_duration (duration_to_unicode (1000000000 * US_DAY)) = Some (1000000000 * US_DAY).
Proof. vm_compute. auto 10. Qed.
(* "-PT90M" (a literal the printer never writes) is read as -90 min *)
Example C08_ex_duration_in_lex :
  xs_duration [45; 80; 84; 57; 48; 77] = Some (-5400000000)
  /\ td_ok (-5400000000) = true /\ td_ok (Z.abs (-5400000000)) = true
  /\ duration_from_unicode [45; 80; 84; 57; 48; 77] = Ok (-5400000000).
Proof. vm_compute. auto 10. Qed.
Example C08_ex_duration_range_abs :
  td_ok (- 999999999 * US_DAY) = true /\ td_ok (Z.abs (- 999999999 * US_DAY)) = true.
Proof. vm_compute. auto. Qed.
(* "P1.5D" is outside the fragment, "P3DT4.5S" inside *)
Example C08_ex_duration_in_lex_strong :
  xs_duration [80; 49; 46; 53; 68] = None
  /\ xs_duration [80; 51; 68; 84; 52; 46; 53; 83] = Some 259204500000
  /\ td_ok 259204500000 = true.
Proof. vm_compute. auto. Qed.
(* garbage, the empty string and an out-of-range literal are ValidationErrors *)
Example C08_ex_duration_reader_total :
  duration_from_unicode [120; 121] = VFault /\ duration_from_unicode [] = VFault
  /\ duration_from_unicode [80; 49; 48; 48; 48; 48; 48; 48; 48; 48; 48; 68] = VFault.
Proof. vm_compute. auto. Qed.
Example C08_ex_duration_out_of_range :
  td_ok (1000000000 * US_DAY) = false
  /\ duration_from_unicode (duration_to_unicode (1000000000 * US_DAY)) = VFault.
Proof. vm_compute. auto. Qed.
(* "P1Y2M3DT4H5M6.5S" is accepted in full; "P1Djunk", "P1DT", "P1D " + newline-like junk are refused *)
Example C08_ex_dur_no_trailing_junk :
  duration_from_unicode [80; 49; 89; 50; 77; 51; 68; 84; 52; 72; 53; 77; 54; 46; 53; 83]
  = Ok ((3 + 2 * 30 + 1 * 365) * US_DAY + 4 * 3600000000 + 5 * 60000000 + 6500000)
  /\ duration_from_unicode [80; 49; 68; 106; 117; 110; 107] = VFault
  /\ duration_from_unicode [80; 49; 68; 10] = VFault
  /\ duration_from_unicode [80; 49; 68] = Ok US_DAY.
Proof. vm_compute. auto. Qed.
Example C08_ex_dur_suffix_rejected :
  duration_from_unicode (80 :: 84 :: str_nat 5 ++ 83 :: 32 :: []) = VFault
  /\ duration_from_unicode (80 :: 84 :: str_nat 5 ++ 83 :: []) = Ok 5000000.
Proof. vm_compute. auto. Qed.
Example C08_ex_boolean_roundtrip :
  boolean_from_unicode (boolean_to_unicode true) = true
  /\ boolean_from_unicode (boolean_to_unicode false) = false.
Proof. vm_compute. auto. Qed.
Example C08_ex_boolean_out_lex :
  boolean_to_unicode true = [116; 114; 117; 101] /\ xs_boolean [116; 114; 117; 101] = Some true.
Proof. vm_compute. auto. Qed.
(* "1" and "0" are xs:boolean literals the printer never writes *)
Example C08_ex_boolean_in_lex :
  xs_boolean [49] = Some true /\ boolean_from_unicode [49] = true
  /\ xs_boolean [48] = Some false /\ boolean_from_unicode [48] = false
  /\ xs_boolean [84; 114; 117; 101] = None.
Proof. vm_compute. auto 10. Qed.

