(** C05 — soft validation enforces exactly the declared constraints, identically in every protocol.
    Property theorems only. *)
From SpyneV Require Import Base.Digits Base.Ext C08.IntModel C08.DtModel C05.Valid C05.Proofs Gen.NumTypes.
From SpyneV Require Import C05.Facets Gen.FacetTypes C05.FacetModel C05.FacetProofs C05.ArrayModel C05.ArrayProofs.
From SpyneV Require Import Wire.Decimal C05.StepTypes Gen.C05Steps C05.StepModel C05.StepProofs.

(** validate_native of every fixed-width integer class — generated from the source — equals the
    specification for ALL customised attribute sets and ALL integers *)
Theorem C05_bounded_native_is_spec :
  Forall (fun '(signed, bits, T) =>
            forall a z, it_vn T a z = conforms_int (Fin (lo signed bits)) (Fin (hi signed bits)) a z)
         bounded_int_classes.
Proof. exact bounded_native_is_spec. Qed.

Theorem C05_integer_native_is_spec : forall a z,
  it_vn class_Integer a z = conforms_int NegInf PosInf a z.
Proof. exact integer_native_is_spec. Qed.

Theorem C05_unsigned_native_is_spec : forall a z,
  it_vn class_UnsignedInteger a z = conforms_int (Fin 0) PosInf a z.
Proof. exact unsigned_native_is_spec. Qed.

Theorem C05_none_native_is_spec :
  Forall (fun '(signed, bits, T) => forall a, it_vn_none T a = conforms_none a) bounded_int_classes.
Proof. exact none_native_is_spec. Qed.

(** text protocols: the text Spyne writes for z is accepted iff z conforms *)
Theorem C05_text_leaf_spec : forall T a z lo hi,
  (forall a z, it_vn T a z = conforms_int lo hi a z) ->
  it_vs T a (len (str_int z)) = true ->
  ext_leb (Fin (len (str_int z))) (na_max_str_len a) = true ->
  text_leaf T a (Some (integer_to_unicode z)) = if conforms_int lo hi a z then Ok (Some z) else VFault.
Proof. exact text_leaf_spec. Qed.

(** same logical request, same verdict over text and number protocols *)
Theorem C05_leaf_verdicts_agree : forall T a z lo hi,
  (forall a z, it_vn T a z = conforms_int lo hi a z) ->
  it_vs T a (len (str_int z)) = true ->
  ext_leb (Fin (len (str_int z))) (na_max_str_len a) = true ->
  is_ok (text_leaf T a (Some (integer_to_unicode z))) = is_ok (num_leaf T a (Some z)).
Proof. exact leaf_verdicts_agree. Qed.

Theorem C05_text_leaf_total : forall T a txt, is_crash (text_leaf T a txt) = false.
Proof. exact text_leaf_total. Qed.

(** occurrence constraints: same verdict over XML and dict documents, and exactly the declared bounds *)
Theorem C05_freq_verdicts_agree : forall decls items,
  keys_ok items -> xml_freq decls (expand items) = dict_freq decls items.
Proof. exact freq_verdicts_agree. Qed.

Theorem C05_dict_freq_spec : forall decls items,
  dict_freq decls items = true <->
  forall k mn mx, In (k, mn, mx) decls ->
    (mn <= dict_count k items)%Z /\ ext_leb (Fin (dict_count k items)) mx = true.
Proof. exact dict_freq_spec. Qed.

(** non-vacuity *)
Example C05_ex_leaf :
  let T := mk_int_type attrs_Integer8 validate_native_Integer8 validate_native_none_Integer8
             validate_string_Integer8 validate_string_none_Integer8 in
  text_leaf T attrs_Integer8 (Some (integer_to_unicode (-128))) = Ok (Some (-128)%Z)
  /\ text_leaf T attrs_Integer8 (Some (integer_to_unicode 128)) = VFault
  /\ num_leaf T attrs_Integer8 (Some 128%Z) = VFault.
Proof. vm_compute. auto. Qed.
Example C05_ex_freq :
  keys_ok [([120%Z], 3%Z); ([121%Z], 0%Z)]
  /\ xml_freq [([120%Z], 0%Z, Fin 2)] (expand [([120%Z], 3%Z); ([121%Z], 0%Z)]) = false
  /\ dict_freq [([120%Z], 0%Z, Fin 3)] [([120%Z], 3%Z)] = true.
Proof.
  cbn. repeat split; try discriminate; intros x m Hin;
    repeat (destruct Hin as [Hin|Hin]; [inversion Hin; reflexivity|]); try contradiction.
Qed.

(** ---------------------------------------------------------------- Unicode facets
    [class_Unicode] carries validate_string / validate_native of Unicode as GENERATED from the source;
    [fullm] is the regular expression engine ("the compiled pattern matches the whole string"). *)

(** together they decide exactly: min_len <= length in code points <= max_len, whole-string pattern,
    enumeration — for every attribute set, every regex oracle, every string *)
Theorem C05_unicode_checks_are_spec : forall fullm a s,
  st_vs class_Unicode a s && st_vn class_Unicode fullm a s = conforms_text fullm a s.
Proof. exact unicode_checks_are_spec. Qed.

Theorem C05_unicode_none_is_spec : forall a,
  st_vs_none class_Unicode a && st_vn_none class_Unicode a = sa_nillable a.
Proof. exact unicode_none_is_spec. Qed.

(** XML / SOAP element (an element without text holds the empty string), XML attribute, hierarchical
    dict documents (JSON, YAML, MessagePack) and the flat one (HttpRpc): each path delivers the string
    iff it conforms, and a Client.ValidationError otherwise *)
Theorem C05_text_paths_are_spec : forall fullm a,
  (forall txt, xml_elem_text class_Unicode fullm a false txt
               = verdict_text fullm a (match txt with None => [] | Some s => s end))
  /\ (forall s, xml_attr_text class_Unicode fullm a s = verdict_text fullm a s)
  /\ (forall s, hier_text class_Unicode fullm a (Some s) = verdict_text fullm a s)
  /\ (forall s, flat_text class_Unicode fullm a s = verdict_text fullm a s).
Proof. exact text_paths_are_spec. Qed.

(** the same string: the same verdict over all six protocols and at the attribute position *)
Theorem C05_text_verdicts_agree : forall fullm a s,
  xml_elem_text class_Unicode fullm a false (Some s) = hier_text class_Unicode fullm a (Some s)
  /\ xml_attr_text class_Unicode fullm a s = hier_text class_Unicode fullm a (Some s)
  /\ flat_text class_Unicode fullm a s = hier_text class_Unicode fullm a (Some s).
Proof. exact text_verdicts_agree. Qed.

(** null: xsi:nil over XML, null in a dict document — accepted iff nillable, identically *)
Theorem C05_text_null_verdicts_agree : forall fullm a txt,
  xml_elem_text class_Unicode fullm a true txt = hier_text class_Unicode fullm a None
  /\ hier_text class_Unicode fullm a None = verdict_none (sa_nillable a).
Proof. exact text_null_verdicts. Qed.

Theorem C05_text_paths_total : forall fullm a,
  (forall nil txt, is_crash (xml_elem_text class_Unicode fullm a nil txt) = false)
  /\ (forall v, is_crash (hier_text class_Unicode fullm a v) = false)
  /\ (forall s, is_crash (xml_attr_text class_Unicode fullm a s) = false)
  /\ (forall s, is_crash (flat_text class_Unicode fullm a s) = false).
Proof. exact text_paths_total. Qed.

(** ---------------------------------------------------------------- date/time range facets *)

(** DateTime.validate_native (generated) = the range facets as facets of the INSTANT, after the
    naive-value rule; all attribute sets, all values *)
Theorem C05_datetime_native_is_spec : forall a v, vn_DateTime a v = conforms_datetime a v.
Proof. exact datetime_native_is_spec. Qed.

(** a value without tzinfo is judged as the same wall-clock fields in spyne.LOCAL_TZ *)
Theorem C05_datetime_naive_rule : forall a d t,
  vn_DateTime a (mkdt d t None) = vn_DateTime a (mkdt d t (Some local_tz_minutes)).
Proof. exact datetime_naive_rule. Qed.

(** the same instant written with another UTC offset gets the same verdict *)
Theorem C05_datetime_verdict_of_instant : forall a v w,
  dt_off v <> None -> dt_off w <> None -> instant v = instant w -> vn_DateTime a v = vn_DateTime a w.
Proof. exact datetime_verdict_of_instant. Qed.

(** the instant orders values with the same offset exactly like their fields (what Python compares
    when both operands carry the same tzinfo) *)
Theorem C05_datetime_lex_instant : forall x y,
  valid_datetime x = true -> valid_datetime y = true -> dt_off x = dt_off y ->
  datetime_lex_ltb x y = (instant x <? instant y).
Proof. exact datetime_lex_instant. Qed.

(** Date (which inherits DateTime.validate_native) and Time: field-wise comparisons as coded = range
    facets over the day number / the microsecond of the day *)
Theorem C05_date_native_is_spec : forall a d,
  bounds_ok (fun d => valid_date d = true) a -> valid_date d = true ->
  vn_Date a d = conforms_range ordinal a d.
Proof. exact date_native_is_spec. Qed.

Theorem C05_time_native_is_spec : forall a t,
  bounds_ok (fun t => valid_tod t = true) a -> valid_tod t = true ->
  vn_Time a t = conforms_range tod_us a t.
Proof. exact time_native_is_spec. Qed.

(** the text Spyne writes for a value is accepted iff the value conforms (all six protocols carry
    date/time values as this text; reader = the C08 model) *)
Theorem C05_datetime_leaf_spec : forall a v, valid_datetime v = true ->
  datetime_doc_leaf a (Some (datetime_iso v)) = if conforms_datetime a v then Ok (Some v) else VFault.
Proof. exact datetime_doc_leaf_spec. Qed.

Theorem C05_date_leaf_spec : forall a d,
  bounds_ok (fun d => valid_date d = true) a -> valid_date d = true ->
  date_doc_leaf a (Some (date_iso d)) = if conforms_range ordinal a d then Ok (Some d) else VFault.
Proof. exact date_doc_leaf_spec. Qed.

Theorem C05_time_leaf_spec : forall a t,
  bounds_ok (fun t => valid_tod t = true) a -> valid_tod t = true ->
  time_doc_leaf a (Some (time_iso t)) = if conforms_range tod_us a t then Ok (Some t) else VFault.
Proof. exact time_doc_leaf_spec. Qed.

(** XML / SOAP path = dict-document path for every text, for an element without text and for null *)
Theorem C05_range_paths_agree : forall txt,
  (forall a, datetime_xml_leaf a false txt = datetime_doc_leaf a txt
             /\ datetime_xml_leaf a true txt = datetime_doc_leaf a None)
  /\ (forall a, date_xml_leaf a false txt = date_doc_leaf a txt /\ date_xml_leaf a true txt = date_doc_leaf a None)
  /\ (forall a, time_xml_leaf a false txt = time_doc_leaf a txt /\ time_xml_leaf a true txt = time_doc_leaf a None).
Proof. exact range_paths_agree. Qed.

(** non-vacuity *)
Example C05_ex_unicode :
  let a := {| sa_nillable := false; sa_min_len := 2; sa_max_len := Fin 3; sa_has_pattern := true; sa_values := [] |} in
  let lower := forallb (fun c => (97 <=? c) && (c <=? 122))%Z in
  xml_elem_text class_Unicode lower a false (Some [97; 98]%Z) = Ok (Some [97; 98]%Z)
  /\ xml_elem_text class_Unicode lower a false None = VFault            (* <x/> : the empty string *)
  /\ hier_text class_Unicode lower a (Some [97]%Z) = VFault             (* too short *)
  /\ flat_text class_Unicode lower a [97; 66]%Z = VFault                (* pattern *)
  /\ xml_attr_text class_Unicode lower a [97; 98; 99; 100]%Z = VFault   (* too long *)
  /\ hier_text class_Unicode lower a None = VFault                      (* not nillable *)
  /\ conforms_text lower a [97; 98; 99]%Z = true.
Proof. vm_compute. repeat split. Qed.

Example C05_ex_datetime :
  (* 2020-01-01T01:00+02:00 is 2019-12-31T23:00Z: before the bound although its fields are after it *)
  vn_DateTime ex_dt_attrs (ex_dt 2020 1 1 1 0 (Some 120%Z)) = false
  /\ vn_DateTime ex_dt_attrs (ex_dt 2019 12 31 23 0 (Some (-120)%Z)) = true
  /\ vn_DateTime ex_dt_attrs (ex_dt 2020 1 1 0 0 None) = true
  /\ instant (ex_dt 2020 1 1 2 0 (Some 120%Z)) = instant (ex_dt 2020 1 1 0 0 (Some 0%Z))
  /\ valid_datetime (ex_dt 2020 6 1 12 0 (Some 330%Z)) = true
  /\ datetime_doc_leaf ex_dt_attrs (Some (datetime_iso (ex_dt 2020 6 1 12 0 (Some 330%Z)))) = Ok (Some (ex_dt 2020 6 1 12 0 (Some 330%Z)))
  /\ datetime_xml_leaf ex_dt_attrs false (Some (datetime_iso (ex_dt 2021 1 1 0 0 (Some 0%Z)))) = VFault.
Proof. vm_compute. repeat split. Qed.

Example C05_ex_date_time :
  let da := {| ra_nillable := true; ra_gt := None; ra_ge := mkdate 2020 1 1; ra_lt := None; ra_le := mkdate 2020 12 31; ra_values := [] |} in
  let ta := {| ra_nillable := true; ra_gt := Some (mktod 9 0 0 0); ra_ge := mktod 0 0 0 0; ra_lt := None; ra_le := mktod 17 0 0 0; ra_values := [] |} in
  bounds_ok (fun d => valid_date d = true) da /\ bounds_ok (fun t => valid_tod t = true) ta
  /\ vn_Date da (mkdate 2020 2 29) = true /\ vn_Date da (mkdate 2021 1 1) = false
  /\ date_doc_leaf da (Some (date_iso (mkdate 2019 12 31))) = VFault
  /\ vn_Time ta (mktod 9 0 0 0) = false /\ vn_Time ta (mktod 9 0 0 1) = true
  /\ time_doc_leaf ta (Some (time_iso (mktod 17 0 0 0))) = Ok (Some (mktod 17 0 0 0))
  /\ ordinal (mkdate 2020 3 1) = (ordinal (mkdate 2020 2 28) + 2)%Z.
Proof.
  cbv zeta. split; [|split]; [| |vm_compute; repeat split];
    (split; [intros b Hb; try discriminate; inversion Hb; reflexivity|
     split; [reflexivity|split; [intros b Hb; try discriminate; inversion Hb; reflexivity|split; [reflexivity|constructor]]]]).
Qed.

(** ---------------------------------------------------------------- arrays: the array element vs its items *)

(** XML / SOAP and the hierarchical dict documents: the array element occurs within its own bounds and
    holds a number of items within the item type's bounds — for every declaration and every request *)
Theorem C05_array_occurrence_is_spec : forall d r,
  xml_array d r = conforms_array d r /\ hier_array d r = conforms_array d r.
Proof. exact array_occurrence_is_spec. Qed.

(** the flat notation (HttpRpc) shows only items: no pair means the array is missing *)
Theorem C05_flat_array_is_spec : forall d c, ad_wmax d = Fin 1 -> (ad_wmin d <= 1)%Z -> (0 <= c)%Z ->
  flat_array d c = conforms_array d (flat_request c).
Proof. exact flat_array_spec. Qed.

Theorem C05_array_verdicts_agree : forall d r,
  xml_array d r = hier_array d r
  /\ (forall c, ad_wmax d = Fin 1 -> (ad_wmin d <= 1)%Z -> (0 <= c)%Z -> flat_request c = r -> flat_array d c = xml_array d r).
Proof. exact array_verdicts_agree. Qed.

Example C05_ex_array :
  let d := {| ad_wmin := 1; ad_wmax := Fin 1; ad_mmin := 2; ad_mmax := Fin 3 |} in
  xml_array d None = false /\ hier_array d (Some 1%Z) = false /\ xml_array d (Some 2%Z) = true
  /\ flat_array d 3 = true /\ flat_array d 4 = false /\ flat_array d 0 = false
  /\ flat_array {| ad_wmin := 0; ad_wmax := Fin 1; ad_mmin := 2; ad_mmax := PosInf |} 0 = true.
Proof. vm_compute. repeat split. Qed.

(** ---------------------------------------------------------------- xsi:nil, xsi:type, enum, Decimal numbers
    The functions below are GENERATED statement by statement from the source (Gen/C05Steps.v). *)

(** an explicit xsi:nil under soft validation: accepted iff nillable, for every declared default and
    both settings of replace_null_with_default; what arrives is None or that default *)
Theorem C05_xml_nil_verdict : forall V nillable replace (default : option V),
  nil_verdict_ok nillable default (xml_nil true nillable replace default)
  /\ is_ok (xml_nil true nillable replace default) = nillable.
Proof. exact xml_nil_verdicts. Qed.

(** xsi:type never changes the class a primitive or an Array is read and validated as; the named
    class is used only for a proper subclass of a declared complex type; no exception escapes *)
Theorem C05_xsi_target_keeps_declared : forall q c,
  must_stay_declared q = true -> xsi_target q = Ok c -> c = Declared.
Proof. exact xsi_target_keeps_declared. Qed.
Theorem C05_xsi_target_named : forall q, xsi_target q = Ok Named ->
  xq_same_orig q = false /\ xq_sup_is_complex q = true /\ xq_sup_is_array q = false /\ xq_sub_extends_sup q = true.
Proof. exact xsi_target_named. Qed.
Theorem C05_xsi_target_total : forall q, is_crash (xsi_target q) = false.
Proof. exact xsi_target_total. Qed.

(** enumerated types, validator='soft': both readers (dict documents / HttpRpc / XML attributes, and XML
    elements) accept exactly the declared names and deliver the member of that name *)
Theorem C05_enum_readers_are_spec : forall M (class_attr : text -> M) nillable values ov,
  enum_from_bytes class_attr true nillable values ov = enum_spec class_attr values ov
  /\ enum_from_element class_attr true nillable values ov = enum_spec class_attr values ov.
Proof. exact enum_readers_are_spec. Qed.
Theorem C05_enum_readers_agree : forall M (class_attr : text -> M) nillable values ov,
  enum_from_bytes class_attr true nillable values ov = enum_from_element class_attr true nillable values ov
  /\ (forall m, enum_from_bytes class_attr true nillable values ov = Ok m ->
        exists v, ov = Some v /\ In v values /\ m = class_attr v).
Proof. exact enum_readers_agree'. Qed.

(** Decimal.validate_native (generated) over Python's Decimal order = the range facets on numbers;
    the verdict depends on the number, not on its representation *)
Theorem C05_decimal_native_is_spec : forall a d, vn_Decimal a d = conforms_decimal a d.
Proof. exact decimal_native_is_spec. Qed.
Theorem C05_decimal_verdict_of_number : forall a d e, same_num d e -> conforms_decimal a d = conforms_decimal a e.
Proof. exact conforms_same_num. Qed.
Theorem C05_decimal_text_leaf_spec : forall a m d, (0 <= d_coef d)%Z -> ext_leb (Fin (len (dec_str d))) m = true ->
  decimal_text_leaf a m (dec_str d) = if conforms_decimal a d then Ok d else VFault.
Proof. exact decimal_text_leaf_spec. Qed.
(** text path = number path: a decimal sent as a JSON / YAML / MessagePack NUMBER gets the verdict its
    text gets over XML / SOAP / HttpRpc, given that str() of the number the sender wrote denotes that
    decimal (CPython's shortest repr).  Proved over the conversion read from the source on every run. *)
Theorem C05_decimal_number_is_text : forall (num : Type) (py_str : num -> text) (py_exact : num -> dec)
    (sender : dec -> num) (sendable : dec -> Prop),
  (forall d, sendable d -> exists d', dec_parse (py_str (sender d)) = Some d' /\ same_num d' d) ->
  forall a m d, sendable d -> (0 <= d_coef d)%Z ->
  ext_leb (Fin (len (dec_str d))) m = true -> ext_leb (Fin (len (py_str (sender d)))) m = true ->
  same_verdict (decimal_number_leaf py_str py_exact a m (sender d)) (decimal_text_leaf a m (dec_str d))
  /\ is_ok (decimal_number_leaf py_str py_exact a m (sender d)) = conforms_decimal a d.
Proof. exact decimal_number_is_text. Qed.

Example C05_ex_steps :
  xml_nil true false true (Some 5%Z) = VFault /\ xml_nil true true true (Some 5%Z) = Ok (Some 5%Z)
  /\ xml_nil true true false (Some 5%Z) = Ok None
  /\ xsi_target {| xq_same_orig := true; xq_sup_is_array := false; xq_names_differ := true; xq_sup_is_complex := false;
                   xq_sub_extends_sup := true |} = Ok Declared
  /\ xsi_target {| xq_same_orig := false; xq_sup_is_array := false; xq_names_differ := true; xq_sup_is_complex := false;
                   xq_sub_extends_sup := true |} = VFault
  /\ xsi_target {| xq_same_orig := false; xq_sup_is_array := false; xq_names_differ := true; xq_sup_is_complex := true;
                   xq_sub_extends_sup := true |} = Ok Named
  /\ enum_from_bytes (fun v => v) true true [[114; 101; 100]%Z] (Some [114; 101; 100]%Z) = Ok [114; 101; 100]%Z
  /\ enum_from_element (fun v => v) true true [[114; 101; 100]%Z] (Some [86; 97; 108; 117; 101]%Z) = VFault.
Proof. vm_compute. repeat split. Qed.

(** the hypotheses of C05_decimal_number_is_text are satisfiable: numbers that are decimals themselves *)
Example C05_ex_decimal :
  (forall d, (0 <= d_coef d)%Z -> exists d', dec_parse (dec_str ((fun x : dec => x) d)) = Some d' /\ same_num d' d)
  /\ decimal_text_leaf (ex_dec_attrs DPosInf (DFin (mkdec false 1 (-1)))) (Fin 1024) (dec_str (mkdec false 1 (-1)))
     = Ok (mkdec false 1 (-1))                                         (* le = 0.1 accepts 0.1 *)
  /\ decimal_text_leaf (ex_dec_attrs (DFin (mkdec false 3 (-1))) DPosInf) (Fin 1024) (dec_str (mkdec false 3 (-1)))
     = VFault                                                          (* lt = 0.3 refuses 0.3 *)
  /\ conforms_decimal (ex_dec_attrs (DFin (mkdec false 3 (-1))) DPosInf) (mkdec false 30 (-2)) = false   (* and 0.30 *)
  /\ decimal_number_reader = ViaShortestText.
Proof.
  split; [intros d Hd; exists d; split; [apply C02.DecimalProofs.dec_roundtrip; exact Hd|apply same_num_refl]|].
  vm_compute. repeat split.
Qed.

(** ---------------------------------------------------------------- element members vs attribute members *)
(** occurrence of the members of one element: element members are judged by the child elements alone,
    attribute members by the attributes alone; nodes of the other kind with the same name never matter *)
Theorem C05_member_freq_by_kind : forall decls children attrs,
  xml_member_freq decls children attrs
  = xml_freq (of_kind false decls) children && xml_freq (of_kind true decls) attrs.
Proof. exact xml_member_freq_by_kind. Qed.
Theorem C05_stray_nodes_irrelevant : forall decls children attrs children' attrs',
  (forall k, In k (map (fun d : occ_decl => fst (fst d)) (of_kind false decls)) -> count_name k children' = count_name k children) ->
  (forall k, In k (map (fun d : occ_decl => fst (fst d)) (of_kind true decls)) -> count_name k attrs' = count_name k attrs) ->
  xml_member_freq decls children' attrs' = xml_member_freq decls children attrs.
Proof. exact stray_nodes_irrelevant. Qed.
Example C05_ex_member_freq :
  let decls := [([99]%Z, false, 1%Z, Fin 1); ([107]%Z, true, 1%Z, Fin 1)] in
  xml_member_freq decls [] [[99]%Z; [107]%Z] = false            (* attribute 'c' is not element 'c' *)
  /\ xml_member_freq decls [[99]%Z] [[99]%Z; [107]%Z] = true    (* one element, a stray attribute *)
  /\ xml_member_freq decls [[99]%Z; [107]%Z] [] = false         (* child 'k' is not attribute 'k' *)
  /\ xml_member_freq decls [[99]%Z; [107]%Z] [[107]%Z] = true.
Proof. vm_compute. repeat split. Qed.
