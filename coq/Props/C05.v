(** C05 — soft validation enforces exactly the declared constraints, identically in every protocol.
    Property theorems only. *)
From SpyneV Require Import Base.Digits Base.Ext C08.IntModel C05.Valid C05.Proofs Gen.NumTypes.

(** validate_native of every fixed-width integer class — generated from the source — equals the
    specification for ALL customised attribute sets and ALL integers *)
Theorem C05_bounded_native_is_spec :
  Forall (fun '(signed, bits, T) =>
            forall a z, it_vn T a z = conforms_int (Fin (lo signed bits)) (Fin (hi signed bits)) a z)
         bounded_int_classes.
Proof. exact bounded_native_is_spec. Qed.

Theorem C05_integer_native_is_spec : forall a z,
  it_vn class_Integer a z = conforms_int NegInf PosInf a z.
Proof. exact integer_native_is_spec. Qed.

Theorem C05_unsigned_native_is_spec : forall a z,
  it_vn class_UnsignedInteger a z = conforms_int (Fin 0) PosInf a z.
Proof. exact unsigned_native_is_spec. Qed.

Theorem C05_none_native_is_spec :
  Forall (fun '(signed, bits, T) => forall a, it_vn_none T a = conforms_none a) bounded_int_classes.
Proof. exact none_native_is_spec. Qed.

(** text protocols: the text Spyne writes for z is accepted iff z conforms *)
Theorem C05_text_leaf_spec : forall T a z lo hi,
  (forall a z, it_vn T a z = conforms_int lo hi a z) ->
  it_vs T a (len (str_int z)) = true ->
  ext_leb (Fin (len (str_int z))) (na_max_str_len a) = true ->
  text_leaf T a (Some (integer_to_unicode z)) = if conforms_int lo hi a z then Ok (Some z) else VFault.
Proof. exact text_leaf_spec. Qed.

(** same logical request, same verdict over text and number protocols *)
Theorem C05_leaf_verdicts_agree : forall T a z lo hi,
  (forall a z, it_vn T a z = conforms_int lo hi a z) ->
  it_vs T a (len (str_int z)) = true ->
  ext_leb (Fin (len (str_int z))) (na_max_str_len a) = true ->
  is_ok (text_leaf T a (Some (integer_to_unicode z))) = is_ok (num_leaf T a (Some z)).
Proof. exact leaf_verdicts_agree. Qed.

Theorem C05_text_leaf_total : forall T a txt, is_crash (text_leaf T a txt) = false.
Proof. exact text_leaf_total. Qed.

(** occurrence constraints: same verdict over XML and dict documents, and exactly the declared bounds *)
Theorem C05_freq_verdicts_agree : forall decls items,
  keys_ok items -> xml_freq decls (expand items) = dict_freq decls items.
Proof. exact freq_verdicts_agree. Qed.

Theorem C05_dict_freq_spec : forall decls items,
  dict_freq decls items = true <->
  forall k mn mx, In (k, mn, mx) decls ->
    (mn <= dict_count k items)%Z /\ ext_leb (Fin (dict_count k items)) mx = true.
Proof. exact dict_freq_spec. Qed.

(** non-vacuity *)
Example C05_ex_leaf :
  let T := mk_int_type attrs_Integer8 validate_native_Integer8 validate_native_none_Integer8
             validate_string_Integer8 validate_string_none_Integer8 in
  text_leaf T attrs_Integer8 (Some (integer_to_unicode (-128))) = Ok (Some (-128)%Z)
  /\ text_leaf T attrs_Integer8 (Some (integer_to_unicode 128)) = VFault
  /\ num_leaf T attrs_Integer8 (Some 128%Z) = VFault.
Proof. vm_compute. auto. Qed.
Example C05_ex_freq :
  keys_ok [([120%Z], 3%Z); ([121%Z], 0%Z)]
  /\ xml_freq [([120%Z], 0%Z, Fin 2)] (expand [([120%Z], 3%Z); ([121%Z], 0%Z)]) = false
  /\ dict_freq [([120%Z], 0%Z, Fin 3)] [([120%Z], 3%Z)] = true.
Proof.
  cbn. repeat split; try discriminate; intros x m Hin;
    repeat (destruct Hin as [Hin|Hin]; [inversion Hin; reflexivity|]); try contradiction.
Qed.
