(** C03 — source tie: the deciding tokens of spyne/protocol/dictdoc/simple.py,
    spyne/model/complex.py (get_simple_type_info_with_prot) and spyne/server/wsgi.py (_parse_qs),
    re-read from the working tree on every run, are the ones of the model the theorems of
    Props/C03.v are about.  Property theorem only. *)
From Coq Require Import ZArith List Bool.
From SpyneV Require Import Base.Prelude C03.Model C03.Spec C03.SourceIdioms Gen.FlatKeys C03.SourceTie.
Import ListNotations.
Open Scope Z_scope.

Theorem C03_source_tie :
  (forall m nidx, src_s2cmi m nidx = s2cmi m nidx) /\
  src_re_array_index = RE_TREE /\
  (forall a b, src_strict_reject a b = (a >? b)) /\
  (forall a b, src_strict_append a b = (a =? b)) /\
  src_empty_read = EMPTY /\ src_empty_written = EMPTY /\
  src_index_format = [37; 115; 91; 37; 100; 93] /\
  src_qs_separators = [38; 59] /\ (forall s, src_qs_cut s = split_eq s []) /\ src_qs_plus = (43, 32) /\
  src_header_date_format = [37; 115; 44; 32; 37; 48; 50; 100; 32; 37; 115; 32; 37; 48; 52; 100; 32; 37; 48; 50; 100; 58; 37; 48; 50; 100; 58; 37; 48; 50; 100; 32; 71; 77; 84] /\   (* %s, %02d %s %04d %02d:%02d:%02d GMT *)
  src_weekday = WEEKDAY /\ src_month = MONTH /\
  (forall parts, src_natural_key_conv parts = conv_slice parts).
Proof. exact source_tie. Qed.

(** non-vacuity: the generated _s2cmi is the documented one (doctest of the source) *)
Example C03_ex_src_s2cmi : src_s2cmi [(3, 0); (4, 1); (7, 2)] 5 = ([(3, 0); (4, 1); (7, 3); (5, 2)], 2).
Proof. vm_compute. reflexivity. Qed.
