(** C01 — XML/SOAP wire fidelity, object level, on the universe of C01/Univ.v: primitive members
    of any leaf type (integer family with customised Attributes, Unicode, Boolean, ByteArray, Date,
    Time, DateTime, Duration, any other primitive with a lossless text codec), XmlAttribute and
    XmlData members, wrapped arrays, max_occurs > 1 members, inheritance.
    Property theorems only; each closed by [exact] of a lemma of C01/XmlXProofs.v / LeafXProofs.v
    over the model C01/XmlX.v. *)
From SpyneV Require Import C01.Univ C01.XmlX C01.LeafX C01.XmlXProofs C01.LeafXProofs.
From SpyneV Require Import Gen.NumTypes.

(** XmlDocument.from_element after XmlDocument.to_parent and an lxml serialise/parse cycle ([wire])
    returns exactly [norm v]: for every leaf codec that is lossless on its declared domain
    ([leaf_sound]), every well-formed universe, every declared type, every value that conforms to it
    under the published schema ([xconf], at a fuel that covers its depth), with and without
    validator='soft' ([x_soft C]), for every element name and namespace; a value that is written
    as an element without content needs a nillable position when validation is soft. *)
Theorem C01_xmlx_rt : forall (L : leaf_codec) (C : xcfg) (U : universe),
  leaf_sound L -> wf_universe U = true ->
  forall n t v ns name nillable, xconf L U n t v = true ->
    (nonelike v = true -> x_soft C && negb nillable = false) ->
    exists e, enc L U n t ns name v = Ok e
              /\ dec L C U n t nillable (wire e) = Ok (norm U n t v).
Proof. exact xmlx_rt. Qed.

(** Spyne's own primitive codecs, as modelled for C08, are lossless on the declared domains, pass
    their own soft validation there, and print only '' and b'' as the empty string *)
Theorem C01_leaf_sound : leaf_sound spyne_leaf.
Proof. exact spyne_leaf_sound. Qed.

(** ... so that no hypothesis is left but well-formedness of the universe and conformance of the value *)
Theorem C01_xmlx_rt_spyne : forall (soft : bool) (U : universe),
  wf_universe U = true ->
  forall n t v ns name nillable, xconf spyne_leaf U n t v = true ->
    (nonelike v = true -> soft && negb nillable = false) ->
    exists e, enc spyne_leaf U n t ns name v = Ok e
              /\ dec spyne_leaf (cfg soft) U n t nillable (wire e) = Ok (norm U n t v).
Proof. exact xmlx_rt_spyne. Qed.

(** non-vacuity: a simpleContent class (XmlData(Unicode) + a required XmlAttribute(Date)), a class
    with a bounded customised integer (UnsignedInteger8(ge=1), sub_name and sub_ns), a ByteArray (sub_name), a max_occurs=3 DateTime
    member and a wrapped array of the first class, and its subclass with a Duration; the value holds
    an empty string as XmlData, an empty byte string, an empty sequence, a negative offset with
    minutes, a microsecond-only duration *)
Definition lt_u8 : ltype :=
  mkltype (SInt (mk_int_type attrs_UnsignedInteger8 validate_native_UnsignedInteger8 validate_native_none_UnsignedInteger8
                             validate_string_UnsignedInteger8 validate_string_none_UnsignedInteger8)
                {| na_nillable := true; na_gt := NegInf; na_ge := Fin 1; na_lt := PosInf; na_le := PosInf;
                   na_values := []; na_max_str_len := Fin 3; na_min_bound := Some 0; na_max_bound := Some 255 |}) [].
Definition lt_of (s : lspec) : ltype := mkltype s [120].
Definition ex_U : universe :=
  [ mkcls [117] [65] None
      [ mkfield [100] (TLeaf (lt_of SText)) 0 (Some 1) true KData None None;
        mkfield [119] (TLeaf (lt_of SDate)) 1 (Some 1) true KAttr None None ];
    mkcls [117] [66] None
      [ mkfield [110] (TLeaf lt_u8) 1 (Some 1) true KElem (Some [105; 100]) (Some [117; 114; 110; 58; 119]);   (* n, on the wire {urn:w}id *)
        mkfield [98] (TLeaf (lt_of SBytes)) 0 (Some 1) true KElem (Some [98; 50]) None;                        (* b, on the wire b2 *)
        mkfield [116] (TLeaf (lt_of SDateTime)) 0 (Some 3) true KElem None None;
        mkfield [97] (TArr (TRef 0%nat) [117] [65]) 0 (Some 1) true KElem None None ];
    mkcls [118] [67] (Some 1%nat)
      [ mkfield [112] (TLeaf (lt_of SDur)) 0 (Some 1) false KElem None None ] ].
Definition ex_v : val :=
  VObj 2%nat [ VLeaf (LInt 255); VLeaf (LBytes []); VList [];
               VList [VObj 0%nat [VLeaf (LText []); VLeaf (LDate (mkdate 2024 2 29))]; VNone];
               VLeaf (LDur 5) ].
Example C01_ex_xmlx :
  wf_universe ex_U = true
  /\ xconf spyne_leaf ex_U 6 (TRef 2%nat) ex_v = true
  /\ norm ex_U 6 (TRef 2%nat) ex_v <> ex_v
  /\ (forall soft, match enc spyne_leaf ex_U 6 (TRef 2%nat) [118] [67] ex_v with
                   | Ok e => out_eqb val_eqb (dec spyne_leaf (cfg soft) ex_U 6 (TRef 2%nat) true (wire e))
                                     (Ok (norm ex_U 6 (TRef 2%nat) ex_v))
                   | _ => false
                   end = true)
  /\ xconf spyne_leaf ex_U 6 (TLeaf (lt_of SDateTime))
           (VLeaf (LDateTime (mkdt (mkdate 2024 2 29) (mktod 23 59 59 1) (Some (-30))))) = true.
Proof.
  split; [vm_compute; reflexivity|]. split; [vm_compute; reflexivity|].
  split; [vm_compute; discriminate|]. split; [intros [|]; vm_compute; reflexivity|vm_compute; reflexivity].
Qed.
