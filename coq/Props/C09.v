From SpyneV Require Import Base.Prelude Gen.FaultTables C09.Model.
