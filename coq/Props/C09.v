(** C09 — faults arrive intact, are classified correctly and never leak internals.
    Property theorems only; each closed by a lemma of C09/Proofs.v.  The model (C09/Model.v) is
    interpreted over tables regenerated from the Spyne sources on every run (Gen/FaultTables.v):
    the class table of spyne/error.py, the fault_to_http_response_code chains, the fault string
    function, the try/except skeleton of Application.process_request and the except clauses of
    WsgiApplication.handle_rpc / the status rule of handle_error. *)
From Coq Require Import ZArith List Bool String.
From SpyneV Require Import Base.Prelude Gen.FaultTables C09.Model C09.Proofs.
Open Scope Z_scope.

(* ------------------------------------------------------------------ the funnel and the transport *)

(** The response of the WSGI transport is a function of the output protocol and of the FIRST thing
    user code raises (from a method_call listener, the method body, a method_return_object listener,
    or the generator the method returned — before or after its first item): it is [handle_error]
    applied to the raised Fault itself, or to the one constant fault for any non-Fault exception.
    For every protocol, chunked or not, except the one streamed configuration (see
    [C09_streamed_response]). *)
Theorem C09_response_determined_by_first_raise : forall p ch u r,
  first_raise u = Some r -> not_redirect r -> streamed p ch u = false ->
  handle_rpc p ch u = handle_error p None (reported r).
Proof. exact handle_rpc_first_raise. Qed.

(** ... hence neither the return value, nor the site, nor anything else user code did matters:
    the method's return value is not sent. *)
Theorem C09_no_return_on_fault : forall p ch u u' r,
  first_raise u = Some r -> first_raise u' = Some r -> not_redirect r ->
  streamed p ch u = false -> streamed p ch u' = false ->
  handle_rpc p ch u = handle_rpc p ch u'.
Proof. exact no_return_on_fault. Qed.

(** Non-interference: ANY two non-Fault exceptions (whatever their type, text, traceback, site, and
    whatever the methods would have returned) produce the same response, it is status 500 with the
    serialisation of the constant fault Server / "Internal Error" (no detail), and it reads back as
    exactly that under every protocol. *)
Theorem C09_no_leak : forall p ch u1 u2 e1 e2,
  first_raise u1 = Some (RExn e1) -> first_raise u2 = Some (RExn e2) ->
  streamed p ch u1 = false -> streamed p ch u2 = false ->
  handle_rpc p ch u1 = handle_rpc p ch u2 /\
  exists w, handle_rpc p ch u1 = Ok (500, w) /\ enc_fault p internal_error = Ok w /\
            dec_fault p w = Some {| o_code := t "Server"; o_string := t "Internal Error"; o_detail := None |}.
Proof. exact no_leak. Qed.

(** A raised Fault is reported as itself: status from the documented table, body its own serialisation. *)
Theorem C09_fault_reported : forall p ch u f st w,
  first_raise u = Some (RFault f) -> isinstance f E_Redirect = false -> streamed p ch u = false ->
  handle_rpc p ch u = Ok (st, w) -> st = documented_status p f /\ enc_fault p f = Ok w.
Proof. exact fault_reported. Qed.

(** The streamed configuration (chunked transport, a protocol that hands the chunks of a generator
    result through, the generator raising after its first item): status 200 and the first chunk of
    the return value are on the wire before anything is found out; whatever was raised — Fault or
    not — is not reported, and nothing of it is in the response either. *)
Theorem C09_streamed_response : forall p u, streamed p true u = true ->
  exists v r, u_body u = inr (RGen v (Some r)) /\ first_raise u = Some r /\
              handle_rpc p true u = Ok (200, WPartial v).
Proof. exact streamed_response. Qed.

(** ... which refutes the unguarded statement (known finding); the same request is answered with the
    fault when the application is served with chunked=False. *)
Theorem C09_streaming_refuted : exists u f v,
  first_raise u = Some (RFault f) /\ isinstance f E_Redirect = false /\
  handle_rpc PHttpRpc true u = Ok (200, WPartial v) /\
  handle_rpc PHttpRpc true u <> handle_error PHttpRpc None f /\
  handle_rpc PHttpRpc false u = handle_error PHttpRpc None f.
Proof. exact streaming_refuted. Qed.

(* ------------------------------------------------------------------ classification *)

(** The generated [fault_to_http_response_code] chain IS the documented table (413/404/405/401 for
    the dedicated classes and their subclasses, 400 iff the code is Client or starts with "Client.",
    500 otherwise; always 500 for SOAP), for every fault and protocol. *)
Theorem C09_status_table : forall p f, http_code p f = documented_status p f.
Proof. exact http_code_documented. Qed.

(** Every class of spyne/error.py raised with its own CODE gets a 4xx status iff its CODE is a Client code. *)
Theorem C09_builtin_classes_classified : forall c code s a d l,
  ecls_code c = Some code -> c <> E_Redirect ->
  let f := Build_fault c code s a d l in
  (client_code code = true -> 400 <= http_code PXml f < 500) /\
  (client_code code = false -> http_code PXml f = 500).
Proof. exact builtin_classified. Qed.

(* ------------------------------------------------------------------ intact on the wire *)

(** Intact through JSON, YAML, MessagePack and msgpack-rpc documents: every code, message and nested
    detail, exactly. *)
Theorem C09_fault_intact_dict : forall p f, is_dict_prot p = true ->
  exists w, enc_fault p f = Ok w /\ dec_fault p w = Some (expected_obs p f).
Proof. exact fault_intact_dict. Qed.

(** Intact through XmlDocument and SOAP 1.1 for every fault XML 1.0 can carry (any dotted code; the
    QName prefix is dropped by the reader; inside the detail None, "" and {} are one empty element). *)
Theorem C09_fault_intact_xml11 : forall p f, is_xml11_prot p = true -> xml_fault_ok f = true ->
  exists w, enc_fault p f = Ok w /\ dec_fault p w = Some (expected_obs p f).
Proof. exact fault_intact_xml11. Qed.

(** Intact through SOAP 1.2 (repaired serialiser) for every code whose first segment is Client or
    Server, with any number of dotted sub-codes, and a detail dict of any size. *)
Theorem C09_fault_intact_soap12 : forall f, xml_fault_ok f = true -> soap12_code_ok (f_code f) = true ->
  exists w, enc_fault PSoap12 f = Ok w /\ dec_fault PSoap12 w = Some (expected_obs PSoap12 f).
Proof. exact fault_intact_soap12. Qed.

(** HttpRpc (text/plain, "code LF LF message"): code and message intact exactly when the code cannot
    be mistaken for the separator ... *)
Theorem C09_fault_intact_httprpc_partial : forall f, has_blank (f_code f ++ [10]) = false ->
  exists w, enc_fault PHttpRpc f = Ok w /\
            dec_fault PHttpRpc w = Some {| o_code := f_code f; o_string := f_string f; o_detail := None |}.
Proof. exact fault_intact_httprpc_exact. Qed.

(** ... but the detail never leaves the server (known finding). *)
Theorem C09_httprpc_detail_refuted : exists f w,
  enc_fault PHttpRpc f = Ok w /\ f_detail f <> None /\
  forall o, dec_fault PHttpRpc w = Some o -> o_detail o = None.
Proof. exact httprpc_detail_refuted. Qed.

(** A fault XML cannot carry produces no response at all under the XML protocols (known finding). *)
Theorem C09_xml_unrepresentable_refuted : exists f,
  xml_fault_ok f = false /\
  forall p ch, is_xml_prot p = true -> handle_rpc p ch (wit_body f) = Crash ValueError.
Proof. exact xml_unrepresentable_refuted. Qed.

(* ------------------------------------------------------------------ Spyne's own client (loopback) *)

(** SOAP 1.1 keeps everything (the code keeps its QName prefix) ... *)
Theorem C09_loopback_soap11 : forall f, xml_fault_ok f = true -> f_string f <> [] ->
  exists w, enc_fault PSoap11 f = Ok w /\
            client_in_error PSoap11 w =
            Some {| o_code := pre11 ++ colon :: f_code f; o_string := f_string f;
                    o_detail := xnorm_detail (f_detail f) |}.
Proof. exact loopback_soap11_nonempty. Qed.

(** ... msgpack-rpc (repaired reader) keeps everything exactly ... *)
Theorem C09_loopback_msgpackrpc : forall f, f_string f <> [] ->
  exists w, enc_fault PMsgpackRpc f = Ok w /\ client_in_error PMsgpackRpc w = Some (expected_obs PMsgpackRpc f).
Proof. exact loopback_msgpackrpc_nonempty. Qed.

(** ... SOAP 1.2 (repaired reader) keeps code (first segment as the env-prefixed Sender/Receiver) and
    detail, and the message when it has no leading/trailing white space ... *)
Theorem C09_loopback_soap12_partial : forall f,
  xml_fault_ok f = true -> soap12_code_ok (f_code f) = true ->
  strip (f_string f) = f_string f -> f_string f <> [] ->
  exists w, enc_fault PSoap12 f = Ok w /\
            client_in_error PSoap12 w =
            Some {| o_code := client_code12 f; o_string := f_string f; o_detail := xnorm_detail (f_detail f) |}.
Proof. exact loopback_soap12_unpadded. Qed.

(** ... and strips it otherwise (known finding): what arrives is exactly [strip] of the message. *)
Theorem C09_loopback_soap12_stripped : forall f,
  xml_fault_ok f = true -> soap12_code_ok (f_code f) = true -> strip (f_string f) <> [] ->
  exists w o, enc_fault PSoap12 f = Ok w /\ client_in_error PSoap12 w = Some o /\
              o_string o = strip (f_string f).
Proof. exact loopback_soap12_stripped. Qed.

Theorem C09_loopback_soap12_strip_refuted : exists f w o,
  enc_fault PSoap12 f = Ok w /\ client_in_error PSoap12 w = Some o /\ o_string o <> f_string f.
Proof. exact loopback_soap12_strip_refuted. Qed.

(* ------------------------------------------------------------------ non-vacuity *)
(** The hypotheses are met by concrete non-trivial instances, through every site. *)
Definition ex_fault : fault :=
  {| f_root := E_RespawnError; f_code := t "Client.ResourceNotFound.a.b"; f_string := [104; 233; 19990; 128512];
     f_actor := []; f_detail := Some [(t "a", DStr (t "x")); (t "b", DDict [(t "c", DNone); (t "d", DDict [])])];
     f_lang := t "en" |}.
Definition ex_secret : pyexn := {| px_type := t "ValueError"; px_text := t "secret" |}.
Definition ex_lazy : ucode :=
  {| u_call := None; u_body := inr (RGen (t "first") (Some (RFault ex_fault))); u_ret := None |}.
Definition ex_first : ucode :=
  {| u_call := None; u_body := inr (RGen0 (RFault ex_fault)); u_ret := None |}.
Definition ex_listener : ucode :=
  {| u_call := Some (RFault ex_fault); u_body := inr (RPlain (t "never computed")); u_ret := None |}.
Definition ex_after : ucode :=
  {| u_call := None; u_body := inr (RPlain (t "the return value")); u_ret := Some (RExn ex_secret) |}.
Definition ex_lazy_exn : ucode :=
  {| u_call := None; u_body := inr (RGen (t "first") (Some (RExn {| px_type := t "KeyError"; px_text := t "other" |})));
     u_ret := None |}.

(** the guard [streamed = false] leaves 15 of the 16 (protocol, chunked) configurations for a late
    generator failure, and all 16 for every other site *)
Example C09_ex_response_determined_by_first_raise :
  first_raise ex_lazy = Some (RFault ex_fault) /\ not_redirect (RFault ex_fault) /\
  map (fun p => (streamed p true ex_lazy, streamed p false ex_lazy)) all_prots
  = [(false, false); (false, false); (false, false); (false, false); (false, false); (false, false);
     (false, false); (true, false)] /\
  first_raise ex_first = Some (RFault ex_fault) /\
  forallb (fun p => negb (streamed p true ex_first)) all_prots = true /\
  map (fun p => match handle_rpc p true ex_first with Ok (st, _) => st | _ => 0 end) all_prots
  = [500; 500; 404; 404; 404; 404; 404; 404].
Proof. vm_compute. repeat split. Qed.

Example C09_ex_no_return_on_fault :
  first_raise ex_lazy = first_raise ex_listener /\ first_raise ex_listener = first_raise ex_first /\
  ex_lazy <> ex_listener /\ streamed PJson true ex_lazy = false /\ streamed PJson true ex_listener = false /\
  handle_rpc PJson true ex_lazy = handle_rpc PJson true ex_listener.
Proof. vm_compute. repeat split. discriminate. Qed.

Example C09_ex_no_leak :
  first_raise ex_after = Some (RExn ex_secret) /\ px_text ex_secret = t "secret" /\
  (exists e, first_raise ex_lazy_exn = Some (RExn e) /\ e <> ex_secret) /\
  streamed PJson true ex_after = false /\ streamed PJson true ex_lazy_exn = false /\
  handle_rpc PJson true ex_after = Ok (500, WDoc (JDict [(t "faultcode", JStr (t "Server"));
                                                         (t "faultstring", JStr (t "Internal Error"))])).
Proof. vm_compute. repeat split. eexists. split; [reflexivity | discriminate]. Qed.

Example C09_ex_fault_reported :
  first_raise ex_lazy = Some (RFault ex_fault) /\ isinstance ex_fault E_Redirect = false /\
  map (fun p => match handle_rpc p false ex_lazy with Ok (st, _) => st | _ => 0 end) all_prots
  = [500; 500; 404; 404; 404; 404; 404; 404] /\
  (match handle_rpc PSoap12 true ex_lazy with Ok (_, w) => dec_fault PSoap12 w | _ => None end)
  = Some (expected_obs PSoap12 ex_fault).
Proof. vm_compute. repeat split. Qed.

Example C09_ex_streamed_response :
  streamed PHttpRpc true ex_lazy = true /\ handle_rpc PHttpRpc true ex_lazy = Ok (200, WPartial (t "first")) /\
  streamed PHttpRpc true ex_lazy_exn = true.
Proof. vm_compute. repeat split. Qed.

Example C09_ex_status_table :
  length http_isinstance_chain = 4%nat /\ length funnel_handlers = 3%nat /\
  length wsgi_serialise_handlers = 2%nat /\ length wsgi_first_item_handlers = 2%nat /\
  http_code PJson (Build_fault E_Fault (t "Client") (t "m") [] None (t "en")) = 400 /\
  http_code PJson (Build_fault E_Fault (t "Clientele") (t "m") [] None (t "en")) = 500 /\
  http_code PJson (Build_fault E_RequestTooLongError (t "Server") (t "m") [] None (t "en")) = 413 /\
  http_code PSoap11 (Build_fault E_RequestTooLongError (t "Client") (t "m") [] None (t "en")) = 500.
Proof. vm_compute. repeat split. Qed.

Example C09_ex_builtin_classes_classified :
  ecls_code E_MissingFieldError = Some (t "Client.InvalidInput") /\ E_MissingFieldError <> E_Redirect /\
  client_code (t "Client.InvalidInput") = true /\
  http_code PXml (Build_fault E_MissingFieldError (t "Client.InvalidInput") (t "m") [] None (t "en")) = 400 /\
  ecls_code E_InternalError = Some (t "Server") /\ client_code (t "Server") = false.
Proof. vm_compute. repeat split. discriminate. Qed.

Example C09_ex_fault_intact_dict :
  forallb is_dict_prot [PJson; PYaml; PMsgpack; PMsgpackRpc] = true /\
  (match enc_fault PJson ex_fault with Ok w => dec_fault PJson w | _ => None end) = Some (expected_obs PJson ex_fault) /\
  o_detail (expected_obs PJson ex_fault) = f_detail ex_fault.
Proof. vm_compute. repeat split. Qed.

Example C09_ex_fault_intact_xml11 :
  is_xml11_prot PXml = true /\ is_xml11_prot PSoap11 = true /\ xml_fault_ok ex_fault = true /\
  o_detail (expected_obs PXml ex_fault)
  = Some [(t "a", DStr (t "x")); (t "b", DDict [(t "c", DStr []); (t "d", DStr [])])].
Proof. vm_compute. repeat split. Qed.

Example C09_ex_fault_intact_soap12 :
  xml_fault_ok ex_fault = true /\ soap12_code_ok (f_code ex_fault) = true /\
  split_dot (f_code ex_fault) = (t "Client", [t "ResourceNotFound"; t "a"; t "b"]).
Proof. vm_compute. repeat split. Qed.

Example C09_ex_fault_intact_httprpc_partial :
  has_blank (f_code ex_fault ++ [10]) = false /\ has_blank (t "a" ++ [10; 98] ++ [10]) = false /\
  has_blank ([97; 10] ++ [10]) = true.
Proof. vm_compute. repeat split. Qed.

Example C09_ex_loopback :
  xml_fault_ok ex_fault = true /\ f_string ex_fault <> [] /\ soap12_code_ok (f_code ex_fault) = true /\
  strip (f_string ex_fault) = f_string ex_fault /\
  client_code12 ex_fault = t "soap12env:Sender.ResourceNotFound.a.b" /\
  strip [32; 120; 32] = [120] /\ strip [32; 120; 32] <> [].
Proof. vm_compute. repeat split; discriminate. Qed.
