(** C09 — faults arrive intact, are classified correctly and never leak internals.
    Property theorems only; each closed by a lemma of C09/Proofs.v.  The model (C09/Model.v) is
    interpreted over tables regenerated from the Spyne sources on every run (Gen/FaultTables.v). *)
From Coq Require Import ZArith List Bool String.
From SpyneV Require Import Base.Prelude Gen.FaultTables C09.Model C09.Proofs.
Open Scope Z_scope.

(** The response of the WSGI transport is a function of the output protocol and of the FIRST thing
    user code raises (from a method_call listener, the method body, a method_return_object listener
    or the lazily consumed generator the method returned): it is [handle_error] applied to the
    raised Fault itself, or to the one constant fault for any non-Fault exception. *)
Theorem C09_response_determined_by_first_raise : forall p u r,
  first_raise u = Some r -> not_redirect r -> handle_rpc p u = handle_error p None (reported r).
Proof. exact handle_rpc_first_raise. Qed.

(** ... hence neither the return value, nor the site, nor anything else user code did matters:
    the method's return value is not sent. *)
Theorem C09_no_return_on_fault : forall p u u' r,
  first_raise u = Some r -> first_raise u' = Some r -> not_redirect r -> handle_rpc p u = handle_rpc p u'.
Proof. intros. rewrite (handle_rpc_first_raise p u r), (handle_rpc_first_raise p u' r); auto. Qed.

(** Non-interference: ANY two non-Fault exceptions (whatever their type, text, traceback, site, and
    whatever the methods would have returned) produce the same response, it is status 500 with the
    serialisation of the constant fault Server / "Internal Error" (no detail), and it reads back as
    exactly that under every protocol. *)
Theorem C09_no_leak : forall p u1 u2 e1 e2,
  first_raise u1 = Some (RExn e1) -> first_raise u2 = Some (RExn e2) ->
  handle_rpc p u1 = handle_rpc p u2 /\
  exists w, handle_rpc p u1 = Ok (500, w) /\ enc_fault p internal_error = Ok w /\
            dec_fault p w = Some {| o_code := t "Server"; o_string := t "Internal Error"; o_detail := None |}.
Proof.
  intros p u1 u2 e1 e2 H1 H2.
  rewrite (handle_rpc_first_raise p u1 _ H1 I), (handle_rpc_first_raise p u2 _ H2 I).
  split; [reflexivity |]. destruct p; eexists; repeat split.
Qed.

(** A raised Fault is reported as itself: status from the documented table, body its own serialisation. *)
Theorem C09_fault_reported : forall p u f st w,
  first_raise u = Some (RFault f) -> isinstance f E_Redirect = false ->
  handle_rpc p u = Ok (st, w) -> st = documented_status p f /\ enc_fault p f = Ok w.
Proof.
  intros p u f st w H Hr Hw. rewrite (handle_rpc_first_raise p u _ H Hr) in Hw.
  apply handle_error_status. exact Hw.
Qed.

(** The generated [fault_to_http_response_code] chain IS the documented table (413/404/405/401 for
    the dedicated classes and their subclasses, 400 iff the code is Client or starts with "Client.",
    500 otherwise; always 500 for SOAP), for every fault and protocol. *)
Theorem C09_status_table : forall p f, http_code p f = documented_status p f.
Proof. exact http_code_documented. Qed.

(** Every class of spyne/error.py raised with its own CODE gets a 4xx status iff its CODE is a Client code. *)
Theorem C09_builtin_classes_classified : forall c code s a d l,
  ecls_code c = Some code -> c <> E_Redirect ->
  let f := Build_fault c code s a d l in
  (client_code code = true -> 400 <= http_code PXml f < 500) /\
  (client_code code = false -> http_code PXml f = 500).
Proof. exact builtin_classified. Qed.

(** Intact through JSON, YAML, MessagePack and msgpack-rpc documents: every code, message and nested
    detail, exactly. *)
Theorem C09_fault_intact_dict : forall p f, is_dict_prot p = true ->
  exists w, enc_fault p f = Ok w /\ dec_fault p w = Some (expected_obs p f).
Proof. exact fault_intact_dict. Qed.

(** Intact through XmlDocument and SOAP 1.1 for every fault XML 1.0 can carry (any dotted code; the
    QName prefix is dropped by the reader; inside the detail None, "" and {} are one empty element). *)
Theorem C09_fault_intact_xml11 : forall p f, is_xml11_prot p = true -> xml_fault_ok f = true ->
  exists w, enc_fault p f = Ok w /\ dec_fault p w = Some (expected_obs p f).
Proof. exact fault_intact_xml11. Qed.

(** Intact through SOAP 1.2 (repaired serialiser) for every code whose first segment is Client or
    Server, with any number of dotted sub-codes, and a detail dict of any size. *)
Theorem C09_fault_intact_soap12 : forall f, xml_fault_ok f = true -> soap12_code_ok (f_code f) = true ->
  exists w, enc_fault PSoap12 f = Ok w /\ dec_fault PSoap12 w = Some (expected_obs PSoap12 f).
Proof. exact fault_intact_soap12. Qed.

(** HttpRpc (text/plain): code and message intact when the code has no line feed ... *)
Theorem C09_fault_intact_httprpc_partial : forall f, existsb (Z.eqb 10) (f_code f) = false ->
  exists w, enc_fault PHttpRpc f = Ok w /\
            dec_fault PHttpRpc w = Some {| o_code := f_code f; o_string := f_string f; o_detail := None |}.
Proof. exact fault_intact_httprpc. Qed.

Definition wit_fault (d : option (list (text * dval))) (s : text) : fault :=
  {| f_root := E_Fault; f_code := t "Client.Foo"; f_string := s; f_actor := []; f_detail := d; f_lang := t "en" |}.
Definition wit_body (f : fault) : ucode := {| u_call := None; u_body := inl (RFault f); u_ret := None |}.

(** ... but the detail never leaves the server (known finding). *)
Theorem C09_httprpc_detail_refuted : exists f w,
  enc_fault PHttpRpc f = Ok w /\ f_detail f <> None /\
  forall o, dec_fault PHttpRpc w = Some o -> o_detail o = None.
Proof.
  exists (wit_fault (Some [(t "a", DStr (t "x"))]) (t "m")). eexists. split; [reflexivity |].
  split; [discriminate |]. intros o H. vm_compute in H. inversion H. reflexivity.
Qed.

(** A fault XML cannot carry produces no response at all under the XML protocols (known finding). *)
Theorem C09_xml_unrepresentable_refuted : exists f,
  xml_fault_ok f = false /\ forall p, is_xml_prot p = true -> handle_rpc p (wit_body f) = Crash ValueError.
Proof.
  exists (wit_fault None [110; 0]). split; [reflexivity |]. intros p Hp. destruct p; try discriminate; reflexivity.
Qed.

(** A generator that raises before its first item escapes the WSGI callable (known finding). *)
Theorem C09_generator_first_item_refuted : exists f, forall p,
  handle_rpc p {| u_call := None; u_body := inr (RGen0 (RFault f)); u_ret := None |} = Crash OtherExn.
Proof. exists (wit_fault None (t "m")). intros p. reflexivity. Qed.

(** Spyne's own client (loopback): SOAP 1.1 keeps everything (the code keeps its QName prefix) ... *)
Theorem C09_loopback_soap11 : forall f, xml_fault_ok f = true -> f_string f <> [] ->
  exists w, enc_fault PSoap11 f = Ok w /\
            client_in_error PSoap11 w =
            Some {| o_code := pre11 ++ colon :: f_code f; o_string := f_string f;
                    o_detail := xnorm_detail (f_detail f) |}.
Proof.
  intros f H Hs. destruct (loopback_soap11 f H) as [w [E C]]. exists w. split; [exact E |].
  rewrite C. unfold client_obs11, ctor_string. destruct (f_string f); [congruence | reflexivity].
Qed.

(** ... msgpack-rpc (repaired reader) keeps everything exactly ... *)
Theorem C09_loopback_msgpackrpc : forall f, f_string f <> [] ->
  exists w, enc_fault PMsgpackRpc f = Ok w /\ client_in_error PMsgpackRpc w = Some (expected_obs PMsgpackRpc f).
Proof.
  intros f Hs. destruct (loopback_msgpackrpc f) as [w [E C]]. exists w. split; [exact E |].
  rewrite C. unfold expected_obs, ctor_string. cbn [is_xml_prot]. destruct (f_string f); [congruence | reflexivity].
Qed.

(** ... SOAP 1.2 (repaired reader) keeps code (first segment as the env-prefixed Sender/Receiver) and
    detail, and the message when it has no leading/trailing white space ... *)
Theorem C09_loopback_soap12_partial : forall f,
  xml_fault_ok f = true -> soap12_code_ok (f_code f) = true ->
  strip (f_string f) = f_string f -> f_string f <> [] ->
  exists w, enc_fault PSoap12 f = Ok w /\
            client_in_error PSoap12 w =
            Some {| o_code := client_code12 f; o_string := f_string f; o_detail := xnorm_detail (f_detail f) |}.
Proof.
  intros f H Hc Hst Hs. destruct (loopback_soap12 f H Hc) as [w [E C]]. exists w. split; [exact E |].
  rewrite C. unfold client_obs12, ctor_string. rewrite Hst. destruct (f_string f); [congruence | reflexivity].
Qed.

(** ... and strips it otherwise (known finding). *)
Theorem C09_loopback_soap12_strip_refuted : exists f w o,
  enc_fault PSoap12 f = Ok w /\ client_in_error PSoap12 w = Some o /\ o_string o <> f_string f.
Proof.
  exists (wit_fault None [32; 120; 32]). eexists. eexists. split; [reflexivity |].
  split; [vm_compute; reflexivity |]. vm_compute. discriminate.
Qed.

(** Non-vacuity: the hypotheses are met by concrete non-trivial instances, through every site. *)
Definition ex_fault : fault :=
  {| f_root := E_RespawnError; f_code := t "Client.ResourceNotFound.a.b"; f_string := [104; 233; 19990; 128512];
     f_actor := []; f_detail := Some [(t "a", DStr (t "x")); (t "b", DDict [(t "c", DNone); (t "d", DDict [])])];
     f_lang := t "en" |}.
Definition ex_lazy : ucode :=
  {| u_call := None; u_body := inr (RGen (t "first") (Some (RFault ex_fault))); u_ret := None |}.
Definition ex_after : ucode :=
  {| u_call := None; u_body := inr (RPlain (t "the return value"));
     u_ret := Some (RExn {| px_type := t "ValueError"; px_text := t "secret" |}) |}.

Example C09_ex_fault : first_raise ex_lazy = Some (RFault ex_fault) /\ isinstance ex_fault E_Redirect = false
  /\ xml_fault_ok ex_fault = true /\ soap12_code_ok (f_code ex_fault) = true
  /\ strip (f_string ex_fault) = f_string ex_fault
  /\ map (fun p => match handle_rpc p ex_lazy with Ok (st, _) => st | _ => 0 end) all_prots
     = [500; 500; 404; 404; 404; 404; 404; 404]
  /\ (match handle_rpc PSoap12 ex_lazy with Ok (_, w) => dec_fault PSoap12 w | _ => None end)
     = Some (expected_obs PSoap12 ex_fault)
  /\ length funnel_handlers = 3%nat /\ length http_isinstance_chain = 4%nat.
Proof. vm_compute. repeat split. Qed.

Example C09_ex_exn : exists e, first_raise ex_after = Some (RExn e) /\ px_text e = t "secret"
  /\ handle_rpc PJson ex_after = Ok (500, WDoc (JDict [(t "faultcode", JStr (t "Server"));
                                                      (t "faultstring", JStr (t "Internal Error"))])).
Proof. eexists. vm_compute. repeat split. Qed.

Example C09_ex_builtin : ecls_code E_MissingFieldError = Some (t "Client.InvalidInput")
  /\ http_code PJson (Build_fault E_MissingFieldError (t "Client.InvalidInput") (t "m") [] None (t "en")) = 400
  /\ http_code PJson (Build_fault E_Fault (t "Clientele") (t "m") [] None (t "en")) = 500
  /\ is_dict_prot PYaml = true /\ is_xml11_prot PXml = true.
Proof. vm_compute. repeat split. Qed.
