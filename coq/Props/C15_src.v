(** C15 — the source text of the derivation code has the shape the model transcribes (the constants
    of Gen/DeriveSrc.v are regenerated from the tree under check on every run).  Theorem only. *)
From SpyneV Require Import Base.Prelude Gen.DeriveSrc C15.Model C15.SrcTie.
Import ListNotations.
Open Scope Z_scope.

Theorem C15_source_shape :
  mandatory_writes_argument = false /\
  req_kw mandatory_request = Some [(K_MIN_OCCURS, VInt 1); (K_NULLABLE, VBool false)] /\
  req_kw mandatory_unicode_request = Some [(K_MIN_LEN, VInt 1)] /\
  customize_copies_type_info = true /\ customize_registers_variant = true /\
  s_customize_fresh_attributes = true /\
  s_customize_special_keys = expected_special_keys /\
  s_customize_unbounded_aliases = expected_unbounded /\
  child_attrs_copied = true /\ subclass_resets_variants = true /\ customized_keeps_extends = true /\
  memberless_base_kept = true /\
  flat_parent_first = true /\ evolution_propagates = true /\
  decimal_msl_from_request = true /\ decimal_msl_add = 2 /\
  odict_setitem_new_only = true /\ odict_insert_moves = true /\
  type_attrs_copied = true /\ column_args_copied = true /\ bytearray_encoding_only_when_given = true /\
  sortcache_per_class = true /\ sortcache_checked = true /\ flat_alias_from_fields = true.
Proof. exact source_shape. Qed.

(** non-vacuity: the statement is about concrete generated constants; the model side of the tie *)
Example C15_ex_source_shape :
  length expected_special_keys = 28%nat /\ In [95; 42] expected_special_keys /\ K_MIN_OCCURS <> K_NULLABLE.
Proof. repeat split; try reflexivity; [simpl; auto | discriminate]. Qed.
