(** C08 — two codec functions translated semantically from their source on every run
    (harness/translate/c08sem.py -> Gen/C08Sem.v) and proved equal to the models.
    Property theorems only. *)
From SpyneV Require Import Base.Prelude Base.Digits C08.DtModel C08.DurModel C08.Regex C08.RegexRef
                           C08.SemTie Gen.Regexes Gen.C08Sem.

(** datetime_from_unicode_iso as regenerated from spyne/protocol/_inbase.py, run on the matches of the
    regenerated DateTime patterns, is the hand-written reader the C08_dt theorems are stated over *)
Theorem C08_sem_datetime_reader : forall s,
  gen_datetime_from_unicode_iso (menv (re_match rx_DateTime_utc s)) (menv (re_match rx_DateTime_offset s))
                                (menv (re_match rx_DateTime_local s))
  = datetime_from_unicode_iso s.
Proof. exact gen_datetime_reader. Qed.

(** duration_to_unicode as regenerated from spyne/protocol/_outbase.py is the printer the C08_dur
    theorems are stated over, for every timedelta (total microseconds n) *)
Theorem C08_sem_duration_printer : forall n, gen_duration_to_unicode n = duration_to_unicode n.
Proof. exact gen_duration_printer. Qed.

Example C08_sem_ex :
  gen_duration_to_unicode (-93784500000) = [45;80;49;68;84;50;72;51;77;52;46;53;48;48;48;48;48;83]
  /\ gen_duration_to_unicode 0 = [80;84;48;83]
  /\ gen_datetime_from_unicode_iso (menv (re_match rx_DateTime_utc [50;48;50;48;45;48;49;45;51;49;84;49;50;58;51;52;58;53;54;45;48;52;58;52;57]))
       (menv (re_match rx_DateTime_offset [50;48;50;48;45;48;49;45;51;49;84;49;50;58;51;52;58;53;54;45;48;52;58;52;57]))
       (menv (re_match rx_DateTime_local [50;48;50;48;45;48;49;45;51;49;84;49;50;58;51;52;58;53;54;45;48;52;58;52;57]))
     = Ok (mkdt (mkdate 2020 1 31) (mktod 12 34 56 0) (Some (-289))).
Proof. vm_compute. auto. Qed.
