(** C02 — dict-document wire fidelity (JSON, YAML, MessagePack).  Property theorems only.

    Vocabulary (coq/Wire/Dict.v is the model of the code, coq/C02/Spec.v the documented
    conventions): [o2d] = HierDictDocument._object_to_doc, [fdv] = _from_dict_value,
    [serve_request] / [serve_response] = the ServerBase pipeline around the user function,
    [senc] = the conventional document of a value, [sreq] / [sresp] = the conventional
    request / response documents, [sresp_dec] = the reference reader of a response,
    [members_conf] = conformance of an argument / result tuple, [vnorm] = Python equality
    of 0.0 / -0.0 / 1.0 with 0 / 0 / 1 (every number reader returns int(value) for those). *)
From Coq Require Import ZArith List Bool.
From SpyneV Require Import Base.Prelude Base.Digits Base.Ext Wire.Utf8 Wire.Decimal Wire.Dict.
From SpyneV Require Import Gen.DictDoc C02.GenProofs C02.Spec C02.Utf8Proofs C02.DecimalProofs C02.LeafProofs
     C02.EncProofs C02.DecProofs C02.CallProofs C02.Examples C02.Final.
Import ListNotations.
Open Scope Z_scope.

(** ** every Unicode scalar value: MessagePack keys and text *)
Theorem C02_utf8_roundtrip : forall t b, utf8_enc t = Some b -> utf8_dec b = Some t.
Proof. exact utf8_roundtrip. Qed.

Theorem C02_utf8_total : forall t, scalar_text t = true -> exists b, utf8_enc t = Some b.
Proof. exact utf8_enc_scalar. Qed.

(** ** decimals of any magnitude: Decimal(str(d)) = d (sign, digits and exponent) *)
Theorem C02_decimal_text_roundtrip : forall d, 0 <= d_coef d -> dec_parse (dec_str d) = Some d.
Proof. exact dec_roundtrip. Qed.

(** ** how each protocol carries each primitive *)
Theorem C02_leaf_writer : forall c k l,
  leaf_ok c k l = true -> leaf_enc c k (DLeaf l) = Ok (sleaf c spyne_style k l).
Proof. exact leaf_enc_spec. Qed.

(** in every style: text that arrives as a byte string is decoded before it is parsed *)
Theorem C02_leaf_reader : forall c st nillable k l,
  leaf_ok c k l = true ->
  leaf_dec c nillable k (sleaf c st k l) = Ok (DLeaf (lnorm l)).
Proof. exact leaf_dec_spec. Qed.

Theorem C02_leaf_reference_reader : forall c st nillable k l,
  leaf_ok c k l = true -> sleaf_dec c nillable k (sleaf c st k l) = Ok (DLeaf (lnorm l)).
Proof. exact sleaf_dec_spec. Qed.

(** integers of any magnitude: no bound at all over JSON and YAML and inside the 64-bit
    ranges of MessagePack; beyond, the decimal text must fit the declared max_str_len *)
Theorem C02_integers_any_magnitude : forall c msl z st nillable,
  (is_msgpack c = true -> in64 z = false -> ext_leb (Fin (len (str_int z))) msl = true) ->
  leaf_enc c (KInt msl) (DLeaf (LInt z)) = Ok (sleaf c spyne_style (KInt msl) (LInt z))
  /\ leaf_dec c nillable (KInt msl) (sleaf c st (KInt msl) (LInt z)) = Ok (DLeaf (LInt z))
  /\ sleaf_dec c nillable (KInt msl) (sleaf c spyne_style (KInt msl) (LInt z)) = Ok (DLeaf (LInt z)).
Proof. exact integers_any_magnitude. Qed.

Theorem C02_decimals_any_magnitude : forall c msl d st nillable,
  0 <= d_coef d -> ext_leb (Fin (len (dec_str d))) msl = true ->
  leaf_enc c (KDecimal msl) (DLeaf (LDecimal d)) = Ok (sleaf c spyne_style (KDecimal msl) (LDecimal d))
  /\ leaf_dec c nillable (KDecimal msl) (sleaf c st (KDecimal msl) (LDecimal d)) = Ok (DLeaf (LDecimal d))
  /\ sleaf_dec c nillable (KDecimal msl) (sleaf c spyne_style (KDecimal msl) (LDecimal d))
     = Ok (DLeaf (LDecimal d)).
Proof. exact decimals_any_magnitude. Qed.

(** ** structures: every universe, every conformant member value, every configuration *)

(** the serializer writes exactly the conventional document (positional form without
    wrapper keys excepted: see the _refuted theorem below) *)
Theorem C02_serializer_writes_conventions : forall c U poly f x fuel,
  wf_universe U = true -> (poly = true -> c_poly c = true) ->
  negb (c_list c) || c_iw c = true ->
  member_conf c U poly f x = true -> (2 * vdepth x + 1 <= fuel)%nat ->
  o2d c U fuel (dmulti f) (df_ty f) x = Ok (senc c U spyne_style (dmulti f) (df_ty f) x).
Proof. exact serializer_writes_conventions. Qed.

(** the reader reads every conventional member document back, whichever way a MessagePack
    peer writes keys and text (str or bin) *)
Theorem C02_reader_reads_conventions : forall c U poly st f x fuel,
  wf_universe U = true -> (poly = true -> c_iw c = false) ->
  member_conf c U poly f x = true -> dmulti f = false -> (vdepth x <= fuel)%nat ->
  (x = DNone -> c_list c = true \/ 0 < df_min f) ->
  fdv c U fuel (df_nillable f) (df_ty f) (senc c U st false (df_ty f) x) = Ok (vnorm x).
Proof. exact reader_reads_conventions. Qed.

(** a primitive customized with empty_is_none=True ([DPrimE]): the empty text and the empty
    byte string are read as null, every other node (0, 0.0, false, [] among them) exactly as
    without the option; conformant values of such slots (anything but the empty text / the
    empty byte string) are covered by the structural theorems above *)
Theorem C02_empty_is_none_only_empty_text : forall c U fuel nillable k j,
  fdv c U fuel nillable (DPrimE k) j
  = fdv c U fuel nillable (DPrim k) (match j with JStr [] | JBytes [] => JNull | _ => j end).
Proof. exact empty_is_none_only_empty_text. Qed.

(** ** calls *)

(** a request built by the documented conventions enters the user function with the
    sent arguments *)
Theorem C02_request_fidelity : forall c U st sigs s args fuel,
  wf_universe (ext_universe U s) = true ->
  find_sig sigs (sg_name s) = Some s ->
  members_conf c (ext_universe U s) (rpoly c) (sg_params s) args = true ->
  (vdepth (DObj (in_cid U) args) <= fuel)%nat ->
  serve_request c U fuel sigs (sreq c U st s args) = SCall (map vnorm args).
Proof. exact request_fidelity. Qed.

(** the response is the conventional document and decodes to the returned values *)
Theorem C02_response_fidelity_partial : forall c U s rets fuel,
  wf_universe (ext_universe U s) = true ->
  negb (c_list c) || c_iw c = true ->
  members_conf c (ext_universe U s) (rpoly c) (sg_results s) rets = true ->
  (2 * vdepth (DObj (out_cid U) rets) + 1 <= fuel)%nat ->
  serve_response c U fuel s rets = Ok (sresp c U spyne_style s rets)
  /\ sresp_dec c U fuel s (sresp c U spyne_style s rets) = Ok (map vnorm rets).
Proof. exact response_fidelity. Qed.

(** for every user function *)
Theorem C02_call_fidelity : forall c U st sigs s (f : list dval -> list dval) args fuel,
  wf_universe (ext_universe U s) = true ->
  find_sig sigs (sg_name s) = Some s ->
  negb (c_list c) || c_iw c = true ->
  members_conf c (ext_universe U s) (rpoly c) (sg_params s) args = true ->
  members_conf c (ext_universe U s) (rpoly c) (sg_results s) (f (map vnorm args)) = true ->
  (vdepth (DObj (in_cid U) args) <= fuel)%nat ->
  (2 * vdepth (DObj (out_cid U) (f (map vnorm args))) + 1 <= fuel)%nat ->
  exists j,
    serve_request c U fuel sigs (sreq c U st s args) = SCall (map vnorm args)
    /\ serve_response c U fuel s (f (map vnorm args)) = Ok j
    /\ j = sresp c U spyne_style s (f (map vnorm args))
    /\ sresp_dec c U fuel s j = Ok (map vnorm (f (map vnorm args))).
Proof. exact call_fidelity. Qed.

(** MessagePackRpc (ignore_wrappers=True, either complex_as): [0, msgid, method, params] with
    positional parameters enters the function with the sent arguments; the answer
    [1, 0, nil, out_message] is the conventional one and decodes to the returned values.
    A None parameter must be a nillable single one (or validation is off): every
    parameter is on the wire. *)
Theorem C02_rpc_request_fidelity : forall c U st msgid sigs s args fuel,
  c_iw c = true ->
  wf_universe (ext_universe U s) = true ->
  find_sig sigs (sg_name s) = Some s ->
  members_conf c (ext_universe U s) false (sg_params s) args = true ->
  rpc_args_ok c (sg_params s) args ->
  (vdepth (DObj (in_cid U) args) <= fuel)%nat ->
  rpc_request c U fuel sigs (srpc_req c U st msgid s args) = SCall (map vnorm args).
Proof. exact rpc_request_fidelity. Qed.

Theorem C02_rpc_response_fidelity : forall c U s rets fuel,
  c_iw c = true ->
  wf_universe (ext_universe U s) = true ->
  members_conf c (ext_universe U s) false (sg_results s) rets = true ->
  (2 * vdepth (DObj (out_cid U) rets) + 1 <= fuel)%nat ->
  rpc_response c U fuel s rets = Ok (srpc_resp c U spyne_style s rets)
  /\ srpc_resp_dec c U fuel s (srpc_resp c U spyne_style s rets) = Ok (map vnorm rets).
Proof. exact rpc_response_fidelity. Qed.

(** ** the regions the guards exclude are genuinely refuted by the model (known findings) *)

(** complex_as=list with ignore_wrappers=False: requests must carry the class-name keys,
    responses are written without them *)
Theorem C02_response_positional_without_wrappers_refuted :
  exists c U s rets fuel,
    wf_universe (ext_universe U s) = true
    /\ members_conf c (ext_universe U s) (rpoly c) (sg_results s) rets = true
    /\ (2 * vdepth (DObj (out_cid U) rets) + 1 <= fuel)%nat
    /\ serve_response c U fuel s rets <> Ok (sresp c U spyne_style s rets).
Proof. exact response_positional_refuted. Qed.

(** polymorphic=True with ignore_wrappers=True: an instance of a subclass is written
    without its class name and does not decode to itself *)
Theorem C02_subclass_without_wrappers_refuted :
  exists c U s rets fuel j,
    c_poly c = true /\ c_iw c = true
    /\ wf_universe (ext_universe U s) = true
    /\ members_conf c (ext_universe U s) true (sg_results s) rets = true
    /\ serve_response c U fuel s rets = Ok j
    /\ sresp_dec c U fuel s j <> Ok (map vnorm rets).
Proof. exact subclass_without_wrappers_refuted. Qed.

(** ** the tokens translated from the source say what the theorems need *)
Theorem C02_source_tables :
  (forall z, mp_native_int z = in64 z)
  /\ (forall n m l, member_written n (Fin m) l = negb n || (0 <? m) || l)
  /\ strip_cond true (Fin 1) (Fin 1) = true /\ strip_cond true (Fin 1) PosInf = false
  /\ (forall m, reads_many (Fin m) = (1 <? m)) /\ reads_many PosInf = true
  /\ (forall n, wrapper_empty (Fin n) = (n =? 0) /\ wrapper_too_many (Fin n) = (1 <? n))
  /\ (forall n mn mx, freq_low (Fin n) (Fin mn) = (n <? mn) /\ freq_high (Fin n) (Fin mx) = (mx <? n)
                      /\ freq_high (Fin n) PosInf = false)
  /\ null_member_is_none = true /\ body_lookup_both_key_forms = true /\ single_none_is_null = true
  /\ int_slot_float_is_int = true /\ ret_bool_by_identity = true /\ hier_counts_array_items = false
  /\ cycle_guard_per_branch = true
  /\ ein_empty_str = true /\ ein_empty_bytes = true
  /\ bytes_encoded_as_one = true /\ bytes_no_chunks_ok = true
  /\ handlers = expected_handlers
  /\ GMsgpack_key_utf8 = true /\ GJson_key_utf8 = false /\ GYaml_key_utf8 = false
  /\ GMsgpack_writes_bytes = true /\ GJson_base64 = true /\ GYaml_base64 = true.
Proof. exact source_tables. Qed.

(** ** non-vacuity *)
Example C02_ex_utf8 :
  scalar_text [97; 252; 20013; 128512; 1114111] = true
  /\ utf8_enc [252; 20013; 128512] = Some [195; 188; 228; 184; 173; 240; 159; 152; 128]
  /\ utf8_dec [195; 188; 228; 184; 173; 240; 159; 152; 128] = Some [252; 20013; 128512]
  /\ utf8_enc [55296] = None /\ utf8_dec [237; 160; 128] = None /\ utf8_dec [192; 128] = None.
Proof. vm_compute. repeat split. Qed.

(* Decimal('-1.5E+400'), Decimal('0.000001'), Decimal('1E-7'), Decimal('12E1') *)
Example C02_ex_decimal :
  dec_str (mkdec true 15 399) = [45; 49; 46; 53; 69; 43; 52; 48; 48]
  /\ dec_parse (dec_str (mkdec true 15 399)) = Some (mkdec true 15 399)
  /\ dec_str (mkdec false 1 (-6)) = [48; 46; 48; 48; 48; 48; 48; 49]
  /\ dec_str (mkdec false 1 (-7)) = [49; 69; 45; 55]
  /\ dec_str (mkdec false 12 1) = [49; 46; 50; 69; 43; 50]
  /\ dec_parse [49; 46; 50; 69; 43; 50] = Some (mkdec false 12 1).
Proof. vm_compute. repeat split. Qed.

(* 2^64 over MessagePack travels as text, 2^64-1 natively; over JSON any integer is a number *)
Example C02_ex_integers :
  leaf_enc ex_mp (KInt (Fin 1024)) (DLeaf (LInt (2 ^ 64))) = Ok (JBytes (str_int (2 ^ 64)))
  /\ leaf_enc ex_mp (KInt (Fin 1024)) (DLeaf (LInt (2 ^ 64 - 1))) = Ok (JInt (2 ^ 64 - 1))
  /\ leaf_dec ex_mp true (KInt (Fin 1024)) (JStr (str_int (- 2 ^ 63 - 1))) = Ok (DLeaf (LInt (- 2 ^ 63 - 1)))
  /\ leaf_enc ex_json (KInt (Fin 1024)) (DLeaf (LInt (10 ^ 40))) = Ok (JInt (10 ^ 40))
  /\ leaf_ok ex_json (KInt (Fin 1024)) (LInt (10 ^ 4000)) = true.
Proof. vm_compute. repeat split. Qed.

(* class A {i: Integer, s: Unicode(min_occurs=1)}; class B(A) {d: Decimal, m: Integer(max_occurs=unbounded),
   aa: Array(Array(Integer))}; f(a: A, n: Integer) -> A *)
Example C02_ex_call :
  wf_universe (ext_universe ex_U ex_sig) = true
  /\ members_conf ex_wrapped (ext_universe ex_U ex_sig) (rpoly ex_wrapped) (sg_params ex_sig) ex_args = true
  /\ members_conf ex_wrapped (ext_universe ex_U ex_sig) (rpoly ex_wrapped) (sg_results ex_sig) ex_rets = true
  /\ serve_request ex_wrapped ex_U 20 [ex_sig] (sreq ex_wrapped ex_U (mkstyle false false false) ex_sig ex_args)
     = SCall ex_args
  /\ serve_response ex_wrapped ex_U 20 ex_sig ex_rets = Ok (sresp ex_wrapped ex_U spyne_style ex_sig ex_rets)
  /\ sresp_dec ex_wrapped ex_U 20 ex_sig (sresp ex_wrapped ex_U spyne_style ex_sig ex_rets) = Ok ex_rets
  /\ serve_request ex_mp ex_U 20 [ex_sig] (sreq ex_mp ex_U (mkstyle false false false) ex_sig ex_args_flat)
     = SCall ex_args_flat
  /\ serve_request ex_mp ex_U 20 [ex_sig] (sreq ex_mp ex_U (mkstyle true false false) ex_sig ex_args_flat)
     = SCall ex_args_flat
  /\ serve_request ex_mp ex_U 20 [ex_sig] (sreq ex_mp ex_U spyne_style ex_sig ex_args_flat)
     = SCall ex_args_flat.
Proof. vm_compute. repeat split. Qed.

(* Integer(empty_is_none=True): 0 is 0, '' is None; Boolean: false is false; a member of such a type is conformant *)
Example C02_ex_empty_is_none :
  fdv ex_json [] 3 true (DPrimE (KInt (Fin 1024))) (JInt 0) = Ok (DLeaf (LInt 0))
  /\ fdv ex_json [] 3 true (DPrimE KBool) (JBool false) = Ok (DLeaf (LBool false))
  /\ fdv ex_json [] 3 true (DPrimE KDouble) (JFlt 0) = Ok (DLeaf (LInt 0))
  /\ fdv ex_mp [] 3 true (DPrimE (KInt (Fin 1024))) (JBytes []) = Ok DNone
  /\ fdv ex_json [] 3 true (DPrimE KText) (JStr []) = Ok DNone
  /\ fdv ex_json [] 3 true (DPrim KText) (JStr []) = Ok (DLeaf (LText []))
  /\ conf ex_json [] false false (DPrimE (KInt PosInf)) (DLeaf (LInt 0)) = true
  /\ conf ex_json [] false false (DPrimE KText) (DLeaf (LText [])) = false.
Proof. vm_compute. repeat split. Qed.

(* MessagePackRpc: [0, 7, 'f', [{..A..}, 7]] -> f(A(i=2**64, s='hi'), 7) -> [1, 0, nil, {b'fResult': {..}}] *)
Example C02_ex_rpc :
  rpc_args_ok ex_rpc (sg_params ex_sig) ex_args_flat
  /\ rpc_request ex_rpc ex_U 20 [ex_sig] (srpc_req ex_rpc ex_U (mkstyle false false false) (JInt 7) ex_sig ex_args_flat)
     = SCall ex_args_flat
  /\ rpc_response ex_rpc ex_U 20 ex_sig ex_rets_flat = Ok (srpc_resp ex_rpc ex_U spyne_style ex_sig ex_rets_flat)
  /\ srpc_resp_dec ex_rpc ex_U 20 ex_sig (srpc_resp ex_rpc ex_U spyne_style ex_sig ex_rets_flat) = Ok ex_rets_flat.
Proof. vm_compute. repeat split; intros; discriminate. Qed.
