(** C12 — concurrent requests do not interfere; lazy WSDL is built once, served whole.
    Property theorems only; each closed by [exact] of a lemma proved in coq/C12.

    The model (coq/C12/Model.v) is an interleaving transition system over the shared
    variables of WsgiApplication.handle_wsdl_request / Wsdl11 (double-checked lock),
    ProtocolBase.get_cls_attrs (_attrcache), ProtocolBase.sort_fields (_sortcache; the
    lock-free fill cdict.__getitem__ has the same shape), memoize.__call__ and
    XmlDocument.__validate_lxml (shared XMLSchema.error_log).  Thread identifiers are
    arbitrary integers, so every statement below holds for ANY number of threads; [sched]
    ranges over ALL interleavings (one entry = one access to a shared variable, the finest
    granularity at which threads can observe each other).  [Repaired] is the program text
    after the three C12 fixes - the text coq/Gen/ConcText.v is regenerated from on every
    run - and [Pinned] the text of the snapshot. *)
From SpyneV Require Import Base.Prelude C12.Model C12.Proofs C12.Corr C12.Theorems C12.Live C12.RunForm
  C12.Text C12.TextProofs C12.Writers C12.Fallback Gen.ConcText.

Section C12.
Variable V : Type.                    (* attribute / memoised values: any type *)
Variable base : Z -> V.               (* base attributes of a class *)
Variable over1 over2 : Z -> V -> V.   (* the two prot_attrs overrides *)
Variable has_prot : Z -> bool.
Variable mf : Z -> V.                 (* any (pure) memoised function *)
Variable sf : Z -> V.                 (* the sorted field list of a class *)
Variable pre : bool.                  (* whether the WSDL was built at start-up, before the first request *)
Variable ftag : Z -> Z.               (* identity of the flat type info each class has while requests run *)
Variable sc0 : Z -> option (Z * V).   (* what _sortcache holds when the first request arrives *)
Variable reqs : Z -> req.             (* any assignment of requests to threads *)
(** lists cached at start-up for the field table a class has NOW are right; lists cached for an
    earlier field table (append_field / insert_field / customize came later) may be anything *)
Hypothesis sc0_ok : forall k g x, sc0 k = Some (g, x) -> g = ftag k -> x = sf k.

Notation run := (run V base over1 over2 has_prot mf sf ftag).
Notation init := (init V base pre sc0).
Notation alone := (alone V base over1 over2 has_prot mf sf).
Notation full := (full V base over1 over2 has_prot).
Notation step := (step V base over1 over2 has_prot mf sf ftag).

(** build_interface_document runs at most once, whatever the schedule *)
Theorem C12_built_once : forall sched s,
  run Repaired reqs sched (init Repaired reqs) = Some s -> b_gen s <= 1.
Proof. exact (r_built_once V base over1 over2 has_prot mf sf pre ftag sc0 reqs sc0_ok). Qed.

(** ... and not at all when it was built at start-up (build_interface_document(url) after the
    transport was created, the usage the class documents): no request builds it again *)
Theorem C12_prebuilt_never_rebuilt : forall sched s,
  run Repaired reqs sched (init Repaired reqs) = Some s -> pre = true ->
  b_gen s = 1 /\ b_wsdl s = Some 0.
Proof. exact (r_prebuilt_never_rebuilt V base over1 over2 has_prot mf sf pre ftag sc0 reqs sc0_ok). Qed.

(** every finished ?wsdl requester holds the document of the sequential build, and no
    other document is ever stored in the transport or the builder *)
Theorem C12_served_whole : forall sched s,
  run Repaired reqs sched (init Repaired reqs) = Some s ->
  (forall t, reqs t = RWsdl -> tpc (thr s t) = Done -> out (thr s t) = Some (PWsdl (Some 0))) /\
  (forall d, app_wsdl s = Some d -> d = 0) /\ (forall d, b_wsdl s = Some d -> d = 0).
Proof. exact (r_served_whole V base over1 over2 has_prot mf sf pre ftag sc0 reqs sc0_ok). Qed.

(** every finished caller holds exactly the response its request gets when processed alone *)
Theorem C12_no_interference : forall sched s t,
  run Repaired reqs sched (init Repaired reqs) = Some s ->
  tpc (thr s t) = Done -> out (thr s t) = alone (reqs t).
Proof. exact (r_no_interference V base over1 over2 has_prot mf sf pre ftag sc0 reqs sc0_ok). Qed.

(** hence the response does not depend on the interleaving (a solo run is one of them) *)
Theorem C12_schedule_independent : forall sched1 sched2 s1 s2 t,
  run Repaired reqs sched1 (init Repaired reqs) = Some s1 ->
  run Repaired reqs sched2 (init Repaired reqs) = Some s2 ->
  tpc (thr s1 t) = Done -> tpc (thr s2 t) = Done -> out (thr s1 t) = out (thr s2 t).
Proof. exact (r_schedule_independent V base over1 over2 has_prot mf sf pre ftag sc0 reqs sc0_ok). Qed.

(** ... and every caller does finish: a request takes a bounded number of steps of its own,
    whatever the others do (no live-lock; true of both program texts) ... *)
Theorem C12_steps_bounded : forall v sched s t,
  run v reqs sched (init v reqs) = Some s -> count t sched <= bound (reqs t).
Proof. exact (steps_bounded V base over1 over2 has_prot mf sf pre ftag sc0 reqs). Qed.

(** ... while a request is unfinished some thread can move (no dead-lock) ... *)
Theorem C12_no_deadlock : forall sched s t,
  run Repaired reqs sched (init Repaired reqs) = Some s ->
  tpc (thr s t) <> Done -> exists u, step Repaired reqs s u <> None.
Proof. exact (r_no_deadlock V base over1 over2 has_prot mf sf pre ftag sc0 reqs sc0_ok). Qed.

(** ... so a state in which nobody can move is one in which EVERY caller has received
    exactly the response of its request processed alone *)
Theorem C12_all_served : forall sched s,
  run Repaired reqs sched (init Repaired reqs) = Some s ->
  (forall u, step Repaired reqs s u = None) ->
  forall t, tpc (thr s t) = Done /\ out (thr s t) = alone (reqs t).
Proof. exact (quiescent_all_served V base over1 over2 has_prot mf sf pre ftag sc0 reqs sc0_ok). Qed.

(** memoize: the table only ever holds f(key), every call returns f(key) *)
Theorem C12_memo_transparent : forall sched s,
  run Repaired reqs sched (init Repaired reqs) = Some s ->
  (forall k x, memo s k = Some x -> x = mf k) /\
  (forall t ks, reqs t = RMemo ks -> tpc (thr s t) = Done -> out (thr s t) = Some (PVals (map mf ks))).
Proof. exact (r_memo_transparent V base over1 over2 has_prot mf sf pre ftag sc0 reqs sc0_ok). Qed.

(** _attrcache: every published dictionary is complete, every caller sees the complete attributes *)
Theorem C12_attrs_transparent : forall sched s,
  run Repaired reqs sched (init Repaired reqs) = Some s ->
  (forall k r, cache s k = Some r -> heap s r = full k) /\
  (forall t ks, reqs t = RAttrs ks -> tpc (thr s t) = Done -> out (thr s t) = Some (PVals (map full ks))).
Proof. exact (r_attrs_transparent V base over1 over2 has_prot mf sf pre ftag sc0 reqs sc0_ok). Qed.

(** _sortcache: an entry computed from the field table the class has now is the sequential
    value, an entry computed from an earlier one is never returned, every caller gets the
    sequential value *)
Theorem C12_sort_transparent : forall sched s,
  run Repaired reqs sched (init Repaired reqs) = Some s ->
  (forall k g x, scache s k = Some (g, x) -> g = ftag k -> x = sf k) /\
  (forall t ks, reqs t = RSort ks -> tpc (thr s t) = Done -> out (thr s t) = Some (PVals (map sf ks))).
Proof. exact (r_sort_transparent V base over1 over2 has_prot mf sf pre ftag sc0 reqs sc0_ok). Qed.

(** schema validation: a rejected request's fault carries its own error text *)
Theorem C12_errlog_isolated : forall sched s t ok e,
  run Repaired reqs sched (init Repaired reqs) = Some s ->
  reqs t = RValidate ok e -> tpc (thr s t) = Done ->
  out (thr s t) = Some (if ok then PValid else PFault (Some e)).
Proof. exact (r_errlog_isolated V base over1 over2 has_prot mf sf pre ftag sc0 reqs sc0_ok). Qed.

(** ... also when validate() itself raises (XMLSchemaValidateError, e.g. an entity reference left
    in the tree): the lock is released and the fault carries the text of that exception *)
Theorem C12_validator_error_isolated : forall sched s t e,
  run Repaired reqs sched (init Repaired reqs) = Some s ->
  reqs t = RValidateX e -> tpc (thr s t) = Done -> out (thr s t) = Some (PFault (Some e)).
Proof. exact (r_validator_error_isolated V base over1 over2 has_prot mf sf pre ftag sc0 reqs sc0_ok). Qed.

(** the three locks exclude: two threads inside the same critical section are one thread *)
Theorem C12_mutual_exclusion : forall sched s t u,
  run Repaired reqs sched (init Repaired reqs) = Some s ->
  (in_wcrit (tpc (thr s t)) = true -> in_wcrit (tpc (thr s u)) = true -> t = u) /\
  (in_vcrit (tpc (thr s t)) = true -> in_vcrit (tpc (thr s u)) = true -> t = u) /\
  (in_mcrit (tpc (thr s t)) = true -> in_mcrit (tpc (thr s u)) = true -> t = u).
Proof. exact (r_mutual_exclusion V base over1 over2 has_prot mf sf pre ftag sc0 reqs sc0_ok). Qed.

End C12.

(** ---- the tie to the program text of the working tree (coq/Gen/ConcText.v is regenerated
    from spyne/ by harness/translate/conctext.py on every run) *)

(** the access skeletons of the eight functions are, as far as shared state goes, the ones the
    [Repaired] model mirrors: for EVERY choice of branches (up to 6 tests met) and whether or not
    validate() raises, the generated skeleton performs the same shared accesses, meets tests of the
    same kinds and leaves in the same way, in the same order, as the skeleton the model was written
    against ([sk_equiv], coq/C12/Text.v; statements on objects still private to the thread and the
    spelling of a lock-protected region are not compared); the locks are created as locks and the
    shared variables have no other writer *)
Theorem C12_text_is_model_text :
  sk_equiv g_wsdl (text_wsdl Repaired) && sk_equiv g_get text_get && sk_equiv g_build text_build &&
  sk_equiv g_attrs (text_attrs Repaired) && sk_equiv g_validate (text_validate Repaired) &&
  sk_equiv g_memo text_memo && sk_equiv g_sort text_sort && sk_equiv g_cdict text_cdict && g_side = true.
Proof. exact text_is_model_text. Qed.

(** on every listed path through the GENERATED skeletons (first request / later request /
    builder already has the document / waited for the lock; cache miss / hit; valid /
    invalid payload / validate() raising; memo miss / hit / filled between the two checks) the step function of
    the model performs exactly the shared accesses of the path, in the same order *)
Theorem C12_text_paths : paths_ok Repaired g_wsdl g_attrs g_validate g_memo g_sort = true.
Proof. exact text_paths. Qed.

(** no OTHER statement outside __init__ writes instance state of a shared object (application,
    interface, protocols, transports, document builders): the list regenerated from the working
    tree is the one examined in coq/C12/Writers.v.  A new lazily filled table or cache on a
    shared object breaks this obligation until it has been examined (and modelled, if it is filled
    at request time) *)
Theorem C12_state_writers_pinned : g_state_writers = state_writers_expected.
Proof. exact state_writers_pinned. Qed.

(** a check-then-set cache of a per-class value that is looked up by the EXACT class (dict,
    WeakKeyDictionary: what _attrcache and _sortcache are - side condition g_caches_exact) returns
    f(class) in every history of calls ... *)
Theorem C12_exact_cache_transparent : forall (V : Type) (f : Z -> V) ks c,
  sound V f c -> calls V f (fun _ => None) c ks = map f ks.
Proof. exact exact_transparent. Qed.

(** ... while one whose lookup falls back to a base-class entry (spyne.util.cdict) answers a
    subclass with its PARENT's value once the parent has been seen - sequentially, let alone
    under concurrency.  "No interference" therefore has to hold across requests of different,
    related classes on one protocol instance: harness/c12.py runs inheritance-related parameter
    types in every order *)
Theorem C12_fallback_cache_refuted : forall (V : Type) (f : Z -> V) parent child par,
  parent child = Some par -> child <> par ->
  calls V f parent (fun _ => None) [par; child] = [f par; f par].
Proof. exact fallback_refuted. Qed.

(** ---- the same statements are FALSE of the pinned program text (witness schedules over the
    integer instance; replayed on the real code by harness/c12.py): *)

(** two racing ?wsdl requests: two builds, the second requester gets (and the transport
    keeps) the document of the second build *)
Theorem C12_pinned_wsdl_refuted :
  exists sched s, crun Pinned (fun _ => RWsdl) sched (cinit false Pinned (fun _ => RWsdl)) = Some s /\
    b_gen s = 2 /\ tpc (thr s 0) = Done /\ tpc (thr s 1) = Done /\
    out (thr s 0) = Some (PWsdl (Some 0)) /\ out (thr s 1) = Some (PWsdl (Some 1)) /\
    app_wsdl s = Some 1.
Proof. exact pinned_wsdl_refuted. Qed.

(** a cache hit between the store of the base dictionary and its prot_attrs updates *)
Theorem C12_pinned_attrs_refuted :
  exists sched s, crun Pinned attrs_reqs sched (cinit false Pinned attrs_reqs) = Some s /\
    tpc (thr s 1) = Done /\ out (thr s 1) = Some (PVals [10]) /\
    calone (attrs_reqs 1) = Some (PVals [13]).
Proof. exact pinned_attrs_refuted. Qed.

(** another validation between validate() and the read of error_log: the fault carries
    the text 'None' or the other request's error text *)
Theorem C12_pinned_errlog_refuted :
  (exists sched s, let rq := errlog_reqs (RValidate true 0) in
     crun Pinned rq sched (cinit false Pinned rq) = Some s /\
     tpc (thr s 0) = Done /\ out (thr s 0) = Some (PFault None) /\ calone (rq 0) = Some (PFault (Some 7))) /\
  (exists sched s, let rq := errlog_reqs (RValidate false 8) in
     crun Pinned rq sched (cinit false Pinned rq) = Some s /\
     tpc (thr s 0) = Done /\ out (thr s 0) = Some (PFault (Some 8)) /\ calone (rq 0) = Some (PFault (Some 7))).
Proof. exact pinned_errlog_refuted. Qed.

(** ---- non-vacuity *)

(** a concrete 7-thread interleaving of the repaired program in which all six kinds of
    request run to completion (the hypotheses of C12_built_once, _served_whole,
    _no_interference, _schedule_independent, _memo/_attrs/_sort_transparent,
    _errlog_isolated and _validator_error_isolated are met by a non-trivial reachable state), with one build and the
    sequential answers *)
Definition ex_reqs (t : Z) : req :=
  if t =? 0 then RWsdl else if t =? 1 then RWsdl else if t =? 2 then RValidate false 5
  else if t =? 3 then RAttrs [1; 1; 2] else if t =? 4 then RMemo [3; 3]
  else if t =? 5 then RSort [4; 4] else if t =? 6 then RValidateX 9 else RIdle.
Definition ex_sched : list Z :=
  [0;1;2;3;4;5;0;1;2;3;4;5;0;2;2;3;4;5;0;3;3;3;4;0;3;3;4;4;0;4;0;0;0;1;1;1;6;6;6].
Definition is_done (s : state Z) (t : Z) : bool := match tpc (thr s t) with Done => true | _ => false end.
Definition got (s : state Z) (t : Z) (r : resp Z) : bool := optresp_eqb (out (thr s t)) (Some r).
(** (stated as boolean tests on the state the schedule leads to, so that the kernel re-checks them
    with the virtual machine) *)
Example C12_ex_all_finish :
  match crun Repaired ex_reqs ex_sched (cinit false Repaired ex_reqs) with
  | Some s => forallb (is_done s) [0;1;2;3;4;5;6] && (b_gen s =? 1) &&
              got s 1 (PWsdl (Some 0)) && got s 2 (PFault (Some 5)) && got s 3 (PVals [13; 13; 20]) &&
              got s 4 (PVals [24; 24]) && got s 5 (PVals [454; 454]) && got s 6 (PFault (Some 9))
  | None => false
  end = true.
Proof. vm_compute. reflexivity. Qed.
(** the same state is quiescent (hypothesis of C12_all_served), and the schedule uses the
    step budget of C12_steps_bounded without exhausting it *)
Example C12_ex_quiescent :
  match crun Repaired ex_reqs ex_sched (cinit false Repaired ex_reqs) with
  | Some s => forallb (fun u => match cstep Repaired ex_reqs s u with None => true | Some _ => false end)
                      [0;1;2;3;4;5;6;7] && (count 3 ex_sched =? 8) && (bound (ex_reqs 3) =? 27)
  | None => false
  end = true.
Proof. vm_compute. reflexivity. Qed.
(** a blocked thread exists in a reachable state (the locks do something; hypothesis of
    C12_no_deadlock / C12_mutual_exclusion: thread 0 is inside the critical section) *)
Example C12_ex_blocks :
  match crun Repaired ex_reqs [0;0;0;1;1] (cinit false Repaired ex_reqs) with
  | Some s => match cstep Repaired ex_reqs s 1 with None => true | Some _ => false end &&
              match tpc (thr s 1) with W_acq => true | _ => false end && in_wcrit (tpc (thr s 0))
  | None => false
  end = true.
Proof. vm_compute. reflexivity. Qed.
(** the prebuilt case is not vacuous: two requesters, no build, both get the start-up document *)
Example C12_ex_prebuilt :
  match crun Repaired (fun _ => RWsdl) [0;0;1;1] (cinit true Repaired (fun _ => RWsdl)) with
  | Some s => (b_gen s =? 1) && got s 0 (PWsdl (Some 0)) && got s 1 (PWsdl (Some 0))
  | None => false
  end = true.
Proof. vm_compute. reflexivity. Qed.
(** a list cached at start-up for an earlier field table is not returned: class 4 (stale entry
    404 in the integer instance, which meets the hypothesis sc0_ok) is sorted again *)
Example C12_ex_stale_sort :
  (forall k g x, csc0 k = Some (g, x) -> g = cftag k -> x = csf k) /\
  match crun Repaired (fun t => if t =? 0 then RSort [4] else RIdle) [0;0]
             (cinit false Repaired (fun t => if t =? 0 then RSort [4] else RIdle)) with
  | Some s => got s 0 (PVals [454]) && negb (csf 4 =? 404)
  | None => false
  end = true.
Proof.
  split.
  - intros k g x H Hg. unfold csc0 in H. destruct (cstale k); [|discriminate].
    inversion H; subst. discriminate.
  - vm_compute. reflexivity.
Qed.
(** the fallback refutation bites: a subclass with one more member gets the parent's list *)
Example C12_ex_fallback :
  calls Z (fun k => 10 * k) (fun k => if k =? 2 then Some 1 else None) (fun _ => None) [1; 2] = [10; 10] /\
  calls Z (fun k => 10 * k) (fun _ => None) (fun _ => None) [1; 2] = [10; 20] /\
  (length state_writers_expected = 63)%nat.
Proof. vm_compute. repeat split. Qed.
(** the text theorems are not about an empty table: 19 paths, and the pinned skeletons are
    rejected by the same test (and accepted by the pinned model) *)
Example C12_ex_text :
  (length (wsdl_paths Repaired) + length (attrs_paths Repaired) + length (validate_paths Repaired)
   + length memo_paths + length sort_paths + length (wsdl_pre_paths Repaired) = 19)%nat /\
  paths_ok Repaired (text_wsdl Pinned) g_attrs g_validate g_memo g_sort = false /\
  paths_ok Repaired g_wsdl (text_attrs Pinned) g_validate g_memo g_sort = false /\
  paths_ok Repaired g_wsdl g_attrs (text_validate Pinned) g_memo g_sort = false /\
  paths_ok Pinned (text_wsdl Pinned) (text_attrs Pinned) (text_validate Pinned) text_memo text_sort = true.
Proof. vm_compute. repeat split. Qed.
(** [sk_equiv] is not the total relation: it rejects the pinned texts, a flipped test, a store moved
    past the sort, a dropped lock - and accepts a with-statement for acquire / try / finally /
    release and a different number of updates of the still private dictionary *)
Example C12_ex_sk_equiv :
  (sk_equiv (text_wsdl Pinned) (text_wsdl Repaired) || sk_equiv (text_attrs Pinned) (text_attrs Repaired) ||
   sk_equiv (text_validate Pinned) (text_validate Repaired) ||
   sk_equiv (Rd AppWsdl ;; If CSome (Rd BWsdl) ;; If CNone wsdl_locked) (text_wsdl Repaired) ||
   sk_equiv (If CSome (Call Func) ;; Rd SortCache ;; If CFresh Ret ;; Wr SortCache ;; SortIt ;; Ret) text_sort ||
   sk_equiv (Rd MemoIn ;; If CMiss (Rd MemoIn ;; If CMiss (Call Func ;; Wr MemoIn ;; Ret)) ;; Rd MemoGet ;; Ret) text_memo)%sk
  = false /\
  (sk_equiv (Rd AppWsdl ;; If CNone (Rd BWsdl) ;; If CNone (With WLock (Try (Rd AppWsdl ;;
               If CNone (Call Build ;; Rd BWsdl ;; Wr AppWsdl)) Skip Skip))) (text_wsdl Repaired) &&
   sk_equiv (Rd AttrCache ;; If CSome Ret ;; New ;; If CTrue Upd ;; Wr AttrCache ;; Ret) (text_attrs Repaired))%sk
  = true.
Proof. vm_compute. split; reflexivity. Qed.
