(** C12 — concurrent requests do not interfere; lazy WSDL is built once, served whole.
    Property theorems only; each closed by [exact] of a lemma proved in coq/C12.

    The model (coq/C12/Model.v) is an interleaving transition system over the shared
    variables of WsgiApplication.handle_wsdl_request / Wsdl11 (double-checked lock),
    ProtocolBase.get_cls_attrs (_attrcache), memoize.__call__ and
    XmlDocument.__validate_lxml (shared XMLSchema.error_log).  Thread identifiers are
    arbitrary integers, so every statement below holds for ANY number of threads; [sched]
    ranges over ALL interleavings (one entry = one access to a shared variable, the finest
    granularity at which threads can observe each other).  [Repaired] is the program text
    after the three proposed fixes, [Pinned] the text of the snapshot. *)
From SpyneV Require Import Base.Prelude C12.Model C12.Proofs C12.Corr C12.Theorems.

Section C12.
Variable V : Type.                    (* attribute / memoised values: any type *)
Variable base : Z -> V.               (* base attributes of a class *)
Variable over1 over2 : Z -> V -> V.   (* the two prot_attrs overrides *)
Variable has_prot : Z -> bool.
Variable mf : Z -> V.                 (* any (pure) memoised function *)
Variable reqs : Z -> req.             (* any assignment of requests to threads *)

Notation run := (run V base over1 over2 has_prot mf).
Notation init := (init V base).
Notation alone := (alone V base over1 over2 has_prot mf).
Notation full := (full V base over1 over2 has_prot).
Notation step := (step V base over1 over2 has_prot mf).

(** build_interface_document runs at most once, whatever the schedule *)
Theorem C12_built_once : forall sched s,
  run Repaired reqs sched (init Repaired reqs) = Some s -> b_gen s <= 1.
Proof. intros sched s H. apply (built_once V base over1 over2 has_prot mf reqs). now exists sched. Qed.

(** every finished ?wsdl requester holds the document of the sequential build, and no
    other document is ever stored in the transport or the builder *)
Theorem C12_served_whole : forall sched s,
  run Repaired reqs sched (init Repaired reqs) = Some s ->
  (forall t, reqs t = RWsdl -> tpc (thr s t) = Done -> out (thr s t) = Some (PWsdl (Some 0))) /\
  (forall d, app_wsdl s = Some d -> d = 0) /\ (forall d, b_wsdl s = Some d -> d = 0).
Proof. intros sched s H. apply (served_whole V base over1 over2 has_prot mf reqs). now exists sched. Qed.

(** every finished caller holds exactly the response its request gets when processed alone *)
Theorem C12_no_interference : forall sched s t,
  run Repaired reqs sched (init Repaired reqs) = Some s ->
  tpc (thr s t) = Done -> out (thr s t) = alone (reqs t).
Proof. intros sched s t H. apply (no_interference V base over1 over2 has_prot mf reqs). now exists sched. Qed.

(** hence the response does not depend on the interleaving (a solo run is one of them) *)
Theorem C12_schedule_independent : forall sched1 sched2 s1 s2 t,
  run Repaired reqs sched1 (init Repaired reqs) = Some s1 ->
  run Repaired reqs sched2 (init Repaired reqs) = Some s2 ->
  tpc (thr s1 t) = Done -> tpc (thr s2 t) = Done -> out (thr s1 t) = out (thr s2 t).
Proof.
  intros sched1 sched2 s1 s2 t H1 H2.
  apply (schedule_independent V base over1 over2 has_prot mf reqs); [now exists sched1|now exists sched2].
Qed.

(** memoize: the table only ever holds f(key), every call returns f(key) *)
Theorem C12_memo_transparent : forall sched s,
  run Repaired reqs sched (init Repaired reqs) = Some s ->
  (forall k x, memo s k = Some x -> x = mf k) /\
  (forall t ks, reqs t = RMemo ks -> tpc (thr s t) = Done -> out (thr s t) = Some (PVals (map mf ks))).
Proof. intros sched s H. apply (memo_transparent V base over1 over2 has_prot mf reqs). now exists sched. Qed.

(** _attrcache: every published dictionary is complete, every caller sees the complete attributes *)
Theorem C12_attrs_transparent : forall sched s,
  run Repaired reqs sched (init Repaired reqs) = Some s ->
  (forall k r, cache s k = Some r -> heap s r = full k) /\
  (forall t ks, reqs t = RAttrs ks -> tpc (thr s t) = Done -> out (thr s t) = Some (PVals (map full ks))).
Proof. intros sched s H. apply (attrs_transparent V base over1 over2 has_prot mf reqs). now exists sched. Qed.

(** schema validation: a rejected request's fault carries its own error text *)
Theorem C12_errlog_isolated : forall sched s t ok e,
  run Repaired reqs sched (init Repaired reqs) = Some s ->
  reqs t = RValidate ok e -> tpc (thr s t) = Done ->
  out (thr s t) = Some (if ok then PValid else PFault (Some e)).
Proof. intros sched s t ok e H. apply (errlog_isolated V base over1 over2 has_prot mf reqs). now exists sched. Qed.

(** the three locks exclude: two threads inside the same critical section are one thread *)
Theorem C12_mutual_exclusion : forall sched s t u,
  run Repaired reqs sched (init Repaired reqs) = Some s ->
  (in_wcrit (tpc (thr s t)) = true -> in_wcrit (tpc (thr s u)) = true -> t = u) /\
  (in_vcrit (tpc (thr s t)) = true -> in_vcrit (tpc (thr s u)) = true -> t = u) /\
  (in_mcrit (tpc (thr s t)) = true -> in_mcrit (tpc (thr s u)) = true -> t = u).
Proof. intros sched s t u H. apply (mutual_exclusion V base over1 over2 has_prot mf reqs). now exists sched. Qed.

(** and they never dead-lock: while a request is unfinished some thread can move *)
Theorem C12_no_deadlock : forall sched s t,
  run Repaired reqs sched (init Repaired reqs) = Some s ->
  tpc (thr s t) <> Done -> exists u, step Repaired reqs s u <> None.
Proof. intros sched s t H. apply (no_deadlock V base over1 over2 has_prot mf reqs). now exists sched. Qed.

End C12.

(** The same statements are FALSE of the pinned program text (witness schedules over the
    integer instance; replayed on the real code by harness/c12.py): *)

(** two racing ?wsdl requests: two builds, the second requester gets (and the transport
    keeps) the document of the second build *)
Theorem C12_pinned_wsdl_refuted :
  exists sched s, crun Pinned (fun _ => RWsdl) sched (cinit Pinned (fun _ => RWsdl)) = Some s /\
    b_gen s = 2 /\ tpc (thr s 0) = Done /\ tpc (thr s 1) = Done /\
    out (thr s 0) = Some (PWsdl (Some 0)) /\ out (thr s 1) = Some (PWsdl (Some 1)) /\
    app_wsdl s = Some 1.
Proof. exact pinned_wsdl_refuted. Qed.

(** a cache hit between the store of the base dictionary and its prot_attrs updates *)
Theorem C12_pinned_attrs_refuted :
  exists sched s, crun Pinned attrs_reqs sched (cinit Pinned attrs_reqs) = Some s /\
    tpc (thr s 1) = Done /\ out (thr s 1) = Some (PVals [10]) /\
    calone (attrs_reqs 1) = Some (PVals [13]).
Proof. exact pinned_attrs_refuted. Qed.

(** another validation between validate() and the read of error_log: the fault carries
    the text 'None' or the other request's error text *)
Theorem C12_pinned_errlog_refuted :
  (exists sched s, let rq := errlog_reqs (RValidate true 0) in
     crun Pinned rq sched (cinit Pinned rq) = Some s /\
     tpc (thr s 0) = Done /\ out (thr s 0) = Some (PFault None) /\ calone (rq 0) = Some (PFault (Some 7))) /\
  (exists sched s, let rq := errlog_reqs (RValidate false 8) in
     crun Pinned rq sched (cinit Pinned rq) = Some s /\
     tpc (thr s 0) = Done /\ out (thr s 0) = Some (PFault (Some 8)) /\ calone (rq 0) = Some (PFault (Some 7))).
Proof. exact pinned_errlog_refuted. Qed.

(** non-vacuity: a concrete 4-thread interleaving of the repaired program in which all
    four kinds of request run to completion (so the hypotheses of the theorems above are
    met by a non-trivial reachable state), with one build and the sequential answers *)
Definition ex_reqs (t : Z) : req :=
  if t =? 0 then RWsdl else if t =? 1 then RWsdl else if t =? 2 then RValidate false 5
  else if t =? 3 then RAttrs [1; 1; 2] else if t =? 4 then RMemo [3; 3] else RIdle.
Definition ex_sched : list Z :=
  [0;1;2;3;4;0;1;2;3;4;0;2;2;3;4;0;3;3;3;4;0;3;3;4;4;0;4;0;0;0;1;1;1].
Example C12_ex_all_finish :
  exists s, crun Repaired ex_reqs ex_sched (cinit Repaired ex_reqs) = Some s /\
    forallb (fun t => match tpc (thr s t) with Done => true | _ => false end) [0;1;2;3;4] = true /\
    b_gen s = 1 /\ out (thr s 1) = Some (PWsdl (Some 0)) /\ out (thr s 2) = Some (PFault (Some 5)) /\
    out (thr s 3) = Some (PVals [13; 13; 20]) /\ out (thr s 4) = Some (PVals [24; 24]).
Proof. eexists. vm_compute. repeat split. Qed.
(** and a blocked thread exists in a reachable state (the locks do something) *)
Example C12_ex_blocks :
  exists s, crun Repaired ex_reqs [0;0;0;1;1] (cinit Repaired ex_reqs) = Some s /\
    cstep Repaired ex_reqs s 1 = None /\ tpc (thr s 1) = W_acq.
Proof. eexists. vm_compute. repeat split. Qed.
