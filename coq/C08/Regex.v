(** A small regular-expression engine for the patterns of
    spyne/model/primitive/datetime.py, spyne/protocol/_inbase.py and
    spyne/model/primitive/string.py (definitions only).

    The abstract syntax is what harness/translate/regexes.py emits from Python's own
    parse ([re._parser.parse]) of the pattern strings the imported modules compute:
    character classes, sequence, alternation, greedy bounded / unbounded repetition
    (an optional group is a repetition 0..1), capturing groups, and the end anchor \Z.

    RESTRICTION (stated in the evidence): [\d] is the ASCII class [0-9].  Python's
    [\d] on a str pattern without re.ASCII also matches the other Unicode decimal
    digits; those code points are outside the modelled universe, as they are for
    int() in Base/Digits.v.

    The matcher is the list-of-successes form of a backtracking matcher: [m r s e]
    is the list, IN THE ORDER A BACKTRACKING ENGINE EXPLORES THEM, of all ways [r]
    can match a prefix of [s], each with the matched prefix, the rest and the capture
    environment.  [pattern.match(s)] is the head of that list.  Structural recursion
    on the regex; repetition runs on an inner fuel [S (lo + length s)] that is
    provably sufficient (RegexProofs.rep_fuel_sufficient): every optional iteration
    must consume at least one character, as in sre. *)
From SpyneV Require Export Base.Prelude Base.Digits.

Inductive citem :=
| CRange (lo hi : Z)
| CDigit.                       (* \d, restricted to ASCII *)

Record cset := mkcset { cs_neg : bool; cs_items : list citem }.

Definition item_mem (c : Z) (i : citem) : bool :=
  match i with
  | CRange lo hi => (lo <=? c) && (c <=? hi)
  | CDigit => is_digit c
  end.
Definition cset_mem (cs : cset) (c : Z) : bool :=
  xorb (cs_neg cs) (existsb (item_mem c) (cs_items cs)).

Inductive re :=
| REps
| RChar (cs : cset)
| RSeq (a b : re)
| RAlt (a b : re)
| RRep (lo : nat) (hi : option nat) (a : re)      (* greedy; hi = None: unbounded *)
| RGroup (name : text) (a : re)                   (* capturing; unnamed groups are named "#<index>" *)
| REnd.                                           (* \Z *)

(** capture environment: latest binding first *)
Definition env := list (text * text).
Fixpoint lookup (n : text) (e : env) : option text :=
  match e with
  | [] => None
  | (k, v) :: t => if text_eqb k n then Some v else lookup n t
  end.

(** one way of matching: (matched prefix, rest, captures) *)
Definition res := (text * text * env)%type.

Definition hi_ok (hi : option nat) : bool := match hi with Some O => false | _ => true end.
Definition hi_pred (hi : option nat) : option nat :=
  match hi with Some h => Some (pred h) | None => None end.
Definition prepend (m1 : text) (r : res) : res :=
  let '(m2, t, e) := r in (m1 ++ m2, t, e).

(** greedy repetition of [ma]: first one more iteration (if the upper bound allows it
    and, once the lower bound is reached, if the iteration consumed something), then stop
    (if the lower bound is reached) *)
Fixpoint rep (ma : text -> env -> list res) (fuel lo : nat) (hi : option nat)
             (s : text) (e : env) : list res :=
  match fuel with
  | O => []
  | S f =>
      (if hi_ok hi then
         flat_map (fun r1 : res =>
                     let '(m1, t, e1) := r1 in
                     if Nat.ltb (length t) (length s) || negb (Nat.eqb lo 0)
                     then map (prepend m1) (rep ma f (pred lo) (hi_pred hi) t e1)
                     else [])
                  (ma s e)
       else [])
      ++ (if Nat.eqb lo 0 then [([], s, e)] else [])
  end.

Fixpoint m (r : re) : text -> env -> list res :=
  match r with
  | REps => fun s e => [([], s, e)]
  | RChar cs => fun s e =>
      match s with
      | c :: t => if cset_mem cs c then [([c], t, e)] else []
      | [] => []
      end
  | RSeq a b => fun s e =>
      flat_map (fun r1 : res => let '(m1, t, e1) := r1 in map (prepend m1) (m b t e1)) (m a s e)
  | RAlt a b => fun s e => m a s e ++ m b s e
  | RRep lo hi a => fun s e => rep (m a) (S (lo + length s)) lo hi s e
  | RGroup n a => fun s e =>
      map (fun r1 : res => let '(m1, t, e1) := r1 in (m1, t, (n, m1) :: e1)) (m a s e)
  | REnd => fun s e => match s with [] => [([], [], e)] | _ => [] end
  end.

(** [pattern.match(s)]: the first way, if any *)
Definition re_match (r : re) (s : text) : option res :=
  match m r s [] with x :: _ => Some x | [] => None end.
(** [pattern.fullmatch(s)] *)
Definition re_fullmatch (r : re) (s : text) : option res := re_match (RSeq r REnd) s.

(** ---- normal form ----
    Character classes become sorted, merged interval lists ([\d] becomes 48-57);
    sequences are flattened to the right; a repetition with equal small bounds is
    unfolded into copies.  [m (norm r) = m r] (RegexProofs.norm_sound), so two patterns
    with the same normal form match alike: a respelling such as [0-9] for \d, \d\d for
    \d{2} or (?:x) for x does not change the normal form. *)
Fixpoint insert_iv (lo hi : Z) (l : list (Z * Z)) : list (Z * Z) :=
  match l with
  | [] => [(lo, hi)]
  | (a, b) :: t =>
      if hi + 1 <? a then (lo, hi) :: (a, b) :: t
      else if b + 1 <? lo then (a, b) :: insert_iv lo hi t
      else insert_iv (Z.min lo a) (Z.max hi b) t
  end.
Definition item_iv (i : citem) : Z * Z :=
  match i with CRange lo hi => (lo, hi) | CDigit => (48, 57) end.
Definition norm_ivs (l : list citem) : list (Z * Z) :=
  fold_right (fun i acc => let '(a, b) := item_iv i in insert_iv a b acc) [] l.
Definition norm_cset (cs : cset) : cset :=
  mkcset (cs_neg cs) (map (fun ab : Z * Z => let '(a, b) := ab in CRange a b) (norm_ivs (cs_items cs))).

Fixpoint rseq_app (a b : re) : re :=
  match a with
  | REps => b
  | RSeq x y => RSeq x (rseq_app y b)
  | _ => match b with REps => a | _ => RSeq a b end
  end.
Fixpoint rcopies (n : nat) (a : re) : re :=
  match n with O => REps | S k => rseq_app a (rcopies k a) end.

Fixpoint norm (r : re) : re :=
  match r with
  | REps => REps
  | REnd => REnd
  | RChar cs => RChar (norm_cset cs)
  | RSeq a b => rseq_app (norm a) (norm b)
  | RAlt a b => RAlt (norm a) (norm b)
  | RGroup n a => RGroup n (norm a)
  | RRep lo hi a =>
      match hi with
      | Some h => if Nat.eqb lo h && Nat.leb h 64 then rcopies lo (norm a) else RRep lo hi (norm a)
      | None => RRep lo hi (norm a)
      end
  end.

(** syntactic over-approximation of "can match the empty string" *)
Fixpoint nullable (r : re) : bool :=
  match r with
  | REps => true
  | RChar _ => false
  | RSeq a b => nullable a && nullable b
  | RAlt a b => nullable a || nullable b
  | RRep lo _ a => Nat.eqb lo 0 || nullable a
  | RGroup _ a => nullable a
  | REnd => true
  end.
(** the fragment the translator accepts: no repetition of a nullable body (where sre's
    empty-iteration rules would matter) *)
Fixpoint wf (r : re) : bool :=
  match r with
  | REps | RChar _ | REnd => true
  | RSeq a b | RAlt a b => wf a && wf b
  | RRep _ _ a => negb (nullable a) && wf a
  | RGroup _ a => wf a
  end.

(** ---- observation of a match for the case files: (end position, captures by name) ---- *)
Definition optt_eqb (a b : option text) : bool :=
  match a, b with Some x, Some y => text_eqb x y | None, None => true | _, _ => false end.
Definition groups_eqb (e : env) (want : list (text * option text)) : bool :=
  forallb (fun nv : text * option text => optt_eqb (lookup (fst nv) e) (snd nv)) want.
(** expected: None = no match; Some (end, groupdict) *)
Definition match_agrees (r : re) (s : text) (want : option (Z * list (text * option text))) : bool :=
  match re_match r s, want with
  | None, None => true
  | Some (mt, _, e), Some (n, g) => (len mt =? n) && groups_eqb e g
  | _, _ => false
  end.
