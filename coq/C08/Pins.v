(* Pins: written by tools/mkpins.py from the tree the models of C08 were proved against.
   Each Example says that a token table REGENERATED from /repo on every run (Gen/Tokens.v) is
   still the one transcribed in the hand-written models; an edit of a decisive constant,
   operator, called method, except clause or regular expression breaks it. *)
From Coq Require Import ZArith List String.
From SpyneV Require Import Gen.Tokens.
Import ListNotations.
Open Scope Z_scope.

Example pin_tok_bin_from_base64 : tok_bin_from_base64 =
    [(t "call:type");
     (t "return");
     (t "call:b64decode");
     (t "call:.join");
     (t "except:TypeError,ValueError");
     (t "raise:ValidationError")].
Proof. vm_compute. reflexivity. Qed.

Example pin_tok_bin_from_hex : tok_bin_from_hex =
    [(t "call:isinstance");
     (t "return");
     (t "call:unhexlify");
     (t "return");
     (t "call:unhexlify");
     (t "call:_bytes_join");
     (t "except:TypeError,ValueError");
     (t "raise:ValidationError")].
Proof. vm_compute. reflexivity. Qed.

Example pin_tok_bin_from_urlsafe_base64 : tok_bin_from_urlsafe_base64 =
    [(t "call:isinstance");
     (t "call:.encode");
     (t "s:utf8");
     (t "except:UnicodeError");
     (t "raise:ValidationError");
     (t "call:isinstance");
     (t "return");
     (t "call:urlsafe_b64decode");
     (t "call:_bytes_join");
     (t "return");
     (t "call:urlsafe_b64decode");
     (t "except:TypeError,ValueError");
     (t "call:len");
     (t "op:Lt");
     (t "n:100");
     (t "raise:ValidationError");
     (t "raise:ValidationError")].
Proof. vm_compute. reflexivity. Qed.

Example pin_tok_bin_to_base64 : tok_bin_to_base64 =
    [(t "op:And");
     (t "call:isinstance");
     (t "call:len");
     (t "op:Gt");
     (t "n:0");
     (t "call:isinstance");
     (t "n:0");
     (t "return");
     (t "call:b64encode");
     (t "n:0");
     (t "call:isinstance");
     (t "return");
     (t "call:b64encode");
     (t "return");
     (t "call:b64encode");
     (t "call:.join");
     (t "y:")].
Proof. vm_compute. reflexivity. Qed.

Example pin_tok_bin_to_hex : tok_bin_to_hex =
    [(t "return");
     (t "call:hexlify");
     (t "call:_bytes_join")].
Proof. vm_compute. reflexivity. Qed.

Example pin_tok_bin_to_urlsafe_base64 : tok_bin_to_urlsafe_base64 =
    [(t "call:isinstance");
     (t "return");
     (t "call:urlsafe_b64encode");
     (t "call:_bytes_join");
     (t "return");
     (t "call:urlsafe_b64encode")].
Proof. vm_compute. reflexivity. Qed.

Example pin_tok_in__parse_datetime_iso_match : tok_in__parse_datetime_iso_match =
    [(t "call:.groupdict");
     (t "call:int");
     (t "call:.get");
     (t "s:year");
     (t "call:int");
     (t "call:.get");
     (t "s:month");
     (t "call:int");
     (t "call:.get");
     (t "s:day");
     (t "call:int");
     (t "call:.get");
     (t "s:hr");
     (t "call:int");
     (t "call:.get");
     (t "s:min");
     (t "call:int");
     (t "call:.get");
     (t "s:sec");
     (t "call:.get");
     (t "s:sec_frac");
     (t "op:Is");
     (t "n:0");
     (t "call:min");
     (t "n:999999");
     (t "call:int");
     (t "call:round");
     (t "call:float");
     (t "op:*");
     (t "f:0x1.e848000000000p+19");
     (t "return");
     (t "call:datetime");
     (t "except:ValueError");
     (t "raise:ValidationError")].
Proof. vm_compute. reflexivity. Qed.

Example pin_tok_in_boolean_from_bytes : tok_in_boolean_from_bytes =
    [(t "return");
     (t "call:.lower");
     (t "op:In");
     (t "s:true");
     (t "s:1")].
Proof. vm_compute. reflexivity. Qed.

Example pin_tok_in_byte_array_from_bytes : tok_in_byte_array_from_bytes =
    [(t "call:.get_cls_attrs");
     (t "op:Is");
     (t "return")].
Proof. vm_compute. reflexivity. Qed.

Example pin_tok_in_date_from_unicode : tok_in_date_from_unicode =
    [(t "call:._get_date_format");
     (t "call:.get_cls_attrs");
     (t "op:IsNot");
     (t "call:.strptime");
     (t "return");
     (t "call:date");
     (t "return");
     (t "call:.date_from_unicode_iso");
     (t "except:ValueError");
     (t "call:.match");
     (t "return");
     (t "call:date");
     (t "call:int");
     (t "call:.group");
     (t "s:year");
     (t "call:int");
     (t "call:.group");
     (t "s:month");
     (t "call:int");
     (t "call:.group");
     (t "s:day");
     (t "except:ValueError");
     (t "raise:ValidationError")].
Proof. vm_compute. reflexivity. Qed.

Example pin_tok_in_date_from_unicode_iso : tok_in_date_from_unicode_iso =
    [(t "return");
     (t "call:date");
     (t "call:strptime");
     (t "s:%Y-%m-%d");
     (t "n:0");
     (t "n:3");
     (t "except:ValueError");
     (t "call:.match");
     (t "call:int");
     (t "call:.group");
     (t "s:year");
     (t "call:int");
     (t "call:.group");
     (t "s:month");
     (t "call:int");
     (t "call:.group");
     (t "s:day");
     (t "return");
     (t "call:date");
     (t "except:ValueError");
     (t "raise:ValidationError");
     (t "raise:ValidationError")].
Proof. vm_compute. reflexivity. Qed.

Example pin_tok_in_decimal_from_unicode : tok_in_decimal_from_unicode =
    [(t "call:.get_cls_attrs");
     (t "op:And");
     (t "call:isinstance");
     (t "op:Not");
     (t "call:isinstance");
     (t "call:str");
     (t "op:Not");
     (t "call:isinstance");
     (t "raise:ValidationError");
     (t "op:And");
     (t "op:IsNot");
     (t "call:len");
     (t "op:Gt");
     (t "raise:ValidationError");
     (t "call:D");
     (t "except:InvalidOperation");
     (t "raise:ValidationError");
     (t "op:Not");
     (t "call:.is_finite");
     (t "raise:ValidationError");
     (t "return")].
Proof. vm_compute. reflexivity. Qed.

Example pin_tok_in_duration_from_unicode : tok_in_duration_from_unicode =
    [(t "call:.match");
     (t "op:Is");
     (t "raise:ValidationError");
     (t "call:.groupdict");
     (t "n:0");
     (t "call:int");
     (t "s:days");
     (t "call:int");
     (t "s:months");
     (t "op:*");
     (t "n:30");
     (t "call:int");
     (t "s:years");
     (t "op:*");
     (t "n:365");
     (t "call:int");
     (t "s:hours");
     (t "call:int");
     (t "s:minutes");
     (t "call:D");
     (t "s:seconds");
     (t "call:int");
     (t "call:int");
     (t "op:-");
     (t "op:*");
     (t "n:1000000");
     (t "call:timedelta");
     (t "s:sign");
     (t "op:Eq");
     (t "s:-");
     (t "op:USub");
     (t "n:1");
     (t "except:OverflowError");
     (t "raise:ValidationError");
     (t "return")].
Proof. vm_compute. reflexivity. Qed.

Example pin_tok_in_integer_from_bytes : tok_in_integer_from_bytes =
    [(t "call:.get_cls_attrs");
     (t "op:And");
     (t "call:isinstance");
     (t "op:IsNot");
     (t "call:len");
     (t "op:Gt");
     (t "raise:ValidationError");
     (t "return");
     (t "call:int");
     (t "except:ValueError");
     (t "raise:ValidationError")].
Proof. vm_compute. reflexivity. Qed.

Example pin_tok_in_time_from_unicode : tok_in_time_from_unicode =
    [(t "call:.match");
     (t "op:Is");
     (t "raise:ValidationError");
     (t "call:.groupdict");
     (t "n:0");
     (t "call:.get");
     (t "s:sec_frac");
     (t "op:Or");
     (t "op:Is");
     (t "op:Eq");
     (t "n:0");
     (t "n:0");
     (t "call:min");
     (t "n:999999");
     (t "call:int");
     (t "call:round");
     (t "call:float");
     (t "op:*");
     (t "f:0x1.e848000000000p+19");
     (t "return");
     (t "call:time");
     (t "call:int");
     (t "s:hr");
     (t "call:int");
     (t "s:min");
     (t "call:int");
     (t "s:sec");
     (t "except:ValueError");
     (t "raise:ValidationError")].
Proof. vm_compute. reflexivity. Qed.

Example pin_tok_in_uuid_from_unicode : tok_in_uuid_from_unicode =
    [(t "call:.get_cls_attrs");
     (t "op:Is");
     (t "op:In");
     (t "s:bytes");
     (t "s:bytes_le");
     (t "except:ValueError,TypeError,UnicodeDecodeError");
     (t "raise:ValidationError");
     (t "return")].
Proof. vm_compute. reflexivity. Qed.

Example pin_tok_out__datetime_to_unicode : tok_out__datetime_to_unicode =
    [(t "call:.get_cls_attrs");
     (t "op:And");
     (t "op:IsNot");
     (t "op:IsNot");
     (t "call:.astimezone");
     (t "op:Not");
     (t "call:.replace");
     (t "call:._get_datetime_format");
     (t "op:Is");
     (t "call:.isoformat");
     (t "call:.strftime");
     (t "op:Is");
     (t "op:IsNot");
     (t "return");
     (t "call:.format");
     (t "op:IsNot");
     (t "return");
     (t "call:.format");
     (t "return")].
Proof. vm_compute. reflexivity. Qed.

Example pin_tok_out_boolean_to_unicode : tok_out_boolean_to_unicode =
    [(t "return");
     (t "call:.lower");
     (t "call:str");
     (t "call:bool")].
Proof. vm_compute. reflexivity. Qed.

Example pin_tok_out_byte_array_to_unicode : tok_out_byte_array_to_unicode =
    [(t "call:.get_cls_attrs");
     (t "op:Is");
     (t "op:Is");
     (t "op:Is");
     (t "raise:ValueError");
     (t "op:Not");
     (t "call:isinstance");
     (t "call:.decode");
     (t "s:ascii");
     (t "return")].
Proof. vm_compute. reflexivity. Qed.

Example pin_tok_out_date_to_unicode : tok_out_date_to_unicode =
    [(t "call:isinstance");
     (t "call:.date");
     (t "call:.get_cls_attrs");
     (t "op:Or");
     (t "op:Is");
     (t "op:In");
     (t "s:str");
     (t "return");
     (t "call:._date_to_bytes");
     (t "return")].
Proof. vm_compute. reflexivity. Qed.

Example pin_tok_out_datetime_to_unicode : tok_out_datetime_to_unicode =
    [(t "call:.get_cls_attrs");
     (t "op:Or");
     (t "op:Is");
     (t "op:In");
     (t "s:str");
     (t "return");
     (t "call:._datetime_to_unicode");
     (t "return")].
Proof. vm_compute. reflexivity. Qed.

Example pin_tok_out_decimal_to_unicode : tok_out_decimal_to_unicode =
    [(t "call:D");
     (t "call:.get_cls_attrs");
     (t "op:IsNot");
     (t "return");
     (t "call:.format");
     (t "op:IsNot");
     (t "return");
     (t "op:%");
     (t "return");
     (t "call:str")].
Proof. vm_compute. reflexivity. Qed.

Example pin_tok_out_double_to_unicode : tok_out_double_to_unicode =
    [(t "call:float");
     (t "call:.get_cls_attrs");
     (t "op:IsNot");
     (t "return");
     (t "call:.format");
     (t "op:IsNot");
     (t "return");
     (t "op:%");
     (t "call:isinstance");
     (t "op:NotEq");
     (t "return");
     (t "s:NaN");
     (t "op:Eq");
     (t "call:float");
     (t "s:inf");
     (t "return");
     (t "s:INF");
     (t "op:Eq");
     (t "call:float");
     (t "s:-inf");
     (t "return");
     (t "s:-INF");
     (t "return");
     (t "call:repr")].
Proof. vm_compute. reflexivity. Qed.

Example pin_tok_out_integer_to_unicode : tok_out_integer_to_unicode =
    [(t "call:int");
     (t "call:.get_cls_attrs");
     (t "op:IsNot");
     (t "return");
     (t "call:.format");
     (t "op:IsNot");
     (t "return");
     (t "op:%");
     (t "return");
     (t "call:str")].
Proof. vm_compute. reflexivity. Qed.

Example pin_tok_out_time_to_unicode : tok_out_time_to_unicode =
    [(t "call:isinstance");
     (t "call:.time");
     (t "return");
     (t "call:.isoformat")].
Proof. vm_compute. reflexivity. Qed.

Example pin_tok_out_uuid_to_unicode : tok_out_uuid_to_unicode =
    [(t "call:.get_cls_attrs");
     (t "op:Is");
     (t "op:In");
     (t "s:bytes");
     (t "s:bytes_le");
     (t "return")].
Proof. vm_compute. reflexivity. Qed.

Example pin_val_fmt_DateTime_dt_format : val_fmt_DateTime_dt_format =
    (t "None").
Proof. vm_compute. reflexivity. Qed.

Example pin_val_fmt_DateTime_out_format : val_fmt_DateTime_out_format =
    (t "None").
Proof. vm_compute. reflexivity. Qed.

Example pin_val_fmt_DateTime_string_format : val_fmt_DateTime_string_format =
    (t "None").
Proof. vm_compute. reflexivity. Qed.

Example pin_val_fmt_Date_date_format : val_fmt_Date_date_format =
    (t "None").
Proof. vm_compute. reflexivity. Qed.

Example pin_val_fmt_Time_time_format : val_fmt_Time_time_format =
    (t "None").
Proof. vm_compute. reflexivity. Qed.

Example pin_val_fn_uuid_deserialize_default : val_fn_uuid_deserialize_default =
    (t "None: lambda s: uuid.UUID(s.decode('ascii') if isinstance(s, bytes) else s),").
Proof. vm_compute. reflexivity. Qed.

Example pin_val_fn_uuid_serialize_default : val_fn_uuid_serialize_default =
    (t "<class 'str'>").
Proof. vm_compute. reflexivity. Qed.
