(** Lemmas about the scanners of C08/DtModel.v (digits, fixed characters,
    greedy digit spans, the optional fraction, strptime's month/day groups). *)
From SpyneV Require Import Base.Digits Base.DigitsProofs C08.DtModel.
From Coq Require Import Lia ZifyBool.
Ltac Zify.zify_post_hook ::= Z.to_euclidean_division_equations.

Notation all_dig l := (Forall (fun c => is_digit c = true) l).

(** ---- scan_digits ---- *)
Lemma scan_digits_app ds : forall n acc r, length ds = n -> all_dig ds ->
  scan_digits n acc (ds ++ r) = Some (val_digits acc ds, r).
Proof.
  induction ds as [|c ds IH]; intros n acc r Hn HF; subst n; cbn [length scan_digits app].
  - reflexivity.
  - inversion HF as [|? ? Hc HF']; subst. rewrite Hc.
    rewrite (IH (length ds)) by auto. reflexivity.
Qed.

Lemma scan_zpad w n r : 0 <= n < 10 ^ Z.of_nat w ->
  scan_digits w 0 (zpad w n ++ r) = Some (n, r).
Proof.
  intros H. rewrite scan_digits_app; [|apply zpad_length|apply zpad_digits].
  rewrite zpad_val by exact H. f_equal; f_equal; lia.
Qed.

Lemma scan_zpad2 n r : 0 <= n < 100 -> scan_digits 2 0 (zpad 2 n ++ r) = Some (n, r).
Proof. intros H. apply scan_zpad. change (10 ^ Z.of_nat 2) with 100. exact H. Qed.

Lemma scan_zpad4 n r : 0 <= n < 10000 -> scan_digits 4 0 (zpad 4 n ++ r) = Some (n, r).
Proof. intros H. apply scan_zpad. change (10 ^ Z.of_nat 4) with 10000. exact H. Qed.

Lemma scan_digits_inv n : forall acc s v r, scan_digits n acc s = Some (v, r) ->
  exists ds, s = ds ++ r /\ length ds = n /\ all_dig ds /\ v = val_digits acc ds.
Proof.
  induction n as [|n IH]; intros acc s v r H; cbn [scan_digits] in H.
  - inversion H; subst. exists []. repeat split. constructor.
  - destruct s as [|c s]; [discriminate|]. destruct (is_digit c) eqn:Hc; [|discriminate].
    destruct (IH _ _ _ _ H) as (ds & -> & Hl & HF & ->).
    exists (c :: ds). cbn [app length]. repeat split; auto.
Qed.

Lemma scan_digits2_inv s v r : scan_digits 2 0 s = Some (v, r) ->
  exists c1 c2, s = c1 :: c2 :: r /\ is_digit c1 = true /\ is_digit c2 = true
                /\ v = (c1 - 48) * 10 + (c2 - 48).
Proof.
  intros H. destruct (scan_digits_inv _ _ _ _ _ H) as (ds & -> & Hl & HF & ->).
  destruct ds as [|c1 [|c2 [|? ?]]]; try discriminate Hl.
  inversion HF as [|? ? H1 HF1]; subst. inversion HF1 as [|? ? H2 _]; subst.
  exists c1, c2. repeat split; auto.
Qed.

Lemma scan_char_hd c r : scan_char c (c :: r) = Some r.
Proof. unfold scan_char. rewrite Z.eqb_refl. reflexivity. Qed.

Lemma scan_char_inv c s r : scan_char c s = Some r -> s = c :: r.
Proof.
  unfold scan_char. destruct s as [|x s]; [discriminate|].
  destruct (x =? c) eqn:E; [|discriminate]. intros H. inversion H; subst.
  apply Z.eqb_eq in E. subst. reflexivity.
Qed.

(** ---- value of a digit string ---- *)
Lemma val_digits_bound ds : all_dig ds -> 0 <= val_digits 0 ds < 10 ^ Z.of_nat (length ds).
Proof.
  induction ds as [|c ds IH] using rev_ind; intros HF.
  - change (10 ^ Z.of_nat (length (@nil Z))) with 1. unfold val_digits. cbn [fold_left]. lia.
  - apply Forall_app in HF. destruct HF as [HF Hc]. inversion Hc as [|? ? Hd _]; subst.
    specialize (IH HF).
    rewrite val_digits_app, app_length, Nat2Z.inj_add. cbn [length].
    change (Z.of_nat 1) with 1. rewrite Z.pow_add_r by lia. change (10 ^ 1) with 10.
    replace (val_digits (val_digits 0 ds) [c]) with (val_digits 0 ds * 10 + (c - 48)) by reflexivity.
    unfold is_digit in Hd. set (p := 10 ^ Z.of_nat (length ds)) in *. lia.
Qed.

(** ---- greedy digit span ---- *)
Definition nondigit_head (r : text) : Prop :=
  match r with [] => True | c :: _ => is_digit c = false end.

Lemma span_digits_app ds r : all_dig ds -> nondigit_head r -> span_digits (ds ++ r) = (ds, r).
Proof.
  induction 1 as [|c ds Hc HF IH]; intros Hr; cbn [app span_digits].
  - destruct r as [|c r]; [reflexivity|]. cbn [nondigit_head] in Hr. cbn [span_digits].
    rewrite Hr. reflexivity.
  - rewrite Hc, (IH Hr). reflexivity.
Qed.

Lemma span_digits_spec s : forall ds r, span_digits s = (ds, r) -> all_dig ds /\ s = ds ++ r.
Proof.
  induction s as [|c s IH]; intros ds r H; cbn [span_digits] in H.
  - inversion H; subst. split; [constructor|reflexivity].
  - destruct (is_digit c) eqn:Hc.
    + destruct (span_digits s) as [a b]. inversion H; subst.
      destruct (IH a r eq_refl) as [HF ->]. split; [constructor; auto|reflexivity].
    + inversion H; subst. split; [constructor|reflexivity].
Qed.

(** ---- (\.\d+)? ---- *)
Lemma scan_frac_eq s : scan_frac s =
  match s with
  | c :: r => if c =? 46
              then let (ds, rest) := span_digits r in
                   match ds with [] => (None, s) | _ => (Some ds, rest) end
              else (None, s)
  | [] => (None, s)
  end.
Proof.
  destruct s as [|c r]; [reflexivity|].
  destruct (c =? 46) eqn:E.
  - apply Z.eqb_eq in E. subst c. reflexivity.
  - unfold scan_frac. destruct c as [|p|p]; try reflexivity.
    do 7 (try (destruct p as [p|p|]; try reflexivity)). discriminate E.
Qed.

Lemma scan_frac_none r : match r with [] => True | c :: _ => c <> 46 end -> scan_frac r = (None, r).
Proof.
  intros H. rewrite scan_frac_eq. destruct r as [|c r]; [reflexivity|].
  replace (c =? 46) with false by lia. reflexivity.
Qed.

Lemma scan_frac_some ds r : all_dig ds -> ds <> [] -> nondigit_head r ->
  scan_frac (46 :: ds ++ r) = (Some ds, r).
Proof.
  intros HF Hne Hr. rewrite scan_frac_eq. rewrite Z.eqb_refl.
  rewrite (span_digits_app ds r HF Hr). destruct ds; [congruence|reflexivity].
Qed.

(** what the scanner can return *)
Lemma scan_frac_spec s f r : scan_frac s = (f, r) ->
  match f with None => r = s | Some ds => all_dig ds /\ ds <> [] /\ s = 46 :: ds ++ r end.
Proof.
  rewrite scan_frac_eq. destruct s as [|c s']; [intros H; inversion H; reflexivity|].
  destruct (c =? 46) eqn:E; [|intros H; inversion H; reflexivity].
  apply Z.eqb_eq in E. subst c.
  destruct (span_digits s') as [ds rest] eqn:Hs. destruct (span_digits_spec _ _ _ Hs) as [HF ->].
  destruct ds as [|d ds]; intros H; inversion H; subst; [reflexivity|].
  repeat split; [exact HF|discriminate].
Qed.

(** ---- the anchored tails: exactly "Z", or nothing ---- *)
Definition is_nil (s : text) : bool := match s with [] => true | _ => false end.
Definition is_Z_only (s : text) : bool := match s with [c] => c =? 90 | _ => false end.

Lemma match_Z_only {A} (s : text) (a b : A) :
  match s with [90] => a | _ => b end = if is_Z_only s then a else b.
Proof.
  destruct s as [|c r]; [reflexivity|].
  destruct (c =? 90) eqn:E.
  - apply Z.eqb_eq in E. subst c. destruct r; reflexivity.
  - assert (Hr : is_Z_only (c :: r) = false) by (destruct r; [exact E|reflexivity]).
    rewrite Hr. destruct c as [|p|p]; try reflexivity.
    do 8 (try (destruct p as [p|p|]; try reflexivity)). discriminate E.
Qed.

Lemma match_Z_nil {A} (s : text) (a n b : A) :
  match s with [90] => a | [] => n | _ => b end
  = if is_nil s then n else if is_Z_only s then a else b.
Proof.
  destruct s as [|c r]; [reflexivity|]. cbn [is_nil].
  destruct (c =? 90) eqn:E.
  - apply Z.eqb_eq in E. subst c. destruct r; reflexivity.
  - assert (Hr : is_Z_only (c :: r) = false) by (destruct r; [exact E|reflexivity]).
    rewrite Hr. destruct c as [|p|p]; try reflexivity.
    do 8 (try (destruct p as [p|p|]; try reflexivity)). discriminate E.
Qed.

Lemma is_Z_only_cons2 c d r : is_Z_only (c :: d :: r) = false.
Proof. reflexivity. Qed.

(** ---- appending text after a successful scan ---- *)
Lemma scan_digits_append n : forall acc s v r j,
  scan_digits n acc s = Some (v, r) -> scan_digits n acc (s ++ j) = Some (v, r ++ j).
Proof.
  induction n as [|n IH]; intros acc s v r j H; cbn [scan_digits] in *.
  - inversion H; subst. reflexivity.
  - destruct s as [|c s]; [discriminate|]. cbn [app].
    destruct (is_digit c); [|discriminate]. apply IH. exact H.
Qed.

Lemma scan_char_append c s r j : scan_char c s = Some r -> scan_char c (s ++ j) = Some (r ++ j).
Proof.
  unfold scan_char. destruct s as [|x s]; [discriminate|]. cbn [app].
  destruct (x =? c); [|discriminate]. intros H. inversion H; subst. reflexivity.
Qed.

Lemma span_digits_nondigit j : nondigit_head j -> span_digits j = ([], j).
Proof.
  destruct j as [|c j]; [reflexivity|]. cbn [nondigit_head span_digits]. intros ->. reflexivity.
Qed.

Lemma span_digits_append s : forall ds r j, span_digits s = (ds, r) -> nondigit_head j ->
  span_digits (s ++ j) = (ds, r ++ j).
Proof.
  induction s as [|c s IH]; intros ds r j H Hj.
  - cbn [span_digits] in H. inversion H; subst. cbn [app]. apply span_digits_nondigit. exact Hj.
  - cbn [app span_digits] in *. destruct (is_digit c).
    + destruct (span_digits s) as [a b]. inversion H; subst.
      rewrite (IH _ _ j eq_refl Hj). reflexivity.
    + inversion H; subst. reflexivity.
Qed.

Lemma scan_frac_append s f r j : scan_frac s = (f, r) ->
  match j with [] => True | c :: _ => is_digit c = false /\ c <> 46 end ->
  scan_frac (s ++ j) = (f, r ++ j).
Proof.
  intros H Hj.
  assert (Hnd : nondigit_head j) by (destruct j; [exact I|apply Hj]).
  rewrite scan_frac_eq in *. destruct s as [|c s'].
  - inversion H; subst. cbn [app]. rewrite <- scan_frac_eq. apply scan_frac_none.
    destruct j; [exact I|apply Hj].
  - cbn [app]. destruct (c =? 46); [|inversion H; subst; reflexivity].
    destruct (span_digits s') as [ds rest] eqn:Hs.
    rewrite (span_digits_append s' ds rest j Hs Hnd).
    destruct ds; inversion H; subst; reflexivity.
Qed.

(** ---- strptime's month and day groups on two digits ---- *)
Lemma digit_cases c : is_digit c = true ->
  c = 48 \/ c = 49 \/ c = 50 \/ c = 51 \/ c = 52 \/ c = 53 \/ c = 54 \/ c = 55 \/ c = 56 \/ c = 57.
Proof. unfold is_digit. lia. Qed.

Lemma scan_month_2d c1 c2 r : is_digit c1 = true -> is_digit c2 = true ->
  1 <= (c1 - 48) * 10 + (c2 - 48) <= 12 ->
  scan_month (c1 :: c2 :: r) = Some ((c1 - 48) * 10 + (c2 - 48), r).
Proof.
  intros H1 H2 Hm.
  assert (Hc1 : c1 = 48 \/ c1 = 49) by (unfold is_digit in *; lia).
  pose proof (digit_cases c2 H2) as Hc2.
  destruct Hc1 as [-> | ->];
    repeat (destruct Hc2 as [-> | Hc2]); try subst c2; try lia; reflexivity.
Qed.

Lemma scan_day_2d c1 c2 r : is_digit c1 = true -> is_digit c2 = true ->
  1 <= (c1 - 48) * 10 + (c2 - 48) <= 31 ->
  scan_day (c1 :: c2 :: r) = Some ((c1 - 48) * 10 + (c2 - 48), r).
Proof.
  intros H1 H2 Hm.
  assert (Hc1 : c1 = 48 \/ c1 = 49 \/ c1 = 50 \/ c1 = 51) by (unfold is_digit in *; lia).
  pose proof (digit_cases c2 H2) as Hc2.
  destruct Hc1 as [-> | [-> | [-> | ->]]];
    repeat (destruct Hc2 as [-> | Hc2]); try subst c2; try lia; reflexivity.
Qed.
