(** Lemmas about the binary codecs of C08/BinModel.v (base64, urlsafe base64, hex). *)
From SpyneV Require Import Base.Prelude C08.BinModel.
From SpyneV Require Import C08.DurModel.   (* only for [lower] = str.lower() on ASCII *)
From Coq Require Import Lia ZifyBool.
Ltac Zify.zify_post_hook ::= Z.to_euclidean_division_equations.

Definition bytes (bs : list Z) : Prop := Forall (fun b => byte_ok b = true) bs.

(** induction on lists in steps of three *)
Lemma list_ind3 {A} (P : list A -> Prop) :
  P [] -> (forall a, P [a]) -> (forall a b, P [a; b]) ->
  (forall a b c r, P r -> P (a :: b :: c :: r)) -> forall l, P l.
Proof.
  intros H0 H1 H2 H3 l.
  assert (H : P l /\ (forall a, P (a :: l)) /\ (forall a b, P (a :: b :: l))).
  { induction l as [|x l (IH0 & IH1 & IH2)]; [auto|].
    split; [apply IH1|]. split; [intros a; apply IH2|]. intros a b. apply H3. exact IH0. }
  apply H.
Qed.

(** ---- the alphabet ---- *)

Ltac split_ifs :=
  repeat match goal with
         | |- context [if ?b then _ else _] => destruct b eqn:?
         end.

Ltac char_cases v :=
  unfold b64_char;
  destruct (v <? 26) eqn:?;
    [|destruct (v <? 52) eqn:?; [|destruct (v <? 62) eqn:?; [|destruct (v =? 62) eqn:?]]].

Lemma b64_dval_char url v : 0 <= v < 64 -> b64_dval url (b64_char url v) = Some v.
Proof.
  intros Hv. char_cases v; destruct url; unfold b64_dval, b64_val; split_ifs;
    try (exfalso; lia); try (f_equal; lia).
Qed.

Lemma b64_val_char v : 0 <= v < 64 -> b64_val false (b64_char false v) = Some v.
Proof.
  intros Hv. char_cases v; unfold b64_val; split_ifs; try (exfalso; lia); try (f_equal; lia).
Qed.

Lemma b64_char_range url v : 0 <= v < 64 -> 43 <= b64_char url v < 128 /\ b64_char url v <> 61.
Proof. intros Hv. char_cases v; destruct url; lia. Qed.

(** ---- base64: decode (encode bs) = bs ---- *)

Lemma a2b_step url qp left pads acc v r : 0 <= v < 64 ->
  a2b_go url qp left pads acc (b64_char url v :: r) =
  if qp =? 0 then a2b_go url 1 v 0 acc r
  else if qp =? 1 then a2b_go url 2 (v mod 16) 0 ((left * 4 + v / 16) :: acc) r
  else if qp =? 2 then a2b_go url 3 (v mod 4) 0 ((left * 16 + v / 4) :: acc) r
  else a2b_go url 0 0 0 ((left * 64 + v) :: acc) r.
Proof.
  intros Hv. cbn [a2b_go]. destruct (b64_char_range url v Hv) as [_ Hne].
  replace (b64_char url v =? 61) with false by lia.
  rewrite (b64_dval_char url v Hv). reflexivity.
Qed.

Lemma a2b_step0 url left pads acc v r : 0 <= v < 64 ->
  a2b_go url 0 left pads acc (b64_char url v :: r) = a2b_go url 1 v 0 acc r.
Proof. intros Hv. rewrite a2b_step by exact Hv. reflexivity. Qed.
Lemma a2b_step1 url left pads acc v r : 0 <= v < 64 ->
  a2b_go url 1 left pads acc (b64_char url v :: r)
  = a2b_go url 2 (v mod 16) 0 ((left * 4 + v / 16) :: acc) r.
Proof. intros Hv. rewrite a2b_step by exact Hv. reflexivity. Qed.
Lemma a2b_step2 url left pads acc v r : 0 <= v < 64 ->
  a2b_go url 2 left pads acc (b64_char url v :: r)
  = a2b_go url 3 (v mod 4) 0 ((left * 16 + v / 4) :: acc) r.
Proof. intros Hv. rewrite a2b_step by exact Hv. reflexivity. Qed.
Lemma a2b_step3 url left pads acc v r : 0 <= v < 64 ->
  a2b_go url 3 left pads acc (b64_char url v :: r)
  = a2b_go url 0 0 0 ((left * 64 + v) :: acc) r.
Proof. intros Hv. rewrite a2b_step by exact Hv. reflexivity. Qed.

Lemma a2b_quad url acc v0 v1 v2 v3 r :
  0 <= v0 < 64 -> 0 <= v1 < 64 -> 0 <= v2 < 64 -> 0 <= v3 < 64 ->
  a2b_go url 0 0 0 acc (b64_char url v0 :: b64_char url v1 :: b64_char url v2 :: b64_char url v3 :: r)
  = a2b_go url 0 0 0 ((v2 mod 4 * 64 + v3) :: (v1 mod 16 * 16 + v2 / 4) :: (v0 * 4 + v1 / 16) :: acc) r.
Proof.
  intros H0 H1 H2 H3.
  rewrite a2b_step0, a2b_step1, a2b_step2, a2b_step3 by assumption. reflexivity.
Qed.

Lemma a2b_encode url : forall bs, bytes bs ->
  forall acc, a2b_go url 0 0 0 acc (b64encode url bs) = Ok (rev acc ++ bs).
Proof.
  unfold bytes, byte_ok.
  induction bs as [|b0|b0 b1|b0 b1 b2 r IH] using list_ind3; intros Hb acc.
  - cbn. rewrite app_nil_r. reflexivity.
  - inversion Hb as [|? ? H0 _]; subst. cbn [b64encode].
    rewrite a2b_step0, a2b_step1 by lia. cbn. f_equal. f_equal. f_equal. lia.
  - inversion Hb as [|? ? H0 Hb']; subst. inversion Hb' as [|? ? H1 _]; subst. cbn [b64encode].
    rewrite a2b_step0, a2b_step1, a2b_step2 by lia. cbn. rewrite <- app_assoc. cbn [app]. f_equal. f_equal.
    f_equal; [lia|f_equal; lia].
  - inversion Hb as [|? ? H0 Hb']; subst. inversion Hb' as [|? ? H1 Hb'']; subst.
    inversion Hb'' as [|? ? H2 Hr]; subst. cbn [b64encode].
    rewrite a2b_quad by lia. rewrite (IH Hr). cbn [rev]. rewrite <- !app_assoc. cbn [app].
    f_equal. f_equal. f_equal; [lia|]. f_equal; [lia|]. f_equal. lia.
Qed.

Lemma b64encode_ascii url : forall bs, bytes bs ->
  forallb (fun c => c <? 128) (b64encode url bs) = true.
Proof.
  unfold bytes, byte_ok.
  assert (Hc : forall v, 0 <= v < 64 -> (b64_char url v <? 128) = true).
  { intros v Hv. pose proof (b64_char_range url v Hv). lia. }
  induction bs as [|b0|b0 b1|b0 b1 b2 r IH] using list_ind3; intros Hb.
  - reflexivity.
  - inversion Hb as [|? ? H0 _]; subst. cbn [b64encode forallb].
    rewrite !Hc by lia. reflexivity.
  - inversion Hb as [|? ? H0 Hb']; subst. inversion Hb' as [|? ? H1 _]; subst.
    cbn [b64encode forallb]. rewrite !Hc by lia. reflexivity.
  - inversion Hb as [|? ? H0 Hb']; subst. inversion Hb' as [|? ? H1 Hb'']; subst.
    inversion Hb'' as [|? ? H2 Hr]; subst. cbn [b64encode forallb].
    rewrite !Hc by lia. rewrite (IH Hr). reflexivity.
Qed.

(** F1. base64 and urlsafe base64 are lossless on every byte string *)
Lemma b64_roundtrip url bs : bytes bs -> b64decode url (b64encode url bs) = Ok bs.
Proof.
  intros Hb. unfold b64decode. rewrite (b64encode_ascii url bs Hb), orb_true_r.
  rewrite (a2b_encode url bs Hb []). reflexivity.
Qed.

(** ---- base64: the output is canonical xs:base64Binary ---- *)

Ltac pos_cases :=
  repeat match goal with
         | |- context [match ?p with xI _ => _ | xO _ => _ | xH => _ end] =>
             is_var p; destruct p; cbv beta iota
         end.

Lemma xs_base64_quad a b c d r : c <> 61 -> d <> 61 ->
  xs_base64 (a :: b :: c :: d :: r) =
  match b64_val false a, b64_val false b, b64_val false c, b64_val false d with
  | Some _, Some _, Some _, Some _ => xs_base64 r
  | _, _, _, _ => false
  end.
Proof.
  intros Hc Hd. cbn [xs_base64].
  destruct c as [|p|p]; cbv beta iota; pos_cases; try congruence;
    (destruct d as [|q|q]; cbv beta iota; pos_cases; try congruence; try reflexivity;
     destruct r; reflexivity).
Qed.

Lemma xs_base64_pad1 a b c : c <> 61 ->
  xs_base64 [a; b; c; 61] =
  match b64_val false a, b64_val false b, b64_val false c with
  | Some _, Some _, Some z => z mod 4 =? 0
  | _, _, _ => false
  end.
Proof.
  intros Hc. cbn [xs_base64].
  destruct c as [|p|p]; cbv beta iota; pos_cases; try congruence; reflexivity.
Qed.

(** F3. what to_base64 writes is an xs:base64Binary literal *)
Lemma b64encode_xs : forall bs, bytes bs -> xs_base64 (b64encode false bs) = true.
Proof.
  unfold bytes, byte_ok.
  assert (Hne : forall v, 0 <= v < 64 -> b64_char false v <> 61).
  { intros v Hv. apply b64_char_range. exact Hv. }
  induction bs as [|b0|b0 b1|b0 b1 b2 r IH] using list_ind3; intros Hb.
  - reflexivity.
  - inversion Hb as [|? ? H0 _]; subst. cbn [b64encode xs_base64].
    rewrite !b64_val_char by lia. lia.
  - inversion Hb as [|? ? H0 Hb']; subst. inversion Hb' as [|? ? H1 _]; subst.
    cbn [b64encode]. rewrite xs_base64_pad1 by (apply Hne; lia).
    rewrite !b64_val_char by lia. lia.
  - inversion Hb as [|? ? H0 Hb']; subst. inversion Hb' as [|? ? H1 Hb'']; subst.
    inversion Hb'' as [|? ? H2 Hr]; subst. cbn [b64encode].
    rewrite xs_base64_quad by (apply Hne; lia).
    rewrite !b64_val_char by lia. apply IH. exact Hr.
Qed.

(** ---- hex ---- *)

Lemma hex_val_char v : 0 <= v < 16 -> hex_val (hex_char v) = Some v.
Proof.
  intros Hv. unfold hex_char. destruct (v <? 10) eqn:?; unfold hex_val; split_ifs;
    try (exfalso; lia); try (f_equal; lia).
Qed.

(** F2. hexlify / unhexlify are lossless on every byte string *)
Lemma hex_roundtrip : forall bs, bytes bs -> unhexlify (hexlify bs) = Ok bs.
Proof.
  unfold bytes, byte_ok. induction 1 as [|b r Hb Hr IH]; [reflexivity|].
  cbn [hexlify unhexlify]. rewrite !hex_val_char by lia. rewrite IH. f_equal. f_equal. lia.
Qed.

(** F4. what to_hex writes is an xs:hexBinary literal *)
Lemma hexlify_xs : forall bs, bytes bs -> xs_hex (hexlify bs) = true.
Proof.
  unfold bytes, byte_ok. induction 1 as [|b r Hb Hr IH]; [reflexivity|].
  cbn [hexlify xs_hex]. rewrite !hex_val_char by lia. exact IH.
Qed.

(** ---- F5. the decoders are total: a value or ValidationError, never another exception ---- *)

Lemma a2b_go_total url : forall s qp left pads acc, is_crash (a2b_go url qp left pads acc s) = false.
Proof.
  induction s as [|c r IH]; intros qp left pads acc; cbn [a2b_go].
  - destruct (qp =? 0); reflexivity.
  - destruct (c =? 61).
    + destruct (2 <=? qp); [|apply IH]. destruct (4 <=? qp + (pads + 1)); [reflexivity|apply IH].
    + destruct (b64_dval url c); [|apply IH].
      destruct (qp =? 0); [apply IH|]. destruct (qp =? 1); [apply IH|].
      destruct (qp =? 2); apply IH.
Qed.

Lemma b64decode_total url s : is_crash (b64decode url s) = false.
Proof.
  unfold b64decode. destruct (url || forallb _ s); [apply a2b_go_total|reflexivity].
Qed.

Lemma unhexlify_total : forall s, is_crash (unhexlify s) = false.
Proof.
  assert (H : forall s, is_crash (unhexlify s) = false /\ forall a, is_crash (unhexlify (a :: s)) = false).
  { induction s as [|b r [IH0 IH1]]; [split; reflexivity|].
    split; [apply IH1|]. intros a. cbn [unhexlify].
    destruct (hex_val a); [|reflexivity]. destruct (hex_val b); [|reflexivity].
    destruct (unhexlify r); [reflexivity|reflexivity|exact IH0]. }
  intros s. apply H.
Qed.

(** decoded values are byte strings again (what reaches user code is a valid bytes object) *)
Lemma hex_val_range c v : hex_val c = Some v -> 0 <= v < 16.
Proof. unfold hex_val. split_ifs; intros H; inversion H; lia. Qed.

Lemma unhexlify_bytes : forall s bs, unhexlify s = Ok bs -> bytes bs.
Proof.
  assert (H : forall s, (forall bs, unhexlify s = Ok bs -> bytes bs)
                        /\ forall a bs, unhexlify (a :: s) = Ok bs -> bytes bs).
  { induction s as [|b r [IH0 IH1]].
    - split; [intros bs H; inversion H; constructor|intros a bs H; discriminate].
    - split; [apply IH1|]. intros a bs. cbn [unhexlify].
      destruct (hex_val a) as [x|] eqn:Ea; [|discriminate].
      destruct (hex_val b) as [y|] eqn:Eb; [|discriminate].
      destruct (unhexlify r) as [l| |] eqn:Er; try discriminate.
      intros H; inversion H; subst. constructor; [|apply IH0; reflexivity].
      apply hex_val_range in Ea, Eb. unfold byte_ok. lia. }
  intros s. apply H.
Qed.

(** ---- input lexical space: every canonical literal is read, and denotes the
    byte string whose encoding it is ---- *)

Lemma list_ind4 {A} (P : list A -> Prop) :
  P [] -> (forall a, P [a]) -> (forall a b, P [a; b]) -> (forall a b c, P [a; b; c]) ->
  (forall a b c d r, P r -> P (a :: b :: c :: d :: r)) -> forall l, P l.
Proof.
  intros H0 H1 H2 H3 H4 l.
  assert (H : P l /\ (forall a, P (a :: l)) /\ (forall a b, P (a :: b :: l))
              /\ (forall a b c, P (a :: b :: c :: l))).
  { induction l as [|x l (IH0 & IH1 & IH2 & IH3)]; [auto|].
    split; [apply IH1|]. split; [intros a; apply IH2|]. split; [intros a b; apply IH3|].
    intros a b c. apply H4. exact IH0. }
  apply H.
Qed.

(** the alphabet, read the other way *)
Lemma b64_val_inv c v : b64_val false c = Some v ->
  0 <= v < 64 /\ b64_char false v = c /\ c <> 61 /\ (c <? 128) = true
  /\ forall url, b64_dval url c = Some v.
Proof.
  intros H. assert (Hd : forall url, b64_dval url c = Some v).
  { intros url. unfold b64_dval. rewrite H. reflexivity. }
  revert H. unfold b64_val. split_ifs; intros H; inversion H; subst; clear H;
    (split; [lia|]); (split; [unfold b64_char; split_ifs; lia|]); (split; [lia|]); (split; [lia|exact Hd]).
Qed.

Lemma a2b_step_val url qp left pads acc c v r : b64_val false c = Some v ->
  a2b_go url qp left pads acc (c :: r) =
  if qp =? 0 then a2b_go url 1 v 0 acc r
  else if qp =? 1 then a2b_go url 2 (v mod 16) 0 ((left * 4 + v / 16) :: acc) r
  else if qp =? 2 then a2b_go url 3 (v mod 4) 0 ((left * 16 + v / 4) :: acc) r
  else a2b_go url 0 0 0 ((left * 64 + v) :: acc) r.
Proof.
  intros Hv. destruct (b64_val_inv c v Hv) as (_ & _ & Hne & _ & Hd).
  cbn [a2b_go]. replace (c =? 61) with false by lia. rewrite (Hd url). reflexivity.
Qed.

(** the three shapes a non-empty canonical literal can start with *)
Lemma xs_base64_inv a b c d r : xs_base64 (a :: b :: c :: d :: r) = true ->
  exists x y, b64_val false a = Some x /\ b64_val false b = Some y /\
    ((c = 61 /\ d = 61 /\ r = [] /\ y mod 16 = 0)
     \/ (exists z, b64_val false c = Some z /\ d = 61 /\ r = [] /\ z mod 4 = 0)
     \/ (exists z w, b64_val false c = Some z /\ b64_val false d = Some w /\ xs_base64 r = true)).
Proof.
  assert (N61 : b64_val false 61 = None) by reflexivity.
  destruct (Z.eq_dec c 61) as [->|Hc].
  - destruct (Z.eq_dec d 61) as [->|Hd].
    + destruct r as [|e r].
      * cbn [xs_base64]. destruct (b64_val false a) as [x|]; [|discriminate].
        destruct (b64_val false b) as [y|]; [|discriminate].
        intros H. exists x, y. repeat split. left. repeat split. lia.
      * cbn [xs_base64]. destruct (b64_val false a); [|discriminate].
        destruct (b64_val false b); discriminate.
    + intros H. exfalso. revert H. cbn [xs_base64].
      destruct d as [|q|q]; cbv beta iota; pos_cases; try congruence;
        (destruct (b64_val false a); [|discriminate]);
        (destruct (b64_val false b); discriminate).
  - destruct (Z.eq_dec d 61) as [->|Hd].
    + destruct r as [|e r].
      * rewrite xs_base64_pad1 by exact Hc.
        destruct (b64_val false a) as [x|]; [|discriminate].
        destruct (b64_val false b) as [y|]; [|discriminate].
        destruct (b64_val false c) as [z|]; [|discriminate].
        intros H. exists x, y. repeat split. right. left. exists z. repeat split. lia.
      * intros H. exfalso. revert H. cbn [xs_base64].
        destruct c as [|p|p]; cbv beta iota; pos_cases; try congruence;
          (destruct (b64_val false a); [|discriminate]);
          (destruct (b64_val false b); [|discriminate]);
          (match goal with |- context [b64_val false ?k] => destruct (b64_val false k) end;
           discriminate).
    + rewrite xs_base64_quad by assumption.
      destruct (b64_val false a) as [x|]; [|discriminate].
      destruct (b64_val false b) as [y|]; [|discriminate].
      destruct (b64_val false c) as [z|]; [|discriminate].
      destruct (b64_val false d) as [w|]; [|discriminate].
      intros H. exists x, y. repeat split. right. right. exists z, w. repeat split. exact H.
Qed.

Lemma a2b_pad2 url left acc : a2b_go url 2 left 0 acc [61; 61] = Ok (rev acc).
Proof. reflexivity. Qed.
Lemma a2b_pad1 url left acc : a2b_go url 3 left 0 acc [61] = Ok (rev acc).
Proof. reflexivity. Qed.

Lemma xs_base64_decode url : forall s, xs_base64 s = true ->
  forall acc, exists bs, bytes bs /\ a2b_go url 0 0 0 acc s = Ok (rev acc ++ bs)
                         /\ b64encode false bs = s /\ forallb (fun c => c <? 128) s = true.
Proof.
  unfold bytes, byte_ok.
  induction s as [|a|a b|a b c|a b c d r IH] using list_ind4; intros Hx acc.
  - exists []. rewrite app_nil_r. repeat split. constructor.
  - discriminate.
  - discriminate.
  - exfalso. revert Hx. cbn [xs_base64]. destruct c as [|p|p]; cbv beta iota; pos_cases; discriminate.
  - destruct (xs_base64_inv a b c d r Hx) as (x & y & Ha & Hb & Hcase).
    destruct (b64_val_inv a x Ha) as (Rx & Ca & _ & La & _).
    destruct (b64_val_inv b y Hb) as (Ry & Cb & _ & Lb & _).
    destruct Hcase as [(-> & -> & -> & Hy) | [(z & Hc & -> & -> & Hz) | (z & w & Hc & Hd & Hr)]].
    + exists [x * 4 + y / 16]. split; [repeat constructor; lia|].
      rewrite (a2b_step_val url 0 _ _ _ a x _ Ha). cbv beta iota. change (0 =? 0) with true. cbv iota.
      rewrite (a2b_step_val url 1 _ _ _ b y _ Hb). change (1 =? 0) with false.
      change (1 =? 1) with true. cbv iota. rewrite a2b_pad2. cbn [rev].
      split; [reflexivity|]. split.
      * cbn [b64encode]. rewrite <- Ca, <- Cb. repeat f_equal; lia.
      * cbn [forallb]. rewrite La, Lb. reflexivity.
    + destruct (b64_val_inv c z Hc) as (Rz & Cc & _ & Lc & _).
      exists [x * 4 + y / 16; y mod 16 * 16 + z / 4]. split; [repeat constructor; lia|].
      rewrite (a2b_step_val url 0 _ _ _ a x _ Ha). change (0 =? 0) with true. cbv iota.
      rewrite (a2b_step_val url 1 _ _ _ b y _ Hb). change (1 =? 0) with false.
      change (1 =? 1) with true. cbv iota.
      rewrite (a2b_step_val url 2 _ _ _ c z _ Hc). change (2 =? 0) with false.
      change (2 =? 1) with false. change (2 =? 2) with true. cbv iota.
      rewrite a2b_pad1. cbn [rev]. rewrite <- app_assoc. cbn [app].
      split; [reflexivity|]. split.
      * cbn [b64encode]. rewrite <- Ca, <- Cb. rewrite <- Cc.
        repeat f_equal; lia.
      * cbn [forallb]. rewrite La, Lb, Lc. reflexivity.
    + destruct (b64_val_inv c z Hc) as (Rz & Cc & _ & Lc & _).
      destruct (b64_val_inv d w Hd) as (Rw & Cd & _ & Ld & _).
      destruct (IH Hr ((z mod 4 * 64 + w) :: (y mod 16 * 16 + z / 4) :: (x * 4 + y / 16) :: acc))
        as (bs & Hbs & Hgo & Henc & Hasc).
      exists ((x * 4 + y / 16) :: (y mod 16 * 16 + z / 4) :: (z mod 4 * 64 + w) :: bs).
      split; [repeat (constructor; [lia|]); exact Hbs|].
      rewrite (a2b_step_val url 0 _ _ _ a x _ Ha). change (0 =? 0) with true. cbv iota.
      rewrite (a2b_step_val url 1 _ _ _ b y _ Hb). change (1 =? 0) with false.
      change (1 =? 1) with true. cbv iota.
      rewrite (a2b_step_val url 2 _ _ _ c z _ Hc). change (2 =? 0) with false.
      change (2 =? 1) with false. change (2 =? 2) with true. cbv iota.
      rewrite (a2b_step_val url 3 _ _ _ d w _ Hd). change (3 =? 0) with false.
      change (3 =? 1) with false. change (3 =? 2) with false. cbv iota.
      rewrite Hgo. cbn [rev]. rewrite <- !app_assoc. cbn [app].
      split; [reflexivity|]. split.
      * cbn [b64encode]. rewrite Henc. rewrite <- Ca, <- Cb.
        rewrite <- Cc. rewrite <- Cd. repeat f_equal; lia.
      * cbn [forallb]. rewrite La, Lb, Lc, Ld, Hasc. reflexivity.
Qed.

(** every canonical xs:base64Binary literal is read (by both readers) as the
    byte string whose encoding it is *)
Lemma b64_in_lex s : xs_base64 s = true ->
  exists bs, bytes bs /\ b64encode false bs = s /\ forall url, b64decode url s = Ok bs.
Proof.
  intros Hx. destruct (xs_base64_decode false s Hx []) as (bs & Hbs & Hgo & Henc & Hasc).
  exists bs. split; [exact Hbs|]. split; [exact Henc|].
  intros url. unfold b64decode. rewrite Hasc, orb_true_r.
  destruct (xs_base64_decode url s Hx []) as (bs' & Hbs' & Hgo' & Henc' & _).
  rewrite Hgo'. cbn [rev app]. f_equal.
  (* both decodings re-encode to s; the encoding is injective by the round trip *)
  pose proof (b64_roundtrip false bs Hbs) as R1. pose proof (b64_roundtrip false bs' Hbs') as R2.
  rewrite Henc in R1. rewrite Henc' in R2. congruence.
Qed.

(** hex: every xs:hexBinary literal (either case) is read as the byte string
    whose hexlify is the literal in lower case *)
Lemma hex_val_inv c v : hex_val c = Some v -> 0 <= v < 16 /\ hex_char v = lower c.
Proof.
  unfold hex_val, hex_char, lower. split_ifs; intros H; inversion H; lia.
Qed.

Lemma hex_in_lex : forall s, xs_hex s = true ->
  exists bs, bytes bs /\ unhexlify s = Ok bs /\ hexlify bs = map lower s.
Proof.
  unfold bytes, byte_ok.
  assert (H : forall s,
    (xs_hex s = true -> exists bs, Forall (fun b => (0 <=? b) && (b <? 256) = true) bs
                                   /\ unhexlify s = Ok bs /\ hexlify bs = map lower s)
    /\ forall a, (xs_hex (a :: s) = true ->
                  exists bs, Forall (fun b => (0 <=? b) && (b <? 256) = true) bs
                             /\ unhexlify (a :: s) = Ok bs /\ hexlify bs = map lower (a :: s))).
  { induction s as [|b r [IH0 IH1]].
    - split; [intros _; exists []; repeat split; constructor|intros a H; discriminate].
    - split; [apply IH1|]. intros a. cbn [xs_hex unhexlify].
      destruct (hex_val a) as [x|] eqn:Ea; [|discriminate].
      destruct (hex_val b) as [y|] eqn:Eb; [|discriminate].
      intros Hr. destruct (IH0 Hr) as (bs & Hbs & Hun & Hhex).
      destruct (hex_val_inv a x Ea) as [Rx Cx]. destruct (hex_val_inv b y Eb) as [Ry Cy].
      exists ((x * 16 + y) :: bs). split; [constructor; [lia|exact Hbs]|].
      rewrite Hun. split; [reflexivity|].
      cbn [hexlify map]. rewrite Hhex, <- Cx, <- Cy. repeat f_equal; lia. }
  intros s. apply H.
Qed.

(** whatever the (lenient) base64 reader accepts is a byte string *)
Lemma b64_dval_range url c v : b64_dval url c = Some v -> 0 <= v < 64.
Proof.
  unfold b64_dval, b64_val. destruct url; split_ifs; intros H; inversion H; lia.
Qed.

Definition a2b_inv (qp left : Z) : Prop :=
  qp = 0 \/ (qp = 1 /\ 0 <= left < 64) \/ (qp = 2 /\ 0 <= left < 16) \/ (qp = 3 /\ 0 <= left < 4).

Lemma a2b_go_bytes url : forall s qp left pads acc bs,
  bytes acc -> a2b_inv qp left -> a2b_go url qp left pads acc s = Ok bs -> bytes bs.
Proof.
  unfold bytes, a2b_inv.
  induction s as [|c r IH]; intros qp left pads acc bs Hacc Hinv; cbn [a2b_go].
  - destruct (qp =? 0); [|discriminate]. intros H; inversion H; subst.
    apply Forall_rev. exact Hacc.
  - destruct (c =? 61).
    + destruct (2 <=? qp); [|apply IH; assumption].
      destruct (4 <=? qp + (pads + 1)); [|apply IH; assumption].
      intros H; inversion H; subst. apply Forall_rev. exact Hacc.
    + destruct (b64_dval url c) as [v|] eqn:Ev; [|apply IH; assumption].
      apply b64_dval_range in Ev.
      destruct (qp =? 0) eqn:E0; [apply IH; [assumption|lia]|].
      destruct (qp =? 1) eqn:E1.
      { apply IH; [constructor; [unfold byte_ok; lia|assumption]|lia]. }
      destruct (qp =? 2) eqn:E2.
      { apply IH; [constructor; [unfold byte_ok; lia|assumption]|lia]. }
      apply IH; [constructor; [unfold byte_ok; lia|assumption]|lia].
Qed.

Lemma b64decode_bytes url s bs : b64decode url s = Ok bs -> bytes bs.
Proof.
  unfold b64decode. destruct (url || forallb _ s); [|discriminate].
  apply a2b_go_bytes; [constructor|left; reflexivity].
Qed.
