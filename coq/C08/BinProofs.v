(** Lemmas about the binary codecs of C08/BinModel.v (base64, urlsafe base64, hex). *)
From SpyneV Require Import Base.Prelude C08.BinModel.
From Coq Require Import Lia ZifyBool.
Ltac Zify.zify_post_hook ::= Z.to_euclidean_division_equations.

Definition bytes (bs : list Z) : Prop := Forall (fun b => byte_ok b = true) bs.

(** induction on lists in steps of three *)
Lemma list_ind3 {A} (P : list A -> Prop) :
  P [] -> (forall a, P [a]) -> (forall a b, P [a; b]) ->
  (forall a b c r, P r -> P (a :: b :: c :: r)) -> forall l, P l.
Proof.
  intros H0 H1 H2 H3 l.
  assert (H : P l /\ (forall a, P (a :: l)) /\ (forall a b, P (a :: b :: l))).
  { induction l as [|x l (IH0 & IH1 & IH2)]; [auto|].
    split; [apply IH1|]. split; [intros a; apply IH2|]. intros a b. apply H3. exact IH0. }
  apply H.
Qed.

(** ---- the alphabet ---- *)

Ltac split_ifs :=
  repeat match goal with
         | |- context [if ?b then _ else _] => destruct b eqn:?
         end.

Ltac char_cases v :=
  unfold b64_char;
  destruct (v <? 26) eqn:?;
    [|destruct (v <? 52) eqn:?; [|destruct (v <? 62) eqn:?; [|destruct (v =? 62) eqn:?]]].

Lemma b64_dval_char url v : 0 <= v < 64 -> b64_dval url (b64_char url v) = Some v.
Proof.
  intros Hv. char_cases v; destruct url; unfold b64_dval, b64_val; split_ifs;
    try (exfalso; lia); try (f_equal; lia).
Qed.

Lemma b64_val_char v : 0 <= v < 64 -> b64_val false (b64_char false v) = Some v.
Proof.
  intros Hv. char_cases v; unfold b64_val; split_ifs; try (exfalso; lia); try (f_equal; lia).
Qed.

Lemma b64_char_range url v : 0 <= v < 64 -> 43 <= b64_char url v < 128 /\ b64_char url v <> 61.
Proof. intros Hv. char_cases v; destruct url; lia. Qed.

(** ---- base64: decode (encode bs) = bs ---- *)

Lemma a2b_step url qp left pads acc v r : 0 <= v < 64 ->
  a2b_go url qp left pads acc (b64_char url v :: r) =
  if qp =? 0 then a2b_go url 1 v 0 acc r
  else if qp =? 1 then a2b_go url 2 (v mod 16) 0 ((left * 4 + v / 16) :: acc) r
  else if qp =? 2 then a2b_go url 3 (v mod 4) 0 ((left * 16 + v / 4) :: acc) r
  else a2b_go url 0 0 0 ((left * 64 + v) :: acc) r.
Proof.
  intros Hv. cbn [a2b_go]. destruct (b64_char_range url v Hv) as [_ Hne].
  replace (b64_char url v =? 61) with false by lia.
  rewrite (b64_dval_char url v Hv). reflexivity.
Qed.

Lemma a2b_quad url acc v0 v1 v2 v3 r :
  0 <= v0 < 64 -> 0 <= v1 < 64 -> 0 <= v2 < 64 -> 0 <= v3 < 64 ->
  a2b_go url 0 0 0 acc (b64_char url v0 :: b64_char url v1 :: b64_char url v2 :: b64_char url v3 :: r)
  = a2b_go url 0 0 0 ((v2 mod 4 * 64 + v3) :: (v1 mod 16 * 16 + v2 / 4) :: (v0 * 4 + v1 / 16) :: acc) r.
Proof.
  intros H0 H1 H2 H3. rewrite !a2b_step by assumption. reflexivity.
Qed.

Lemma a2b_encode url : forall bs, bytes bs ->
  forall acc, a2b_go url 0 0 0 acc (b64encode url bs) = Ok (rev acc ++ bs).
Proof.
  unfold bytes, byte_ok.
  induction bs as [|b0|b0 b1|b0 b1 b2 r IH] using list_ind3; intros Hb acc.
  - cbn. rewrite app_nil_r. reflexivity.
  - inversion Hb as [|? ? H0 _]; subst. cbn [b64encode].
    rewrite !a2b_step by lia. cbn. f_equal. f_equal. f_equal. lia.
  - inversion Hb as [|? ? H0 Hb']; subst. inversion Hb' as [|? ? H1 _]; subst. cbn [b64encode].
    rewrite !a2b_step by lia. cbn. rewrite <- app_assoc. cbn [app]. f_equal. f_equal.
    f_equal; [lia|f_equal; lia].
  - inversion Hb as [|? ? H0 Hb']; subst. inversion Hb' as [|? ? H1 Hb'']; subst.
    inversion Hb'' as [|? ? H2 Hr]; subst. cbn [b64encode].
    rewrite a2b_quad by lia. rewrite (IH Hr). cbn [rev]. rewrite <- !app_assoc. cbn [app].
    f_equal. f_equal. f_equal; [lia|]. f_equal; [lia|]. f_equal. lia.
Qed.

Lemma b64encode_ascii url : forall bs, bytes bs ->
  forallb (fun c => c <? 128) (b64encode url bs) = true.
Proof.
  unfold bytes, byte_ok.
  assert (Hc : forall v, 0 <= v < 64 -> (b64_char url v <? 128) = true).
  { intros v Hv. pose proof (b64_char_range url v Hv). lia. }
  induction bs as [|b0|b0 b1|b0 b1 b2 r IH] using list_ind3; intros Hb.
  - reflexivity.
  - inversion Hb as [|? ? H0 _]; subst. cbn [b64encode forallb].
    rewrite !Hc by lia. reflexivity.
  - inversion Hb as [|? ? H0 Hb']; subst. inversion Hb' as [|? ? H1 _]; subst.
    cbn [b64encode forallb]. rewrite !Hc by lia. reflexivity.
  - inversion Hb as [|? ? H0 Hb']; subst. inversion Hb' as [|? ? H1 Hb'']; subst.
    inversion Hb'' as [|? ? H2 Hr]; subst. cbn [b64encode forallb].
    rewrite !Hc by lia. rewrite (IH Hr). reflexivity.
Qed.

(** F1. base64 and urlsafe base64 are lossless on every byte string *)
Lemma b64_roundtrip url bs : bytes bs -> b64decode url (b64encode url bs) = Ok bs.
Proof.
  intros Hb. unfold b64decode. rewrite (b64encode_ascii url bs Hb), orb_true_r.
  rewrite (a2b_encode url bs Hb []). reflexivity.
Qed.

(** ---- base64: the output is canonical xs:base64Binary ---- *)

Ltac pos_cases :=
  repeat match goal with
         | |- context [match ?p with xI _ => _ | xO _ => _ | xH => _ end] =>
             is_var p; destruct p; cbv beta iota
         end.

Lemma xs_base64_quad a b c d r : c <> 61 -> d <> 61 ->
  xs_base64 (a :: b :: c :: d :: r) =
  match b64_val false a, b64_val false b, b64_val false c, b64_val false d with
  | Some _, Some _, Some _, Some _ => xs_base64 r
  | _, _, _, _ => false
  end.
Proof.
  intros Hc Hd. cbn [xs_base64].
  destruct c as [|p|p]; cbv beta iota; pos_cases; try congruence;
    (destruct d as [|q|q]; cbv beta iota; pos_cases; try congruence; try reflexivity;
     destruct r; reflexivity).
Qed.

Lemma xs_base64_pad1 a b c : c <> 61 ->
  xs_base64 [a; b; c; 61] =
  match b64_val false a, b64_val false b, b64_val false c with
  | Some _, Some _, Some z => z mod 4 =? 0
  | _, _, _ => false
  end.
Proof.
  intros Hc. cbn [xs_base64].
  destruct c as [|p|p]; cbv beta iota; pos_cases; try congruence; reflexivity.
Qed.

(** F3. what to_base64 writes is an xs:base64Binary literal *)
Lemma b64encode_xs : forall bs, bytes bs -> xs_base64 (b64encode false bs) = true.
Proof.
  unfold bytes, byte_ok.
  assert (Hne : forall v, 0 <= v < 64 -> b64_char false v <> 61).
  { intros v Hv. apply b64_char_range. exact Hv. }
  induction bs as [|b0|b0 b1|b0 b1 b2 r IH] using list_ind3; intros Hb.
  - reflexivity.
  - inversion Hb as [|? ? H0 _]; subst. cbn [b64encode xs_base64].
    rewrite !b64_val_char by lia. lia.
  - inversion Hb as [|? ? H0 Hb']; subst. inversion Hb' as [|? ? H1 _]; subst.
    cbn [b64encode]. rewrite xs_base64_pad1 by (apply Hne; lia).
    rewrite !b64_val_char by lia. lia.
  - inversion Hb as [|? ? H0 Hb']; subst. inversion Hb' as [|? ? H1 Hb'']; subst.
    inversion Hb'' as [|? ? H2 Hr]; subst. cbn [b64encode].
    rewrite xs_base64_quad by (apply Hne; lia).
    rewrite !b64_val_char by lia. apply IH. exact Hr.
Qed.

(** ---- hex ---- *)

Lemma hex_val_char v : 0 <= v < 16 -> hex_val (hex_char v) = Some v.
Proof.
  intros Hv. unfold hex_char. destruct (v <? 10) eqn:?; unfold hex_val; split_ifs;
    try (exfalso; lia); try (f_equal; lia).
Qed.

(** F2. hexlify / unhexlify are lossless on every byte string *)
Lemma hex_roundtrip : forall bs, bytes bs -> unhexlify (hexlify bs) = Ok bs.
Proof.
  unfold bytes, byte_ok. induction 1 as [|b r Hb Hr IH]; [reflexivity|].
  cbn [hexlify unhexlify]. rewrite !hex_val_char by lia. rewrite IH. f_equal. f_equal. lia.
Qed.

(** F4. what to_hex writes is an xs:hexBinary literal *)
Lemma hexlify_xs : forall bs, bytes bs -> xs_hex (hexlify bs) = true.
Proof.
  unfold bytes, byte_ok. induction 1 as [|b r Hb Hr IH]; [reflexivity|].
  cbn [hexlify xs_hex]. rewrite !hex_val_char by lia. exact IH.
Qed.

(** ---- F5. the decoders are total: a value or ValidationError, never another exception ---- *)

Lemma a2b_go_total url : forall s qp left pads acc, is_crash (a2b_go url qp left pads acc s) = false.
Proof.
  induction s as [|c r IH]; intros qp left pads acc; cbn [a2b_go].
  - destruct (qp =? 0); reflexivity.
  - destruct (c =? 61).
    + destruct (2 <=? qp); [|apply IH]. destruct (4 <=? qp + (pads + 1)); [reflexivity|apply IH].
    + destruct (b64_dval url c); [|apply IH].
      destruct (qp =? 0); [apply IH|]. destruct (qp =? 1); [apply IH|].
      destruct (qp =? 2); apply IH.
Qed.

Lemma b64decode_total url s : is_crash (b64decode url s) = false.
Proof.
  unfold b64decode. destruct (url || forallb _ s); [apply a2b_go_total|reflexivity].
Qed.

Lemma unhexlify_total : forall s, is_crash (unhexlify s) = false.
Proof.
  assert (H : forall s, is_crash (unhexlify s) = false /\ forall a, is_crash (unhexlify (a :: s)) = false).
  { induction s as [|b r [IH0 IH1]]; [split; reflexivity|].
    split; [apply IH1|]. intros a. cbn [unhexlify].
    destruct (hex_val a); [|reflexivity]. destruct (hex_val b); [|reflexivity].
    destruct (unhexlify r); [reflexivity|reflexivity|exact IH0]. }
  intros s. apply H.
Qed.

(** decoded values are byte strings again (what reaches user code is a valid bytes object) *)
Lemma hex_val_range c v : hex_val c = Some v -> 0 <= v < 16.
Proof. unfold hex_val. split_ifs; intros H; inversion H; lia. Qed.

Lemma unhexlify_bytes : forall s bs, unhexlify s = Ok bs -> bytes bs.
Proof.
  assert (H : forall s, (forall bs, unhexlify s = Ok bs -> bytes bs)
                        /\ forall a bs, unhexlify (a :: s) = Ok bs -> bytes bs).
  { induction s as [|b r [IH0 IH1]].
    - split; [intros bs H; inversion H; constructor|intros a bs H; discriminate].
    - split; [apply IH1|]. intros a bs. cbn [unhexlify].
      destruct (hex_val a) as [x|] eqn:Ea; [|discriminate].
      destruct (hex_val b) as [y|] eqn:Eb; [|discriminate].
      destruct (unhexlify r) as [l| |] eqn:Er; try discriminate.
      intros H; inversion H; subst. constructor; [|apply IH0; reflexivity].
      apply hex_val_range in Ea, Eb. unfold byte_ok. lia. }
  intros s. apply H.
Qed.
