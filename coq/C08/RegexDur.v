(** The hand-written scanner of C08/DurModel.v (duration_from_unicode) computes exactly what the
    generic matcher computes on the reference AST of _duration_re, for ALL input strings: the
    optional groups never need backtracking, because what follows a group can never start with the
    digits-then-letter the group would have taken. *)
From SpyneV Require Import Base.DigitsProofs C08.Regex C08.RegexProofs C08.RegexRef C08.RegexDt
                           C08.RegexDurRef C08.DtModel C08.DurModel C08.ScanLemmas.
From Coq Require Import Lia ZifyBool.

(** ---- an optional non-nullable piece followed by K: take it, or skip it ---- *)
Lemma m_ropt_seq a K : nullable a = false -> forall s e,
  m (RSeq (ropt a) K) s e = m (RSeq a K) s e ++ m K s e.
Proof.
  intros Hn s e. rewrite (m_seq (ropt a)). unfold ropt. rewrite (m_opt a Hn), flat_map_app.
  cbn [flat_map]. rewrite app_nil_r, map_prepend_nil, <- m_seq. reflexivity.
Qed.

(** ---- (?P<n>\d+)X followed by K ---- *)
Lemma flat_map_plus_res_env {X} s e (F : res -> list X) (G : text -> text -> list X) :
  (forall m1 t, F (m1, t, e) = G m1 t) ->
  flat_map F (plus_res s e) = flat_map (fun r1 : res => let '(m1, t, _) := r1 in G m1 t) (plus_res s e).
Proof.
  intros H. apply flat_map_ext_in. intros [[m1 t] e1] Hin. apply plus_res_env in Hin. subst e1. apply H.
Qed.

Definition scan_unit_t (X : Z) (s : text) : option (text * text) :=
  match span_digits s with
  | (d :: ds, x :: r) => if x =? X then Some (d :: ds, r) else None
  | _ => None
  end.

Lemma m_unit_body n X K : is_digit X = false -> forall s e,
  m (RSeq (RSeq (RGroup n plusdig) (lit X)) K) s e =
  match scan_unit_t X s with
  | Some (ds, r) => map (prepend (ds ++ [X])) (m K r ((n, ds) :: e))
  | None => []
  end.
Proof.
  intros HX s e. rewrite m_seq_assoc, m_seq, m_group, m_plusdig, flat_map_map.
  rewrite (flat_map_plus_res_env s e _
             (fun m1 t => map (prepend m1) (m (RSeq (lit X) K) t ((n, m1) :: e)))) by reflexivity.
  rewrite plus_res_flat_map.
  - unfold scan_unit_t. destruct (span_digits s) as [ds rest]. destruct ds as [|d ds]; [reflexivity|].
    rewrite m_seq, m_lit. destruct rest as [|x r]; [reflexivity|].
    destruct (x =? X) eqn:E; [|reflexivity]. apply Z.eqb_eq in E. subst x.
    cbn [flat_map]. rewrite app_nil_r, map_prepend_app. reflexivity.
  - intros pre c t Hc. rewrite m_seq, m_lit. replace (c =? X) with false; [reflexivity|].
    unfold is_digit in *. lia.
Qed.

Lemma nullable_unit n X : nullable (RSeq (RGroup n plusdig) (lit X)) = false.
Proof. reflexivity. Qed.

(** what follows a group rejects the digits-then-X the group would have taken *)
Definition rej (K : re) (X : Z) : Prop :=
  forall ds r e, all_dig ds -> ds <> [] -> m K (ds ++ X :: r) e = [].

Lemma scan_unit_t_spec X s ds r : scan_unit_t X s = Some (ds, r) ->
  s = ds ++ X :: r /\ all_dig ds /\ ds <> [].
Proof.
  unfold scan_unit_t. destruct (span_digits s) as [a rest] eqn:E. destruct a as [|d a]; [discriminate|].
  destruct rest as [|x r']; [discriminate|]. destruct (x =? X) eqn:Ex; [|discriminate].
  apply Z.eqb_eq in Ex. subst x. intros H; inversion H; subst.
  destruct (span_digits_spec _ _ _ E) as [HF ->]. split; [reflexivity|]. split; [exact HF|discriminate].
Qed.

Lemma m_unit_K n X K : is_digit X = false -> rej K X -> forall s e,
  m (RSeq (unitg n X) K) s e =
  match scan_unit_t X s with
  | Some (ds, r) => map (prepend (ds ++ [X])) (m K r ((n, ds) :: e))
  | None => m K s e
  end.
Proof.
  intros HX HK s e. unfold unitg. rewrite (m_ropt_seq _ K (nullable_unit n X)), (m_unit_body n X K HX).
  destruct (scan_unit_t X s) as [[ds r]|] eqn:E; [|reflexivity].
  destruct (scan_unit_t_spec _ _ _ _ E) as (-> & HF & Hne). rewrite (HK ds r e HF Hne), app_nil_r. reflexivity.
Qed.

Lemma scan_unit_t_other X Y ds r : is_digit X = false -> X <> Y -> all_dig ds -> ds <> [] ->
  scan_unit_t Y (ds ++ X :: r) = None.
Proof.
  intros HX Hne HF Hd. unfold scan_unit_t. rewrite span_digits_app by (auto; exact HX).
  destruct ds; [congruence|]. replace (X =? Y) with false by lia. reflexivity.
Qed.

Lemma rej_unit n X Y K : is_digit X = false -> is_digit Y = false -> X <> Y -> rej K X ->
  rej (RSeq (unitg n Y) K) X.
Proof.
  intros HX HY Hne HK ds r e HF Hd. unfold unitg.
  rewrite (m_ropt_seq _ K (nullable_unit n Y)), (m_unit_body n Y K HY).
  rewrite (scan_unit_t_other X Y ds r HX Hne HF Hd). cbn [app]. apply HK; assumption.
Qed.

Lemma rej_end X : rej REnd X.
Proof. intros ds r e _ Hd. destruct ds; [congruence|]. reflexivity. Qed.

Lemma digits_head ds X r : all_dig ds -> ds <> [] -> exists c t, ds ++ X :: r = c :: t /\ is_digit c = true.
Proof.
  intros HF Hd. destruct ds as [|c ds]; [congruence|]. inversion HF; subst. exists c, (ds ++ X :: r). auto.
Qed.

(** ---- the fraction group, any name, any use of its results ---- *)
Definition frac_wrap_n (n : text) (e : env) (r1 : res) : res :=
  let '(m1, t, _) := r1 in (46 :: m1, t, (n, 46 :: m1) :: e).

Lemma m_fracgrp_n n s e :
  m (fracgrp_n n) s e = match s with
                        | c :: t => if c =? 46 then map (frac_wrap_n n e) (plus_res t e) else []
                        | [] => []
                        end.
Proof.
  unfold fracgrp_n. rewrite m_group, m_seq, m_lit. destruct s as [|c t]; [reflexivity|].
  destruct (c =? 46) eqn:E; [|reflexivity]. apply Z.eqb_eq in E. subst c.
  cbn [flat_map]. rewrite app_nil_r, m_plusdig, map_map.
  apply map_ext_in. intros [[m1 t1] e1] Hin. apply plus_res_env in Hin. subst e1. reflexivity.
Qed.

Lemma flat_map_fracopt_n {X} n (H : text -> text -> env -> list X) :
  (forall pre c t e', is_digit c = true -> H pre (c :: t) e' = []) ->
  (forall t e', H [] (46 :: t) e' = []) ->
  forall s e,
  flat_map (fun r1 : res => let '(m1, t, e1) := r1 in H m1 t e1) (m (ropt (fracgrp_n n)) s e) =
  match scan_frac s with
  | (Some fd, rest) => H (46 :: fd) rest ((n, 46 :: fd) :: e)
  | (None, _) => H [] s e
  end.
Proof.
  intros Hdig Hdot s e. unfold ropt. rewrite (m_opt (fracgrp_n n) eq_refl), flat_map_app.
  cbn [flat_map]. rewrite app_nil_r, m_fracgrp_n, scan_frac_eq.
  destruct s as [|c t]; [reflexivity|]. destruct (c =? 46) eqn:E; [|reflexivity].
  apply Z.eqb_eq in E. subst c. rewrite Hdot, app_nil_r, flat_map_map.
  rewrite (flat_map_ext_in _ (fun r1 : res => let '(m1, t0, _) := r1 in
             (fun a b => H (46 :: a) b ((n, 46 :: a) :: e)) m1 t0))
    by (intros [[a b] d] _; reflexivity).
  rewrite plus_res_flat_map.
  - destruct (span_digits t) as [ds rest]. destruct ds; reflexivity.
  - intros pre c t0 Hc. apply Hdig. exact Hc.
Qed.

(** ---- (?P<seconds>\d+(\.\d+)?)S followed by K ---- *)
Definition scan_seconds_t (s : text) : option (text * option text * text) :=
  let (ds, r) := span_digits s in
  match ds with
  | [] => None
  | _ =>
      let (f, r2) := scan_frac r in
      match r2 with
      | x :: r3 => if x =? 83 then Some (ds, f, r3) else None
      | [] => None
      end
  end.

Definition sec_text (ds : text) (f : option text) : text :=
  ds ++ match f with Some fd => 46 :: fd | None => [] end.
Definition sec_env (ds : text) (f : option text) (e : env) : env :=
  (g_seconds, sec_text ds f) :: match f with Some fd => (g_8, 46 :: fd) :: e | None => e end.

Lemma m_secbody_K K s e :
  m (RSeq secbody K) s e =
  match scan_seconds_t s with
  | Some (ds, f, r3) => map (prepend (sec_text ds f ++ [83])) (m K r3 (sec_env ds f e))
  | None => []
  end.
Proof.
  unfold secbody. rewrite m_seq_assoc, m_seq, m_group, m_seq, m_plusdig.
  rewrite flat_map_map, flat_map_flat_map.
  set (Hf := fun (m1 m2 t2 : text) (e2 : env) =>
               map (prepend (m1 ++ m2)) (m (RSeq (lit 83) K) t2 ((g_seconds, m1 ++ m2) :: e2))).
  rewrite (flat_map_plus_res_env s e _
             (fun m1 t => flat_map (fun r2 : res => let '(m2, t2, e2) := r2 in Hf m1 m2 t2 e2)
                                   (m (ropt (fracgrp_n g_8)) t e))).
  2:{ intros m1 t. rewrite flat_map_map. apply flat_map_ext_in. intros [[m2 t2] e2] _. reflexivity. }
  assert (Hrej1 : forall m1 pre c t e', is_digit c = true -> Hf m1 pre (c :: t) e' = []).
  { intros m1 pre c t e' Hc. unfold Hf. rewrite m_seq, m_lit.
    replace (c =? 83) with false by (unfold is_digit in Hc; lia). reflexivity. }
  assert (Hrej2 : forall m1 t e', Hf m1 [] (46 :: t) e' = []).
  { intros m1 t e'. unfold Hf. rewrite m_seq, m_lit. reflexivity. }
  rewrite plus_res_flat_map.
  - unfold scan_seconds_t. destruct (span_digits s) as [ds rest]. destruct ds as [|d ds]; [reflexivity|].
    rewrite (flat_map_fracopt_n g_8 (Hf (d :: ds)) (Hrej1 (d :: ds)) (Hrej2 (d :: ds))).
    destruct (scan_frac rest) as [[fd|] r2] eqn:Ef.
    + unfold Hf; rewrite m_seq, m_lit.
      destruct r2 as [|x r3]; [reflexivity|]. destruct (x =? 83) eqn:E; [|reflexivity].
      apply Z.eqb_eq in E. subst x. cbn [flat_map]. rewrite app_nil_r, map_prepend_app.
      unfold sec_text, sec_env. reflexivity.
    + apply scan_frac_none_rest in Ef. subst r2. unfold Hf; rewrite m_seq, m_lit.
      destruct rest as [|x r3]; [reflexivity|]. destruct (x =? 83) eqn:E; [|reflexivity].
      apply Z.eqb_eq in E. subst x. cbn [flat_map]. rewrite !app_nil_r, map_prepend_app.
      unfold sec_env, sec_text. rewrite !app_nil_r. reflexivity.
  - intros pre c t Hc.
    rewrite (flat_map_fracopt_n g_8 (Hf pre) (Hrej1 pre) (Hrej2 pre)).
    rewrite scan_frac_none by (unfold is_digit in Hc; lia). apply Hrej1. exact Hc.
Qed.

(** ---- first match: only the captures matter ---- *)
Definition henv (l : list res) : option env :=
  match l with (_, _, e) :: _ => Some e | [] => None end.
Lemma henv_map_prepend x l : henv (map (prepend x) l) = henv l.
Proof. destruct l as [|[[a b] c] l]; reflexivity. Qed.
Lemma henv_app_nil l : henv (l ++ []) = henv l.
Proof. rewrite app_nil_r. reflexivity. Qed.

(** ---- the tails of the pattern ---- *)
Definition KS : re := RSeq (ropt secbody) REnd.
Definition KM : re := RSeq (unitg g_minutes 77) KS.
Definition KH : re := RSeq (unitg g_hours 72) KM.
Definition KT : re := RSeq tpart REnd.
Definition KD : re := RSeq (unitg g_days 68) KT.
Definition KMo : re := RSeq (unitg g_months 77) KD.
Definition KY : re := RSeq (unitg g_years 89) KMo.

Lemma tinner_flat s e : m (RSeq tinner REnd) s e = m KH s e.
Proof.
  unfold tinner, KH, KM, KS. rewrite m_seq_assoc. apply m_seq_ext; [reflexivity|].
  intros s' e'. apply m_seq_assoc.
Qed.

Lemma nullable_secbody : nullable secbody = false.
Proof. reflexivity. Qed.

Lemma m_KS s e :
  m KS s e = m (RSeq secbody REnd) s e ++ m REnd s e.
Proof. unfold KS. apply m_ropt_seq. exact nullable_secbody. Qed.

Lemma scan_seconds_t_other X ds r : is_digit X = false -> X <> 83 -> X <> 46 -> all_dig ds -> ds <> [] ->
  scan_seconds_t (ds ++ X :: r) = None.
Proof.
  intros HX H1 H2 HF Hd. unfold scan_seconds_t. rewrite span_digits_app by (auto; exact HX).
  destruct ds as [|d ds]; [congruence|]. rewrite scan_frac_none by exact H2.
  replace (X =? 83) with false by lia. reflexivity.
Qed.

Lemma rej_KS X : is_digit X = false -> X <> 83 -> X <> 46 -> rej KS X.
Proof.
  intros HX H1 H2 ds r e HF Hd. rewrite m_KS, m_secbody_K, (scan_seconds_t_other X ds r) by assumption.
  destruct ds; [congruence|]. reflexivity.
Qed.

Lemma rej_KT X : rej KT X.
Proof.
  intros ds r e HF Hd. unfold KT, tpart. rewrite m_ropt_seq by reflexivity.
  destruct (digits_head ds X r HF Hd) as (c & t & -> & Hc).
  rewrite m_seq_assoc, m_seq, m_lit. replace (c =? 84) with false by (unfold is_digit in Hc; lia). reflexivity.
Qed.

Definition unit_step (n : text) (X : Z) (s : text) (e : env) : text * env :=
  match scan_unit_t X s with Some (ds, r) => (r, (n, ds) :: e) | None => (s, e) end.

Lemma henv_unit n X K : is_digit X = false -> rej K X -> forall s e,
  henv (m (RSeq (unitg n X) K) s e) = let '(s', e') := unit_step n X s e in henv (m K s' e').
Proof.
  intros HX HK s e. rewrite (m_unit_K n X K HX HK). unfold unit_step.
  destruct (scan_unit_t X s) as [[ds r]|]; [apply henv_map_prepend|reflexivity].
Qed.

Lemma henv_KS s e :
  henv (m KS s e) =
  match scan_seconds_t s with
  | Some (ds, f, []) => Some (sec_env ds f e)
  | Some _ => None
  | None => match s with [] => Some e | _ => None end
  end.
Proof.
  rewrite m_KS, m_secbody_K. destruct (scan_seconds_t s) as [[[ds f] r3]|] eqn:E.
  - destruct r3 as [|x r3]; [reflexivity|]. cbn [m map app].
    destruct s; [|reflexivity]. discriminate E.
  - cbn [app m]. destruct s; reflexivity.
Qed.

Lemma henv_KT s e :
  henv (m KT s e) =
  match s with
  | [] => Some e
  | t :: s6 => if t =? 84 then henv (m KH s6 e) else None
  end.
Proof.
  unfold KT, tpart. rewrite m_ropt_seq by reflexivity. rewrite m_seq_assoc, m_seq, m_lit.
  destruct s as [|t s6]; [reflexivity|]. destruct (t =? 84) eqn:E; [|reflexivity].
  cbn [flat_map]. change (m REnd (t :: s6) e) with (@nil res).
  rewrite !app_nil_r, henv_map_prepend, tinner_flat. reflexivity.
Qed.

(** the captures of the first match of the whole pattern, by the scanners *)
Definition dur_env (s : text) : option env :=
  let '(sg, s1) := match s with
                   | c :: r => if c =? 45 then ([45], r) else ([], s)
                   | [] => ([], s)
                   end in
  match s1 with
  | c :: s2 =>
      if c =? 80 then
        let '(s3, e1) := unit_step g_years 89 s2 [(g_sign, sg)] in
        let '(s4, e2) := unit_step g_months 77 s3 e1 in
        let '(s5, e3) := unit_step g_days 68 s4 e2 in
        match s5 with
        | [] => Some e3
        | t :: s6 =>
            if t =? 84 then
              let '(s7, e4) := unit_step g_hours 72 s6 e3 in
              let '(s8, e5) := unit_step g_minutes 77 s7 e4 in
              match scan_seconds_t s8 with
              | Some (ds, f, []) => Some (sec_env ds f e5)
              | Some _ => None
              | None => match s8 with [] => Some e5 | _ => None end
              end
            else None
        end
      else None
  | [] => None
  end.

Lemma henv_KY s e :
  henv (m KY s e) =
  let '(s3, e1) := unit_step g_years 89 s e in
  let '(s4, e2) := unit_step g_months 77 s3 e1 in
  let '(s5, e3) := unit_step g_days 68 s4 e2 in
  match s5 with
  | [] => Some e3
  | t :: s6 =>
      if t =? 84 then
        let '(s7, e4) := unit_step g_hours 72 s6 e3 in
        let '(s8, e5) := unit_step g_minutes 77 s7 e4 in
        match scan_seconds_t s8 with
        | Some (ds, f, []) => Some (sec_env ds f e5)
        | Some _ => None
        | None => match s8 with [] => Some e5 | _ => None end
        end
      else None
  end.
Proof.
  unfold KY. rewrite henv_unit; [|reflexivity|].
  2:{ unfold KMo, KD. apply rej_unit; [reflexivity|reflexivity|lia|].
      apply rej_unit; [reflexivity|reflexivity|lia|]. apply rej_KT. }
  destruct (unit_step g_years 89 s e) as [s3 e1].
  unfold KMo. rewrite henv_unit; [|reflexivity|].
  2:{ unfold KD. apply rej_unit; [reflexivity|reflexivity|lia|]. apply rej_KT. }
  destruct (unit_step g_months 77 s3 e1) as [s4 e2].
  unfold KD. rewrite henv_unit; [|reflexivity|apply rej_KT].
  destruct (unit_step g_days 68 s4 e2) as [s5 e3].
  rewrite henv_KT. destruct s5 as [|t s6]; [reflexivity|]. destruct (t =? 84); [|reflexivity].
  unfold KH. rewrite henv_unit; [|reflexivity|].
  2:{ unfold KM. apply rej_unit; [reflexivity|reflexivity|lia|]. apply rej_KS; [reflexivity|lia|lia]. }
  destruct (unit_step g_hours 72 s6 e3) as [s7 e4].
  unfold KM. rewrite henv_unit; [|reflexivity|apply rej_KS; [reflexivity|lia|lia]].
  destruct (unit_step g_minutes 77 s7 e4) as [s8 e5].
  apply henv_KS.
Qed.

Lemma m_lit_seq X K s e :
  m (RSeq (lit X) K) s e =
  match s with c :: t => if c =? X then map (prepend [c]) (m K t e) else [] | [] => [] end.
Proof.
  rewrite m_seq, m_lit. destruct s as [|c t]; [reflexivity|]. destruct (c =? X); [|reflexivity].
  cbn [flat_map]. apply app_nil_r.
Qed.

Lemma henv_ref_DUR s : henv (m ref_DUR s []) = dur_env s.
Proof.
  unfold ref_DUR, dur_env. rewrite m_seq, m_group. unfold ropt. rewrite (m_opt (lit 45) eq_refl), m_lit.
  fold KY.
  destruct s as [|c r].
  - reflexivity.
  - destruct (c =? 45) eqn:E.
    + apply Z.eqb_eq in E. subst c. cbn [app map flat_map]. rewrite !m_lit_seq.
      cbn [Z.eqb Pos.eqb map app]. rewrite app_nil_r, henv_map_prepend.
      destruct r as [|c2 s2]; [reflexivity|]. destruct (c2 =? 80); [|reflexivity].
      rewrite henv_map_prepend. apply henv_KY.
    + cbn [app map flat_map]. rewrite app_nil_r, m_lit_seq, henv_map_prepend.
      destruct (c =? 80); [|reflexivity].
      rewrite henv_map_prepend. apply henv_KY.
Qed.

(** ---- the values read from the captures ---- *)
Definition dur_arith (y mo d h mi : Z) (sp : text * text) (neg : bool) : out Z :=
  let days := d + mo * 30 + y * 365 in
  let n := days * US_DAY + h * 3600000000 + mi * 60000000
           + val_digits 0 (fst sp) * 1000000 + frac6 6 (snd sp) in
  if td_ok n then
    let n' := if neg then - n else n in
    if td_ok n' then Ok n' else VFault
  else VFault.

Definition dur_value (e : env) : out Z :=
  dur_arith (gnum0 e g_years) (gnum0 e g_months) (gnum0 e g_days) (gnum0 e g_hours) (gnum0 e g_minutes)
            (split_dot (match lookup g_seconds e with Some t => t | None => [48] end))
            (text_eqb (grp e g_sign) [45]).

Lemma duration_rx_value r s :
  duration_from_unicode_rx r s = match henv (m r s []) with Some e => dur_value e | None => VFault end.
Proof.
  unfold duration_from_unicode_rx, re_match, henv, dur_value, dur_arith.
  destruct (m r s []) as [|[[mt t] e] l]; [reflexivity|].
  destruct (split_dot _) as [ip fp]. reflexivity.
Qed.

(** ---- the hand-written scanners, over the text scanners ---- *)
Lemma scan_unit_text X s :
  scan_unit X s = match scan_unit_t X s with
                  | Some (ds, r) => (val_digits 0 ds, r)
                  | None => (0, s)
                  end.
Proof.
  unfold scan_unit, scan_unit_t. destruct (span_digits s) as [ds r].
  destruct ds as [|d ds]; [reflexivity|]. destruct r as [|x r]; [reflexivity|].
  destruct (x =? X); reflexivity.
Qed.

Lemma match_83 {A} (r2 : text) (f : text -> A) (g : A) :
  match r2 with 83 :: r3 => f r3 | _ => g end =
  match r2 with x :: r3 => if x =? 83 then f r3 else g | [] => g end.
Proof.
  destruct r2 as [|x r3]; [reflexivity|]. destruct (x =? 83) eqn:E.
  - apply Z.eqb_eq in E. subst x. reflexivity.
  - destruct x as [|p|p]; try reflexivity. do 7 (destruct p as [p|p|]; try reflexivity). discriminate E.
Qed.

Lemma scan_seconds_text s :
  scan_seconds s = match scan_seconds_t s with
                   | Some (ds, f, r3) => ((val_digits 0 ds, match f with Some fd => fd | None => [] end), r3)
                   | None => ((0, []), s)
                   end.
Proof.
  unfold scan_seconds, scan_seconds_t. destruct (span_digits s) as [ds r].
  destruct ds as [|d ds]; [reflexivity|]. destruct (scan_frac r) as [f r2].
  rewrite match_83. destruct r2 as [|x r3]; [reflexivity|]. destruct (x =? 83); reflexivity.
Qed.

Lemma scan_seconds_t_digits s ds f r3 : scan_seconds_t s = Some (ds, f, r3) -> all_dig ds.
Proof.
  unfold scan_seconds_t. destruct (span_digits s) as [a r] eqn:E. destruct a as [|d a]; [discriminate|].
  destruct (scan_frac r) as [f' r2]. destruct r2 as [|x r3']; [discriminate|].
  destruct (x =? 83); [|discriminate]. intros H; inversion H; subst.
  destruct (span_digits_spec _ _ _ E) as [HF _]. exact HF.
Qed.

Lemma split_dot_sec ds f : all_dig ds ->
  split_dot (sec_text ds f) = (ds, match f with Some fd => fd | None => [] end).
Proof.
  intros HF. unfold split_dot, sec_text. destruct f as [fd|].
  - rewrite span_digits_app by (auto; reflexivity). reflexivity.
  - rewrite span_digits_app by (auto; exact I). reflexivity.
Qed.

(** ---- the hand-written reader ---- *)
Lemma match_lit45 {A} (s : text) (f : text -> A) (g : A) :
  match s with 45 :: r => f r | _ => g end =
  match s with c :: r => if c =? 45 then f r else g | [] => g end.
Proof.
  destruct s as [|x r]; [reflexivity|]. destruct (x =? 45) eqn:E.
  - apply Z.eqb_eq in E. subst x. reflexivity.
  - destruct x as [|p|p]; try reflexivity. do 6 (destruct p as [p|p|]; try reflexivity). discriminate E.
Qed.
Lemma match_lit80 {A} (s : text) (f : text -> A) (g : A) :
  match s with 80 :: r => f r | _ => g end =
  match s with c :: r => if c =? 80 then f r else g | [] => g end.
Proof.
  destruct s as [|x r]; [reflexivity|]. destruct (x =? 80) eqn:E.
  - apply Z.eqb_eq in E. subst x. reflexivity.
  - destruct x as [|p|p]; try reflexivity. do 7 (destruct p as [p|p|]; try reflexivity). discriminate E.
Qed.
Lemma match_lit84 {A} (s : text) (f : text -> A) (g : A) :
  match s with 84 :: r => f r | _ => g end =
  match s with c :: r => if c =? 84 then f r else g | [] => g end.
Proof.
  destruct s as [|x r]; [reflexivity|]. destruct (x =? 84) eqn:E.
  - apply Z.eqb_eq in E. subst x. reflexivity.
  - destruct x as [|p|p]; try reflexivity. do 7 (destruct p as [p|p|]; try reflexivity). discriminate E.
Qed.

Lemma dur_value_sec ds f e5 : all_dig ds ->
  dur_value (sec_env ds f e5) =
  dur_arith (gnum0 e5 g_years) (gnum0 e5 g_months) (gnum0 e5 g_days) (gnum0 e5 g_hours) (gnum0 e5 g_minutes)
            (ds, match f with Some fd => fd | None => [] end) (text_eqb (grp e5 g_sign) [45]).
Proof.
  intros HF. unfold dur_value, gnum0, grp, sec_env.
  destruct f as [fd|]; rewrite !lookup_skip by reflexivity.
  - replace (lookup g_seconds ((g_seconds, sec_text ds (Some fd)) :: (g_8, 46 :: fd) :: e5))
      with (Some (sec_text ds (Some fd))) by reflexivity.
    rewrite split_dot_sec by exact HF. reflexivity.
  - replace (lookup g_seconds ((g_seconds, sec_text ds None) :: e5))
      with (Some (sec_text ds None)) by reflexivity.
    rewrite split_dot_sec by exact HF. reflexivity.
Qed.

Ltac unit_case :=
  rewrite scan_unit_text; unfold unit_step at 1;
  match goal with |- context [scan_unit_t ?X ?s] => destruct (scan_unit_t X s) as [[? ?]|] end;
  cbv beta iota zeta.

Ltac case_list :=
  match goal with |- context [match ?l with [] => _ | _ :: _ => _ end] => is_var l; destruct l as [|? ?] end.

Ltac dur_seconds :=
  rewrite scan_seconds_text;
  match goal with |- context [scan_seconds_t ?s] =>
    let Es := fresh "Es" in
    destruct (scan_seconds_t s) as [[[? ?] ?]|] eqn:Es;
    cbv beta iota zeta;
    [ case_list;
      [rewrite dur_value_sec by (eapply scan_seconds_t_digits; exact Es); reflexivity|reflexivity]
    | case_list; reflexivity ]
  end.

Ltac dur_T :=
  rewrite match_lit84; case_list; [reflexivity|];
  match goal with |- context [?c =? 84] => destruct (c =? 84) end; [|reflexivity];
  unit_case; (unit_case; dur_seconds).

Ltac dur_tail :=
  rewrite match_lit80; case_list; [reflexivity|];
  match goal with |- context [?c =? 80] => destruct (c =? 80) end; [|reflexivity];
  unit_case; (unit_case; (unit_case; dur_T)).

Theorem duration_scanner_env s :
  duration_from_unicode s = match dur_env s with Some e => dur_value e | None => VFault end.
Proof.
  unfold duration_from_unicode, dur_env. rewrite match_lit45.
  destruct s as [|c r]; [reflexivity|]. remember (c :: r) as s0 eqn:Hs0. clear Hs0.
  destruct (c =? 45); cbv beta iota zeta.
  - dur_tail.
  - dur_tail.
Qed.

Theorem duration_reader_ref s : duration_from_unicode_rx ref_DUR s = duration_from_unicode s.
Proof. rewrite duration_rx_value, henv_ref_DUR, duration_scanner_env. reflexivity. Qed.
