From SpyneV Require Import Base.Digits Base.DigitsProofs Base.Ext C08.IntModel Gen.NumTypes.
From Coq Require Import Lia ZifyBool.

Lemma Forall_all_digits l : Forall (fun c => is_digit c = true) l -> all_digits l = true.
Proof. induction 1 as [|x l Hx Hl IH]; [reflexivity|]. cbn [all_digits]. rewrite Hx, IH. reflexivity. Qed.

Lemma str_int_xs z : xs_integer (str_int z) = true.
Proof.
  assert (H : forall n, 0 <= n -> negb (match str_nat n with [] => true | _ => false end)
                                  && all_digits (str_nat n) = true).
  { intros n Hn. pose proof (str_nat_nonempty n Hn) as Hne. pose proof (str_nat_digits n Hn) as HF.
    rewrite (Forall_all_digits _ HF). destruct (str_nat n) as [|c m]; [congruence|]. reflexivity. }
  unfold str_int. destruct (z <? 0) eqn:E.
  - cbn [xs_integer]. apply H. lia.
  - assert (Hn : 0 <= z) by lia. specialize (H z Hn).
    destruct (str_nat_head z Hn) as (c & m & Hcm & Hc). rewrite Hcm in *.
    unfold xs_integer. unfold is_digit in Hc.
    destruct (Z.eq_dec c 45); [lia|]. destruct (Z.eq_dec c 43); [lia|].
    destruct c as [|p|p]; try exact H.
    do 6 (destruct p as [p|p|]; try exact H); lia.
Qed.

Lemma all_digits_Forall l : all_digits l = true -> Forall (fun c => is_digit c = true) l.
Proof.
  induction l as [|c l IH]; intros H; [constructor|]. cbn [all_digits] in H.
  apply andb_true_iff in H. destruct H. constructor; auto.
Qed.

Lemma all_digits_no_space_strip l : all_digits l = true -> l <> [] -> strip l = l.
Proof.
  intros H Hne. pose proof (all_digits_Forall l H) as HF.
  destruct l as [|c m]; [congruence|].
  destruct (exists_last Hne) as (m' & d & Hmd).
  assert (Hd : is_digit d = true).
  { rewrite Hmd in HF. apply Forall_app in HF. destruct HF as [_ HF]. inversion HF; assumption. }
  eapply strip_id; [reflexivity| |exists m'; exact Hmd|apply digit_not_space; exact Hd].
  apply digit_not_space. inversion HF; assumption.
Qed.

(** every xs:integer literal is read by Python's int() as its denotation *)
Lemma int_of_text_xs s : xs_integer s = true -> int_of_text s = Some (den_integer s).
Proof.
  intros H.
  assert (Hd : forall r, negb (match r with [] => true | _ => false end) && all_digits r = true ->
               parse_digits false false 0 r = Some (val_digits 0 r) /\ strip r = r).
  { intros r Hr. apply andb_true_iff in Hr. destruct Hr as [Hne Had].
    assert (r <> []) by (destruct r; [discriminate|congruence]).
    split; [apply parse_digits_all; [apply all_digits_Forall; exact Had|left; assumption]|].
    apply all_digits_no_space_strip; assumption. }
  assert (Hsign : forall c r, (c = 45 \/ c = 43) -> negb (match r with [] => true | _ => false end) && all_digits r = true ->
            strip (c :: r) = c :: r).
  { intros c r Hc Hr. apply andb_true_iff in Hr. destruct Hr as [Hne Had].
    assert (Hrne : r <> []) by (destruct r; [discriminate|congruence]).
    destruct (exists_last Hrne) as (m' & d & Hmd).
    pose proof (all_digits_Forall r Had) as HF. rewrite Hmd in HF. apply Forall_app in HF.
    destruct HF as [_ HF]. inversion HF as [|? ? Hdd _]; subst.
    eapply strip_id with (d := d); [reflexivity| |exists (c :: m'); reflexivity|apply digit_not_space; exact Hdd].
    destruct Hc; subst; reflexivity. }
  unfold int_of_text, den_integer.
  destruct s as [|c r]; [discriminate|].
  destruct (Z.eq_dec c 45) as [->|N45].
  { cbn [xs_integer] in H. rewrite (Hsign 45 r (or_introl eq_refl) H).
    destruct (Hd r H) as [Hp _]. rewrite Hp. reflexivity. }
  destruct (Z.eq_dec c 43) as [->|N43].
  { cbn [xs_integer] in H. rewrite (Hsign 43 r (or_intror eq_refl) H).
    destruct (Hd r H) as [Hp _]. rewrite Hp. reflexivity. }
  assert (H' : negb (match c :: r with [] => true | _ => false end) && all_digits (c :: r) = true).
  { destruct c as [|p|p]; try exact H.
    do 6 (destruct p as [p|p|]; try exact H); lia. }
  destruct (Hd (c :: r) H') as [Hp Hs]. rewrite Hs.
  destruct c as [|p|p]; try exact Hp.
  do 6 (destruct p as [p|p|]; try exact Hp); lia.
Qed.

Ltac table_cases := repeat (apply Forall_cons); try apply Forall_nil.

Ltac unfold_vn :=
  unfold validate_native_Integer8, validate_native_Integer16, validate_native_Integer32,
    validate_native_Integer64, validate_native_UnsignedInteger8, validate_native_UnsignedInteger16,
    validate_native_UnsignedInteger32, validate_native_UnsignedInteger64,
    vn_byte, vn_short, vn_int, vn_long, vn_unsignedByte, vn_unsignedShort, vn_unsignedInt,
    vn_unsignedLong, vn_UnsignedInteger, vn_Integer, vn_Decimal, vn_SimpleModel, vn_ModelBase,
    attrs_Integer8, attrs_Integer16, attrs_Integer32, attrs_Integer64,
    attrs_UnsignedInteger8, attrs_UnsignedInteger16, attrs_UnsignedInteger32, attrs_UnsignedInteger64.

(** validate_native of each fixed-width type accepts exactly the XSD value space *)
Lemma bounded_native_exact :
  Forall (fun '(signed, bits, a, vn) =>
            forall z, vn a z = true <-> lo signed bits <= z <= hi signed bits)
         bounded_int_types.
Proof.
  unfold bounded_int_types. table_cases; intros z; unfold_vn;
    cbn [na_gt na_ge na_lt na_le na_values length ext_ltb ext_leb ext_eqb existsb lo hi Z.of_nat];
    (match goal with |- context [2 ^ ?e] => let v := eval compute in (2 ^ e) in change (2 ^ e) with v end);
    try (match goal with |- context [2 ^ ?e] => let v := eval compute in (2 ^ e) in change (2 ^ e) with v end);
    lia.
Qed.

(** the text of every value in range passes the length guard of the reader *)
Lemma bounded_len_ok :
  Forall (fun '(signed, bits, a, vn) =>
            forall z, lo signed bits <= z <= hi signed bits ->
                      ext_leb (Fin (len (str_int z))) (na_max_str_len a) = true)
         bounded_int_types.
Proof.
  unfold bounded_int_types. table_cases; intros z; unfold_vn;
    cbn [na_max_str_len lo hi ext_leb];
    repeat (match goal with |- context [2 ^ ?e] => let v := eval compute in (2 ^ e) in change (2 ^ e) with v end);
    intros Hz; rewrite len_str_int; destruct (z <? 0) eqn:E;
    match goal with
    | |- (1 + len (str_nat ?n) <=? ?k) = true =>
        let H := fresh in
        assert (H : len (str_nat n) <= k - 1) by (apply str_nat_len; [lia|lia|
          let v := eval compute in (10 ^ (k - 1)) in change (10 ^ (k - 1)) with v; lia]); lia
    | |- (len (str_nat ?n) <=? ?k) = true =>
        let H := fresh in
        assert (H : len (str_nat n) <= k) by (apply str_nat_len; [lia|lia|
          let v := eval compute in (10 ^ k) in change (10 ^ k) with v; lia]); lia
    end.
Qed.

(** hence print-then-read is the identity on every fixed-width type, with no side condition *)
Lemma bounded_roundtrip :
  Forall (fun '(signed, bits, a, vn) =>
            forall z, lo signed bits <= z <= hi signed bits ->
                      integer_from_unicode a (integer_to_unicode z) = Ok z /\ vn a z = true)
         bounded_int_types.
Proof.
  pose proof bounded_len_ok as HL. pose proof bounded_native_exact as HN.
  rewrite Forall_forall in *. intros [[[signed bits] a] vn] Hin z Hz.
  specialize (HL _ Hin z Hz). specialize (HN _ Hin z). cbn beta iota in *.
  split; [|apply HN; exact Hz].
  unfold integer_from_unicode, integer_to_unicode. rewrite HL. cbn [negb].
  rewrite int_of_text_str_int. reflexivity.
Qed.

(** arbitrary-size Integer: round trip under the declared max_str_len guard *)
Lemma integer_roundtrip a z :
  ext_leb (Fin (len (str_int z))) (na_max_str_len a) = true ->
  integer_from_unicode a (integer_to_unicode z) = Ok z.
Proof.
  intros H. unfold integer_from_unicode, integer_to_unicode. rewrite H. cbn [negb].
  rewrite int_of_text_str_int. reflexivity.
Qed.

(** every xs:integer literal within the length guard is read as its denotation *)
Lemma integer_in_lex a s :
  xs_integer s = true -> ext_leb (Fin (len s)) (na_max_str_len a) = true ->
  integer_from_unicode a s = Ok (den_integer s).
Proof.
  intros Hx Hl. unfold integer_from_unicode. rewrite Hl. cbn [negb].
  rewrite int_of_text_xs by exact Hx. reflexivity.
Qed.

(** the reader never lets an exception other than ValidationError escape *)
Lemma integer_reader_total a s : is_crash (integer_from_unicode a s) = false.
Proof.
  unfold integer_from_unicode. destruct (negb _); [reflexivity|].
  destruct (int_of_text s); reflexivity.
Qed.
