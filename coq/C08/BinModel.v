(** C08 binary encodings (definitions only).
    Mirrors spyne/model/binary.py: to_base64/from_base64 (base64.b64encode /
    b64decode with validate=False, i.e. binascii.a2b_base64 in non-strict mode,
    transcribed from CPython 3.12 Modules/binascii.c), to_hex/from_hex
    (hexlify/unhexlify), urlsafe variants (same with '-' '_'). *)
From SpyneV Require Export Base.Prelude.

Definition byte_ok (b : Z) : bool := (0 <=? b) && (b <? 256).

(** alphabet: [url] selects '-' '_' instead of '+' '/' *)
Definition b64_char (url : bool) (v : Z) : Z :=
  if v <? 26 then 65 + v
  else if v <? 52 then 97 + (v - 26)
  else if v <? 62 then 48 + (v - 52)
  else if v =? 62 then (if url then 45 else 43)
  else (if url then 95 else 47).
Definition b64_val (url : bool) (c : Z) : option Z :=
  if (65 <=? c) && (c <=? 90) then Some (c - 65)
  else if (97 <=? c) && (c <=? 122) then Some (c - 97 + 26)
  else if (48 <=? c) && (c <=? 57) then Some (c - 48 + 52)
  else if c =? (if url then 45 else 43) then Some 62
  else if c =? (if url then 95 else 47) then Some 63
  else None.

(** decoding table: urlsafe_b64decode first translates '-' '_' to '+' '/' and then decodes
    with the standard alphabet, so in urlsafe mode all four characters are accepted *)
Definition b64_dval (url : bool) (c : Z) : option Z :=
  match b64_val false c with
  | Some v => Some v
  | None => if url then b64_val true c else None
  end.

Fixpoint b64encode (url : bool) (bs : list Z) : text :=
  match bs with
  | b0 :: b1 :: b2 :: r =>
      b64_char url (b0 / 4) :: b64_char url ((b0 mod 4) * 16 + b1 / 16)
      :: b64_char url ((b1 mod 16) * 4 + b2 / 64) :: b64_char url (b2 mod 64) :: b64encode url r
  | [b0; b1] =>
      [b64_char url (b0 / 4); b64_char url ((b0 mod 4) * 16 + b1 / 16);
       b64_char url ((b1 mod 16) * 4); 61]
  | [b0] => [b64_char url (b0 / 4); b64_char url ((b0 mod 4) * 16); 61; 61]
  | [] => []
  end.

(** a2b_base64, strict_mode = 0.  State: position in the quad, left-over bits,
    count of consecutive '=' seen at quad_pos >= 2, output so far (reversed). *)
Fixpoint a2b_go (url : bool) (qp left pads : Z) (acc : list Z) (s : text) : out (list Z) :=
  match s with
  | [] => if qp =? 0 then Ok (rev acc) else VFault       (* binascii.Error -> ValidationError *)
  | c :: r =>
      if c =? 61 then
        if 2 <=? qp then
          if 4 <=? qp + (pads + 1) then Ok (rev acc)        (* padded quad complete: rest ignored *)
          else a2b_go url qp left (pads + 1) acc r
        else a2b_go url qp left pads acc r
      else
        match b64_dval url c with
        | None => a2b_go url qp left pads acc r             (* non-alphabet characters are skipped *)
        | Some v =>
            if qp =? 0 then a2b_go url 1 v 0 acc r
            else if qp =? 1 then a2b_go url 2 (v mod 16) 0 ((left * 4 + v / 16) :: acc) r
            else if qp =? 2 then a2b_go url 3 (v mod 4) 0 ((left * 16 + v / 4) :: acc) r
            else a2b_go url 0 0 0 ((left * 64 + v) :: acc) r
        end
  end.
(** from_base64 / from_urlsafe_base64 on text.  b64decode(str) wants ASCII (ValueError, turned
    into ValidationError); from_urlsafe_base64 encodes the text as UTF-8 first, and the bytes
    >= 128 are then skipped like every other non-alphabet byte. *)
Definition b64decode (url : bool) (s : text) : out (list Z) :=
  if url || forallb (fun c => c <? 128) s then a2b_go url 0 0 0 [] s
  else VFault.

(** hexlify / unhexlify *)
Definition hex_char (v : Z) : Z := if v <? 10 then 48 + v else 97 + (v - 10).
Definition hex_val (c : Z) : option Z :=
  if (48 <=? c) && (c <=? 57) then Some (c - 48)
  else if (97 <=? c) && (c <=? 102) then Some (c - 97 + 10)
  else if (65 <=? c) && (c <=? 70) then Some (c - 65 + 10)
  else None.
Fixpoint hexlify (bs : list Z) : text :=
  match bs with
  | b :: r => hex_char (b / 16) :: hex_char (b mod 16) :: hexlify r
  | [] => []
  end.
(** from_hex on text: binascii.Error (odd length, non-hex digit) and ValueError (non-ASCII)
    are turned into ValidationError *)
Fixpoint unhexlify (s : text) : out (list Z) :=
  match s with
  | [] => Ok []
  | [_] => VFault
  | a :: b :: r =>
      match hex_val a, hex_val b with
      | Some x, Some y =>
          match unhexlify r with
          | Ok l => Ok ((x * 16 + y) :: l)
          | e => e
          end
      | _, _ => VFault
      end
  end.

(** xs:base64Binary canonical lexical form (no whitespace): quads of alphabet characters,
    the last possibly padded; xs:hexBinary: pairs of hex digits *)
Fixpoint xs_base64 (s : text) : bool :=
  match s with
  | [] => true
  | [a; b; 61; 61] =>
      match b64_val false a, b64_val false b with
      | Some _, Some y => y mod 16 =? 0 | _, _ => false end
  | [a; b; c; 61] =>
      match b64_val false a, b64_val false b, b64_val false c with
      | Some _, Some _, Some z => z mod 4 =? 0 | _, _, _ => false end
  | a :: b :: c :: d :: r =>
      match b64_val false a, b64_val false b, b64_val false c, b64_val false d with
      | Some _, Some _, Some _, Some _ => xs_base64 r | _, _, _, _ => false end
  | _ => false
  end.
Fixpoint xs_hex (s : text) : bool :=
  match s with
  | [] => true
  | a :: b :: r => match hex_val a, hex_val b with Some _, Some _ => xs_hex r | _, _ => false end
  | _ => false
  end.

Fixpoint bytes_eqb (a b : list Z) : bool :=
  match a, b with
  | [], [] => true
  | x :: a', y :: b' => (x =? y) && bytes_eqb a' b'
  | _, _ => false
  end.
