(** Uuid and Spyne's UUID_PATTERN (the pattern facet its schema publishes for Uuid): the text
    written for every 128-bit value matches the pattern AST regenerated from the source, and
    every text the pattern matches in full is read as the value of its 32 digits. *)
From SpyneV Require Import Base.Prelude Base.Digits C08.UuidModel C08.UuidProofs
                           C08.Regex C08.RegexProofs Gen.Regexes.
From Coq Require Import Lia ZifyBool.

Definition hxset : cset := mkcset false [CRange 48 57; CRange 65 70; CRange 97 102].
Definition hx : re := RChar hxset.
Definition hy : re := RChar (mkcset false [CRange 45 45]).
Definition ref_UUID : re :=
  rseq_app (rcopies 8 hx) (RSeq hy (rseq_app (rcopies 4 hx) (RSeq hy (rseq_app (rcopies 4 hx)
  (RSeq hy (rseq_app (rcopies 4 hx) (RSeq hy (rcopies 12 hx)))))))).

Lemma tie_UUID : norm rx_UUID_PATTERN = ref_UUID.
Proof. vm_compute. reflexivity. Qed.

Lemma mem_hx c : cset_mem hxset c = is_hex c.
Proof.
  unfold cset_mem, hxset, is_hex, is_digit; cbn [cs_neg cs_items existsb item_mem].
  rewrite xorb_false_l, orb_false_r. lia.
Qed.
Lemma mem_hy c : cset_mem (mkcset false [CRange 45 45]) c = (c =? 45).
Proof. unfold cset_mem; cbn [cs_neg cs_items existsb item_mem]. rewrite xorb_false_l, orb_false_r. lia. Qed.

(** exactly n characters of a class *)
Fixpoint take_cls (p : Z -> bool) (n : nat) (s : text) : option (text * text) :=
  match n with
  | O => Some ([], s)
  | S k => match s with
           | c :: t => if p c then match take_cls p k t with Some (ds, r) => Some (c :: ds, r) | None => None end
                       else None
           | [] => None
           end
  end.

Lemma m_hx s e : m hx s e = match s with c :: t => if is_hex c then [([c], t, e)] else [] | [] => [] end.
Proof. unfold hx. cbn [m]. destruct s as [|c t]; [reflexivity|]. rewrite mem_hx. reflexivity. Qed.

Lemma m_rcopies_hx n : forall s e,
  m (rcopies n hx) s e = match take_cls is_hex n s with Some (ds, t) => [(ds, t, e)] | None => [] end.
Proof.
  induction n as [|k IH]; intros s e; [reflexivity|].
  cbn [rcopies take_cls]. rewrite rseq_app_sound, m_seq, m_hx.
  destruct s as [|c t]; [reflexivity|]. destruct (is_hex c); [|reflexivity].
  cbn [flat_map]. rewrite app_nil_r, IH. destruct (take_cls is_hex k t) as [[ds r]|]; reflexivity.
Qed.

Lemma m_hy s e : m hy s e = match s with c :: t => if c =? 45 then [([c], t, e)] else [] | [] => [] end.
Proof. unfold hy. cbn [m]. destruct s as [|c t]; [reflexivity|]. rewrite mem_hy. reflexivity. Qed.

Lemma take_cls_spec p n : forall s ds r, take_cls p n s = Some (ds, r) ->
  s = ds ++ r /\ length ds = n /\ Forall (fun c => p c = true) ds.
Proof.
  induction n as [|k IH]; intros s ds r H; cbn [take_cls] in H.
  - inversion H; subst. repeat split. constructor.
  - destruct s as [|c t]; [discriminate|]. destruct (p c) eqn:Hc; [|discriminate].
    destruct (take_cls p k t) as [[ds' r']|] eqn:E; [|discriminate]. inversion H; subst.
    destruct (IH _ _ _ E) as (-> & Hl & HF). repeat split; cbn [length]; auto.
Qed.

Lemma take_cls_app p ds : forall n r, length ds = n -> Forall (fun c => p c = true) ds ->
  take_cls p n (ds ++ r) = Some (ds, r).
Proof.
  induction ds as [|c ds IH]; intros n r Hn HF; subst n; cbn [length take_cls app]; [reflexivity|].
  inversion HF as [|? ? Hc HF']; subst. rewrite Hc, (IH (length ds)) by auto. reflexivity.
Qed.

(** the five groups of digits *)
Definition scan_uuid_t (s : text) : option (text * text * text * text * text * text) :=
  match take_cls is_hex 8 s with
  | Some (a, c1 :: s1) => if c1 =? 45 then
    match take_cls is_hex 4 s1 with
    | Some (b, c2 :: s2) => if c2 =? 45 then
      match take_cls is_hex 4 s2 with
      | Some (c, c3 :: s3) => if c3 =? 45 then
        match take_cls is_hex 4 s3 with
        | Some (d, c4 :: s4) => if c4 =? 45 then
          match take_cls is_hex 12 s4 with
          | Some (f, r) => Some (a, b, c, d, f, r)
          | None => None
          end else None
        | _ => None
        end else None
      | _ => None
      end else None
    | _ => None
    end else None
  | _ => None
  end.

Lemma m_ref_UUID s e :
  m ref_UUID s e =
  match scan_uuid_t s with
  | Some (a, b, c, d, f, r) => [(a ++ [45] ++ b ++ [45] ++ c ++ [45] ++ d ++ [45] ++ f, r, e)]
  | None => []
  end.
Proof.
  unfold ref_UUID, scan_uuid_t. rewrite rseq_app_sound, m_seq, m_rcopies_hx.
  destruct (take_cls is_hex 8 s) as [[a s0]|]; [|reflexivity]. cbn [flat_map]. rewrite app_nil_r.
  rewrite m_seq, m_hy. destruct s0 as [|c1 s1]; [reflexivity|]. destruct (c1 =? 45) eqn:E1; [|reflexivity].
  apply Z.eqb_eq in E1. subst c1. cbn [flat_map]. rewrite app_nil_r.
  rewrite rseq_app_sound, m_seq, m_rcopies_hx.
  destruct (take_cls is_hex 4 s1) as [[b s0]|]; [|reflexivity]. cbn [map flat_map]. rewrite app_nil_r.
  rewrite m_seq, m_hy. destruct s0 as [|c2 s2]; [reflexivity|]. destruct (c2 =? 45) eqn:E2; [|reflexivity].
  apply Z.eqb_eq in E2. subst c2. cbn [map flat_map]. rewrite app_nil_r.
  rewrite rseq_app_sound, m_seq, m_rcopies_hx.
  destruct (take_cls is_hex 4 s2) as [[c s0]|]; [|reflexivity]. cbn [map flat_map]. rewrite app_nil_r.
  rewrite m_seq, m_hy. destruct s0 as [|c3 s3]; [reflexivity|]. destruct (c3 =? 45) eqn:E3; [|reflexivity].
  apply Z.eqb_eq in E3. subst c3. cbn [map flat_map]. rewrite app_nil_r.
  rewrite rseq_app_sound, m_seq, m_rcopies_hx.
  destruct (take_cls is_hex 4 s3) as [[d s0]|]; [|reflexivity]. cbn [map flat_map]. rewrite app_nil_r.
  rewrite m_seq, m_hy. destruct s0 as [|c4 s4]; [reflexivity|]. destruct (c4 =? 45) eqn:E4; [|reflexivity].
  apply Z.eqb_eq in E4. subst c4. cbn [map flat_map]. rewrite app_nil_r.
  rewrite m_rcopies_hx.
  destruct (take_cls is_hex 12 s4) as [[f r]|]; reflexivity.
Qed.

Lemma fullmatch_UUID s :
  re_fullmatch rx_UUID_PATTERN s =
  match scan_uuid_t s with
  | Some (a, b, c, d, f, []) => Some (s, [], [])
  | _ => None
  end.
Proof.
  unfold re_fullmatch, re_match.
  rewrite (m_seq_ext rx_UUID_PATTERN ref_UUID REnd REnd);
    [|intros; rewrite <- (norm_sound rx_UUID_PATTERN), tie_UUID; reflexivity|reflexivity].
  rewrite m_seq, m_ref_UUID.
  destruct (scan_uuid_t s) as [[[[[[a b] c] d] f] r]|] eqn:E; [|reflexivity].
  cbn [flat_map m]. destruct r; [|reflexivity]. cbn [map prepend app]. rewrite app_nil_r.
  assert (Hs : s = a ++ [45] ++ b ++ [45] ++ c ++ [45] ++ d ++ [45] ++ f).
  { unfold scan_uuid_t in E.
    destruct (take_cls is_hex 8 s) as [[a' s0]|] eqn:T1; [|discriminate]. destruct s0 as [|c1 s1]; [discriminate|].
    destruct (c1 =? 45) eqn:E1; [|discriminate]. apply Z.eqb_eq in E1. subst c1.
    destruct (take_cls is_hex 4 s1) as [[b' s0]|] eqn:T2; [|discriminate]. destruct s0 as [|c2 s2]; [discriminate|].
    destruct (c2 =? 45) eqn:E2; [|discriminate]. apply Z.eqb_eq in E2. subst c2.
    destruct (take_cls is_hex 4 s2) as [[c' s0]|] eqn:T3; [|discriminate]. destruct s0 as [|c3 s3]; [discriminate|].
    destruct (c3 =? 45) eqn:E3; [|discriminate]. apply Z.eqb_eq in E3. subst c3.
    destruct (take_cls is_hex 4 s3) as [[d' s0]|] eqn:T4; [|discriminate]. destruct s0 as [|c4 s4]; [discriminate|].
    destruct (c4 =? 45) eqn:E4; [|discriminate]. apply Z.eqb_eq in E4. subst c4.
    destruct (take_cls is_hex 12 s4) as [[f' r']|] eqn:T5; [|discriminate]. inversion E; subst.
    apply take_cls_spec in T1, T2, T3, T4, T5.
    destruct T1 as (-> & _), T2 as (-> & _), T3 as (-> & _), T4 as (-> & _), T5 as (-> & _).
    rewrite app_nil_r. reflexivity. }
  rewrite Hs. reflexivity.
Qed.

Lemma scan_uuid_t_shape s a b c d f : scan_uuid_t s = Some (a, b, c, d, f, []) ->
  s = a ++ [45] ++ b ++ [45] ++ c ++ [45] ++ d ++ [45] ++ f /\
  all_hex (a ++ b ++ c ++ d ++ f) /\ length (a ++ b ++ c ++ d ++ f) = 32%nat.
Proof.
  unfold scan_uuid_t.
  destruct (take_cls is_hex 8 s) as [[a' s0]|] eqn:T1; [|discriminate]. destruct s0 as [|c1 s1]; [discriminate|].
  destruct (c1 =? 45) eqn:E1; [|discriminate]. apply Z.eqb_eq in E1. subst c1.
  destruct (take_cls is_hex 4 s1) as [[b' s0]|] eqn:T2; [|discriminate]. destruct s0 as [|c2 s2]; [discriminate|].
  destruct (c2 =? 45) eqn:E2; [|discriminate]. apply Z.eqb_eq in E2. subst c2.
  destruct (take_cls is_hex 4 s2) as [[c' s0]|] eqn:T3; [|discriminate]. destruct s0 as [|c3 s3]; [discriminate|].
  destruct (c3 =? 45) eqn:E3; [|discriminate]. apply Z.eqb_eq in E3. subst c3.
  destruct (take_cls is_hex 4 s3) as [[d' s0]|] eqn:T4; [|discriminate]. destruct s0 as [|c4 s4]; [discriminate|].
  destruct (c4 =? 45) eqn:E4; [|discriminate]. apply Z.eqb_eq in E4. subst c4.
  destruct (take_cls is_hex 12 s4) as [[f' r']|] eqn:T5; [|discriminate]. intros E; inversion E; subst.
  apply take_cls_spec in T1, T2, T3, T4, T5.
  destruct T1 as (-> & L1 & F1), T2 as (-> & L2 & F2), T3 as (-> & L3 & F3), T4 as (-> & L4 & F4), T5 as (-> & L5 & F5).
  rewrite app_nil_r. split; [reflexivity|]. split.
  - repeat (apply Forall_app; split); assumption.
  - rewrite !app_length. lia.
Qed.

(** every text the pattern matches in full is read as the value of its 32 digits *)
Theorem uuid_in_lex s x : re_fullmatch rx_UUID_PATTERN s = Some x -> uuid_from_unicode s = Ok (uuid_den s).
Proof.
  rewrite fullmatch_UUID. destruct (scan_uuid_t s) as [[[[[[a b] c] d] f] r]|] eqn:E; [|discriminate].
  destruct r; [|discriminate]. intros _.
  destruct (scan_uuid_t_shape _ _ _ _ _ _ E) as (Hs & HF & Hl).
  assert (Hnh : no_hyphen s = a ++ b ++ c ++ d ++ f).
  { apply Forall_app in HF. destruct HF as [Fa HF]. apply Forall_app in HF. destruct HF as [Fb HF].
    apply Forall_app in HF. destruct HF as [Fc HF]. apply Forall_app in HF. destruct HF as [Fd Ff].
    rewrite Hs, !no_hyphen_app. rewrite (no_hyphen_hex a Fa), (no_hyphen_hex b Fb), (no_hyphen_hex c Fc), (no_hyphen_hex d Fd), (no_hyphen_hex f Ff). reflexivity. }
  unfold uuid_from_unicode. rewrite py_uuid_hh; [reflexivity| |rewrite Hnh; exact Hl].
  rewrite Hs. apply Forall_app in HF. destruct HF as [Fa HF]. apply Forall_app in HF. destruct HF as [Fb HF].
  apply Forall_app in HF. destruct HF as [Fc HF]. apply Forall_app in HF. destruct HF as [Fd Ff].
  repeat (apply Forall_app; split); try (constructor; [reflexivity|constructor]); apply all_hex_hh; assumption.
Qed.

(** the text written for every 128-bit value matches the pattern in full *)
Theorem uuid_out_lex u : re_fullmatch rx_UUID_PATTERN (uuid_to_unicode u) = Some (uuid_to_unicode u, [], []).
Proof.
  rewrite fullmatch_UUID. change (uuid_to_unicode u) with (canon (hexpad 32 u)).
  set (h := hexpad 32 u).
  assert (Hh : all_hex h).
  { eapply Forall_impl; [|apply hexpad_lhex]. intros c. apply lhex_hex. }
  assert (Hlen : length h = 32%nat) by apply hexpad_length.
  unfold scan_uuid_t, canon.
  rewrite take_cls_app; [|rewrite firstn_length; lia|apply all_hex_firstn, Hh].
  cbn [app Z.eqb Pos.eqb].
  rewrite take_cls_app; [|rewrite firstn_length, skipn_length; lia|apply all_hex_firstn, all_hex_skipn, Hh].
  cbn [app Z.eqb Pos.eqb].
  rewrite take_cls_app; [|rewrite firstn_length, skipn_length; lia|apply all_hex_firstn, all_hex_skipn, Hh].
  cbn [app Z.eqb Pos.eqb].
  rewrite take_cls_app; [|rewrite firstn_length, skipn_length; lia|apply all_hex_firstn, all_hex_skipn, Hh].
  cbn [app Z.eqb Pos.eqb].
  rewrite <- (app_nil_r (skipn 20 h)).
  rewrite take_cls_app; [|rewrite skipn_length; lia|apply all_hex_skipn, Hh].
  reflexivity.
Qed.
