(** C08 Duration and Boolean (definitions only).
    Mirrors spyne/protocol/_outbase.py:duration_to_unicode and
    spyne/protocol/_inbase.py:duration_from_unicode / _duration_re,
    boolean_to_unicode / boolean_from_bytes.
    A timedelta is its exact total number of microseconds. *)
From SpyneV Require Export Base.Digits C08.DtModel.

Definition US_DAY : Z := 86400000000.
Definition MAX_DAYS : Z := 999999999.
(** timedelta's range: -999999999 <= normalised days <= 999999999 *)
Definition td_ok (n : Z) : bool := (- MAX_DAYS <=? n / US_DAY) && (n / US_DAY <=? MAX_DAYS).

(** duration_to_unicode *)
Definition duration_to_unicode (n : Z) : text :=
  let neg := n / US_DAY <? 0 in            (* value.days < 0 *)
  let a := if neg then - n else n in
  let days := a / US_DAY in
  let secs := (a mod US_DAY) / 1000000 in   (* value.seconds *)
  let us := a mod 1000000 in                (* value.microseconds *)
  let seconds := secs mod 60 in
  let minutes := (secs / 60) mod 60 in
  let hours := (secs / 60) / 60 in
  let p := if neg then [45; 80] else [80] in
  let d := if days =? 0 then [] else str_int days ++ [68] in
  (* tot_sec != 0 and tot_sec % 86400 == 0 and useconds == 0 *)
  if negb (days * 86400 + secs =? 0) && (secs =? 0) && (us =? 0) then p ++ d
  else
    let h := if 0 <? hours then str_int hours ++ [72] else [] in
    let m := if 0 <? minutes then str_int minutes ++ [77] else [] in
    let s := if (0 <? seconds) || (0 <? us)
             then str_int seconds ++ (if 0 <? us then 46 :: zpad 6 us else []) ++ [83] else [] in
    (* len(retval) == 2: only the 'P' and the 'T' pieces were appended *)
    let z := if (days =? 0) && negb (0 <? hours) && negb (0 <? minutes)
                && negb ((0 <? seconds) || (0 <? us)) then [48; 83] else [] in
    p ++ d ++ [84] ++ h ++ m ++ s ++ z.

(** one optional group (?:(\d+)X)? : value (0 when absent, as groupdict(0) gives) and rest *)
Definition scan_unit (c : Z) (s : text) : Z * text :=
  let (ds, r) := span_digits s in
  match ds, r with
  | _ :: _, x :: r' => if x =? c then (val_digits 0 ds, r') else (0, s)
  | _, _ => (0, s)
  end.
(** (?:(\d+(\.\d+)?)S)? : integer part and fraction digits *)
Definition scan_seconds (s : text) : (Z * text) * text :=
  let (ds, r) := span_digits s in
  match ds with
  | [] => ((0, []), s)
  | _ =>
      let (f, r2) := scan_frac r in
      match r2 with
      | 83 :: r3 => ((val_digits 0 ds, match f with Some fd => fd | None => [] end), r3)
      | _ => ((0, []), s)
      end
  end.
(** int((Decimal(sec) - int(sec)) * 1000000): the first six fraction digits, truncated *)
Fixpoint frac6 (n : nat) (ds : text) : Z :=
  match n with
  | O => 0
  | S k => match ds with
           | c :: r => (c - 48) * 10 ^ Z.of_nat k + frac6 k r
           | [] => 0
           end
  end.

(** duration_from_unicode (after the repairs): _duration_re, anchored at both ends *)
Definition duration_from_unicode (s : text) : out Z :=
  let (neg, s1) := match s with 45 :: r => (true, r) | _ => (false, s) end in
  match s1 with
  | 80 :: s2 =>
      let (y, s3) := scan_unit 89 s2 in
      let (mo, s4) := scan_unit 77 s3 in
      let (d, s5) := scan_unit 68 s4 in
      let '(h, mi, (sec, fr), rest) :=
        match s5 with
        | 84 :: s6 =>
            let (h, s7) := scan_unit 72 s6 in
            let (mi, s8) := scan_unit 77 s7 in
            let (sf, s9) := scan_seconds s8 in (h, mi, sf, s9)
        | _ => (0, 0, (0, []), s5)
        end in
      match rest with
      | [] =>                                   (* the regex ends in \Z *)
          let days := d + mo * 30 + y * 365 in
          let n := days * US_DAY + h * 3600000000 + mi * 60000000 + sec * 1000000 + frac6 6 fr in
          if td_ok n then
            let n' := if neg then - n else n in
            if td_ok n' then Ok n' else VFault
          else VFault
      | _ => VFault
      end
  | _ => VFault
  end.

(** xs:duration lexical space restricted to the D/H/M/S fragment (years and
    months have no timedelta representation), each component optional but at
    least one present, 'T' only when a time component follows, fraction of
    1..6 digits; with its denotation in microseconds *)
Definition xs_duration (s : text) : option Z :=
  let (neg, s1) := match s with 45 :: r => (true, r) | _ => (false, s) end in
  match s1 with
  | 80 :: s2 =>
      let (d, s5) := scan_unit 68 s2 in
      let hasd := negb (text_eqb s5 s2) in
      match s5 with
      | [] => if hasd then Some (if neg then - (d * US_DAY) else d * US_DAY) else None
      | 84 :: s6 =>
          let (h, s7) := scan_unit 72 s6 in
          let (mi, s8) := scan_unit 77 s7 in
          let '((sec, fr), s9) := scan_seconds s8 in
          match s9 with
          | [] =>
              if text_eqb s9 s6 then None           (* 'T' with nothing after it *)
              else if Nat.leb (length fr) 6 then
                let n := d * US_DAY + h * 3600000000 + mi * 60000000 + sec * 1000000 + frac6 6 fr in
                Some (if neg then - n else n)
              else None
          | _ => None
          end
      | _ => None
      end
  | _ => None
  end.

(** Boolean: str(bool(v)).lower() and  s.lower() in ('true', '1') *)
Definition boolean_to_unicode (b : bool) : text :=
  if b then [116; 114; 117; 101] else [102; 97; 108; 115; 101].
(** str.lower() on ASCII letters; other cased characters are outside the modelled universe *)
Definition lower (c : Z) : Z := if (65 <=? c) && (c <=? 90) then c + 32 else c.
Definition boolean_from_unicode (s : text) : bool :=
  let l := map lower s in
  text_eqb l [116; 114; 117; 101] || text_eqb l [49].
Definition xs_boolean (s : text) : option bool :=
  if text_eqb s [116; 114; 117; 101] || text_eqb s [49] then Some true
  else if text_eqb s [102; 97; 108; 115; 101] || text_eqb s [48] then Some false
  else None.
