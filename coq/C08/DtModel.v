(** C08 date/time family (definitions only).
    Mirrors spyne/protocol/_outbase.py (_datetime_to_unicode, _date_to_bytes,
    time_to_unicode with default formats = isoformat()) and
    spyne/protocol/_inbase.py (datetime_from_unicode_iso,
    _parse_datetime_iso_match, date_from_unicode[_iso], time_from_unicode) with
    the regexes of spyne/model/primitive/datetime.py as scanners (the dateTime
    and date regexes end in \Z; _time_re is still a prefix match). *)
From SpyneV Require Export Base.Digits.
From Coq Require Import PrimFloat Uint63 FloatOps SpecFloat.

Record date := mkdate { yr : Z; mo : Z; dy : Z }.
Record tod := mktod { hr : Z; mi : Z; se : Z; us : Z }.
(** offset: minutes east of UTC; None = naive *)
Record datetime := mkdt { dt_d : date; dt_t : tod; dt_off : option Z }.

Definition is_leap (y : Z) : bool :=
  ((y mod 4 =? 0) && negb (y mod 100 =? 0)) || (y mod 400 =? 0).
Definition days_in_month (y m : Z) : Z :=
  if m =? 2 then (if is_leap y then 29 else 28)
  else if (m =? 4) || (m =? 6) || (m =? 9) || (m =? 11) then 30 else 31.
(** the arguments [datetime.date(y, m, d)] accepts (ValueError otherwise) *)
Definition valid_date (d : date) : bool :=
  (1 <=? yr d) && (yr d <=? 9999) && (1 <=? mo d) && (mo d <=? 12)
  && (1 <=? dy d) && (dy d <=? days_in_month (yr d) (mo d)).
Definition valid_tod (t : tod) : bool :=
  (0 <=? hr t) && (hr t <=? 23) && (0 <=? mi t) && (mi t <=? 59)
  && (0 <=? se t) && (se t <=? 59) && (0 <=? us t) && (us t <=? 999999).
(** pytz.FixedOffset(m) raises ValueError for |m| >= 1440 *)
Definition valid_off (o : option Z) : bool :=
  match o with None => true | Some m => (-1440 <? m) && (m <? 1440) end.
Definition valid_datetime (v : datetime) : bool :=
  valid_date (dt_d v) && valid_tod (dt_t v) && valid_off (dt_off v).

(** ---- printers: isoformat() ---- *)
Definition date_iso (d : date) : text :=
  zpad 4 (yr d) ++ [45] ++ zpad 2 (mo d) ++ [45] ++ zpad 2 (dy d).
Definition time_iso (t : tod) : text :=
  zpad 2 (hr t) ++ [58] ++ zpad 2 (mi t) ++ [58] ++ zpad 2 (se t)
  ++ (if us t =? 0 then [] else 46 :: zpad 6 (us t)).
Definition offset_iso (m : Z) : text :=
  (if m <? 0 then 45 else 43) :: zpad 2 (Z.abs m / 60) ++ [58] ++ zpad 2 (Z.abs m mod 60).
Definition datetime_iso (v : datetime) : text :=
  date_iso (dt_d v) ++ [84] ++ time_iso (dt_t v)
  ++ match dt_off v with None => [] | Some m => offset_iso m end.

(** ---- scanners ---- *)
Definition obind {A B} (x : option A) (f : A -> option B) : option B :=
  match x with Some a => f a | None => None end.
Notation "'opt' x <- e ; f" := (obind e (fun x => f))
  (at level 200, x pattern, e at level 100, f at level 200, right associativity).

(** exactly [n] ASCII digits: \d{n} *)
Fixpoint scan_digits (n : nat) (acc : Z) (s : text) : option (Z * text) :=
  match n with
  | O => Some (acc, s)
  | S k => match s with
           | c :: r => if is_digit c then scan_digits k (dstep acc c) r else None
           | [] => None
           end
  end.
Definition scan_char (c : Z) (s : text) : option text :=
  match s with x :: r => if x =? c then Some r else None | [] => None end.
(** greedy \d* *)
Fixpoint span_digits (s : text) : text * text :=
  match s with
  | c :: r => if is_digit c then let (a, b) := span_digits r in (c :: a, b) else ([], s)
  | [] => ([], [])
  end.
(** (\.\d+)? greedy: the digits of the fraction, if any *)
Definition scan_frac (s : text) : option text * text :=
  match s with
  | 46 :: r => let (ds, rest) := span_digits r in
               match ds with [] => (None, s) | _ => (Some ds, rest) end
  | _ => (None, s)
  end.

(** DATE_PATTERN *)
Definition scan_date (s : text) : option (date * text) :=
  opt (y, s) <- scan_digits 4 0 s; opt s <- scan_char 45 s;
  opt (m, s) <- scan_digits 2 0 s; opt s <- scan_char 45 s;
  opt (d, s) <- scan_digits 2 0 s; Some (mkdate y m d, s).
(** TIME_PATTERN: fields and the fraction digits *)
Definition scan_time (s : text) : option (Z * Z * Z * option text * text) :=
  opt (h, s) <- scan_digits 2 0 s; opt s <- scan_char 58 s;
  opt (m, s) <- scan_digits 2 0 s; opt s <- scan_char 58 s;
  opt (x, s) <- scan_digits 2 0 s;
  let (f, s) := scan_frac s in Some (h, m, x, f, s).
(** OFFSET_PATTERN: (sign is '-', hh, mm) *)
Definition scan_offset (s : text) : option (bool * Z * Z * text) :=
  match s with
  | c :: r =>
      if (c =? 43) || (c =? 45) then
        opt (h, r) <- scan_digits 2 0 r; opt r <- scan_char 58 r;
        opt (m, r) <- scan_digits 2 0 r; Some (c =? 45, h, m, r)
      else None
  | [] => None
  end.

(** ---- the float computation of the fraction ----
    min(999999, int(round(float('.ddd') * 1e6))) for a fraction of d <= 15
    digits: float('.ddd') is the correctly rounded quotient k / 10^d, both
    operands exact in binary64. *)
Definition fl_of_Z (z : Z) : float := PrimFloat.of_uint63 (Uint63.of_Z z).
Definition two52 : float := fl_of_Z 4503599627370496.
(** round-half-even to an integral float, for 0 <= x < 2^51 *)
Definition rint (x : float) : float := PrimFloat.sub (PrimFloat.add x two52) two52.
(** integer value of a finite integral float *)
Definition Z_of_float (x : float) : Z :=
  match Prim2SF x with
  | S754_finite s m e =>
      let v := if (0 <=? e) then Z.pos m * 2 ^ e else Z.pos m / 2 ^ (- e) in
      if s then - v else v
  | _ => 0
  end.
Definition usec_of_frac (ds : text) : Z :=
  let k := val_digits 0 ds in
  let d := Z.of_nat (length ds) in
  let f := PrimFloat.div (fl_of_Z k) (fl_of_Z (10 ^ d)) in
  Z.min 999999 (Z_of_float (rint (PrimFloat.mul f (fl_of_Z 1000000)))).
Definition usec_of (f : option text) : Z :=
  match f with None => 0 | Some ds => usec_of_frac ds end.

(** ---- readers ---- *)
(** datetime(...) / time(...) constructors: ValueError on invalid fields *)
Definition mk_datetime (d : date) (h m x u : Z) (o : option Z) : out datetime :=
  let v := mkdt d (mktod h m x u) o in
  if valid_datetime v then Ok v else Crash ValueError.

(** tz_hr * 60 + tz_min with the sign of the hour group applied to the minutes as well
    (int('-04') * 60 - 49); for '-00:30' the hour group is -0 and only the sign
    character tells. *)
Definition offset_minutes (neg : bool) (hh mm : Z) : Z :=
  if neg then - (hh * 60 + mm) else hh * 60 + mm.

Definition datetime_from_unicode_iso (s : text) : out datetime :=
  match scan_date s with
  | None => VFault
  | Some (d, s1) =>
      match s1 with
      | sep :: s2 =>
          if (sep =? 84) || (sep =? 32) then
            match scan_time s2 with
            | None => VFault
            | Some (h, m, x, f, rest) =>
                (* the three regexes end in \Z: the text must end after 'Z', after the offset, or
                   right after the time *)
                match rest with
                | [90] => mk_datetime d h m x (usec_of f) (Some 0)
                | [] => mk_datetime d h m x (usec_of f) None
                | _ =>
                    match scan_offset rest with
                    | Some (neg, oh, om, []) =>
                        mk_datetime d h m x (usec_of f) (Some (offset_minutes neg oh om))
                    | _ => VFault
                    end
                end
            end
          else VFault
      | [] => VFault
      end
  end.

(** time_from_unicode *)
Definition time_from_unicode (s : text) : out tod :=
  match scan_time s with
  | None => VFault
  | Some (h, m, x, f, _) =>
      let t := mktod h m x (usec_of f) in
      if valid_tod t then Ok t else Crash ValueError
  end.

(** time.strptime(s, '%Y-%m-%d'): \d{4}-(1[0-2]|0[1-9]|[1-9])-(3[01]|[12]\d|0[1-9]|[1-9]| [1-9]),
    the whole string, then date(y, m, d) validity; None = ValueError *)
Definition scan_month (s : text) : option (Z * text) :=
  match s with
  | 49 :: c :: r => if (48 <=? c) && (c <=? 50) then Some (10 + (c - 48), r) else Some (1, c :: r)
  | 48 :: c :: r => if (49 <=? c) && (c <=? 57) then Some (c - 48, r) else None
  | c :: r => if (49 <=? c) && (c <=? 57) then Some (c - 48, r) else None
  | [] => None
  end.
Definition scan_day (s : text) : option (Z * text) :=
  match s with
  | 51 :: c :: r => if (c =? 48) || (c =? 49) then Some (30 + (c - 48), r) else Some (3, c :: r)
  | 32 :: c :: r => if (49 <=? c) && (c <=? 57) then Some (c - 48, r) else None
  | 48 :: c :: r => if (49 <=? c) && (c <=? 57) then Some (c - 48, r) else None
  | c :: d :: r =>
      if ((c =? 49) || (c =? 50)) && is_digit d then Some ((c - 48) * 10 + (d - 48), r)
      else if (49 <=? c) && (c <=? 57) then Some (c - 48, d :: r) else None
  | [c] => if (49 <=? c) && (c <=? 57) then Some (c - 48, []) else None
  | [] => None
  end.
Definition strptime_ymd (s : text) : option date :=
  opt (y, s) <- scan_digits 4 0 s; opt s <- scan_char 45 s;
  opt (m, s) <- scan_month s; opt s <- scan_char 45 s;
  opt (d, s) <- scan_day s;
  match s with
  | [] => let v := mkdate y m d in if valid_date v then Some v else None
  | _ => None
  end.
(** Date._offset_re = DATE_PATTERN + '(' + OFFSET_PATTERN + '|Z)\Z' *)
Definition scan_date_tz (s : text) : option date :=
  opt (d, s) <- scan_date s;
  match s with
  | [90] => Some d
  | _ => match scan_offset s with Some (_, _, _, []) => Some d | _ => None end
  end.
(** date_from_unicode with date_format None:
      try: date_from_unicode_iso (strptime, else offset regex and date(), else ValidationError)
      except ValueError: offset regex again and date() again *)
Definition date_from_unicode (s : text) : out date :=
  match strptime_ymd s with
  | Some d => Ok d
  | None =>
      match scan_date_tz s with
      | Some d => if valid_date d then Ok d else Crash ValueError
      | None => VFault
      end
  end.

(** ---- XSD lexical spaces (independent recognisers) ----
    xs:dateTime restricted to what Python can represent: 4-digit year 0001-9999
    (no sign, no longer years), hour <= 23 (24:00:00 excluded), second <= 59,
    fraction of 1..6 digits, optional Z or (+|-)hh:mm with hh:mm <= 14:00. *)
Definition xs_tz (s : text) : option (option Z) :=
  match s with
  | [] => Some None
  | [90] => Some (Some 0)
  | _ => match scan_offset s with
         | Some (neg, h, m, []) =>
             if ((h <=? 13) && (m <=? 59)) || ((h =? 14) && (m =? 0))
             then Some (Some (offset_minutes neg h m)) else None
         | _ => None
         end
  end.
Definition frac_value (f : option text) : option Z :=
  match f with
  | None => Some 0
  | Some ds => let d := length ds in
               if (Nat.leb d 6) then Some (val_digits 0 ds * 10 ^ (6 - Z.of_nat d)) else None
  end.
(** denotation of an xs:dateTime literal in the restricted space *)
Definition xs_dateTime (s : text) : option datetime :=
  opt (d, s) <- scan_date s; opt s <- scan_char 84 s;
  opt (h, m, x, f, s) <- scan_time s;
  opt u <- frac_value f; opt o <- xs_tz s;
  let v := mkdt d (mktod h m x u) o in
  if valid_datetime v then Some v else None.
Definition xs_time (s : text) : option tod :=
  opt (h, m, x, f, s) <- scan_time s; opt u <- frac_value f;
  match s with
  | [] => let t := mktod h m x u in if valid_tod t then Some t else None
  | _ => None
  end.
Definition xs_date (s : text) : option date :=
  opt (d, s) <- scan_date s; opt _ <- xs_tz s;
  if valid_date d then Some d else None.

(** equality tests for the case files *)
Definition date_eqb (a b : date) : bool := (yr a =? yr b) && (mo a =? mo b) && (dy a =? dy b).
Definition tod_eqb (a b : tod) : bool :=
  (hr a =? hr b) && (mi a =? mi b) && (se a =? se b) && (us a =? us b).
Definition optz_eqb (a b : option Z) : bool :=
  match a, b with Some x, Some y => x =? y | None, None => true | _, _ => false end.
Definition datetime_eqb (a b : datetime) : bool :=
  date_eqb (dt_d a) (dt_d b) && tod_eqb (dt_t a) (dt_t b) && optz_eqb (dt_off a) (dt_off b).
