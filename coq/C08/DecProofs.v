(** C08 Decimal: round trip for every finite Decimal, the xs:decimal literals read as their
    denotation, and the exact region in which the written text is an xs:decimal literal. *)
From Coq Require Import ZArith List Bool Lia ZifyBool.
From SpyneV Require Import Base.Prelude Base.Digits Base.DigitsProofs Base.Ext Wire.Decimal
                           C02.DecimalProofs C08.DecModel.
Import ListNotations.
Open Scope Z_scope.

(** ---- the characters of str(d) ---- *)
Definition dec_char (c : Z) : bool :=
  is_digit c || (c =? 45) || (c =? 46) || (c =? 69) || (c =? 43).
Definition dec_chars (l : text) : Prop := Forall (fun c => dec_char c = true) l.

Lemma digits_dec_chars l : digits l -> dec_chars l.
Proof. apply Forall_impl. intros c H. unfold dec_char. rewrite H. reflexivity. Qed.

Lemma dec_chars_app a b : dec_chars a -> dec_chars b -> dec_chars (a ++ b).
Proof. intros. apply Forall_app. split; assumption. Qed.

Lemma dec_chars_cons c l : dec_char c = true -> dec_chars l -> dec_chars (c :: l).
Proof. intros. constructor; assumption. Qed.

Lemma fmt_plus_d_chars z : dec_chars (fmt_plus_d z).
Proof.
  unfold fmt_plus_d. destruct (z <? 0) eqn:E; (apply dec_chars_cons; [reflexivity|]);
    apply digits_dec_chars, str_nat_digits; lia.
Qed.

Lemma dec_str_chars d : 0 <= d_coef d -> dec_chars (dec_str d).
Proof.
  intros Hc. unfold dec_str.
  pose proof (str_nat_digits _ Hc) as Hd. set (ds := str_nat (d_coef d)) in *. cbv zeta.
  repeat apply dec_chars_app.
  - destruct (d_neg d); [apply dec_chars_cons; [reflexivity|constructor]|constructor].
  - destruct (_ <=? 0); [apply dec_chars_cons; [reflexivity|constructor]|].
    destruct (_ <=? _).
    + apply dec_chars_app; apply digits_dec_chars; [exact Hd|apply digits_zeros].
    + apply digits_dec_chars, digits_firstn, Hd.
  - destruct (_ <=? 0).
    + apply dec_chars_cons; [reflexivity|]. apply dec_chars_app; apply digits_dec_chars; [apply digits_zeros|exact Hd].
    + destruct (_ <=? _); [constructor|]. apply dec_chars_cons; [reflexivity|].
      apply digits_dec_chars, digits_skipn, Hd.
  - destruct (_ =? _); [constructor|]. apply dec_chars_cons; [reflexivity|]. apply fmt_plus_d_chars.
Qed.

Lemma dec_str_nonempty d : 0 <= d_coef d -> dec_str d <> [].
Proof.
  intros Hc H. pose proof (dec_roundtrip d Hc) as R. rewrite H in R. discriminate R.
Qed.

(** ---- none of them is stripped or dropped ---- *)
Lemma dec_char_not_space c : dec_char c = true -> is_space c = false.
Proof. unfold dec_char, is_digit, is_space. lia. Qed.
Lemma dec_char_not_ws c : dec_char c = true -> py_isspace c = false.
Proof. unfold dec_char, is_digit, py_isspace. lia. Qed.
Lemma dec_char_not_us c : dec_char c = true -> negb (c =? 95) = true.
Proof. unfold dec_char, is_digit. lia. Qed.

Lemma strip_chars l : dec_chars l -> l <> [] -> strip l = l.
Proof.
  intros HF Hne. destruct (exists_last Hne) as (m' & d & Hl).
  destruct l as [|c m]; [congruence|].
  assert (Hc : dec_char c = true) by (inversion HF; assumption).
  assert (Hd : dec_char d = true).
  { rewrite Hl in HF. apply Forall_app in HF. destruct HF as [_ HF]. inversion HF; assumption. }
  eapply strip_id; [reflexivity|apply dec_char_not_space, Hc|exists m'; exact Hl|apply dec_char_not_space, Hd].
Qed.

Lemma drop_ws_head c l : py_isspace c = false -> drop_ws (c :: l) = c :: l.
Proof. intros H. cbn [drop_ws]. rewrite H. reflexivity. Qed.

Lemma strip_ws_chars l : dec_chars l -> strip_ws l = l.
Proof.
  intros HF. destruct l as [|c m]; [reflexivity|].
  assert (Hne : c :: m <> []) by discriminate.
  destruct (exists_last Hne) as (m' & d & Hl).
  assert (Hc : dec_char c = true) by (inversion HF; assumption).
  assert (Hd : dec_char d = true).
  { rewrite Hl in HF. apply Forall_app in HF. destruct HF as [_ HF]. inversion HF; assumption. }
  unfold strip_ws. rewrite drop_ws_head by (apply dec_char_not_ws, Hc).
  rewrite Hl, rev_app_distr. cbn [rev app]. rewrite drop_ws_head by (apply dec_char_not_ws, Hd).
  change (d :: rev m') with (rev [d] ++ rev m'). rewrite <- rev_app_distr, rev_involutive. reflexivity.
Qed.

Lemma no_us_chars l : dec_chars l -> no_us l = l.
Proof.
  unfold no_us. induction 1 as [|c l Hc HF IH]; [reflexivity|]. cbn [filter].
  rewrite (dec_char_not_us c Hc), IH. reflexivity.
Qed.

(** ---- the sign ---- *)
Lemma sign_split_cons c r :
  sign_split (c :: r) = if c =? 45 then (true, r) else if c =? 43 then (false, r) else (false, c :: r).
Proof.
  destruct (c =? 45) eqn:E1; [apply Z.eqb_eq in E1; subst; reflexivity|].
  destruct (c =? 43) eqn:E2; [apply Z.eqb_eq in E2; subst; reflexivity|].
  unfold sign_split. destruct c as [|p|p]; try reflexivity.
  do 6 (destruct p as [p|p|]; try reflexivity); discriminate.
Qed.

(** ---- Decimal(str(d)) ---- *)
Lemma dec_parse_core s : dec_parse s = dec_core (strip s).
Proof. reflexivity. Qed.

Lemma dec_core_str d : 0 <= d_coef d -> dec_core (dec_str d) = Some d.
Proof.
  intros Hc. rewrite <- (strip_chars (dec_str d)) by (auto using dec_str_chars, dec_str_nonempty).
  rewrite <- dec_parse_core. apply dec_roundtrip. exact Hc.
Qed.

(** a number starts with a digit or the point *)
Lemma dec_parse_unsigned_head r x : dec_parse_unsigned r = Some x ->
  exists c m, r = c :: m /\ (is_digit c = true \/ c = 46).
Proof.
  destruct r as [|c m]; [discriminate|]. intros H. exists c, m. split; [reflexivity|].
  destruct (is_digit c) eqn:Hd; [left; reflexivity|right].
  destruct (Z.eq_dec c 46) as [|Hne]; [assumption|exfalso].
  unfold dec_parse_unsigned in H. cbn [span_dig] in H. rewrite Hd in H. cbv beta iota zeta in H.
  clear Hd.
  destruct c as [|p|p]; try (cbv beta iota zeta in H; discriminate H).
  do 6 (destruct p as [p|p|]; try (cbv beta iota zeta in H; discriminate H)). congruence.
Qed.

Lemma lower_small c : c < 65 -> lower_ascii c = c.
Proof. unfold lower_ascii. intros H. replace ((65 <=? c) && (c <=? 90)) with false by lia. reflexivity. Qed.

Lemma dec_special_number neg c m : is_digit c = true \/ c = 46 -> dec_special neg (c :: m) = None.
Proof.
  intros H. assert (Hc : c < 65) by (unfold is_digit in H; lia).
  unfold dec_special. cbn [map]. rewrite (lower_small c Hc). cbn [text_eqb firstn].
  replace (c =? 105) with false by (unfold is_digit in H; lia).
  replace (c =? 110) with false by (unfold is_digit in H; lia).
  replace (c =? 115) with false by (unfold is_digit in H; lia).
  reflexivity.
Qed.

Lemma py_decimal_of_core s d : dec_chars s -> dec_core s = Some d ->
  py_decimal s = if dec_in_limits d then Some (PFin d) else None.
Proof.
  intros HF Hcore. unfold py_decimal. rewrite (strip_ws_chars s HF), (no_us_chars s HF), Hcore.
  unfold dec_core in Hcore. destruct (sign_split s) as [neg r].
  destruct (dec_parse_unsigned r) as [[coef e]|] eqn:Ep; [|discriminate].
  destruct (dec_parse_unsigned_head _ _ Ep) as (c & m & -> & Hc).
  rewrite (dec_special_number neg c m Hc). reflexivity.
Qed.

Theorem decimal_roundtrip a d :
  0 <= d_coef d -> dec_in_limits d = true ->
  ext_leb (Fin (len (dec_str d))) (na_max_str_len a) = true ->
  decimal_from_unicode a (decimal_to_unicode d) = Ok d.
Proof.
  intros Hc Hl Hlen. unfold decimal_from_unicode, decimal_to_unicode. rewrite Hlen. cbn [negb].
  rewrite (py_decimal_of_core _ d (dec_str_chars d Hc) (dec_core_str d Hc)), Hl. reflexivity.
Qed.

(** ---- the reader never lets an exception escape, and returns finite numbers only ---- *)
Theorem decimal_reader_total a s : is_crash (decimal_from_unicode a s) = false.
Proof.
  unfold decimal_from_unicode. destruct (negb _); [reflexivity|].
  destruct (py_decimal s) as [[d|n|n g]|]; reflexivity.
Qed.

Theorem decimal_reader_finite a s d : decimal_from_unicode a s = Ok d ->
  py_decimal s = Some (PFin d) /\ ext_leb (Fin (len s)) (na_max_str_len a) = true.
Proof.
  unfold decimal_from_unicode. destruct (ext_leb _ _); cbn [negb]; [|discriminate].
  destruct (py_decimal s) as [[d'|n|n g]|]; try discriminate. intros H; inversion H; auto.
Qed.

(** ---- xs:decimal literals ---- *)
Definition xs_char (c : Z) : bool := is_digit c || (c =? 45) || (c =? 46) || (c =? 43).

Lemma xs_char_dec_char c : xs_char c = true -> dec_char c = true.
Proof. unfold xs_char, dec_char, is_digit. lia. Qed.

Lemma span_dig_spec l : forall ds r, span_dig l = (ds, r) -> digits ds /\ l = ds ++ r.
Proof.
  induction l as [|c l IH]; intros ds r H; cbn [span_dig] in H.
  - inversion H; subst. split; [constructor|reflexivity].
  - destruct (is_digit c) eqn:Hc.
    + destruct (span_dig l) as [a b]. inversion H; subst.
      destruct (IH a r eq_refl) as [HF ->]. split; [constructor; auto|reflexivity].
    + inversion H; subst. split; [constructor|reflexivity].
Qed.

Lemma digits_xs_chars l : digits l -> Forall (fun c => xs_char c = true) l.
Proof. apply Forall_impl. intros c H. unfold xs_char. rewrite H. reflexivity. Qed.

(** what xs_decimal_unsigned accepts is made of digits and at most one point, and the number
    parser of Decimal() reads it alike *)
Lemma xs_unsigned_core neg s v : xs_decimal_unsigned neg s = Some v ->
  Forall (fun c => xs_char c = true) s /\ dec_parse_unsigned s = Some (d_coef v, d_exp v) /\ d_neg v = neg.
Proof.
  unfold xs_decimal_unsigned, dec_parse_unsigned.
  destruct (span_dig s) as [ip rest] eqn:E1. destruct (span_dig_spec _ _ _ E1) as [Hip ->].
  destruct rest as [|c r].
  - destruct (is_nil ip) eqn:En; [discriminate|]. intros H; inversion H; subst. cbn [d_coef d_exp d_neg].
    rewrite app_nil_r. split; [apply digits_xs_chars, Hip|]. split; [|reflexivity].
    reflexivity.
  - destruct (c =? 46) eqn:Ec; [|discriminate]. apply Z.eqb_eq in Ec. subst c.
    destruct (span_dig r) as [fp rest'] eqn:E2. destruct (span_dig_spec _ _ _ E2) as [Hfp ->].
    destruct (is_nil rest' && negb (is_nil ip && is_nil fp)) eqn:Eb; [|discriminate].
    apply andb_true_iff in Eb. destruct Eb as [Er Eb]. destruct rest'; [|discriminate].
    intros H; inversion H; subst. cbn [d_coef d_exp d_neg]. rewrite app_nil_r.
    split; [|split; [|reflexivity]].
    + apply Forall_app. split; [apply digits_xs_chars, Hip|]. constructor; [reflexivity|apply digits_xs_chars, Hfp].
    + apply negb_true_iff in Eb. rewrite Eb. reflexivity.
Qed.

Lemma xs_decimal_core s v : xs_decimal s = Some v ->
  Forall (fun c => xs_char c = true) s /\ dec_core s = Some v.
Proof.
  unfold xs_decimal, dec_core. destruct s as [|c r]; [discriminate|]. rewrite sign_split_cons.
  destruct (c =? 45) eqn:E1.
  - intros H. apply xs_unsigned_core in H. destruct H as (HF & Hp & Hn). rewrite Hp.
    apply Z.eqb_eq in E1. subst c. split; [constructor; [reflexivity|exact HF]|].
    destruct v; cbn in *; subst; reflexivity.
  - destruct (c =? 43) eqn:E2.
    + intros H. apply xs_unsigned_core in H. destruct H as (HF & Hp & Hn). rewrite Hp.
      apply Z.eqb_eq in E2. subst c. split; [constructor; [reflexivity|exact HF]|].
      destruct v; cbn in *; subst; reflexivity.
    + intros H. apply xs_unsigned_core in H. destruct H as (HF & Hp & Hn). rewrite Hp.
      split; [exact HF|]. destruct v; cbn in *; subst; reflexivity.
Qed.

Theorem decimal_in_lex a s v :
  xs_decimal s = Some v -> dec_in_limits v = true ->
  ext_leb (Fin (len s)) (na_max_str_len a) = true ->
  decimal_from_unicode a s = Ok v.
Proof.
  intros Hx Hl Hlen. destruct (xs_decimal_core s v Hx) as [HF Hcore].
  unfold decimal_from_unicode. rewrite Hlen. cbn [negb].
  rewrite (py_decimal_of_core s v); [rewrite Hl; reflexivity| |exact Hcore].
  eapply Forall_impl; [|exact HF]. intros c. apply xs_char_dec_char.
Qed.

(** ---- where str(d) is an xs:decimal literal: exactly when it carries no exponent ---- *)
Lemma xs_shape neg ip fp (hasdot : bool) :
  digits ip -> digits fp -> (hasdot = false -> fp = [] /\ ip <> []) -> (ip <> [] \/ fp <> []) ->
  xs_decimal_unsigned neg (ip ++ (if hasdot then 46 :: fp else []))
  = Some (mkdec neg (val_digits 0 (ip ++ fp)) (- len fp)).
Proof.
  intros Hip Hfp Hnd Hne. unfold xs_decimal_unsigned.
  rewrite span_dig_app; [|exact Hip|destruct hasdot; [reflexivity|exact I]].
  destruct hasdot.
  - cbn [Z.eqb Pos.eqb]. rewrite (span_dig_all fp Hfp). cbn [is_nil andb].
    destruct ip, fp; cbn [is_nil andb negb]; try reflexivity. destruct Hne; congruence.
  - destruct (Hnd eq_refl) as [-> Hi]. destruct ip; [congruence|]. cbn [is_nil]. rewrite app_nil_r. reflexivity.
Qed.

Lemma xs_decimal_signed (neg : bool) body c0 m : body = c0 :: m -> is_digit c0 = true ->
  xs_decimal ((if neg then [45] else []) ++ body) = xs_decimal_unsigned neg body.
Proof.
  intros -> Hc. destruct neg; cbn [app xs_decimal]; [reflexivity|].
  replace (c0 =? 45) with false by (unfold is_digit in Hc; lia).
  replace (c0 =? 43) with false by (unfold is_digit in Hc; lia). reflexivity.
Qed.

Lemma dec_plain_form_spec d : dec_plain_form d = (d_exp d <=? 0) && (-6 <? d_exp d + len (str_nat (d_coef d))).
Proof. reflexivity. Qed.

Theorem decimal_out_lex_plain d : 0 <= d_coef d -> dec_plain_form d = true ->
  xs_decimal (decimal_to_unicode d) = Some d.
Proof.
  intros Hc Hp. destruct d as [neg coef e]. unfold decimal_to_unicode, dec_plain_form in *.
  cbn [d_coef d_neg d_exp] in *. unfold dec_str. cbn [d_coef d_neg d_exp].
  remember (str_nat coef) as ds eqn:Eds0.
  assert (Hds : digits ds) by (rewrite Eds0; apply str_nat_digits; exact Hc).
  assert (Hne : ds <> []) by (rewrite Eds0; apply str_nat_nonempty; exact Hc).
  assert (Hval : val_digits 0 ds = coef) by (rewrite Eds0; apply val_str_nat0; exact Hc).
  clear Eds0.
  assert (Hn : 1 <= len ds) by (unfold len; destruct ds; [contradiction|cbn [length]; lia]).
  set (n := len ds) in *. cbv zeta. rewrite Hp, Z.eqb_refl, app_nil_r.
  destruct (e + n <=? 0) eqn:Hd0.
  - (* 0.000ddd *)
    rewrite (xs_decimal_signed neg _ 48 (46 :: zeros (- (e + n)) ++ ds)) by reflexivity.
    change (([48] ++ 46 :: zeros (- (e + n)) ++ ds)) with ([48] ++ (if true then 46 :: (zeros (- (e + n)) ++ ds) else [])).
    rewrite xs_shape; [|repeat constructor|apply digits_app; [apply digits_zeros|exact Hds]|discriminate|left; discriminate].
    f_equal. f_equal.
    + change ([48] ++ zeros (- (e + n)) ++ ds) with (zeros 1 ++ zeros (- (e + n)) ++ ds).
      rewrite !val_zeros_app. exact Hval.
    + rewrite len_app, len_zeros by lia. fold n. lia.
  - destruct (n <=? e + n) eqn:Hd1.
    + (* an integer *)
      assert (e = 0) by lia. subst e. replace (0 + n - n) with 0 by lia.
      unfold zeros. cbn [Z.to_nat repeat]. rewrite !app_nil_r.
      destruct ds as [|c0 m] eqn:Eds; [contradiction|].
      rewrite (xs_decimal_signed neg _ c0 m) by (auto; inversion Hds; assumption).
      pose proof (xs_shape neg (c0 :: m) [] false Hds ltac:(constructor)) as P. cbn [app] in P.
      rewrite !app_nil_r in P. rewrite P; [|intros _; split; [reflexivity|discriminate]|left; discriminate].
      rewrite Hval. reflexivity.
    + (* ddd.ddd *)
      set (dot := e + n) in *.
      assert (Hdot : 0 < dot < n) by lia.
      assert (Hf : firstn (Z.to_nat dot) ds <> []).
      { intros E0. pose proof (len_firstn dot ds ltac:(fold n; lia)) as L. rewrite E0 in L.
        unfold len in L. cbn [length] in L. lia. }
      pose proof (digits_firstn (Z.to_nat dot) ds Hds) as Hfd.
      pose proof (firstn_skipn (Z.to_nat dot) ds) as Hfs.
      destruct (firstn (Z.to_nat dot) ds) as [|c0 m] eqn:Ef; [contradiction|].
      rewrite (xs_decimal_signed neg _ c0 (m ++ 46 :: skipn (Z.to_nat dot) ds)) by (auto; inversion Hfd; assumption).
      pose proof (xs_shape neg (c0 :: m) (skipn (Z.to_nat dot) ds) true Hfd (digits_skipn _ _ Hds)) as P.
      cbv beta iota in P. rewrite P; [|discriminate|left; discriminate].
      f_equal. f_equal.
      * rewrite Hfs. exact Hval.
      * rewrite len_skipn by (fold n; lia). fold n. lia.
Qed.

Theorem decimal_out_lex_scientific d : 0 <= d_coef d -> dec_plain_form d = false ->
  xs_decimal (decimal_to_unicode d) = None.
Proof.
  intros Hc Hp. destruct d as [neg coef e]. unfold decimal_to_unicode, dec_plain_form in *.
  cbn [d_coef d_neg d_exp] in *. unfold dec_str. cbn [d_coef d_neg d_exp].
  remember (str_nat coef) as ds eqn:Eds0.
  assert (Hds : digits ds) by (rewrite Eds0; apply str_nat_digits; exact Hc).
  assert (Hne : ds <> []) by (rewrite Eds0; apply str_nat_nonempty; exact Hc).
  clear Eds0.
  assert (Hn : 1 <= len ds) by (unfold len; destruct ds; [contradiction|cbn [length]; lia]).
  set (n := len ds) in *. cbv zeta. rewrite Hp.
  assert (Hleft : (e + n =? 1) = false) by lia. rewrite Hleft.
  replace (1 <=? 0) with false by reflexivity.
  destruct (n <=? 1) eqn:Hn1.
  - assert (n = 1) by lia. replace (1 - n) with 0 by lia. unfold zeros. cbn [Z.to_nat repeat].
    rewrite app_nil_r. cbn [app].
    destruct ds as [|c0 m] eqn:Eds; [contradiction|].
    rewrite (xs_decimal_signed neg _ c0 (m ++ 69 :: fmt_plus_d (e + n - 1))) by (auto; inversion Hds; assumption).
    unfold xs_decimal_unsigned. rewrite span_dig_app; [reflexivity|exact Hds|reflexivity].
  - pose proof (digits_firstn (Z.to_nat 1) ds Hds) as Hfd.
    assert (Hf : firstn (Z.to_nat 1) ds <> []).
    { intros E0. pose proof (len_firstn 1 ds ltac:(fold n; lia)) as L. rewrite E0 in L.
      unfold len in L. cbn [length] in L. lia. }
    destruct (firstn (Z.to_nat 1) ds) as [|c0 m] eqn:Ef; [contradiction|].
    rewrite (xs_decimal_signed neg _ c0 (m ++ (46 :: skipn (Z.to_nat 1) ds) ++ 69 :: fmt_plus_d (e + n - 1)))
      by (auto; inversion Hfd; assumption).
    unfold xs_decimal_unsigned. rewrite span_dig_app; [|exact Hfd|reflexivity].
    cbn [app Z.eqb Pos.eqb]. rewrite span_dig_app; [reflexivity|apply digits_skipn, Hds|reflexivity].
Qed.

Theorem decimal_out_lex_iff d : 0 <= d_coef d ->
  (xs_decimal (decimal_to_unicode d) = Some d <-> dec_plain_form d = true).
Proof.
  intros Hc. split.
  - intros H. destruct (dec_plain_form d) eqn:E; [reflexivity|].
    rewrite (decimal_out_lex_scientific d Hc E) in H. discriminate.
  - apply decimal_out_lex_plain. exact Hc.
Qed.

(** the unguarded statement fails: Decimal('1E+10') is written '1E+10' *)
Theorem decimal_out_lex_refuted :
  exists d, 0 <= d_coef d /\ dec_in_limits d = true /\ xs_decimal (decimal_to_unicode d) = None.
Proof. exists (mkdec false 1 10). vm_compute. repeat split; congruence. Qed.
