(** C08 date/time family: lemmas about the model of C08/DtModel.v.
    Round trips (offsets arithmetically, microseconds through the exhaustive
    binary64 sweep of C08/FracSweep.v), output and input XSD lexical spaces,
    and the exact shape of the reader's outcomes (VFault / Ok / ValueError). *)
From SpyneV Require Import Base.Digits Base.DigitsProofs C08.DtModel C08.ScanLemmas C08.FracSweep.
From Coq Require Import Lia ZifyBool.
Ltac Zify.zify_post_hook ::= Z.to_euclidean_division_equations.

(** ---- ranges behind the validity tests ---- *)
Lemma days_in_month_le y m : 28 <= days_in_month y m <= 31.
Proof.
  unfold days_in_month. destruct (m =? 2); [destruct (is_leap y); lia|].
  destruct ((m =? 4) || (m =? 6) || (m =? 9) || (m =? 11)); lia.
Qed.

Lemma valid_date_range d : valid_date d = true ->
  1 <= yr d <= 9999 /\ 1 <= mo d <= 12 /\ 1 <= dy d <= 31.
Proof.
  unfold valid_date. pose proof (days_in_month_le (yr d) (mo d)). lia.
Qed.

Lemma valid_tod_range t : valid_tod t = true ->
  0 <= hr t <= 23 /\ 0 <= mi t <= 59 /\ 0 <= se t <= 59 /\ 0 <= us t <= 999999.
Proof. unfold valid_tod. lia. Qed.

Lemma valid_datetime_split v : valid_datetime v = true ->
  valid_date (dt_d v) = true /\ valid_tod (dt_t v) = true /\ valid_off (dt_off v) = true.
Proof.
  unfold valid_datetime. intros H. apply andb_true_iff in H. destruct H as [H Ho].
  apply andb_true_iff in H. destruct H as [Hd Ht]. auto.
Qed.

(** ---- 1. offsets ---- *)
Lemma offset_minutes_iso m : -1440 < m < 1440 ->
  offset_minutes (m <? 0) (Z.abs m / 60) (Z.abs m mod 60) = m.
Proof. intros H. unfold offset_minutes. destruct (m <? 0) eqn:E; lia. Qed.

Lemma scan_offset_iso m r : -1440 < m < 1440 ->
  scan_offset (offset_iso m ++ r) = Some (m <? 0, Z.abs m / 60, Z.abs m mod 60, r).
Proof.
  intros H. unfold offset_iso. set (c := if m <? 0 then 45 else 43).
  cbn [app]. rewrite <- app_assoc. cbn [app]. unfold scan_offset.
  replace ((c =? 43) || (c =? 45)) with true by (subst c; destruct (m <? 0); reflexivity).
  rewrite scan_zpad2 by lia. cbn [obind]. rewrite scan_char_hd. cbn [obind].
  rewrite scan_zpad2 by lia. cbn [obind].
  replace (c =? 45) with (m <? 0) by (subst c; destruct (m <? 0); reflexivity).
  reflexivity.
Qed.

Lemma offset_roundtrip m : -1440 < m < 1440 ->
  scan_offset (offset_iso m) = Some (m <? 0, Z.abs m / 60, Z.abs m mod 60, [])
  /\ offset_minutes (m <? 0) (Z.abs m / 60) (Z.abs m mod 60) = m.
Proof.
  intros H. split; [|apply offset_minutes_iso; exact H].
  rewrite <- (app_nil_r (offset_iso m)). apply scan_offset_iso. exact H.
Qed.

Lemma offset_iso_not_nil m : is_nil (offset_iso m) = false.
Proof. reflexivity. Qed.

Lemma offset_iso_not_Z m : is_Z_only (offset_iso m) = false.
Proof.
  unfold offset_iso. destruct (zpad 2 (Z.abs m / 60) ++ [58] ++ zpad 2 (Z.abs m mod 60));
    destruct (m <? 0); reflexivity.
Qed.

(** ---- scanning what the printers write ---- *)
Lemma date_iso_app d r :
  date_iso d ++ r = zpad 4 (yr d) ++ 45 :: zpad 2 (mo d) ++ 45 :: zpad 2 (dy d) ++ r.
Proof. unfold date_iso. repeat rewrite <- app_assoc. reflexivity. Qed.

Lemma scan_date_iso d r : valid_date d = true -> scan_date (date_iso d ++ r) = Some (d, r).
Proof.
  intros H. apply valid_date_range in H. destruct H as (Hy & Hm & Hd).
  rewrite date_iso_app. unfold scan_date.
  rewrite scan_zpad4 by lia. cbn [obind]. rewrite scan_char_hd. cbn [obind].
  rewrite scan_zpad2 by lia. cbn [obind]. rewrite scan_char_hd. cbn [obind].
  rewrite scan_zpad2 by lia. cbn [obind]. destruct d; reflexivity.
Qed.

(** what may follow the seconds / the fraction: the end, or something that is
    neither a digit nor a dot *)
Definition tz_start (r : text) : Prop :=
  match r with [] => True | c :: _ => is_digit c = false /\ c <> 46 end.

Definition iso_frac (t : tod) : option text :=
  if us t =? 0 then None else Some (zpad 6 (us t)).

Lemma time_iso_app t r :
  time_iso t ++ r = zpad 2 (hr t) ++ 58 :: zpad 2 (mi t) ++ 58 :: zpad 2 (se t)
                    ++ (if us t =? 0 then [] else 46 :: zpad 6 (us t)) ++ r.
Proof. unfold time_iso. repeat rewrite <- app_assoc. reflexivity. Qed.

Lemma scan_time_iso t r : valid_tod t = true -> tz_start r ->
  scan_time (time_iso t ++ r) = Some (hr t, mi t, se t, iso_frac t, r).
Proof.
  intros H Hr. apply valid_tod_range in H. destruct H as (Hh & Hm & Hs & Hu).
  rewrite time_iso_app. unfold scan_time, iso_frac.
  rewrite scan_zpad2 by lia. cbn [obind]. rewrite scan_char_hd. cbn [obind].
  rewrite scan_zpad2 by lia. cbn [obind]. rewrite scan_char_hd. cbn [obind].
  rewrite scan_zpad2 by lia. cbn [obind].
  destruct (us t =? 0) eqn:E; cbn [app].
  - rewrite scan_frac_none; [reflexivity|]. destruct r as [|c r]; [exact I|]. apply Hr.
  - rewrite scan_frac_some; [reflexivity|apply zpad_digits| |].
    + intros Hz. apply (f_equal (@length Z)) in Hz. rewrite zpad_length in Hz. discriminate Hz.
    + destruct r as [|c r]; [exact I|]. apply Hr.
Qed.

(** microseconds survive the float computation *)
Lemma usec_of_iso t : valid_tod t = true -> usec_of (iso_frac t) = us t.
Proof.
  intros H. apply valid_tod_range in H. unfold iso_frac, usec_of.
  destruct (us t =? 0) eqn:E; [lia|]. apply usec_of_frac_zpad6. lia.
Qed.

Lemma frac_value_iso t : valid_tod t = true -> frac_value (iso_frac t) = Some (us t).
Proof.
  intros H. apply valid_tod_range in H. unfold iso_frac, frac_value.
  destruct (us t =? 0) eqn:E; [f_equal; lia|].
  rewrite zpad_length. cbn [Nat.leb].
  rewrite zpad_val by (change (10 ^ Z.of_nat 6) with 1000000; lia).
  change (10 ^ (6 - Z.of_nat 6)) with 1. f_equal. lia.
Qed.

Lemma tz_start_offset m : tz_start (offset_iso m).
Proof. unfold offset_iso, tz_start, is_digit. destruct (m <? 0); split; (reflexivity || discriminate). Qed.

(** ---- 2. datetime round trip ---- *)
Lemma datetime_roundtrip v : valid_datetime v = true ->
  datetime_from_unicode_iso (datetime_iso v) = Ok v.
Proof.
  intros Hv. destruct (valid_datetime_split v Hv) as (Hd & Ht & Ho).
  destruct v as [d t o]. cbn [dt_d dt_t dt_off] in *.
  unfold datetime_from_unicode_iso, datetime_iso. cbn [dt_d dt_t dt_off].
  rewrite (scan_date_iso d _ Hd). cbn [app].
  change ((84 =? 84) || (84 =? 32)) with true. cbv iota.
  destruct o as [m|].
  - cbn [valid_off] in Ho. assert (Hm : -1440 < m < 1440) by lia.
    rewrite (scan_time_iso t (offset_iso m) Ht (tz_start_offset m)).
    rewrite match_Z_nil, offset_iso_not_nil, offset_iso_not_Z.
    destruct (offset_roundtrip m Hm) as [Hs Hmm]. rewrite Hs, Hmm.
    unfold mk_datetime. rewrite (usec_of_iso t Ht).
    destruct t as [h mi' s u]. cbn [hr mi se us]. rewrite Hv. reflexivity.
  - rewrite (scan_time_iso t [] Ht I).
    unfold mk_datetime. rewrite (usec_of_iso t Ht).
    destruct t as [h mi' s u]. cbn [hr mi se us]. rewrite Hv. reflexivity.
Qed.

(** ---- 3. time and date round trips ---- *)
Lemma time_roundtrip t : valid_tod t = true -> time_from_unicode (time_iso t) = Ok t.
Proof.
  intros Ht. unfold time_from_unicode. rewrite <- (app_nil_r (time_iso t)).
  rewrite (scan_time_iso t [] Ht I). rewrite (usec_of_iso t Ht).
  destruct t as [h m s u]. cbn [hr mi se us]. rewrite Ht. reflexivity.
Qed.

(** strptime('%Y-%m-%d') agrees with DATE_PATTERN on what DATE_PATTERN accepts
    with valid fields, except that it wants the whole string *)
Lemma strptime_of_scan_date s d s' : scan_date s = Some (d, s') -> valid_date d = true ->
  strptime_ymd s = match s' with [] => Some d | _ => None end.
Proof.
  unfold scan_date. intros H Hv.
  destruct (scan_digits 4 0 s) as [[y s1]|] eqn:Ey; cbn [obind] in H; [|discriminate].
  destruct (scan_char 45 s1) as [s2|] eqn:E1; cbn [obind] in H; [|discriminate].
  destruct (scan_digits 2 0 s2) as [[m s3]|] eqn:Em; cbn [obind] in H; [|discriminate].
  destruct (scan_char 45 s3) as [s4|] eqn:E2; cbn [obind] in H; [|discriminate].
  destruct (scan_digits 2 0 s4) as [[dd s5]|] eqn:Ed; cbn [obind] in H; [|discriminate].
  inversion H; subst d s'. clear H.
  apply valid_date_range in Hv as Hr. cbn [yr mo dy] in Hr. destruct Hr as (_ & Hmr & Hdr).
  apply scan_digits2_inv in Em. destruct Em as (m1 & m2 & -> & Hm1 & Hm2 & ->).
  apply scan_digits2_inv in Ed. destruct Ed as (d1 & d2 & -> & Hd1 & Hd2 & ->).
  unfold strptime_ymd. rewrite Ey. cbn [obind]. rewrite E1. cbn [obind].
  rewrite (scan_month_2d m1 m2 s3 Hm1 Hm2 Hmr). cbn [obind]. rewrite E2. cbn [obind].
  rewrite (scan_day_2d d1 d2 s5 Hd1 Hd2 Hdr). cbn [obind].
  destruct s5; [cbv zeta; rewrite Hv|]; reflexivity.
Qed.

Lemma date_roundtrip d : valid_date d = true -> date_from_unicode (date_iso d) = Ok d.
Proof.
  intros Hd. unfold date_from_unicode.
  rewrite (strptime_of_scan_date (date_iso d) d []); [reflexivity| |exact Hd].
  rewrite <- (app_nil_r (date_iso d)). apply scan_date_iso. exact Hd.
Qed.

(** ---- the timezone part of the XSD recognisers ---- *)
Lemma xs_tz_eq s : xs_tz s =
  if is_nil s then Some None
  else if is_Z_only s then Some (Some 0)
  else match scan_offset s with
       | Some (neg, h, m, []) =>
           if ((h <=? 13) && (m <=? 59)) || ((h =? 14) && (m =? 0))
           then Some (Some (offset_minutes neg h m)) else None
       | _ => None
       end.
Proof.
  destruct s as [|c r]; [reflexivity|]. cbn [is_nil].
  destruct (c =? 90) eqn:E.
  - apply Z.eqb_eq in E. subst c. destruct r; reflexivity.
  - assert (Hr : is_Z_only (c :: r) = false) by (destruct r; [exact E|reflexivity]).
    rewrite Hr. unfold xs_tz. destruct c as [|p|p]; try reflexivity.
    do 8 (try (destruct p as [p|p|]; try reflexivity)). discriminate E.
Qed.

Lemma xs_tz_offset_iso m : -840 <= m <= 840 -> xs_tz (offset_iso m) = Some (Some m).
Proof.
  intros H. rewrite xs_tz_eq.
  assert (Hm : -1440 < m < 1440) by lia.
  rewrite offset_iso_not_nil, offset_iso_not_Z.
  destruct (offset_roundtrip m Hm) as [Hs Hmm]. rewrite Hs, Hmm.
  replace (((Z.abs m / 60 <=? 13) && (Z.abs m mod 60 <=? 59))
           || ((Z.abs m / 60 =? 14) && (Z.abs m mod 60 =? 0))) with true by lia.
  reflexivity.
Qed.

(** ---- 4. the printed text is in the XSD lexical space, with the right denotation ---- *)
Definition xs_off_ok (o : option Z) : Prop :=
  match o with None => True | Some m => -840 <= m <= 840 end.

Lemma datetime_out_lex v : valid_datetime v = true -> xs_off_ok (dt_off v) ->
  xs_dateTime (datetime_iso v) = Some v.
Proof.
  intros Hv Hx. destruct (valid_datetime_split v Hv) as (Hd & Ht & Ho).
  destruct v as [d t o]. cbn [dt_d dt_t dt_off] in *.
  unfold xs_dateTime, datetime_iso. cbn [dt_d dt_t dt_off].
  rewrite (scan_date_iso d _ Hd). cbn [app obind]. rewrite scan_char_hd. cbn [obind].
  match goal with |- context [time_iso t ++ ?z] => set (tz := z) end.
  assert (Hz : tz_start tz).
  { subst tz. destruct o; [apply tz_start_offset|exact I]. }
  rewrite (scan_time_iso t _ Ht Hz). cbn [obind].
  rewrite (frac_value_iso t Ht). cbn [obind].
  assert (Htz : xs_tz tz = Some o).
  { subst tz. destruct o as [m|]; [apply xs_tz_offset_iso; exact Hx|reflexivity]. }
  rewrite Htz. cbn [obind]. cbv zeta.
  destruct t as [h m s u]. cbn [hr mi se us]. rewrite Hv. reflexivity.
Qed.

(** the guard on the offset is needed: +14:01 is written but is not an xs:dateTime zone *)
Lemma datetime_out_lex_unguarded_refuted :
  exists v, valid_datetime v = true /\ xs_dateTime (datetime_iso v) = None.
Proof.
  exists (mkdt (mkdate 2020 1 1) (mktod 0 0 0 0) (Some 841)). split; vm_compute; reflexivity.
Qed.

(** the guard is exact: beyond +-14:00 the printed text is not an xs:dateTime literal at all *)
Lemma xs_tz_offset_iso_out m : -1440 < m < 1440 -> ~ (-840 <= m <= 840) ->
  xs_tz (offset_iso m) = None.
Proof.
  intros Hm H. rewrite xs_tz_eq.
  rewrite offset_iso_not_nil, offset_iso_not_Z.
  destruct (offset_roundtrip m Hm) as [Hs Hmm]. rewrite Hs.
  replace (((Z.abs m / 60 <=? 13) && (Z.abs m mod 60 <=? 59))
           || ((Z.abs m / 60 =? 14) && (Z.abs m mod 60 =? 0))) with false by lia.
  reflexivity.
Qed.

Lemma datetime_out_lex_none v : valid_datetime v = true -> ~ xs_off_ok (dt_off v) ->
  xs_dateTime (datetime_iso v) = None.
Proof.
  intros Hv Hx. destruct (valid_datetime_split v Hv) as (Hd & Ht & Ho).
  destruct v as [d t o]. cbn [dt_d dt_t dt_off] in *.
  destruct o as [m|]; [|exfalso; apply Hx; exact I].
  cbn [valid_off xs_off_ok] in *. assert (Hm : -1440 < m < 1440) by lia.
  unfold xs_dateTime, datetime_iso. cbn [dt_d dt_t dt_off].
  rewrite (scan_date_iso d _ Hd). cbn [app obind]. rewrite scan_char_hd. cbn [obind].
  rewrite (scan_time_iso t _ Ht (tz_start_offset m)). cbn [obind].
  rewrite (frac_value_iso t Ht). cbn [obind].
  rewrite (xs_tz_offset_iso_out m Hm Hx). reflexivity.
Qed.

Lemma datetime_out_lex_iff v : valid_datetime v = true ->
  (xs_dateTime (datetime_iso v) = Some v <-> xs_off_ok (dt_off v)).
Proof.
  intros Hv. split; [|apply datetime_out_lex; exact Hv].
  intros H. assert (Hdec : xs_off_ok (dt_off v) \/ ~ xs_off_ok (dt_off v)).
  { destruct (dt_off v) as [m|]; cbn [xs_off_ok]; [lia|left; exact I]. }
  destruct Hdec as [Hok|Hno]; [exact Hok|].
  rewrite (datetime_out_lex_none v Hv Hno) in H. discriminate H.
Qed.

Lemma time_out_lex t : valid_tod t = true -> xs_time (time_iso t) = Some t.
Proof.
  intros Ht. unfold xs_time. rewrite <- (app_nil_r (time_iso t)).
  rewrite (scan_time_iso t [] Ht I). cbn [obind]. rewrite (frac_value_iso t Ht). cbn [obind].
  cbv zeta. destruct t as [h m s u]. cbn [hr mi se us]. rewrite Ht. reflexivity.
Qed.

Lemma date_out_lex d : valid_date d = true -> xs_date (date_iso d) = Some d.
Proof.
  intros Hd. unfold xs_date. rewrite <- (app_nil_r (date_iso d)).
  rewrite (scan_date_iso d [] Hd). cbn [obind xs_tz]. rewrite Hd. reflexivity.
Qed.

(** ---- 5. every literal of the (restricted) XSD space is read as its denotation ---- *)
Lemma scan_time_frac s h m x f rest : scan_time s = Some (h, m, x, f, rest) ->
  match f with None => True | Some ds => all_dig ds /\ ds <> [] end.
Proof.
  unfold scan_time. intros H.
  destruct (scan_digits 2 0 s) as [[h' s1]|]; cbn [obind] in H; [|discriminate].
  destruct (scan_char 58 s1) as [s2|]; cbn [obind] in H; [|discriminate].
  destruct (scan_digits 2 0 s2) as [[m' s3]|]; cbn [obind] in H; [|discriminate].
  destruct (scan_char 58 s3) as [s4|]; cbn [obind] in H; [|discriminate].
  destruct (scan_digits 2 0 s4) as [[x' s5]|]; cbn [obind] in H; [|discriminate].
  destruct (scan_frac s5) as [f' r'] eqn:Ef. inversion H; subst.
  apply scan_frac_spec in Ef. destruct f as [ds|]; [|exact I].
  destruct Ef as (HF & Hne & _). auto.
Qed.

(** the float computation is exact on every fraction of one to six digits *)
Lemma usec_of_frac_digits ds : all_dig ds -> (1 <= length ds <= 6)%nat ->
  usec_of_frac ds = val_digits 0 ds * 10 ^ (6 - Z.of_nat (length ds)).
Proof.
  intros HF Hl. apply usec_of_frac_exact; [exact HF|exact Hl|apply val_digits_bound; exact HF].
Qed.

Lemma usec_of_frac_value f u :
  match f with None => True | Some ds => all_dig ds /\ ds <> [] end ->
  frac_value f = Some u -> usec_of f = u.
Proof.
  intros Hf H. destruct f as [ds|]; cbn [frac_value usec_of] in *; [|inversion H; reflexivity].
  destruct Hf as [HF Hne].
  destruct (Nat.leb (length ds) 6) eqn:El; [|discriminate]. inversion H; subst u. clear H.
  apply Nat.leb_le in El.
  apply usec_of_frac_exact; [exact HF| |apply val_digits_bound; exact HF].
  destruct ds; [congruence|]. cbn [length] in *. lia.
Qed.

Lemma datetime_in_lex s v : xs_dateTime s = Some v -> datetime_from_unicode_iso s = Ok v.
Proof.
  unfold xs_dateTime, datetime_from_unicode_iso.
  destruct (scan_date s) as [[d s1]|]; cbn [obind]; [|discriminate].
  destruct s1 as [|sep s2]; cbn [scan_char obind]; [discriminate|].
  destruct (sep =? 84) eqn:Es; cbn [obind orb]; [|discriminate].
  destruct (scan_time s2) as [[[[[h m] x] f] rest]|] eqn:Et; cbn [obind]; [|discriminate].
  destruct (frac_value f) as [u|] eqn:Ef; cbn [obind]; [|discriminate].
  destruct (xs_tz rest) as [o|] eqn:Eo; cbn [obind]; [|discriminate].
  cbv zeta. destruct (valid_datetime (mkdt d (mktod h m x u) o)) eqn:Ev; [|discriminate].
  intros H. inversion H; subst v. clear H.
  assert (Hu : usec_of f = u).
  { apply usec_of_frac_value; [|exact Ef]. eapply scan_time_frac. exact Et. }
  rewrite match_Z_nil. rewrite xs_tz_eq in Eo. unfold mk_datetime. rewrite Hu.
  destruct (is_nil rest); [inversion Eo; subst o; rewrite Ev; reflexivity|].
  destruct (is_Z_only rest); [inversion Eo; subst o; rewrite Ev; reflexivity|].
  destruct (scan_offset rest) as [[[[neg oh] om] tl]|]; [|discriminate].
  destruct tl; [|discriminate].
  destruct (((oh <=? 13) && (om <=? 59)) || ((oh =? 14) && (om =? 0))); [|discriminate].
  inversion Eo; subst o. rewrite Ev. reflexivity.
Qed.

Lemma time_in_lex s t : xs_time s = Some t -> time_from_unicode s = Ok t.
Proof.
  unfold xs_time, time_from_unicode.
  destruct (scan_time s) as [[[[[h m] x] f] rest]|] eqn:Et; cbn [obind]; [|discriminate].
  destruct (frac_value f) as [u|] eqn:Ef; cbn [obind]; [|discriminate].
  destruct rest; [|discriminate]. cbv zeta.
  destruct (valid_tod (mktod h m x u)) eqn:Ev; [|discriminate].
  intros H. inversion H; subst t. clear H.
  assert (Hu : usec_of f = u).
  { apply usec_of_frac_value; [|exact Ef]. eapply scan_time_frac. exact Et. }
  rewrite Hu, Ev. reflexivity.
Qed.

Lemma date_in_lex s d : xs_date s = Some d -> date_from_unicode s = Ok d.
Proof.
  unfold xs_date, date_from_unicode.
  destruct (scan_date s) as [[d' s']|] eqn:Ed; cbn [obind]; [|discriminate].
  destruct (xs_tz s') as [o|] eqn:Eo; cbn [obind]; [|discriminate].
  destruct (valid_date d') eqn:Ev; [|discriminate].
  intros H. inversion H; subst d'. clear H.
  rewrite (strptime_of_scan_date s d s' Ed Ev).
  unfold scan_date_tz. rewrite Ed. cbn [obind]. rewrite match_Z_only.
  rewrite xs_tz_eq in Eo.
  destruct s' as [|c r]; [reflexivity|]. cbn [is_nil] in Eo.
  destruct (is_Z_only (c :: r)); [rewrite Ev; reflexivity|].
  destruct (scan_offset (c :: r)) as [[[[neg oh] om] tl]|]; [|discriminate].
  destruct tl; [|discriminate]. rewrite Ev. reflexivity.
Qed.

(** ---- 6. totality and the exact shape of the outcomes ---- *)
(** what must follow the time, and the offset the reader derives from it: the end
    of the text (naive), exactly "Z", or exactly one (+|-)hh:mm; anything else is
    no match (the regexes end in \Z) *)
Definition dt_tz (rest : text) : option (option Z) :=
  match rest with
  | [90] => Some (Some 0)
  | [] => Some None
  | _ => match scan_offset rest with
         | Some (neg, oh, om, []) => Some (Some (offset_minutes neg oh om))
         | _ => None
         end
  end.
(** the fields the reader hands to datetime(...), when the regex matches *)
Definition dt_fields (s : text) : option datetime :=
  opt (d, s1) <- scan_date s;
  match s1 with
  | sep :: s2 =>
      if (sep =? 84) || (sep =? 32) then
        opt (h, m, x, f, rest) <- scan_time s2;
        opt o <- dt_tz rest;
        Some (mkdt d (mktod h m x (usec_of f)) o)
      else None
  | [] => None
  end.

Lemma datetime_reader_shape s :
  datetime_from_unicode_iso s =
  match dt_fields s with
  | None => VFault
  | Some v => if valid_datetime v then Ok v else Crash ValueError
  end.
Proof.
  unfold datetime_from_unicode_iso, dt_fields.
  destruct (scan_date s) as [[d s1]|]; cbn [obind]; [|reflexivity].
  destruct s1 as [|sep s2]; [reflexivity|].
  destruct ((sep =? 84) || (sep =? 32)); [|reflexivity].
  destruct (scan_time s2) as [[[[[h m] x] f] rest]|]; cbn [obind]; [|reflexivity].
  unfold dt_tz. rewrite !match_Z_nil.
  destruct (is_nil rest); [reflexivity|].
  destruct (is_Z_only rest); [reflexivity|].
  destruct (scan_offset rest) as [[[[neg oh] om] tl]|]; [|reflexivity].
  destruct tl; reflexivity.
Qed.

Lemma datetime_only_valueerror s e : datetime_from_unicode_iso s = Crash e -> e = ValueError.
Proof.
  rewrite datetime_reader_shape. destruct (dt_fields s) as [v|]; [|discriminate].
  destruct (valid_datetime v); [discriminate|]. intros H. inversion H. reflexivity.
Qed.

Lemma datetime_crash_iff s :
  datetime_from_unicode_iso s = Crash ValueError <->
  exists v, dt_fields s = Some v /\ valid_datetime v = false.
Proof.
  rewrite datetime_reader_shape. split.
  - destruct (dt_fields s) as [v|]; [|discriminate].
    destruct (valid_datetime v) eqn:E; [discriminate|]. intros _. exists v. auto.
  - intros (v & -> & ->). reflexivity.
Qed.

Lemma datetime_vfault_iff s : datetime_from_unicode_iso s = VFault <-> dt_fields s = None.
Proof.
  rewrite datetime_reader_shape. split.
  - destruct (dt_fields s) as [v|]; [|reflexivity]. destruct (valid_datetime v); discriminate.
  - intros ->. reflexivity.
Qed.

Lemma datetime_ok_iff s v :
  datetime_from_unicode_iso s = Ok v <-> dt_fields s = Some v /\ valid_datetime v = true.
Proof.
  rewrite datetime_reader_shape. split.
  - destruct (dt_fields s) as [w|]; [|discriminate].
    destruct (valid_datetime w) eqn:E; [|discriminate]. intros H. inversion H; subst. auto.
  - intros (-> & ->). reflexivity.
Qed.

(** the same for the two smaller readers *)
Lemma time_only_valueerror s e : time_from_unicode s = Crash e -> e = ValueError.
Proof.
  unfold time_from_unicode. destruct (scan_time s) as [[[[[h m] x] f] rest]|]; [|discriminate].
  cbv zeta. destruct (valid_tod _); [discriminate|]. intros H. inversion H. reflexivity.
Qed.

Lemma time_crash_iff s :
  time_from_unicode s = Crash ValueError <->
  exists h m x f rest, scan_time s = Some (h, m, x, f, rest)
                       /\ valid_tod (mktod h m x (usec_of f)) = false.
Proof.
  unfold time_from_unicode. split.
  - destruct (scan_time s) as [[[[[h m] x] f] rest]|]; [|discriminate]. cbv zeta.
    destruct (valid_tod _) eqn:E; [discriminate|]. intros _. exists h, m, x, f, rest. auto.
  - intros (h & m & x & f & rest & -> & E). cbv zeta. rewrite E. reflexivity.
Qed.

Lemma date_only_valueerror s e : date_from_unicode s = Crash e -> e = ValueError.
Proof.
  unfold date_from_unicode. destruct (strptime_ymd s); [discriminate|].
  destruct (scan_date_tz s) as [d|]; [|discriminate].
  destruct (valid_date d); [discriminate|]. intros H. inversion H. reflexivity.
Qed.

Lemma date_crash_iff s :
  date_from_unicode s = Crash ValueError <->
  strptime_ymd s = None /\ exists d, scan_date_tz s = Some d /\ valid_date d = false.
Proof.
  unfold date_from_unicode. split.
  - destruct (strptime_ymd s); [discriminate|].
    destruct (scan_date_tz s) as [d|]; [|discriminate].
    destruct (valid_date d) eqn:E; [discriminate|]. intros _. split; [reflexivity|]. exists d. auto.
  - intros (-> & d & -> & ->). reflexivity.
Qed.

(** ---- 7. no trailing text is ignored (the regexes end in \Z) ---- *)
Lemma scan_date_append s d r j : scan_date s = Some (d, r) -> scan_date (s ++ j) = Some (d, r ++ j).
Proof.
  unfold scan_date. intros H.
  destruct (scan_digits 4 0 s) as [[y s1]|] eqn:Ey; cbn [obind] in H; [|discriminate].
  destruct (scan_char 45 s1) as [s2|] eqn:E1; cbn [obind] in H; [|discriminate].
  destruct (scan_digits 2 0 s2) as [[m s3]|] eqn:Em; cbn [obind] in H; [|discriminate].
  destruct (scan_char 45 s3) as [s4|] eqn:E2; cbn [obind] in H; [|discriminate].
  destruct (scan_digits 2 0 s4) as [[dd s5]|] eqn:Ed; cbn [obind] in H; [|discriminate].
  inversion H; subst d r. clear H.
  rewrite (scan_digits_append _ _ _ _ _ j Ey). cbn [obind].
  rewrite (scan_char_append _ _ _ j E1). cbn [obind].
  rewrite (scan_digits_append _ _ _ _ _ j Em). cbn [obind].
  rewrite (scan_char_append _ _ _ j E2). cbn [obind].
  rewrite (scan_digits_append _ _ _ _ _ j Ed). reflexivity.
Qed.

Lemma scan_time_append s h m x f r j : scan_time s = Some (h, m, x, f, r) -> tz_start j ->
  scan_time (s ++ j) = Some (h, m, x, f, r ++ j).
Proof.
  unfold scan_time. intros H Hj.
  destruct (scan_digits 2 0 s) as [[h' s1]|] eqn:Eh; cbn [obind] in H; [|discriminate].
  destruct (scan_char 58 s1) as [s2|] eqn:E1; cbn [obind] in H; [|discriminate].
  destruct (scan_digits 2 0 s2) as [[m' s3]|] eqn:Em; cbn [obind] in H; [|discriminate].
  destruct (scan_char 58 s3) as [s4|] eqn:E2; cbn [obind] in H; [|discriminate].
  destruct (scan_digits 2 0 s4) as [[x' s5]|] eqn:Ex; cbn [obind] in H; [|discriminate].
  destruct (scan_frac s5) as [f' r'] eqn:Ef. inversion H; subst. clear H.
  rewrite (scan_digits_append _ _ _ _ _ j Eh). cbn [obind].
  rewrite (scan_char_append _ _ _ j E1). cbn [obind].
  rewrite (scan_digits_append _ _ _ _ _ j Em). cbn [obind].
  rewrite (scan_char_append _ _ _ j E2). cbn [obind].
  rewrite (scan_digits_append _ _ _ _ _ j Ex). cbn [obind].
  rewrite (scan_frac_append s5 f r j Ef Hj). reflexivity.
Qed.

Lemma scan_offset_append s neg h m r j : scan_offset s = Some (neg, h, m, r) ->
  scan_offset (s ++ j) = Some (neg, h, m, r ++ j).
Proof.
  unfold scan_offset. destruct s as [|c s]; [discriminate|]. cbn [app].
  destruct ((c =? 43) || (c =? 45)); [|discriminate]. intros H.
  destruct (scan_digits 2 0 s) as [[h' s1]|] eqn:Eh; cbn [obind] in H; [|discriminate].
  destruct (scan_char 58 s1) as [s2|] eqn:E1; cbn [obind] in H; [|discriminate].
  destruct (scan_digits 2 0 s2) as [[m' s3]|] eqn:Em; cbn [obind] in H; [|discriminate].
  inversion H; subst. clear H.
  rewrite (scan_digits_append _ _ _ _ _ j Eh). cbn [obind].
  rewrite (scan_char_append _ _ _ j E1). cbn [obind].
  rewrite (scan_digits_append _ _ _ _ _ j Em). reflexivity.
Qed.

(** any accepted text, extended by text that cannot continue a literal (its first
    character is not a digit, '.', 'Z', '+' or '-'), is rejected as a
    ValidationError: nothing after the literal is silently dropped *)
Lemma datetime_no_trailing_junk s v c junk :
  datetime_from_unicode_iso s = Ok v ->
  is_digit c = false -> c <> 46 -> c <> 90 -> c <> 43 -> c <> 45 ->
  datetime_from_unicode_iso (s ++ c :: junk) = VFault.
Proof.
  intros H Hc H46 H90 H43 H45. unfold datetime_from_unicode_iso in *.
  destruct (scan_date s) as [[d s1]|] eqn:Ed; [|discriminate].
  destruct s1 as [|sep s2]; [discriminate|].
  destruct ((sep =? 84) || (sep =? 32)) eqn:Es; [|discriminate].
  destruct (scan_time s2) as [[[[[h m] x] f] rest]|] eqn:Et; [|discriminate].
  rewrite (scan_date_append s d _ (c :: junk) Ed). cbn [app]. rewrite Es.
  assert (Hj : tz_start (c :: junk)) by (split; assumption).
  rewrite (scan_time_append s2 h m x f rest (c :: junk) Et Hj).
  rewrite match_Z_nil in *.
  assert (Hno : scan_offset (c :: junk) = None).
  { unfold scan_offset. replace ((c =? 43) || (c =? 45)) with false by lia. reflexivity. }
  destruct rest as [|c0 r0]; cbn [app is_nil] in *.
  - assert (Hz : is_Z_only (c :: junk) = false) by (destruct junk; [cbn [is_Z_only]; lia|reflexivity]).
    rewrite Hz, Hno. reflexivity.
  - destruct (is_Z_only (c0 :: r0)) eqn:Ez.
    + destruct r0; [|discriminate Ez]. cbn [is_Z_only] in Ez. apply Z.eqb_eq in Ez. subst c0.
      reflexivity.
    + destruct (scan_offset (c0 :: r0)) as [[[[neg oh] om] tl]|] eqn:Eo; [|discriminate].
      destruct tl; [|discriminate].
      assert (Hz : is_Z_only (c0 :: r0 ++ c :: junk) = false) by (destruct r0; reflexivity).
      rewrite Hz.
      pose proof (scan_offset_append _ _ _ _ _ (c :: junk) Eo) as Ha. cbn [app] in Ha.
      rewrite Ha. reflexivity.
Qed.

(** in particular for what the printer writes *)
Lemma datetime_iso_no_trailing_junk v c junk : valid_datetime v = true ->
  is_digit c = false -> c <> 46 -> c <> 90 -> c <> 43 -> c <> 45 ->
  datetime_from_unicode_iso (datetime_iso v ++ c :: junk) = VFault.
Proof.
  intros Hv. apply datetime_no_trailing_junk with (v := v). apply datetime_roundtrip. exact Hv.
Qed.
