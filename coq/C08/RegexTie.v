(** The tie between the regular expressions regenerated from the source on every run
    (Gen/Regexes.v, written by harness/translate/regexes.py from Python's own parse of the pattern
    strings) and the reference ASTs of C08/RegexRef.v: equal normal forms, hence (norm_sound) the
    same matches on every input.  An edit of a pattern that changes what it matches makes one of
    the [tie_*] lemmas fail; a respelling with the same normal form does not. *)
From SpyneV Require Import C08.Regex C08.RegexProofs C08.RegexRef C08.RegexDt C08.DtModel C08.DurModel
                           C08.RegexDurRef C08.RegexDur Gen.Regexes.

Lemma tie_DATE : norm rx_DATE_PATTERN = ref_DATE.
Proof. vm_compute. reflexivity. Qed.
Lemma tie_TIME : norm rx_TIME_PATTERN = ref_TIME.
Proof. vm_compute. reflexivity. Qed.
Lemma tie_OFFSET : norm rx_OFFSET_PATTERN = ref_OFFSET.
Proof. vm_compute. reflexivity. Qed.
Lemma tie_DATETIME : norm rx_DATETIME_PATTERN = ref_DATETIME.
Proof. vm_compute. reflexivity. Qed.
Lemma tie_local : norm rx_DateTime_local = ref_local.
Proof. vm_compute. reflexivity. Qed.
Lemma tie_utc : norm rx_DateTime_utc = ref_utc.
Proof. vm_compute. reflexivity. Qed.
Lemma tie_offset : norm rx_DateTime_offset = ref_offset.
Proof. vm_compute. reflexivity. Qed.
Lemma tie_date_offset : norm rx_Date_offset = ref_date_offset.
Proof. vm_compute. reflexivity. Qed.
Lemma tie_inbase_date : norm rx_inbase_date = ref_DATE.
Proof. vm_compute. reflexivity. Qed.
Lemma tie_inbase_time : norm rx_inbase_time = ref_TIME.
Proof. vm_compute. reflexivity. Qed.

Lemma tie_duration : norm rx_inbase_duration = ref_DUR.
Proof. vm_compute. reflexivity. Qed.

Lemma match_tie r ref : norm r = ref -> forall s, re_match r s = re_match ref s.
Proof. intros H s. rewrite <- (norm_match r), H. reflexivity. Qed.

Theorem scan_date_gen s : scan_date s = rx_scan_date rx_DATE_PATTERN s.
Proof. unfold rx_scan_date. rewrite (match_tie _ _ tie_DATE). apply scan_date_ref. Qed.

Theorem scan_date_inbase_gen s : scan_date s = rx_scan_date rx_inbase_date s.
Proof. unfold rx_scan_date. rewrite (match_tie _ _ tie_inbase_date). apply scan_date_ref. Qed.

Theorem scan_time_gen s : scan_time s = rx_scan_time rx_TIME_PATTERN s.
Proof. unfold rx_scan_time. rewrite (match_tie _ _ tie_TIME). apply scan_time_ref. Qed.

Theorem scan_time_inbase_gen s : scan_time s = rx_scan_time rx_inbase_time s.
Proof. unfold rx_scan_time. rewrite (match_tie _ _ tie_inbase_time). apply scan_time_ref. Qed.

Theorem scan_offset_gen s : scan_offset s = rx_scan_offset rx_OFFSET_PATTERN s.
Proof. unfold rx_scan_offset. rewrite (match_tie _ _ tie_OFFSET). apply scan_offset_ref. Qed.

Theorem scan_date_tz_gen s : scan_date_tz s = rx_scan_date_tz rx_Date_offset s.
Proof. unfold rx_scan_date_tz. rewrite (match_tie _ _ tie_date_offset). apply scan_date_tz_ref. Qed.

Theorem datetime_reader_gen s :
  datetime_from_unicode_iso_rx rx_DateTime_utc rx_DateTime_offset rx_DateTime_local s
  = datetime_from_unicode_iso s.
Proof.
  unfold datetime_from_unicode_iso_rx.
  rewrite (match_tie _ _ tie_utc), (match_tie _ _ tie_offset), (match_tie _ _ tie_local).
  apply datetime_reader_ref.
Qed.

Theorem date_reader_gen s : date_from_unicode_rx rx_Date_offset s = date_from_unicode s.
Proof. unfold date_from_unicode_rx. rewrite (match_tie _ _ tie_date_offset). apply date_reader_ref. Qed.

Theorem time_reader_gen s : time_from_unicode_rx rx_inbase_time s = time_from_unicode s.
Proof. unfold time_from_unicode_rx. rewrite (match_tie _ _ tie_inbase_time). apply time_reader_ref. Qed.

Theorem duration_reader_gen s : duration_from_unicode_rx rx_inbase_duration s = duration_from_unicode s.
Proof. unfold duration_from_unicode_rx. rewrite (match_tie _ _ tie_duration). apply duration_reader_ref. Qed.

(** DATETIME_PATTERN is DATE_PATTERN + '[T ]' + TIME_PATTERN, and the three compiled patterns are
    DATETIME_PATTERN followed by \Z, Z\Z and OFFSET_PATTERN \Z: same matches as the composed ASTs *)
Theorem datetime_pattern_composed s e :
  m rx_DATETIME_PATTERN s e = m (RSeq rx_DATE_PATTERN (RSeq tsep rx_TIME_PATTERN)) s e.
Proof.
  rewrite <- (norm_sound rx_DATETIME_PATTERN), tie_DATETIME. unfold ref_DATETIME.
  rewrite rseq_app_sound. apply m_seq_ext.
  - intros s' e'. rewrite <- (norm_sound rx_DATE_PATTERN), tie_DATE. reflexivity.
  - intros s' e'. apply m_seq_ext; [reflexivity|].
    intros s'' e''. rewrite <- (norm_sound rx_TIME_PATTERN), tie_TIME. reflexivity.
Qed.
