(** The binary64 computation of the fraction of a second, swept over its whole
    domain: for every number of digits d = 1..6 and every k < 10^d,
      min(999999, int(round(float(k / 10^d) * 1e6))) = k * 10^(6-d).
    1 111 110 evaluations of the primitive float operations by vm_compute; the
    loops are lifted to the quantified statements by [sweep_sound]. *)
From SpyneV Require Import Base.Digits Base.DigitsProofs C08.DtModel.
From Coq Require Import PrimFloat Uint63 FloatOps SpecFloat.
From Coq Require Import Lia ZifyBool.

(** the computation as a function of the value and the number of digits *)
Definition usec_core (k d : Z) : Z :=
  let f := PrimFloat.div (fl_of_Z k) (fl_of_Z (10 ^ d)) in
  Z.min 999999 (Z_of_float (rint (PrimFloat.mul f (fl_of_Z 1000000)))).

Lemma usec_of_frac_core ds :
  usec_of_frac ds = usec_core (val_digits 0 ds) (Z.of_nat (length ds)).
Proof. reflexivity. Qed.

(** same integer, with shifts instead of a division by a power of two (the
    division makes the sweep four times slower) *)
Definition Z_of_float_sh (x : float) : Z :=
  match Prim2SF x with
  | S754_finite s m e =>
      let v := if (0 <=? e) then Z.shiftl (Z.pos m) e else Z.shiftr (Z.pos m) (- e) in
      if s then - v else v
  | _ => 0
  end.

Lemma Z_of_float_sh_eq x : Z_of_float_sh x = Z_of_float x.
Proof.
  unfold Z_of_float_sh, Z_of_float. destruct (Prim2SF x) as [| | |s m e]; try reflexivity.
  destruct (0 <=? e) eqn:E; cbv zeta.
  - rewrite Z.shiftl_mul_pow2 by lia. reflexivity.
  - rewrite Z.shiftr_div_pow2 by lia. reflexivity.
Qed.

Definition usec_fast (k d : Z) : Z :=
  let f := PrimFloat.div (fl_of_Z k) (fl_of_Z (10 ^ d)) in
  Z.min 999999 (Z_of_float_sh (rint (PrimFloat.mul f (fl_of_Z 1000000)))).

Lemma usec_fast_eq k d : usec_fast k d = usec_core k d.
Proof. unfold usec_fast, usec_core. cbv zeta. rewrite Z_of_float_sh_eq. reflexivity. Qed.

(** [sweep n d sc k0]: the n values k0, k0+1, ... all give k * sc *)
Fixpoint sweep (n : nat) (d sc k : Z) : bool :=
  match n with
  | O => true
  | S n' => if usec_fast k d =? k * sc then sweep n' d sc (k + 1) else false
  end.

Lemma sweep_sound n : forall d sc k0, sweep n d sc k0 = true ->
  forall k, k0 <= k < k0 + Z.of_nat n -> usec_core k d = k * sc.
Proof.
  induction n as [|n IH]; intros d sc k0 H k Hk; [lia|].
  cbn [sweep] in H. destruct (usec_fast k0 d =? k0 * sc) eqn:E; [|discriminate].
  destruct (Z.eq_dec k k0) as [->|Hne].
  - rewrite <- usec_fast_eq. lia.
  - apply (IH d sc (k0 + 1) H). lia.
Qed.

Lemma sweep_range N d sc : 0 <= N -> sweep (Z.to_nat N) d sc 0 = true ->
  forall k, 0 <= k < N -> usec_core k d = k * sc.
Proof.
  intros HN H k Hk. apply (sweep_sound _ _ _ _ H). rewrite Z2Nat.id by exact HN. lia.
Qed.

(** the sweeps (kernel-checked once, at Qed, by the VM) *)
Lemma sweep1 : sweep (Z.to_nat 10) 1 100000 0 = true.
Proof. vm_cast_no_check (eq_refl true). Qed.
Lemma sweep2 : sweep (Z.to_nat 100) 2 10000 0 = true.
Proof. vm_cast_no_check (eq_refl true). Qed.
Lemma sweep3 : sweep (Z.to_nat 1000) 3 1000 0 = true.
Proof. vm_cast_no_check (eq_refl true). Qed.
Lemma sweep4 : sweep (Z.to_nat 10000) 4 100 0 = true.
Proof. vm_cast_no_check (eq_refl true). Qed.
Lemma sweep5 : sweep (Z.to_nat 100000) 5 10 0 = true.
Proof. vm_cast_no_check (eq_refl true). Qed.
Lemma sweep6 : sweep (Z.to_nat 1000000) 6 1 0 = true.
Proof. vm_cast_no_check (eq_refl true). Qed.

(** every fraction of 1..6 digits, every value *)
Lemma usec_core_exact d k : 1 <= d <= 6 -> 0 <= k < 10 ^ d ->
  usec_core k d = k * 10 ^ (6 - d).
Proof.
  intros Hd Hk.
  assert (Hc : d = 1 \/ d = 2 \/ d = 3 \/ d = 4 \/ d = 5 \/ d = 6) by lia.
  destruct Hc as [-> | [-> | [-> | [-> | [-> | ->]]]]].
  - change (10 ^ 1) with 10 in Hk. change (10 ^ (6 - 1)) with 100000.
    apply (sweep_range 10); [lia|exact sweep1|exact Hk].
  - change (10 ^ 2) with 100 in Hk. change (10 ^ (6 - 2)) with 10000.
    apply (sweep_range 100); [lia|exact sweep2|exact Hk].
  - change (10 ^ 3) with 1000 in Hk. change (10 ^ (6 - 3)) with 1000.
    apply (sweep_range 1000); [lia|exact sweep3|exact Hk].
  - change (10 ^ 4) with 10000 in Hk. change (10 ^ (6 - 4)) with 100.
    apply (sweep_range 10000); [lia|exact sweep4|exact Hk].
  - change (10 ^ 5) with 100000 in Hk. change (10 ^ (6 - 5)) with 10.
    apply (sweep_range 100000); [lia|exact sweep5|exact Hk].
  - change (10 ^ 6) with 1000000 in Hk. change (10 ^ (6 - 6)) with 1.
    apply (sweep_range 1000000); [lia|exact sweep6|exact Hk].
Qed.

(** ... as a statement about digit strings *)
Lemma usec_of_frac_exact ds :
  Forall (fun c => is_digit c = true) ds -> (1 <= length ds <= 6)%nat ->
  0 <= val_digits 0 ds < 10 ^ Z.of_nat (length ds) ->
  usec_of_frac ds = val_digits 0 ds * 10 ^ (6 - Z.of_nat (length ds)).
Proof.
  intros _ Hl Hv. rewrite usec_of_frac_core. apply usec_core_exact; [lia|exact Hv].
Qed.

(** isoformat's six digits *)
Lemma usec_of_frac_zpad6 k : 0 <= k < 1000000 -> usec_of_frac (zpad 6 k) = k.
Proof.
  intros Hk. rewrite usec_of_frac_core, zpad_length.
  rewrite zpad_val by (change (10 ^ Z.of_nat 6) with 1000000; exact Hk).
  change (Z.of_nat 6) with 6. rewrite usec_core_exact by (change (10 ^ 6) with 1000000; lia).
  change (10 ^ (6 - 6)) with 1. lia.
Qed.
