(** Generic facts about the matcher of C08/Regex.v: every result splits the input,
    the repetition fuel is sufficient, the normal form is sound. *)
From SpyneV Require Import C08.Regex.
From Coq Require Import Lia ZifyBool.

(** ---- character classes ---- *)
Definition iv_mem (c : Z) (ab : Z * Z) : bool := (fst ab <=? c) && (c <=? snd ab).

Lemma insert_iv_mem c : forall l lo hi,
  existsb (iv_mem c) (insert_iv lo hi l) = ((lo <=? c) && (c <=? hi)) || existsb (iv_mem c) l.
Proof.
  induction l as [|[a b] t IH]; intros lo hi; cbn [insert_iv existsb].
  - unfold iv_mem; cbn [fst snd]. reflexivity.
  - destruct (hi + 1 <? a) eqn:E1.
    + cbn [existsb]. unfold iv_mem; cbn [fst snd]. reflexivity.
    + destruct (b + 1 <? lo) eqn:E2.
      * cbn [existsb]. rewrite IH. unfold iv_mem; cbn [fst snd].
        destruct ((lo <=? c) && (c <=? hi)), ((a <=? c) && (c <=? b)), (existsb (iv_mem c) t); reflexivity.
      * rewrite IH. unfold iv_mem at 2; cbn [fst snd].
        destruct (existsb (iv_mem c) t); [rewrite !orb_true_r; reflexivity|].
        rewrite !orb_false_r. lia.
Qed.

Lemma norm_ivs_mem c l :
  existsb (iv_mem c) (norm_ivs l) = existsb (item_mem c) l.
Proof.
  induction l as [|i l IH]; [reflexivity|].
  cbn [norm_ivs fold_right existsb]. fold (norm_ivs l).
  destruct (item_iv i) as [a b] eqn:E. rewrite insert_iv_mem, IH. f_equal.
  destruct i as [lo hi|]; cbn [item_iv] in E; inversion E; subst; reflexivity.
Qed.

Lemma existsb_map_range c l :
  existsb (item_mem c) (map (fun ab : Z * Z => let '(a, b) := ab in CRange a b) l) = existsb (iv_mem c) l.
Proof.
  induction l as [|[a b] l IH]; [reflexivity|]. cbn [map existsb]. rewrite IH. reflexivity.
Qed.

Lemma norm_cset_mem cs c : cset_mem (norm_cset cs) c = cset_mem cs c.
Proof.
  unfold cset_mem, norm_cset; cbn [cs_neg cs_items].
  rewrite existsb_map_range, norm_ivs_mem. reflexivity.
Qed.

(** ---- every result splits the input: s = matched ++ rest ---- *)
Definition splits (ma : text -> env -> list res) : Prop :=
  forall s e mt t e', In (mt, t, e') (ma s e) -> s = mt ++ t.

Lemma in_map_prepend m1 (l : list res) mt t e' :
  In (mt, t, e') (map (prepend m1) l) -> exists m2, mt = m1 ++ m2 /\ In (m2, t, e') l.
Proof.
  intros H. apply in_map_iff in H. destruct H as ([[m2 t2] e2] & Heq & Hin).
  cbn [prepend] in Heq. inversion Heq; subst. exists m2. split; auto.
Qed.

Lemma rep_splits ma : splits ma -> forall fuel lo hi, splits (rep ma fuel lo hi).
Proof.
  intros Hma. induction fuel as [|f IH]; intros lo hi s e mt t e' H; cbn [rep] in H.
  - contradiction.
  - apply in_app_or in H. destruct H as [H|H].
    + destruct (hi_ok hi); [|contradiction].
      apply in_flat_map in H. destruct H as ([[m1 t1] e1] & Hin1 & H).
      destruct (Nat.ltb (length t1) (length s) || negb (Nat.eqb lo 0)); [|contradiction].
      apply in_map_prepend in H. destruct H as (m2 & -> & Hin2).
      apply IH in Hin2. apply Hma in Hin1. subst. rewrite app_assoc. reflexivity.
    + destruct (Nat.eqb lo 0); [|contradiction].
      destruct H as [H|[]]. inversion H; subst. reflexivity.
Qed.

Lemma m_splits r : splits (m r).
Proof.
  induction r as [|cs|a IHa b IHb|a IHa b IHb|lo hi a IHa|n a IHa|]; intros s e mt t e' H; cbn [m] in H.
  - destruct H as [H|[]]. inversion H; subst. reflexivity.
  - destruct s as [|c s]; [contradiction|]. destruct (cset_mem cs c); [|contradiction].
    destruct H as [H|[]]. inversion H; subst. reflexivity.
  - apply in_flat_map in H. destruct H as ([[m1 t1] e1] & Hin1 & H).
    apply in_map_prepend in H. destruct H as (m2 & -> & Hin2).
    apply IHa in Hin1. apply IHb in Hin2. subst. rewrite app_assoc. reflexivity.
  - apply in_app_or in H. destruct H as [H|H]; [eapply IHa|eapply IHb]; eauto.
  - eapply rep_splits; eauto.
  - apply in_map_iff in H. destruct H as ([[m1 t1] e1] & Heq & Hin). inversion Heq; subst.
    eapply IHa; eauto.
  - destruct s; [|contradiction]. destruct H as [H|[]]. inversion H; subst. reflexivity.
Qed.

Lemma splits_len ma : splits ma -> forall s e mt t e', In (mt, t, e') (ma s e) -> (length t <= length s)%nat.
Proof.
  intros H s e mt t e' Hin. apply H in Hin. subst. rewrite app_length. lia.
Qed.

(** ---- the fuel is sufficient: more fuel changes nothing ---- *)
Lemma flat_map_ext_in {A B} (f g : A -> list B) l :
  (forall x, In x l -> f x = g x) -> flat_map f l = flat_map g l.
Proof.
  induction l as [|x l IH]; intros H; [reflexivity|]. cbn [flat_map].
  rewrite (H x (or_introl eq_refl)), IH; [reflexivity|]. intros y Hy. apply H. right. exact Hy.
Qed.

Lemma rep_S ma f lo hi s e :
  rep ma (S f) lo hi s e =
  (if hi_ok hi then
     flat_map (fun r1 : res =>
                 let '(m1, t, e1) := r1 in
                 if Nat.ltb (length t) (length s) || negb (Nat.eqb lo 0)
                 then map (prepend m1) (rep ma f (pred lo) (hi_pred hi) t e1)
                 else [])
              (ma s e)
   else [])
  ++ (if Nat.eqb lo 0 then [([], s, e)] else []).
Proof. reflexivity. Qed.

Lemma rep_fuel_step ma : splits ma -> forall fuel lo hi s e,
  (lo + length s < fuel)%nat -> rep ma (S fuel) lo hi s e = rep ma fuel lo hi s e.
Proof.
  intros Hma. induction fuel as [|f IH]; intros lo hi s e Hf; [lia|].
  rewrite (rep_S ma (S f)), (rep_S ma f). f_equal.
  destruct (hi_ok hi); [|reflexivity].
  apply flat_map_ext_in. intros [[m1 t1] e1] Hin.
  destruct (Nat.ltb (length t1) (length s) || negb (Nat.eqb lo 0)) eqn:E; [|reflexivity].
  f_equal. apply IH.
  pose proof (splits_len ma Hma _ _ _ _ _ Hin) as Hl.
  apply orb_true_iff in E. destruct E as [E|E].
  - apply Nat.ltb_lt in E. lia.
  - apply negb_true_iff in E. apply Nat.eqb_neq in E. lia.
Qed.

Theorem rep_fuel_sufficient ma : splits ma -> forall extra lo hi s e,
  rep ma (extra + S (lo + length s)) lo hi s e = rep ma (S (lo + length s)) lo hi s e.
Proof.
  intros Hma. induction extra as [|k IH]; intros lo hi s e; [reflexivity|].
  cbn [Nat.add]. rewrite rep_fuel_step by (auto; lia). apply IH.
Qed.

Lemma rep_fuel_ge ma : splits ma -> forall fuel lo hi s e,
  (lo + length s < fuel)%nat -> rep ma fuel lo hi s e = rep ma (S (lo + length s)) lo hi s e.
Proof.
  intros Hma fuel lo hi s e H.
  replace fuel with ((fuel - S (lo + length s)) + S (lo + length s))%nat by lia.
  apply rep_fuel_sufficient. exact Hma.
Qed.

(** ---- extensionality ---- *)
Lemma rep_ext ma mb : (forall s e, ma s e = mb s e) -> forall fuel lo hi s e,
  rep ma fuel lo hi s e = rep mb fuel lo hi s e.
Proof.
  intros H. induction fuel as [|f IH]; intros lo hi s e; [reflexivity|].
  cbn [rep]. rewrite H. f_equal. destruct (hi_ok hi); [|reflexivity].
  apply flat_map_ext_in. intros [[m1 t1] e1] _.
  destruct (Nat.ltb (length t1) (length s) || negb (Nat.eqb lo 0)); [|reflexivity].
  rewrite IH. reflexivity.
Qed.

(** ---- sequences ---- *)
Lemma map_prepend_nil (l : list res) : map (prepend []) l = l.
Proof.
  induction l as [|[[a b] c] l IH]; [reflexivity|]. cbn [map prepend app]. rewrite IH. reflexivity.
Qed.

Lemma map_prepend_app m1 m2 (l : list res) :
  map (prepend m1) (map (prepend m2) l) = map (prepend (m1 ++ m2)) l.
Proof.
  rewrite map_map. apply map_ext. intros [[a b] c]. cbn [prepend]. rewrite app_assoc. reflexivity.
Qed.

Lemma map_flat_map {A B C} (f : B -> C) (g : A -> list B) l :
  map f (flat_map g l) = flat_map (fun x => map f (g x)) l.
Proof.
  induction l as [|x l IH]; [reflexivity|]. cbn [flat_map]. rewrite map_app, IH. reflexivity.
Qed.

Lemma flat_map_flat_map {A B C} (f : B -> list C) (g : A -> list B) l :
  flat_map f (flat_map g l) = flat_map (fun x => flat_map f (g x)) l.
Proof.
  induction l as [|x l IH]; [reflexivity|]. cbn [flat_map]. rewrite flat_map_app, IH. reflexivity.
Qed.

Lemma flat_map_map {A B C} (f : B -> list C) (g : A -> B) l :
  flat_map f (map g l) = flat_map (fun x => f (g x)) l.
Proof.
  induction l as [|x l IH]; [reflexivity|]. cbn [map flat_map]. rewrite IH. reflexivity.
Qed.

Lemma m_seq a b s e :
  m (RSeq a b) s e =
  flat_map (fun r1 : res => let '(m1, t, e1) := r1 in map (prepend m1) (m b t e1)) (m a s e).
Proof. reflexivity. Qed.

Lemma m_seq_eps_l b s e : m (RSeq REps b) s e = m b s e.
Proof. cbn [m flat_map]. rewrite app_nil_r. apply map_prepend_nil. Qed.

Lemma m_seq_eps_r a s e : m (RSeq a REps) s e = m a s e.
Proof.
  rewrite m_seq. generalize (m a s e). intros l.
  induction l as [|[[m1 t] e1] l IH]; [reflexivity|].
  cbn [flat_map]. rewrite IH. cbn [m map prepend app]. rewrite app_nil_r. reflexivity.
Qed.

Lemma m_seq_assoc a b c s e : m (RSeq (RSeq a b) c) s e = m (RSeq a (RSeq b c)) s e.
Proof.
  rewrite (m_seq (RSeq a b) c), (m_seq a b), (m_seq a (RSeq b c)).
  rewrite flat_map_flat_map. apply flat_map_ext_in. intros [[m1 t1] e1] _.
  rewrite flat_map_map, (m_seq b c), map_flat_map.
  apply flat_map_ext_in. intros [[m2 t2] e2] _. cbn [prepend].
  rewrite map_prepend_app. reflexivity.
Qed.

Lemma m_seq_ext a a' b b' : (forall s e, m a s e = m a' s e) -> (forall s e, m b s e = m b' s e) ->
  forall s e, m (RSeq a b) s e = m (RSeq a' b') s e.
Proof.
  intros Ha Hb s e. rewrite !m_seq, Ha. apply flat_map_ext_in. intros [[m1 t1] e1] _.
  rewrite Hb. reflexivity.
Qed.

Lemma rseq_app_sound a : forall b s e, m (rseq_app a b) s e = m (RSeq a b) s e.
Proof.
  induction a as [|cs|x IHx y IHy|x IHx y IHy|lo hi x IHx|n x IHx|]; intros b s e; cbn [rseq_app];
    try (destruct b; [symmetry; apply m_seq_eps_r|reflexivity..]).
  - symmetry. apply m_seq_eps_l.
  - rewrite m_seq_assoc. apply m_seq_ext; [reflexivity|]. intros s' e'. apply IHy.
Qed.

(** ---- a repetition with equal bounds is a sequence of copies ---- *)
Lemma rep_exact ma : forall n fuel s e, (n < fuel)%nat ->
  rep ma fuel n (Some n) s e =
  match n with
  | O => [([], s, e)]
  | S k => flat_map (fun r1 : res => let '(m1, t, e1) := r1 in
                                     map (prepend m1) (rep ma (pred fuel) k (Some k) t e1)) (ma s e)
  end.
Proof.
  intros n fuel s e H. destruct fuel as [|f]; [lia|]. cbn [rep pred].
  destruct n as [|k]; cbn [hi_ok Nat.eqb hi_pred pred]; [reflexivity|].
  rewrite app_nil_r. apply flat_map_ext_in. intros [[m1 t1] e1] _.
  rewrite orb_true_r. reflexivity.
Qed.

Lemma rcopies_rep a : forall n fuel s e, (n < fuel)%nat ->
  m (rcopies n a) s e = rep (m a) fuel n (Some n) s e.
Proof.
  induction n as [|k IH]; intros fuel s e H; rewrite rep_exact by exact H.
  - reflexivity.
  - cbn [rcopies]. rewrite rseq_app_sound, m_seq. apply flat_map_ext_in. intros [[m1 t1] e1] _.
    rewrite (IH (pred fuel)) by lia. reflexivity.
Qed.

(** ---- the normal form is sound ---- *)
Theorem norm_sound r : forall s e, m (norm r) s e = m r s e.
Proof.
  induction r as [|cs|a IHa b IHb|a IHa b IHb|lo hi a IHa|n a IHa|]; intros s e; cbn [norm].
  - reflexivity.
  - cbn [m]. destruct s as [|c s]; [reflexivity|]. rewrite norm_cset_mem. reflexivity.
  - rewrite rseq_app_sound. apply m_seq_ext; assumption.
  - cbn [m]. rewrite IHa, IHb. reflexivity.
  - assert (Hrep : m (RRep lo hi (norm a)) s e = m (RRep lo hi a) s e).
    { cbn [m]. apply rep_ext. exact IHa. }
    destruct hi as [h|]; [|exact Hrep].
    destruct (Nat.eqb lo h && Nat.leb h 64) eqn:E; [|exact Hrep].
    apply andb_true_iff in E. destruct E as [E _]. apply Nat.eqb_eq in E. subst h.
    rewrite (rcopies_rep (norm a) lo (S (lo + length s))) by lia. exact Hrep.
  - cbn [m]. rewrite IHa. reflexivity.
  - reflexivity.
Qed.

Corollary norm_match r s : re_match (norm r) s = re_match r s.
Proof. unfold re_match. rewrite norm_sound. reflexivity. Qed.

Corollary norm_eq_match r1 r2 : norm r1 = norm r2 -> forall s, re_match r1 s = re_match r2 s.
Proof. intros H s. rewrite <- (norm_match r1), <- (norm_match r2), H. reflexivity. Qed.

Corollary norm_eq_m r1 r2 : norm r1 = norm r2 -> forall s e, m r1 s e = m r2 s e.
Proof. intros H s e. rewrite <- (norm_sound r1), <- (norm_sound r2), H. reflexivity. Qed.

(** ---- a non-nullable regex consumes at least one character ---- *)
Lemma rep_lo_consumes ma : splits ma ->
  (forall s e mt t e', In (mt, t, e') (ma s e) -> mt <> []) ->
  forall fuel lo hi s e mt t e', (0 < lo)%nat -> In (mt, t, e') (rep ma fuel lo hi s e) -> mt <> [].
Proof.
  intros Hs Hma fuel lo hi s e mt t e' Hlo H. destruct fuel as [|f]; [contradiction|]. cbn [rep] in H.
  apply in_app_or in H. destruct H as [H|H].
  - destruct (hi_ok hi); [|contradiction].
    apply in_flat_map in H. destruct H as ([[m1 t1] e1] & Hin1 & H).
    destruct (Nat.ltb (length t1) (length s) || negb (Nat.eqb lo 0)); [|contradiction].
    apply in_map_prepend in H. destruct H as (m2 & -> & _).
    apply Hma in Hin1. destruct m1; [congruence|discriminate].
  - destruct lo; [lia|]. contradiction.
Qed.

Lemma nullable_consumes r : nullable r = false ->
  forall s e mt t e', In (mt, t, e') (m r s e) -> mt <> [].
Proof.
  induction r as [|cs|a IHa b IHb|a IHa b IHb|lo hi a IHa|n a IHa|]; cbn [nullable]; intros Hn s e mt t e' H;
    try discriminate; cbn [m] in H.
  - destruct s as [|c s]; [contradiction|]. destruct (cset_mem cs c); [|contradiction].
    destruct H as [H|[]]. inversion H. discriminate.
  - apply in_flat_map in H. destruct H as ([[m1 t1] e1] & Hin1 & H).
    apply in_map_prepend in H. destruct H as (m2 & -> & Hin2).
    apply andb_false_iff in Hn. destruct Hn as [Hn|Hn].
    + specialize (IHa Hn _ _ _ _ _ Hin1). destruct m1; [congruence|discriminate].
    + specialize (IHb Hn _ _ _ _ _ Hin2). destruct m1; [exact IHb|discriminate].
  - apply orb_false_iff in Hn. destruct Hn as [Ha Hb].
    apply in_app_or in H. destruct H as [H|H]; [eapply IHa|eapply IHb]; eauto.
  - apply orb_false_iff in Hn. destruct Hn as [Hlo Ha]. apply Nat.eqb_neq in Hlo.
    eapply (rep_lo_consumes (m a)); [apply m_splits|apply IHa; exact Ha| |exact H]. lia.
  - apply in_map_iff in H. destruct H as ([[m1 t1] e1] & Heq & Hin). inversion Heq; subst.
    eapply IHa; eauto.
Qed.
