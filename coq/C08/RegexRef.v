(** The date/time readers of spyne/protocol/_inbase.py written over the GENERIC matcher of
    C08/Regex.v, parameterised by the regular expressions they use, and the reference ASTs
    (in normal form) the hand-written scanners of C08/DtModel.v are proved equal to.
    Definitions only.

    The transcriptions follow the Python text: [pattern.match(string)], [match.group(name)],
    [int(...)], [float(...)], with the exceptions int(None) -> TypeError and int('x') ->
    ValueError as [Crash] outcomes (the theorems of Props/C08_re.v show they never arise). *)
From SpyneV Require Export C08.Regex C08.DtModel.

(** ---- group names ---- *)
Definition g_year : text := [121; 101; 97; 114].
Definition g_month : text := [109; 111; 110; 116; 104].
Definition g_day : text := [100; 97; 121].
Definition g_hr : text := [104; 114].
Definition g_min : text := [109; 105; 110].
Definition g_sec : text := [115; 101; 99].
Definition g_sec_frac : text := [115; 101; 99; 95; 102; 114; 97; 99].
Definition g_tz_hr : text := [116; 122; 95; 104; 114].
Definition g_tz_min : text := [116; 122; 95; 109; 105; 110].
Definition g_4 : text := [35; 52].                          (* the unnamed group of Date._offset_re *)

(** ---- reference ASTs (normal forms) ---- *)
Definition dig : re := RChar (mkcset false [CRange 48 57]).
Definition lit (c : Z) : re := RChar (mkcset false [CRange c c]).
Definition tsep : re := RChar (mkcset false [CRange 32 32; CRange 84 84]).        (* [T ] *)
Definition pm : re := RChar (mkcset false [CRange 43 43; CRange 45 45]).          (* [+-] *)
Definition plusdig : re := RRep 1 None dig.                                       (* \d+ *)
Definition fracgrp : re := RGroup g_sec_frac (RSeq (lit 46) plusdig).             (* (?P<sec_frac>\.\d+) *)
Definition fracopt : re := RRep 0 (Some 1%nat) fracgrp.

Definition ref_DATE : re :=
  RSeq (RGroup g_year (rcopies 4 dig)) (RSeq (lit 45)
  (RSeq (RGroup g_month (rcopies 2 dig)) (RSeq (lit 45) (RGroup g_day (rcopies 2 dig))))).
Definition ref_HMS : re :=
  RSeq (RGroup g_hr (rcopies 2 dig)) (RSeq (lit 58)
  (RSeq (RGroup g_min (rcopies 2 dig)) (RSeq (lit 58) (RGroup g_sec (rcopies 2 dig))))).
Definition ref_TIME : re := rseq_app ref_HMS fracopt.
Definition ref_OFFSET : re :=
  RSeq (RGroup g_tz_hr (RSeq pm (rcopies 2 dig))) (RSeq (lit 58) (RGroup g_tz_min (rcopies 2 dig))).
Definition ref_DATETIME : re := rseq_app ref_DATE (RSeq tsep ref_TIME).
Definition ref_local : re := rseq_app ref_DATE (RSeq tsep (rseq_app ref_TIME REnd)).
Definition ref_utc : re := rseq_app ref_DATE (RSeq tsep (rseq_app ref_TIME (RSeq (lit 90) REnd))).
Definition ref_offset : re := rseq_app ref_DATE (RSeq tsep (rseq_app ref_TIME (rseq_app ref_OFFSET REnd))).
Definition ref_date_offset : re :=
  rseq_app ref_DATE (RSeq (RGroup g_4 (RAlt ref_OFFSET (lit 90))) REnd).

(** ---- reading the groups of a match ---- *)
Definition grp (e : env) (n : text) : text := match lookup n e with Some t => t | None => [] end.
(** the value of a group of ASCII digits *)
Definition gnum (e : env) (n : text) : Z := val_digits 0 (grp e n).
(** [int(match.group(n))] *)
Definition gint (e : env) (n : text) : out Z :=
  match lookup n e with
  | None => Crash TypeError                      (* int(None) *)
  | Some t => match int_of_text t with Some z => Ok z | None => Crash ValueError end
  end.

(** ---- the scanners, over a regex ---- *)
Definition rx_scan_date (r : re) (s : text) : option (date * text) :=
  match re_match r s with
  | Some (_, rest, e) => Some (mkdate (gnum e g_year) (gnum e g_month) (gnum e g_day), rest)
  | None => None
  end.
Definition rx_scan_time (r : re) (s : text) : option (Z * Z * Z * option text * text) :=
  match re_match r s with
  | Some (_, rest, e) =>
      Some (gnum e g_hr, gnum e g_min, gnum e g_sec, option_map (skipn 1) (lookup g_sec_frac e), rest)
  | None => None
  end.
Definition rx_scan_offset (r : re) (s : text) : option (bool * Z * Z * text) :=
  match re_match r s with
  | Some (_, rest, e) =>
      let h := grp e g_tz_hr in
      Some (match h with c :: _ => c =? 45 | [] => false end, val_digits 0 (tl h), gnum e g_tz_min, rest)
  | None => None
  end.
Definition rx_scan_date_tz (r : re) (s : text) : option date :=
  match re_match r s with
  | Some (_, _, e) => Some (mkdate (gnum e g_year) (gnum e g_month) (gnum e g_day))
  | None => None
  end.

(** ---- the readers, over their regexes ---- *)
(** min(999999, int(round(float(sec_frac) * 1e6))) for the text of the group: '.' and digits;
    float() of anything else this model does not describe is a ValueError *)
Definition all_digits (l : text) : bool := forallb is_digit l.
Definition usec_group (f : text) : out Z :=
  match f with
  | 46 :: ds => if all_digits ds && negb (match ds with [] => true | _ => false end)
                then Ok (usec_of_frac ds) else Crash ValueError
  | _ => Crash ValueError
  end.

(** _parse_datetime_iso_match(match, tz) *)
Definition parse_datetime_iso_match (e : env) (tz : option Z) : out datetime :=
  do y <- gint e g_year; do mo <- gint e g_month; do d <- gint e g_day;
  do h <- gint e g_hr; do mi <- gint e g_min; do x <- gint e g_sec;
  do u <- match lookup g_sec_frac e with None => Ok 0 | Some f => usec_group f end;
  mk_datetime (mkdate y mo d) h mi x u tz.

(** datetime_from_unicode_iso: _utc_re, then _offset_re, then _local_re *)
Definition datetime_from_unicode_iso_rx (r_utc r_offset r_local : re) (s : text) : out datetime :=
  match re_match r_utc s with
  | Some (_, _, e) => parse_datetime_iso_match e (Some 0)
  | None =>
      match re_match r_offset s with
      | Some (_, _, e) =>
          do tz_hr <- gint e g_tz_hr; do tz_min <- gint e g_tz_min;
          let tz_min := match grp e g_tz_hr with 45 :: _ => - tz_min | _ => tz_min end in   (* startswith('-') *)
          let o := tz_hr * 60 + tz_min in
          if (-1440 <? o) && (o <? 1440)                       (* FixedOffset: ValueError otherwise *)
          then parse_datetime_iso_match e (Some o) else VFault
      | None =>
          match re_match r_local s with
          | Some (_, _, e) => parse_datetime_iso_match e None
          | None => VFault
          end
      end
  end.

(** time_from_unicode: _time_re.match, groupdict(0) *)
Definition time_from_unicode_rx (r_time : re) (s : text) : out tod :=
  match re_match r_time s with
  | None => VFault
  | Some (_, _, e) =>
      do u <- match lookup g_sec_frac e with None => Ok 0 | Some f => usec_group f end;
      do h <- gint e g_hr; do mi <- gint e g_min; do x <- gint e g_sec;
      let t := mktod h mi x u in
      if valid_tod t then Ok t else VFault                     (* time(...): ValueError *)
  end.

(** date_from_unicode (date_format None): strptime, else Date._offset_re and date() *)
Definition date_from_unicode_rx (r_date_offset : re) (s : text) : out date :=
  match strptime_ymd s with
  | Some d => Ok d
  | None =>
      match re_match r_date_offset s with
      | Some (_, _, e) =>
          do y <- gint e g_year; do mo <- gint e g_month; do d <- gint e g_day;
          let v := mkdate y mo d in if valid_date v then Ok v else VFault
      | None => VFault
      end
  end.
