(** C08 Uuid, default serialisation (definitions only).
    Mirrors spyne/protocol/_outbase.py:uuid_to_unicode with serialize_as None
    ([_uuid_serialize[None] = str]) and spyne/protocol/_inbase.py:uuid_from_unicode
    ([uuid.UUID(string)], [except (ValueError, TypeError, UnicodeDecodeError): raise ValidationError]).
    A UUID is its 128-bit integer.

    CPython 3.12 uuid.py:
      __str__:  hex = '%032x' % self.int
                '%s-%s-%s-%s-%s' % (hex[:8], hex[8:12], hex[12:16], hex[16:20], hex[20:])
      __init__: hex = hex.replace('urn:', '').replace('uuid:', '')
                hex = hex.strip('{}').replace('-', '')
                if len(hex) != 32: raise ValueError
                int = int_(hex, 16)
                if not 0 <= int < 1 << 128: raise ValueError
    int(s, 16) is modelled for ASCII: strip, sign, optional 0x / 0X (and one underscore after it),
    hexadecimal digits with single underscores between them. *)
From SpyneV Require Export Base.Prelude Base.Digits.

(** ---- '%032x' ---- *)
Definition hexdig (v : Z) : Z := if v <? 10 then 48 + v else 87 + v.       (* 0-9 a-f *)
Fixpoint pad_hex (width : nat) (n : Z) (acc : text) : text :=
  match width with
  | O => acc
  | S w => pad_hex w (n / 16) (hexdig (n mod 16) :: acc)
  end.
Definition hexpad (width : nat) (n : Z) : text := pad_hex width n [].

(** str(UUID(int=u)) *)
Definition uuid_to_unicode (u : Z) : text :=
  let h := hexpad 32 u in
  firstn 8 h ++ [45] ++ firstn 4 (skipn 8 h) ++ [45] ++ firstn 4 (skipn 12 h) ++ [45]
  ++ firstn 4 (skipn 16 h) ++ [45] ++ skipn 20 h.

(** ---- str.replace(pat, ''), str.strip('{}'), str.replace('-', '') ---- *)
Fixpoint prefix_b (p s : text) : bool :=
  match p, s with
  | [], _ => true
  | x :: p', y :: s' => (x =? y) && prefix_b p' s'
  | _ :: _, [] => false
  end.
(** left to right, non-overlapping; [skip] characters of a match are still to be dropped *)
Fixpoint remove_all (pat : text) (skip : nat) (s : text) : text :=
  match s with
  | [] => []
  | c :: r =>
      match skip with
      | S k => remove_all pat k r
      | O => if prefix_b pat s then remove_all pat (pred (length pat)) r else c :: remove_all pat 0 r
      end
  end.
Definition is_brace (c : Z) : bool := (c =? 123) || (c =? 125).
Fixpoint drop_braces (l : text) : text :=
  match l with c :: r => if is_brace c then drop_braces r else l | [] => [] end.
Definition strip_braces (l : text) : text := rev (drop_braces (rev (drop_braces l))).
Definition no_hyphen (l : text) : text := filter (fun c => negb (c =? 45)) l.

(** ---- int(s, 16) ---- *)
Definition hexval (c : Z) : option Z :=
  if is_digit c then Some (c - 48)
  else if (97 <=? c) && (c <=? 102) then Some (c - 87)
  else if (65 <=? c) && (c <=? 70) then Some (c - 55)
  else None.
Fixpoint parse_hex (started prev_us : bool) (acc : Z) (l : text) : option Z :=
  match l with
  | [] => if started && negb prev_us then Some acc else None
  | c :: r =>
      match hexval c with
      | Some v => parse_hex true false (acc * 16 + v) r
      | None => if c =? 95
                then (if started && negb prev_us then parse_hex true true acc r else None)
                else None
      end
  end.
(** after the sign: an optional 0x / 0X, one optional underscore after it, then the digits *)
Definition parse_hex_body (r : text) : option Z :=
  match r with
  | c0 :: x :: r' =>
      if (c0 =? 48) && ((x =? 120) || (x =? 88))
      then match r' with
           | u :: r'' => if u =? 95 then parse_hex false false 0 r'' else parse_hex false false 0 r'
           | [] => None
           end
      else parse_hex false false 0 r
  | _ => parse_hex false false 0 r
  end.
Definition int16_of_text (s : text) : option Z :=
  match strip s with
  | c :: r => if c =? 45 then option_map Z.opp (parse_hex_body r)
              else if c =? 43 then parse_hex_body r
              else parse_hex_body (c :: r)
  | [] => None
  end.

(** ---- uuid.UUID(s): None is ValueError ---- *)
Definition urn : text := [117; 114; 110; 58].               (* 'urn:' *)
Definition uuid_colon : text := [117; 117; 105; 100; 58].   (* 'uuid:' *)
Definition uuid_hex_of (s : text) : text :=
  no_hyphen (strip_braces (remove_all uuid_colon 0 (remove_all urn 0 s))).
Definition py_uuid (s : text) : option Z :=
  let h := uuid_hex_of s in
  if negb (Nat.eqb (length h) 32) then None
  else match int16_of_text h with
       | Some v => if (0 <=? v) && (v <? 2 ^ 128) then Some v else None
       | None => None
       end.

(** uuid_from_unicode, serialize_as None *)
Definition uuid_from_unicode (s : text) : out Z :=
  match py_uuid s with Some v => Ok v | None => VFault end.

(** ---- the denotation of a canonical 8-4-4-4-12 text: the value of its 32 hex digits ---- *)
Definition hstep (a c : Z) : Z := a * 16 + match hexval c with Some v => v | None => 0 end.
Definition val_hex (acc : Z) (l : text) : Z := fold_left hstep l acc.
Definition uuid_den (s : text) : Z := val_hex 0 (no_hyphen s).
