(** C08 Decimal (definitions only).
    Mirrors spyne/protocol/_outbase.py:decimal_to_unicode (default formats: [str(value)]) and
    spyne/protocol/_inbase.py:decimal_from_unicode for a str argument:

      if max_str_len is not None and len(string) > max_str_len: raise ValidationError
      try: retval = D(string)   except InvalidOperation: raise ValidationError
      if not retval.is_finite(): raise ValidationError          (the repaired refusal of NaN / Infinity)
      return retval

    [str(Decimal)] is Wire/Decimal.v:dec_str (scientific notation iff exponent > 0 or adjusted
    exponent < -6).  [Decimal(str)] is modelled here in full for ASCII input, as observed on
    CPython 3.12 / libmpdec 2.5.1: leading and trailing Py_UNICODE_ISSPACE characters are skipped,
    every underscore is dropped, then sign, then Inf / Infinity / [s]NaN[digits] (case-insensitive)
    or digits [. digits] [e|E [sign] digits]; the conversion is exact in the maximal context, so a
    number whose adjusted exponent exceeds 999999999999999999 or whose exponent is below
    -1999999999999999997 is an InvalidOperation.  Unicode decimal digits other than ASCII (which
    Decimal() accepts) are outside the modelled universe, as for int(). *)
From SpyneV Require Export Wire.Decimal Base.Ext.

(** ---- Decimal(str) ---- *)
(** str.isspace(): Py_UNICODE_ISSPACE (unlike int(), 0x1c-0x1f are skipped too) *)
Definition py_isspace (c : Z) : bool :=
  ((9 <=? c) && (c <=? 13)) || ((28 <=? c) && (c <=? 32)) || (c =? 133) || (c =? 160)
  || (c =? 5760) || ((8192 <=? c) && (c <=? 8202)) || (c =? 8232) || (c =? 8233)
  || (c =? 8239) || (c =? 8287) || (c =? 12288).
Fixpoint drop_ws (l : text) : text :=
  match l with
  | c :: r => if py_isspace c then drop_ws r else l
  | [] => []
  end.
Definition strip_ws (l : text) : text := rev (drop_ws (rev (drop_ws l))).
(** every '_' is ignored *)
Definition no_us (l : text) : text := filter (fun c => negb (c =? 95)) l.

Definition lower_ascii (c : Z) : Z := if (65 <=? c) && (c <=? 90) then c + 32 else c.
Definition all_dig_b (l : text) : bool := forallb is_digit l.

(** a Decimal: finite, or one of the special values *)
Inductive pydec :=
| PFin (d : dec)
| PInfinity (neg : bool)
| PNaN (neg signalling : bool).          (* the payload digits are not interpreted: Spyne refuses every NaN *)

(** after the sign: inf | infinity | nan digits* | snan digits*, any case *)
Definition dec_special (neg : bool) (r : text) : option pydec :=
  let l := map lower_ascii r in
  if text_eqb l [105; 110; 102] || text_eqb l [105; 110; 102; 105; 110; 105; 116; 121] then Some (PInfinity neg)
  else if text_eqb (firstn 3 l) [110; 97; 110] && all_dig_b (skipn 3 l) then Some (PNaN neg false)
  else if text_eqb (firstn 4 l) [115; 110; 97; 110] && all_dig_b (skipn 4 l) then Some (PNaN neg true)
  else None.

(** an optional sign *)
Definition sign_split (s : text) : bool * text :=
  match s with
  | 45 :: r => (true, r)
  | 43 :: r => (false, r)
  | _ => (false, s)
  end.

(** sign, then the number: Wire/Decimal.v:dec_parse without its strip *)
Definition dec_core (s : text) : option dec :=
  let '(neg, r) := sign_split s in
  match dec_parse_unsigned r with
  | Some (coef, e) => Some (mkdec neg coef e)
  | None => None
  end.

(** exact conversion in the maximal context (prec = Emax = 999999999999999999, Emin = -Emax) *)
Definition MAX_EMAX : Z := 999999999999999999.
Definition ETINY : Z := -1999999999999999997.
Definition dec_in_limits (d : dec) : bool :=
  let n := len (str_nat (d_coef d)) in
  (n <=? MAX_EMAX) && (d_exp d + n - 1 <=? MAX_EMAX) && (ETINY <=? d_exp d).

(** [Decimal(s)]: None is InvalidOperation *)
Definition py_decimal (s : text) : option pydec :=
  let s := no_us (strip_ws s) in
  let '(neg, r) := sign_split s in
  match dec_special neg r with
  | Some v => Some v
  | None =>
      match dec_core s with
      | Some d => if dec_in_limits d then Some (PFin d) else None
      | None => None
      end
  end.

(** ---- Spyne ---- *)
Definition decimal_to_unicode (d : dec) : text := dec_str d.

Definition decimal_from_unicode (a : num_attrs) (s : text) : out dec :=
  if negb (ext_leb (Fin (len s)) (na_max_str_len a)) then VFault
  else match py_decimal s with
       | None => VFault                         (* InvalidOperation *)
       | Some (PFin d) => Ok d
       | Some _ => VFault                       (* not retval.is_finite() *)
       end.

(** ---- xs:decimal: (+|-)? (digits (. digits* )? | . digits+), with its denotation ---- *)
Definition xs_decimal_unsigned (neg : bool) (s : text) : option dec :=
  let '(ip, rest) := span_dig s in
  match rest with
  | [] => if is_nil ip then None else Some (mkdec neg (val_digits 0 ip) 0)
  | c :: r =>
      if c =? 46 then
        let '(fp, rest') := span_dig r in
        if is_nil rest' && negb (is_nil ip && is_nil fp)
        then Some (mkdec neg (val_digits 0 (ip ++ fp)) (- len fp)) else None
      else None
  end.
Definition xs_decimal (s : text) : option dec :=
  match s with
  | c :: r => if c =? 45 then xs_decimal_unsigned true r
              else if c =? 43 then xs_decimal_unsigned false r
              else xs_decimal_unsigned false s
  | [] => None
  end.

(** the region in which str(d) carries no exponent *)
Definition dec_plain_form (d : dec) : bool :=
  (d_exp d <=? 0) && (-6 <? d_exp d + len (str_nat (d_coef d))).

Definition pydec_eqb (a b : pydec) : bool :=
  match a, b with
  | PFin x, PFin y => dec_eqb x y
  | PInfinity x, PInfinity y => Bool.eqb x y
  | PNaN x s, PNaN y t => Bool.eqb x y && Bool.eqb s t
  | _, _ => false
  end.
