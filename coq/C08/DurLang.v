(** The language of spyne/protocol/_inbase.py:_duration_re as a relation
    (definitions only): which texts, cut into which pieces, denote which
    number of microseconds.  Independent of the scanners of DurModel.v; used to
    state that duration_from_unicode ignores no part of its input. *)
From SpyneV Require Export Base.Digits C08.DurModel.

Definition digits (ds : text) : Prop := ds <> [] /\ Forall (fun x => is_digit x = true) ds.

(** (?:(\d+)c)? : the piece of text and its value (0 when absent) *)
Definition dur_piece (c : Z) (p : text) (v : Z) : Prop :=
  (p = [] /\ v = 0) \/ (exists ds, digits ds /\ p = ds ++ [c] /\ v = val_digits 0 ds).

(** (?:(\d+(\.\d+)?)S)? : the piece, the integer part and the fraction digits *)
Definition dur_sec_piece (p : text) (sec : Z) (fr : text) : Prop :=
  (p = [] /\ sec = 0 /\ fr = [])
  \/ (exists ds, digits ds /\ sec = val_digits 0 ds
                 /\ ((p = ds ++ [83] /\ fr = []) \/ (digits fr /\ p = ds ++ 46 :: fr ++ [83]))).

(** (?:T(...H)?(...M)?(...S)?)? *)
Definition dur_time_part (p : text) (h mi sec : Z) (fr : text) : Prop :=
  (p = [] /\ h = 0 /\ mi = 0 /\ sec = 0 /\ fr = [])
  \/ (exists ph pm ps, p = 84 :: ph ++ pm ++ ps
                       /\ dur_piece 72 ph h /\ dur_piece 77 pm mi /\ dur_sec_piece ps sec fr).

(** -?P(..Y)?(..M)?(..D)?(T..)?\Z  with the value the code computes from the groups
    (a month is 30 days, a year 365; microseconds are the first six fraction digits)
    and both range checks of timedelta *)
Definition dur_lang (s : text) (n : Z) : Prop :=
  exists (neg : bool) py pmo pd pt y mo d h mi sec fr,
    s = (if neg then [45] else []) ++ 80 :: py ++ pmo ++ pd ++ pt
    /\ dur_piece 89 py y /\ dur_piece 77 pmo mo /\ dur_piece 68 pd d
    /\ dur_time_part pt h mi sec fr
    /\ let m := (d + mo * 30 + y * 365) * US_DAY + h * 3600000000 + mi * 60000000
                + sec * 1000000 + frac6 6 fr in
       n = (if neg then - m else m) /\ td_ok m = true /\ td_ok n = true.
