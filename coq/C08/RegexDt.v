(** The hand-written scanners of C08/DtModel.v compute exactly what the generic matcher of
    C08/Regex.v computes on the reference ASTs of C08/RegexRef.v, for ALL input strings. *)
From SpyneV Require Import Base.DigitsProofs C08.Regex C08.RegexProofs C08.RegexRef C08.DtModel C08.ScanLemmas.
From Coq Require Import Lia ZifyBool.

(** ---- character classes of the reference ASTs ---- *)
Lemma mem_dig c : cset_mem (mkcset false [CRange 48 57]) c = is_digit c.
Proof. unfold cset_mem, is_digit; cbn [cs_neg cs_items existsb item_mem]. rewrite xorb_false_l, orb_false_r. reflexivity. Qed.
Lemma mem_lit x c : cset_mem (mkcset false [CRange x x]) c = (c =? x).
Proof. unfold cset_mem; cbn [cs_neg cs_items existsb item_mem]. rewrite xorb_false_l, orb_false_r. lia. Qed.
Lemma mem_tsep c : cset_mem (mkcset false [CRange 32 32; CRange 84 84]) c = ((c =? 84) || (c =? 32)).
Proof. unfold cset_mem; cbn [cs_neg cs_items existsb item_mem]. rewrite xorb_false_l, orb_false_r. lia. Qed.
Lemma mem_pm c : cset_mem (mkcset false [CRange 43 43; CRange 45 45]) c = ((c =? 43) || (c =? 45)).
Proof. unfold cset_mem; cbn [cs_neg cs_items existsb item_mem]. rewrite xorb_false_l, orb_false_r. lia. Qed.

Lemma m_dig s e : m dig s e = match s with c :: t => if is_digit c then [([c], t, e)] else [] | [] => [] end.
Proof. unfold dig. cbn [m]. destruct s as [|c t]; [reflexivity|]. rewrite mem_dig. reflexivity. Qed.
Lemma m_lit x s e : m (lit x) s e = match s with c :: t => if c =? x then [([c], t, e)] else [] | [] => [] end.
Proof. unfold lit. cbn [m]. destruct s as [|c t]; [reflexivity|]. rewrite mem_lit. reflexivity. Qed.

Lemma m_pm s e :
  m pm s e = match s with c :: t => if (c =? 43) || (c =? 45) then [([c], t, e)] else [] | [] => [] end.
Proof. unfold pm. cbn [m]. destruct s as [|c t]; [reflexivity|]. rewrite mem_pm. reflexivity. Qed.
Lemma m_tsep s e :
  m tsep s e = match s with c :: t => if (c =? 84) || (c =? 32) then [([c], t, e)] else [] | [] => [] end.
Proof. unfold tsep. cbn [m]. destruct s as [|c t]; [reflexivity|]. rewrite mem_tsep. reflexivity. Qed.

(** ---- \d{n}: exactly n digits, as text ---- *)
Fixpoint take_digits (n : nat) (s : text) : option (text * text) :=
  match n with
  | O => Some ([], s)
  | S k => match s with
           | c :: t => if is_digit c
                       then match take_digits k t with Some (ds, r) => Some (c :: ds, r) | None => None end
                       else None
           | [] => None
           end
  end.

Lemma m_rcopies_dig n : forall s e,
  m (rcopies n dig) s e = match take_digits n s with Some (ds, t) => [(ds, t, e)] | None => [] end.
Proof.
  induction n as [|k IH]; intros s e; [reflexivity|].
  cbn [rcopies take_digits]. rewrite rseq_app_sound, m_seq, m_dig.
  destruct s as [|c t]; [reflexivity|]. destruct (is_digit c); [|reflexivity].
  cbn [flat_map]. rewrite app_nil_r, IH. destruct (take_digits k t) as [[ds r]|]; reflexivity.
Qed.

Lemma scan_take_digits n : forall acc s,
  scan_digits n acc s = match take_digits n s with Some (ds, r) => Some (val_digits acc ds, r) | None => None end.
Proof.
  induction n as [|k IH]; intros acc s; [reflexivity|]. cbn [scan_digits take_digits].
  destruct s as [|c t]; [reflexivity|]. destruct (is_digit c); [|reflexivity].
  rewrite IH. destruct (take_digits k t) as [[ds r]|]; reflexivity.
Qed.

Lemma take_digits_spec n : forall s ds r, take_digits n s = Some (ds, r) ->
  s = ds ++ r /\ length ds = n /\ all_dig ds.
Proof.
  induction n as [|k IH]; intros s ds r H; cbn [take_digits] in H.
  - inversion H; subst. repeat split. constructor.
  - destruct s as [|c t]; [discriminate|]. destruct (is_digit c) eqn:Hc; [|discriminate].
    destruct (take_digits k t) as [[ds' r']|] eqn:E; [|discriminate]. inversion H; subst.
    destruct (IH _ _ _ E) as (-> & Hl & HF). repeat split; cbn [length]; auto.
Qed.

(** ---- \d+: every non-empty digit prefix, longest first ---- *)
Fixpoint plus_res (s : text) (e : env) : list res :=
  match s with
  | c :: t => if is_digit c then map (prepend [c]) (plus_res t e) ++ [([c], t, e)] else []
  | [] => []
  end.

Lemma rep_star_dig : forall s fuel e, (length s < fuel)%nat ->
  rep (m dig) fuel 0 None s e = plus_res s e ++ [([], s, e)].
Proof.
  induction s as [|c t IH]; intros fuel e Hf; (destruct fuel as [|f]; [cbn [length] in Hf; lia|]);
    rewrite rep_S, m_dig; cbn [hi_ok hi_pred Nat.eqb pred flat_map plus_res]; [reflexivity|].
  destruct (is_digit c); [|reflexivity]. cbn [flat_map length].
  replace (Nat.ltb (length t) (S (length t))) with true by (symmetry; apply Nat.ltb_lt; lia).
  cbn [orb]. rewrite app_nil_r, IH by (cbn [length] in Hf; lia).
  rewrite map_app. cbn [map prepend app]. reflexivity.
Qed.

Lemma m_plusdig s e : m plusdig s e = plus_res s e.
Proof.
  unfold plusdig. cbn [m]. rewrite rep_S, m_dig. cbn [hi_ok hi_pred Nat.eqb pred negb].
  rewrite app_nil_r. destruct s as [|c t]; [reflexivity|]. cbn [plus_res].
  destruct (is_digit c); [|reflexivity]. cbn [flat_map]. rewrite orb_true_r, app_nil_r.
  rewrite rep_star_dig by (cbn [length Nat.add]; lia).
  rewrite map_app. cbn [map prepend app]. reflexivity.
Qed.

(** a continuation that rejects a leading digit sees only the longest prefix *)
Lemma plus_res_flat_map {X} : forall s e (g : text -> text -> list X),
  (forall pre c t, is_digit c = true -> g pre (c :: t) = []) ->
  flat_map (fun r1 : res => let '(m1, t, _) := r1 in g m1 t) (plus_res s e) =
  match span_digits s with ([], _) => [] | (ds, rest) => g ds rest end.
Proof.
  induction s as [|c t IH]; intros e g Hrej; [reflexivity|]. cbn [plus_res span_digits].
  destruct (is_digit c) eqn:Hc; [|reflexivity].
  rewrite flat_map_app, flat_map_map. cbn [flat_map]. rewrite app_nil_r.
  rewrite (flat_map_ext_in _ (fun r1 : res => let '(m1, t0, _) := r1 in (fun a b => g (c :: a) b) m1 t0))
    by (intros [[a b] d] _; reflexivity).
  rewrite (IH e (fun a b => g (c :: a) b)) by (intros; apply Hrej; assumption).
  destruct (span_digits t) as [ds rest] eqn:E. destruct ds as [|d ds].
  - destruct (span_digits_spec _ _ _ E) as [_ ->]. reflexivity.
  - destruct (span_digits_spec _ _ _ E) as [HF ->]. inversion HF; subst.
    cbn [app]. rewrite (Hrej [c] d) by assumption. rewrite app_nil_r. reflexivity.
Qed.

(** the longest prefix comes first *)
Lemma plus_res_head s : forall e,
  hd_error (plus_res s e) = match span_digits s with
                            | ([], _) => None
                            | (ds, rest) => Some (ds, rest, e)
                            end.
Proof.
  induction s as [|c t IH]; intros e; [reflexivity|]. cbn [plus_res span_digits].
  destruct (is_digit c); [|reflexivity]. specialize (IH e).
  destruct (span_digits t) as [ds rest] eqn:E. destruct (span_digits_spec _ _ _ E) as [_ Ht].
  destruct (plus_res t e) as [|x l]; cbn [hd_error map app] in *.
  - destruct ds; [|discriminate]. cbn [app] in Ht. subst. reflexivity.
  - destruct ds as [|d ds]; [discriminate|]. inversion IH; subst. reflexivity.
Qed.

(** ---- DATE_PATTERN ---- *)
Lemma m_group n a s e :
  m (RGroup n a) s e = map (fun r1 : res => let '(m1, t, e1) := r1 in (m1, t, (n, m1) :: e1)) (m a s e).
Proof. reflexivity. Qed.

(** the three digit groups as text *)
Definition scan_date_t (s : text) : option (text * text * text * text) :=
  match take_digits 4 s with
  | Some (ys, c1 :: s1) =>
      if c1 =? 45 then
        match take_digits 2 s1 with
        | Some (ms, c2 :: s2) =>
            if c2 =? 45 then
              match take_digits 2 s2 with Some (ds, r) => Some (ys, ms, ds, r) | None => None end
            else None
        | _ => None
        end
      else None
  | _ => None
  end.

Lemma m_ref_DATE s e :
  m ref_DATE s e =
  match scan_date_t s with
  | Some (ys, ms, ds, r) =>
      [(ys ++ [45] ++ ms ++ [45] ++ ds, r, (g_day, ds) :: (g_month, ms) :: (g_year, ys) :: e)]
  | None => []
  end.
Proof.
  unfold ref_DATE, scan_date_t. rewrite m_seq, m_group, m_rcopies_dig.
  destruct (take_digits 4 s) as [[ys s0]|]; [|reflexivity]. cbn [map flat_map]. rewrite app_nil_r.
  rewrite m_seq, m_lit. destruct s0 as [|c1 s1]; [reflexivity|]. destruct (c1 =? 45) eqn:E1; [|reflexivity].
  apply Z.eqb_eq in E1. subst c1. cbn [map flat_map]. rewrite app_nil_r.
  rewrite m_seq, m_group, m_rcopies_dig.
  destruct (take_digits 2 s1) as [[ms s0]|]; [|reflexivity]. cbn [map flat_map]. rewrite app_nil_r.
  rewrite m_seq, m_lit. destruct s0 as [|c2 s2]; [reflexivity|]. destruct (c2 =? 45) eqn:E2; [|reflexivity].
  apply Z.eqb_eq in E2. subst c2. cbn [map flat_map]. rewrite app_nil_r.
  rewrite m_group, m_rcopies_dig.
  destruct (take_digits 2 s2) as [[ds r]|]; reflexivity.
Qed.

Lemma scan_date_text s :
  scan_date s = match scan_date_t s with
                | Some (ys, ms, ds, r) => Some (mkdate (val_digits 0 ys) (val_digits 0 ms) (val_digits 0 ds), r)
                | None => None
                end.
Proof.
  unfold scan_date, scan_date_t, obind. rewrite scan_take_digits.
  destruct (take_digits 4 s) as [[ys s0]|]; [|reflexivity].
  destruct s0 as [|c1 s1]; [reflexivity|]. unfold scan_char at 1.
  destruct (c1 =? 45); [|reflexivity]. rewrite scan_take_digits.
  destruct (take_digits 2 s1) as [[ms s0]|]; [|reflexivity].
  destruct s0 as [|c2 s2]; [reflexivity|]. unfold scan_char.
  destruct (c2 =? 45); [|reflexivity]. rewrite scan_take_digits.
  destruct (take_digits 2 s2) as [[ds r]|]; reflexivity.
Qed.

Theorem scan_date_ref s : scan_date s = rx_scan_date ref_DATE s.
Proof.
  rewrite scan_date_text. unfold rx_scan_date, re_match. rewrite m_ref_DATE.
  destruct (scan_date_t s) as [[[[ys ms] ds] r]|]; reflexivity.
Qed.

(** ---- hh:mm:ss ---- *)
Definition scan_hms_t (s : text) : option (text * text * text * text) :=
  match take_digits 2 s with
  | Some (h, c1 :: s1) =>
      if c1 =? 58 then
        match take_digits 2 s1 with
        | Some (mi, c2 :: s2) =>
            if c2 =? 58 then
              match take_digits 2 s2 with Some (x, r) => Some (h, mi, x, r) | None => None end
            else None
        | _ => None
        end
      else None
  | _ => None
  end.

Lemma m_ref_HMS s e :
  m ref_HMS s e =
  match scan_hms_t s with
  | Some (h, mi, x, r) =>
      [(h ++ [58] ++ mi ++ [58] ++ x, r, (g_sec, x) :: (g_min, mi) :: (g_hr, h) :: e)]
  | None => []
  end.
Proof.
  unfold ref_HMS, scan_hms_t. rewrite m_seq, m_group, m_rcopies_dig.
  destruct (take_digits 2 s) as [[h s0]|]; [|reflexivity]. cbn [map flat_map]. rewrite app_nil_r.
  rewrite m_seq, m_lit. destruct s0 as [|c1 s1]; [reflexivity|]. destruct (c1 =? 58) eqn:E1; [|reflexivity].
  apply Z.eqb_eq in E1. subst c1. cbn [map flat_map]. rewrite app_nil_r.
  rewrite m_seq, m_group, m_rcopies_dig.
  destruct (take_digits 2 s1) as [[mi s0]|]; [|reflexivity]. cbn [map flat_map]. rewrite app_nil_r.
  rewrite m_seq, m_lit. destruct s0 as [|c2 s2]; [reflexivity|]. destruct (c2 =? 58) eqn:E2; [|reflexivity].
  apply Z.eqb_eq in E2. subst c2. cbn [map flat_map]. rewrite app_nil_r.
  rewrite m_group, m_rcopies_dig.
  destruct (take_digits 2 s2) as [[x r]|]; reflexivity.
Qed.

Lemma scan_time_text s :
  scan_time s = match scan_hms_t s with
                | Some (h, mi, x, r) =>
                    let (f, r') := scan_frac r in
                    Some (val_digits 0 h, val_digits 0 mi, val_digits 0 x, f, r')
                | None => None
                end.
Proof.
  unfold scan_time, scan_hms_t, obind. rewrite scan_take_digits.
  destruct (take_digits 2 s) as [[h s0]|]; [|reflexivity].
  destruct s0 as [|c1 s1]; [reflexivity|]. unfold scan_char at 1.
  destruct (c1 =? 58); [|reflexivity]. rewrite scan_take_digits.
  destruct (take_digits 2 s1) as [[mi s0]|]; [|reflexivity].
  destruct s0 as [|c2 s2]; [reflexivity|]. unfold scan_char.
  destruct (c2 =? 58); [|reflexivity]. rewrite scan_take_digits.
  destruct (take_digits 2 s2) as [[x r]|]; reflexivity.
Qed.

(** ---- an optional non-nullable group ---- *)
Lemma m_opt a : nullable a = false -> forall s e,
  m (RRep 0 (Some 1%nat) a) s e = m a s e ++ [([], s, e)].
Proof.
  intros Hn s e. cbn [m Nat.add]. rewrite rep_S. cbn [hi_ok hi_pred Nat.eqb pred negb]. f_equal.
  assert (H : forall l, (forall x, In x l -> In x (m a s e)) ->
            flat_map (fun r1 : res => let '(m1, t, e1) := r1 in
                        if Nat.ltb (length t) (length s) || false
                        then map (prepend m1) (rep (m a) (length s) 0 (Some 0%nat) t e1) else []) l = l).
  { induction l as [|[[m1 t] e1] l IH]; intros Hin; [reflexivity|]. cbn [flat_map].
    rewrite IH by (intros x Hx; apply Hin; right; exact Hx).
    pose proof (Hin _ (or_introl eq_refl)) as H1.
    pose proof (nullable_consumes a Hn _ _ _ _ _ H1) as Hne.
    apply m_splits in H1. subst s.
    destruct m1 as [|c m1]; [congruence|].
    replace (Nat.ltb (length t) (length ((c :: m1) ++ t))) with true
      by (symmetry; apply Nat.ltb_lt; rewrite app_length; cbn [length]; lia).
    cbn [orb app length]. rewrite rep_S. cbn [hi_ok Nat.eqb map prepend app].
    rewrite app_nil_r. reflexivity. }
  apply H. auto.
Qed.

(** ---- (?P<sec_frac>\.\d+) ---- *)
Definition frac_wrap (e : env) (r1 : res) : res :=
  let '(m1, t, _) := r1 in (46 :: m1, t, (g_sec_frac, 46 :: m1) :: e).

Lemma plus_res_env s : forall e m1 t e1, In (m1, t, e1) (plus_res s e) -> e1 = e.
Proof.
  induction s as [|c s IH]; intros e m1 t e1 H; cbn [plus_res] in H; [contradiction|].
  destruct (is_digit c); [|contradiction]. apply in_app_or in H. destruct H as [H|H].
  - apply in_map_prepend in H. destruct H as (m2 & _ & H). eapply IH; eauto.
  - destruct H as [H|[]]. inversion H; subst. reflexivity.
Qed.

Lemma m_fracgrp s e :
  m fracgrp s e = match s with
                  | c :: t => if c =? 46 then map (frac_wrap e) (plus_res t e) else []
                  | [] => []
                  end.
Proof.
  unfold fracgrp. rewrite m_group, m_seq, m_lit. destruct s as [|c t]; [reflexivity|].
  destruct (c =? 46) eqn:E; [|reflexivity]. apply Z.eqb_eq in E. subst c.
  cbn [flat_map]. rewrite app_nil_r, m_plusdig, map_map.
  apply map_ext_in. intros [[m1 t1] e1] Hin. apply plus_res_env in Hin. subst e1. reflexivity.
Qed.

Lemma nullable_fracgrp : nullable fracgrp = false.
Proof. reflexivity. Qed.

(** a continuation that can start neither with a digit nor with '.' *)
Definition rejects_frac (K : re) : Prop :=
  forall c t e, is_digit c = true \/ c = 46 -> m K (c :: t) e = [].

Lemma m_fracopt_then K : rejects_frac K -> forall s e,
  m (RSeq fracopt K) s e =
  match scan_frac s with
  | (Some ds, rest) => map (prepend (46 :: ds)) (m K rest ((g_sec_frac, 46 :: ds) :: e))
  | (None, _) => m K s e
  end.
Proof.
  intros HK s e. rewrite m_seq. unfold fracopt. rewrite (m_opt fracgrp nullable_fracgrp).
  rewrite flat_map_app. cbn [flat_map]. rewrite app_nil_r, map_prepend_nil.
  rewrite m_fracgrp, scan_frac_eq. destruct s as [|c t]; [reflexivity|].
  destruct (c =? 46) eqn:E; [|reflexivity]. apply Z.eqb_eq in E. subst c.
  rewrite (HK 46 t e) by (right; reflexivity). rewrite app_nil_r, flat_map_map.
  rewrite (flat_map_ext_in _ (fun r1 : res => let '(m1, t0, _) := r1 in
             (fun a b => map (prepend (46 :: a)) (m K b ((g_sec_frac, 46 :: a) :: e))) m1 t0))
    by (intros [[a b] d] _; reflexivity).
  rewrite plus_res_flat_map.
  - destruct (span_digits t) as [ds rest]. destruct ds; reflexivity.
  - intros pre c t0 Hc. rewrite (HK c t0) by (left; exact Hc). reflexivity.
Qed.

Lemma m_fracopt_head s e :
  hd_error (m fracopt s e) =
  match scan_frac s with
  | (Some ds, rest) => Some (46 :: ds, rest, (g_sec_frac, 46 :: ds) :: e)
  | (None, _) => Some ([], s, e)
  end.
Proof.
  unfold fracopt. rewrite (m_opt fracgrp nullable_fracgrp), m_fracgrp, scan_frac_eq.
  destruct s as [|c t]; [reflexivity|]. destruct (c =? 46) eqn:E; [|reflexivity].
  pose proof (plus_res_head t e) as H. destruct (span_digits t) as [ds rest].
  destruct (plus_res t e) as [|x l]; cbn [hd_error map app] in *.
  - destruct ds; [reflexivity|discriminate].
  - destruct ds as [|d ds]; [discriminate|]. inversion H; subst. reflexivity.
Qed.

(** the continuations of the three dateTime patterns *)
Lemma rejects_end : rejects_frac REnd.
Proof. intros c t e _. reflexivity. Qed.
Lemma rejects_z : rejects_frac (RSeq (lit 90) REnd).
Proof.
  intros c t e H. rewrite m_seq, m_lit. replace (c =? 90) with false; [reflexivity|].
  unfold is_digit in H. lia.
Qed.
Lemma rejects_offset K : rejects_frac (RSeq ref_OFFSET K).
Proof.
  intros c t e H. rewrite m_seq. unfold ref_OFFSET. rewrite m_seq, m_group, m_seq, m_pm.
  replace ((c =? 43) || (c =? 45)) with false; [reflexivity|].
  unfold is_digit in H. lia.
Qed.

(** ---- OFFSET_PATTERN ---- *)
Definition scan_offset_t (s : text) : option (text * text * text) :=
  match s with
  | c :: s1 =>
      if (c =? 43) || (c =? 45) then
        match take_digits 2 s1 with
        | Some (hh, c2 :: s2) =>
            if c2 =? 58 then
              match take_digits 2 s2 with Some (mm, r) => Some (c :: hh, mm, r) | None => None end
            else None
        | _ => None
        end
      else None
  | [] => None
  end.

Lemma m_ref_OFFSET s e :
  m ref_OFFSET s e =
  match scan_offset_t s with
  | Some (h, mm, r) => [(h ++ [58] ++ mm, r, (g_tz_min, mm) :: (g_tz_hr, h) :: e)]
  | None => []
  end.
Proof.
  unfold ref_OFFSET, scan_offset_t. rewrite m_seq, m_group, m_seq, m_pm.
  destruct s as [|c s1]; [reflexivity|].
  destruct ((c =? 43) || (c =? 45)); [|reflexivity]. cbn [flat_map]. rewrite app_nil_r, m_rcopies_dig.
  destruct (take_digits 2 s1) as [[hh s0]|]; [|reflexivity]. cbn [map flat_map prepend app]. rewrite app_nil_r.
  rewrite m_seq, m_lit. destruct s0 as [|c2 s2]; [reflexivity|]. destruct (c2 =? 58) eqn:E2; [|reflexivity].
  apply Z.eqb_eq in E2. subst c2. cbn [map flat_map]. rewrite app_nil_r.
  rewrite m_group, m_rcopies_dig.
  destruct (take_digits 2 s2) as [[mm r]|]; reflexivity.
Qed.

Lemma scan_offset_text s :
  scan_offset s = match scan_offset_t s with
                  | Some (h, mm, r) =>
                      Some (match h with c :: _ => c =? 45 | [] => false end, val_digits 0 (tl h), val_digits 0 mm, r)
                  | None => None
                  end.
Proof.
  unfold scan_offset, scan_offset_t, obind. destruct s as [|c s1]; [reflexivity|].
  destruct ((c =? 43) || (c =? 45)); [|reflexivity]. rewrite scan_take_digits.
  destruct (take_digits 2 s1) as [[hh s0]|]; [|reflexivity].
  destruct s0 as [|c2 s2]; [reflexivity|]. unfold scan_char.
  destruct (c2 =? 58); [|reflexivity]. rewrite scan_take_digits.
  destruct (take_digits 2 s2) as [[mm r]|]; reflexivity.
Qed.

Theorem scan_offset_ref s : scan_offset s = rx_scan_offset ref_OFFSET s.
Proof.
  rewrite scan_offset_text. unfold rx_scan_offset, re_match. rewrite m_ref_OFFSET.
  destruct (scan_offset_t s) as [[[h mm] r]|]; reflexivity.
Qed.

(** ---- TIME_PATTERN (a prefix match: the longest fraction) ---- *)
Lemma m_seq_rseq_app a b c s e : m (RSeq (rseq_app a b) c) s e = m (RSeq a (RSeq b c)) s e.
Proof.
  transitivity (m (RSeq (RSeq a b) c) s e); [|apply m_seq_assoc].
  apply m_seq_ext; [|reflexivity]. intros s' e'. apply rseq_app_sound.
Qed.

Lemma hd_error_flat_map_one {A B} (f : A -> list B) (l : list A) x :
  l = [x] -> hd_error (flat_map f l) = hd_error (f x).
Proof. intros ->. cbn [flat_map]. rewrite app_nil_r. reflexivity. Qed.

Lemma hd_error_map {A B} (f : A -> B) l : hd_error (map f l) = option_map f (hd_error l).
Proof. destruct l; reflexivity. Qed.

Lemma re_match_hd r s : re_match r s = hd_error (m r s []).
Proof. unfold re_match. destruct (m r s []); reflexivity. Qed.

Lemma scan_frac_none_rest r r' : scan_frac r = (None, r') -> r' = r.
Proof.
  rewrite scan_frac_eq. destruct r as [|c t]; [intros H; inversion H; reflexivity|].
  destruct (c =? 46); [|intros H; inversion H; reflexivity].
  destruct (span_digits t) as [ds rest]. destruct ds; intros H; inversion H; reflexivity.
Qed.

Lemma scan_frac_some_digits r ds r' : scan_frac r = (Some ds, r') ->
  all_digits ds = true /\ ds <> [].
Proof.
  rewrite scan_frac_eq. destruct r as [|c t]; [discriminate|].
  destruct (c =? 46); [|discriminate].
  destruct (span_digits t) as [ds0 rest] eqn:E. destruct ds0 as [|d ds0]; [discriminate|].
  intros H. inversion H; subst. destruct (span_digits_spec _ _ _ E) as [HF _]. split; [|discriminate].
  unfold all_digits. apply forallb_forall. apply Forall_forall. exact HF.
Qed.

Theorem scan_time_ref s : scan_time s = rx_scan_time ref_TIME s.
Proof.
  rewrite scan_time_text. unfold rx_scan_time. rewrite re_match_hd. unfold ref_TIME.
  rewrite rseq_app_sound, m_seq, m_ref_HMS.
  destruct (scan_hms_t s) as [[[[h mi] x] r]|]; [|reflexivity].
  cbn [flat_map]. rewrite app_nil_r, hd_error_map, m_fracopt_head.
  destruct (scan_frac r) as [[ds|] r'] eqn:E; [reflexivity|].
  apply scan_frac_none_rest in E. subst r'. reflexivity.
Qed.

(** ---- the three dateTime patterns: DATE [T ] TIME K ---- *)
Record dtf := mkdtf { f_y : text; f_mo : text; f_d : text; f_c : Z;
                      f_h : text; f_mi : text; f_x : text; f_fr : option text }.

Definition dtf_env6 (f : dtf) (e : env) : env :=
  (g_sec, f_x f) :: (g_min, f_mi f) :: (g_hr, f_h f) :: (g_day, f_d f) :: (g_month, f_mo f) :: (g_year, f_y f) :: e.
Definition dtf_env (f : dtf) (e : env) : env :=
  match f_fr f with Some fd => (g_sec_frac, 46 :: fd) :: dtf_env6 f e | None => dtf_env6 f e end.
Definition dtf_text (f : dtf) : text :=
  (f_y f ++ [45] ++ f_mo f ++ [45] ++ f_d f) ++ [f_c f] ++ (f_h f ++ [58] ++ f_mi f ++ [58] ++ f_x f)
  ++ match f_fr f with Some fd => 46 :: fd | None => [] end.

(** the common prefix of the three patterns, by the text scanners *)
Definition dt_prefix (s : text) : option (dtf * text) :=
  match scan_date_t s with
  | Some (ys, ms, ds, c :: s1) =>
      if (c =? 84) || (c =? 32) then
        match scan_hms_t s1 with
        | Some (h, mi, x, s2) =>
            match scan_frac s2 with
            | (Some fd, rest) => Some (mkdtf ys ms ds c h mi x (Some fd), rest)
            | (None, _) => Some (mkdtf ys ms ds c h mi x None, s2)
            end
        | None => None
        end
      else None
  | _ => None
  end.

Definition dt_regex (K : re) : re := rseq_app ref_DATE (RSeq tsep (rseq_app ref_TIME K)).

Lemma m_dt_regex K : rejects_frac K -> forall s e,
  m (dt_regex K) s e =
  match dt_prefix s with
  | Some (f, rest) => map (prepend (dtf_text f)) (m K rest (dtf_env f e))
  | None => []
  end.
Proof.
  intros HK s e. unfold dt_regex, dt_prefix. rewrite rseq_app_sound, m_seq, m_ref_DATE.
  destruct (scan_date_t s) as [[[[ys ms] ds] s0]|]; [|reflexivity].
  cbn [flat_map]. rewrite app_nil_r, m_seq, m_tsep.
  destruct s0 as [|c s1]; [reflexivity|]. destruct ((c =? 84) || (c =? 32)); [|reflexivity].
  cbn [flat_map]. rewrite app_nil_r, rseq_app_sound. unfold ref_TIME.
  rewrite m_seq_rseq_app, m_seq, m_ref_HMS.
  destruct (scan_hms_t s1) as [[[[h mi] x] s2]|]; [|reflexivity].
  cbn [flat_map]. rewrite app_nil_r, (m_fracopt_then K HK), !map_prepend_app.
  destruct (scan_frac s2) as [[fd|] rest].
  - rewrite map_prepend_app. unfold dtf_text, dtf_env, dtf_env6; cbn [f_y f_mo f_d f_c f_h f_mi f_x f_fr].
    rewrite <- !app_assoc. reflexivity.
  - unfold dtf_text, dtf_env, dtf_env6; cbn [f_y f_mo f_d f_c f_h f_mi f_x f_fr].
    rewrite app_nil_r, <- !app_assoc. reflexivity.
Qed.

(** the hand-written reader, over the same prefix *)
Definition dtf_date (f : dtf) : date :=
  mkdate (val_digits 0 (f_y f)) (val_digits 0 (f_mo f)) (val_digits 0 (f_d f)).
Definition dtf_mk (f : dtf) (o : option Z) : out datetime :=
  mk_datetime (dtf_date f) (val_digits 0 (f_h f)) (val_digits 0 (f_mi f)) (val_digits 0 (f_x f))
              (usec_of (f_fr f)) o.

Lemma datetime_reader_prefix s :
  datetime_from_unicode_iso s =
  match dt_prefix s with
  | None => VFault
  | Some (f, rest) =>
      match rest with
      | [90] => dtf_mk f (Some 0)
      | [] => dtf_mk f None
      | _ => match scan_offset rest with
             | Some (neg, oh, om, []) => dtf_mk f (Some (offset_minutes neg oh om))
             | _ => VFault
             end
      end
  end.
Proof.
  unfold datetime_from_unicode_iso, dt_prefix. rewrite scan_date_text.
  destruct (scan_date_t s) as [[[[ys ms] ds] s0]|]; [|reflexivity].
  destruct s0 as [|c s1]; [reflexivity|]. destruct ((c =? 84) || (c =? 32)); [|reflexivity].
  rewrite scan_time_text. destruct (scan_hms_t s1) as [[[[h mi] x] s2]|]; [|reflexivity].
  destruct (scan_frac s2) as [[fd|] rest] eqn:E; [reflexivity|].
  apply scan_frac_none_rest in E. subst rest. reflexivity.
Qed.

(** ---- int() on the text of a digit group ---- *)
Lemma all_dig_last ds : all_dig ds -> ds <> [] -> exists m' d, ds = m' ++ [d] /\ is_digit d = true.
Proof.
  intros HF Hne. destruct (exists_last Hne) as (m' & d & ->). exists m', d. split; [reflexivity|].
  apply Forall_app in HF. destruct HF as [_ HF]. inversion HF; assumption.
Qed.

Lemma int_of_text_digits ds : all_dig ds -> ds <> [] -> int_of_text ds = Some (val_digits 0 ds).
Proof.
  intros HF Hne. unfold int_of_text.
  destruct (all_dig_last ds HF Hne) as (m' & d & Hmd & Hd).
  destruct ds as [|c m0]; [congruence|]. inversion HF as [|? ? Hc HF']; subst.
  rewrite (strip_id (c :: m0) c d m0 eq_refl (digit_not_space c Hc) (ex_intro _ m' Hmd) (digit_not_space d Hd)).
  assert (Hp : parse_digits false false 0 (c :: m0) = Some (val_digits 0 (c :: m0))).
  { apply parse_digits_all; [exact HF|left; discriminate]. }
  unfold is_digit in Hc.
  destruct (Z.eq_dec c 45); [lia|]. destruct (Z.eq_dec c 43); [lia|].
  destruct c as [|p|p]; try exact Hp.
  do 6 (destruct p as [p|p|]; try exact Hp); lia.
Qed.

Lemma int_of_text_signed c ds : c = 43 \/ c = 45 -> all_dig ds -> ds <> [] ->
  int_of_text (c :: ds) = Some (if c =? 45 then - val_digits 0 ds else val_digits 0 ds).
Proof.
  intros Hc HF Hne. unfold int_of_text.
  destruct (all_dig_last ds HF Hne) as (m' & d & Hmd & Hd).
  assert (Hex : exists m'', c :: ds = m'' ++ [d]) by (exists (c :: m'); rewrite Hmd; reflexivity).
  assert (Hsp : is_space c = false) by (destruct Hc; subst; reflexivity).
  rewrite (strip_id (c :: ds) c d ds eq_refl Hsp Hex (digit_not_space d Hd)).
  rewrite (parse_digits_all ds HF false 0 (or_introl Hne)).
  destruct Hc; subst; reflexivity.
Qed.

Lemma gint_digits e n t : lookup n e = Some t -> all_dig t -> t <> [] -> gint e n = Ok (val_digits 0 t).
Proof. intros H HF Hne. unfold gint. rewrite H, int_of_text_digits by assumption. reflexivity. Qed.

(** the digit groups of a parsed prefix *)
Definition dig_group (n : nat) (t : text) : Prop := all_dig t /\ length t = n.
Lemma dig_group_ne n t : dig_group (S n) t -> t <> [].
Proof. intros [_ H] ->. discriminate. Qed.

Lemma scan_date_t_spec s ys ms ds r : scan_date_t s = Some (ys, ms, ds, r) ->
  dig_group 4 ys /\ dig_group 2 ms /\ dig_group 2 ds.
Proof.
  unfold scan_date_t. destruct (take_digits 4 s) as [[a s0]|] eqn:E1; [|discriminate].
  destruct s0 as [|c1 s1]; [discriminate|]. destruct (c1 =? 45); [|discriminate].
  destruct (take_digits 2 s1) as [[b s0]|] eqn:E2; [|discriminate].
  destruct s0 as [|c2 s2]; [discriminate|]. destruct (c2 =? 45); [|discriminate].
  destruct (take_digits 2 s2) as [[c r']|] eqn:E3; [|discriminate]. intros H; inversion H; subst.
  apply take_digits_spec in E1, E2, E3. unfold dig_group. intuition.
Qed.

Lemma scan_hms_t_spec s h mi x r : scan_hms_t s = Some (h, mi, x, r) ->
  dig_group 2 h /\ dig_group 2 mi /\ dig_group 2 x.
Proof.
  unfold scan_hms_t. destruct (take_digits 2 s) as [[a s0]|] eqn:E1; [|discriminate].
  destruct s0 as [|c1 s1]; [discriminate|]. destruct (c1 =? 58); [|discriminate].
  destruct (take_digits 2 s1) as [[b s0]|] eqn:E2; [|discriminate].
  destruct s0 as [|c2 s2]; [discriminate|]. destruct (c2 =? 58); [|discriminate].
  destruct (take_digits 2 s2) as [[c r']|] eqn:E3; [|discriminate]. intros H; inversion H; subst.
  apply take_digits_spec in E1, E2, E3. unfold dig_group. intuition.
Qed.

Lemma scan_offset_t_spec s h mm r : scan_offset_t s = Some (h, mm, r) ->
  exists c hh, h = c :: hh /\ (c = 43 \/ c = 45) /\ dig_group 2 hh /\ dig_group 2 mm.
Proof.
  unfold scan_offset_t. destruct s as [|c s1]; [discriminate|].
  destruct ((c =? 43) || (c =? 45)) eqn:Ec; [|discriminate].
  destruct (take_digits 2 s1) as [[a s0]|] eqn:E1; [|discriminate].
  destruct s0 as [|c2 s2]; [discriminate|]. destruct (c2 =? 58); [|discriminate].
  destruct (take_digits 2 s2) as [[b r']|] eqn:E2; [|discriminate]. intros H; inversion H; subst.
  apply take_digits_spec in E1, E2. exists c, a. unfold dig_group. intuition; lia.
Qed.

Definition dtf_wf (f : dtf) : Prop :=
  dig_group 4 (f_y f) /\ dig_group 2 (f_mo f) /\ dig_group 2 (f_d f) /\
  dig_group 2 (f_h f) /\ dig_group 2 (f_mi f) /\ dig_group 2 (f_x f) /\
  match f_fr f with Some fd => all_digits fd = true /\ fd <> [] | None => True end.

Lemma dt_prefix_wf s f rest : dt_prefix s = Some (f, rest) -> dtf_wf f.
Proof.
  unfold dt_prefix. destruct (scan_date_t s) as [[[[ys ms] ds] s0]|] eqn:E1; [|discriminate].
  destruct s0 as [|c s1]; [discriminate|]. destruct ((c =? 84) || (c =? 32)); [|discriminate].
  destruct (scan_hms_t s1) as [[[[h mi] x] s2]|] eqn:E2; [|discriminate].
  apply scan_date_t_spec in E1. apply scan_hms_t_spec in E2.
  destruct (scan_frac s2) as [[fd|] r'] eqn:E3; intros H; inversion H; subst;
    unfold dtf_wf; cbn [f_y f_mo f_d f_h f_mi f_x f_fr]; intuition.
  - eapply scan_frac_some_digits; eauto.
  - eapply scan_frac_some_digits; eauto.
Qed.

(** _parse_datetime_iso_match on the groups of a parsed prefix: no exception other than the
    ValueError of datetime(...), which the code turns into ValidationError *)
Lemma lookup_skip n k v e : text_eqb k n = false -> lookup n ((k, v) :: e) = lookup n e.
Proof. intros H. cbn [lookup]. rewrite H. reflexivity. Qed.

Lemma parse_match_dtf f e0 tz : dtf_wf f ->
  (forall n, In n [g_year; g_month; g_day; g_hr; g_min; g_sec; g_sec_frac] ->
             lookup n (e0 ++ dtf_env f []) = lookup n (dtf_env f [])) ->
  parse_datetime_iso_match (e0 ++ dtf_env f []) tz = dtf_mk f tz.
Proof.
  intros (Hy & Hmo & Hd & Hh & Hmi & Hx & Hfr) Hl. unfold parse_datetime_iso_match, dtf_mk.
  assert (L : forall n t, In n [g_year; g_month; g_day; g_hr; g_min; g_sec] ->
                lookup n (dtf_env6 f []) = Some t -> lookup n (e0 ++ dtf_env f []) = Some t).
  { intros n t Hin H. rewrite Hl by (cbn [In] in *; intuition). unfold dtf_env.
    destruct (f_fr f); [|exact H]. rewrite lookup_skip; [exact H|].
    cbn [In] in Hin. destruct Hin as [<-|[<-|[<-|[<-|[<-|[<-|[]]]]]]]; reflexivity. }
  rewrite (gint_digits _ g_year (f_y f)); [|apply L; [cbn; tauto|reflexivity]|apply Hy|eapply dig_group_ne; apply Hy].
  rewrite (gint_digits _ g_month (f_mo f)); [|apply L; [cbn; tauto|reflexivity]|apply Hmo|eapply dig_group_ne; apply Hmo].
  rewrite (gint_digits _ g_day (f_d f)); [|apply L; [cbn; tauto|reflexivity]|apply Hd|eapply dig_group_ne; apply Hd].
  rewrite (gint_digits _ g_hr (f_h f)); [|apply L; [cbn; tauto|reflexivity]|apply Hh|eapply dig_group_ne; apply Hh].
  rewrite (gint_digits _ g_min (f_mi f)); [|apply L; [cbn; tauto|reflexivity]|apply Hmi|eapply dig_group_ne; apply Hmi].
  rewrite (gint_digits _ g_sec (f_x f)); [|apply L; [cbn; tauto|reflexivity]|apply Hx|eapply dig_group_ne; apply Hx].
  cbn [bind]. rewrite Hl by (cbn; tauto). unfold dtf_env, dtf_date.
  destruct (f_fr f) as [fd|].
  - cbn [lookup text_eqb g_sec_frac Z.eqb Pos.eqb andb]. cbn [usec_group]. destruct Hfr as [Ha Hn].
    rewrite Ha. destruct fd; [congruence|]. reflexivity.
  - reflexivity.
Qed.

(** ---- the three-way match of datetime_from_unicode_iso ---- *)
Lemma match_z {A} (rest : text) (a b c : A) :
  match rest with [90] => a | [] => b | _ => c end =
  if text_eqb rest [90] then a else match rest with [] => b | _ => c end.
Proof.
  destruct rest as [|x [|y t]]; [reflexivity| |].
  - cbn [text_eqb]. destruct (x =? 90) eqn:E.
    + apply Z.eqb_eq in E. subst x. reflexivity.
    + cbn [andb]. destruct x as [|p|p]; try reflexivity.
      do 7 (destruct p as [p|p|]; try reflexivity). discriminate E.
  - cbn [text_eqb]. rewrite andb_false_r.
    destruct x as [|p|p]; try reflexivity.
    do 7 (destruct p as [p|p|]; try reflexivity).
Qed.

Lemma m_Kz rest e :
  m (RSeq (lit 90) REnd) rest e = if text_eqb rest [90] then [([90], [], e)] else [].
Proof.
  rewrite m_seq, m_lit. destruct rest as [|c t]; [reflexivity|]. cbn [text_eqb].
  destruct (c =? 90) eqn:E; [|reflexivity]. apply Z.eqb_eq in E. subst c.
  cbn [flat_map m]. destruct t; reflexivity.
Qed.

Lemma m_Koff rest e :
  m (rseq_app ref_OFFSET REnd) rest e =
  match scan_offset_t rest with
  | Some (h, mm, []) => [(h ++ [58] ++ mm, [], (g_tz_min, mm) :: (g_tz_hr, h) :: e)]
  | _ => []
  end.
Proof.
  rewrite rseq_app_sound, m_seq, m_ref_OFFSET.
  destruct (scan_offset_t rest) as [[[h mm] r]|]; [|reflexivity].
  cbn [flat_map m]. destruct r; [|reflexivity]. cbn [map prepend app]. rewrite !app_nil_r. reflexivity.
Qed.

Lemma rejects_Koff : rejects_frac (rseq_app ref_OFFSET REnd).
Proof. intros c t e H. rewrite rseq_app_sound. apply rejects_offset. exact H. Qed.

Lemma dtf_mk_bad_offset f o : (-1440 <? o) && (o <? 1440) = false -> dtf_mk f (Some o) = VFault.
Proof.
  intros H. unfold dtf_mk, mk_datetime, valid_datetime. cbn [dt_off valid_off]. rewrite H, andb_false_r.
  reflexivity.
Qed.

Lemma text_eqb_z_cons c t : text_eqb (c :: t) [90] = true -> c = 90 /\ t = [].
Proof.
  cbn [text_eqb]. intros H. apply andb_true_iff in H. destruct H as [H1 H2].
  apply Z.eqb_eq in H1. destruct t; [auto|discriminate].
Qed.

Theorem datetime_reader_ref s :
  datetime_from_unicode_iso_rx ref_utc ref_offset ref_local s = datetime_from_unicode_iso s.
Proof.
  rewrite datetime_reader_prefix. unfold datetime_from_unicode_iso_rx. rewrite !re_match_hd.
  change ref_utc with (dt_regex (RSeq (lit 90) REnd)).
  change ref_offset with (dt_regex (rseq_app ref_OFFSET REnd)).
  change ref_local with (dt_regex REnd).
  rewrite (m_dt_regex _ rejects_z), (m_dt_regex _ rejects_Koff), (m_dt_regex _ rejects_end).
  destruct (dt_prefix s) as [[f rest]|] eqn:E; [|reflexivity].
  pose proof (dt_prefix_wf _ _ _ E) as Hwf.
  rewrite match_z, m_Kz, m_Koff.
  destruct (text_eqb rest [90]) eqn:Ez.
  - (* ...Z *)
    cbn [map hd_error prepend]. apply (parse_match_dtf f [] (Some 0) Hwf). reflexivity.
  - cbn [map hd_error]. rewrite scan_offset_text.
    destruct (scan_offset_t rest) as [[[h mm] r]|] eqn:Eo.
    + destruct r as [|c0 r0].
      * (* an offset up to the end *)
        cbn [map hd_error prepend].
        destruct (scan_offset_t_spec _ _ _ _ Eo) as (c & hh & -> & Hc & Hhh & Hmm).
        assert (Hrest : exists x y, rest = x :: y).
        { unfold scan_offset_t in Eo. destruct rest as [|x y]; [discriminate|]. eauto. }
        destruct Hrest as (x & y & ->).
        unfold gint. cbn [lookup text_eqb g_tz_hr g_tz_min Z.eqb Pos.eqb andb].
        rewrite (int_of_text_signed c hh Hc (proj1 Hhh) (dig_group_ne _ _ Hhh)).
        rewrite (int_of_text_digits mm (proj1 Hmm) (dig_group_ne _ _ Hmm)).
        cbn [bind grp lookup text_eqb g_tz_hr Z.eqb Pos.eqb andb tl].
        set (H := val_digits 0 hh). set (M := val_digits 0 mm).
        repeat match goal with |- context [grp ?a ?b] => change (grp a b) with (c :: hh) end.
        cbv beta iota.
        match goal with |- context [(if c =? 45 then - H else H) * 60 + ?X] =>
          assert (Ho : (if c =? 45 then - H else H) * 60 + X = offset_minutes (c =? 45) H M)
        end.
        { unfold offset_minutes. destruct Hc; subst c; cbn; lia. }
        rewrite Ho. set (o := offset_minutes (c =? 45) H M).
        destruct ((-1440 <? o) && (o <? 1440)) eqn:Er.
        -- apply (parse_match_dtf f [(g_tz_min, mm); (g_tz_hr, c :: hh)] (Some o) Hwf).
           intros n Hin. cbn [In] in Hin.
           destruct Hin as [<-|[<-|[<-|[<-|[<-|[<-|[<-|[]]]]]]]]; reflexivity.
        -- symmetry. apply dtf_mk_bad_offset. exact Er.
      * (* an offset followed by something *)
        destruct rest as [|x y]; [discriminate Eo|]. reflexivity.
    + (* no offset: only the end of the text is left *)
      destruct rest as [|x y].
      * cbn [map hd_error prepend m]. apply (parse_match_dtf f [] None Hwf). reflexivity.
      * reflexivity.
Qed.

(** ---- Date._offset_re: DATE (OFFSET|Z) \Z ---- *)
Lemma m_alt a b s e : m (RAlt a b) s e = m a s e ++ m b s e.
Proof. reflexivity. Qed.

Definition date_env (ys ms ds : text) (e : env) : env :=
  (g_day, ds) :: (g_month, ms) :: (g_year, ys) :: e.

Lemma m_date_tail s1 e :
  hd_error (m (RSeq (RGroup g_4 (RAlt ref_OFFSET (lit 90))) REnd) s1 e) =
  if text_eqb s1 [90] then Some ([90], [], (g_4, [90]) :: e)
  else match scan_offset_t s1 with
       | Some (h, mm, []) =>
           Some (h ++ [58] ++ mm, [], (g_4, h ++ [58] ++ mm) :: (g_tz_min, mm) :: (g_tz_hr, h) :: e)
       | _ => None
       end.
Proof.
  rewrite m_seq, m_group, m_alt, m_ref_OFFSET, m_lit.
  destruct (scan_offset_t s1) as [[[h mm] r]|] eqn:Eo.
  - assert (Hz : text_eqb s1 [90] = false).
    { destruct (scan_offset_t_spec _ _ _ _ Eo) as (c & hh & -> & Hc & _).
      unfold scan_offset_t in Eo. destruct s1 as [|x y]; [discriminate|].
      destruct ((x =? 43) || (x =? 45)) eqn:Ex; [|discriminate].
      cbn [text_eqb]. replace (x =? 90) with false by lia. reflexivity. }
    rewrite Hz. destruct s1 as [|x y]; [discriminate Eo|].
    replace (x =? 90) with false.
    2:{ unfold scan_offset_t in Eo. destruct ((x =? 43) || (x =? 45)) eqn:Ex; [lia|discriminate]. }
    cbn [app map flat_map m]. destruct r; [|reflexivity]. cbn [map prepend app hd_error].
    rewrite !app_nil_r. reflexivity.
  - cbn [app]. destruct s1 as [|x y]; [reflexivity|]. cbn [text_eqb].
    destruct (x =? 90) eqn:Ex; [|reflexivity]. apply Z.eqb_eq in Ex. subst x.
    cbn [map flat_map m]. destruct y; reflexivity.
Qed.

Lemma m_ref_date_offset_hd s :
  re_match ref_date_offset s =
  match scan_date_t s with
  | Some (ys, ms, ds, s1) =>
      option_map (prepend (ys ++ [45] ++ ms ++ [45] ++ ds))
        (hd_error (m (RSeq (RGroup g_4 (RAlt ref_OFFSET (lit 90))) REnd) s1 (date_env ys ms ds [])))
  | None => None
  end.
Proof.
  rewrite re_match_hd. unfold ref_date_offset. rewrite rseq_app_sound, m_seq, m_ref_DATE.
  destruct (scan_date_t s) as [[[[ys ms] ds] s1]|]; [|reflexivity].
  cbn [flat_map]. rewrite app_nil_r, hd_error_map. reflexivity.
Qed.

Theorem scan_date_tz_ref s : scan_date_tz s = rx_scan_date_tz ref_date_offset s.
Proof.
  unfold scan_date_tz, rx_scan_date_tz, obind. rewrite scan_date_text, m_ref_date_offset_hd.
  destruct (scan_date_t s) as [[[[ys ms] ds] s1]|]; [|reflexivity].
  rewrite match_z, m_date_tail, scan_offset_text.
  destruct (text_eqb s1 [90]); [reflexivity|].
  destruct (scan_offset_t s1) as [[[h mm] r]|]; [|destruct s1; reflexivity].
  destruct r; destruct s1; reflexivity.
Qed.

Theorem date_reader_ref s : date_from_unicode_rx ref_date_offset s = date_from_unicode s.
Proof.
  unfold date_from_unicode_rx, date_from_unicode. destruct (strptime_ymd s); [reflexivity|].
  unfold scan_date_tz, obind. rewrite scan_date_text, m_ref_date_offset_hd.
  destruct (scan_date_t s) as [[[[ys ms] ds] s1]|] eqn:Ed; [|reflexivity].
  destruct (scan_date_t_spec _ _ _ _ _ Ed) as (Hy & Hmo & Hd).
  rewrite match_z, m_date_tail, scan_offset_text.
  assert (G : forall e0, (forall n, In n [g_year; g_month; g_day] ->
                 lookup n (e0 ++ date_env ys ms ds []) = lookup n (date_env ys ms ds [])) ->
            (do y <- gint (e0 ++ date_env ys ms ds []) g_year;
             do mo <- gint (e0 ++ date_env ys ms ds []) g_month;
             do d <- gint (e0 ++ date_env ys ms ds []) g_day;
             let v := mkdate y mo d in if valid_date v then Ok v else VFault) =
            (if valid_date (mkdate (val_digits 0 ys) (val_digits 0 ms) (val_digits 0 ds))
             then Ok (mkdate (val_digits 0 ys) (val_digits 0 ms) (val_digits 0 ds)) else VFault)).
  { intros e0 Hl.
    rewrite (gint_digits _ g_year ys); [|rewrite Hl by (cbn; tauto); reflexivity|apply Hy|eapply dig_group_ne; apply Hy].
    rewrite (gint_digits _ g_month ms); [|rewrite Hl by (cbn; tauto); reflexivity|apply Hmo|eapply dig_group_ne; apply Hmo].
    rewrite (gint_digits _ g_day ds); [|rewrite Hl by (cbn; tauto); reflexivity|apply Hd|eapply dig_group_ne; apply Hd].
    reflexivity. }
  destruct (text_eqb s1 [90]).
  - cbn [option_map prepend]. apply (G [(g_4, [90])]).
    intros n Hin. cbn [In] in Hin. destruct Hin as [<-|[<-|[<-|[]]]]; reflexivity.
  - destruct (scan_offset_t s1) as [[[h mm] r]|] eqn:Eo; [|destruct s1; reflexivity].
    destruct r; [|destruct s1; reflexivity].
    destruct s1 as [|x y]; [discriminate Eo|]. cbn [option_map prepend].
    apply (G [(g_4, h ++ [58] ++ mm); (g_tz_min, mm); (g_tz_hr, h)]).
    intros n Hin. cbn [In] in Hin. destruct Hin as [<-|[<-|[<-|[]]]]; reflexivity.
Qed.

(** ---- time_from_unicode over _time_re ---- *)
Theorem time_reader_ref s : time_from_unicode_rx ref_TIME s = time_from_unicode s.
Proof.
  unfold time_from_unicode_rx, time_from_unicode. rewrite scan_time_text, re_match_hd. unfold ref_TIME.
  rewrite rseq_app_sound, m_seq, m_ref_HMS.
  destruct (scan_hms_t s) as [[[[h mi] x] r]|] eqn:Eh; [|reflexivity].
  destruct (scan_hms_t_spec _ _ _ _ _ Eh) as (Hh & Hmi & Hx).
  cbn [flat_map]. rewrite app_nil_r, hd_error_map, m_fracopt_head.
  destruct (scan_frac r) as [[fd|] r'] eqn:Ef; cbn [option_map prepend].
  - destruct (scan_frac_some_digits _ _ _ Ef) as [Ha Hn].
    cbn [lookup text_eqb g_sec_frac Z.eqb Pos.eqb andb usec_group]. rewrite Ha.
    destruct fd as [|d0 fd]; [congruence|]. cbn [negb andb bind].
    rewrite (gint_digits _ g_hr h); [|reflexivity|apply Hh|eapply dig_group_ne; apply Hh].
    rewrite (gint_digits _ g_min mi); [|reflexivity|apply Hmi|eapply dig_group_ne; apply Hmi].
    rewrite (gint_digits _ g_sec x); [|reflexivity|apply Hx|eapply dig_group_ne; apply Hx].
    reflexivity.
  - cbn [lookup text_eqb g_sec_frac g_sec g_min g_hr Z.eqb Pos.eqb andb bind].
    rewrite (gint_digits _ g_hr h); [|reflexivity|apply Hh|eapply dig_group_ne; apply Hh].
    rewrite (gint_digits _ g_min mi); [|reflexivity|apply Hmi|eapply dig_group_ne; apply Hmi].
    rewrite (gint_digits _ g_sec x); [|reflexivity|apply Hx|eapply dig_group_ne; apply Hx].
    reflexivity.
Qed.
