(** duration_from_unicode of spyne/protocol/_inbase.py written over the GENERIC matcher of
    C08/Regex.v, parameterised by the regular expression, and the reference AST (normal form) of
    _duration_re.  Definitions only. *)
From SpyneV Require Export C08.Regex C08.RegexRef C08.DurModel.

Definition g_sign : text := [115; 105; 103; 110].
Definition g_years : text := [121; 101; 97; 114; 115].
Definition g_months : text := [109; 111; 110; 116; 104; 115].
Definition g_days : text := [100; 97; 121; 115].
Definition g_hours : text := [104; 111; 117; 114; 115].
Definition g_minutes : text := [109; 105; 110; 117; 116; 101; 115].
Definition g_seconds : text := [115; 101; 99; 111; 110; 100; 115].
Definition g_8 : text := [35; 56].                       (* the unnamed (\.\d+) inside seconds *)

Definition ropt (a : re) : re := RRep 0 (Some 1%nat) a.
Definition unitg (n : text) (X : Z) : re := ropt (RSeq (RGroup n plusdig) (lit X)).   (* (?:(?P<n>\d+)X)? *)
Definition fracgrp_n (n : text) : re := RGroup n (RSeq (lit 46) plusdig).            (* (\.\d+) *)
Definition secbody : re :=
  RSeq (RGroup g_seconds (RSeq plusdig (ropt (fracgrp_n g_8)))) (lit 83).             (* (?P<seconds>\d+(\.\d+)?)S *)
Definition tinner : re := RSeq (unitg g_hours 72) (RSeq (unitg g_minutes 77) (ropt secbody)).
Definition tpart : re := ropt (RSeq (lit 84) tinner).
Definition ref_DUR : re :=
  RSeq (RGroup g_sign (ropt (lit 45))) (RSeq (lit 80)
  (RSeq (unitg g_years 89) (RSeq (unitg g_months 77) (RSeq (unitg g_days 68) (RSeq tpart REnd))))).

(** groupdict(0): the value of a digit group, 0 when the group did not take part *)
Definition gnum0 (e : env) (n : text) : Z :=
  match lookup n e with Some t => val_digits 0 t | None => 0 end.
(** the text of the seconds group: digits, optionally '.' and digits *)
Definition split_dot (t : text) : text * text :=
  let (ip, r) := span_digits t in (ip, match r with _ :: fp => fp | [] => [] end).

Definition duration_from_unicode_rx (r : re) (s : text) : out Z :=
  match re_match r s with
  | None => VFault
  | Some (_, _, e) =>
      let days := gnum0 e g_days + gnum0 e g_months * 30 + gnum0 e g_years * 365 in
      let hours := gnum0 e g_hours in
      let minutes := gnum0 e g_minutes in
      (* D(duration['seconds']); int(seconds); int((seconds - i) * 1000000) *)
      let '(ip, fp) := split_dot (match lookup g_seconds e with Some t => t | None => [48] end) in
      let n := days * US_DAY + hours * 3600000000 + minutes * 60000000
               + val_digits 0 ip * 1000000 + frac6 6 fp in
      if td_ok n then
        let n' := if text_eqb (grp e g_sign) [45] then - n else n in
        if td_ok n' then Ok n' else VFault
      else VFault
  end.
