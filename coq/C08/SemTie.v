(** The definitions harness/translate/c08sem.py regenerates from the source on every run (Gen/C08Sem.v:
    symbolic execution of datetime_from_unicode_iso and duration_to_unicode) are equal, for all inputs,
    to the models the C08 theorems are stated over.  The proofs are by case analysis on every condition
    either side tests, so a behaviour-preserving respelling of the Python text goes through unchanged,
    and a change of a constant, operator, order of patterns, format or guard does not. *)
From SpyneV Require Import Base.Prelude Base.Digits C08.DtModel C08.DurModel C08.Regex C08.RegexRef
                           C08.RegexDt C08.RegexTie C08.SemPrims Gen.Regexes Gen.C08Sem.
From Coq Require Import Lia ZifyBool.
Ltac Zify.zify_post_hook ::= Z.to_euclidean_division_equations.

Definition menv (o : option res) : option env :=
  match o with Some (_, _, e) => Some e | None => None end.

Lemma bind_ok {A} (x : out A) : bind x (fun r => Ok r) = x.
Proof. destruct x; reflexivity. Qed.

Lemma neg_case (t : text) (x : Z) :
  match t with 45 :: _ => - x | _ => x end = if starts_minus t then - x else x.
Proof.
  unfold starts_minus. destruct t as [|c t]; [reflexivity|].
  destruct c as [|p|p]; try reflexivity. do 7 (destruct p as [p|p|]; try reflexivity).
Qed.

Ltac split_all :=
  repeat (match goal with
          | |- context [bind ?x _] => destruct x eqn:?; cbn [bind]
          | |- context [if ?c then _ else _] => destruct c eqn:?
          end).

Theorem gen_datetime_rx ru ro rl s :
  gen_datetime_from_unicode_iso (menv (re_match ru s)) (menv (re_match ro s)) (menv (re_match rl s))
  = datetime_from_unicode_iso_rx ru ro rl s.
Proof.
  unfold gen_datetime_from_unicode_iso, datetime_from_unicode_iso_rx.
  destruct (re_match ru s) as [[[? ?] eu]|]; cbn [menv]; [apply bind_ok|].
  destruct (re_match ro s) as [[[? ?] eo]|]; cbn [menv].
  - rewrite ?bind_ok.
    destruct (gint eo g_tz_hr) as [h| |x] eqn:Eh; cbn [bind]; try reflexivity;
      change [116; 122; 95; 104; 114] with g_tz_hr in *; change [116; 122; 95; 109; 105; 110] with g_tz_min in *;
      rewrite ?Eh; cbn [bind]; try reflexivity.
    destruct (gint eo g_tz_min) as [mi| |x] eqn:Em; cbn [bind]; try reflexivity.
    rewrite neg_case, ?bind_ok. split_all; try reflexivity; try congruence; try (exfalso; lia).
  - destruct (re_match rl s) as [[[? ?] el]|]; cbn [menv]; [apply bind_ok|reflexivity].
Qed.

(** the reader of _inbase.py as regenerated from its source, on the regenerated patterns, is the
    hand-written reader of DtModel.v *)
Theorem gen_datetime_reader s :
  gen_datetime_from_unicode_iso (menv (re_match rx_DateTime_utc s)) (menv (re_match rx_DateTime_offset s))
                                (menv (re_match rx_DateTime_local s))
  = datetime_from_unicode_iso s.
Proof. rewrite gen_datetime_rx. apply datetime_reader_gen. Qed.

(** ---- duration_to_unicode ---- *)
Ltac norm_text := repeat rewrite <- app_assoc; cbn [app]; rewrite ?app_nil_r.

Theorem gen_duration_printer n : gen_duration_to_unicode n = duration_to_unicode n.
Proof.
  unfold gen_duration_to_unicode, duration_to_unicode. cbv zeta.
  destruct (n / US_DAY <? 0) eqn:Hneg.
  - set (a := - n) in *.
    set (days := a / US_DAY) in *. set (secs := (a mod US_DAY) / 1000000) in *. set (us := a mod 1000000) in *.
    assert (Hs : 0 <= secs < 86400) by (unfold secs, US_DAY; lia).
    clearbody days secs us. clear Hneg.
    split_all; norm_text; try reflexivity; exfalso; lia.
  - set (a := n) in *.
    set (days := a / US_DAY) in *. set (secs := (a mod US_DAY) / 1000000) in *. set (us := a mod 1000000) in *.
    assert (Hs : 0 <= secs < 86400) by (unfold secs, US_DAY; lia).
    clearbody days secs us. clear Hneg.
    split_all; norm_text; try reflexivity; exfalso; lia.
Qed.
