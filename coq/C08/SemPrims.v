(** Primitives the semantic translator harness/translate/c08sem.py emits (definitions only). *)
From SpyneV Require Export Base.Prelude.
(** str.startswith('-') *)
Definition starts_minus (t : text) : bool := match t with 45 :: _ => true | _ => false end.
