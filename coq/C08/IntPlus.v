(** C08 integers: an explicit '+' sign (which XSD allows on xs:integer and on every derived type)
    never pushes the canonical digits of a value in range over the length guard of a fixed-width
    type.  Stated over the table regenerated from spyne/model/primitive/number.py. *)
From SpyneV Require Import Base.Digits Base.DigitsProofs Base.Ext C08.IntModel C08.IntProofs Gen.NumTypes.
From Coq Require Import Lia ZifyBool.

Lemma plus_literal_xs z : 0 <= z -> xs_integer (43 :: str_nat z) = true /\ den_integer (43 :: str_nat z) = z.
Proof.
  intros Hz. split.
  - cbn [xs_integer]. pose proof (str_nat_nonempty z Hz) as Hne.
    destruct (str_nat z) eqn:E; [congruence|]. rewrite <- E. cbn [negb andb].
    apply Forall_all_digits, str_nat_digits. exact Hz.
  - cbn [den_integer]. apply val_str_nat0. exact Hz.
Qed.

Lemma bounded_plus_len_ok :
  Forall (fun '(signed, bits, a, vn) =>
            forall z, 0 <= z <= hi signed bits ->
                      ext_leb (Fin (len (43 :: str_nat z))) (na_max_str_len a) = true)
         bounded_int_types.
Proof.
  unfold bounded_int_types. table_cases; intros z; unfold_vn;
    cbn [na_max_str_len hi ext_leb];
    repeat (match goal with |- context [2 ^ ?e] => let v := eval compute in (2 ^ e) in change (2 ^ e) with v end);
    intros Hz; change (len (43 :: str_nat z)) with (Z.of_nat (S (length (str_nat z))));
    rewrite Nat2Z.inj_succ; fold (len (str_nat z));
    match goal with
    | |- (Z.succ (len (str_nat ?n)) <=? ?k) = true =>
        let H := fresh in
        assert (H : len (str_nat n) <= k - 1) by (apply str_nat_len; [lia|lia|
          let v := eval compute in (10 ^ (k - 1)) in change (10 ^ (k - 1)) with v; lia]); lia
    end.
Qed.

(** '+' and the canonical digits of any value of the type's value space are read as that value *)
Lemma bounded_plus_sign :
  Forall (fun '(signed, bits, a, vn) =>
            forall z, 0 <= z <= hi signed bits ->
                      integer_from_unicode a (43 :: str_nat z) = Ok z)
         bounded_int_types.
Proof.
  pose proof bounded_plus_len_ok as HL.
  rewrite Forall_forall in *. intros [[[signed bits] a] vn] Hin z Hz.
  specialize (HL _ Hin z Hz). cbn beta iota in *.
  destruct (plus_literal_xs z (proj1 Hz)) as [Hx Hd].
  rewrite (integer_in_lex a _ Hx HL), Hd. reflexivity.
Qed.
