(** Lemmas about the Duration and Boolean codecs of C08/DurModel.v. *)
From SpyneV Require Import Base.Digits Base.DigitsProofs C08.DtModel C08.DurModel.
From Coq Require Import Lia ZifyBool Znumtheory.
Ltac Zify.zify_post_hook ::= Z.to_euclidean_division_equations.

(** ---- scanners on printed components ---- *)

Lemma span_digits_app ds : Forall (fun c => is_digit c = true) ds ->
  forall x r, is_digit x = false -> span_digits (ds ++ x :: r) = (ds, x :: r).
Proof.
  induction 1 as [|c ds Hc Hds IH]; intros x r Hx.
  - cbn [app span_digits]. rewrite Hx. reflexivity.
  - cbn [app span_digits]. rewrite Hc, (IH x r Hx). reflexivity.
Qed.

Lemma span_digits_all ds : Forall (fun c => is_digit c = true) ds ->
  span_digits ds = (ds, []).
Proof.
  induction 1 as [|c ds Hc Hds IH]; [reflexivity|].
  cbn [span_digits]. rewrite Hc, IH. reflexivity.
Qed.

Lemma span_digits_nd x r : is_digit x = false -> span_digits (x :: r) = ([], x :: r).
Proof. intros H. cbn [span_digits]. rewrite H. reflexivity. Qed.

(** what [span_digits] returns, in general *)
Lemma span_digits_spec s : forall ds r, span_digits s = (ds, r) ->
  s = ds ++ r /\ Forall (fun c => is_digit c = true) ds
  /\ match r with [] => True | x :: _ => is_digit x = false end.
Proof.
  induction s as [|c s IH]; intros ds r H.
  - cbn [span_digits] in H. inversion H; subst. repeat split; constructor.
  - cbn [span_digits] in H. destruct (is_digit c) eqn:Hc.
    + destruct (span_digits s) as [a b] eqn:E. inversion H; subst.
      destruct (IH a r eq_refl) as (H1 & H2 & H3). subst s.
      repeat split; [constructor; assumption|assumption].
    + inversion H; subst. repeat split; [constructor|exact Hc].
Qed.

Lemma scan_unit_hit c k r : 0 <= k -> is_digit c = false ->
  scan_unit c (str_nat k ++ c :: r) = (k, r).
Proof.
  intros Hk Hc. unfold scan_unit.
  rewrite (span_digits_app _ (str_nat_digits k Hk) c r Hc).
  pose proof (str_nat_nonempty k Hk) as Hne.
  destruct (str_nat k) as [|d ds] eqn:E; [congruence|].
  rewrite Z.eqb_refl, <- E, val_str_nat0 by exact Hk. reflexivity.
Qed.

Lemma scan_unit_miss c k x r : 0 <= k -> is_digit x = false -> x <> c ->
  scan_unit c (str_nat k ++ x :: r) = (0, str_nat k ++ x :: r).
Proof.
  intros Hk Hx Hxc. unfold scan_unit.
  rewrite (span_digits_app _ (str_nat_digits k Hk) x r Hx).
  destruct (str_nat k) as [|d ds]; [reflexivity|].
  replace (x =? c) with false by lia. reflexivity.
Qed.

Lemma scan_unit_nd c x r : is_digit x = false -> scan_unit c (x :: r) = (0, x :: r).
Proof. intros H. unfold scan_unit. rewrite (span_digits_nd x r H). reflexivity. Qed.

Lemma scan_unit_nil c : scan_unit c [] = (0, []).
Proof. reflexivity. Qed.

Lemma scan_seconds_int k r : 0 <= k ->
  scan_seconds (str_nat k ++ 83 :: r) = ((k, []), r).
Proof.
  intros Hk. unfold scan_seconds.
  rewrite (span_digits_app _ (str_nat_digits k Hk) 83 r eq_refl).
  pose proof (str_nat_nonempty k Hk) as Hne.
  destruct (str_nat k) as [|d ds] eqn:E; [congruence|].
  cbn [scan_frac]. rewrite <- E, val_str_nat0 by exact Hk. reflexivity.
Qed.

Lemma scan_seconds_frac k u r : 0 <= k ->
  scan_seconds (str_nat k ++ 46 :: zpad 6 u ++ 83 :: r) = ((k, zpad 6 u), r).
Proof.
  intros Hk. unfold scan_seconds.
  rewrite (span_digits_app _ (str_nat_digits k Hk) 46 _ eq_refl).
  pose proof (str_nat_nonempty k Hk) as Hne.
  destruct (str_nat k) as [|d ds] eqn:E; [congruence|].
  cbn [scan_frac]. rewrite (span_digits_app _ (zpad_digits 6 u) 83 r eq_refl).
  pose proof (zpad_length 6 u) as Hl.
  destruct (zpad 6 u) as [|z zs] eqn:Ez; [discriminate|].
  rewrite <- E, val_str_nat0 by exact Hk. reflexivity.
Qed.

Lemma frac6_zpad u : 0 <= u < 1000000 -> frac6 6 (zpad 6 u) = u.
Proof.
  intros Hu. unfold zpad. cbn [pad_digits frac6 Nat.pred].
  change (Z.of_nat 5) with 5. change (Z.of_nat 4) with 4. change (Z.of_nat 3) with 3.
  change (Z.of_nat 2) with 2. change (Z.of_nat 1) with 1. change (Z.of_nat 0) with 0.
  change (10 ^ 5) with 100000. change (10 ^ 4) with 10000. change (10 ^ 3) with 1000.
  change (10 ^ 2) with 100. change (10 ^ 1) with 10. change (10 ^ 0) with 1.
  lia.
Qed.

Lemma text_eqb_length a : forall b, text_eqb a b = true -> length a = length b.
Proof.
  induction a as [|x a IH]; intros [|y b] H; try discriminate; [reflexivity|].
  cbn [text_eqb] in H. apply andb_true_iff in H. destruct H as [_ H].
  cbn [length]. f_equal. apply IH. exact H.
Qed.

Lemma text_eqb_suffix_false r p : p <> [] -> text_eqb r (p ++ r) = false.
Proof.
  intros Hp. destruct (text_eqb r (p ++ r)) eqn:E; [|reflexivity].
  apply text_eqb_length in E. rewrite app_length in E.
  destruct p; [congruence|cbn [length] in E; lia].
Qed.

Lemma text_eqb_refl a : text_eqb a a = true.
Proof. induction a as [|x a IH]; [reflexivity|]. cbn [text_eqb]. rewrite Z.eqb_refl, IH. reflexivity. Qed.

(** ---- the sign and the 'P' factored out of recogniser and reader ---- *)

(** magnitude recognised after the 'P' *)
Definition xs_core (s2 : text) : option Z :=
  let (d, s5) := scan_unit 68 s2 in
  let hasd := negb (text_eqb s5 s2) in
  match s5 with
  | [] => if hasd then Some (d * US_DAY) else None
  | 84 :: s6 =>
      let (h, s7) := scan_unit 72 s6 in
      let (mi, s8) := scan_unit 77 s7 in
      let '((sec, fr), s9) := scan_seconds s8 in
      match s9 with
      | [] =>
          if text_eqb s9 s6 then None
          else if Nat.leb (length fr) 6 then
            Some (d * US_DAY + h * 3600000000 + mi * 60000000 + sec * 1000000 + frac6 6 fr)
          else None
      | _ => None
      end
  | _ => None
  end.

(** magnitude computed by the reader after the 'P', and the text its scanners left over *)
Definition rd_core (s2 : text) : Z * text :=
  let (y, s3) := scan_unit 89 s2 in
  let (mo, s4) := scan_unit 77 s3 in
  let (d, s5) := scan_unit 68 s4 in
  let '(h, mi, (sec, fr), rest) :=
    match s5 with
    | 84 :: s6 =>
        let (h, s7) := scan_unit 72 s6 in
        let (mi, s8) := scan_unit 77 s7 in
        let (sf, s9) := scan_seconds s8 in (h, mi, sf, s9)
    | _ => (0, 0, (0, []), s5)
    end in
  let days := d + mo * 30 + y * 365 in
  (days * US_DAY + h * 3600000000 + mi * 60000000 + sec * 1000000 + frac6 6 fr, rest).

Definition rd_finish (neg : bool) (nr : Z * text) : out Z :=
  let (n, rest) := nr in
  match rest with
  | [] =>
      if td_ok n then
        let n' := if neg then - n else n in
        if td_ok n' then Ok n' else VFault
      else VFault
  | _ => VFault
  end.

Lemma xs_duration_pos s2 : xs_duration (80 :: s2) = xs_core s2.
Proof.
  unfold xs_duration, xs_core.
  destruct (scan_unit 68 s2) as [d s5]. destruct s5 as [|c s6].
  - destruct (negb (text_eqb [] s2)); [f_equal|reflexivity].
  - destruct (scan_unit 72 s6) as [h s7], (scan_unit 77 s7) as [mi s8],
      (scan_seconds s8) as [[sec fr] s9].
    reflexivity.
Qed.

Lemma xs_duration_neg s2 : xs_duration (45 :: 80 :: s2) = option_map Z.opp (xs_core s2).
Proof.
  unfold xs_duration, xs_core.
  destruct (scan_unit 68 s2) as [d s5]. destruct s5 as [|c s6].
  - destruct (negb (text_eqb [] s2)); reflexivity.
  - destruct (scan_unit 72 s6) as [h s7], (scan_unit 77 s7) as [mi s8],
      (scan_seconds s8) as [[sec fr] s9].
    destruct c as [|p|p]; try reflexivity.
    do 7 (destruct p as [p|p|]; try reflexivity).
    destruct s9; [|reflexivity]. destruct (text_eqb [] s6); [reflexivity|].
    destruct (Nat.leb (length fr) 6); reflexivity.
Qed.

Lemma rd_pos s2 : duration_from_unicode (80 :: s2) = rd_finish false (rd_core s2).
Proof.
  unfold duration_from_unicode, rd_core, rd_finish.
  destruct (scan_unit 89 s2) as [y s3], (scan_unit 77 s3) as [mo s4], (scan_unit 68 s4) as [d s5].
  destruct (match s5 with 84 :: s6 => _ | _ => _ end) as [[[h mi] [sec fr]] rest].
  reflexivity.
Qed.

Lemma rd_neg s2 : duration_from_unicode (45 :: 80 :: s2) = rd_finish true (rd_core s2).
Proof.
  unfold duration_from_unicode, rd_core, rd_finish.
  destruct (scan_unit 89 s2) as [y s3], (scan_unit 77 s3) as [mo s4], (scan_unit 68 s4) as [d s5].
  destruct (match s5 with 84 :: s6 => _ | _ => _ end) as [[[h mi] [sec fr]] rest].
  reflexivity.
Qed.

(** every text is: '-' 'P' rest, 'P' rest, or neither (then both reader and recogniser refuse) *)
Lemma dur_shape s :
  (exists s2, s = 45 :: 80 :: s2) \/ (exists s2, s = 80 :: s2)
  \/ (xs_duration s = None /\ duration_from_unicode s = VFault).
Proof.
  destruct s as [|c r]; [right; right; split; reflexivity|].
  destruct (Z.eq_dec c 80) as [->|N80]; [right; left; eexists; reflexivity|].
  destruct (Z.eq_dec c 45) as [->|N45].
  - destruct r as [|c r]; [right; right; split; reflexivity|].
    destruct (Z.eq_dec c 80) as [->|N80']; [left; eexists; reflexivity|].
    right; right. unfold xs_duration, duration_from_unicode.
    destruct c as [|p|p]; try (split; reflexivity).
    do 7 (destruct p as [p|p|]; try (split; reflexivity)). congruence.
  - right; right. unfold xs_duration, duration_from_unicode.
    destruct c as [|p|p]; try (split; reflexivity).
    do 7 (try (destruct p as [p|p|]; try (split; reflexivity); try congruence)).
Qed.

Lemma scan_unit_inv c s v s' : scan_unit c s = (v, s') ->
  (v = 0 /\ s' = s)
  \/ (exists ds, ds <> [] /\ Forall (fun c => is_digit c = true) ds
                 /\ s = ds ++ c :: s' /\ v = val_digits 0 ds).
Proof.
  unfold scan_unit. destruct (span_digits s) as [ds r] eqn:E.
  destruct (span_digits_spec s ds r E) as (Hs & Hds & _).
  destruct ds as [|d ds]; [intros H; inversion H; auto|].
  destruct r as [|x r]; [intros H; inversion H; auto|].
  destruct (x =? c) eqn:Ex; intros H; inversion H; subst; [|auto].
  right. exists (d :: ds). repeat split; [discriminate|assumption|].
  f_equal. f_equal. lia.
Qed.

Lemma scan_unit_other c c' ds r : ds <> [] -> Forall (fun c => is_digit c = true) ds ->
  is_digit c = false -> c <> c' -> scan_unit c' (ds ++ c :: r) = (0, ds ++ c :: r).
Proof.
  intros Hne Hds Hc Hcc. unfold scan_unit. rewrite (span_digits_app ds Hds c r Hc).
  destruct ds; [congruence|]. replace (c =? c') with false by lia. reflexivity.
Qed.

Lemma scan_unit_same c ds r : ds <> [] -> Forall (fun c => is_digit c = true) ds ->
  is_digit c = false -> scan_unit c (ds ++ c :: r) = (val_digits 0 ds, r).
Proof.
  intros Hne Hds Hc. unfold scan_unit. rewrite (span_digits_app ds Hds c r Hc).
  destruct ds; [congruence|]. rewrite Z.eqb_refl. reflexivity.
Qed.

Lemma some_inj {A} (a b : A) : Some a = Some b -> a = b.
Proof. congruence. Qed.

(** the time part: recogniser and reader run the same three scanners *)
Lemma core_time d s6 m :
  (let (h, s7) := scan_unit 72 s6 in
   let (mi, s8) := scan_unit 77 s7 in
   let '((sec, fr), s9) := scan_seconds s8 in
   match s9 with
   | [] =>
       if text_eqb s9 s6 then None
       else if Nat.leb (length fr) 6 then
         Some (d * US_DAY + h * 3600000000 + mi * 60000000 + sec * 1000000 + frac6 6 fr)
       else None
   | _ => None
   end) = Some m ->
  (let '(h, mi, (sec, fr), rest) :=
     let (h, s7) := scan_unit 72 s6 in
     let (mi, s8) := scan_unit 77 s7 in
     let (sf, s9) := scan_seconds s8 in (h, mi, sf, s9) in
   ((d + 0 * 30 + 0 * 365) * US_DAY + h * 3600000000 + mi * 60000000 + sec * 1000000 + frac6 6 fr,
    rest)) = (m, []).
Proof.
  destruct (scan_unit 72 s6) as [h s7], (scan_unit 77 s7) as [mi s8],
    (scan_seconds s8) as [[sec fr] s9].
  destruct s9; [|discriminate]. destruct (text_eqb [] s6); [discriminate|].
  destruct (Nat.leb (length fr) 6); [|discriminate].
  intros H; apply some_inj in H. rewrite <- H. f_equal. lia.
Qed.

(** on the D/H/M/S fragment the reader computes the denoted magnitude and consumes everything *)
Lemma rd_core_xs s2 m : xs_core s2 = Some m -> rd_core s2 = (m, []).
Proof.
  unfold xs_core, rd_core. destruct (scan_unit 68 s2) as [d s5] eqn:E68.
  destruct (scan_unit_inv _ _ _ _ E68) as [[-> ->] | (ds & Hne & Hds & -> & ->)].
  - rewrite text_eqb_refl. cbn [negb].
    destruct s2 as [|c s6]; [discriminate|].
    destruct (Z.eq_dec c 84) as [->|N84].
    + rewrite !(scan_unit_nd _ 84 s6 eq_refl). apply core_time.
    + intros H. exfalso. destruct c as [|p|p]; try discriminate.
      do 7 (try (destruct p as [p|p|]; try discriminate; try congruence)).
  - rewrite (scan_unit_other 68 89 ds s5 Hne Hds eq_refl ltac:(discriminate)).
    rewrite (scan_unit_other 68 77 ds s5 Hne Hds eq_refl ltac:(discriminate)).
    rewrite E68.
    destruct s5 as [|c s6].
    + destruct (negb _); [|discriminate]. intros H; apply some_inj in H. rewrite <- H.
      cbn [frac6]. f_equal. lia.
    + destruct (Z.eq_dec c 84) as [->|N84]; [apply core_time|].
      intros H. exfalso. destruct c as [|p|p]; try discriminate.
      do 7 (try (destruct p as [p|p|]; try discriminate; try congruence)).
Qed.

(** ---- magnitudes are non-negative ---- *)

Lemma val_digits_nonneg l : Forall (fun c => is_digit c = true) l ->
  forall a, 0 <= a -> 0 <= val_digits a l.
Proof.
  induction 1 as [|c l Hc Hl IH]; intros a Ha; [exact Ha|].
  unfold val_digits. cbn [fold_left]. apply IH. unfold dstep, is_digit in *. lia.
Qed.

Lemma frac6_nonneg k : forall l, Forall (fun c => is_digit c = true) l -> 0 <= frac6 k l.
Proof.
  induction k as [|k IH]; intros l Hl; [cbn; lia|].
  destruct Hl as [|c l Hc Hl]; [cbn; lia|]. cbn [frac6].
  specialize (IH l Hl). assert (0 <= 10 ^ Z.of_nat k) by (apply Z.pow_nonneg; lia).
  unfold is_digit in Hc. assert (0 <= (c - 48) * 10 ^ Z.of_nat k) by (apply Z.mul_nonneg_nonneg; lia).
  lia.
Qed.

Lemma scan_unit_nonneg c s v s' : scan_unit c s = (v, s') -> 0 <= v.
Proof.
  intros H. destruct (scan_unit_inv _ _ _ _ H) as [[-> _] | (ds & _ & Hds & _ & ->)]; [lia|].
  apply val_digits_nonneg; [exact Hds|lia].
Qed.

Lemma scan_seconds_nonneg s sec fr s9 : scan_seconds s = ((sec, fr), s9) ->
  0 <= sec /\ 0 <= frac6 6 fr.
Proof.
  unfold scan_seconds. destruct (span_digits s) as [ds r] eqn:E.
  destruct (span_digits_spec s ds r E) as (_ & Hds & _).
  destruct ds as [|d ds]; [intros H; inversion H; cbn; lia|].
  destruct (scan_frac r) as [f r2] eqn:Ef.
  assert (Hf : 0 <= frac6 6 (match f with Some fd => fd | None => [] end)).
  { unfold scan_frac in Ef. destruct f as [fd|]; [|cbn; lia].
    destruct r as [|x r']; [discriminate|].
    destruct (Z.eq_dec x 46) as [->|N46].
    - destruct (span_digits r') as [fd' rest] eqn:E'.
      destruct (span_digits_spec r' fd' rest E') as (_ & Hfd & _).
      destruct fd'; inversion Ef; subst. apply frac6_nonneg. exact Hfd.
    - exfalso. destruct x as [|p|p]; try discriminate.
      do 6 (try (destruct p as [p|p|]; try discriminate; try congruence)). }
  destruct r2 as [|x r3]; [intros H; inversion H; cbn; lia|].
  destruct (Z.eq_dec x 83) as [->|N83].
  - intros H; inversion H; subst. split; [|exact Hf].
    change (0 <= val_digits 0 (d :: ds)). apply val_digits_nonneg; [exact Hds|lia].
  - intros H. assert (H' : ((0, @nil Z), s) = ((sec, fr), s9)).
    { destruct x as [|p|p]; try exact H.
      do 7 (try (destruct p as [p|p|]; try exact H; try congruence)). }
    inversion H'; cbn; lia.
Qed.

Lemma xs_core_nonneg s2 m : xs_core s2 = Some m -> 0 <= m.
Proof.
  unfold xs_core. destruct (scan_unit 68 s2) as [d s5] eqn:E68.
  pose proof (scan_unit_nonneg _ _ _ _ E68) as Hd.
  destruct s5 as [|c s6].
  - destruct (negb _); [|discriminate]. intros H; inversion H. unfold US_DAY. lia.
  - destruct (scan_unit 72 s6) as [h s7] eqn:E72. destruct (scan_unit 77 s7) as [mi s8] eqn:E77.
    destruct (scan_seconds s8) as [[sec fr] s9] eqn:Es.
    pose proof (scan_unit_nonneg _ _ _ _ E72). pose proof (scan_unit_nonneg _ _ _ _ E77).
    destruct (scan_seconds_nonneg _ _ _ _ Es).
    intros HH.
    assert (H' : (match s9 with
                  | [] => if text_eqb s9 s6 then None
                          else if Nat.leb (length fr) 6
                               then Some (d * US_DAY + h * 3600000000 + mi * 60000000 + sec * 1000000 + frac6 6 fr)
                               else None
                  | _ => None end) = Some m).
    { destruct c as [|p|p]; try discriminate.
      do 7 (try (destruct p as [p|p|]; try discriminate; try exact HH)). }
    destruct s9; [|discriminate]. destruct (text_eqb [] s6); [discriminate|].
    destruct (Nat.leb _ _); [|discriminate]. apply some_inj in H'. rewrite <- H'. unfold US_DAY. lia.
Qed.

(** ---- the range of timedelta ---- *)

(** timedelta's range is closed under taking the magnitude: the lower end is
    -999999999 days exactly, the upper end 999999999 days + 86399.999999 s *)
Lemma td_ok_abs n : td_ok n = true -> td_ok (Z.abs n) = true.
Proof. unfold td_ok, US_DAY, MAX_DAYS. lia. Qed.

(** C. every literal of the D/H/M/S lexical space that denotes a timedelta is read as it *)
Lemma duration_in_lex s n : xs_duration s = Some n -> td_ok n = true ->
  duration_from_unicode s = Ok n.
Proof.
  intros Hx Hn. pose proof (td_ok_abs n Hn) as Ha.
  destruct (dur_shape s) as [[s2 ->] | [[s2 ->] | [Hnone _]]]; [| |congruence].
  - rewrite xs_duration_neg in Hx. rewrite rd_neg.
    destruct (xs_core s2) as [m|] eqn:Em; [|discriminate]. cbn [option_map] in Hx.
    inversion Hx; subst n. rewrite (rd_core_xs s2 m Em).
    pose proof (xs_core_nonneg s2 m Em). unfold rd_finish.
    replace (Z.abs (- m)) with m in Ha by lia. rewrite Ha, Hn. reflexivity.
  - rewrite xs_duration_pos in Hx. rewrite rd_pos. rewrite (rd_core_xs s2 n Hx).
    unfold rd_finish. rewrite Hn. reflexivity.
Qed.

Lemma duration_in_lex_guarded s n : xs_duration s = Some n -> td_ok n = true ->
  td_ok (Z.abs n) = true -> duration_from_unicode s = Ok n.
Proof. intros Hx Hn _. apply duration_in_lex; assumption. Qed.

(** D. the reader never raises anything but ValidationError *)
Lemma rd_finish_total neg nr : is_crash (rd_finish neg nr) = false.
Proof.
  unfold rd_finish. destruct nr as [n rest]. destruct rest; [|reflexivity].
  destruct (td_ok n); [|reflexivity].
  destruct (td_ok (if neg then - n else n)); reflexivity.
Qed.

Lemma duration_total s : is_crash (duration_from_unicode s) = false.
Proof.
  destruct (dur_shape s) as [[s2 ->] | [[s2 ->] | [_ ->]]]; [| |reflexivity].
  - rewrite rd_neg. apply rd_finish_total.
  - rewrite rd_pos. apply rd_finish_total.
Qed.

(** ---- the printer ---- *)

Lemma str_int_nonneg k : 0 <= k -> str_int k = str_nat k.
Proof. intros H. unfold str_int. replace (k <? 0) with false by lia. reflexivity. Qed.

(** what duration_to_unicode writes after the 'P', from the components;
    [whole] is the whole-days test of the code *)
Definition fmt (whole : bool) (days hours minutes seconds us : Z) : text :=
  let d := if days =? 0 then [] else str_int days ++ [68] in
  if whole then d
  else
    let h := if 0 <? hours then str_int hours ++ [72] else [] in
    let m := if 0 <? minutes then str_int minutes ++ [77] else [] in
    let s := if (0 <? seconds) || (0 <? us)
             then str_int seconds ++ (if 0 <? us then 46 :: zpad 6 us else []) ++ [83] else [] in
    let z := if (days =? 0) && negb (0 <? hours) && negb (0 <? minutes)
                && negb ((0 <? seconds) || (0 <? us)) then [48; 83] else [] in
    d ++ [84] ++ h ++ m ++ s ++ z.

Definition dur_body (a : Z) : text :=
  let days := a / US_DAY in
  let secs := (a mod US_DAY) / 1000000 in
  let us := a mod 1000000 in
  fmt (negb (days * 86400 + secs =? 0) && (secs =? 0) && (us =? 0))
      days ((secs / 60) / 60) ((secs / 60) mod 60) (secs mod 60) us.

Lemma duration_to_unicode_body n :
  duration_to_unicode n =
  if n <? 0 then 45 :: 80 :: dur_body (- n) else 80 :: dur_body n.
Proof.
  unfold duration_to_unicode, dur_body, fmt.
  replace (n / US_DAY <? 0) with (n <? 0) by (unfold US_DAY; lia).
  destruct (n <? 0).
  - destruct (negb _ && _ && _); reflexivity.
  - destruct (negb _ && _ && _); reflexivity.
Qed.

Lemma text_eqb_nil_app l x r : text_eqb [] (l ++ x :: r) = false.
Proof. destruct l; reflexivity. Qed.

Ltac norm_text := repeat (progress (rewrite <- ?app_assoc; cbn [app]; rewrite ?app_nil_r)).

Lemma su72_0S : scan_unit 72 [48; 83] = (0, [48; 83]). Proof. reflexivity. Qed.
Lemma su77_0S : scan_unit 77 [48; 83] = (0, [48; 83]). Proof. reflexivity. Qed.
Lemma ss_0S : scan_seconds [48; 83] = ((0, []), []). Proof. reflexivity. Qed.
Lemma ss_nil : scan_seconds [] = ((0, []), []). Proof. reflexivity. Qed.

Ltac scan_step :=
  first
    [ rewrite scan_unit_hit by (first [assumption | reflexivity])
    | rewrite scan_unit_miss by (first [assumption | reflexivity | discriminate])
    | rewrite scan_unit_nd by reflexivity
    | rewrite scan_unit_nil
    | rewrite su72_0S | rewrite su77_0S | rewrite ss_0S | rewrite ss_nil
    | rewrite scan_seconds_frac by assumption
    | rewrite scan_seconds_int by assumption ];
  cbv beta iota.

(** all 2^5 combinations of present/absent components *)
Lemma xs_core_fmt_time days hours minutes seconds us :
  0 <= days -> 0 <= hours -> 0 <= minutes -> 0 <= seconds -> 0 <= us < 1000000 ->
  (days = 0 \/ 0 < hours \/ 0 < minutes \/ 0 < seconds \/ 0 < us) ->
  xs_core (fmt false days hours minutes seconds us)
  = Some (days * US_DAY + hours * 3600000000 + minutes * 60000000 + seconds * 1000000 + us).
Proof.
  intros Hd Hh Hm Hs Hu Hne. unfold fmt, xs_core.
  rewrite ?str_int_nonneg by assumption.
  destruct (days =? 0) eqn:Ed; destruct (0 <? hours) eqn:Eh; destruct (0 <? minutes) eqn:Em;
    destruct (0 <? seconds) eqn:Es; destruct (0 <? us) eqn:Eu;
    cbn [andb orb negb]; norm_text.
  all: try (exfalso; lia).
  all: repeat scan_step.
  all: rewrite ?text_eqb_nil_app; cbn [text_eqb]; rewrite ?zpad_length; cbn [length Nat.leb];
    rewrite ?frac6_zpad by assumption; cbn [frac6].
  all: f_equal; unfold US_DAY; lia.
Qed.

Lemma xs_core_fmt_whole days : 0 < days ->
  xs_core (fmt true days 0 0 0 0) = Some (days * US_DAY).
Proof.
  intros Hd. unfold fmt, xs_core. rewrite str_int_nonneg by lia.
  replace (days =? 0) with false by lia.
  change (str_nat days ++ [68]) with (str_nat days ++ 68 :: []) at 1.
  rewrite scan_unit_hit by (first [lia | reflexivity]).
  rewrite text_eqb_nil_app. reflexivity.
Qed.

Lemma xs_core_body a : 0 <= a -> xs_core (dur_body a) = Some a.
Proof.
  intros Ha. unfold dur_body.
  set (days := a / US_DAY). set (secs := (a mod US_DAY) / 1000000). set (us := a mod 1000000).
  set (hours := secs / 60 / 60). set (minutes := (secs / 60) mod 60). set (seconds := secs mod 60).
  assert (Hsecs : 0 <= secs < 86400) by (unfold secs, US_DAY; lia).
  assert (Hus : 0 <= us < 1000000) by (unfold us; lia).
  assert (Hdays : 0 <= days) by (unfold days, US_DAY; lia).
  assert (Ea : a = days * US_DAY + secs * 1000000 + us).
  { unfold days, secs, us.
    rewrite (Zmod_div_mod 1000000 US_DAY a) by
      (first [reflexivity | exists 86400; reflexivity]).
    pose proof (Z.div_mod a US_DAY ltac:(discriminate)).
    pose proof (Z.div_mod (a mod US_DAY) 1000000 ltac:(discriminate)). lia. }
  assert (Es : secs = hours * 3600 + minutes * 60 + seconds) by (unfold hours, minutes, seconds; lia).
  assert (Hh : 0 <= hours) by (unfold hours; lia).
  assert (Hm : 0 <= minutes) by (unfold minutes; lia).
  assert (Hs : 0 <= seconds) by (unfold seconds; lia).
  clearbody days secs us hours minutes seconds. unfold US_DAY in Ea.
  destruct (negb (days * 86400 + secs =? 0) && (secs =? 0) && (us =? 0)) eqn:Ew.
  - assert (hours = 0 /\ minutes = 0 /\ seconds = 0 /\ us = 0 /\ 0 < days) as (-> & -> & -> & -> & Hd) by lia.
    rewrite xs_core_fmt_whole by exact Hd. f_equal. unfold US_DAY. lia.
  - rewrite xs_core_fmt_time; try assumption; [f_equal; unfold US_DAY; lia|lia].
Qed.

(** B. the written text is in the D/H/M/S lexical space and denotes the value (any n) *)
Lemma duration_out_lex_all n : xs_duration (duration_to_unicode n) = Some n.
Proof.
  rewrite duration_to_unicode_body. destruct (n <? 0) eqn:E.
  - rewrite xs_duration_neg, xs_core_body by lia. cbn [option_map]. f_equal. lia.
  - rewrite xs_duration_pos. apply xs_core_body. lia.
Qed.

Lemma duration_out_lex n : td_ok n = true -> xs_duration (duration_to_unicode n) = Some n.
Proof. intros _. apply duration_out_lex_all. Qed.

(** A. print-then-read is the identity on every timedelta *)
Lemma duration_roundtrip n : td_ok n = true ->
  duration_from_unicode (duration_to_unicode n) = Ok n.
Proof. intros H. apply duration_in_lex; [apply duration_out_lex_all|exact H]. Qed.

(** outside timedelta's range the reader refuses (ValidationError), it does not wrap *)
Lemma duration_roundtrip_range n : td_ok n = false ->
  duration_from_unicode (duration_to_unicode n) = VFault.
Proof.
  intros H. pose proof (duration_out_lex_all n) as Hx. rewrite duration_to_unicode_body in *.
  destruct (n <? 0) eqn:E.
  - rewrite xs_duration_neg in Hx. rewrite rd_neg.
    destruct (xs_core (dur_body (- n))) as [m|] eqn:Em; [|discriminate].
    rewrite (rd_core_xs _ m Em). apply some_inj in Hx. cbn [option_map] in Hx.
    unfold rd_finish. replace (- m) with n by lia. rewrite H.
    destruct (td_ok m); reflexivity.
  - rewrite xs_duration_pos in Hx. rewrite rd_pos, (rd_core_xs _ n Hx).
    unfold rd_finish. rewrite H. reflexivity.
Qed.

(** ---- Boolean ---- *)

Lemma boolean_roundtrip b : boolean_from_unicode (boolean_to_unicode b) = b.
Proof. destruct b; reflexivity. Qed.

Lemma boolean_out_lex b : xs_boolean (boolean_to_unicode b) = Some b.
Proof. destruct b; reflexivity. Qed.

Lemma text_eqb_eq a : forall b, text_eqb a b = true -> a = b.
Proof.
  induction a as [|x a IH]; intros [|y b] H; try discriminate; [reflexivity|].
  cbn [text_eqb] in H. apply andb_true_iff in H. destruct H as [H1 H2].
  f_equal; [lia|apply IH; exact H2].
Qed.

Lemma boolean_in_lex s b : xs_boolean s = Some b -> boolean_from_unicode s = b.
Proof.
  unfold xs_boolean.
  destruct (text_eqb s [116; 114; 117; 101]) eqn:E1; [apply text_eqb_eq in E1; subst; cbn; congruence|].
  destruct (text_eqb s [49]) eqn:E2; [apply text_eqb_eq in E2; subst; cbn; congruence|].
  destruct (text_eqb s [102; 97; 108; 115; 101]) eqn:E3; [apply text_eqb_eq in E3; subst; cbn; congruence|].
  destruct (text_eqb s [48]) eqn:E4; [apply text_eqb_eq in E4; subst; cbn; congruence|].
  discriminate.
Qed.

(** ---- nothing of the input is ignored: an accepted text is, in full, a word
    of the regular expression, and the value is the one its groups denote ---- *)
From SpyneV Require Import C08.DurLang.

Lemma scan_unit_piece c s v s' : scan_unit c s = (v, s') ->
  exists p, s = p ++ s' /\ dur_piece c p v.
Proof.
  intros H. destruct (scan_unit_inv _ _ _ _ H) as [[-> ->] | (ds & Hne & Hds & -> & ->)].
  - exists []. split; [reflexivity|left; auto].
  - exists (ds ++ [c]). split; [rewrite <- app_assoc; reflexivity|].
    right. exists ds. repeat split; assumption.
Qed.

Lemma match46 {A} (c : Z) (x y : A) : c <> 46 -> match c with 46 => x | _ => y end = y.
Proof.
  intros H. destruct c as [|p|p]; try reflexivity.
  do 6 (try (destruct p as [p|p|]; try reflexivity)). congruence.
Qed.
Lemma match83 {A} (c : Z) (x y : A) : c <> 83 -> match c with 83 => x | _ => y end = y.
Proof.
  intros H. destruct c as [|p|p]; try reflexivity.
  do 7 (try (destruct p as [p|p|]; try reflexivity)). congruence.
Qed.
Lemma match84 {A} (c : Z) (x y : A) : c <> 84 -> match c with 84 => x | _ => y end = y.
Proof.
  intros H. destruct c as [|p|p]; try reflexivity.
  do 7 (try (destruct p as [p|p|]; try reflexivity)). congruence.
Qed.

Lemma scan_frac_inv r f r2 : scan_frac r = (f, r2) ->
  (f = None /\ r2 = r) \/ (exists fd, digits fd /\ f = Some fd /\ r = 46 :: fd ++ r2).
Proof.
  unfold scan_frac. destruct r as [|x r']; [intros H; inversion H; auto|].
  destruct (Z.eq_dec x 46) as [->|N46].
  - destruct (span_digits r') as [fd rest] eqn:E.
    destruct (span_digits_spec r' fd rest E) as (-> & Hfd & _).
    destruct fd as [|e fd]; intros H; inversion H; subst; [auto|].
    right. exists (e :: fd). repeat split; [discriminate|exact Hfd].
  - rewrite match46 by exact N46. intros H; inversion H; auto.
Qed.

Lemma scan_seconds_piece s sec fr s9 : scan_seconds s = ((sec, fr), s9) ->
  exists p, s = p ++ s9 /\ dur_sec_piece p sec fr.
Proof.
  unfold scan_seconds. destruct (span_digits s) as [ds r] eqn:E.
  destruct (span_digits_spec s ds r E) as (-> & Hds & _).
  assert (Hno : ((0, @nil Z), ds ++ r) = ((sec, fr), s9) ->
                exists p, ds ++ r = p ++ s9 /\ dur_sec_piece p sec fr).
  { intros H; inversion H; subst. exists []. split; [reflexivity|left; auto]. }
  destruct ds as [|d0 ds]; [exact Hno|].
  destruct (scan_frac r) as [f r2] eqn:Ef.
  destruct r2 as [|x r3]; [exact Hno|].
  destruct (Z.eq_dec x 83) as [->|N83]; [|rewrite match83 by exact N83; exact Hno].
  intros H. apply (f_equal fst) in H as H1. apply (f_equal snd) in H as H2. cbn [fst snd] in H1, H2.
  subst s9. apply (f_equal fst) in H1 as H3. apply (f_equal snd) in H1 as H4. cbn [fst snd] in H3, H4.
  assert (Hd : digits (d0 :: ds)) by (split; [discriminate|exact Hds]).
  destruct (scan_frac_inv r f (83 :: r3) Ef) as [[-> <-] | (fd & Hfd & -> & ->)].
  - exists ((d0 :: ds) ++ [83]). split; [rewrite <- app_assoc; reflexivity|].
    right. exists (d0 :: ds). split; [exact Hd|]. split; [symmetry; exact H3|]. left. auto.
  - exists ((d0 :: ds) ++ 46 :: fd ++ [83]). split.
    { rewrite <- app_assoc. cbn [app]. rewrite <- app_assoc. reflexivity. }
    right. exists (d0 :: ds). split; [exact Hd|]. split; [symmetry; exact H3|]. right.
    subst fr. split; [exact Hfd|reflexivity].
Qed.

Lemma rd_core_lang s2 m rest : rd_core s2 = (m, rest) ->
  exists py pmo pd pt y mo d h mi sec fr,
    s2 = py ++ pmo ++ pd ++ pt ++ rest
    /\ dur_piece 89 py y /\ dur_piece 77 pmo mo /\ dur_piece 68 pd d
    /\ dur_time_part pt h mi sec fr
    /\ m = (d + mo * 30 + y * 365) * US_DAY + h * 3600000000 + mi * 60000000
           + sec * 1000000 + frac6 6 fr.
Proof.
  unfold rd_core.
  destruct (scan_unit 89 s2) as [y s3] eqn:Ey. destruct (scan_unit 77 s3) as [mo s4] eqn:Emo.
  destruct (scan_unit 68 s4) as [d s5] eqn:Ed.
  destruct (scan_unit_piece _ _ _ _ Ey) as (py & -> & Hy).
  destruct (scan_unit_piece _ _ _ _ Emo) as (pmo & -> & Hmo).
  destruct (scan_unit_piece _ _ _ _ Ed) as (pd & -> & Hd).
  assert (Hnot : (let '(h, mi, (sec, fr), rest) := (0, 0, (0, @nil Z), s5) in
                  ((d + mo * 30 + y * 365) * US_DAY + h * 3600000000 + mi * 60000000
                   + sec * 1000000 + frac6 6 fr, rest)) = (m, rest) ->
          exists py0 pmo0 pd0 pt y0 mo0 d0 h mi sec fr,
            py ++ pmo ++ pd ++ s5 = py0 ++ pmo0 ++ pd0 ++ pt ++ rest
            /\ dur_piece 89 py0 y0 /\ dur_piece 77 pmo0 mo0 /\ dur_piece 68 pd0 d0
            /\ dur_time_part pt h mi sec fr
            /\ m = (d0 + mo0 * 30 + y0 * 365) * US_DAY + h * 3600000000 + mi * 60000000
                   + sec * 1000000 + frac6 6 fr).
  { intros H. apply (f_equal fst) in H as H1. apply (f_equal snd) in H as H2. cbn [fst snd] in H1, H2.
    subst rest. exists py, pmo, pd, [], y, mo, d, 0, 0, 0, [].
    repeat split; try assumption; [left; auto 6|symmetry; exact H1]. }
  destruct s5 as [|c s6]; [exact Hnot|].
  destruct (Z.eq_dec c 84) as [->|N84]; [|rewrite match84 by exact N84; exact Hnot].
  clear Hnot.
  destruct (scan_unit 72 s6) as [h s7] eqn:Eh. destruct (scan_unit 77 s7) as [mi s8] eqn:Emi.
  destruct (scan_seconds s8) as [[sec fr] s9] eqn:Es.
  destruct (scan_unit_piece _ _ _ _ Eh) as (ph & -> & Hh).
  destruct (scan_unit_piece _ _ _ _ Emi) as (pm & -> & Hmi).
  destruct (scan_seconds_piece _ _ _ _ Es) as (ps & -> & Hs).
  intros H. apply (f_equal fst) in H as H1. apply (f_equal snd) in H as H2. cbn [fst snd] in H1, H2.
  subst s9. exists py, pmo, pd, (84 :: ph ++ pm ++ ps), y, mo, d, h, mi, sec, fr.
  split; [cbn [app]; rewrite <- !app_assoc; reflexivity|].
  repeat split; try assumption; [|symmetry; exact H1].
  right. exists ph, pm, ps. auto.
Qed.

(** the reader accepts only complete words of the regular expression, with the
    value its groups denote: no trailing (or any other) text is ignored *)
Lemma duration_no_trailing_junk s n : duration_from_unicode s = Ok n -> dur_lang s n.
Proof.
  intros H.
  assert (Hfin : forall neg s2, rd_finish neg (rd_core s2) = Ok n ->
            dur_lang ((if neg then [45] else []) ++ 80 :: s2) n).
  { intros neg s2. destruct (rd_core s2) as [m rest] eqn:E. unfold rd_finish.
    destruct rest; [|discriminate].
    destruct (td_ok m) eqn:T1; [|discriminate].
    destruct (td_ok (if neg then - m else m)) eqn:T2; [|discriminate].
    intros Hn; inversion Hn; subst n.
    destruct (rd_core_lang s2 m [] E)
      as (py & pmo & pd & pt & y & mo & d & h & mi & sec & fr & -> & Hy & Hmo & Hd & Ht & ->).
    exists neg, py, pmo, pd, pt, y, mo, d, h, mi, sec, fr.
    rewrite app_nil_r. repeat split; assumption. }
  destruct (dur_shape s) as [[s2 ->] | [[s2 ->] | [_ Hv]]]; [| |congruence].
  - rewrite rd_neg in H. apply (Hfin true s2 H).
  - rewrite rd_pos in H. apply (Hfin false s2 H).
Qed.

(** corollary in the plainest form: appending anything after the seconds
    designator of an accepted text makes it unacceptable *)
Lemma duration_rejects_suffix_after_S k x junk :
  0 <= k -> duration_from_unicode (80 :: 84 :: str_nat k ++ 83 :: x :: junk) = VFault.
Proof.
  intros Hk. rewrite rd_pos. unfold rd_core.
  rewrite !(scan_unit_nd _ 84 _ eq_refl).
  rewrite (scan_unit_miss 72 k 83 _ Hk eq_refl ltac:(discriminate)).
  rewrite (scan_unit_miss 77 k 83 _ Hk eq_refl ltac:(discriminate)).
  rewrite scan_seconds_int by exact Hk. reflexivity.
Qed.
