(** C08/C05 integer family: the reader of spyne/protocol/_inbase.py
    (integer_from_bytes) and the writer of _outbase.py (integer_to_unicode)
    for default formats, over the generated attribute tables. Definitions only. *)
From SpyneV Require Export Base.Digits Base.Ext.

(** integer_to_unicode with str_format = format = None *)
Definition integer_to_unicode (z : Z) : text := str_int z.

(** integer_from_bytes for a str argument:
      if max_str_len is not None and len(string) > max_str_len: raise ValidationError
      try: return int(string)  except ValueError: raise ValidationError *)
Definition integer_from_unicode (a : num_attrs) (s : text) : out Z :=
  if negb (ext_leb (Fin (len s)) (na_max_str_len a)) then VFault
  else match int_of_text s with
       | Some z => Ok z
       | None => VFault
       end.

(** the fixed-width value spaces of XSD: byte/short/int/long and unsigned* *)
Definition lo (signed : bool) (bits : Z) : Z := if signed then - 2 ^ (bits - 1) else 0.
Definition hi (signed : bool) (bits : Z) : Z := if signed then 2 ^ (bits - 1) - 1 else 2 ^ bits - 1.

(** xs:integer lexical space: optional sign, one or more ASCII digits *)
Fixpoint all_digits (l : text) : bool :=
  match l with [] => true | c :: r => is_digit c && all_digits r end.
Definition xs_integer (s : text) : bool :=
  match s with
  | 45 :: r | 43 :: r => negb (match r with [] => true | _ => false end) && all_digits r
  | r => negb (match r with [] => true | _ => false end) && all_digits r
  end.
(** denotation of an xs:integer literal *)
Definition den_integer (s : text) : Z :=
  match s with
  | 45 :: r => - val_digits 0 r
  | 43 :: r => val_digits 0 r
  | r => val_digits 0 r
  end.
