(** C08 Uuid: round trip for every 128-bit value, the written text matches Spyne's UUID_PATTERN
    (the AST regenerated from the source), every text of that pattern is read as the value of its
    digits, the reader lets no exception escape. *)
From SpyneV Require Import Base.Prelude Base.Digits Base.DigitsProofs C08.UuidModel
                           C08.Regex C08.RegexProofs.
From Coq Require Import Lia ZifyBool.
Ltac Zify.zify_post_hook ::= Z.to_euclidean_division_equations.

Definition is_hex (c : Z) : bool :=
  is_digit c || ((97 <=? c) && (c <=? 102)) || ((65 <=? c) && (c <=? 70)).
Definition is_lhex (c : Z) : bool := is_digit c || ((97 <=? c) && (c <=? 102)).
Notation all_hex l := (Forall (fun c => is_hex c = true) l).

Lemma lhex_hex c : is_lhex c = true -> is_hex c = true.
Proof. unfold is_lhex, is_hex. intros H. apply orb_true_iff in H. destruct H as [H|H]; rewrite H; [reflexivity|rewrite orb_true_r; reflexivity]. Qed.

(** ---- '%032x' ---- *)
Lemma pad_hex_acc w : forall n acc, pad_hex w n acc = pad_hex w n [] ++ acc.
Proof.
  induction w as [|w IH]; intros n acc; cbn [pad_hex]; [reflexivity|].
  rewrite (IH _ (_ :: acc)), (IH _ [_]), <- app_assoc. reflexivity.
Qed.
Lemma hexpad_succ w n : hexpad (S w) n = hexpad w (n / 16) ++ [hexdig (n mod 16)].
Proof. unfold hexpad. cbn [pad_hex]. apply pad_hex_acc. Qed.
Lemma hexpad_length w : forall n, length (hexpad w n) = w.
Proof.
  induction w as [|w IH]; intros n; [reflexivity|]. rewrite hexpad_succ, app_length, IH. cbn. lia.
Qed.
Lemma hexdig_lhex v : 0 <= v < 16 -> is_lhex (hexdig v) = true.
Proof. unfold hexdig, is_lhex, is_digit. intros H. destruct (v <? 10) eqn:E; lia. Qed.
Lemma hexpad_lhex w : forall n, Forall (fun c => is_lhex c = true) (hexpad w n).
Proof.
  induction w as [|w IH]; intros n; [constructor|]. rewrite hexpad_succ. apply Forall_app. split; [apply IH|].
  constructor; [apply hexdig_lhex; lia|constructor].
Qed.
Lemma hexval_hexdig v : 0 <= v < 16 -> hexval (hexdig v) = Some v.
Proof.
  intros H. unfold hexdig, hexval, is_digit. destruct (v <? 10) eqn:E.
  - replace ((48 <=? 48 + v) && (48 + v <=? 57)) with true by lia. f_equal. lia.
  - replace ((48 <=? 87 + v) && (87 + v <=? 57)) with false by lia.
    replace ((97 <=? 87 + v) && (87 + v <=? 102)) with true by lia. f_equal. lia.
Qed.
Lemma val_hex_app a l1 l2 : val_hex a (l1 ++ l2) = val_hex (val_hex a l1) l2.
Proof. unfold val_hex. apply fold_left_app. Qed.
Lemma hexpad_val w : forall n a, 0 <= n < 16 ^ Z.of_nat w -> val_hex a (hexpad w n) = a * 16 ^ Z.of_nat w + n.
Proof.
  induction w as [|w IH]; intros n a Hn.
  - change (16 ^ Z.of_nat 0) with 1 in *. unfold hexpad, val_hex. cbn [pad_hex fold_left]. lia.
  - rewrite hexpad_succ, val_hex_app.
    rewrite Nat2Z.inj_succ, Z.pow_succ_r in * by lia.
    rewrite IH by lia. unfold val_hex, hstep. cbn [fold_left]. rewrite hexval_hexdig by lia.
    set (p := 16 ^ Z.of_nat w) in *. lia.
Qed.

(** ---- texts of hexadecimal digits and hyphens pass the clean-up of UUID() unchanged ---- *)
Definition hh (c : Z) : bool := is_hex c || (c =? 45).
Notation all_hh l := (Forall (fun c => hh c = true) l).

Lemma remove_all_id pat x : forall s, (forall c, In c s -> c <> x) -> pat <> [] -> hd 0 pat = x ->
  remove_all pat 0 s = s.
Proof.
  intros s Hs Hp Hx. destruct pat as [|p0 pat]; [congruence|]. cbn [hd] in Hx. subst p0.
  induction s as [|c r IH]; [reflexivity|]. cbn [remove_all prefix_b].
  assert (Hc : c <> x) by (apply Hs; left; reflexivity).
  replace (x =? c) with false by lia. cbn [andb]. rewrite IH; [reflexivity|].
  intros d Hd. apply Hs. right. exact Hd.
Qed.

Lemma all_hh_no_u s : all_hh s -> forall c, In c s -> c <> 117.
Proof.
  intros H c Hc. rewrite Forall_forall in H. specialize (H c Hc). unfold hh, is_hex, is_digit in H. lia.
Qed.

Lemma drop_braces_head c l : is_brace c = false -> drop_braces (c :: l) = c :: l.
Proof. intros H. cbn [drop_braces]. rewrite H. reflexivity. Qed.

Lemma hh_not_brace c : hh c = true -> is_brace c = false.
Proof. unfold hh, is_hex, is_digit, is_brace. lia. Qed.

Lemma strip_braces_id s : all_hh s -> strip_braces s = s.
Proof.
  intros HF. destruct s as [|c m]; [reflexivity|].
  assert (Hne : c :: m <> []) by discriminate.
  destruct (exists_last Hne) as (m' & d & Hl).
  assert (Hc : hh c = true) by (inversion HF; assumption).
  assert (Hd : hh d = true).
  { rewrite Hl in HF. apply Forall_app in HF. destruct HF as [_ HF]. inversion HF; assumption. }
  unfold strip_braces. rewrite drop_braces_head by (apply hh_not_brace, Hc).
  rewrite Hl, rev_app_distr. cbn [rev app]. rewrite drop_braces_head by (apply hh_not_brace, Hd).
  change (d :: rev m') with (rev [d] ++ rev m'). rewrite <- rev_app_distr, rev_involutive. reflexivity.
Qed.

Lemma uuid_hex_of_hh s : all_hh s -> uuid_hex_of s = no_hyphen s.
Proof.
  intros H. unfold uuid_hex_of.
  rewrite (remove_all_id urn 117 s); [|exact (all_hh_no_u s H)|discriminate|reflexivity].
  rewrite (remove_all_id uuid_colon 117 s); [|exact (all_hh_no_u s H)|discriminate|reflexivity].
  rewrite strip_braces_id by exact H. reflexivity.
Qed.

Lemma no_hyphen_hex l : all_hex l -> no_hyphen l = l.
Proof.
  unfold no_hyphen. induction 1 as [|c l Hc HF IH]; [reflexivity|]. cbn [filter].
  replace (negb (c =? 45)) with true by (unfold is_hex, is_digit in Hc; lia). rewrite IH. reflexivity.
Qed.
Lemma no_hyphen_app a b : no_hyphen (a ++ b) = no_hyphen a ++ no_hyphen b.
Proof. apply filter_app. Qed.
Lemma no_hyphen_all_hex s : all_hh s -> all_hex (no_hyphen s).
Proof.
  unfold no_hyphen. induction 1 as [|c l Hc HF IH]; [constructor|]. cbn [filter].
  destruct (c =? 45) eqn:E; cbn [negb]; [exact IH|]. constructor; [|exact IH]. unfold hh in Hc. rewrite E, orb_false_r in Hc. exact Hc.
Qed.

(** ---- int(h, 16) on hexadecimal digits ---- *)
Lemma hex_hexval c : is_hex c = true -> exists v, hexval c = Some v /\ 0 <= v < 16.
Proof.
  unfold is_hex, hexval. intros H. destruct (is_digit c) eqn:E1.
  - exists (c - 48). split; [reflexivity|]. unfold is_digit in E1. lia.
  - destruct ((97 <=? c) && (c <=? 102)) eqn:E2.
    + exists (c - 87). split; [reflexivity|]. lia.
    + exists (c - 55). replace ((65 <=? c) && (c <=? 70)) with true by lia. split; [reflexivity|]. lia.
Qed.

Lemma parse_hex_all l : all_hex l -> forall started acc, (l <> [] \/ started = true) ->
  parse_hex started false acc l = Some (val_hex acc l).
Proof.
  induction 1 as [|c l Hc Hl IH]; intros started acc Hne.
  - destruct Hne as [Hne | ->]; [congruence|reflexivity].
  - cbn [parse_hex]. destruct (hex_hexval c Hc) as (v & Hv & _). rewrite Hv.
    rewrite IH by (right; reflexivity). unfold val_hex, hstep. cbn [fold_left]. rewrite Hv. reflexivity.
Qed.

Lemma val_hex_bound l : all_hex l -> forall a, 0 <= a ->
  a * 16 ^ Z.of_nat (length l) <= val_hex a l < (a + 1) * 16 ^ Z.of_nat (length l).
Proof.
  induction 1 as [|c l Hc Hl IH]; intros a Ha.
  - change (16 ^ Z.of_nat (length (@nil Z))) with 1. unfold val_hex. cbn [fold_left]. lia.
  - destruct (hex_hexval c Hc) as (v & Hv & Hr).
    change (val_hex a (c :: l)) with (val_hex (hstep a c) l). unfold hstep. rewrite Hv.
    specialize (IH (a * 16 + v) ltac:(lia)). cbn [length]. rewrite Nat2Z.inj_succ, Z.pow_succ_r by lia.
    set (p := 16 ^ Z.of_nat (length l)) in *. nia.
Qed.

Lemma hex_not_space c : is_hex c = true -> is_space c = false.
Proof. unfold is_hex, is_digit, is_space. lia. Qed.

Lemma int16_hex h : all_hex h -> (2 <= length h)%nat -> int16_of_text h = Some (val_hex 0 h).
Proof.
  intros HF Hlen. unfold int16_of_text.
  assert (Hne : h <> []) by (destruct h; [cbn in Hlen; lia|discriminate]).
  destruct (exists_last Hne) as (m' & d & Hl).
  destruct h as [|c m]; [congruence|].
  assert (Hc : is_hex c = true) by (inversion HF; assumption).
  assert (Hd : is_hex d = true).
  { rewrite Hl in HF. apply Forall_app in HF. destruct HF as [_ HF]. inversion HF; assumption. }
  rewrite (strip_id (c :: m) c d m eq_refl (hex_not_space c Hc) (ex_intro _ m' Hl) (hex_not_space d Hd)).
  replace (c =? 45) with false by (unfold is_hex, is_digit in Hc; lia).
  replace (c =? 43) with false by (unfold is_hex, is_digit in Hc; lia).
  unfold parse_hex_body. destruct m as [|x r']; [cbn in Hlen; lia|].
  assert (Hx : is_hex x = true) by (inversion HF as [|? ? _ HF']; inversion HF'; assumption).
  replace ((x =? 120) || (x =? 88)) with false by (unfold is_hex, is_digit in Hx; lia).
  rewrite andb_false_r. apply parse_hex_all; [exact HF|left; discriminate].
Qed.

(** UUID(s) for a text of hex digits and hyphens with 32 digits *)
Lemma py_uuid_hh s : all_hh s -> length (no_hyphen s) = 32%nat -> py_uuid s = Some (uuid_den s).
Proof.
  intros HF Hlen. unfold py_uuid, uuid_den. rewrite (uuid_hex_of_hh s HF), Hlen. cbn [Nat.eqb negb].
  pose proof (no_hyphen_all_hex s HF) as Hh.
  rewrite int16_hex by (auto; lia).
  pose proof (val_hex_bound _ Hh 0 ltac:(lia)) as B. rewrite Hlen in B.
  change (16 ^ Z.of_nat 32) with (2 ^ 128) in B.
  replace ((0 <=? val_hex 0 (no_hyphen s)) && (val_hex 0 (no_hyphen s) <? 2 ^ 128)) with true by lia.
  reflexivity.
Qed.

(** ---- the canonical text ---- *)
Definition canon (h : text) : text :=
  firstn 8 h ++ [45] ++ firstn 4 (skipn 8 h) ++ [45] ++ firstn 4 (skipn 12 h) ++ [45]
  ++ firstn 4 (skipn 16 h) ++ [45] ++ skipn 20 h.

Lemma skipn_skipn_add {A} (b : nat) : forall a (l : list A), skipn a (skipn b l) = skipn (b + a) l.
Proof.
  induction b as [|b IH]; intros a l; [reflexivity|]. destruct l as [|x l]; [destruct a; reflexivity|].
  cbn [skipn Nat.add]. apply IH.
Qed.

Lemma canon_parts (h : text) :
  h = firstn 8 h ++ firstn 4 (skipn 8 h) ++ firstn 4 (skipn 12 h) ++ firstn 4 (skipn 16 h) ++ skipn 20 h.
Proof.
  rewrite <- (firstn_skipn 8 h) at 1. f_equal.
  rewrite <- (firstn_skipn 4 (skipn 8 h)) at 1. f_equal. rewrite skipn_skipn_add. cbn [Nat.add].
  rewrite <- (firstn_skipn 4 (skipn 12 h)) at 1. f_equal. rewrite skipn_skipn_add. cbn [Nat.add].
  rewrite <- (firstn_skipn 4 (skipn 16 h)) at 1. f_equal. rewrite skipn_skipn_add. reflexivity.
Qed.

Lemma all_hex_firstn n l : all_hex l -> all_hex (firstn n l).
Proof. intros H. rewrite <- (firstn_skipn n l) in H. apply Forall_app in H. apply H. Qed.
Lemma all_hex_skipn n l : all_hex l -> all_hex (skipn n l).
Proof. intros H. rewrite <- (firstn_skipn n l) in H. apply Forall_app in H. apply H. Qed.
Lemma all_hex_hh l : all_hex l -> all_hh l.
Proof. apply Forall_impl. intros c H. unfold hh. rewrite H. reflexivity. Qed.

Lemma canon_hh h : all_hex h -> all_hh (canon h).
Proof.
  intros H. unfold canon.
  repeat (apply Forall_app; split); try (constructor; [reflexivity|constructor]);
    apply all_hex_hh; repeat (first [apply all_hex_firstn | apply all_hex_skipn]); exact H.
Qed.

Lemma canon_no_hyphen h : all_hex h -> no_hyphen (canon h) = h.
Proof.
  intros H. unfold canon. rewrite !no_hyphen_app.
  rewrite (no_hyphen_hex (firstn 8 h)) by (apply all_hex_firstn, H).
  rewrite (no_hyphen_hex (firstn 4 (skipn 8 h))) by (apply all_hex_firstn, all_hex_skipn, H).
  rewrite (no_hyphen_hex (firstn 4 (skipn 12 h))) by (apply all_hex_firstn, all_hex_skipn, H).
  rewrite (no_hyphen_hex (firstn 4 (skipn 16 h))) by (apply all_hex_firstn, all_hex_skipn, H).
  rewrite (no_hyphen_hex (skipn 20 h)) by (apply all_hex_skipn, H).
  cbn [no_hyphen filter Z.eqb Pos.eqb negb app]. symmetry. apply canon_parts.
Qed.

Theorem uuid_roundtrip u : 0 <= u < 2 ^ 128 -> uuid_from_unicode (uuid_to_unicode u) = Ok u.
Proof.
  intros Hu. unfold uuid_from_unicode. change (uuid_to_unicode u) with (canon (hexpad 32 u)).
  assert (Hh : all_hex (hexpad 32 u)).
  { eapply Forall_impl; [|apply hexpad_lhex]. intros c. apply lhex_hex. }
  rewrite py_uuid_hh; [|apply canon_hh, Hh|rewrite canon_no_hyphen by exact Hh; apply hexpad_length].
  unfold uuid_den. rewrite canon_no_hyphen by exact Hh.
  rewrite hexpad_val by (change (16 ^ Z.of_nat 32) with (2 ^ 128); exact Hu). f_equal.
Qed.

Theorem uuid_reader_total s : is_crash (uuid_from_unicode s) = false.
Proof. unfold uuid_from_unicode. destruct (py_uuid s); reflexivity. Qed.

Theorem uuid_reader_range s u : uuid_from_unicode s = Ok u -> 0 <= u < 2 ^ 128.
Proof.
  unfold uuid_from_unicode, py_uuid. destruct (negb _); [discriminate|].
  destruct (int16_of_text _) as [v|]; [|discriminate].
  destruct ((0 <=? v) && (v <? 2 ^ 128)) eqn:E; [|discriminate]. intros H; inversion H; subst. lia.
Qed.
