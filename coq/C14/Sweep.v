(** C14 — deciding the trace property for ALL failure positions by exploring the paths of the
    generated program: a nondeterministic executor ([execL]) branches, at every library step
    and at every method_call / method_return_object firing it actually reaches, over every
    outcome the property's alphabet allows; the judgement is evaluated on every path.
    Definitions only (that the exploration is true, and that every real run is one of the
    explored paths, is in Proofs.v). *)
From SpyneV Require Export C14.Spec C14.Drivers.

(** a fire function that calls no listener and raises as tabulated (used in examples) *)
Definition tabfire (a b c d : option exk) : target -> ev -> bool -> list lid * option exk :=
  fun t e dd =>
    ([], match t, e, dd with
         | TCtx, Ecall, true => a | TCtx, Ecall, false => b
         | TCtx, Eret_obj, true => c | TCtx, Eret_obj, false => d
         | _, _, _ => None
         end).

Definition is_wsgi (d : driver) : bool := match d with DWsgi => true | DServerBase => false end.

(** the verdict on one run *)
Definition verdict_fn (drv : driver) (fn : option exk) (out : list fitem * result * bool) : bool :=
  let '(t, res, unmod) := out in
  match res with
  | RDone fault =>
      negb unmod && spec_ok (is_noneb fn) fault (mtoks t) && frame_ok t
      && (if is_wsgi drv then wsgi_ok fault t else true)
  | REscaped _ => false
  end.
Definition verdict (drv : driver) (sc : scen) (out : list fitem * result * bool) : bool :=
  verdict_fn drv (sc_fn sc) out.

Definition all_parse : list (option exk) := [None; Some KFault].
Definition all_raise : list (option exk) := [None; Some KFault; Some KOther].
Definition all_oexk : list (option exk) := [None; Some KFault; Some KRedirect; Some KOther].
Definition all_bool : list bool := [true; false].
Definition all_drv : list driver := [DWsgi; DServerBase].

(* ------------------------------------------------------------------ path exploration *)
Definition sig_of (r : option exk) : signal := match r with Some k => Exc k | None => Normal end.
Definition outcome := (list fitem * st * signal)%type.

Section Paths.
  (** fixed per exploration: what the user function and the serialiser do (the judgement
      mentions them) and the protocol-dependent facts; explored: everything else *)
  Variables fn se : option exk.
  Variable fl : flag -> bool.

  Definition ans_inj (g : stage) : list (option exk) :=
    match g with
    | StRecon | StCreateInDoc | StDecompose | StDispatch | StDeserialize => all_parse
    | StUserFn => [fn]
    | StSerialize => [se]
    | StDoRedirect => all_oexk
    end.
  Definition ans_fire (e : ev) : list (option exk) :=
    if ev_eqb e Ecall || ev_eqb e Eret_obj then all_raise else [None].

  Definition evalL (c : cond) (s : st) : bool :=
    match c with
    | CIsNone v => is_none (getv s v)
    | CNotNone v => negb (is_none (getv s v))
    | CFlag f => fl f
    | CNotFlag f => negb (fl f)
    end.

  Definition fireL (t : target) (e : ev) (s : st) : list outcome :=
    map (fun r => ([FFire t e (negb (is_none (s_desc s))) [] r], s, sig_of r)) (ans_fire e).

  (** sequencing in the list monad: continue after a normal outcome, stop otherwise *)
  Definition thenL (xs : list outcome) (k : st -> list outcome) : list outcome :=
    flat_map (fun x => let '(t1, s1, g1) := x in
                       match g1 with
                       | Normal => map (fun y => let '(t2, s2, g2) := y in (t1 ++ t2, s2, g2)) (k s1)
                       | _ => [x]
                       end) xs.
  Definition catchL (xs : list outcome) (h : st -> exk -> list outcome) : list outcome :=
    flat_map (fun x => let '(t1, s1, g1) := x in
                       match g1 with
                       | Exc k => map (fun y => let '(t2, s2, g2) := y in (t1 ++ t2, s2, g2)) (h s1 k)
                       | _ => [x]
                       end) xs.

  Fixpoint execL (p : stmt) (s : st) (cur : option exk) : list outcome :=
    match p with
    | Skip => [([], s, Normal)]
    | Seq a b => thenL (execL a s cur) (fun s1 => execL b s1 cur)
    | Fire e => fireL TCtx e s
    | FireOn t e => fireL t e s
    | Inject g => map (fun r => ([], s, sig_of r)) (ans_inj g)
    | Func => [([FFunc], s, Normal)]
    | SetNone v => [([], setv s v VNone, Normal)]
    | SetObj v => [([], setv s v VObj, Normal)]
    | SetExc v => match cur with
                  | Some k => [([], setv s v (VExc k), Normal)]
                  | None => [([], set_unmod s, Normal)]
                  end
    | SetNew v k => [([], setv s v (VExc k), Normal)]
    | If c a b => if evalL c s then execL a s cur else execL b s cur
    | Try b h => catchL (execL b s cur) (fun s1 k => execL h s1 (Some k))
    | IfExc c a b =>
        match cur with
        | Some k => if isinst k c then execL a s cur else execL b s cur
        | None => execL b s cur
        end
    | Reraise => [([], s, Exc (match cur with Some k => k | None => KOther end))]
    | RaiseVar v => [([], s, Exc (match getv s v with VExc k => k | _ => KOther end))]
    | RaiseNew k => [([], s, Exc k)]
    | Return => [([], s, Ret)]
    | Call b => map (fun x => let '(t, s', g) := x in (t, s', match g with Ret => Normal | y => y end))
                    (execL b s None)
    | Unmodelled => [([], set_unmod s, Normal)]
    end.

  Definition finish (x : outcome) : list fitem * result * bool :=
    let '(t, s, g) := x in
    (t, match g with Exc k => REscaped k | _ => RDone (negb (is_none (s_out_error s))) end, s_unmod s).
  Definition runL (driver : stmt) : list (list fitem * result * bool) :=
    map finish (execL driver st0 None).
End Paths.

Definition flags_fn (af dc : bool) (f : flag) : bool :=
  match f with FAfterSerOnFault => af | FDocEarly => dc | FOpaque => false end.

(** the ServerBase call sequence with an unserialisable return value: either the serialiser
    is not reached with a return value (an earlier fault; the trace is as specified), or the
    exception escapes get_out_string after method_return_object, and neither
    method_exception_object nor method_context_closed is ever fired *)
Definition escape_shape (k : exk) (out : list fitem * result * bool) : bool :=
  let '(t, res, unmod) := out in
  negb unmod && result_eqb res (REscaped k)
  && fired Eret_obj (mtoks t) && negb (fired Eexc_obj (mtoks t)) && negb (fired Eclosed (mtoks t))
  && (count_func (mtoks t) =? 1).

(** every path of both drivers, for every behaviour of the user function, every behaviour of
    the serialiser the driver allows, and all four combinations of the protocol facts *)
Definition sweep_paths : bool :=
  forallb (fun drv => forallb (fun fn => forallb (fun se => forallb (fun af => forallb (fun dc =>
    if is_wsgi drv || is_noneb se
    then forallb (verdict_fn drv fn) (runL fn se (flags_fn af dc) (driver_prog drv))
    else true)
  all_bool) all_bool) all_raise) all_raise) all_drv.

Definition sweep_paths_sb : bool :=
  forallb (fun fn => forallb (fun k => forallb (fun af => forallb (fun dc =>
    forallb (fun out => verdict_fn DServerBase fn out || escape_shape k out)
            (runL fn (Some k) (flags_fn af dc) (driver_prog DServerBase)))
  all_bool) all_bool) [KFault; KOther]) all_raise.
