(** C14 — the finite sweep: every admissible injection, every outcome of the method_call and
    method_return_object firings, both drivers, decided by computation.  Definitions only
    (the proof that the sweep is true, and that it covers everything, is in Proofs.v). *)
From SpyneV Require Export C14.Spec C14.Drivers.

(** a fire function that calls no listener and raises as tabulated *)
Definition tabfire (a b c d : option exk) : target -> ev -> bool -> list lid * option exk :=
  fun t e dd =>
    ([], match t, e, dd with
         | TCtx, Ecall, true => a | TCtx, Ecall, false => b
         | TCtx, Eret_obj, true => c | TCtx, Eret_obj, false => d
         | _, _, _ => None
         end).

Definition is_wsgi (d : driver) : bool := match d with DWsgi => true | DServerBase => false end.

(** the verdict on one run *)
Definition verdict (drv : driver) (sc : scen) (out : list fitem * result * bool) : bool :=
  let '(t, res, unmod) := out in
  match res with
  | RDone fault =>
      negb unmod && spec_ok (is_noneb (sc_fn sc)) fault (mtoks t) && frame_ok t
      && (if is_wsgi drv then wsgi_ok fault t else true)
  | REscaped _ => false
  end.

Definition check_one (drv : driver) (sc : scen) (a b c d : option exk) : bool :=
  if scen_adm (is_wsgi drv) sc then verdict drv sc (run (tabfire a b c d) sc (driver_prog drv)) else true.

Definition all_parse : list (option exk) := [None; Some KFault].
Definition all_raise : list (option exk) := [None; Some KFault; Some KOther].
Definition all_oexk : list (option exk) := [None; Some KFault; Some KRedirect; Some KOther].
Definition all_bool : list bool := [true; false].
Definition all_drv : list driver := [DWsgi; DServerBase].

Definition oexk := option exk.
Definition sweepF (F : driver -> oexk -> oexk -> oexk -> oexk -> oexk -> oexk -> oexk -> oexk -> bool -> bool ->
                       oexk -> oexk -> oexk -> oexk -> bool) : bool :=
  forallb (fun drv =>
  forallb (fun rc => forallb (fun cr => forallb (fun de => forallb (fun di => forallb (fun ds =>
  forallb (fun fn => forallb (fun se => forallb (fun rd =>
  forallb (fun af => forallb (fun dc =>
  forallb (fun a => forallb (fun b => forallb (fun c => forallb (fun d =>
    F drv rc cr de di ds fn se rd af dc a b c d)
  all_raise) all_raise) all_raise) all_raise)
  all_bool) all_bool)
  all_oexk) all_raise) all_raise)
  all_parse) all_parse) all_parse) all_parse) all_parse)
  all_drv.

Definition chk (drv : driver) (rc cr de di ds fn se rd : oexk) (af dc : bool) (a b c d : oexk) : bool :=
  check_one drv {| sc_recon := rc; sc_create := cr; sc_decomp := de; sc_dispatch := di; sc_deser := ds;
                   sc_fn := fn; sc_ser := se; sc_redirect := rd;
                   sc_after_on_fault := af; sc_doc_early := dc; sc_opaque := false |} a b c d.

Definition sweep : bool := sweepF chk.

(** the ServerBase call sequence with an unserialisable return value: either the serialiser
    is not reached with a return value (an earlier fault; the trace is as specified), or the
    exception escapes get_out_string after method_return_object, and neither
    method_exception_object nor method_context_closed is ever fired *)
Definition escape_shape (k : exk) (out : list fitem * result * bool) : bool :=
  let '(t, res, unmod) := out in
  negb unmod && result_eqb res (REscaped k)
  && fired Eret_obj (mtoks t) && negb (fired Eexc_obj (mtoks t)) && negb (fired Eclosed (mtoks t))
  && (count_func (mtoks t) =? 1).
Definition check_sb (sc : scen) (a b c d : option exk) : bool :=
  if scen_adm true sc then
    match sc_ser sc with
    | Some k => let out := run (tabfire a b c d) sc (driver_prog DServerBase) in
                verdict DServerBase sc out || escape_shape k out
    | None => true
    end
  else true.
Definition chk_sb (drv : driver) (rc cr de di ds fn se rd : oexk) (af dc : bool) (a b c d : oexk) : bool :=
  match drv with
  | DWsgi => true
  | DServerBase =>
      check_sb {| sc_recon := rc; sc_create := cr; sc_decomp := de; sc_dispatch := di; sc_deser := ds;
                  sc_fn := fn; sc_ser := se; sc_redirect := rd;
                  sc_after_on_fault := af; sc_doc_early := dc; sc_opaque := false |} a b c d
  end.
