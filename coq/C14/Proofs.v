(** C14 — the trace theorem.  Every run of the interpreter, for every fire function in the
    property's alphabet and every admissible scenario, is — up to which listeners were called —
    one of the paths the exploration of Sweep.v enumerates ([exec_in]); the judgement does not
    look at which listeners were called ([verdict_strip]); the exploration of the GENERATED
    pipeline is decided by computation ([sweep_paths_true]). *)
From Coq Require Import ZArith List Bool Lia.
From SpyneV Require Import C14.Model C14.Spec C14.Drivers C14.Sweep C14.OSetProofs.
Import ListNotations.
Open Scope Z_scope.

Definition strip (i : fitem) : fitem :=
  match i with FFire t e d _ r => FFire t e d [] r | FFunc => FFunc end.

Lemma mtoks_strip : forall t, mtoks (map strip t) = mtoks t.
Proof.
  induction t as [|i r IH]; simpl; [reflexivity|]. unfold mtoks in *; simpl. rewrite IH.
  destruct i as [t e d cs x|]; [destruct t|]; reflexivity.
Qed.
Lemma ftoks_strip : forall t, map ftok_of (map strip t) = map ftok_of t.
Proof. intro t; rewrite map_map; apply map_ext; intros [? ? ? ? ?|]; reflexivity. Qed.

Lemma forallb_map' : forall {A B} (f : A -> B) (p : B -> bool) l, forallb p (map f l) = forallb (fun x => p (f x)) l.
Proof. induction l as [|x r IH]; simpl; [reflexivity | rewrite IH; reflexivity]. Qed.
Lemma forallb_ext' : forall {A} (p q : A -> bool) l, (forall x, p x = q x) -> forallb p l = forallb q l.
Proof. intros A p q l H; induction l as [|x r IH]; simpl; [reflexivity | rewrite H, IH; reflexivity]. Qed.
Lemma is_method_item_strip : forall i, is_method_item (strip i) = is_method_item i.
Proof. intros [t e d cs x|]; [destruct t|]; reflexivity. Qed.
Lemma is_ev_item_strip : forall e i, is_ev_item e (strip i) = is_ev_item e i.
Proof. intros e [t e' d cs x|]; [destruct t|]; reflexivity. Qed.
Lemma drop_nonmethod_strip : forall l, drop_nonmethod (map strip l) = map strip (drop_nonmethod l).
Proof.
  induction l as [|i r IH]; simpl; [reflexivity|].
  rewrite is_method_item_strip. destruct (is_method_item i); [reflexivity | exact IH].
Qed.
Lemma frame_ok_strip : forall t, frame_ok (map strip t) = frame_ok t.
Proof.
  intros [|i r]; [reflexivity|]. simpl.
  destruct i as [t e d cs x|]; [|reflexivity]. simpl.
  destruct t; try reflexivity. destruct e; try reflexivity. destruct d; try reflexivity.
  destruct x; try reflexivity.
  rewrite <- map_rev, drop_nonmethod_strip.
  destruct (drop_nonmethod (rev r)) as [|j m]; [reflexivity|]. simpl.
  destruct j as [t' e' d' cs' x'|]; [|reflexivity]. simpl.
  destruct t'; try reflexivity. destruct e'; try reflexivity. destruct x'; try reflexivity.
  rewrite forallb_map'. apply forallb_ext'. intro i. rewrite !is_ev_item_strip. reflexivity.
Qed.

(** judgements that do not look at which listeners were called *)
Definition strip_invariant (J : list fitem * result * bool -> bool) : Prop :=
  forall t1 t2 res u, map strip t1 = map strip t2 -> J (t1, res, u) = J (t2, res, u).

Lemma verdict_fn_strip : forall drv fn, strip_invariant (verdict_fn drv fn).
Proof.
  intros drv fn t1 t2 res u H. unfold verdict_fn, wsgi_ok.
  rewrite <- (mtoks_strip t1), <- (mtoks_strip t2), <- (ftoks_strip t1), <- (ftoks_strip t2),
          <- (frame_ok_strip t1), <- (frame_ok_strip t2), H.
  reflexivity.
Qed.
Lemma escape_shape_strip : forall k, strip_invariant (escape_shape k).
Proof.
  intros k t1 t2 res u H. unfold escape_shape.
  rewrite <- (mtoks_strip t1), <- (mtoks_strip t2), H. reflexivity.
Qed.

Lemma quiet_raise : forall fire, quiet fire -> forall t e d, In (snd (fire t e d)) all_raise.
Proof.
  intros fire Hq t e d. specialize (Hq t e d). destruct (snd (fire t e d)) as [k|]; simpl; auto.
  destruct (Hq k eq_refl) as (_ & [->| ->]); auto.
Qed.
Lemma parse_adm_in : forall x, parse_adm x = true -> In x all_parse.
Proof. intros [[]|]; simpl; intro; auto; discriminate. Qed.
Lemma raise_adm_in : forall x, raise_adm x = true -> In x all_raise.
Proof. intros [[]|]; simpl; intro; auto; discriminate. Qed.
Lemma all_oexk_in : forall x, In x all_oexk.
Proof. intros [[]|]; simpl; auto. Qed.
Lemma all_bool_in : forall x, In x all_bool.
Proof. intros []; simpl; auto. Qed.
Lemma all_drv_in : forall x, In x all_drv.
Proof. intros []; simpl; auto. Qed.

(* ------------------------------------------------------------------ every run is an explored path *)
Definition strip3 (x : list fitem * st * signal) : outcome := let '(t, s, g) := x in (map strip t, s, g).
Definition strip_run (x : list fitem * result * bool) := let '(t, r, u) := x in (map strip t, r, u).

Definition parse_ok (sc : scen) : Prop :=
  parse_adm (sc_recon sc) = true /\ parse_adm (sc_create sc) = true /\ parse_adm (sc_decomp sc) = true
  /\ parse_adm (sc_dispatch sc) = true /\ parse_adm (sc_deser sc) = true.

Section Sound.
  Variable fire : target -> ev -> bool -> list lid * option exk.
  Variable sc : scen.
  Hypothesis Hq : quiet fire.
  Hypothesis Hp : parse_ok sc.

  Lemma inj_in : forall g, In (sc_inj sc g) (ans_inj (sc_fn sc) (sc_ser sc) g).
  Proof.
    destruct Hp as (H0 & H1 & H2 & H3 & H4).
    intros []; cbn [sc_inj ans_inj]; try (apply parse_adm_in; assumption);
      try (left; reflexivity); apply all_oexk_in.
  Qed.
  Lemma fire_in : forall t e d, In (snd (fire t e d)) (ans_fire e).
  Proof.
    intros t e d. unfold ans_fire. destruct (ev_eqb e Ecall || ev_eqb e Eret_obj) eqn:E.
    - apply quiet_raise; assumption.
    - destruct (snd (fire t e d)) as [k|] eqn:F; [|simpl; auto].
      destruct (Hq t e d k F) as ([->| ->] & _); simpl in E; discriminate.
  Qed.
  Lemma eval_evalL : forall c s, eval sc c s = evalL (sc_flag sc) c s.
  Proof. intros [] s; reflexivity. Qed.

  Notation EL := (execL (sc_fn sc) (sc_ser sc) (sc_flag sc)).

  Lemma do_fire_in : forall t e s, In (strip3 (do_fire fire t e s)) (fireL t e s).
  Proof.
    intros t e s. unfold do_fire, fireL.
    pose proof (fire_in t e (negb (is_none (s_desc s)))) as I.
    destruct (fire t e (negb (is_none (s_desc s)))) as [c r]; simpl in *.
    apply in_map_iff. exists r; split; [destruct r; reflexivity | assumption].
  Qed.

  Lemma exec_in : forall p s cur, In (strip3 (exec fire sc p s cur)) (EL p s cur).
  Proof.
    induction p; intros s cur; simpl; try (left; reflexivity).
    - (* Seq *)
      specialize (IHp1 s cur). destruct (exec fire sc p1 s cur) as [[t1 s1] g1]. simpl in IHp1.
      unfold thenL. apply in_flat_map. exists (map strip t1, s1, g1). split; [assumption|].
      destruct g1; simpl; auto.
      specialize (IHp2 s1 cur). destruct (exec fire sc p2 s1 cur) as [[t2 s2] g2]. simpl in *.
      apply in_map_iff. exists (map strip t2, s2, g2). split; [rewrite map_app; reflexivity | assumption].
    - apply do_fire_in.
    - apply do_fire_in.
    - (* Inject *)
      apply in_map_iff. exists (sc_inj sc g). split; [destruct (sc_inj sc g); reflexivity | apply inj_in].
    - (* SetExc *) destruct cur; simpl; auto.
    - (* If *) rewrite eval_evalL. destruct (evalL (sc_flag sc) c s); auto.
    - (* Try *)
      specialize (IHp1 s cur). destruct (exec fire sc p1 s cur) as [[t1 s1] g1]. simpl in IHp1.
      unfold catchL. apply in_flat_map. exists (map strip t1, s1, g1). split; [assumption|].
      destruct g1; simpl; auto.
      specialize (IHp2 s1 (Some k)). destruct (exec fire sc p2 s1 (Some k)) as [[t2 s2] g2]. simpl in *.
      apply in_map_iff. exists (map strip t2, s2, g2). split; [rewrite map_app; reflexivity | assumption].
    - (* IfExc *) destruct cur as [k|]; [destruct (isinst k c)|]; auto.
    - (* Call *)
      specialize (IHp s None). destruct (exec fire sc p s None) as [[t1 s1] g1]. simpl in *.
      apply in_map_iff. exists (map strip t1, s1, g1). split; [reflexivity | assumption].
  Qed.

  Lemma run_in : forall p, In (strip_run (run fire sc p)) (runL (sc_fn sc) (sc_ser sc) (sc_flag sc) p).
  Proof.
    intro p. unfold run, runL. pose proof (exec_in p st0 None) as I.
    destruct (exec fire sc p st0 None) as [[t s] g]. simpl in I.
    apply in_map_iff. exists (map strip t, s, g). split; [reflexivity | assumption].
  Qed.
End Sound.

Lemma strip_run_strip : forall J x, strip_invariant J -> J x = J (strip_run x).
Proof.
  intros J [[t r] u] HJ. simpl. apply HJ. rewrite map_map. apply map_ext_in.
  intros [? ? ? ? ?|] _; reflexivity.
Qed.

Lemma sweep_paths_true : sweep_paths = true.
Proof. vm_compute. reflexivity. Qed.
Lemma sweep_paths_sb_true : sweep_paths_sb = true.
Proof. vm_compute. reflexivity. Qed.

Lemma scen_adm_parts : forall w sc, scen_adm w sc = true ->
  parse_ok sc /\ In (sc_fn sc) all_raise /\ In (sc_ser sc) all_raise
  /\ (w || is_noneb (sc_ser sc)) = true /\ sc_opaque sc = false.
Proof.
  intros w sc H. unfold scen_adm in H. repeat rewrite andb_true_iff in H.
  destruct H as ((((((((H0 & H1) & H2) & H3) & H4) & H5) & H6) & H7) & H8).
  apply negb_true_iff in H8. unfold parse_ok. auto 12 using raise_adm_in.
Qed.

(** TRACE THEOREM: for both drivers, every admissible scenario and every fire function in
    which only method_call / method_return_object listeners raise, the call returns (nothing
    escapes), no unmodelled code is reached, and the trace satisfies the specification *)
Theorem trace_ok_fire : forall drv sc fire,
  scen_adm (is_wsgi drv) sc = true -> quiet fire ->
  verdict drv sc (run fire sc (driver_prog drv)) = true.
Proof.
  intros drv sc fire Hadm Hq.
  destruct (scen_adm_parts _ _ Hadm) as (Hp & Ifn & Ise & Hw & Hop).
  pose proof (run_in fire sc Hq Hp (driver_prog drv)) as I.
  unfold verdict. rewrite (strip_run_strip _ _ (verdict_fn_strip drv (sc_fn sc))).
  pose proof sweep_paths_true as S. unfold sweep_paths in S.
  rewrite forallb_forall in S; specialize (S _ (all_drv_in drv)).
  rewrite forallb_forall in S; specialize (S _ Ifn).
  rewrite forallb_forall in S; specialize (S _ Ise).
  rewrite forallb_forall in S; specialize (S _ (all_bool_in (sc_after_on_fault sc))).
  rewrite forallb_forall in S; specialize (S _ (all_bool_in (sc_doc_early sc))).
  rewrite Hw in S. rewrite forallb_forall in S. apply S.
  clear S. destruct sc as [rc cr de di ds fn se rd af dc op].
  cbn [sc_opaque sc_fn sc_ser sc_after_on_fault sc_doc_early] in *. subst op.
  change (sc_flag {| sc_recon := rc; sc_create := cr; sc_decomp := de; sc_dispatch := di; sc_deser := ds;
                     sc_fn := fn; sc_ser := se; sc_redirect := rd; sc_after_on_fault := af;
                     sc_doc_early := dc; sc_opaque := false |}) with (flags_fn af dc) in I.
  exact I.
Qed.

(* ------------------------------------------------------------------ from listener behaviours *)
Lemma call_all_raises : forall b e hs cs k, call_all b e hs = (cs, Some k) -> exists h, In h hs /\ b h e = Some k.
Proof.
  induction hs as [|h r IH]; intros cs k H; simpl in H; [discriminate|].
  destruct (b h e) as [k'|] eqn:E.
  - inversion H; subst. exists h; simpl; auto.
  - destruct (call_all b e r) as [t x] eqn:F. inversion H; subst.
    destruct (IH _ _ eq_refl) as (h' & Hin & Hb). exists h'; simpl; auto.
Qed.
Lemma fire_mgrs_raises : forall b e ms cs k, fire_mgrs b ms e = (cs, Some k) -> exists h, b h e = Some k.
Proof.
  intros b e ms cs k H. rewrite fire_mgrs_concat in H.
  destruct (call_all_raises _ _ _ _ _ H) as (h & _ & Hb). eauto.
Qed.
Lemma fire_world_raises : forall parts w dms b t e d k,
  snd (fire_world parts w dms b t e d) = Some k -> exists h, b h e = Some k.
Proof.
  intros parts w dms b t e d k H.
  destruct t; simpl in H.
  - destruct (fire_mgrs b _ e) as [cs x] eqn:F; simpl in H; subst. eapply fire_mgrs_raises; eauto.
  - unfold em_fire in H. destruct (call_all b e _) as [cs x] eqn:F; simpl in H; subst.
    destruct (call_all_raises _ _ _ _ _ F) as (h & _ & Hb); eauto.
  - unfold em_fire in H. destruct (call_all b e _) as [cs x] eqn:F; simpl in H; subst.
    destruct (call_all_raises _ _ _ _ _ F) as (h & _ & Hb); eauto.
  - unfold em_fire in H. destruct (call_all b e _) as [cs x] eqn:F; simpl in H; subst.
    destruct (call_all_raises _ _ _ _ _ F) as (h & _ & Hb); eauto.
  - unfold em_fire in H. destruct (call_all b e _) as [cs x] eqn:F; simpl in H; subst.
    destruct (call_all_raises _ _ _ _ _ F) as (h & _ & Hb); eauto.
Qed.
Lemma quiet_world : forall parts w dms b, quiet_beh b -> quiet (fire_world parts w dms b).
Proof.
  intros parts w dms b Hb t e d k H. destruct (fire_world_raises _ _ _ _ _ _ _ _ H) as (h & Hh).
  exact (Hb _ _ _ Hh).
Qed.

(** the same for every set of managers, however they were filled, every method descriptor
    and every behaviour of the listeners in the property's alphabet *)
Theorem trace_ok : forall drv sc parts w dms b,
  scen_adm (is_wsgi drv) sc = true -> quiet_beh b ->
  verdict drv sc (run (fire_world parts w dms b) sc (driver_prog drv)) = true.
Proof. intros; apply trace_ok_fire; [assumption | apply quiet_world; assumption]. Qed.

(* ------------------------------------------------------------------ ServerBase, unserialisable return value *)
Theorem sb_unserialisable_fire : forall sc fire k,
  scen_adm true sc = true -> quiet fire -> sc_ser sc = Some k ->
  verdict DServerBase sc (run fire sc (driver_prog DServerBase)) = true
  \/ escape_shape k (run fire sc (driver_prog DServerBase)) = true.
Proof.
  intros sc fire k Hadm Hq Hk.
  destruct (scen_adm_parts _ _ Hadm) as (Hp & Ifn & Ise & _ & Hop).
  pose proof (run_in fire sc Hq Hp (driver_prog DServerBase)) as I.
  unfold verdict. rewrite (strip_run_strip _ _ (verdict_fn_strip DServerBase (sc_fn sc))).
  rewrite (strip_run_strip _ _ (escape_shape_strip k)).
  apply orb_true_iff.
  assert (Ik : In k [KFault; KOther]).
  { rewrite Hk in Ise. destruct Ise as [E|[E|[E|[]]]]; inversion E; [left | right; left]; reflexivity. }
  pose proof sweep_paths_sb_true as S. unfold sweep_paths_sb in S.
  rewrite forallb_forall in S; specialize (S _ Ifn).
  rewrite forallb_forall in S; specialize (S _ Ik).
  rewrite forallb_forall in S; specialize (S _ (all_bool_in (sc_after_on_fault sc))).
  rewrite forallb_forall in S; specialize (S _ (all_bool_in (sc_doc_early sc))).
  rewrite forallb_forall in S. apply S.
  clear S. destruct sc as [rc cr de di ds fn se rd af dc op].
  cbn [sc_opaque sc_fn sc_ser sc_after_on_fault sc_doc_early] in *. subst op se.
  change (sc_flag {| sc_recon := rc; sc_create := cr; sc_decomp := de; sc_dispatch := di; sc_deser := ds;
                     sc_fn := fn; sc_ser := Some k; sc_redirect := rd; sc_after_on_fault := af;
                     sc_doc_early := dc; sc_opaque := false |}) with (flags_fn af dc) in I.
  exact I.
Qed.

Theorem sb_unserialisable : forall sc parts w dms b k,
  scen_adm true sc = true -> quiet_beh b -> sc_ser sc = Some k ->
  let out := run (fire_world parts w dms b) sc (driver_prog DServerBase) in
  verdict DServerBase sc out = true \/ escape_shape k out = true.
Proof. intros; apply sb_unserialisable_fire; auto using quiet_world. Qed.

(** the full statement for ServerBase (serialisation failures included) is false *)
Definition sc_nul : scen :=
  {| sc_recon := None; sc_create := None; sc_decomp := None; sc_dispatch := None; sc_deser := None; sc_fn := None;
     sc_ser := Some KOther; sc_redirect := None; sc_after_on_fault := true; sc_doc_early := false;
     sc_opaque := false |}.
(** two fire functions that raise alike give the same run up to which listeners were called *)
Section Strip.
  Variables f g : target -> ev -> bool -> list lid * option exk.
  Variable sc : scen.
  Hypothesis same : forall t e d, snd (f t e d) = snd (g t e d).

  Lemma do_fire_strip : forall t e s, strip3 (do_fire f t e s) = strip3 (do_fire g t e s).
  Proof.
    intros t e s; unfold do_fire. specialize (same t e (negb (is_none (s_desc s)))).
    destruct (f t e _) as [c1 r1], (g t e _) as [c2 r2]; simpl in *; subst; reflexivity.
  Qed.
  Lemma exec_strip : forall p s cur, strip3 (exec f sc p s cur) = strip3 (exec g sc p s cur).
  Proof.
    induction p; intros s cur; simpl; try reflexivity.
    - specialize (IHp1 s cur).
      destruct (exec f sc p1 s cur) as [[t1 s1] g1], (exec g sc p1 s cur) as [[t2 s2] g2].
      simpl in IHp1. inversion IHp1; subst. destruct g2; try (simpl; congruence).
      specialize (IHp2 s2 cur).
      destruct (exec f sc p2 s2 cur) as [[t1' s1'] g1'], (exec g sc p2 s2 cur) as [[t2' s2'] g2'].
      simpl in *. inversion IHp2; subst. rewrite !map_app. congruence.
    - apply do_fire_strip.
    - apply do_fire_strip.
    - destruct (eval sc c s); auto.
    - specialize (IHp1 s cur).
      destruct (exec f sc p1 s cur) as [[t1 s1] g1], (exec g sc p1 s cur) as [[t2 s2] g2].
      simpl in IHp1. inversion IHp1; subst. destruct g2; try (simpl; congruence).
      specialize (IHp2 s2 (Some k)).
      destruct (exec f sc p2 s2 (Some k)) as [[t1' s1'] g1'], (exec g sc p2 s2 (Some k)) as [[t2' s2'] g2'].
      simpl in *. inversion IHp2; subst. rewrite !map_app. congruence.
    - destruct cur as [k|]; [destruct (isinst k c)|]; auto.
    - specialize (IHp s None).
      destruct (exec f sc p s None) as [[t1 s1] g1], (exec g sc p s None) as [[t2 s2] g2].
      simpl in *. inversion IHp; subst. reflexivity.
  Qed.
  Lemma run_strip : forall p, strip_run (run f sc p) = strip_run (run g sc p).
  Proof.
    intro p. unfold run. pose proof (exec_strip p st0 None) as E.
    destruct (exec f sc p st0 None) as [[t1 s1] g1], (exec g sc p st0 None) as [[t2 s2] g2].
    simpl in *. inversion E; subst. reflexivity.
  Qed.
End Strip.

Theorem sb_unserialisable_refuted :
  exists sc b, scen_adm true sc = true /\ quiet_beh b /\
    forall parts w dms, verdict DServerBase sc (run (fire_world parts w dms b) sc (driver_prog DServerBase)) = false.
Proof.
  exists sc_nul, (fun _ _ => None). split; [reflexivity|]. split; [intros h e k H; discriminate|].
  intros parts w dms.
  assert (N : forall t e d, snd (fire_world parts w dms (fun _ _ => None) t e d)
                            = snd (tabfire None None None None t e d)).
  { intros t e d. transitivity (@None exk); [|destruct t, e, d; reflexivity].
    destruct (snd (fire_world parts w dms (fun _ _ => None) t e d)) eqn:E; [|reflexivity].
    destruct (fire_world_raises _ _ _ _ _ _ _ _ E) as (h & Hh). discriminate. }
  unfold verdict. rewrite (strip_run_strip _ _ (verdict_fn_strip DServerBase (sc_fn sc_nul))).
  rewrite (run_strip _ _ sc_nul N (driver_prog DServerBase)).
  vm_compute. reflexivity.
Qed.
