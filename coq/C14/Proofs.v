(** C14 — the trace theorem.  The interpreter's control flow depends on a fire function only
    through which firings raise ([exec_strip]); under the property's injection alphabet a fire
    function is, at the firing sites of the program, one of 81 tables ([quiet_table]); the sweep over all tables, all admissible
    scenarios and both drivers is decided by computation on the GENERATED pipeline. *)
From Coq Require Import ZArith List Bool Lia.
From SpyneV Require Import C14.Model C14.Spec C14.Drivers C14.Sweep C14.OSetProofs.
Import ListNotations.
Open Scope Z_scope.

Definition strip (i : fitem) : fitem :=
  match i with FFire t e d _ r => FFire t e d [] r | FFunc => FFunc end.

Definition sim (x y : list fitem * st * signal) : Prop :=
  map strip (fst (fst x)) = map strip (fst (fst y)) /\ snd (fst x) = snd (fst y) /\ snd x = snd y.

Section Strip.
  Variables f g : target -> ev -> bool -> list lid * option exk.
  Variable sc : scen.

  Lemma do_fire_sim : forall t e s, (forall d, snd (f t e d) = snd (g t e d)) ->
    sim (do_fire f t e s) (do_fire g t e s).
  Proof.
    intros t e s same; unfold do_fire, sim.
    specialize (same (negb (is_none (s_desc s)))).
    destruct (f t e _) as [c1 r1], (g t e _) as [c2 r2]; simpl in *; subst; auto.
  Qed.

  (** the two runs agree as soon as the fire functions raise alike at the sites of the program *)
  Lemma exec_strip : forall p,
    (forall t e d, In (t, e) (sites p) -> snd (f t e d) = snd (g t e d)) ->
    forall s cur, sim (exec f sc p s cur) (exec g sc p s cur).
  Proof.
    induction p; intros same s cur; simpl; try (unfold sim; simpl; auto; fail).
    - (* Seq *)
      assert (S1 : forall t e d, In (t, e) (sites p1) -> snd (f t e d) = snd (g t e d))
        by (intros; apply same; simpl; apply in_or_app; auto).
      assert (S2 : forall t e d, In (t, e) (sites p2) -> snd (f t e d) = snd (g t e d))
        by (intros; apply same; simpl; apply in_or_app; auto).
      specialize (IHp1 S1 s cur).
      destruct (exec f sc p1 s cur) as [[t1 s1] g1], (exec g sc p1 s cur) as [[t2 s2] g2].
      destruct IHp1 as (Ht & Hs & Hg); simpl in *; subst.
      destruct g2; try (unfold sim; simpl; auto; fail).
      specialize (IHp2 S2 s2 cur).
      destruct (exec f sc p2 s2 cur) as [[t1' s1'] g1'], (exec g sc p2 s2 cur) as [[t2' s2'] g2'].
      destruct IHp2 as (Ht' & Hs' & Hg'); simpl in *; subst.
      unfold sim; simpl; rewrite !map_app; repeat split; congruence.
    - apply do_fire_sim; intro d; apply same; simpl; auto.
    - apply do_fire_sim; intro d; apply same; simpl; auto.
    - (* If *)
      assert (S1 : forall t e d, In (t, e) (sites p1) -> snd (f t e d) = snd (g t e d))
        by (intros; apply same; simpl; apply in_or_app; auto).
      assert (S2 : forall t e d, In (t, e) (sites p2) -> snd (f t e d) = snd (g t e d))
        by (intros; apply same; simpl; apply in_or_app; auto).
      destruct (eval sc c s); auto.
    - (* Try *)
      assert (S1 : forall t e d, In (t, e) (sites p1) -> snd (f t e d) = snd (g t e d))
        by (intros; apply same; simpl; apply in_or_app; auto).
      assert (S2 : forall t e d, In (t, e) (sites p2) -> snd (f t e d) = snd (g t e d))
        by (intros; apply same; simpl; apply in_or_app; auto).
      specialize (IHp1 S1 s cur).
      destruct (exec f sc p1 s cur) as [[t1 s1] g1], (exec g sc p1 s cur) as [[t2 s2] g2].
      destruct IHp1 as (Ht & Hs & Hg); simpl in *; subst.
      destruct g2; try (unfold sim; simpl; auto; fail).
      specialize (IHp2 S2 s2 (Some k)).
      destruct (exec f sc p2 s2 (Some k)) as [[t1' s1'] g1'], (exec g sc p2 s2 (Some k)) as [[t2' s2'] g2'].
      destruct IHp2 as (Ht' & Hs' & Hg'); simpl in *; subst.
      unfold sim; simpl; rewrite !map_app; repeat split; congruence.
    - (* IfExc *)
      assert (S1 : forall t e d, In (t, e) (sites p1) -> snd (f t e d) = snd (g t e d))
        by (intros; apply same; simpl; apply in_or_app; auto).
      assert (S2 : forall t e d, In (t, e) (sites p2) -> snd (f t e d) = snd (g t e d))
        by (intros; apply same; simpl; apply in_or_app; auto).
      destruct cur as [k|]; [destruct (isinst k c)|]; auto.
    - (* Call *)
      specialize (IHp same s None).
      destruct (exec f sc p s None) as [[t1 s1] g1], (exec g sc p s None) as [[t2 s2] g2].
      destruct IHp as (Ht & Hs & Hg); simpl in *; subst. unfold sim; simpl; auto.
  Qed.
End Strip.

Lemma mtoks_strip : forall t, mtoks (map strip t) = mtoks t.
Proof.
  induction t as [|i r IH]; simpl; [reflexivity|]. unfold mtoks in *; simpl. rewrite IH.
  destruct i as [t e d cs x|]; [destruct t|]; reflexivity.
Qed.
Lemma ftoks_strip : forall t, map ftok_of (map strip t) = map ftok_of t.
Proof. intro t; rewrite map_map; apply map_ext; intros [? ? ? ? ?|]; reflexivity. Qed.

Lemma forallb_map' : forall {A B} (f : A -> B) (p : B -> bool) l, forallb p (map f l) = forallb (fun x => p (f x)) l.
Proof. induction l as [|x r IH]; simpl; [reflexivity | rewrite IH; reflexivity]. Qed.
Lemma forallb_ext' : forall {A} (p q : A -> bool) l, (forall x, p x = q x) -> forallb p l = forallb q l.
Proof. intros A p q l H; induction l as [|x r IH]; simpl; [reflexivity | rewrite H, IH; reflexivity]. Qed.
Lemma is_method_item_strip : forall i, is_method_item (strip i) = is_method_item i.
Proof. intros [t e d cs x|]; [destruct t|]; reflexivity. Qed.
Lemma is_ev_item_strip : forall e i, is_ev_item e (strip i) = is_ev_item e i.
Proof. intros e [t e' d cs x|]; [destruct t|]; reflexivity. Qed.
Lemma drop_nonmethod_strip : forall l, drop_nonmethod (map strip l) = map strip (drop_nonmethod l).
Proof.
  induction l as [|i r IH]; simpl; [reflexivity|].
  rewrite is_method_item_strip. destruct (is_method_item i); [reflexivity | exact IH].
Qed.
Lemma frame_ok_strip : forall t, frame_ok (map strip t) = frame_ok t.
Proof.
  intros [|i r]; [reflexivity|]. simpl.
  destruct i as [t e d cs x|]; [|reflexivity]. simpl.
  destruct t; try reflexivity. destruct e; try reflexivity. destruct d; try reflexivity.
  destruct x; try reflexivity.
  rewrite <- map_rev, drop_nonmethod_strip.
  destruct (drop_nonmethod (rev r)) as [|j m]; [reflexivity|]. simpl.
  destruct j as [t' e' d' cs' x'|]; [|reflexivity]. simpl.
  destruct t'; try reflexivity. destruct e'; try reflexivity. destruct x'; try reflexivity.
  rewrite forallb_map'. apply forallb_ext'. intro i. rewrite !is_ev_item_strip. reflexivity.
Qed.

(** judgements that do not look at which listeners were called *)
Definition strip_invariant (J : list fitem * result * bool -> bool) : Prop :=
  forall t1 t2 res u, map strip t1 = map strip t2 -> J (t1, res, u) = J (t2, res, u).

Lemma verdict_strip : forall drv sc, strip_invariant (verdict drv sc).
Proof.
  intros drv sc t1 t2 res u H. unfold verdict, wsgi_ok.
  rewrite <- (mtoks_strip t1), <- (mtoks_strip t2), <- (ftoks_strip t1), <- (ftoks_strip t2),
          <- (frame_ok_strip t1), <- (frame_ok_strip t2), H.
  reflexivity.
Qed.
Lemma escape_shape_strip : forall k, strip_invariant (escape_shape k).
Proof.
  intros k t1 t2 res u H. unfold escape_shape.
  rewrite <- (mtoks_strip t1), <- (mtoks_strip t2), H. reflexivity.
Qed.

Lemma run_strip : forall J f g sc p, strip_invariant J ->
  (forall t e d, In (t, e) (sites p) -> snd (f t e d) = snd (g t e d)) ->
  J (run f sc p) = J (run g sc p).
Proof.
  intros J f g sc p HJ H. unfold run.
  pose proof (exec_strip f g sc p H st0 None) as S.
  destruct (exec f sc p st0 None) as [[t1 s1] g1], (exec g sc p st0 None) as [[t2 s2] g2].
  destruct S as (Ht & Hs & Hg); simpl in *; subst. apply HJ; assumption.
Qed.

(** under [quiet], at the sites of a program that only raises through ctx.fire_event, a fire
    function raises exactly as one of the tables does *)
Lemma quiet_table : forall fire p, quiet fire -> sites_ok p = true ->
  forall t e d, In (t, e) (sites p) -> snd (fire t e d) =
    snd (tabfire (snd (fire TCtx Ecall true)) (snd (fire TCtx Ecall false))
                 (snd (fire TCtx Eret_obj true)) (snd (fire TCtx Eret_obj false)) t e d).
Proof.
  intros fire p Hq Hs t e d Hin.
  unfold sites_ok in Hs. rewrite forallb_forall in Hs. specialize (Hs _ Hin). simpl in Hs.
  pose proof (Hq t e d) as Q.
  destruct t, e, d; simpl in *; try reflexivity; try discriminate Hs;
    (destruct (snd (fire _ _ _)) as [k|]; [|reflexivity]);
    destruct (Q k eq_refl) as ([He|He] & _); discriminate.
Qed.
Lemma quiet_raise : forall fire, quiet fire -> forall t e d, In (snd (fire t e d)) all_raise.
Proof.
  intros fire Hq t e d. specialize (Hq t e d). destruct (snd (fire t e d)) as [k|]; simpl; auto.
  destruct (Hq k eq_refl) as (_ & [->| ->]); auto.
Qed.

Lemma drivers_sites_ok : forall drv, sites_ok (driver_prog drv) = true.
Proof. intros []; vm_compute; reflexivity. Qed.

Lemma sweep_true : sweepF chk = true.
Proof. vm_cast_no_check (eq_refl true). Qed.

Lemma parse_adm_in : forall x, parse_adm x = true -> In x all_parse.
Proof. intros [[]|]; simpl; intro; auto; discriminate. Qed.
Lemma raise_adm_in : forall x, raise_adm x = true -> In x all_raise.
Proof. intros [[]|]; simpl; intro; auto; discriminate. Qed.
Lemma all_oexk_in : forall x, In x all_oexk.
Proof. intros [[]|]; simpl; auto. Qed.
Lemma all_bool_in : forall x, In x all_bool.
Proof. intros []; simpl; auto. Qed.
Lemma all_drv_in : forall x, In x all_drv.
Proof. intros []; simpl; auto. Qed.

(** the nested sweep covers every tuple drawn from the enumerations (F abstract) *)
Lemma sweepF_sound : forall F, sweepF F = true ->
  forall drv rc cr de di ds fn se rd af dc a b c d,
  In drv all_drv -> In rc all_parse -> In cr all_parse -> In de all_parse -> In di all_parse -> In ds all_parse ->
  In fn all_raise -> In se all_raise -> In rd all_oexk -> In af all_bool -> In dc all_bool ->
  In a all_raise -> In b all_raise -> In c all_raise -> In d all_raise ->
  F drv rc cr de di ds fn se rd af dc a b c d = true.
Proof.
  intros F S drv rc cr de di ds fn se rd af dc a b c d I0 Irc I1 I2 I3 I4 I5 I6 I7 I8 I9 Ia Ib Ic Id.
  unfold sweepF in S.
  rewrite forallb_forall in S; specialize (S _ I0).
  rewrite forallb_forall in S; specialize (S _ Irc).
  rewrite forallb_forall in S; specialize (S _ I1).
  rewrite forallb_forall in S; specialize (S _ I2).
  rewrite forallb_forall in S; specialize (S _ I3).
  rewrite forallb_forall in S; specialize (S _ I4).
  rewrite forallb_forall in S; specialize (S _ I5).
  rewrite forallb_forall in S; specialize (S _ I6).
  rewrite forallb_forall in S; specialize (S _ I7).
  rewrite forallb_forall in S; specialize (S _ I8).
  rewrite forallb_forall in S; specialize (S _ I9).
  rewrite forallb_forall in S; specialize (S _ Ia).
  rewrite forallb_forall in S; specialize (S _ Ib).
  rewrite forallb_forall in S; specialize (S _ Ic).
  rewrite forallb_forall in S; specialize (S _ Id).
  exact S.
Qed.

Lemma sweep_sound : forall drv sc a b c d,
  scen_adm (is_wsgi drv) sc = true ->
  In a all_raise -> In b all_raise -> In c all_raise -> In d all_raise ->
  check_one drv sc a b c d = true.
Proof.
  intros drv sc a b c d Hadm Ha Hb Hc Hd.
  destruct sc as [rc cr de di ds fn se rd af dc op].
  assert (Hadm' := Hadm). unfold scen_adm in Hadm'.
  cbn [sc_recon sc_create sc_decomp sc_dispatch sc_deser sc_fn sc_ser sc_opaque] in Hadm'.
  repeat rewrite andb_true_iff in Hadm'.
  destruct Hadm' as ((((((((H0 & H1) & H2) & H3) & H4) & H5) & H6) & H7) & H8).
  apply negb_true_iff in H8; subst op.
  change (chk drv rc cr de di ds fn se rd af dc a b c d = true).
  apply (sweepF_sound chk sweep_true);
    auto using all_drv_in, parse_adm_in, raise_adm_in, all_oexk_in, all_bool_in.
Qed.

(** TRACE THEOREM: for both drivers, every admissible scenario and every fire function in
    which only method_call / method_return_object listeners raise, the call returns (nothing
    escapes), no unmodelled code is reached, and the trace satisfies the specification *)
Theorem trace_ok_fire : forall drv sc fire,
  scen_adm (is_wsgi drv) sc = true -> quiet fire ->
  verdict drv sc (run fire sc (driver_prog drv)) = true.
Proof.
  intros drv sc fire Hadm Hq.
  rewrite (run_strip (verdict drv sc) fire _ sc (driver_prog drv) (verdict_strip drv sc)
             (quiet_table fire _ Hq (drivers_sites_ok drv))).
  pose proof (sweep_sound drv sc _ _ _ _ Hadm
                (quiet_raise fire Hq TCtx Ecall true) (quiet_raise fire Hq TCtx Ecall false)
                (quiet_raise fire Hq TCtx Eret_obj true) (quiet_raise fire Hq TCtx Eret_obj false)) as C.
  unfold check_one in C. rewrite Hadm in C. exact C.
Qed.

(* ------------------------------------------------------------------ from listener behaviours *)
Lemma call_all_raises : forall b e hs cs k, call_all b e hs = (cs, Some k) -> exists h, In h hs /\ b h e = Some k.
Proof.
  induction hs as [|h r IH]; intros cs k H; simpl in H; [discriminate|].
  destruct (b h e) as [k'|] eqn:E.
  - inversion H; subst. exists h; simpl; auto.
  - destruct (call_all b e r) as [t x] eqn:F. inversion H; subst.
    destruct (IH _ _ eq_refl) as (h' & Hin & Hb). exists h'; simpl; auto.
Qed.
Lemma fire_mgrs_raises : forall b e ms cs k, fire_mgrs b ms e = (cs, Some k) -> exists h, b h e = Some k.
Proof.
  intros b e ms cs k H. rewrite fire_mgrs_concat in H.
  destruct (call_all_raises _ _ _ _ _ H) as (h & _ & Hb). eauto.
Qed.
Lemma fire_world_raises : forall parts w dms b t e d k,
  snd (fire_world parts w dms b t e d) = Some k -> exists h, b h e = Some k.
Proof.
  intros parts w dms b t e d k H.
  destruct t; simpl in H.
  - destruct (fire_mgrs b _ e) as [cs x] eqn:F; simpl in H; subst. eapply fire_mgrs_raises; eauto.
  - unfold em_fire in H. destruct (call_all b e _) as [cs x] eqn:F; simpl in H; subst.
    destruct (call_all_raises _ _ _ _ _ F) as (h & _ & Hb); eauto.
  - unfold em_fire in H. destruct (call_all b e _) as [cs x] eqn:F; simpl in H; subst.
    destruct (call_all_raises _ _ _ _ _ F) as (h & _ & Hb); eauto.
  - unfold em_fire in H. destruct (call_all b e _) as [cs x] eqn:F; simpl in H; subst.
    destruct (call_all_raises _ _ _ _ _ F) as (h & _ & Hb); eauto.
  - unfold em_fire in H. destruct (call_all b e _) as [cs x] eqn:F; simpl in H; subst.
    destruct (call_all_raises _ _ _ _ _ F) as (h & _ & Hb); eauto.
Qed.
Lemma quiet_world : forall parts w dms b, quiet_beh b -> quiet (fire_world parts w dms b).
Proof.
  intros parts w dms b Hb t e d k H. destruct (fire_world_raises _ _ _ _ _ _ _ _ H) as (h & Hh).
  exact (Hb _ _ _ Hh).
Qed.

(** the same for every set of managers, however they were filled, every method descriptor
    and every behaviour of the listeners in the property's alphabet *)
Theorem trace_ok : forall drv sc parts w dms b,
  scen_adm (is_wsgi drv) sc = true -> quiet_beh b ->
  verdict drv sc (run (fire_world parts w dms b) sc (driver_prog drv)) = true.
Proof. intros; apply trace_ok_fire; [assumption | apply quiet_world; assumption]. Qed.

(* ------------------------------------------------------------------ ServerBase, unserialisable return value *)
Lemma sweep_sb_true : sweepF chk_sb = true.
Proof. vm_cast_no_check (eq_refl true). Qed.

Lemma scen_adm_true_parts : forall sc, scen_adm true sc = true ->
  In (sc_recon sc) all_parse /\ In (sc_create sc) all_parse /\ In (sc_decomp sc) all_parse /\ In (sc_dispatch sc) all_parse
  /\ In (sc_deser sc) all_parse /\ In (sc_fn sc) all_raise /\ In (sc_ser sc) all_raise /\ sc_opaque sc = false.
Proof.
  intros sc H. unfold scen_adm in H. repeat rewrite andb_true_iff in H.
  destruct H as ((((((((H0 & H1) & H2) & H3) & H4) & H5) & H6) & H7) & H8).
  apply negb_true_iff in H8.
  auto 12 using parse_adm_in, raise_adm_in.
Qed.

Theorem sb_unserialisable_fire : forall sc fire k,
  scen_adm true sc = true -> quiet fire -> sc_ser sc = Some k ->
  verdict DServerBase sc (run fire sc (driver_prog DServerBase)) = true
  \/ escape_shape k (run fire sc (driver_prog DServerBase)) = true.
Proof.
  intros sc fire k Hadm Hq Hk.
  pose proof (quiet_table fire _ Hq (drivers_sites_ok DServerBase)) as T.
  rewrite (run_strip (verdict DServerBase sc) fire _ sc _ (verdict_strip _ sc) T).
  rewrite (run_strip (escape_shape k) fire _ sc _ (escape_shape_strip k) T).
  destruct (scen_adm_true_parts sc Hadm) as (I0 & I1 & I2 & I3 & I4 & I5 & I6 & Hop).
  destruct sc as [rc cr de di ds fn se rd af dc op].
  cbn [sc_recon sc_create sc_decomp sc_dispatch sc_deser sc_fn sc_ser sc_opaque] in *. subst op se.
  pose proof (sweepF_sound chk_sb sweep_sb_true DServerBase rc cr de di ds fn (Some k) rd af dc
                (snd (fire TCtx Ecall true)) (snd (fire TCtx Ecall false))
                (snd (fire TCtx Eret_obj true)) (snd (fire TCtx Eret_obj false))
                (all_drv_in _) I0 I1 I2 I3 I4 I5 I6 (all_oexk_in _) (all_bool_in _) (all_bool_in _)
                (quiet_raise fire Hq _ _ _) (quiet_raise fire Hq _ _ _)
                (quiet_raise fire Hq _ _ _) (quiet_raise fire Hq _ _ _)) as C.
  unfold chk_sb, check_sb in C. rewrite Hadm in C. cbn [sc_ser] in C.
  apply orb_true_iff in C. exact C.
Qed.

Theorem sb_unserialisable : forall sc parts w dms b k,
  scen_adm true sc = true -> quiet_beh b -> sc_ser sc = Some k ->
  let out := run (fire_world parts w dms b) sc (driver_prog DServerBase) in
  verdict DServerBase sc out = true \/ escape_shape k out = true.
Proof. intros; apply sb_unserialisable_fire; auto using quiet_world. Qed.

(** the full statement for ServerBase (serialisation failures included) is false *)
Definition sc_nul : scen :=
  {| sc_recon := None; sc_create := None; sc_decomp := None; sc_dispatch := None; sc_deser := None; sc_fn := None;
     sc_ser := Some KOther; sc_redirect := None; sc_after_on_fault := true; sc_doc_early := false;
     sc_opaque := false |}.
Theorem sb_unserialisable_refuted :
  exists sc b, scen_adm true sc = true /\ quiet_beh b /\
    forall parts w dms, verdict DServerBase sc (run (fire_world parts w dms b) sc (driver_prog DServerBase)) = false.
Proof.
  exists sc_nul, (fun _ _ => None). split; [reflexivity|]. split; [intros h e k H; discriminate|].
  intros parts w dms.
  assert (Q : quiet (fire_world parts w dms (fun _ _ => None)))
    by (apply quiet_world; intros h e k H; discriminate).
  rewrite (run_strip (verdict DServerBase sc_nul) _ _ sc_nul _ (verdict_strip _ _)
             (quiet_table _ _ Q (drivers_sites_ok DServerBase))).
  assert (N : forall t e d, snd (fire_world parts w dms (fun _ _ => None) t e d) = None).
  { intros t e d. destruct (snd (fire_world parts w dms (fun _ _ => None) t e d)) eqn:E; [|reflexivity].
    destruct (fire_world_raises _ _ _ _ _ _ _ _ E) as (h & Hh). discriminate. }
  rewrite !N. vm_compute. reflexivity.
Qed.
