(** C14 — Spyne's event machinery.  Definitions only.

    * [oset] / [emgr]          spyne/util/oset.py, spyne/evmgr.py (shapes checked by the translator)
    * [base_event_handlers]    spyne/service.py ServiceBaseMeta.__get_base_event_handlers
    * [world], [regop]         registration programs: class statements and add_listener calls
    * [fire_world]             spyne/context.py MethodContext.fire_event (manager order generated)
    * [stmt], [exec]           a small statement language (try/except with class dispatch, raise,
                               return, calls, tests and assignments of the context attributes the
                               control flow reads, fire_event) in which the request pipeline is
                               written; the pipeline programs themselves (server/_base.py,
                               application.py, server/http.py, server/wsgi.py, context.py) are
                               GENERATED from the Python source into Gen/Pipeline.v on every run
                               by harness/translate/pipeline.py
    * library steps            the protocol-side steps the pipeline calls, written by hand in
                               the same language (bottom of this file); whether they return or
                               raise is an input ([scen]) *)
From SpyneV Require Export Base.Prelude.

(* ------------------------------------------------------------------ event names *)
Inductive ev :=
| Ecreated | Eclosed                     (* method_context_created / method_context_closed *)
| Ecall | Eret_obj | Eexc_obj            (* method_call / method_return_object / method_exception_object *)
| Eret_doc | Eexc_doc | Eret_str | Eexc_str
| Eredirect | Eredirect_exc | Eret_push
| Ebefore_deser | Eafter_deser | Ebefore_ser | Eafter_ser   (* protocol managers *)
| Ewsgi_call | Ewsgi_return | Ewsgi_exception | Ewsgi_close. (* transport manager *)

Definition ev_id (e : ev) : Z :=
  match e with
  | Ecreated => 0 | Eclosed => 1 | Ecall => 2 | Eret_obj => 3 | Eexc_obj => 4
  | Eret_doc => 5 | Eexc_doc => 6 | Eret_str => 7 | Eexc_str => 8
  | Eredirect => 9 | Eredirect_exc => 10 | Eret_push => 11
  | Ebefore_deser => 12 | Eafter_deser => 13 | Ebefore_ser => 14 | Eafter_ser => 15
  | Ewsgi_call => 16 | Ewsgi_return => 17 | Ewsgi_exception => 18 | Ewsgi_close => 19
  end.
Definition ev_eqb (a b : ev) : bool := ev_id a =? ev_id b.

(** exceptions: a spyne Fault (not a Redirect), a Redirect (subclass of Fault), any other Exception *)
Inductive exk := KFault | KRedirect | KOther.
Inductive xcls := CFault | CRedirect | CException.      (* classes named by except clauses *)
Definition isinst (k : exk) (c : xcls) : bool :=
  match c, k with
  | CException, _ => true
  | CFault, KFault | CFault, KRedirect => true
  | CRedirect, KRedirect => true
  | _, _ => false
  end.
Definition exk_eqb (a b : exk) : bool :=
  match a, b with KFault, KFault | KRedirect, KRedirect | KOther, KOther => true | _, _ => false end.
Definition oexk_eqb (a b : option exk) : bool :=
  match a, b with None, None => true | Some x, Some y => exk_eqb x y | _, _ => false end.

(* ------------------------------------------------------------------ oset, EventManager *)
(** a listener is a Python callable, identified by its identity *)
Definition lid := Z.

Fixpoint memz (k : Z) (s : list Z) : bool :=
  match s with [] => false | x :: r => (k =? x) || memz k r end.

(** oset: doubly linked list in insertion order + a key map; observable = the key sequence.
    add: [if key not in self.map: append at the end] *)
Definition oset := list lid.
Definition oset_add (s : oset) (k : lid) : oset := if memz k s then s else s ++ [k].

(** EventManager.handlers: dict event name -> oset *)
Definition emgr := list (ev * oset).
Fixpoint em_get (m : emgr) (e : ev) : oset :=           (* self.handlers.get(event_name, oset()) *)
  match m with
  | [] => []
  | (e', s) :: r => if ev_eqb e e' then s else em_get r e
  end.
Fixpoint em_set (m : emgr) (e : ev) (s : oset) : emgr := (* self.handlers[event_name] = s *)
  match m with
  | [] => [(e, s)]
  | (e', s') :: r => if ev_eqb e e' then (e', s) :: r else (e', s') :: em_set r e s
  end.
(** add_listener: handlers = self.handlers.get(name, oset()); handlers.add(h); self.handlers[name] = handlers *)
Definition add_listener (m : emgr) (e : ev) (h : lid) : emgr := em_set m e (oset_add (em_get m e) h).

(** ServiceBaseMeta.__get_base_event_handlers:
      handlers = {}
      for base in cls_bases:            (bases without an event_manager are skipped)
          for k, v in base.event_manager.handlers.items():
              handler = handlers.get(k, oset());  for h in v: handler.add(h);  handlers[k] = handler *)
Definition merge_one (acc : emgr) (kv : ev * oset) : emgr :=
  em_set acc (fst kv) (fold_left oset_add (snd kv) (em_get acc (fst kv))).
Definition merge_base (acc : emgr) (b : emgr) : emgr := fold_left merge_one b acc.
Definition base_event_handlers (bases : list emgr) : emgr := fold_left merge_base bases [].

(* ------------------------------------------------------------------ registration programs *)
Inductive mref := MApp | MSvc (c : nat) | MMeth (k : nat) | MTpt | MPin | MPout.
Inductive regop :=
| RNewClass (bases : list nat)          (* class C(B1, B2, ...): ...   -> ServiceBaseMeta.__init__ *)
| RNewMgr                               (* EventManager(None), later passed as _evmgr/_evmgrs *)
| RAdd (m : mref) (e : ev) (h : lid).   (* <m>.event_manager.add_listener(e, h) *)

Record world := {
  w_app : emgr; w_cls : list emgr; w_meth : list emgr; w_tpt : emgr; w_pin : emgr; w_pout : emgr }.
Definition world0 : world :=
  {| w_app := []; w_cls := []; w_meth := []; w_tpt := []; w_pin := []; w_pout := [] |}.

Fixpoint opt_all {A} (l : list (option A)) : option (list A) :=
  match l with
  | [] => Some []
  | None :: _ => None
  | Some a :: r => match opt_all r with Some r' => Some (a :: r') | None => None end
  end.
Fixpoint upd_nth {A} (n : nat) (l : list A) (f : A -> A) : option (list A) :=
  match n, l with
  | O, x :: r => Some (f x :: r)
  | S n', x :: r => match upd_nth n' r f with Some r' => Some (x :: r') | None => None end
  | _, [] => None
  end.

(** one statement of a registration program; [None] = the program names a class or manager
    that does not exist (a NameError in Python) *)
Definition reg_step (w : world) (o : regop) : option world :=
  match o with
  | RNewClass bases =>
      match opt_all (map (nth_error (w_cls w)) bases) with
      | Some bs => Some {| w_app := w_app w; w_cls := w_cls w ++ [base_event_handlers bs];
                           w_meth := w_meth w; w_tpt := w_tpt w; w_pin := w_pin w; w_pout := w_pout w |}
      | None => None
      end
  | RNewMgr => Some {| w_app := w_app w; w_cls := w_cls w; w_meth := w_meth w ++ [[]];
                       w_tpt := w_tpt w; w_pin := w_pin w; w_pout := w_pout w |}
  | RAdd MApp e h => Some {| w_app := add_listener (w_app w) e h; w_cls := w_cls w; w_meth := w_meth w;
                             w_tpt := w_tpt w; w_pin := w_pin w; w_pout := w_pout w |}
  | RAdd (MSvc c) e h =>
      match upd_nth c (w_cls w) (fun m => add_listener m e h) with
      | Some l => Some {| w_app := w_app w; w_cls := l; w_meth := w_meth w;
                          w_tpt := w_tpt w; w_pin := w_pin w; w_pout := w_pout w |}
      | None => None
      end
  | RAdd (MMeth k) e h =>
      match upd_nth k (w_meth w) (fun m => add_listener m e h) with
      | Some l => Some {| w_app := w_app w; w_cls := w_cls w; w_meth := l;
                          w_tpt := w_tpt w; w_pin := w_pin w; w_pout := w_pout w |}
      | None => None
      end
  | RAdd MTpt e h => Some {| w_app := w_app w; w_cls := w_cls w; w_meth := w_meth w;
                             w_tpt := add_listener (w_tpt w) e h; w_pin := w_pin w; w_pout := w_pout w |}
  | RAdd MPin e h => Some {| w_app := w_app w; w_cls := w_cls w; w_meth := w_meth w;
                             w_tpt := w_tpt w; w_pin := add_listener (w_pin w) e h; w_pout := w_pout w |}
  | RAdd MPout e h => Some {| w_app := w_app w; w_cls := w_cls w; w_meth := w_meth w;
                              w_tpt := w_tpt w; w_pin := w_pin w; w_pout := add_listener (w_pout w) e h |}
  end.
Fixpoint reg_run (w : world) (p : list regop) : option world :=
  match p with
  | [] => Some w
  | o :: r => match reg_step w o with Some w' => reg_run w' r | None => None end
  end.

(** MethodDescriptor.event_managers = list(_evmgrs) + [service_class.event_manager]
    (descriptor.py:180-187); the managers are held by reference, so listeners added
    after the method was declared are seen *)
Record desc := { d_mgrs : list nat; d_cls : nat }.
(** what MethodDescriptor.__init__ puts into event_managers, in order: the managers given to
    the decorator [DMeth], the service class's manager [DSvc].  The list of parts is GENERATED
    (Gen.Pipeline.g_desc_parts); the translator also checks that nothing else in the package
    assigns to or mutates a descriptor's event_managers (the descriptor is shared by every
    Application that exposes the service) *)
Inductive dpart := DMeth | DSvc.
Definition desc_managers (parts : list dpart) (w : world) (d : desc) : option (list emgr) :=
  match opt_all (map (nth_error (w_meth w)) (d_mgrs d)), nth_error (w_cls w) (d_cls d) with
  | Some ms, Some c => Some (flat_map (fun p => match p with DMeth => ms | DSvc => [c] end) parts)
  | _, _ => None
  end.

(* ------------------------------------------------------------------ firing *)
(** listener behaviour: what the callable [h] registered for event [e] does when called *)
Definition beh := lid -> ev -> option exk.

(** EventManager.fire_event: [for handler in handlers: handler(ctx)] — the calls made (in
    order) and the exception that ended the loop, if any *)
Fixpoint call_all (b : beh) (e : ev) (hs : list lid) : list lid * option exk :=
  match hs with
  | [] => ([], None)
  | h :: r => match b h e with
              | Some k => ([h], Some k)
              | None => let '(t, x) := call_all b e r in (h :: t, x)
              end
  end.
Definition em_fire (b : beh) (m : emgr) (e : ev) := call_all b e (em_get m e).
Fixpoint fire_mgrs (b : beh) (ms : list emgr) (e : ev) : list lid * option exk :=
  match ms with
  | [] => ([], None)
  | m :: r => let '(t, x) := em_fire b m e in
              match x with
              | Some k => (t, Some k)
              | None => let '(t', x') := fire_mgrs b r e in (t ++ t', x')
              end
  end.

(** who fires: ctx.fire_event (TCtx), or fire_event on one manager directly *)
Inductive target := TCtx | TApp | TTpt | TPin | TPout.
Definition target_id (t : target) : Z :=
  match t with TCtx => 0 | TApp => 1 | TTpt => 2 | TPin => 3 | TPout => 4 end.
Definition target_eqb a b := target_id a =? target_id b.

(** MethodContext.fire_event (context.py:128):
      self.app.event_manager.fire_event(event, self)                                  [PApp]
      desc = self.descriptor
      if desc is not None: for evmgr in desc.event_managers: evmgr.fire_event(event, self)   [PDesc]
    the list of parts, in source order, is GENERATED (Gen.Pipeline.g_ctx_fire_parts) *)
Inductive fpart := PApp | PDesc.
Definition part_managers (w : world) (dms : list emgr) (has_desc : bool) (p : fpart) : list emgr :=
  match p with PApp => [w_app w] | PDesc => if has_desc then dms else [] end.
Definition ctx_managers (parts : list fpart) (w : world) (dms : list emgr) (has_desc : bool) : list emgr :=
  flat_map (part_managers w dms has_desc) parts.
Definition fire_world (parts : list fpart) (w : world) (dms : list emgr) (b : beh)
           (t : target) (e : ev) (has_desc : bool) : list lid * option exk :=
  match t with
  | TCtx => fire_mgrs b (ctx_managers parts w dms has_desc) e
  | TApp => em_fire b (w_app w) e
  | TTpt => em_fire b (w_tpt w) e
  | TPin => em_fire b (w_pin w) e
  | TPout => em_fire b (w_pout w) e
  end.

(** out protocols whose serialize() skeleton is read from the source (Gen.Pipeline.g_proto_flags) *)
Inductive proto := PXml | PSoap11 | PHier | PMsgpackRpc.
Definition proto_id (p : proto) : Z := match p with PXml => 0 | PSoap11 => 1 | PHier => 2 | PMsgpackRpc => 3 end.
Definition proto_eqb a b := proto_id a =? proto_id b.

(* ------------------------------------------------------------------ the statement language *)
(** tracked attributes of the method context; every other attribute is irrelevant to which
    events fire (the translator rejects code whose control flow reads anything else) *)
Inductive var := VInError | VOutError | VOutString | VOutDoc | VDesc.
Inductive val := VNone | VExc (k : exk) | VObj.
Record st := { s_in_error : val; s_out_error : val; s_out_string : val; s_out_doc : val; s_desc : val;
               s_unmod : bool }.
Definition st0 : st := {| s_in_error := VNone; s_out_error := VNone; s_out_string := VNone;
                          s_out_doc := VNone; s_desc := VNone; s_unmod := false |}.
Definition getv (s : st) (v : var) : val :=
  match v with VInError => s_in_error s | VOutError => s_out_error s | VOutString => s_out_string s
             | VOutDoc => s_out_doc s | VDesc => s_desc s end.
Definition setv (s : st) (v : var) (x : val) : st :=
  match v with
  | VInError => {| s_in_error := x; s_out_error := s_out_error s; s_out_string := s_out_string s;
                   s_out_doc := s_out_doc s; s_desc := s_desc s; s_unmod := s_unmod s |}
  | VOutError => {| s_in_error := s_in_error s; s_out_error := x; s_out_string := s_out_string s;
                    s_out_doc := s_out_doc s; s_desc := s_desc s; s_unmod := s_unmod s |}
  | VOutString => {| s_in_error := s_in_error s; s_out_error := s_out_error s; s_out_string := x;
                     s_out_doc := s_out_doc s; s_desc := s_desc s; s_unmod := s_unmod s |}
  | VOutDoc => {| s_in_error := s_in_error s; s_out_error := s_out_error s; s_out_string := s_out_string s;
                  s_out_doc := x; s_desc := s_desc s; s_unmod := s_unmod s |}
  | VDesc => {| s_in_error := s_in_error s; s_out_error := s_out_error s; s_out_string := s_out_string s;
                s_out_doc := s_out_doc s; s_desc := x; s_unmod := s_unmod s |}
  end.
Definition set_unmod (s : st) : st :=
  {| s_in_error := s_in_error s; s_out_error := s_out_error s; s_out_string := s_out_string s;
     s_out_doc := s_out_doc s; s_desc := s_desc s; s_unmod := true |}.
Definition is_none (x : val) : bool := match x with VNone => true | _ => false end.

(** library steps whose outcome is an input of the model (the injection alphabet) *)
Inductive stage :=
| StRecon           (* WsgiApplication.__reconstruct_wsgi_request: declared length too long / not a number *)
| StCreateInDoc      (* in_protocol.create_in_document: malformed bytes, request too long *)
| StDecompose        (* in_protocol.decompose_incoming_envelope: bad envelope *)
| StDispatch         (* in_protocol.generate_method_contexts: unknown method *)
| StDeserialize      (* in_protocol.deserialize body: invalid argument *)
| StUserFn           (* the user function *)
| StSerialize        (* out_protocol.serialize of a return value *)
| StDoRedirect.      (* Redirect.do_redirect *)

(** protocol / request facts that are inputs too *)
Inductive flag :=
| FAfterSerOnFault   (* the out protocol fires after_serialize also when it serialises a fault *)
| FDocEarly          (* the out protocol assigns ctx.out_document before it serialises the body *)
| FOpaque.           (* generator / push / MTOM / HttpRpc-out-header machinery is engaged *)

Inductive cond := CIsNone (v : var) | CNotNone (v : var) | CFlag (f : flag) | CNotFlag (f : flag).

Inductive stmt :=
| Skip
| Seq (a b : stmt)
| Fire (e : ev)                   (* ctx.fire_event('e') *)
| FireOn (t : target) (e : ev)    (* <owner>.event_manager.fire_event('e', ctx) *)
| Inject (g : stage)              (* a library step that raises iff the scenario says so *)
| Func                            (* the user function starts running *)
| SetNone (v : var) | SetObj (v : var)
| SetExc (v : var)                (* v = e   inside [except ... as e] *)
| SetNew (v : var) (k : exk)      (* v = Fault(...) *)
| If (c : cond) (a b : stmt)
| Try (b h : stmt)                (* try: b  except: h   — h dispatches with IfExc and ends in Reraise *)
| IfExc (c : xcls) (a b : stmt)
| Reraise
| RaiseVar (v : var)              (* raise ctx.in_error *)
| RaiseNew (k : exk)
| Return
| Call (b : stmt)                 (* call of a modelled function; its [return] ends here *)
| Unmodelled.                     (* code outside the model; reaching it is flagged *)

Record scen := {
  sc_recon : option exk; sc_create : option exk; sc_decomp : option exk; sc_dispatch : option exk; sc_deser : option exk;
  sc_fn : option exk; sc_ser : option exk; sc_redirect : option exk;
  sc_after_on_fault : bool; sc_doc_early : bool; sc_opaque : bool }.
Definition sc_inj (sc : scen) (g : stage) : option exk :=
  match g with
  | StRecon => sc_recon sc
  | StCreateInDoc => sc_create sc | StDecompose => sc_decomp sc | StDispatch => sc_dispatch sc
  | StDeserialize => sc_deser sc | StUserFn => sc_fn sc | StSerialize => sc_ser sc
  | StDoRedirect => sc_redirect sc
  end.
Definition sc_flag (sc : scen) (f : flag) : bool :=
  match f with FAfterSerOnFault => sc_after_on_fault sc | FDocEarly => sc_doc_early sc | FOpaque => sc_opaque sc end.

(** one invocation of a fire_event: who, what, whether ctx.descriptor was set, the listeners
    that were called (in order) and the exception that escaped, if any *)
Inductive fitem :=
| FFire (t : target) (e : ev) (d : bool) (calls : list lid) (r : option exk)
| FFunc.

Inductive signal := Normal | Ret | Exc (k : exk).

Section Exec.
  Variable fire : target -> ev -> bool -> list lid * option exk.
  Variable sc : scen.

  Definition eval (c : cond) (s : st) : bool :=
    match c with
    | CIsNone v => is_none (getv s v)
    | CNotNone v => negb (is_none (getv s v))      (* truthiness; a Fault is truthy: Fault.__len__ = 1 *)
    | CFlag f => sc_flag sc f
    | CNotFlag f => negb (sc_flag sc f)
    end.

  Definition do_fire (t : target) (e : ev) (s : st) : list fitem * st * signal :=
    let d := negb (is_none (s_desc s)) in
    let '(calls, r) := fire t e d in
    ([FFire t e d calls r], s, match r with Some k => Exc k | None => Normal end).

  Fixpoint exec (p : stmt) (s : st) (cur : option exk) : list fitem * st * signal :=
    match p with
    | Skip => ([], s, Normal)
    | Seq a b =>
        let '(t1, s1, g1) := exec a s cur in
        match g1 with
        | Normal => let '(t2, s2, g2) := exec b s1 cur in (t1 ++ t2, s2, g2)
        | _ => (t1, s1, g1)
        end
    | Fire e => do_fire TCtx e s
    | FireOn t e => do_fire t e s
    | Inject g => ([], s, match sc_inj sc g with Some k => Exc k | None => Normal end)
    | Func => ([FFunc], s, Normal)
    | SetNone v => ([], setv s v VNone, Normal)
    | SetObj v => ([], setv s v VObj, Normal)
    | SetExc v => match cur with
                  | Some k => ([], setv s v (VExc k), Normal)
                  | None => ([], set_unmod s, Normal)
                  end
    | SetNew v k => ([], setv s v (VExc k), Normal)
    | If c a b => if eval c s then exec a s cur else exec b s cur
    | Try b h =>
        let '(t1, s1, g1) := exec b s cur in
        match g1 with
        | Exc k => let '(t2, s2, g2) := exec h s1 (Some k) in (t1 ++ t2, s2, g2)
        | _ => (t1, s1, g1)
        end
    | IfExc c a b =>
        match cur with
        | Some k => if isinst k c then exec a s cur else exec b s cur
        | None => exec b s cur
        end
    | Reraise => ([], s, Exc (match cur with Some k => k | None => KOther end))
    | RaiseVar v => ([], s, Exc (match getv s v with VExc k => k | _ => KOther end))  (* raise None: TypeError *)
    | RaiseNew k => ([], s, Exc k)
    | Return => ([], s, Ret)
    | Call b => let '(t, s', g) := exec b s None in
                (t, s', match g with Ret => Normal | x => x end)
    | Unmodelled => ([], set_unmod s, Normal)
    end.
End Exec.

(** what a whole call amounts to *)
Inductive result :=
| RDone (fault : bool)      (* the driver returned; fault = ctx.out_error is set = a fault was answered *)
| REscaped (k : exk).       (* an exception escaped the driver *)
Definition result_eqb (a b : result) : bool :=
  match a, b with
  | RDone x, RDone y => Bool.eqb x y
  | REscaped x, REscaped y => exk_eqb x y
  | _, _ => false
  end.

Definition run (fire : target -> ev -> bool -> list lid * option exk) (sc : scen) (driver : stmt)
  : list fitem * result * bool :=
  let '(t, s, g) := exec fire sc driver st0 None in
  (t, match g with Exc k => REscaped k | _ => RDone (negb (is_none (s_out_error s))) end, s_unmod s).

(** the listener-level trace: (event, listener) for every call made, and the function marker *)
Inductive call := LCall (e : ev) (h : lid) | LFunc.
Definition calls_of (i : fitem) : list call :=
  match i with FFire _ e _ cs _ => map (LCall e) cs | FFunc => [LFunc] end.
Definition listener_trace (t : list fitem) : list call := flat_map calls_of t.

(* ------------------------------------------------------------------ library steps (hand-written) *)
Fixpoint seq (l : list stmt) : stmt :=
  match l with [] => Skip | [a] => a | a :: r => Seq a (seq r) end.

(** in_protocol.create_in_document / decompose_incoming_envelope / generate_method_contexts
    (the latter sets ctx.descriptor on the copies it returns; one primary context, no aux) *)
Definition lib_reconstruct : stmt := Inject StRecon.
Definition lib_create_in_document : stmt := Inject StCreateInDoc.
Definition lib_decompose : stmt := Inject StDecompose.
Definition lib_generate_method_contexts : stmt := Seq (Inject StDispatch) (SetObj VDesc).

(** in_protocol.deserialize (xml.py:525, soap11.py:225, json.py:305, dictdoc/hier.py:66, http.py:265):
      fire before_deserialize; [descriptor is None -> Fault]; decode; fire after_deserialize *)
Definition lib_deserialize : stmt :=
  seq [FireOn TPin Ebefore_deser;
       If (CIsNone VDesc) (RaiseNew KFault) Skip;
       Inject StDeserialize;
       FireOn TPin Eafter_deser].

(** Application.call_wrapper -> Service.call_wrapper -> ctx.function(...) *)
Definition lib_call_wrapper : stmt := Seq Func (Inject StUserFn).

(** out_protocol.serialize (xml.py:570, soap11.py:281, json.py:353, dictdoc/hier.py:118):
      fire before_serialize
      if ctx.out_error is not None: out_document = the fault   [after_serialize: XML family only]
      else: [Soap: out_document = Envelope first]  serialise the value (may raise)  out_document = ...
            fire after_serialize *)
Definition lib_serialize : stmt :=
  seq [FireOn TPout Ebefore_ser;
       If (CNotNone VOutError)
          (Seq (SetObj VOutDoc) (If (CFlag FAfterSerOnFault) (FireOn TPout Eafter_ser) Skip))
          (seq [If (CFlag FDocEarly) (SetObj VOutDoc) Skip;
                Inject StSerialize;
                SetObj VOutDoc;
                FireOn TPout Eafter_ser])].

(** out_protocol.create_out_string: ctx.out_string = [...] *)
Definition lib_create_out_string : stmt := SetObj VOutString.
Definition lib_do_redirect : stmt := Inject StDoRedirect.
