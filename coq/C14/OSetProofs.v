(** C14 — lemmas on the ordered set, the event manager, listener inheritance and firing. *)
From Coq Require Import ZArith List Bool Lia.
From SpyneV Require Import C14.Model.
Import ListNotations.
Open Scope Z_scope.

(* ------------------------------------------------------------------ event names *)
Lemma ev_id_inj : forall a b, ev_id a = ev_id b -> a = b.
Proof. intros a b; destruct a, b; simpl; intro H; try reflexivity; discriminate H. Qed.
Lemma ev_eqb_eq : forall a b, ev_eqb a b = true <-> a = b.
Proof.
  intros a b; unfold ev_eqb; rewrite Z.eqb_eq; split; [apply ev_id_inj | intros ->; reflexivity].
Qed.
Lemma ev_eqb_refl : forall a, ev_eqb a a = true.
Proof. intro a; apply ev_eqb_eq; reflexivity. Qed.
Lemma ev_eqb_neq : forall a b, ev_eqb a b = false <-> a <> b.
Proof.
  intros a b; split; intro H.
  - intro E; apply ev_eqb_eq in E; congruence.
  - destruct (ev_eqb a b) eqn:E; [apply ev_eqb_eq in E; contradiction | reflexivity].
Qed.
Lemma ev_eqb_sym : forall a b, ev_eqb a b = ev_eqb b a.
Proof. intros; unfold ev_eqb; apply Z.eqb_sym. Qed.

(* ------------------------------------------------------------------ oset *)
Lemma memz_In : forall k s, memz k s = true <-> In k s.
Proof.
  induction s as [|x r IH]; simpl; [split; [discriminate | tauto]|].
  rewrite orb_true_iff, Z.eqb_eq, IH; split; intros [H|H]; auto.
Qed.
Lemma memz_app : forall k a b, memz k (a ++ b) = memz k a || memz k b.
Proof. induction a; simpl; intros; [reflexivity | rewrite IHa, orb_assoc; reflexivity]. Qed.

(** reference semantics: keep the first occurrence of every element *)
Fixpoint dedup_from (seen l : list Z) : list Z :=
  match l with
  | [] => []
  | x :: r => if memz x seen then dedup_from seen r else x :: dedup_from (seen ++ [x]) r
  end.
Definition dedup_first (l : list Z) : list Z := dedup_from [] l.

Lemma fold_add_dedup : forall l s, fold_left oset_add l s = s ++ dedup_from s l.
Proof.
  induction l as [|x r IH]; intro s; simpl; [rewrite app_nil_r; reflexivity|].
  unfold oset_add at 2. destruct (memz x s); rewrite IH; [reflexivity|].
  rewrite <- app_assoc; reflexivity.
Qed.

Lemma oset_order : forall hs, fold_left oset_add hs [] = dedup_first hs.
Proof. intro hs; rewrite fold_add_dedup; reflexivity. Qed.

Lemma dedup_from_In : forall l s x, In x (dedup_from s l) <-> In x l /\ ~ In x s.
Proof.
  induction l as [|y r IH]; intros s x; simpl; [tauto|].
  destruct (memz y s) eqn:E.
  - apply memz_In in E. rewrite IH. split; [tauto|]. intros [[->|H] Hn]; tauto.
  - assert (~ In y s) by (intro H; apply memz_In in H; congruence).
    simpl. rewrite IH, in_app_iff. simpl. split.
    + intros [->|[H1 H2]]; [tauto|]. split; [tauto|]. intro; apply H2; tauto.
    + intros [[->|H1] H2]; [tauto|]. destruct (Z.eq_dec y x); [tauto|]. right; split; [assumption|]. tauto.
Qed.
Lemma dedup_from_NoDup : forall l s, NoDup (dedup_from s l).
Proof.
  induction l as [|y r IH]; intro s; simpl; [constructor|].
  destruct (memz y s); [apply IH|]. constructor; [|apply IH].
  rewrite dedup_from_In, in_app_iff; simpl; tauto.
Qed.
Lemma dedup_first_In : forall l x, In x (dedup_first l) <-> In x l.
Proof. intros; unfold dedup_first; rewrite dedup_from_In; simpl; tauto. Qed.
Lemma dedup_first_NoDup : forall l, NoDup (dedup_first l).
Proof. intro; apply dedup_from_NoDup. Qed.

Lemma dedup_from_id : forall l s, NoDup l -> (forall x, In x l -> ~ In x s) -> dedup_from s l = l.
Proof.
  induction l as [|y r IH]; intros s Hn Hd; simpl; [reflexivity|].
  inversion Hn; subst.
  destruct (memz y s) eqn:E; [apply memz_In in E; exfalso; apply (Hd y); simpl; auto|].
  f_equal. apply IH; [assumption|]. intros x Hx; rewrite in_app_iff; simpl.
  intros [H|[->|[]]]; [apply (Hd x); simpl; auto | contradiction].
Qed.
(** registering distinct listeners keeps them all, in registration order *)
Lemma dedup_first_id : forall l, NoDup l -> dedup_first l = l.
Proof. intros; apply dedup_from_id; auto. Qed.
(** registering a listener again changes nothing; a new one goes to the end *)
Lemma dedup_first_snoc : forall l x,
  dedup_first (l ++ [x]) = if memz x l then dedup_first l else dedup_first l ++ [x].
Proof.
  intros l x. rewrite <- !oset_order, fold_left_app; simpl. unfold oset_add at 1.
  rewrite !oset_order.
  replace (memz x (dedup_first l)) with (memz x l); [reflexivity|].
  destruct (memz x l) eqn:E.
  - symmetry. apply memz_In. rewrite dedup_first_In. apply memz_In. assumption.
  - destruct (memz x (dedup_first l)) eqn:F; [|reflexivity].
    apply memz_In in F. rewrite dedup_first_In in F. apply memz_In in F. congruence.
Qed.

(* ------------------------------------------------------------------ EventManager *)
Lemma em_get_set : forall m e s e', em_get (em_set m e s) e' = if ev_eqb e' e then s else em_get m e'.
Proof.
  induction m as [|[e0 s0] r IH]; intros e s e'; simpl.
  - destruct (ev_eqb e' e); reflexivity.
  - destruct (ev_eqb e e0) eqn:E; simpl.
    + apply ev_eqb_eq in E; subst. destruct (ev_eqb e' e0); reflexivity.
    + destruct (ev_eqb e' e0) eqn:F.
      * apply ev_eqb_eq in F; subst. rewrite ev_eqb_sym, E; reflexivity.
      * apply IH.
Qed.
Lemma add_listener_get : forall m e h e',
  em_get (add_listener m e h) e' = if ev_eqb e' e then oset_add (em_get m e) h else em_get m e'.
Proof. intros; unfold add_listener; apply em_get_set. Qed.

(** a manager after any sequence of add_listener calls: per event, the listeners registered
    for it, first registration of each, in registration order *)
Definition add_all (m : emgr) (ops : list (ev * lid)) : emgr :=
  fold_left (fun m p => add_listener m (fst p) (snd p)) ops m.
Definition regs_for (e : ev) (ops : list (ev * lid)) : list lid :=
  map snd (filter (fun p => ev_eqb e (fst p)) ops).
Lemma add_all_get : forall ops m e,
  em_get (add_all m ops) e = fold_left oset_add (regs_for e ops) (em_get m e).
Proof.
  induction ops as [|[e0 h] r IH]; intros m e; simpl; [reflexivity|].
  unfold add_all in *; simpl. rewrite IH, add_listener_get.
  unfold regs_for; simpl. destruct (ev_eqb e e0) eqn:E; simpl; [|reflexivity].
  apply ev_eqb_eq in E; subst; reflexivity.
Qed.
Lemma registration_order : forall ops e, em_get (add_all [] ops) e = dedup_first (regs_for e ops).
Proof. intros; rewrite add_all_get; simpl; apply oset_order. Qed.

(* ------------------------------------------------------------------ inheritance *)
Definition keys (m : emgr) : list Z := map (fun p => ev_id (fst p)) m.
Definition wf_em (m : emgr) : Prop := NoDup (keys m).

Lemma em_get_notin : forall m e, ~ In (ev_id e) (keys m) -> em_get m e = [].
Proof.
  induction m as [|[e0 s0] r IH]; intros e H; simpl in *; [reflexivity|].
  destruct (ev_eqb e e0) eqn:E; [apply ev_eqb_eq in E; subst; tauto | apply IH; tauto].
Qed.
Lemma keys_em_set : forall m e s x, In x (keys (em_set m e s)) <-> In x (keys m) \/ x = ev_id e.
Proof.
  induction m as [|[e0 s0] r IH]; intros e s x; simpl; [split; intros [H|H]; auto; tauto|].
  destruct (ev_eqb e e0) eqn:E; simpl.
  - apply ev_eqb_eq in E; subst; split; [tauto|]. intros [H|H]; auto.
  - rewrite IH; tauto.
Qed.
Lemma wf_em_set : forall m e s, wf_em m -> wf_em (em_set m e s).
Proof.
  unfold wf_em; induction m as [|[e0 s0] r IH]; intros e s H; simpl.
  - constructor; [simpl; tauto | constructor].
  - destruct (ev_eqb e e0) eqn:E; simpl; [exact H|].
    inversion H; subst. constructor; [|apply IH; assumption].
    rewrite keys_em_set. intros [H1|H1]; [tauto|]. apply ev_id_inj in H1; subst.
    rewrite ev_eqb_refl in E; discriminate.
Qed.
Lemma wf_add_listener : forall m e h, wf_em m -> wf_em (add_listener m e h).
Proof. intros; apply wf_em_set; assumption. Qed.

Lemma merge_one_get : forall acc kv e,
  em_get (merge_one acc kv) e =
  if ev_eqb e (fst kv) then fold_left oset_add (snd kv) (em_get acc (fst kv)) else em_get acc e.
Proof. intros; unfold merge_one; apply em_get_set. Qed.

Lemma merge_base_get : forall b acc e, wf_em b ->
  em_get (merge_base acc b) e = fold_left oset_add (em_get b e) (em_get acc e).
Proof.
  unfold merge_base, wf_em; induction b as [|[e0 s0] r IH]; intros acc e H; simpl; [reflexivity|].
  inversion H; subst. rewrite IH by assumption. rewrite merge_one_get; simpl.
  destruct (ev_eqb e e0) eqn:E.
  - apply ev_eqb_eq in E; subst. rewrite (em_get_notin r e0) by assumption. reflexivity.
  - reflexivity.
Qed.
Lemma wf_merge_base : forall b acc, wf_em acc -> wf_em (merge_base acc b).
Proof.
  unfold merge_base; induction b as [|kv r IH]; intros acc H; simpl; [assumption|].
  apply IH. unfold merge_one. apply wf_em_set; assumption.
Qed.
Lemma base_handlers_get_acc : forall bases acc e, Forall wf_em bases ->
  em_get (fold_left merge_base bases acc) e =
  fold_left oset_add (concat (map (fun b => em_get b e) bases)) (em_get acc e).
Proof.
  induction bases as [|b r IH]; intros acc e H; simpl; [reflexivity|].
  inversion H; subst. rewrite IH by assumption. rewrite merge_base_get by assumption.
  rewrite fold_left_app; reflexivity.
Qed.
(** the handlers a new service class starts with: those of its bases at that moment, bases
    left to right, first occurrence of each listener *)
Lemma base_handlers_get : forall bases e, Forall wf_em bases ->
  em_get (base_event_handlers bases) e = dedup_first (concat (map (fun b => em_get b e) bases)).
Proof.
  intros; unfold base_event_handlers; rewrite base_handlers_get_acc by assumption; simpl; apply oset_order.
Qed.
Lemma wf_base_handlers : forall bases, wf_em (base_event_handlers bases).
Proof.
  unfold base_event_handlers. intro bases.
  assert (G : forall acc, wf_em acc -> wf_em (fold_left merge_base bases acc)).
  { induction bases as [|b r IH]; intros acc H; simpl; [assumption | apply IH, wf_merge_base, H]. }
  apply G; constructor.
Qed.

(** every manager of a world built by a registration program has unique keys *)
Definition wf_world (w : world) : Prop :=
  wf_em (w_app w) /\ Forall wf_em (w_cls w) /\ Forall wf_em (w_meth w) /\ wf_em (w_tpt w)
  /\ wf_em (w_pin w) /\ wf_em (w_pout w).
Lemma opt_all_Forall : forall {A} (P : A -> Prop) (l : list (option A)) r,
  opt_all l = Some r -> (forall a, In (Some a) l -> P a) -> Forall P r.
Proof.
  induction l as [|[a|] l IH]; simpl; intros r H HP; [inversion H; constructor| |discriminate].
  destruct (opt_all l) eqn:E; [|discriminate]. inversion H; subst.
  constructor; [apply HP; auto | apply IH; auto].
Qed.
Lemma upd_nth_Forall : forall {A} (P : A -> Prop) f n (l l' : list A),
  upd_nth n l f = Some l' -> Forall P l -> (forall a, P a -> P (f a)) -> Forall P l'.
Proof.
  induction n; intros [|x r] l' H HF Hf; simpl in H; try discriminate.
  - inversion H; subst. inversion HF; subst. constructor; auto.
  - destruct (upd_nth n r f) eqn:E; [|discriminate]. inversion H; subst.
    inversion HF; subst. constructor; [assumption | eapply IHn; eauto].
Qed.
Lemma wf_reg_step : forall w o w', wf_world w -> reg_step w o = Some w' -> wf_world w'.
Proof.
  intros w o w' (Ha & Hc & Hm & Ht & Hi & Ho) H. destruct o as [bases| |m e h]; simpl in H.
  - destruct (opt_all _) eqn:E; [|discriminate]. inversion H; subst; clear H.
    repeat split; simpl; auto. apply Forall_app; split; [assumption|]. constructor; [|constructor].
    apply wf_base_handlers.
  - inversion H; subst; clear H. repeat split; simpl; auto.
    apply Forall_app; split; [assumption|]. constructor; [constructor | constructor].
  - destruct m; simpl in H.
    + inversion H; subst; repeat split; simpl; auto using wf_add_listener.
    + destruct (upd_nth _ _ _) eqn:E; [|discriminate]. inversion H; subst; repeat split; simpl; auto.
      eapply upd_nth_Forall; eauto using wf_add_listener.
    + destruct (upd_nth _ _ _) eqn:E; [|discriminate]. inversion H; subst; repeat split; simpl; auto.
      eapply upd_nth_Forall; eauto using wf_add_listener.
    + inversion H; subst; repeat split; simpl; auto using wf_add_listener.
    + inversion H; subst; repeat split; simpl; auto using wf_add_listener.
    + inversion H; subst; repeat split; simpl; auto using wf_add_listener.
Qed.
Lemma wf_world0 : wf_world world0.
Proof. repeat split; simpl; constructor. Qed.
Lemma wf_reg_run : forall p w w', wf_world w -> reg_run w p = Some w' -> wf_world w'.
Proof.
  induction p as [|o r IH]; simpl; intros w w' Hw H; [inversion H; subst; assumption|].
  destruct (reg_step w o) eqn:E; [|discriminate]. eapply IH; [eapply wf_reg_step; eauto | eassumption].
Qed.

Lemma opt_all_nth : forall {A} (tbl : list A) idx r,
  opt_all (map (nth_error tbl) idx) = Some r -> forall a, In a r -> In a tbl.
Proof.
  induction idx as [|i idx IH]; simpl; intros r H a Ha; [inversion H; subst; destruct Ha|].
  destruct (nth_error tbl i) eqn:E; [|discriminate].
  destruct (opt_all _) eqn:F; [|discriminate]. inversion H; subst.
  destruct Ha as [->|Ha]; [eapply nth_error_In; eauto | eapply IH; eauto].
Qed.

(** INHERITANCE.  A class statement in a well-formed world creates a class whose handlers
    for every event are exactly the handlers its bases have at that moment (bases left to
    right, each listener once), and changes no other manager *)
Lemma inherited : forall w bases w', wf_world w -> reg_step w (RNewClass bases) = Some w' ->
  exists bs, opt_all (map (nth_error (w_cls w)) bases) = Some bs
    /\ w_cls w' = w_cls w ++ [base_event_handlers bs]
    /\ (forall e, em_get (base_event_handlers bs) e = dedup_first (concat (map (fun b => em_get b e) bs)))
    /\ w_app w' = w_app w /\ w_meth w' = w_meth w /\ w_tpt w' = w_tpt w
    /\ w_pin w' = w_pin w /\ w_pout w' = w_pout w.
Proof.
  intros w bases w' (Ha & Hc & Hm & Ht & Hi & Ho) H. simpl in H.
  destruct (opt_all _) as [bs|] eqn:E; [|discriminate]. inversion H; subst; clear H.
  exists bs; simpl; repeat split; auto.
  intro e. apply base_handlers_get.
  rewrite Forall_forall in *. intros b Hb. apply Hc. eapply opt_all_nth; eauto.
Qed.
(** in particular every listener of a base is a listener of the subclass *)
Lemma inherited_member : forall bs b e h, Forall wf_em bs -> In b bs -> In h (em_get b e) ->
  In h (em_get (base_event_handlers bs) e).
Proof.
  intros. rewrite base_handlers_get by assumption. apply dedup_first_In.
  apply in_concat. exists (em_get b e); split; [apply in_map_iff; eauto | assumption].
Qed.

(* ------------------------------------------------------------------ firing *)
Lemma call_all_app : forall b e l1 l2,
  call_all b e (l1 ++ l2) =
  let '(t, x) := call_all b e l1 in
  match x with Some k => (t, Some k) | None => let '(t', x') := call_all b e l2 in (t ++ t', x') end.
Proof.
  induction l1 as [|h r IH]; intro l2; simpl.
  - destruct (call_all b e l2); reflexivity.
  - destruct (b h e); [reflexivity|]. rewrite IH.
    destruct (call_all b e r) as [t [k|]]; [reflexivity|].
    destruct (call_all b e l2); reflexivity.
Qed.
(** firing over several managers = one loop over the concatenated handler lists *)
Lemma fire_mgrs_concat : forall b e ms,
  fire_mgrs b ms e = call_all b e (concat (map (fun m => em_get m e) ms)).
Proof.
  induction ms as [|m r IH]; simpl; [reflexivity|].
  rewrite call_all_app. unfold em_fire. destruct (call_all b e (em_get m e)) as [t [k|]]; [reflexivity|].
  rewrite IH. reflexivity.
Qed.
(** a loop over handlers: if none raises all are called, in order; otherwise exactly the
    prefix up to and including the first one that raises *)
Lemma call_all_quiet : forall b e hs, (forall h, In h hs -> b h e = None) -> call_all b e hs = (hs, None).
Proof.
  induction hs as [|h r IH]; intro H; simpl; [reflexivity|].
  rewrite (H h) by (simpl; auto). rewrite IH by (intros; apply H; simpl; auto). reflexivity.
Qed.
Lemma call_all_shape : forall b e hs cs x, call_all b e hs = (cs, x) ->
  match x with
  | None => cs = hs /\ forall h, In h hs -> b h e = None
  | Some k => exists pre h post, hs = pre ++ h :: post /\ cs = pre ++ [h] /\ b h e = Some k
                                 /\ forall h', In h' pre -> b h' e = None
  end.
Proof.
  induction hs as [|h r IH]; intros cs x H; simpl in H.
  - inversion H; subst; split; [reflexivity | intros ? []].
  - destruct (b h e) eqn:E.
    + inversion H; subst. exists [], h, r; simpl; repeat split; auto. intros ? [].
    + destruct (call_all b e r) as [t y] eqn:F. inversion H; subst. specialize (IH _ _ eq_refl).
      destruct x as [k|].
      * destruct IH as (pre & h0 & post & -> & -> & Hk & Hp).
        exists (h :: pre), h0, post; simpl; repeat split; auto.
        intros h' [<-|Hh]; auto.
      * destruct IH as [-> Hq]; split; [reflexivity|]. intros h' [<-|Hh]; auto.
Qed.
