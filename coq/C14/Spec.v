(** C14 — the specification acceptor (the property text as a decision procedure on traces)
    and the admissible injections.  Definitions only. *)
From SpyneV Require Export C14.Model.

(** method-level view of a trace: the events a listener on the application / service / method
    managers can be registered for, and the user function *)
Inductive tok := TEv (e : ev) (ok : bool) | TFunc.
Definition is_noneb {A} (x : option A) : bool := match x with None => true | Some _ => false end.
Definition tok_of (i : fitem) : list tok :=
  match i with
  | FFire TCtx e _ _ r => [TEv e (is_noneb r)]
  | FFire TApp e _ _ r => [TEv e (is_noneb r)]
  | FFire _ _ _ _ _ => []
  | FFunc => [TFunc]
  end.
Definition mtoks (t : list fitem) : list tok := flat_map tok_of t.

Definition tok_is (e : ev) (x : tok) : bool := match x with TEv e' _ => ev_eqb e e' | TFunc => false end.
Definition tok_is_ok (e : ev) (x : tok) : bool := match x with TEv e' ok => ev_eqb e e' && ok | TFunc => false end.
Definition tok_is_func (x : tok) : bool := match x with TFunc => true | _ => false end.
Definition count_ev (e : ev) (l : list tok) : Z := Z.of_nat (length (filter (tok_is e) l)).
Definition count_func (l : list tok) : Z := Z.of_nat (length (filter tok_is_func l)).
Definition fired (e : ev) (l : list tok) : bool := 0 <? count_ev e l.
Definition hd_is (e : ev) (l : list tok) : bool := match l with x :: _ => tok_is_ok e x | [] => false end.

(** the user function only runs after a method_call firing that completed *)
Fixpoint func_after_call (seen : bool) (l : list tok) : bool :=
  match l with
  | [] => true
  | TFunc :: r => seen && func_after_call seen r
  | TEv e ok :: r => func_after_call (seen || (ev_eqb e Ecall && ok)) r
  end.

(** the trace ends with exactly these events, in this order, each completed *)
Fixpoint starts_with (es : list ev) (l : list tok) : bool :=
  match es, l with
  | [], _ => true
  | e :: es', x :: l' => tok_is_ok e x && starts_with es' l'
  | _ :: _, [] => false
  end.
Definition ends_with (es : list ev) (l : list tok) : bool := starts_with (rev es) (rev l).
Definition none_of (es : list ev) (l : list tok) : bool := forallb (fun e => negb (fired e l)) es.

Definition all_ev : list ev :=
  [Ecreated; Eclosed; Ecall; Eret_obj; Eexc_obj; Eret_doc; Eexc_doc; Eret_str; Eexc_str;
   Eredirect; Eredirect_exc; Eret_push; Ebefore_deser; Eafter_deser; Ebefore_ser; Eafter_ser;
   Ewsgi_call; Ewsgi_return; Ewsgi_exception; Ewsgi_close].

(** only method_call / method_return_object firings may end in an exception *)
Definition raises_only_call_ret (l : list tok) : bool :=
  forallb (fun x => match x with TEv e false => ev_eqb e Ecall || ev_eqb e Eret_obj | _ => true end) l.

(** THE PROPERTY, clause by clause.  [fn_ok]: the scenario lets the function return normally;
    [fault]: the call ended in a fault. *)
Definition spec_ok (fn_ok : bool) (fault : bool) (l : list tok) : bool :=
  (* "listeners see method_context_created first and method_context_closed last, each exactly once" *)
  hd_is Ecreated l && ends_with [Eclosed] l && (count_ev Ecreated l =? 1) && (count_ev Eclosed l =? 1)
  (* "the user function runs at most once and only after method_call" *)
  && (count_func l <=? 1) && func_after_call false l
  (* "method_return_object fires exactly when the function returned normally" *)
  && Bool.eqb (fired Eret_obj l) ((0 <? count_func l) && fn_ok)
  (* "method_exception_object exactly when the call ends in a fault" *)
  && Bool.eqb (fired Eexc_obj l) fault
  (* "followed by the matching document and string events in that order" *)
  && (if fault
      then ends_with [Eexc_obj; Eexc_doc; Eexc_str; Eclosed] l && none_of [Eret_doc; Eret_str] l
      else ends_with [Eret_obj; Eret_doc; Eret_str; Eclosed] l && none_of [Eexc_obj; Eexc_doc; Eexc_str] l)
  (* no event fires twice; nothing but the injected listeners raised *)
  && forallb (fun e => count_ev e l <=? 1) all_ev
  && raises_only_call_ret l.

(** the same call seen from the protocol and transport managers (WSGI): wsgi_call right after
    the context is created, exactly one of wsgi_return / wsgi_exception (matching the outcome)
    right before the context is closed, wsgi_close right after; deserialisation completed
    before the function ran; a document event is preceded by a before_serialize *)
Inductive ftok := XEv (t : target) (e : ev) | XFunc.
Definition ftok_of (i : fitem) : ftok := match i with FFire t e _ _ _ => XEv t e | FFunc => XFunc end.
Definition ftok_is (t : target) (e : ev) (x : ftok) : bool :=
  match x with XEv t' e' => target_eqb t t' && ev_eqb e e' | XFunc => false end.
Fixpoint fstarts (es : list (target * ev)) (l : list ftok) : bool :=
  match es, l with
  | [], _ => true
  | (t, e) :: es', x :: l' => ftok_is t e x && fstarts es' l'
  | _ :: _, [] => false
  end.
Definition fcount (t : target) (e : ev) (l : list ftok) : Z := Z.of_nat (length (filter (ftok_is t e) l)).
(** [b] never occurs unless [a] occurred earlier *)
Fixpoint preceded (a b : ftok -> bool) (seen : bool) (l : list ftok) : bool :=
  match l with
  | [] => true
  | x :: r => (negb (b x) || seen) && preceded a b (seen || a x) r
  end.
Definition is_doc_ev (x : ftok) : bool := ftok_is TCtx Eret_doc x || ftok_is TCtx Eexc_doc x.
Definition is_xfunc (x : ftok) : bool := match x with XFunc => true | _ => false end.

Definition wsgi_ok (fault : bool) (t : list fitem) : bool :=
  let l := map ftok_of t in
  fstarts [(TCtx, Ecreated); (TTpt, Ewsgi_call)] l
  && fstarts [(TTpt, Ewsgi_close); (TApp, Eclosed); (TTpt, if fault then Ewsgi_exception else Ewsgi_return)] (rev l)
  && (fcount TTpt Ewsgi_call l =? 1) && (fcount TTpt Ewsgi_close l =? 1)
  && (fcount TTpt Ewsgi_return l =? (if fault then 0 else 1))
  && (fcount TTpt Ewsgi_exception l =? (if fault then 1 else 0))
  && preceded (ftok_is TPin Eafter_deser) is_xfunc false l
  && preceded (ftok_is TPin Ebefore_deser) (ftok_is TPin Eafter_deser) false l
  && preceded (ftok_is TPout Ebefore_ser) is_doc_ev false l
  && (fcount TPin Ebefore_deser l <=? 1) && (fcount TPin Eafter_deser l <=? 1).

(* ------------------------------------------------------------------ the frame of a call, item level *)
(** items a listener on the application / service / method managers can see *)
Definition is_method_item (i : fitem) : bool :=
  match i with FFire TCtx _ _ _ _ | FFire TApp _ _ _ _ | FFunc => true | _ => false end.
Definition is_ev_item (e : ev) (i : fitem) : bool :=
  match i with
  | FFire TCtx e' _ _ _ => ev_eqb e e'
  | FFire TApp e' _ _ _ => ev_eqb e e'
  | _ => false
  end.
Fixpoint drop_nonmethod (l : list fitem) : list fitem :=
  match l with
  | [] => []
  | i :: r => if is_method_item i then l else drop_nonmethod r
  end.
(** the trace is: the method_context_created firing of the constructor (descriptor unset, so it
    reaches the application's manager only), then items among which neither created nor closed
    is fired, then the method_context_closed firing on the application's manager, then only
    protocol / transport items; both firings complete *)
Definition frame_ok (t : list fitem) : bool :=
  match t with
  | FFire TCtx Ecreated false _ None :: r =>
      match drop_nonmethod (rev r) with
      | FFire TApp Eclosed _ _ None :: m =>
          forallb (fun i => negb (is_ev_item Ecreated i || is_ev_item Eclosed i)) m
      | _ => false
      end
  | _ => false
  end.

(** the listeners a firing reaches, in calling order *)
Definition handlers_reached (parts : list fpart) (w : world) (dms : list emgr)
           (t : target) (e : ev) (d : bool) : list lid :=
  match t with
  | TCtx => concat (map (fun m => em_get m e) (ctx_managers parts w dms d))
  | TApp => em_get (w_app w) e
  | TTpt => em_get (w_tpt w) e
  | TPin => em_get (w_pin w) e
  | TPout => em_get (w_pout w) e
  end.

(** what the listeners of the application / service / method managers are called with, and
    the user function, in order *)
Definition method_calls_of (i : fitem) : list call :=
  match i with
  | FFire TCtx e _ cs _ => map (LCall e) cs
  | FFire TApp e _ cs _ => map (LCall e) cs
  | FFire _ _ _ _ _ => []
  | FFunc => [LFunc]
  end.
Definition method_calls (t : list fitem) : list call := flat_map method_calls_of t.
Definition call_is (e : ev) (c : call) : bool := match c with LCall e' _ => ev_eqb e e' | LFunc => false end.

(* ------------------------------------------------------------------ admissible injections *)
(** the injection alphabet of the property: parsing / envelope / dispatch / argument failures
    are Faults (a non-Fault exception escaping a parser is C10's subject); the function raises
    a Fault or any other Exception (a Redirect is a different documented flow); an
    unserialisable return value (any exception) only where a transport handles it (WSGI);
    none of the generator / push / MTOM machinery *)
Definition parse_adm (x : option exk) : bool := match x with None | Some KFault => true | _ => false end.
Definition raise_adm (x : option exk) : bool := match x with None | Some KFault | Some KOther => true | _ => false end.
Definition scen_adm (wsgi : bool) (sc : scen) : bool :=
  parse_adm (sc_recon sc) && parse_adm (sc_create sc) && parse_adm (sc_decomp sc) && parse_adm (sc_dispatch sc) && parse_adm (sc_deser sc)
  && raise_adm (sc_fn sc) && raise_adm (sc_ser sc) && (wsgi || is_noneb (sc_ser sc))
  && negb (sc_opaque sc).

(** listeners: only method_call and method_return_object listeners raise, a Fault or another
    Exception.  [quiet_beh] is the hypothesis on listener behaviours (what each callable does
    for each event); [quiet] the same on a fire function. *)
Definition quiet_beh (b : beh) : Prop :=
  forall h e k, b h e = Some k -> (e = Ecall \/ e = Eret_obj) /\ (k = KFault \/ k = KOther).
Definition quiet (fire : target -> ev -> bool -> list lid * option exk) : Prop :=
  forall t e d k, snd (fire t e d) = Some k -> (e = Ecall \/ e = Eret_obj) /\ (k = KFault \/ k = KOther).
