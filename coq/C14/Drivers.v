(** C14 — the two drivers of a call.  Definitions only.
    WSGI: the generated WsgiApplication.handle_rpc.  ServerBase: the call sequence every
    ServerBase transport performs (spyne/server/zeromq.py serve_forever is the reference;
    harness/c14.py drives the real ServerBase with exactly this sequence). *)
From SpyneV Require Export C14.Model Gen.Pipeline.

Definition drv_wsgi : stmt := Call g_handle_rpc.

(**   initial_ctx = MethodContext(self, SERVER)
      contexts = self.generate_contexts(initial_ctx); p_ctx = contexts[0]
      if p_ctx.in_error: pass
      else: self.get_in_object(p_ctx)
            if p_ctx.in_error: pass
            else: self.get_out_object(p_ctx)
      self.get_out_string(p_ctx)
      p_ctx.close() *)
Definition drv_serverbase : stmt :=
  seq [Call g_ctx_init;
       Call g_generate_contexts;
       If (CNotNone VInError) Skip
          (seq [Call g_get_in_object;
                If (CNotNone VInError) Skip (Call g_get_out_object)]);
       Call g_get_out_string_pull;
       Call g_close].

Inductive driver := DWsgi | DServerBase.
Definition driver_prog (d : driver) : stmt :=
  match d with DWsgi => drv_wsgi | DServerBase => drv_serverbase end.
