(** C14 — what a correspondence case is and how the model is run on it.  Definitions only.
    A case carries: the driver, the registration program (class statements, add_listener
    calls) that built the managers, the descriptor of the called method, what each listener
    does, the outcome of every library step the real run went through (observed, not
    assumed), the out protocol, and the firing-level trace and result the real code produced. *)
From SpyneV Require Export C14.Model C14.Drivers.

Fixpoint lz_eqb (a b : list Z) : bool :=
  match a, b with
  | [], [] => true
  | x :: a', y :: b' => (x =? y) && lz_eqb a' b'
  | _, _ => false
  end.
Definition fitem_eqb (a b : fitem) : bool :=
  match a, b with
  | FFire t e d c r, FFire t' e' d' c' r' =>
      target_eqb t t' && ev_eqb e e' && Bool.eqb d d' && lz_eqb c c' && oexk_eqb r r'
  | FFunc, FFunc => true
  | _, _ => false
  end.
Fixpoint trace_eqb (a b : list fitem) : bool :=
  match a, b with
  | [], [] => true
  | x :: a', y :: b' => fitem_eqb x y && trace_eqb a' b'
  | _, _ => false
  end.

(** listener behaviours as a finite table: (listener, event, what it raises); others return *)
Fixpoint beh_of (tbl : list (lid * ev * exk)) : beh :=
  fun h e =>
    match tbl with
    | [] => None
    | (h', e', k) :: r => if (h =? h') && ev_eqb e e' then Some k else beh_of r h e
    end.

Fixpoint flags_of (tbl : list (proto * (bool * bool))) (p : proto) : option (bool * bool) :=
  match tbl with
  | [] => None
  | (p', f) :: r => if proto_eqb p p' then Some f else flags_of r p
  end.

Definition injections := (option exk * option exk * option exk * option exk * option exk * option exk * option exk * option exk)%type.
Definition mk_scen (i : injections) (af dc : bool) : scen :=
  let '(rc, cr, de, di, ds, fn, se, rd) := i in
  {| sc_recon := rc; sc_create := cr; sc_decomp := de; sc_dispatch := di; sc_deser := ds; sc_fn := fn; sc_ser := se;
     sc_redirect := rd; sc_after_on_fault := af; sc_doc_early := dc; sc_opaque := false |}.

Definition ccase := (driver * list regop * desc * list (lid * ev * exk) * injections * proto
                     * list fitem * result)%type.

Definition model_run (c : ccase) : option (list fitem * result * bool) :=
  let '(drv, prog, d, tbl, inj, outp, _, _) := c in
  match reg_run world0 prog, flags_of g_proto_flags outp with
  | Some w, Some (af, dc) =>
      match desc_managers g_desc_parts w d with
      | Some dms => Some (run (fire_world g_ctx_fire_parts w dms (beh_of tbl)) (mk_scen inj af dc) (driver_prog drv))
      | None => None
      end
  | _, _ => None
  end.

Definition case_ok (c : ccase) : bool :=
  let '(_, _, _, _, _, _, tr, res) := c in
  match model_run c with
  | Some (t, r, unmod) => negb unmod && trace_eqb t tr && result_eqb r res
  | None => false
  end.

(** the managers a registration program builds, listed per event: what the registration
    correspondence compares with [list(mgr.handlers[event])] of the real managers *)
Definition handlers_of (prog : list regop) (m : mref) (e : ev) : option (list lid) :=
  match reg_run world0 prog with
  | Some w =>
      match m with
      | MApp => Some (em_get (w_app w) e)
      | MSvc c => match nth_error (w_cls w) c with Some x => Some (em_get x e) | None => None end
      | MMeth k => match nth_error (w_meth w) k with Some x => Some (em_get x e) | None => None end
      | MTpt => Some (em_get (w_tpt w) e)
      | MPin => Some (em_get (w_pin w) e)
      | MPout => Some (em_get (w_pout w) e)
      end
  | None => None
  end.
Definition olz_eqb (a b : option (list Z)) : bool :=
  match a, b with Some x, Some y => lz_eqb x y | None, None => true | _, _ => false end.
Definition reg_ok (c : list regop * mref * ev * option (list lid)) : bool :=
  let '(prog, m, e, obs) := c in olz_eqb (handlers_of prog m e) obs.
