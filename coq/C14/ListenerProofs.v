(** C14 — from firings to listeners: which listeners a firing calls and in which order
    (any managers, any behaviours), no listener twice in a manager after ANY registration
    program (induction over the program), and the listener-level frame of a call
    (method_context_created listeners first, method_context_closed listeners last). *)
From Coq Require Import ZArith List Bool Lia.
From SpyneV Require Import C14.Model C14.Spec C14.Drivers C14.Sweep C14.OSetProofs C14.Proofs.
Import ListNotations.
Open Scope Z_scope.

(* ------------------------------------------------------------------ a firing = one loop over the handlers reached *)
Lemma fire_world_call_all : forall parts w dms b t e d,
  fire_world parts w dms b t e d = call_all b e (handlers_reached parts w dms t e d).
Proof. intros parts w dms b t e d; destruct t; simpl; [apply fire_mgrs_concat | | | |]; reflexivity. Qed.

(** every listener reached is called, once, in the order of the handler lists — up to and
    including the first one that raises *)
Theorem listeners_in_order : forall parts w dms b t e d calls r,
  fire_world parts w dms b t e d = (calls, r) ->
  let hs := handlers_reached parts w dms t e d in
  match r with
  | None => calls = hs /\ forall h, In h hs -> b h e = None
  | Some k => exists pre h post, hs = pre ++ h :: post /\ calls = pre ++ [h] /\ b h e = Some k
                                 /\ forall h', In h' pre -> b h' e = None
  end.
Proof.
  intros parts w dms b t e d calls r H. rewrite fire_world_call_all in H.
  exact (call_all_shape _ _ _ _ _ H).
Qed.

(* ------------------------------------------------------------------ no listener twice in a manager *)
Definition nodup_em (m : emgr) : Prop := forall e, NoDup (em_get m e).

Lemma oset_add_NoDup : forall s k, NoDup s -> NoDup (oset_add s k).
Proof.
  intros s k H. unfold oset_add. destruct (memz k s) eqn:E; [assumption|].
  assert (~ In k s) by (intro I; apply memz_In in I; congruence).
  clear E. induction s as [|x r IH]; simpl.
  - constructor; [intros [] | constructor].
  - inversion H; subst. constructor.
    + rewrite in_app_iff; simpl. intros [I|[I|[]]]; [contradiction | subst; apply H0; simpl; auto].
    + apply IH; [assumption | intro; apply H0; simpl; auto].
Qed.
Lemma nodup_add_listener : forall m e h, nodup_em m -> nodup_em (add_listener m e h).
Proof.
  intros m e h H e'. rewrite add_listener_get. destruct (ev_eqb e' e); [apply oset_add_NoDup, H | apply H].
Qed.
Lemma nodup_base_handlers : forall bs, Forall wf_em bs -> nodup_em (base_event_handlers bs).
Proof. intros bs H e. rewrite base_handlers_get by assumption. apply dedup_first_NoDup. Qed.
Lemma nodup_nil : nodup_em [].
Proof. intro e; simpl; constructor. Qed.

Definition nodup_world (w : world) : Prop :=
  nodup_em (w_app w) /\ Forall nodup_em (w_cls w) /\ Forall nodup_em (w_meth w) /\ nodup_em (w_tpt w)
  /\ nodup_em (w_pin w) /\ nodup_em (w_pout w).

Lemma nodup_reg_step : forall w o w', wf_world w -> nodup_world w -> reg_step w o = Some w' -> nodup_world w'.
Proof.
  intros w o w' (Wa & Wc & Wm & Wt & Wi & Wo) (Ha & Hc & Hm & Ht & Hi & Ho) H.
  destruct o as [bases| |m e h]; simpl in H.
  - destruct (opt_all _) as [bs|] eqn:E; [|discriminate]. inversion H; subst; clear H.
    repeat split; simpl; auto. apply Forall_app; split; [assumption|]. constructor; [|constructor].
    apply nodup_base_handlers. rewrite Forall_forall in *. intros x Hx. apply Wc. eapply opt_all_nth; eauto.
  - inversion H; subst; clear H. repeat split; simpl; auto.
    apply Forall_app; split; [assumption|]. constructor; [apply nodup_nil | constructor].
  - destruct m; simpl in H.
    + inversion H; subst; repeat split; simpl; auto using nodup_add_listener.
    + destruct (upd_nth _ _ _) eqn:E; [|discriminate]. inversion H; subst; repeat split; simpl; auto.
      eapply upd_nth_Forall; eauto using nodup_add_listener.
    + destruct (upd_nth _ _ _) eqn:E; [|discriminate]. inversion H; subst; repeat split; simpl; auto.
      eapply upd_nth_Forall; eauto using nodup_add_listener.
    + inversion H; subst; repeat split; simpl; auto using nodup_add_listener.
    + inversion H; subst; repeat split; simpl; auto using nodup_add_listener.
    + inversion H; subst; repeat split; simpl; auto using nodup_add_listener.
Qed.
Lemma nodup_world0 : nodup_world world0.
Proof. repeat split; simpl; auto using nodup_nil. Qed.
Lemma nodup_reg_run : forall p w w', wf_world w -> nodup_world w -> reg_run w p = Some w' -> nodup_world w'.
Proof.
  induction p as [|o r IH]; simpl; intros w w' Ww Hw H; [inversion H; subst; assumption|].
  destruct (reg_step w o) as [w1|] eqn:E; [|discriminate].
  eapply IH; [eapply wf_reg_step; eauto | eapply nodup_reg_step; eauto | eassumption].
Qed.
(** after ANY registration program, no manager lists a listener twice for an event *)
Theorem world_handlers_nodup : forall prog w, reg_run world0 prog = Some w -> nodup_world w.
Proof. intros prog w H. eapply nodup_reg_run; eauto using wf_world0, nodup_world0. Qed.

(** registering a listener that is already registered changes nothing *)
Theorem registered_twice_runs_once : forall m e h, In h (em_get m e) ->
  forall e', em_get (add_listener m e h) e' = em_get m e'.
Proof.
  intros m e h H e'. rewrite add_listener_get. destruct (ev_eqb e' e) eqn:E; [|reflexivity].
  apply ev_eqb_eq in E; subst. unfold oset_add. apply memz_In in H. rewrite H. reflexivity.
Qed.

(* ------------------------------------------------------------------ provenance of trace items *)
Section Prov.
  Variable fire : target -> ev -> bool -> list lid * option exk.
  Variable sc : scen.
  Definition from_fire (i : fitem) : Prop :=
    match i with FFire t e d c r => fire t e d = (c, r) | FFunc => True end.

  Lemma do_fire_from : forall t e s, Forall from_fire (fst (fst (do_fire fire t e s))).
  Proof.
    intros t e s. unfold do_fire. destruct (fire t e _) as [c r] eqn:E. simpl.
    constructor; [exact E | constructor].
  Qed.

  Lemma exec_from_fire : forall p s cur, Forall from_fire (fst (fst (exec fire sc p s cur))).
  Proof.
    induction p; intros s cur; simpl; try (constructor; fail).
    - specialize (IHp1 s cur). destruct (exec fire sc p1 s cur) as [[t1 s1] g1]. simpl in *.
      destruct g1; try assumption.
      specialize (IHp2 s1 cur). destruct (exec fire sc p2 s1 cur) as [[t2 s2] g2]. simpl in *.
      apply Forall_app; auto.
    - apply do_fire_from.
    - apply do_fire_from.
    - constructor; [exact I | constructor].
    - destruct cur; simpl; constructor.
    - destruct (eval sc c s); auto.
    - specialize (IHp1 s cur). destruct (exec fire sc p1 s cur) as [[t1 s1] g1]. simpl in *.
      destruct g1; try assumption.
      specialize (IHp2 s1 (Some k)). destruct (exec fire sc p2 s1 (Some k)) as [[t2 s2] g2]. simpl in *.
      apply Forall_app; auto.
    - destruct cur as [k|]; [destruct (isinst k c)|]; auto.
    - specialize (IHp s None). destruct (exec fire sc p s None) as [[t1 s1] g1]. simpl in *. assumption.
  Qed.

  Lemma run_from_fire : forall p, Forall from_fire (fst (fst (run fire sc p))).
  Proof.
    intro p. unfold run. pose proof (exec_from_fire p st0 None) as H.
    destruct (exec fire sc p st0 None) as [[t s] g]. simpl in *. exact H.
  Qed.
End Prov.

(* ------------------------------------------------------------------ the frame *)
Lemma forallb_rev : forall {A} (p : A -> bool) l, forallb p (rev l) = forallb p l.
Proof.
  induction l as [|x r IH]; simpl; [reflexivity|].
  rewrite forallb_app, IH; simpl. rewrite andb_true_r. apply andb_comm.
Qed.
Lemma drop_nonmethod_split : forall l, exists pre,
  l = pre ++ drop_nonmethod l /\ forallb (fun i => negb (is_method_item i)) pre = true.
Proof.
  induction l as [|i r IH]; simpl; [exists []; auto|].
  destruct (is_method_item i) eqn:E.
  - exists []; auto.
  - destruct IH as (pre & Hl & Hp). exists (i :: pre); simpl. rewrite E; simpl. split; [f_equal; assumption | assumption].
Qed.

Lemma frame_ok_inv : forall t, frame_ok t = true ->
  exists c0 d1 c1 mid post,
    t = FFire TCtx Ecreated false c0 None :: mid ++ FFire TApp Eclosed d1 c1 None :: post
    /\ forallb (fun i => negb (is_method_item i)) post = true
    /\ forallb (fun i => negb (is_ev_item Ecreated i || is_ev_item Eclosed i)) mid = true.
Proof.
  intros [|i r] H; [discriminate|]. simpl in H.
  destruct i as [t e d cs x|]; [|discriminate].
  destruct t; try discriminate. destruct e; try discriminate. destruct d; try discriminate.
  destruct x; try discriminate.
  destruct (drop_nonmethod_split (rev r)) as (pre & Hr & Hpre).
  destruct (drop_nonmethod (rev r)) as [|j m]; [discriminate|].
  destruct j as [t' e' d' cs' x'|]; [|discriminate].
  destruct t'; try discriminate. destruct e'; try discriminate. destruct x'; try discriminate.
  exists cs, d', cs', (rev m), (rev pre). repeat split.
  - f_equal. rewrite <- (rev_involutive r), Hr, rev_app_distr. simpl. rewrite <- app_assoc. reflexivity.
  - rewrite forallb_rev. assumption.
  - rewrite forallb_rev. assumption.
Qed.

Lemma method_calls_app : forall a b, method_calls (a ++ b) = method_calls a ++ method_calls b.
Proof. intros; unfold method_calls; apply flat_map_app. Qed.
Lemma method_calls_nonmethod : forall l, forallb (fun i => negb (is_method_item i)) l = true -> method_calls l = [].
Proof.
  induction l as [|i r IH]; simpl; intro H; [reflexivity|].
  apply andb_true_iff in H; destruct H as [Hi Hr]. unfold method_calls in *; simpl. rewrite (IH Hr).
  destruct i as [t e d cs x|]; [destruct t|]; simpl in *; try reflexivity; discriminate.
Qed.
Lemma method_calls_no_ev : forall e l, forallb (fun i => negb (is_ev_item e i)) l = true ->
  forallb (fun c => negb (call_is e c)) (method_calls l) = true.
Proof.
  induction l as [|i r IH]; simpl; intro H; [reflexivity|].
  apply andb_true_iff in H; destruct H as [Hi Hr]. unfold method_calls in *; simpl.
  rewrite forallb_app, (IH Hr), andb_true_r.
  destruct i as [t e' d cs x|]; [|reflexivity].
  destruct t; simpl in *; try reflexivity;
    (induction cs as [|c cs' IHc]; simpl; [reflexivity | rewrite Hi; simpl; exact IHc]).
Qed.

Lemma verdict_frame : forall drv sc t res u, verdict drv sc (t, res, u) = true -> frame_ok t = true.
Proof.
  intros drv sc t res u H. unfold verdict in H. destruct res; [|discriminate].
  repeat (apply andb_true_iff in H; destruct H as [H ?]). assumption.
Qed.

(** LISTENER-LEVEL FRAME.  What the listeners of the application / service / method managers
    and the user function see, in order, is: every method_context_created listener of the
    application (registration order, once each), then calls among which none is for
    method_context_created or method_context_closed, then every method_context_closed listener
    of the application — for both drivers, every admissible injection, every set of managers
    and every behaviour in the alphabet *)
Theorem created_first_closed_last : forall drv sc parts w dms b,
  scen_adm (is_wsgi drv) sc = true -> quiet_beh b ->
  exists mid,
    method_calls (fst (fst (run (fire_world parts w dms b) sc (driver_prog drv)))) =
      map (LCall Ecreated) (handlers_reached parts w dms TCtx Ecreated false)
      ++ mid ++ map (LCall Eclosed) (em_get (w_app w) Eclosed)
    /\ forallb (fun c => negb (call_is Ecreated c || call_is Eclosed c)) mid = true.
Proof.
  intros drv sc parts w dms b Hadm Hq.
  pose proof (trace_ok drv sc parts w dms b Hadm Hq) as V.
  pose proof (run_from_fire (fire_world parts w dms b) sc (driver_prog drv)) as P.
  destruct (run (fire_world parts w dms b) sc (driver_prog drv)) as [[t res] u]. simpl in *.
  apply verdict_frame in V.
  destruct (frame_ok_inv t V) as (c0 & d1 & c1 & mid & post & Ht & Hpost & Hmid). subst t.
  inversion P as [|i0 l0 F0 Prest]; subst. unfold from_fire in F0.
  apply Forall_app in Prest; destruct Prest as [_ Pc]. inversion Pc as [|i1 l1 F1 _]; subst. unfold from_fire in F1.
  pose proof (listeners_in_order parts w dms b TCtx Ecreated false c0 None F0) as [E0 _].
  pose proof (listeners_in_order parts w dms b TApp Eclosed d1 c1 None F1) as [E1 _]. simpl in E1. subst c0 c1.
  exists (method_calls mid). split.
  - change (FFire TCtx Ecreated false (handlers_reached parts w dms TCtx Ecreated false) None
            :: mid ++ FFire TApp Eclosed d1 (em_get (w_app w) Eclosed) None :: post)
      with ([FFire TCtx Ecreated false (handlers_reached parts w dms TCtx Ecreated false) None]
            ++ mid ++ [FFire TApp Eclosed d1 (em_get (w_app w) Eclosed) None] ++ post).
    rewrite !method_calls_app, (method_calls_nonmethod post Hpost), app_nil_r.
    unfold method_calls at 1 3; simpl. rewrite !app_nil_r. reflexivity.
  - assert (A : forallb (fun i => negb (is_ev_item Ecreated i)) mid = true
                /\ forallb (fun i => negb (is_ev_item Eclosed i)) mid = true).
    { clear -Hmid. induction mid as [|i r IH]; simpl in *; [auto|].
      apply andb_true_iff in Hmid; destruct Hmid as [Hi Hr]. destruct (IH Hr) as [I1 I2].
      rewrite I1, I2. apply negb_true_iff, orb_false_iff in Hi. destruct Hi as [-> ->]. auto. }
    destruct A as [A1 A2].
    pose proof (method_calls_no_ev Ecreated mid A1) as B1.
    pose proof (method_calls_no_ev Eclosed mid A2) as B2.
    clear -B1 B2. induction (method_calls mid) as [|c r IH]; simpl in *; [reflexivity|].
    apply andb_true_iff in B1; destruct B1 as [C1 R1]. apply andb_true_iff in B2; destruct B2 as [C2 R2].
    rewrite (IH R1 R2), andb_true_r. apply negb_true_iff in C1, C2. rewrite C1, C2. reflexivity.
Qed.

(* ------------------------------------------------------------------ the handlers of a class within any program *)
(** the add_listener calls a program makes on service class [c] for event [e], in order *)
Definition own_regs (c : nat) (e : ev) (p : list regop) : list lid :=
  flat_map (fun o => match o with
                     | RAdd (MSvc c') e' h => if Nat.eqb c c' && ev_eqb e e' then [h] else []
                     | _ => []
                     end) p.

Lemma upd_nth_nth : forall {A} (f : A -> A) n (l l' : list A) k,
  upd_nth n l f = Some l' ->
  nth_error l' k = if Nat.eqb k n then option_map f (nth_error l k) else nth_error l k.
Proof.
  induction n; intros [|x r] l' k H; simpl in H; try discriminate.
  - inversion H; subst. destruct k; reflexivity.
  - destruct (upd_nth n r f) as [r'|] eqn:E; [|discriminate]. inversion H; subst.
    destruct k; simpl; [reflexivity|]. apply IHn; assumption.
Qed.

Lemma reg_step_class_get : forall o w w' c m e, reg_step w o = Some w' -> nth_error (w_cls w) c = Some m ->
  exists m', nth_error (w_cls w') c = Some m'
             /\ em_get m' e = fold_left oset_add (own_regs c e [o]) (em_get m e).
Proof.
  intros o w w' c m e H Hc. destruct o as [bases| |mr e' h]; simpl in H.
  - destruct (opt_all _); [|discriminate]. inversion H; subst; simpl.
    exists m. split; [|reflexivity]. rewrite nth_error_app1; [assumption|].
    apply nth_error_Some. congruence.
  - inversion H; subst; simpl. exists m; auto.
  - destruct mr; simpl in H;
      try (inversion H; subst; simpl; exists m; split; [assumption | reflexivity]).
    + destruct (upd_nth c0 (w_cls w) _) as [l|] eqn:E; [|discriminate]. inversion H; subst; simpl.
      rewrite (upd_nth_nth _ _ _ _ c E). unfold own_regs; simpl.
      destruct (Nat.eqb c c0) eqn:N.
      * rewrite Hc; simpl. eexists; split; [reflexivity|]. rewrite add_listener_get.
        apply Nat.eqb_eq in N; subst. destruct (ev_eqb e e') eqn:Ee; [apply ev_eqb_eq in Ee; subst|]; reflexivity.
      * exists m; split; [assumption | reflexivity].
    + destruct (upd_nth k (w_meth w) _) as [l|] eqn:E; [|discriminate]. inversion H; subst; simpl.
      exists m; split; [assumption | reflexivity].
Qed.

Lemma own_regs_cons : forall c e o p, own_regs c e (o :: p) = own_regs c e [o] ++ own_regs c e p.
Proof. intros; unfold own_regs; simpl; rewrite app_nil_r; reflexivity. Qed.

Lemma reg_run_class_get : forall post w w' c m e, reg_run w post = Some w' -> nth_error (w_cls w) c = Some m ->
  exists m', nth_error (w_cls w') c = Some m'
             /\ em_get m' e = fold_left oset_add (own_regs c e post) (em_get m e).
Proof.
  induction post as [|o r IH]; intros w w' c m e H Hc; simpl in H.
  - inversion H; subst. exists m; auto.
  - destruct (reg_step w o) as [w1|] eqn:E; [|discriminate].
    destruct (reg_step_class_get o w w1 c m e E Hc) as (m1 & H1 & G1).
    destruct (IH w1 w' c m1 e H H1) as (m' & H' & G').
    exists m'; split; [assumption|]. rewrite own_regs_cons, fold_left_app, <- G1. exact G'.
Qed.

(** THE HANDLERS OF A SERVICE CLASS, for any program around its class statement: what its bases
    had when it was created (bases left to right), followed by what was registered on it
    afterwards, first occurrence of each listener, in that order *)
Theorem class_handlers : forall pre bases post w1 w1' w2 e,
  reg_run world0 pre = Some w1 -> reg_step w1 (RNewClass bases) = Some w1' -> reg_run w1' post = Some w2 ->
  exists bs m, opt_all (map (nth_error (w_cls w1)) bases) = Some bs
    /\ nth_error (w_cls w2) (length (w_cls w1)) = Some m
    /\ em_get m e = dedup_first (concat (map (fun b => em_get b e) bs) ++ own_regs (length (w_cls w1)) e post).
Proof.
  intros pre bases post w1 w1' w2 e Hpre Hstep Hpost.
  assert (W1 : wf_world w1) by (eapply wf_reg_run; eauto using wf_world0).
  destruct (inherited w1 bases w1' W1 Hstep) as (bs & Hbs & Hcls & Hget & _).
  assert (Hn : nth_error (w_cls w1') (length (w_cls w1)) = Some (base_event_handlers bs)).
  { rewrite Hcls, nth_error_app2 by apply Nat.le_refl. rewrite Nat.sub_diag. reflexivity. }
  destruct (reg_run_class_get post w1' w2 _ _ e Hpost Hn) as (m & Hm & G).
  exists bs, m. repeat split; try assumption.
  rewrite G, Hget. rewrite <- !oset_order, fold_left_app. reflexivity.
Qed.
