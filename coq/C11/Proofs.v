(** C11 — lemmas about the registry / routing model. *)
From Coq Require Import ZArith List Bool Lia Permutation.
From SpyneV Require Import Base.Prelude C11.Model.
Import ListNotations.
Open Scope Z_scope.

(** ------------------------------------------------------------------ strings, membership *)

Lemma text_eqb_eq a : forall b, text_eqb a b = true <-> a = b.
Proof.
  induction a as [|x a IH]; destruct b as [|y b]; simpl; split; intro H; try discriminate; auto.
  - apply andb_true_iff in H as [H1 H2]. apply Z.eqb_eq in H1. apply IH in H2. congruence.
  - inversion H; subst. rewrite Z.eqb_refl. simpl. apply IH. reflexivity.
Qed.

Lemma text_eqb_refl a : text_eqb a a = true.
Proof. apply text_eqb_eq. reflexivity. Qed.

Lemma text_eqb_neq a b : text_eqb a b = false <-> a <> b.
Proof.
  split; intro H.
  - intro E. apply text_eqb_eq in E. congruence.
  - destruct (text_eqb a b) eqn:E; auto. apply text_eqb_eq in E. contradiction.
Qed.

Lemma mem_In k l : mem k l = true <-> In k l.
Proof.
  induction l as [|x l IH]; simpl.
  - split; [discriminate | tauto].
  - rewrite orb_true_iff, IH, text_eqb_eq. split; intros [H | H]; auto.
Qed.

Lemma mem_not_In k l : mem k l = false <-> ~ In k l.
Proof.
  rewrite <- mem_In. destruct (mem k l); split; intro H; auto; try discriminate. exfalso. apply H. reflexivity.
Qed.

Lemma qname_inj_name ns a b : qname ns a = qname ns b -> a = b.
Proof.
  unfold qname. intro H. inversion H as [H1]. apply app_inv_head in H1. inversion H1. reflexivity.
Qed.

(** a namespace that contains no "}" is recovered from the Clark name *)
Lemma app_cons_split (c : Z) : forall (a b a' b' : text),
  ~ In c a -> ~ In c a' -> a ++ c :: b = a' ++ c :: b' -> a = a' /\ b = b'.
Proof.
  induction a as [|x a IH]; intros b a' b' Ha Ha' H; destruct a' as [|y a']; simpl in *.
  - inversion H. auto.
  - inversion H; subst. exfalso. apply Ha'. left. reflexivity.
  - inversion H; subst. exfalso. apply Ha. left. reflexivity.
  - inversion H; subst. destruct (IH b a' b') as [E1 E2]; auto. subst. auto.
Qed.

Lemma qname_inj ns ns' a b :
  ~ In RBRACE ns -> ~ In RBRACE ns' -> qname ns a = qname ns' b -> ns = ns' /\ a = b.
Proof.
  unfold qname. intros H1 H2 H. inversion H as [E]. eapply app_cons_split; eauto.
Qed.

Lemma qname_starts ns n : starts_with LBRACE (qname ns n) = true.
Proof. reflexivity. Qed.

(** ------------------------------------------------------------------ the routing table as a finite map *)

Lemma lookup_update_same k v t : lookup k (update k v t) = Some v.
Proof.
  induction t as [|[k' v'] t IH]; simpl.
  - rewrite text_eqb_refl. reflexivity.
  - destruct (text_eqb k k') eqn:E; simpl; rewrite E; auto.
Qed.

Lemma lookup_update_other k k' v t : k <> k' -> lookup k' (update k v t) = lookup k' t.
Proof.
  intro N. induction t as [|[k2 v2] t IH]; simpl.
  - assert (text_eqb k' k = false) as -> by (apply text_eqb_neq; congruence). reflexivity.
  - destruct (text_eqb k k2) eqn:E; simpl.
    + apply text_eqb_eq in E. subst k2.
      assert (text_eqb k' k = false) as -> by (apply text_eqb_neq; congruence). reflexivity.
    + destruct (text_eqb k' k2); auto.
Qed.

(** ------------------------------------------------------------------ who answers to a name *)

(** the methods of public name [n] that are primary ([aux = false]) / auxiliary ([aux = true]),
    in listing order *)
Definition named (D : list desc) (n : text) (aux : bool) : list desc :=
  filter (fun d => text_eqb (d_name d) n && Bool.eqb (d_aux d) aux) D.

Definition route_of (D : list desc) (n : text) : list desc := named D n false ++ named D n true.

Lemma named_app D1 D2 n x : named (D1 ++ D2) n x = named D1 n x ++ named D2 n x.
Proof. unfold named. apply filter_app. Qed.

Lemma named_In D n x d : In d (named D n x) <-> In d D /\ d_name d = n /\ d_aux d = x.
Proof.
  unfold named. rewrite filter_In, andb_true_iff, text_eqb_eq, eqb_true_iff. tauto.
Qed.

Lemma named_single_hit d x : named [d] (d_name d) x = if Bool.eqb (d_aux d) x then [d] else [].
Proof. unfold named. simpl. rewrite text_eqb_refl. simpl. reflexivity. Qed.

Lemma named_single_miss d n x : d_name d <> n -> named [d] n x = [].
Proof. intro H. unfold named. simpl. apply text_eqb_neq in H. rewrite H. reflexivity. Qed.

Lemma route_of_In D n d : In d (route_of D n) <-> In d D /\ d_name d = n.
Proof.
  unfold route_of. rewrite in_app_iff, !named_In. destruct (d_aux d); intuition congruence.
Qed.

(** invariant of the route phase after the descriptors [D] have been processed *)
Record inv (tns : text) (D : list desc) (st : list text * table) : Prop := {
  inv_route : forall n, lookup (method_key tns n) (snd st) =
                        match route_of D n with [] => None | l => Some l end;
  inv_other : forall k, (forall n, k <> method_key tns n) -> lookup k (snd st) = None;
  inv_prim : forall n, (length (named D n false) <= 1)%nat;
  inv_ids : forall k, In k (fst st) <-> In k (map d_mkey D);
  inv_nodup : NoDup (map d_mkey D)
}.

Lemma inv_init tns : inv tns [] ([], []).
Proof.
  constructor; simpl; intros; auto; try tauto. constructor.
Qed.

Lemma method_key_inj tns a b : method_key tns a = method_key tns b -> a = b.
Proof. apply qname_inj_name. Qed.

Lemma NoDup_snoc {A} (l : list A) x : NoDup l -> ~ In x l -> NoDup (l ++ [x]).
Proof.
  intros H N. induction H as [|y l Hy Hl IH]; simpl.
  - constructor; auto. constructor.
  - constructor.
    + rewrite in_app_iff. simpl. intros [H | [H | []]]; auto. subst. apply N. left. reflexivity.
    + apply IH. intro H. apply N. right. exact H.
Qed.

(** what the head of a route tells *)
Lemma route_head_aux D n v0 r :
  route_of D n = v0 :: r -> d_aux v0 = true -> named D n false = [].
Proof.
  unfold route_of. intros H A. destruct (named D n false) as [|p ps] eqn:E; auto.
  simpl in H. inversion H; subst.
  assert (In v0 (named D n false)) as I by (rewrite E; left; reflexivity).
  apply named_In in I. destruct I as (_ & _ & I). congruence.
Qed.

Lemma route_head_prim D n v0 r :
  route_of D n = v0 :: r -> d_aux v0 = false -> named D n false <> [].
Proof.
  unfold route_of. intros H A E. rewrite E in H. simpl in H.
  assert (In v0 (named D n true)) as I by (rewrite H; left; reflexivity).
  apply named_In in I. destruct I as (_ & _ & I). congruence.
Qed.

(** one step of the route phase *)
Lemma process_method_step tns D st d st' :
  inv tns D st -> process_method tns st d = Built st' -> inv tns (D ++ [d]) st'.
Proof.
  intros I H. destruct st as [ids smm]. unfold process_method in H.
  destruct (mem (d_mkey d) ids) eqn:M; [discriminate|].
  apply mem_not_In in M.
  assert (NI : ~ In (d_mkey d) (map d_mkey D)) by (intro X; apply M; apply (inv_ids _ _ _ I); exact X).
  pose proof (inv_route _ _ _ I (d_name d)) as R. simpl in R.
  (* common facts about the new state *)
  assert (IDS : forall k, In k (d_mkey d :: ids) <-> In k (map d_mkey (D ++ [d]))).
  { intro k. rewrite map_app, in_app_iff. simpl. rewrite <- (inv_ids _ _ _ I k). simpl. tauto. }
  assert (ND : NoDup (map d_mkey (D ++ [d]))).
  { rewrite map_app. simpl. apply NoDup_snoc; auto. apply (inv_nodup _ _ _ I). }
  assert (OTH : forall v k, (forall n, k <> method_key tns n) ->
                            lookup k (update (method_key tns (d_name d)) v smm) = None).
  { intros v k Hk. rewrite lookup_update_other; [apply (inv_other _ _ _ I k Hk) | apply not_eq_sym, Hk]. }
  assert (RO : forall v n, n <> d_name d ->
             lookup (method_key tns n) (update (method_key tns (d_name d)) v smm) =
             match route_of (D ++ [d]) n with [] => None | l => Some l end).
  { intros v n Hn. rewrite lookup_update_other.
    - pose proof (inv_route _ _ _ I n) as Rn. simpl in Rn. rewrite Rn. unfold route_of. rewrite !named_app.
      rewrite !(named_single_miss d n) by congruence. rewrite !app_nil_r. reflexivity.
    - intro E. apply method_key_inj in E. congruence. }
  assert (PO : forall n, n <> d_name d -> (length (named (D ++ [d]) n false) <= 1)%nat).
  { intros n Hn. rewrite named_app, named_single_miss by congruence. rewrite app_nil_r. apply (inv_prim _ _ _ I). }
  assert (FIN : forall v,
            Some v = match route_of (D ++ [d]) (d_name d) with [] => None | l => Some l end ->
            (length (named (D ++ [d]) (d_name d) false) <= 1)%nat ->
            inv tns (D ++ [d]) (d_mkey d :: ids, update (method_key tns (d_name d)) v smm)).
  { intros v Hv Hp. constructor; simpl; auto.
    - intro n. destruct (list_eq_dec Z.eq_dec n (d_name d)) as [-> | Hn].
      + rewrite lookup_update_same. exact Hv.
      + apply RO. exact Hn.
    - intro n. destruct (list_eq_dec Z.eq_dec n (d_name d)) as [-> | Hn]; auto. }
  destruct (lookup (method_key tns (d_name d)) smm) as [val|] eqn:L.
  - destruct val as [|v0 val].
    + (* an empty list is never stored *)
      destruct (route_of D (d_name d)); discriminate.
    + assert (RV : route_of D (d_name d) = v0 :: val) by (destruct (route_of D (d_name d)); [discriminate | congruence]).
      destruct (d_aux d) eqn:A.
      * inversion H; subst st'. apply FIN.
        -- unfold route_of in *. rewrite !named_app, !named_single_hit, A. simpl.
           rewrite app_nil_r, app_assoc, RV. reflexivity.
        -- rewrite named_app, named_single_hit, A. simpl. rewrite app_nil_r. apply (inv_prim _ _ _ I).
      * destruct (d_aux v0) eqn:A0; [|discriminate].
        inversion H; subst st'.
        pose proof (route_head_aux _ _ _ _ RV A0) as PN.
        apply FIN.
        -- unfold route_of in *. rewrite !named_app, !named_single_hit, A, PN in *. simpl in *.
           rewrite app_nil_r, RV. reflexivity.
        -- rewrite named_app, named_single_hit, A, PN. simpl. lia.
  - assert (RV : route_of D (d_name d) = []) by (destruct (route_of D (d_name d)); [reflexivity | discriminate]).
    unfold route_of in RV. apply app_eq_nil in RV as [P0 A0].
    inversion H; subst st'. apply FIN.
    + unfold route_of. rewrite !named_app, !named_single_hit, P0, A0. simpl.
      destruct (d_aux d); reflexivity.
    + rewrite named_app, named_single_hit, P0. simpl. destruct (d_aux d); simpl; lia.
Qed.

(** when does a step reject *)
Lemma process_method_rejects tns D st d r :
  inv tns D st -> process_method tns st d = Rejected r ->
  In (d_mkey d) (map d_mkey D) \/ (d_aux d = false /\ named D (d_name d) false <> []).
Proof.
  intros I H. destruct st as [ids smm]. unfold process_method in H.
  destruct (mem (d_mkey d) ids) eqn:M.
  - left. apply mem_In in M. apply (inv_ids _ _ _ I). exact M.
  - right. pose proof (inv_route _ _ _ I (d_name d)) as R. simpl in R.
    destruct (lookup (method_key tns (d_name d)) smm) as [val|] eqn:L; [|discriminate].
    destruct val as [|v0 val]; [discriminate|].
    destruct (d_aux d) eqn:A; [discriminate|].
    destruct (d_aux v0) eqn:A0; [discriminate|].
    split; auto.
    assert (RV : route_of D (d_name d) = v0 :: val) by (destruct (route_of D (d_name d)); [discriminate | congruence]).
    eapply route_head_prim; eauto.
Qed.

Lemma process_method_accepts tns D st d :
  inv tns D st -> ~ In (d_mkey d) (map d_mkey D) ->
  (d_aux d = false -> named D (d_name d) false = []) ->
  exists st', process_method tns st d = Built st'.
Proof.
  intros I N P. destruct (process_method tns st d) as [st'|r] eqn:H; eauto.
  destruct (process_method_rejects _ _ _ _ _ I H) as [X | [A X]]; [contradiction|].
  exfalso. apply X. apply P. exact A.
Qed.

Lemma process_methods_inv tns : forall D2 D1 st st',
  inv tns D1 st -> process_methods tns st D2 = Built st' -> inv tns (D1 ++ D2) st'.
Proof.
  induction D2 as [|d D2 IH]; intros D1 st st' I H; simpl in H.
  - inversion H; subst. rewrite app_nil_r. exact I.
  - destruct (process_method tns st d) as [st1|] eqn:E; simpl in H; [|discriminate].
    replace (D1 ++ d :: D2) with ((D1 ++ [d]) ++ D2) by (rewrite <- app_assoc; reflexivity).
    eapply IH; eauto. eapply process_method_step; eauto.
Qed.

(** the order-free condition under which the route phase succeeds *)
Definition route_ok (D : list desc) : Prop :=
  NoDup (map d_mkey D) /\ forall n, (length (named D n false) <= 1)%nat.

Lemma process_methods_complete tns : forall D2 D1 st,
  inv tns D1 st -> route_ok (D1 ++ D2) -> exists st', process_methods tns st D2 = Built st'.
Proof.
  induction D2 as [|d D2 IH]; intros D1 st I [ND PR]; simpl.
  - eauto.
  - destruct (process_method_accepts tns D1 st d I) as [st1 E].
    + rewrite map_app in ND. simpl in ND. apply NoDup_remove_2 in ND.
      intro X. apply ND. rewrite in_app_iff. left. exact X.
    + intro A. specialize (PR (d_name d)). rewrite named_app in PR.
      change (d :: D2) with ([d] ++ D2) in PR. rewrite named_app, named_single_hit, A in PR. simpl in PR.
      rewrite app_length in PR. simpl in PR.
      destruct (named D1 (d_name d) false); auto. simpl in PR. lia.
    + rewrite E. simpl. apply (IH (D1 ++ [d]) st1).
      * eapply process_method_step; eauto.
      * rewrite <- app_assoc. simpl. split; assumption.
Qed.

Lemma process_methods_iff tns D :
  (exists st, process_methods tns ([], []) D = Built st) <-> route_ok D.
Proof.
  split.
  - intros [st H]. pose proof (process_methods_inv tns D [] _ _ (inv_init tns) H) as I. simpl in I.
    split; [apply (inv_nodup _ _ _ I) | apply (inv_prim _ _ _ I)].
  - intro R. apply (process_methods_complete tns D [] _ (inv_init tns)). exact R.
Qed.

(** ------------------------------------------------------------------ check_unique_method_keys *)

Lemma check_unique_iff : forall ds seen,
  check_unique seen ds = Built tt <->
  NoDup (map d_ikey ds) /\ forall d, In d ds -> ~ In (d_ikey d) seen.
Proof.
  induction ds as [|d ds IH]; intro seen; simpl.
  - split; [intros _; split; [constructor | intros ? []] | reflexivity].
  - destruct (mem (d_ikey d) seen) eqn:M.
    + split; [discriminate|]. intros [_ H]. apply mem_In in M. exfalso. apply (H d); auto.
    + apply mem_not_In in M. rewrite IH. split.
      * intros [ND H]. split.
        -- constructor; auto. intro X. apply in_map_iff in X as (d' & E & X).
           apply (H d' X). left. symmetry. exact E.
        -- intros d' [-> | X]; auto. intro Y. apply (H d' X). right. exact Y.
      * intros [ND H]. inversion ND; subst. split; auto.
        intros d' X [Y | Y].
        -- apply H2. apply in_map_iff. exists d'. split; auto.
        -- apply (H d'); auto.
Qed.

Lemma check_unique_nil ds : check_unique [] ds = Built tt <-> NoDup (map d_ikey ds).
Proof. rewrite check_unique_iff. split; [tauto | intro; split; auto]. Qed.

Lemma check_unique_tt seen ds u : check_unique seen ds = Built u -> check_unique seen ds = Built tt.
Proof. destruct u. auto. Qed.

(** ------------------------------------------------------------------ class-name collisions *)

Definition consistent (l : list cls_entry) : Prop :=
  forall k o1 o2, In (k, o1) l -> In (k, o2) l -> o1 = o2.

Lemma consistent_ext l l' : (forall x, In x l <-> In x l') -> consistent l <-> consistent l'.
Proof.
  intro H. unfold consistent. split; intros C k o1 o2 H1 H2; apply (C k o1 o2); apply H; auto.
Qed.

Lemma class_lookup_some k cs o : class_lookup k cs = Some o -> In (k, o) cs.
Proof.
  induction cs as [|[k' o'] cs IH]; simpl; [discriminate|].
  destruct (text_eqb k k') eqn:E.
  - intro H. inversion H; subst. apply text_eqb_eq in E. subst. left. reflexivity.
  - intro H. right. auto.
Qed.

Lemma class_lookup_none k cs : class_lookup k cs = None -> forall o, ~ In (k, o) cs.
Proof.
  induction cs as [|[k' o'] cs IH]; simpl; [tauto|].
  destruct (text_eqb k k') eqn:E; [discriminate|].
  intros H o [X | X].
  - inversion X; subst. rewrite text_eqb_refl in E. discriminate.
  - apply (IH H o X).
Qed.

Lemma add_classes_iff : forall es cs,
  consistent cs -> ((exists cs', add_classes cs es = Built cs') <-> consistent (cs ++ es)).
Proof.
  induction es as [|[k o] es IH]; intros cs C; simpl.
  - rewrite app_nil_r. split; eauto.
  - unfold add_class. simpl. destruct (class_lookup k cs) as [o'|] eqn:L.
    + apply class_lookup_some in L. destruct (o' =? o) eqn:E; simpl.
      * apply Z.eqb_eq in E. subst o'. rewrite (IH cs C). apply consistent_ext.
        intro x. rewrite !in_app_iff. simpl. split; [tauto|]. intros [H | [<- | H]]; auto.
      * split; [intros [? ?]; discriminate|]. intro X. exfalso.
        apply Z.eqb_neq in E. apply E. apply (X k o' o); rewrite in_app_iff; simpl; auto.
    + simpl. pose proof (class_lookup_none _ _ L) as N.
      assert (C' : consistent (cs ++ [(k, o)])).
      { intros k0 o1 o2 H1 H2. rewrite in_app_iff in H1, H2. simpl in H1, H2.
        destruct H1 as [H1 | [H1 | []]], H2 as [H2 | [H2 | []]].
        - eapply C; eauto.
        - inversion H2; subst. exfalso. eapply N; eauto.
        - inversion H1; subst. exfalso. eapply N; eauto.
        - congruence. }
      rewrite (IH _ C'). rewrite <- app_assoc. simpl. tauto.
Qed.

Lemma add_classes_nil es : (exists cs', add_classes [] es = Built cs') <-> consistent es.
Proof. apply (add_classes_iff es []). intros ? ? ? []. Qed.

(** ------------------------------------------------------------------ creating the service classes *)

Definition is_built {A} (b : built A) : bool := match b with Built _ => true | Rejected _ => false end.

Definition ok_services (ss : list svc) : Prop := Forall (fun s => is_built (make_service s) = true) ss.

Definition svc_descs (s : svc) : list desc := match make_service s with Built d => d | Rejected _ => [] end.
Definition all_descs (ss : list svc) : list desc := flat_map svc_descs ss.

Lemma all_descs_cons s ss : all_descs (s :: ss) = svc_descs s ++ all_descs ss.
Proof. reflexivity. Qed.
Lemma svc_descs_built s ds : make_service s = Built ds -> svc_descs s = ds.
Proof. unfold svc_descs. intros ->. reflexivity. Qed.

Lemma make_services_built ss D : make_services ss = Built D -> ok_services ss /\ D = all_descs ss.
Proof.
  revert D. induction ss as [|s ss IH]; intros D H; simpl in H.
  - inversion H. split; [constructor | reflexivity].
  - destruct (make_service s) as [ds|] eqn:E; simpl in H; [|discriminate].
    destruct (make_services ss) as [rs|] eqn:E2; simpl in H; [|discriminate].
    inversion H; subst. destruct (IH rs eq_refl) as [O ->]. split.
    + constructor; auto. rewrite E. reflexivity.
    + rewrite all_descs_cons, (svc_descs_built _ _ E). reflexivity.
Qed.

Lemma make_services_ok ss : ok_services ss -> make_services ss = Built (all_descs ss).
Proof.
  induction 1 as [|s ss Hs Hss IH]; [reflexivity|].
  rewrite all_descs_cons. simpl.
  destruct (make_service s) as [ds|] eqn:E; [|discriminate]. simpl. rewrite IH. simpl.
  rewrite (svc_descs_built _ _ E). reflexivity.
Qed.

(** ------------------------------------------------------------------ construction, characterised *)

Definition app_ok (a : app) : Prop :=
  let D := all_descs (a_services a) in
  ok_services (a_services a) /\
  NoDup (map d_ikey D) /\
  consistent (flat_map (fun d => d_classes d (a_tns a)) D) /\
  route_ok D.

Lemma construct_iff a : (exists t, construct a = Built t) <-> app_ok a.
Proof.
  unfold construct, descs_of, app_ok. split.
  - intros [t H]. destruct (make_services (a_services a)) as [D|] eqn:E; simpl in H; [|discriminate].
    destruct (make_services_built _ _ E) as [O ->].
    destruct (check_unique [] (all_descs (a_services a))) as [u|] eqn:U; simpl in H; [|discriminate].
    destruct (add_classes [] _) as [cs|] eqn:AC; simpl in H; [|discriminate].
    destruct (process_methods _ _ _) as [st|] eqn:PM; simpl in H; [|discriminate].
    repeat split; auto.
    + apply check_unique_nil. eapply check_unique_tt; eauto.
    + apply add_classes_nil. eauto.
    + apply (process_methods_iff (a_tns a)). eauto.
    + apply (process_methods_iff (a_tns a)). eauto.
  - intros (O & U & C & R). rewrite (make_services_ok _ O). simpl.
    apply check_unique_nil in U. rewrite U. simpl.
    apply add_classes_nil in C. destruct C as [cs ->]. simpl.
    apply (process_methods_iff (a_tns a)) in R. destruct R as [st ->]. simpl. eauto.
Qed.

Lemma construct_descs a t : construct a = Built t -> descs_of a = Built (all_descs (a_services a)).
Proof.
  intro H. assert (X : exists t, construct a = Built t) by eauto.
  apply construct_iff in X. destruct X as (O & _). unfold descs_of. apply make_services_ok. exact O.
Qed.

(** the table a successful construction produces *)
Lemma construct_table a t :
  construct a = Built t ->
  let D := all_descs (a_services a) in
  (forall n, lookup (method_key (a_tns a) n) t = match route_of D n with [] => None | l => Some l end)
  /\ (forall k, (forall n, k <> method_key (a_tns a) n) -> lookup k t = None)
  /\ (forall n, (length (named D n false) <= 1)%nat).
Proof.
  intro H. pose proof (construct_descs _ _ H) as E. unfold construct in H. rewrite E in H. simpl in H.
  destruct (check_unique [] _) as [u|]; simpl in H; [|discriminate].
  destruct (add_classes [] _) as [cs|]; simpl in H; [|discriminate].
  destruct (process_methods _ _ _) as [st|] eqn:PM; simpl in H; [|discriminate].
  inversion H; subst t.
  pose proof (process_methods_inv _ _ [] _ _ (inv_init (a_tns a)) PM) as I. simpl in I.
  split; [apply (inv_route _ _ _ I) | split; [apply (inv_other _ _ _ I) | apply (inv_prim _ _ _ I)]].
Qed.

(** ------------------------------------------------------------------ hit and miss *)

Lemma handles_qualified a t n :
  construct a = Built t ->
  get_call_handles (a_tns a) t (method_key (a_tns a) n) = route_of (all_descs (a_services a)) n.
Proof.
  intro H. destruct (construct_table _ _ H) as (R & _ & _).
  unfold get_call_handles. rewrite qname_starts, R. destruct (route_of _ n); reflexivity.
Qed.

Lemma handles_unqualified a t n :
  construct a = Built t -> starts_with LBRACE n = false ->
  get_call_handles (a_tns a) t n = route_of (all_descs (a_services a)) n.
Proof.
  intros H S. rewrite <- (handles_qualified a t n H). unfold get_call_handles at 1. rewrite S.
  unfold get_call_handles. rewrite qname_starts. reflexivity.
Qed.

Lemma handles_foreign a t k :
  construct a = Built t -> starts_with LBRACE k = true ->
  (forall n, k <> method_key (a_tns a) n) -> get_call_handles (a_tns a) t k = [].
Proof.
  intros H S N. destruct (construct_table _ _ H) as (_ & O & _).
  unfold get_call_handles. rewrite S, (O k N). reflexivity.
Qed.

Lemma route_of_nil D n : (forall d, In d D -> d_name d <> n) -> route_of D n = [].
Proof.
  intro H. destruct (route_of D n) as [|d l] eqn:E; auto.
  assert (In d (route_of D n)) as I by (rewrite E; left; reflexivity).
  apply route_of_In in I. destruct I as [I1 I2]. exfalso. apply (H d I1 I2).
Qed.

(** ------------------------------------------------------------------ NoDup of what runs *)

Lemma NoDup_map_filter {A B} (f : A -> B) (p : A -> bool) l : NoDup (map f l) -> NoDup (map f (filter p l)).
Proof.
  induction l as [|x l IH]; simpl; intro H; [constructor|].
  inversion H; subst. destruct (p x); simpl; auto.
  constructor; auto. intro X. apply H2. apply in_map_iff in X as (y & E & Y).
  apply filter_In in Y. apply in_map_iff. exists y. tauto.
Qed.

Lemma NoDup_app_disjoint {A} (l1 l2 : list A) :
  NoDup l1 -> NoDup l2 -> (forall x, In x l1 -> ~ In x l2) -> NoDup (l1 ++ l2).
Proof.
  induction l1 as [|x l1 IH]; simpl; intros H1 H2 D; auto.
  inversion H1; subst. constructor.
  - rewrite in_app_iff. intros [X | X]; [contradiction | apply (D x); auto].
  - apply IH; auto.
Qed.

Lemma NoDup_map_inj {A B} (f : A -> B) l a b : NoDup (map f l) -> In a l -> In b l -> f a = f b -> a = b.
Proof.
  induction l as [|x l IH]; simpl; intros H Ia Ib E; [tauto|].
  inversion H as [|? ? N ND]; subst.
  destruct Ia as [Ia | Ia], Ib as [Ib | Ib]; subst.
  - reflexivity.
  - exfalso. apply N. rewrite E. apply in_map. exact Ib.
  - exfalso. apply N. rewrite <- E. apply in_map. exact Ia.
  - apply IH; auto.
Qed.

Lemma route_uids_nodup D n : NoDup (map d_uid D) -> NoDup (map d_uid (route_of D n)).
Proof.
  intro H. unfold route_of. rewrite map_app. apply NoDup_app_disjoint.
  - apply NoDup_map_filter. exact H.
  - apply NoDup_map_filter. exact H.
  - intros u X Y. apply in_map_iff in X as (d1 & E1 & X). apply in_map_iff in Y as (d2 & E2 & Y).
    apply named_In in X. apply named_In in Y. destruct X as (X1 & _ & X3), Y as (Y1 & _ & Y3).
    assert (d1 = d2) by (eapply NoDup_map_inj; eauto; congruence).
    subst. congruence.
Qed.

(** ------------------------------------------------------------------ permutations of the service list *)

Lemma Permutation_filter' {A} (f : A -> bool) l l' : Permutation l l' -> Permutation (filter f l) (filter f l').
Proof.
  induction 1; simpl.
  - constructor.
  - destruct (f x); auto.
  - destruct (f x), (f y); auto. apply perm_swap.
  - eapply perm_trans; eauto.
Qed.

Lemma all_descs_perm ss ss' : Permutation ss ss' -> Permutation (all_descs ss) (all_descs ss').
Proof. intro H. unfold all_descs. apply Permutation_flat_map. exact H. Qed.

Lemma ok_services_perm ss ss' : Permutation ss ss' -> ok_services ss -> ok_services ss'.
Proof. intros H O. unfold ok_services in *. eapply Permutation_Forall; eauto. Qed.

Lemma route_ok_perm D D' : Permutation D D' -> route_ok D -> route_ok D'.
Proof.
  intros H [ND P]. split.
  - eapply Permutation_NoDup; [apply Permutation_map; exact H | exact ND].
  - intro n. unfold named. rewrite <- (Permutation_length (Permutation_filter' _ _ _ H)). apply P.
Qed.

Lemma consistent_perm tns D D' : Permutation D D' ->
  consistent (flat_map (fun d => d_classes d tns) D) -> consistent (flat_map (fun d => d_classes d tns) D').
Proof.
  intros H. apply consistent_ext. intro x. rewrite !in_flat_map. split; intros (d & I & X); exists d; split; auto.
  - eapply Permutation_in; [apply Permutation_sym|]; eauto.
  - eapply Permutation_in; eauto.
Qed.

Lemma app_ok_perm a a' :
  a_tns a = a_tns a' -> Permutation (a_services a) (a_services a') -> app_ok a -> app_ok a'.
Proof.
  intros T H (O & U & C & R). pose proof (all_descs_perm _ _ H) as PD.
  unfold app_ok. rewrite <- T. repeat split.
  - eapply ok_services_perm; eauto.
  - eapply Permutation_NoDup; [apply Permutation_map; exact PD | exact U].
  - eapply consistent_perm; eauto.
  - apply (route_ok_perm _ _ PD R).
  - apply (route_ok_perm _ _ PD R).
Qed.

Lemma perm_short {A} (l l' : list A) : Permutation l l' -> (length l <= 1)%nat -> l = l'.
Proof.
  intros H L. destruct l as [|x [|y l]]; simpl in L; try lia.
  - apply Permutation_nil in H. auto.
  - apply Permutation_length_1_inv in H. auto.
Qed.

(** ------------------------------------------------------------------ HTTP patterns *)

Lemma match_pattern_unambiguous ps verb path n :
  (forall p, In p ps -> pat_match verb path p = true -> snd p = n) ->
  (exists p, In p ps /\ pat_match verb path p = true) ->
  match_pattern ps verb path = Some n.
Proof.
  induction ps as [|p ps IH]; simpl; intros U [q [I M]]; [tauto|].
  destruct (pat_match verb path p) eqn:E.
  - f_equal. apply U; auto.
  - apply IH.
    + intros p' I' M'. apply U; auto.
    + destruct I as [-> | I]; [congruence|]. eauto.
Qed.

Lemma match_pattern_none ps verb path :
  (forall p, In p ps -> pat_match verb path p = false) -> match_pattern ps verb path = None.
Proof.
  induction ps as [|p ps IH]; simpl; intro H; auto.
  rewrite (H p) by auto. apply IH. intros; apply H; auto.
Qed.

Lemma last_segment_from_noslash n : ~ In SLASH n -> forall acc, last_segment_from acc n = acc.
Proof.
  induction n as [|x n IH]; simpl; intros N acc; auto.
  destruct (x =? SLASH) eqn:X.
  - apply Z.eqb_eq in X. exfalso. apply N. left. auto.
  - apply IH. intro Y. apply N. right. exact Y.
Qed.

Lemma last_segment_from_app pre n : ~ In SLASH n -> forall acc, last_segment_from acc (pre ++ SLASH :: n) = n.
Proof.
  intro N. induction pre as [|x pre IH]; simpl; intro acc.
  - try rewrite Z.eqb_refl. apply last_segment_from_noslash. exact N.
  - destruct (x =? SLASH); apply IH.
Qed.

Lemma last_segment_app pre n : ~ In SLASH n -> last_segment (pre ++ SLASH :: n) = n.
Proof. intro N. unfold last_segment. apply last_segment_from_app. exact N. Qed.
