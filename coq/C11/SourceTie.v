(** C11 — the constants harness/translate/routekeys.py extracted from the working tree (Gen/RouteKeys.v)
    render exactly the strings, and take exactly the branches, of coq/C11/Model.v. *)
From Coq Require Import ZArith List Bool Lia.
From SpyneV Require Import Base.Prelude C11.SrcLang C11.Model Gen.RouteKeys.
Import ListNotations.
Open Scope Z_scope.

Lemma src_shape : rk_shape_ok = true.
Proof. reflexivity. Qed.

Lemma render_key tns n : render [FLit LBRACE; FArg; FLit RBRACE; FArg] [tns; n] = Some (method_key tns n).
Proof. simpl. rewrite app_nil_r. reflexivity. Qed.

(** every place that builds a route key or a method_request_string from (tns, name) builds "{tns}name" *)
Lemma src_formats tns n :
  render rk_pm_fmt [tns; n] = Some (method_key tns n)              (* Interface.process_method *)
  /\ render rk_gch_fmt [tns; n] = Some (method_key tns n)          (* get_call_handles, unqualified name *)
  /\ render rk_dictdoc_fmt [tns; n] = Some (method_key tns n)      (* DictDocument.gen_method_request_string *)
  /\ render rk_msgpackdoc_fmt [tns; n] = Some (method_key tns n)   (* MessagePackDocument.gen_method_request_string *)
  /\ render rk_msgpackrpc_fmt [tns; n] = Some (method_key tns n)   (* MessagePackRpc.decompose_incoming_envelope *)
  /\ render rk_wsgi_fmt [tns; n] = Some (method_key tns n).        (* WsgiApplication.decompose_incoming_envelope *)
Proof. repeat split; apply render_key. Qed.

(** PATH_INFO.split('/')[-1] *)
Lemma src_last_segment : rk_wsgi_sep = [SLASH] /\ rk_wsgi_idx = -1.
Proof. split; reflexivity. Qed.

Lemma has_prefix_brace mrs : has_prefix [LBRACE] mrs = starts_with LBRACE mrs.
Proof.
  destruct mrs as [|x r]; [reflexivity|]. cbn [has_prefix starts_with]. rewrite andb_true_r. apply Z.eqb_sym.
Qed.

(** get_call_handles as written in the source (method_request_string may be None), with the extracted
    prefix and format *)
Definition get_call_handles_src (tns : text) (t : table) (mrs : option text) : option (list desc) :=
  match mrs with
  | None => Some []                                            (* if name is None: return [] *)
  | Some mrs =>
      match (if negb (has_prefix rk_gch_prefix mrs) then render rk_gch_fmt [tns; mrs] else Some mrs) with
      | Some name => Some (match lookup name t with Some v => v | None => [] end)
      | None => None
      end
  end.

Lemma src_get_call_handles tns t mrs : get_call_handles_src tns t mrs = Some (get_call_handles_opt tns t mrs).
Proof.
  destruct mrs as [mrs|]; [|reflexivity].
  unfold get_call_handles_src, get_call_handles_opt, get_call_handles.
  change rk_gch_prefix with [LBRACE]. rewrite has_prefix_brace.
  destruct (starts_with LBRACE mrs); cbn [negb]; [reflexivity|].
  destruct (src_formats tns mrs) as (_ & -> & _). reflexivity.
Qed.

(** the tail of process_method as written in the source, with the extracted insert index *)
Definition route_step_src (val : list desc) (d : desc) : built (list desc) :=
  match val with
  | [] => Built (val ++ [d])                                  (* len(val) == 0: val.append(method) *)
  | v0 :: _ =>
      if d_aux d then Built (val ++ [d])                      (* method.aux is not None: val.append(method) *)
      else if d_aux v0 then Built (insert_at (Z.to_nat rk_pm_insert_index) d val)   (* val.insert(i, method) *)
      else Rejected RDupMessage                               (* raise ValueError *)
  end.

Definition process_method_src (tns : text) (st : list text * table) (d : desc) : option (built (list text * table)) :=
  let '(ids, smm) := st in
  if mem (d_mkey d) ids then Some (Rejected RDupIfaceKey)
  else match render rk_pm_fmt [tns; d_name d] with
       | Some mk => Some (bbind (route_step_src (match lookup mk smm with Some v => v | None => [] end) d)
                                (fun v => Built (d_mkey d :: ids, update mk v smm)))
       | None => None
       end.

Lemma src_process_method tns st d :
  0 <= rk_pm_insert_index /\ process_method_src tns st d = Some (process_method tns st d).
Proof.
  split; [unfold rk_pm_insert_index; lia|].
  destruct st as [ids smm]. unfold process_method_src, process_method.
  destruct (mem (d_mkey d) ids); [reflexivity|].
  destruct (src_formats tns (d_name d)) as (-> & _).
  destruct (lookup (method_key tns (d_name d)) smm) as [[|v0 val]|]; simpl; try reflexivity.
  destruct (d_aux d); [reflexivity|]. destruct (d_aux v0); reflexivity.
Qed.
