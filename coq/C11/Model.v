(** C11 — a request runs exactly the method it names.

    Executable model of Spyne's method registry and request routing
    (repaired tree = /repo + proposed_fixes/C11-0001..0005):

      spyne/decorator.py       rpc.explain_method: _operation_name/_in_message_name/_out_message_name,
                               "{ns}name" partition, descriptor name (MethodDescriptor.__init__),
                               HttpPattern.hello (fix 3: the default address is a literal)
      spyne/service.py         ServiceMeta.__init__ (primary/auxiliary mix check)
      spyne/descriptor.py      internal_key, gen_interface_key
      spyne/application.py     check_unique_method_keys, Application.__init__ order of the phases
      spyne/interface/_base.py populate_interface (class phase: has_class/add_class name collision;
                               route phase: process_method; fix 1: insert(0, method), fix 2: ValueError
                               for a taken method_id_map key)
      spyne/protocol/_base.py  get_call_handles (None -> no handles), generate_method_contexts
      spyne/protocol/xml.py, soap11.py, dictdoc/_base.py, msgpack.py, server/wsgi.py
                               how each protocol derives ctx.method_request_string
      spyne/server/http.py     HttpBase.__init__ (fix 4: the same pattern on two methods is refused;
                               fix 5: total sort key) and match_pattern

    The tokens of these functions that decide the routing are extracted from the working tree by
    harness/translate/routekeys.py and proved to agree with this file in C11/SourceTie.v.

    Definitions only. *)
From SpyneV Require Export Base.Prelude.

Definition LBRACE : Z := 123.  (* '{' *)
Definition RBRACE : Z := 125.  (* '}' *)
Definition DOT : Z := 46.
Definition SLASH : Z := 47.
Definition LT : Z := 60.       (* '<' *)
Definition GT : Z := 62.       (* '>' *)

(** ------------------------------------------------------------------ application specs *)

(** body style of a method: wrapped (ComplexModel.produce of a fresh message class)
    or bare with one parameter whose (complex) class has the given "{ns}name" key *)
Inductive style := Wrapped | Bare (param_key : text).

(** HttpPattern(address, verb=...) with host=None *)
Record pat := { p_addr : option text; p_verb : option text }.

(** one @srpc-decorated function of a service class *)
Record meth := {
  m_uid : Z;                 (* identity of the user function (what the invocation counters record) *)
  m_fn : text;               (* the Python function name = key in the class dict *)
  m_op : option text;        (* _operation_name *)
  m_inm : option text;       (* _in_message_name *)
  m_outm : option text;      (* _out_message_name *)
  m_aux : bool;              (* _aux=<an AuxProc> given *)
  m_style : style;
  m_suffix : text;           (* _internal_key_suffix *)
  m_pats : list pat          (* _patterns *)
}.

Record svc := {
  s_module : text;           (* __module__ *)
  s_cls : text;              (* class __name__ *)
  s_sname : option text;     (* __service_name__ *)
  s_aux : bool;              (* __aux__ is not None *)
  s_methods : list meth      (* the class dict, in definition order *)
}.

Record app := { a_tns : text; a_services : list svc }.

(** ------------------------------------------------------------------ strings *)

Definition starts_with (c : Z) (s : text) : bool :=
  match s with x :: _ => x =? c | [] => false end.

(** s.partition(c): (before, found, after) *)
Fixpoint partition (c : Z) (s : text) : text * bool * text :=
  match s with
  | [] => ([], false, [])
  | x :: r => if x =? c then ([], true, r)
              else let '(a, f, b) := partition c r in (x :: a, f, b)
  end.

(** "{ns}name" -> (Some ns, name); anything not starting with "{" -> (None, s).
    decorator.py: ns, _, name = name[1:].partition("}") *)
Definition split_qname (s : text) : option text * text :=
  match s with
  | x :: r => if x =? LBRACE then let '(a, _, b) := partition RBRACE r in (Some a, b) else (None, s)
  | [] => (None, s)
  end.

Definition qname (ns name : text) : text := LBRACE :: ns ++ RBRACE :: name.

Fixpoint mem (k : text) (l : list text) : bool :=
  match l with [] => false | x :: r => text_eqb k x || mem k r end.

(** s.split('/')[-1] *)
Fixpoint last_segment_from (acc : text) (s : text) : text :=
  match s with
  | [] => acc
  | x :: r => if x =? SLASH then last_segment_from r r else last_segment_from acc r
  end.
Definition last_segment (s : text) : text := last_segment_from s s.

(** Python str comparison (code points, lexicographic): a <= b *)
Fixpoint text_leb (a b : text) : bool :=
  match a, b with
  | [], _ => true
  | _ :: _, [] => false
  | x :: a', y :: b' => if x <? y then true else if y <? x then false else text_leb a' b'
  end.

(** ------------------------------------------------------------------ decorator + descriptor *)

Inductive reject :=
| ROpAndIn         (* decorator: ValueError "only one of '_operation_name' and '_in_message_name' ..." *)
| RMixAux          (* ServiceMeta: Exception "You can't mix primary and auxiliary methods ..." *)
| RDupInternalKey  (* check_unique_method_keys: MethodAlreadyExistsError *)
| RClassClash      (* Interface.has_class: ValueError "classes ... have conflicting names" *)
| RDupIfaceKey     (* process_method: ValueError "The method key ... is already taken" (C11 fix 2) *)
| RDupMessage      (* process_method: ValueError "The message %r defined in both ..." *)
| RDupPattern.     (* HttpBase.__init__: ValueError "... answer to the same requests." (C11 fix 4) *)

Inductive built (A : Type) := Built (a : A) | Rejected (r : reject).
Arguments Built {A} a.
Arguments Rejected {A} r.

Definition bbind {A B} (x : built A) (f : A -> built B) : built B :=
  match x with Built a => f a | Rejected r => Rejected r end.

(** a class registered in Interface.classes: "{ns}name" key and the identity of its
    origin (cls.__orig__ or cls) *)
Definition cls_entry := (text * Z)%type.

(** what the rest of the pipeline reads from a MethodDescriptor *)
Record desc := {
  d_uid : Z;
  d_name : text;                (* MethodDescriptor.name: the public name *)
  d_aux : bool;                 (* method.aux is not None, after populate_interface filled in s.__aux__ *)
  d_ikey : text;                (* internal_key *)
  d_mkey : text;                (* gen_interface_key(s) *)
  d_classes : text -> list cls_entry;  (* message classes add_method yields, given the tns *)
  d_pats : list (text * option text)   (* HttpPatterns after hello(): (address, verb) *)
}.

Definition opt_default (o : option text) (d : text) : text :=
  match o with Some x => x | None => d end.

Definition RESPONSE_SUFFIX : text := [82; 101; 115; 112; 111; 110; 115; 101]. (* "Response" *)

(** HttpPattern.address setter + hello *)
Definition resolve_addr (name : text) (p : pat) : text * option text :=
  let a := match p_addr p with
           | None => name                               (* hello(): self.address = descriptor.name *)
           | Some a => a
           end in
  (if starts_with SLASH a then a else SLASH :: a, p_verb p).

Definition decorate (s : svc) (m : meth) : built desc :=
  let fn := m_fn m in
  let in0 := opt_default (m_inm m) fn in
  let op := opt_default (m_op m) fn in
  if negb (text_eqb op fn) && negb (text_eqb in0 fn) then Rejected ROpAndIn else
  let in1 := if text_eqb in0 fn then op (* add_request_suffix, REQUEST_SUFFIX = '' *) else in0 in
  let '(in_ns, in_name) := split_qname in1 in
  let out0 := opt_default (m_outm m) (fn ++ RESPONSE_SUFFIX) in
  let '(out_ns, out_name) := split_qname out0 in
  let owner := opt_default (s_sname s) (s_cls s) in          (* get_service_name() *)
  let aux := m_aux m || s_aux s in
  Built {|
    d_uid := m_uid m;
    d_name := in_name;
    d_aux := aux;
    (* '{%s}%s%s' % ("%s.%s" % (module, service_name), function.__name__, internal_key_suffix) *)
    d_ikey := LBRACE :: (s_module s ++ DOT :: owner) ++ RBRACE :: fn ++ m_suffix m;
    (* '{}.{}.{}'.format(cls.__module__, owner_name, self.name) *)
    d_mkey := s_module s ++ DOT :: owner ++ DOT :: in_name;
    d_classes := fun tns =>
      if aux then []                                         (* "if method.aux is None: yield ..." *)
      else match m_style m with
           | Wrapped => [ (qname (opt_default in_ns tns) in_name, 2 * m_uid m);
                          (qname (opt_default out_ns tns) out_name, 2 * m_uid m + 1) ]
           | Bare pk => [ (pk, 0) ]       (* param.customize(sub_name=...): __orig__ is the param class;
                                             the out message is a customised primitive *)
           end;
    d_pats := map (resolve_addr in_name) (m_pats m)
  |}.

(** ServiceMeta.__init__: decorate each method in class-dict order, with the
    "You can't mix primary and auxiliary methods" check after each *)
Fixpoint service_meta (s : svc) (has_aux has_nonaux : bool) (ms : list meth) : built (list desc) :=
  match ms with
  | [] => Built []
  | m :: r =>
      bbind (decorate s m) (fun d =>
        let nonaux := negb (m_aux m) && negb (s_aux s) in
        let has_nonaux' := if nonaux then true else has_nonaux in
        let has_aux' := if nonaux then has_aux else true in
        if has_aux' && has_nonaux' then Rejected RMixAux
        else bbind (service_meta s has_aux' has_nonaux' r) (fun ds => Built (d :: ds)))
  end.

Definition make_service (s : svc) : built (list desc) := service_meta s (s_aux s) false (s_methods s).

(** all service classes are created (in list order) before Application(...) is called *)
Fixpoint make_services (ss : list svc) : built (list desc) :=
  match ss with
  | [] => Built []
  | s :: r => bbind (make_service s) (fun ds => bbind (make_services r) (fun rs => Built (ds ++ rs)))
  end.

(** ------------------------------------------------------------------ Application.__init__ *)

(** check_unique_method_keys *)
Fixpoint check_unique (seen : list text) (ds : list desc) : built unit :=
  match ds with
  | [] => Built tt
  | d :: r => if mem (d_ikey d) seen then Rejected RDupInternalKey else check_unique (d_ikey d :: seen) r
  end.

(** Interface.has_class / add_class restricted to (key, origin) *)
Fixpoint class_lookup (k : text) (cs : list cls_entry) : option Z :=
  match cs with
  | [] => None
  | (k', o) :: r => if text_eqb k k' then Some o else class_lookup k r
  end.

Definition add_class (cs : list cls_entry) (e : cls_entry) : built (list cls_entry) :=
  match class_lookup (fst e) cs with
  | None => Built (cs ++ [e])
  | Some o => if o =? snd e then Built cs else Rejected RClassClash
  end.

Fixpoint add_classes (cs : list cls_entry) (es : list cls_entry) : built (list cls_entry) :=
  match es with
  | [] => Built cs
  | e :: r => bbind (add_class cs e) (fun cs' => add_classes cs' r)
  end.

(** the routing table Interface.service_method_map: "{tns}name" -> descriptors,
    a dict in insertion order *)
Definition table := list (text * list desc).

Fixpoint lookup (k : text) (t : table) : option (list desc) :=
  match t with
  | [] => None
  | (k', v) :: r => if text_eqb k k' then Some v else lookup k r
  end.

Fixpoint update (k : text) (v : list desc) (t : table) : table :=
  match t with
  | [] => [(k, v)]
  | (k', v') :: r => if text_eqb k k' then (k', v) :: r else (k', v') :: update k v r
  end.

Definition method_key (tns name : text) : text := qname tns name.

(** Interface.process_method for a service method *)
Definition process_method (tns : text) (st : list text * table) (d : desc) : built (list text * table) :=
  let '(ids, smm) := st in
  if mem (d_mkey d) ids then Rejected RDupIfaceKey      (* repaired: used to be a silent return *)
  else
    let mk := method_key tns (d_name d) in
    match lookup mk smm with
    | None => Built (d_mkey d :: ids, update mk [d] smm)
    | Some val =>
        match val with
        | [] => Built (d_mkey d :: ids, update mk [d] smm)
        | v0 :: _ =>
            if d_aux d then Built (d_mkey d :: ids, update mk (val ++ [d]) smm)
            else if d_aux v0 then Built (d_mkey d :: ids, update mk (d :: val) smm)   (* repaired insert(0, method) *)
            else Rejected RDupMessage
        end
    end.

Fixpoint process_methods (tns : text) (st : list text * table) (ds : list desc) : built (list text * table) :=
  match ds with
  | [] => Built st
  | d :: r => bbind (process_method tns st d) (fun st' => process_methods tns st' r)
  end.

Definition descs_of (a : app) : built (list desc) := make_services (a_services a).

(** Application(services, tns): the phases in source order *)
Definition construct (a : app) : built table :=
  bbind (descs_of a) (fun ds =>
  bbind (check_unique [] ds) (fun _ =>
  bbind (add_classes [] (flat_map (fun d => d_classes d (a_tns a)) ds)) (fun _ =>
  bbind (process_methods (a_tns a) ([], []) ds) (fun st => Built (snd st))))).

(** ------------------------------------------------------------------ routing a request *)

(** ProtocolBase.get_call_handles *)
Definition get_call_handles (tns : text) (t : table) (mrs : text) : list desc :=
  let name := if starts_with LBRACE mrs then mrs else method_key tns mrs in
  match lookup name t with Some v => v | None => [] end.

(** HttpBase.__init__: the HttpPatterns of the primary (first) descriptor of every route *)
Definition hpat := (text * option text * text)%type.   (* address, verb, endpoint name *)

Definition collect_patterns (t : table) : list hpat :=
  flat_map (fun kv => match snd kv with
                      | [] => []
                      | d :: _ => map (fun p => (fst p, snd p, d_name d)) (d_pats d)
                      end) t.

(** address patterns: literal characters and <name> placeholders (each becomes a named group matching any run of non-slash characters) *)
Inductive tok := Lit (c : Z) | Hole.

Fixpoint skip_to_gt (s : text) : option text :=
  match s with
  | [] => None
  | x :: r => if x =? GT then Some r else skip_to_gt r
  end.

Fixpoint tokenize (fuel : nat) (s : text) : list tok :=
  match fuel with
  | O => []
  | S f =>
      match s with
      | [] => []
      | x :: r => if x =? LT then match skip_to_gt r with
                                  | Some r' => Hole :: tokenize f r'
                                  | None => Lit x :: tokenize f r
                                  end
                  else Lit x :: tokenize f r
      end
  end.

Fixpoint tok_match (ts : list tok) (s : text) {struct ts} : bool :=
  match ts with
  | [] => match s with [] => true | _ => false end
  | Lit c :: r => match s with x :: s' => (x =? c) && tok_match r s' | [] => false end
  | Hole :: r =>
      (fix star (s : text) : bool :=
         tok_match r s || match s with
                          | x :: s' => negb (x =? SLASH) && star s'
                          | [] => false
                          end) s
  end.

Definition addr_match (pattern path : text) : bool := tok_match (tokenize (S (length pattern)) pattern) path.

Definition pat_match (verb path : text) (p : hpat) : bool :=
  let '(addr, pverb, _) := p in
  match pverb with
  | None => true
  | Some v => text_eqb v verb        (* literal verbs only: re.match + span == whole string *)
  end && addr_match addr path.

(** HttpBase.match_pattern: first pattern of the (sorted) list that matches *)
Fixpoint match_pattern (ps : list hpat) (verb path : text) : option text :=
  match ps with
  | [] => None
  | p :: r => if pat_match verb path p then Some (snd p) else match_pattern r verb path
  end.

(** HttpBase.__init__ (repaired): every HttpPattern of the head descriptor of every route, in dict order,
    is entered in [taken] under (verb, host, address); a second pattern with the same key whose endpoint is
    another descriptor raises ValueError (C11 fix 4).  The heads of two routes are two descriptors with two
    different names (the route key is "{tns}name"), so the identity test is modelled on the names. *)
Definition opt_text_eqb (a b : option text) : bool :=
  match a, b with
  | None, None => true
  | Some x, Some y => text_eqb x y
  | _, _ => false
  end.

Definition same_pkey (p q : hpat) : bool :=
  text_eqb (fst (fst p)) (fst (fst q)) && opt_text_eqb (snd (fst p)) (snd (fst q)).

Fixpoint taken_lookup (p : hpat) (taken : list hpat) : option hpat :=
  match taken with
  | [] => None
  | q :: r => if same_pkey p q then Some q else taken_lookup p r
  end.

Fixpoint check_pats (taken : list hpat) (ps : list hpat) : built unit :=
  match ps with
  | [] => Built tt
  | p :: r =>
      match taken_lookup p taken with
      | Some q => if text_eqb (snd q) (snd p) then check_pats taken r else Rejected RDupPattern
      | None => check_pats (taken ++ [p]) r             (* taken.setdefault(key, patt) *)
      end
  end.

(** the sort key (x.address, x.host or b'', x.verb or '') (C11 fix 5; host is None throughout) and
    Python's tuple comparison on it *)
Definition pkey (p : hpat) : text * text :=
  (fst (fst p), match snd (fst p) with Some v => v | None => [] end).

Definition key_leb (a b : text * text) : bool :=
  if text_eqb (fst a) (fst b) then text_leb (snd a) (snd b) else text_leb (fst a) (fst b).

(** list(reversed(sorted(patterns, key=...))): descending by key.  Patterns with equal keys are, after
    check_pats, patterns of one endpoint with equal (address, verb) - equal triples here - provided no verb
    is the empty string, so the arrangement among them is immaterial. *)
Fixpoint insert_desc (p : hpat) (l : list hpat) : list hpat :=
  match l with
  | [] => [p]
  | q :: r => if key_leb (pkey q) (pkey p) then p :: l else q :: insert_desc p r
  end.

Fixpoint sort_desc (l : list hpat) : list hpat :=
  match l with
  | [] => []
  | p :: r => insert_desc p (sort_desc r)
  end.

Definition server_patterns (t : table) : built (list hpat) :=
  let ps := collect_patterns t in
  bbind (check_pats [] ps) (fun _ => Built (sort_desc ps)).

(** Application(...) then WsgiApplication(app) *)
Definition serve (a : app) : built (table * list hpat) :=
  bbind (construct a) (fun t => bbind (server_patterns t) (fun ps => Built (t, ps))).

(** how each protocol names the method *)
Inductive request :=
| RXml (ns : option text) (local : text)   (* XmlDocument root element / Soap11 first Body child: lxml .tag *)
| RDictKey (k : text)                      (* JsonDocument / MessagePackDocument: the single key of the document *)
| RMsgpackRpc (k : text)                   (* MessagePackRpc: third field *)
| RHttp (verb path : text).                (* HttpRpc over WSGI: REQUEST_METHOD, PATH_INFO *)

(** ctx.method_request_string *)
Definition method_request_string (tns : text) (ps : list hpat) (r : request) : text :=
  match r with
  | RXml None local => local
  | RXml (Some ns) local => qname ns local
  | RDictKey k => method_key tns k              (* '{%s}%s' % (tns, key): always prefixed *)
  | RMsgpackRpc k => method_key tns k
  | RHttp verb path =>
      let path' := if starts_with SLASH path then path else SLASH :: path in
      match match_pattern ps verb path' with
      | Some n => n                              (* d.name, unqualified *)
      | None => method_key tns (last_segment path)
      end
  end.

(** what a request does: the user functions run, in order (primary first, then the
    auxiliary contexts through process_contexts), or the ResourceNotFound client fault *)
Inductive outcome := Invoked (uids : list Z) | NotFound.

Definition dispatch (tns : text) (t : table) (ps : list hpat) (r : request) : outcome :=
  match get_call_handles tns t (method_request_string tns ps r) with
  | [] => NotFound                               (* generate_method_contexts: ResourceNotFoundError *)
  | hs => Invoked (map d_uid hs)
  end.

(** A request that names no method at all leaves ctx.method_request_string at None (a SOAP Fault element
    sent as the request body: Soap11.decompose_incoming_envelope does not assign it); get_call_handles
    answers None with the empty list ("if name is None: return []"). *)
Inductive wire := Named (r : request) | Nameless.

Definition wire_request_string (tns : text) (ps : list hpat) (w : wire) : option text :=
  match w with
  | Named r => Some (method_request_string tns ps r)
  | Nameless => None
  end.

Definition get_call_handles_opt (tns : text) (t : table) (mrs : option text) : list desc :=
  match mrs with
  | None => []
  | Some m => get_call_handles tns t m
  end.

Definition dispatch_wire (tns : text) (t : table) (ps : list hpat) (w : wire) : outcome :=
  match get_call_handles_opt tns t (wire_request_string tns ps w) with
  | [] => NotFound
  | hs => Invoked (map d_uid hs)
  end.

(** ------------------------------------------------------------------ comparison helpers (case files) *)
Fixpoint zlist_eqb (a b : list Z) : bool :=
  match a, b with
  | [], [] => true
  | x :: a', y :: b' => (x =? y) && zlist_eqb a' b'
  | _, _ => false
  end.

Definition reject_code (r : reject) : Z :=
  match r with ROpAndIn => 1 | RMixAux => 2 | RDupInternalKey => 3 | RClassClash => 4
             | RDupIfaceKey => 5 | RDupMessage => 6 | RDupPattern => 7 end.

(** canonical view of a routing table: (key, uids) in dict order *)
Definition table_view (t : table) : list (text * list Z) := map (fun kv => (fst kv, map d_uid (snd kv))) t.

Fixpoint view_eqb (a b : list (text * list Z)) : bool :=
  match a, b with
  | [], [] => true
  | (k, u) :: a', (k', u') :: b' => text_eqb k k' && zlist_eqb u u' && view_eqb a' b'
  | _, _ => false
  end.

(** observation of a construction: Application(...) -> 0 + table, or the reject code; then, when the
    application was built, WsgiApplication(app) -> 0 + its _http_patterns, or the reject code *)
Definition hpat_eqb (p q : hpat) : bool :=
  text_eqb (fst (fst p)) (fst (fst q)) && opt_text_eqb (snd (fst p)) (snd (fst q)) && text_eqb (snd p) (snd q).

Fixpoint hpats_eqb (a b : list hpat) : bool :=
  match a, b with
  | [], [] => true
  | p :: a', q :: b' => hpat_eqb p q && hpats_eqb a' b'
  | _, _ => false
  end.

Definition construct_obs_eqb (a : app) (code : Z) (view : list (text * list Z)) (scode : Z) (ps : list hpat) : bool :=
  match construct a with
  | Built t => (code =? 0) && view_eqb (table_view t) view &&
               match server_patterns t with
               | Built ps' => (scode =? 0) && hpats_eqb ps' ps
               | Rejected r => scode =? reject_code r
               end
  | Rejected r => code =? reject_code r
  end.

Definition outcome_eqb (o : outcome) (found : bool) (uids : list Z) : bool :=
  match o with
  | Invoked u => found && zlist_eqb u uids
  | NotFound => negb found
  end.

(** requests against a served application: the model agrees with (found?, invoked uids) on each *)
Definition dispatch_obs_eqb (a : app) (rs : list (wire * bool * list Z)) : bool :=
  match serve a with
  | Built (t, ps) => forallb (fun q : wire * bool * list Z =>
                       outcome_eqb (dispatch_wire (a_tns a) t ps (fst (fst q))) (snd (fst q)) (snd q)) rs
  | Rejected _ => false
  end.
