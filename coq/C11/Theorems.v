(** C11 — the property-level statements, proved from C11/Proofs.v. *)
From Coq Require Import ZArith List Bool Lia Permutation.
From SpyneV Require Import Base.Prelude C11.Model C11.Proofs.
Import ListNotations.
Open Scope Z_scope.

(** [names tns ps r n]: request [r] names the method of public name [n] of the
    application's target namespace [tns] ([ps] = the HttpPatterns in the server's order) *)
Definition http_path (path : text) : text := if starts_with SLASH path then path else SLASH :: path.

Definition names (tns : text) (ps : list hpat) (r : request) (n : text) : Prop :=
  match r with
  | RXml None l => l = n /\ starts_with LBRACE n = false        (* unqualified element: read in the tns *)
  | RXml (Some ns) l => ns = tns /\ l = n
  | RDictKey k => k = n
  | RMsgpackRpc k => k = n
  | RHttp verb path =>
      (match_pattern ps verb (http_path path) = Some n /\ starts_with LBRACE n = false)
      \/ (match_pattern ps verb (http_path path) = None /\ last_segment path = n)
  end.

Definition answer (D : list desc) (n : text) : outcome :=
  match route_of D n with [] => NotFound | l => Invoked (map d_uid l) end.

Lemma dispatch_of_handles tns t ps r D n :
  get_call_handles tns t (method_request_string tns ps r) = route_of D n ->
  dispatch tns t ps r = answer D n.
Proof. intro H. unfold dispatch, answer. rewrite H. reflexivity. Qed.

Lemma dispatch_channels a t ps r n :
  construct a = Built t -> names (a_tns a) ps r n ->
  dispatch (a_tns a) t ps r = answer (all_descs (a_services a)) n.
Proof.
  intros C N. apply dispatch_of_handles. destruct r as [[ns|] l | k | k | verb path]; simpl in N |- *.
  - destruct N as [-> ->]. apply (handles_qualified a t n C).
  - destruct N as [-> S]. apply (handles_unqualified a t n C S).
  - subst. apply (handles_qualified a t n C).
  - subst. apply (handles_qualified a t n C).
  - fold (http_path path). destruct N as [[-> S] | [-> <-]].
    + apply (handles_unqualified a t n C S).
    + apply (handles_qualified a t _ C).
Qed.

Lemma hit a t :
  construct a = Built t ->
  let D := all_descs (a_services a) in
  descs_of a = Built D /\
  forall n,
    get_call_handles (a_tns a) t (method_key (a_tns a) n) = named D n false ++ named D n true
    /\ (starts_with LBRACE n = false ->
        get_call_handles (a_tns a) t n = named D n false ++ named D n true)
    /\ (length (named D n false) <= 1)%nat.
Proof.
  intros C D. split; [apply (construct_descs a t C)|]. intro n. repeat split.
  - apply (handles_qualified a t n C).
  - intro S. apply (handles_unqualified a t n C S).
  - destruct (construct_table a t C) as (_ & _ & P). apply P.
Qed.

Lemma exactly_named a t :
  construct a = Built t ->
  let D := all_descs (a_services a) in
  forall n,
    (forall d, In d (get_call_handles (a_tns a) t (method_key (a_tns a) n)) <-> In d D /\ d_name d = n)
    /\ (NoDup (map d_uid D) -> NoDup (map d_uid (get_call_handles (a_tns a) t (method_key (a_tns a) n)))).
Proof.
  intros C D n. rewrite (handles_qualified a t n C). split.
  - intro d. apply route_of_In.
  - apply route_uids_nodup.
Qed.

Lemma miss a t ps r n :
  construct a = Built t -> names (a_tns a) ps r n ->
  (forall d, In d (all_descs (a_services a)) -> d_name d <> n) ->
  dispatch (a_tns a) t ps r = NotFound.
Proof.
  intros C N U. rewrite (dispatch_channels a t ps r n C N). unfold answer.
  rewrite (route_of_nil _ _ U). reflexivity.
Qed.

Lemma other_namespace_miss a t ps ns l :
  construct a = Built t -> ns <> a_tns a -> ~ In RBRACE ns -> ~ In RBRACE (a_tns a) ->
  dispatch (a_tns a) t ps (RXml (Some ns) l) = NotFound.
Proof.
  intros C N B1 B2. unfold dispatch. simpl. rewrite (handles_foreign a t (qname ns l) C); auto.
  intros n E. unfold method_key in E. apply qname_inj in E; auto. destruct E. contradiction.
Qed.

Lemma near_miss a t ps r r' n n' d :
  construct a = Built t ->
  In d (all_descs (a_services a)) -> d_name d = n ->
  names (a_tns a) ps r n -> names (a_tns a) ps r' n' ->
  (forall d', In d' (all_descs (a_services a)) -> d_name d' <> n') ->
  (exists l, dispatch (a_tns a) t ps r = Invoked l /\ In (d_uid d) l)
  /\ dispatch (a_tns a) t ps r' = NotFound.
Proof.
  intros C I E N N' U. split; [|eapply miss; eauto].
  rewrite (dispatch_channels a t ps r n C N). unfold answer.
  assert (X : In d (route_of (all_descs (a_services a)) n)) by (apply route_of_In; auto).
  destruct (route_of (all_descs (a_services a)) n) as [|x l] eqn:R; [destruct X|].
  eexists. split; [reflexivity|]. apply in_map. exact X.
Qed.

Lemma permutation a a' :
  a_tns a = a_tns a' -> Permutation (a_services a) (a_services a') ->
  ((exists t, construct a = Built t) <-> (exists t', construct a' = Built t'))
  /\ forall t t', construct a = Built t -> construct a' = Built t' ->
     forall n, exists p x x',
       get_call_handles (a_tns a) t (method_key (a_tns a) n) = p ++ x
       /\ get_call_handles (a_tns a') t' (method_key (a_tns a') n) = p ++ x'
       /\ Permutation x x' /\ (length p <= 1)%nat
       /\ Forall (fun d => d_aux d = false) p /\ Forall (fun d => d_aux d = true) x.
Proof.
  intros T P. split.
  - rewrite !construct_iff. split; apply app_ok_perm; auto. apply Permutation_sym. exact P.
  - intros t t' C C' n. pose proof (all_descs_perm _ _ P) as PD.
    exists (named (all_descs (a_services a)) n false), (named (all_descs (a_services a)) n true),
           (named (all_descs (a_services a')) n true).
    destruct (construct_table a t C) as (_ & _ & L).
    rewrite (handles_qualified a t n C), (handles_qualified a' t' n C'). unfold route_of.
    assert (E : named (all_descs (a_services a)) n false = named (all_descs (a_services a')) n false).
    { apply perm_short; [apply Permutation_filter'; exact PD | apply L]. }
    rewrite <- E. repeat split; auto.
    + apply Permutation_filter'. exact PD.
    + apply Forall_forall. intros d I. apply named_In in I. tauto.
    + apply Forall_forall. intros d I. apply named_In in I. tauto.
Qed.

Lemma duplicate_rejected a D l1 d1 l2 d2 l3 :
  descs_of a = Built D -> D = l1 ++ d1 :: l2 ++ d2 :: l3 ->
  d_aux d1 = false -> d_aux d2 = false -> d_name d1 = d_name d2 ->
  exists r, construct a = Rejected r.
Proof.
  intros HD E A1 A2 EN. destruct (construct a) as [t|r] eqn:C; [|eauto]. exfalso.
  destruct (construct_table a t C) as (_ & _ & L).
  unfold descs_of in HD. apply make_services_built in HD. destruct HD as [_ HD]. rewrite <- HD in L.
  specialize (L (d_name d1)). rewrite E in L.
  change (d1 :: l2 ++ d2 :: l3) with ([d1] ++ l2 ++ [d2] ++ l3) in L.
  rewrite !named_app, !app_length in L.
  pose proof (named_single_hit d1 false) as H1. rewrite A1 in H1.
  change (named [d1] (d_name d1) false = [d1]) in H1.
  pose proof (named_single_hit d2 false) as H2. rewrite A2, <- EN in H2.
  change (named [d2] (d_name d1) false = [d2]) in H2.
  rewrite H1, H2 in L. simpl in L. lia.
Qed.

Lemma http_unambiguous tns ps verb path n :
  (forall p, In p ps -> pat_match verb (http_path path) p = true -> snd p = n) ->
  (exists p, In p ps /\ pat_match verb (http_path path) p = true) ->
  forall ps', Permutation ps ps' ->
    method_request_string tns ps' (RHttp verb path) = n.
Proof.
  intros U [p [I M]] ps' P. simpl. fold (http_path path).
  rewrite (match_pattern_unambiguous ps' verb (http_path path) n); auto.
  - intros q Iq. apply U. eapply Permutation_in; [apply Permutation_sym|]; eauto.
  - exists p. split; auto. eapply Permutation_in; eauto.
Qed.

Lemma http_fallback tns ps verb pre n :
  (forall p, In p ps -> pat_match verb (http_path (pre ++ SLASH :: n)) p = false) -> ~ In SLASH n ->
  method_request_string tns ps (RHttp verb (pre ++ SLASH :: n)) = method_key tns n.
Proof.
  intros H N. simpl. fold (http_path (pre ++ SLASH :: n)).
  rewrite match_pattern_none; auto. rewrite last_segment_app; auto.
Qed.
