(** C11 — the property-level statements, proved from C11/Proofs.v. *)
From Coq Require Import ZArith List Bool Lia Permutation Sorted.
From SpyneV Require Import Base.Prelude C11.Model C11.Proofs C11.PatProofs.
Import ListNotations.
Open Scope Z_scope.

(** [names tns ps r n]: request [r] names the method of public name [n] of the
    application's target namespace [tns] ([ps] = the HttpPatterns in the server's order) *)
Definition http_path (path : text) : text := if starts_with SLASH path then path else SLASH :: path.

Definition names (tns : text) (ps : list hpat) (r : request) (n : text) : Prop :=
  match r with
  | RXml None l => l = n /\ starts_with LBRACE n = false        (* unqualified element: read in the tns *)
  | RXml (Some ns) l => ns = tns /\ l = n
  | RDictKey k => k = n
  | RMsgpackRpc k => k = n
  | RHttp verb path =>
      (match_pattern ps verb (http_path path) = Some n /\ starts_with LBRACE n = false)
      \/ (match_pattern ps verb (http_path path) = None /\ last_segment path = n)
  end.

Definition answer (D : list desc) (n : text) : outcome :=
  match route_of D n with [] => NotFound | l => Invoked (map d_uid l) end.

Lemma dispatch_of_handles tns t ps r D n :
  get_call_handles tns t (method_request_string tns ps r) = route_of D n ->
  dispatch tns t ps r = answer D n.
Proof. intro H. unfold dispatch, answer. rewrite H. reflexivity. Qed.

Lemma dispatch_channels a t ps r n :
  construct a = Built t -> names (a_tns a) ps r n ->
  dispatch (a_tns a) t ps r = answer (all_descs (a_services a)) n.
Proof.
  intros C N. apply dispatch_of_handles. destruct r as [[ns|] l | k | k | verb path]; simpl in N |- *.
  - destruct N as [-> ->]. apply (handles_qualified a t n C).
  - destruct N as [-> S]. apply (handles_unqualified a t n C S).
  - subst. apply (handles_qualified a t n C).
  - subst. apply (handles_qualified a t n C).
  - fold (http_path path). destruct N as [[-> S] | [-> <-]].
    + apply (handles_unqualified a t n C S).
    + apply (handles_qualified a t _ C).
Qed.

Lemma hit a t :
  construct a = Built t ->
  let D := all_descs (a_services a) in
  descs_of a = Built D /\
  forall n,
    get_call_handles (a_tns a) t (method_key (a_tns a) n) = named D n false ++ named D n true
    /\ (starts_with LBRACE n = false ->
        get_call_handles (a_tns a) t n = named D n false ++ named D n true)
    /\ (length (named D n false) <= 1)%nat.
Proof.
  intros C D. split; [apply (construct_descs a t C)|]. intro n. repeat split.
  - apply (handles_qualified a t n C).
  - intro S. apply (handles_unqualified a t n C S).
  - destruct (construct_table a t C) as (_ & _ & P). apply P.
Qed.

Lemma exactly_named a t :
  construct a = Built t ->
  let D := all_descs (a_services a) in
  forall n,
    (forall d, In d (get_call_handles (a_tns a) t (method_key (a_tns a) n)) <-> In d D /\ d_name d = n)
    /\ (NoDup (map d_uid D) -> NoDup (map d_uid (get_call_handles (a_tns a) t (method_key (a_tns a) n)))).
Proof.
  intros C D n. rewrite (handles_qualified a t n C). split.
  - intro d. apply route_of_In.
  - apply route_uids_nodup.
Qed.

Lemma miss a t ps r n :
  construct a = Built t -> names (a_tns a) ps r n ->
  (forall d, In d (all_descs (a_services a)) -> d_name d <> n) ->
  dispatch (a_tns a) t ps r = NotFound.
Proof.
  intros C N U. rewrite (dispatch_channels a t ps r n C N). unfold answer.
  rewrite (route_of_nil _ _ U). reflexivity.
Qed.

Lemma other_namespace_miss a t ps ns l :
  construct a = Built t -> ns <> a_tns a -> ~ In RBRACE ns -> ~ In RBRACE (a_tns a) ->
  dispatch (a_tns a) t ps (RXml (Some ns) l) = NotFound.
Proof.
  intros C N B1 B2. unfold dispatch. simpl. rewrite (handles_foreign a t (qname ns l) C); auto.
  intros n E. unfold method_key in E. apply qname_inj in E; auto. destruct E. contradiction.
Qed.

Lemma near_miss a t ps r r' n n' d :
  construct a = Built t ->
  In d (all_descs (a_services a)) -> d_name d = n ->
  names (a_tns a) ps r n -> names (a_tns a) ps r' n' ->
  (forall d', In d' (all_descs (a_services a)) -> d_name d' <> n') ->
  (exists l, dispatch (a_tns a) t ps r = Invoked l /\ In (d_uid d) l)
  /\ dispatch (a_tns a) t ps r' = NotFound.
Proof.
  intros C I E N N' U. split; [|eapply miss; eauto].
  rewrite (dispatch_channels a t ps r n C N). unfold answer.
  assert (X : In d (route_of (all_descs (a_services a)) n)) by (apply route_of_In; auto).
  destruct (route_of (all_descs (a_services a)) n) as [|x l] eqn:R; [destruct X|].
  eexists. split; [reflexivity|]. apply in_map. exact X.
Qed.

Lemma permutation a a' :
  a_tns a = a_tns a' -> Permutation (a_services a) (a_services a') ->
  ((exists t, construct a = Built t) <-> (exists t', construct a' = Built t'))
  /\ forall t t', construct a = Built t -> construct a' = Built t' ->
     forall n, exists p x x',
       get_call_handles (a_tns a) t (method_key (a_tns a) n) = p ++ x
       /\ get_call_handles (a_tns a') t' (method_key (a_tns a') n) = p ++ x'
       /\ Permutation x x' /\ (length p <= 1)%nat
       /\ Forall (fun d => d_aux d = false) p /\ Forall (fun d => d_aux d = true) x.
Proof.
  intros T P. split.
  - rewrite !construct_iff. split; apply app_ok_perm; auto. apply Permutation_sym. exact P.
  - intros t t' C C' n. pose proof (all_descs_perm _ _ P) as PD.
    exists (named (all_descs (a_services a)) n false), (named (all_descs (a_services a)) n true),
           (named (all_descs (a_services a')) n true).
    destruct (construct_table a t C) as (_ & _ & L).
    rewrite (handles_qualified a t n C), (handles_qualified a' t' n C'). unfold route_of.
    assert (E : named (all_descs (a_services a)) n false = named (all_descs (a_services a')) n false).
    { apply perm_short; [apply Permutation_filter'; exact PD | apply L]. }
    rewrite <- E. repeat split; auto.
    + apply Permutation_filter'. exact PD.
    + apply Forall_forall. intros d I. apply named_In in I. tauto.
    + apply Forall_forall. intros d I. apply named_In in I. tauto.
Qed.

Lemma duplicate_rejected a D l1 d1 l2 d2 l3 :
  descs_of a = Built D -> D = l1 ++ d1 :: l2 ++ d2 :: l3 ->
  d_aux d1 = false -> d_aux d2 = false -> d_name d1 = d_name d2 ->
  exists r, construct a = Rejected r.
Proof.
  intros HD E A1 A2 EN. destruct (construct a) as [t|r] eqn:C; [|eauto]. exfalso.
  destruct (construct_table a t C) as (_ & _ & L).
  unfold descs_of in HD. apply make_services_built in HD. destruct HD as [_ HD]. rewrite <- HD in L.
  specialize (L (d_name d1)). rewrite E in L.
  change (d1 :: l2 ++ d2 :: l3) with ([d1] ++ l2 ++ [d2] ++ l3) in L.
  rewrite !named_app, !app_length in L.
  pose proof (named_single_hit d1 false) as H1. rewrite A1 in H1.
  change (named [d1] (d_name d1) false = [d1]) in H1.
  pose proof (named_single_hit d2 false) as H2. rewrite A2, <- EN in H2.
  change (named [d2] (d_name d1) false = [d2]) in H2.
  rewrite H1, H2 in L. simpl in L. lia.
Qed.

Lemma http_unambiguous tns ps verb path n :
  (forall p, In p ps -> pat_match verb (http_path path) p = true -> snd p = n) ->
  (exists p, In p ps /\ pat_match verb (http_path path) p = true) ->
  forall ps', Permutation ps ps' ->
    method_request_string tns ps' (RHttp verb path) = n.
Proof.
  intros U [p [I M]] ps' P. simpl. fold (http_path path).
  rewrite (match_pattern_unambiguous ps' verb (http_path path) n); auto.
  - intros q Iq. apply U. eapply Permutation_in; [apply Permutation_sym|]; eauto.
  - exists p. split; auto. eapply Permutation_in; eauto.
Qed.

Lemma http_fallback tns ps verb pre n :
  (forall p, In p ps -> pat_match verb (http_path (pre ++ SLASH :: n)) p = false) -> ~ In SLASH n ->
  method_request_string tns ps (RHttp verb (pre ++ SLASH :: n)) = method_key tns n.
Proof.
  intros H N. simpl. fold (http_path (pre ++ SLASH :: n)).
  rewrite match_pattern_none; auto. rewrite last_segment_app; auto.
Qed.

(** ------------------------------------------------------------------ the server's HttpPattern list *)

Lemma http_patterns_order t ps :
  server_patterns t = Built ps ->
  Permutation ps (collect_patterns t) /\ StronglySorted before ps /\ pats_consistent ps.
Proof.
  intro H. destruct (server_patterns_built _ _ H) as [-> C]. repeat split.
  - apply sort_desc_perm.
  - apply sort_desc_sorted.
  - eapply pats_consistent_perm; [apply Permutation_sym, sort_desc_perm | exact C].
Qed.

Lemma server_iff t :
  (exists ps, server_patterns t = Built ps) <-> pats_consistent (collect_patterns t).
Proof. apply server_patterns_iff. Qed.

Lemma pattern_order t :
  ((exists ps, server_patterns t = Built ps) <-> pats_consistent (collect_patterns t))
  /\ forall ps, server_patterns t = Built ps ->
       Permutation ps (collect_patterns t) /\ StronglySorted before ps /\ pats_consistent ps.
Proof. split; [apply server_iff | apply http_patterns_order]. Qed.

Lemma identical_pattern_rejected a t d1 d2 p :
  construct a = Built t ->
  let D := all_descs (a_services a) in
  In d1 D -> In d2 D -> d_aux d1 = false -> d_aux d2 = false -> d_name d1 <> d_name d2 ->
  In p (d_pats d1) -> In p (d_pats d2) ->
  server_patterns t = Rejected RDupPattern.
Proof.
  intros C D I1 I2 A1 A2 N P1 P2.
  assert (X1 : In (fst p, snd p, d_name d1) (collect_patterns t)).
  { apply (primary_pats_collected a t d1); auto. unfold desc_pats. apply in_map_iff. exists p. auto. }
  assert (X2 : In (fst p, snd p, d_name d2) (collect_patterns t)).
  { apply (primary_pats_collected a t d2); auto. unfold desc_pats. apply in_map_iff. exists p. auto. }
  destruct (server_patterns t) as [ps|r] eqn:S.
  - exfalso. apply N. assert (E : exists ps, server_patterns t = Built ps) by eauto.
    apply server_iff in E. apply (E _ _ X1 X2). reflexivity.
  - f_equal. eapply server_patterns_rejected; eauto.
Qed.

Lemma serve_built a t ps :
  serve a = Built (t, ps) -> construct a = Built t /\ server_patterns t = Built ps.
Proof.
  unfold serve. destruct (construct a) as [t0|] eqn:C; simpl; [|discriminate].
  destruct (server_patterns t0) as [ps0|] eqn:S; simpl; [|discriminate].
  intro H. inversion H; subst. split; [reflexivity | exact S].
Qed.

Lemma aux_no_pats_perm D D' : Permutation D D' -> aux_no_pats D -> aux_no_pats D'.
Proof. intros P H d I. apply H. eapply Permutation_in; [apply Permutation_sym|]; eauto. Qed.

Lemma collect_perm a a' t t' :
  Permutation (a_services a) (a_services a') -> aux_no_pats (all_descs (a_services a)) ->
  construct a = Built t -> construct a' = Built t' ->
  Permutation (collect_patterns t) (collect_patterns t').
Proof.
  intros P A C C'. pose proof (all_descs_perm _ _ P) as PD.
  eapply perm_trans; [apply (construct_collect a t C A)|].
  eapply perm_trans; [apply prim_pats_perm; exact PD|].
  apply Permutation_sym. apply (construct_collect a' t' C'). eapply aux_no_pats_perm; eauto.
Qed.

Lemma serve_perm_iff a a' :
  a_tns a = a_tns a' -> Permutation (a_services a) (a_services a') ->
  aux_no_pats (all_descs (a_services a)) ->
  (exists s, serve a = Built s) -> exists s', serve a' = Built s'.
Proof.
  intros T P A [[t ps] S]. destruct (serve_built _ _ _ S) as [C SP].
  assert (C' : exists t', construct a' = Built t').
  { apply construct_iff. eapply app_ok_perm; eauto. apply construct_iff. eauto. }
  destruct C' as [t' C'].
  assert (SP' : exists ps', server_patterns t' = Built ps').
  { apply server_iff. eapply pats_consistent_perm; [eapply collect_perm; eauto|]. apply server_iff. eauto. }
  destruct SP' as [ps' SP']. exists (t', ps'). unfold serve. rewrite C'. simpl. rewrite SP'. reflexivity.
Qed.

Lemma serve_perm_patterns a a' t t' ps ps' :
  Permutation (a_services a) (a_services a') -> aux_no_pats (all_descs (a_services a)) ->
  serve a = Built (t, ps) -> serve a' = Built (t', ps') -> verbs_nonempty ps -> ps = ps'.
Proof.
  intros P A S S' V. destruct (serve_built _ _ _ S) as [C SP]. destruct (serve_built _ _ _ S') as [C' SP'].
  destruct (server_patterns_built _ _ SP) as [-> K]. destruct (server_patterns_built _ _ SP') as [-> K'].
  apply sort_desc_perm_eq; auto.
  - eapply collect_perm; eauto.
  - intros p I. apply V. eapply Permutation_in; [apply Permutation_sym, sort_desc_perm | exact I].
Qed.

(** is [s] = [p ++ r]? *)
Fixpoint strip_prefix (p s : text) : option text :=
  match p, s with
  | [], _ => Some s
  | x :: p', y :: s' => if x =? y then strip_prefix p' s' else None
  | _ :: _, [] => None
  end.

Lemma strip_prefix_some p : forall s r, strip_prefix p s = Some r -> s = p ++ r.
Proof.
  induction p as [|x p IH]; intros [|y s] r; simpl; intro H; try discriminate; try (inversion H; reflexivity).
  destruct (x =? y) eqn:E; [|discriminate]. apply Z.eqb_eq in E. subst. f_equal. apply IH. exact H.
Qed.

Lemma strip_prefix_none p : forall s, strip_prefix p s = None -> forall r, s <> p ++ r.
Proof.
  induction p as [|x p IH]; intros [|y s]; simpl; intros H r E; try discriminate.
  inversion E; subst. rewrite Z.eqb_refl in H. eapply IH; eauto.
Qed.

Lemma method_key_prefix tns n : method_key tns n = (LBRACE :: tns ++ [RBRACE]) ++ n.
Proof. unfold method_key, qname. simpl. rewrite <- app_assoc. reflexivity. Qed.

(** whatever string a request is reduced to, the handlers found for it in two listings of the same
    services are the same primary method and the same auxiliary methods *)
Lemma handles_perm a a' t t' :
  a_tns a = a_tns a' -> Permutation (a_services a) (a_services a') ->
  construct a = Built t -> construct a' = Built t' ->
  forall mrs, exists p x x',
    get_call_handles (a_tns a) t mrs = p ++ x /\ get_call_handles (a_tns a') t' mrs = p ++ x'
    /\ Permutation x x' /\ (length p <= 1)%nat
    /\ Forall (fun d => d_aux d = false) p /\ Forall (fun d => d_aux d = true) x.
Proof.
  intros T P C C' mrs. destruct (permutation a a' T P) as [_ Q]. specialize (Q t t' C C').
  pose proof (handles_foreign a' t' mrs C') as F'. rewrite <- T in Q, F' |- *.
  destruct (starts_with LBRACE mrs) eqn:S.
  - destruct (strip_prefix (LBRACE :: a_tns a ++ [RBRACE]) mrs) as [n|] eqn:SP.
    + apply strip_prefix_some in SP. rewrite <- method_key_prefix in SP. subst mrs. apply Q.
    + pose proof (strip_prefix_none _ _ SP) as N.
      assert (N' : forall n, mrs <> method_key (a_tns a) n).
      { intros n E. apply (N n). rewrite E. apply method_key_prefix. }
      exists [], [], []. rewrite (handles_foreign a t mrs C S N'), (F' eq_refl N'). repeat split; auto.
  - specialize (Q mrs).
    assert (E : forall tb, get_call_handles (a_tns a) tb mrs = get_call_handles (a_tns a) tb (method_key (a_tns a) mrs)).
    { intros tb. unfold get_call_handles. rewrite S, qname_starts. reflexivity. }
    rewrite (E t), (E t'). exact Q.
Qed.

(** ORDER, every channel.  Two listings of the same services behind a server: the same HttpPattern list,
    hence the same method_request_string for every request, and the same handlers for it *)
Lemma permutation_served a a' :
  a_tns a = a_tns a' -> Permutation (a_services a) (a_services a') ->
  aux_no_pats (all_descs (a_services a)) ->
  ((exists s, serve a = Built s) <-> (exists s', serve a' = Built s'))
  /\ forall t ps t' ps', serve a = Built (t, ps) -> serve a' = Built (t', ps') -> verbs_nonempty ps ->
     ps = ps' /\
     forall r, exists p x x',
       get_call_handles (a_tns a) t (method_request_string (a_tns a) ps r) = p ++ x
       /\ get_call_handles (a_tns a') t' (method_request_string (a_tns a') ps' r) = p ++ x'
       /\ Permutation x x' /\ (length p <= 1)%nat
       /\ Forall (fun d => d_aux d = false) p /\ Forall (fun d => d_aux d = true) x.
Proof.
  intros T P A. split.
  - split; [apply serve_perm_iff; auto|].
    apply serve_perm_iff; auto; [apply Permutation_sym; exact P|].
    eapply aux_no_pats_perm; [apply all_descs_perm; exact P | exact A].
  - intros t ps t' ps' S S' V.
    pose proof (serve_perm_patterns a a' t t' ps ps' P A S S' V) as E. split; [exact E|].
    intro r. subst ps'.
    destruct (serve_built _ _ _ S) as [C _]. destruct (serve_built _ _ _ S') as [C' _].
    pose proof (handles_perm a a' t t' T P C C' (method_request_string (a_tns a) ps r)) as Q.
    rewrite <- T. rewrite <- T in Q. exact Q.
Qed.

(** ------------------------------------------------------------------ a request that names nothing *)

Lemma dispatch_wire_named tns t ps r : dispatch_wire tns t ps (Named r) = dispatch tns t ps r.
Proof. reflexivity. Qed.

Lemma nameless_not_found tns t ps : dispatch_wire tns t ps Nameless = NotFound.
Proof. reflexivity. Qed.

Lemma wire_cases tns t ps w :
  (exists r, w = Named r /\ dispatch_wire tns t ps w = dispatch tns t ps r)
  \/ (w = Nameless /\ dispatch_wire tns t ps w = NotFound).
Proof. destruct w as [r|]; [left; exists r; split; reflexivity | right; split; reflexivity]. Qed.
