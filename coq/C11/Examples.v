(** C11 — concrete applications used by the non-vacuity Examples of Props/C11.v. Definitions only. *)
From SpyneV Require Import Base.Prelude C11.Model.

Definition x_tns : text := [117; 114; 110; 58; 116].       (* "urn:t" *)
Definition x_other : text := [117; 114; 110; 58; 111].     (* "urn:o" *)
Definition x_gen : text := [103; 101; 110].
Definition x_foo : text := [102; 111; 111].
Definition x_Foo : text := [70; 111; 111].         (* differs by case *)
Definition x_fo : text := [102; 111].           (* a prefix *)
Definition x_foobar : text := [102; 111; 111; 98; 97; 114].   (* foo + a suffix: registered *)
Definition x_foob : text := [102; 111; 111; 98].       (* foo + a suffix: not registered *)
Definition x_GET : text := [71; 69; 84].

Definition mk (uid : Z) (fn : text) (pats : list pat) : meth :=
  Build_meth uid fn None None None false Wrapped [] pats.

(** class S1: foo, Foo, foobar (foobar also reachable as /api/<x>); class S2 (auxiliary): foo *)
Definition x_s1 : svc :=
  Build_svc x_gen [83; 49] None false
    [mk 1 x_foo []; mk 2 x_Foo []; mk 3 x_foobar [Build_pat (Some [47; 97; 112; 105; 47; 60; 120; 62]) (Some x_GET)]].
Definition x_s2 : svc := Build_svc x_gen [83; 50] None true [mk 4 x_foo []].
(** class S3: a second primary "foo" *)
Definition x_s3 : svc := Build_svc x_gen [83; 51] None false [Build_meth 5 [98; 97; 114] None (Some x_foo) None false (Bare [123; 117; 114; 110; 58; 112; 125; 80]) [] []].

Definition x_app : app := Build_app x_tns [x_s1; x_s2].
Definition x_app_rev : app := Build_app x_tns [x_s2; x_s1].      (* the same services in the other order *)
Definition x_app_dup : app := Build_app x_tns [x_s1; x_s2; x_s3].

Definition x_table : table := match construct x_app with Built t => t | Rejected _ => [] end.
Definition x_table_rev : table := match construct x_app_rev with Built t => t | Rejected _ => [] end.
Definition x_ps : list hpat := match server_patterns x_table with Built ps => ps | Rejected _ => [] end.
Definition x_ps_rev : list hpat := match server_patterns x_table_rev with Built ps => ps | Rejected _ => [] end.

(** class S4: "bar" with the HttpPattern S1.foobar already carries, and "baz" sharing only the address *)
Definition x_pat : pat := Build_pat (Some [47; 97; 112; 105; 47; 60; 120; 62]) (Some x_GET).       (* GET /api/<x> *)
Definition x_s4 : svc := Build_svc x_gen [83; 52] None false [mk 6 [98; 97; 114] [x_pat]].
Definition x_s5 : svc := Build_svc x_gen [83; 53] None false
  [mk 7 [98; 97; 122] [Build_pat (Some [47; 97; 112; 105; 47; 60; 120; 62]) None]].             (* any verb /api/<x> *)
Definition x_app_pat : app := Build_app x_tns [x_s1; x_s4].
Definition x_app_tie : app := Build_app x_tns [x_s5; x_s1; x_s2].
Definition x_app_tie_rev : app := Build_app x_tns [x_s2; x_s1; x_s5].
