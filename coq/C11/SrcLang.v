(** C11 — the little language harness/translate/routekeys.py writes Gen/RouteKeys.v in. Definitions only. *)
From SpyneV Require Export Base.Prelude.

(** a Python %-format made of literal characters and '%s' directives *)
Inductive ftok := FLit (c : Z) | FArg.

(** fmt % args, for str arguments; None when the number of arguments is not the number of directives
    (TypeError in Python) *)
Fixpoint render (f : list ftok) (args : list text) : option text :=
  match f with
  | [] => match args with [] => Some [] | _ => None end
  | FLit c :: r => match render r args with Some s => Some (c :: s) | None => None end
  | FArg :: r => match args with
                 | a :: args' => match render r args' with Some s => Some (a ++ s) | None => None end
                 | [] => None
                 end
  end.

(** s.startswith(p) *)
Fixpoint has_prefix (p s : text) : bool :=
  match p, s with
  | [], _ => true
  | x :: p', y :: s' => (x =? y) && has_prefix p' s'
  | _ :: _, [] => false
  end.

(** list.insert(i, x) for i >= 0 *)
Fixpoint insert_at {A} (i : nat) (x : A) (l : list A) : list A :=
  match i, l with
  | O, _ => x :: l
  | S j, y :: r => y :: insert_at j x r
  | S _, [] => [x]
  end.
