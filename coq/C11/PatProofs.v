(** C11 — lemmas about the HttpPattern list of HttpBase.__init__ (repaired tree): the duplicate check,
    the sort, and their independence of the order in which the services were listed. *)
From Coq Require Import ZArith List Bool Lia Permutation Sorted.
From SpyneV Require Import Base.Prelude C11.Model C11.Proofs.
Import ListNotations.
Open Scope Z_scope.

(** ------------------------------------------------------------------ Python's str order *)

Lemma text_leb_refl a : text_leb a a = true.
Proof. induction a as [|x a IH]; simpl; auto. rewrite Z.ltb_irrefl. exact IH. Qed.

Lemma text_leb_total a : forall b, text_leb a b = true \/ text_leb b a = true.
Proof.
  induction a as [|x a IH]; intros [|y b]; simpl; auto.
  destruct (x <? y) eqn:E1; auto. destruct (y <? x) eqn:E2; auto.
Qed.

Lemma text_leb_antisym a : forall b, text_leb a b = true -> text_leb b a = true -> a = b.
Proof.
  induction a as [|x a IH]; intros [|y b]; simpl; intros H1 H2; auto; try discriminate.
  destruct (x <? y) eqn:E1; destruct (y <? x) eqn:E2; try discriminate; try lia.
  assert (x = y) by lia. subst. f_equal. apply IH; auto.
Qed.

Lemma text_leb_trans a : forall b c, text_leb a b = true -> text_leb b c = true -> text_leb a c = true.
Proof.
  induction a as [|x a IH]; intros [|y b] [|z c]; simpl; intros H1 H2; auto; try discriminate.
  destruct (x <? y) eqn:E1; destruct (y <? z) eqn:E2; destruct (x <? z) eqn:E3; auto;
    destruct (y <? x) eqn:E4; try discriminate; destruct (z <? y) eqn:E5; try discriminate;
    destruct (z <? x) eqn:E6; try lia.
  eapply IH; eauto.
Qed.

(** ------------------------------------------------------------------ the sort key *)

Lemma text_eqb_sym a b : text_eqb a b = text_eqb b a.
Proof.
  destruct (text_eqb a b) eqn:E.
  - apply text_eqb_eq in E. subst. symmetry. apply text_eqb_refl.
  - symmetry. apply text_eqb_neq. apply text_eqb_neq in E. congruence.
Qed.

Lemma key_leb_refl a : key_leb a a = true.
Proof. unfold key_leb. rewrite text_eqb_refl. apply text_leb_refl. Qed.

Lemma key_leb_total a b : key_leb a b = true \/ key_leb b a = true.
Proof.
  unfold key_leb. rewrite (text_eqb_sym (fst b) (fst a)).
  destruct (text_eqb (fst a) (fst b)); apply text_leb_total.
Qed.

Lemma key_leb_antisym a b : key_leb a b = true -> key_leb b a = true -> a = b.
Proof.
  unfold key_leb. rewrite (text_eqb_sym (fst b) (fst a)). destruct a as [a1 a2], b as [b1 b2]. simpl.
  destruct (text_eqb a1 b1) eqn:E; intros H1 H2.
  - apply text_eqb_eq in E. subst. f_equal. apply text_leb_antisym; auto.
  - apply text_eqb_neq in E. exfalso. apply E. apply text_leb_antisym; auto.
Qed.

Lemma key_leb_trans a b c : key_leb a b = true -> key_leb b c = true -> key_leb a c = true.
Proof.
  unfold key_leb. destruct a as [a1 a2], b as [b1 b2], c as [c1 c2]. simpl.
  destruct (text_eqb a1 b1) eqn:E1; destruct (text_eqb b1 c1) eqn:E2; intros H1 H2.
  - apply text_eqb_eq in E1, E2. subst. rewrite text_eqb_refl. eapply text_leb_trans; eauto.
  - apply text_eqb_eq in E1. subst. rewrite E2. exact H2.
  - apply text_eqb_eq in E2. subst. rewrite E1. exact H1.
  - destruct (text_eqb a1 c1) eqn:E3.
    + apply text_eqb_eq in E3. subst. apply text_eqb_neq in E1. exfalso. apply E1.
      apply text_leb_antisym; auto.
    + eapply text_leb_trans; eauto.
Qed.

(** ------------------------------------------------------------------ reversed(sorted(...)) *)

(** [p] may stand before [q]: key q <= key p *)
Definition before (p q : hpat) : Prop := key_leb (pkey q) (pkey p) = true.

Lemma insert_desc_perm p l : Permutation (insert_desc p l) (p :: l).
Proof.
  induction l as [|q r IH]; simpl; auto.
  destruct (key_leb (pkey q) (pkey p)); auto.
  eapply perm_trans; [apply perm_skip; exact IH | apply perm_swap].
Qed.

Lemma sort_desc_perm l : Permutation (sort_desc l) l.
Proof.
  induction l as [|p r IH]; simpl; auto.
  eapply perm_trans; [apply insert_desc_perm | apply perm_skip; exact IH].
Qed.

Lemma insert_desc_sorted p l : StronglySorted before l -> StronglySorted before (insert_desc p l).
Proof.
  induction l as [|q r IH]; simpl; intro S.
  - constructor; constructor.
  - inversion S as [|? ? Sr Fq]; subst.
    destruct (key_leb (pkey q) (pkey p)) eqn:E.
    + constructor; auto. constructor; [exact E|].
      rewrite Forall_forall in *. intros x Ix. unfold before in *.
      eapply key_leb_trans; [apply (Fq x Ix) | exact E].
    + constructor; [apply IH; exact Sr|].
      rewrite Forall_forall in *. intros x Ix.
      apply (Permutation_in _ (insert_desc_perm p r)) in Ix. destruct Ix as [<- | Ix]; [|apply Fq; exact Ix].
      unfold before. destruct (key_leb_total (pkey p) (pkey q)) as [H | H]; [exact H | congruence].
Qed.

Lemma sort_desc_sorted l : StronglySorted before (sort_desc l).
Proof. induction l as [|p r IH]; simpl; [constructor | apply insert_desc_sorted; exact IH]. Qed.

(** two descending arrangements of the same patterns are the same list when patterns with equal keys are equal *)
Lemma sorted_perm_eq l : forall l',
  StronglySorted before l -> StronglySorted before l' -> Permutation l l' ->
  (forall a b, In a l -> In b l -> before a b -> before b a -> a = b) -> l = l'.
Proof.
  induction l as [|x l IH]; intros l' S S' P A.
  - apply Permutation_nil in P. auto.
  - destruct l' as [|y l']; [apply Permutation_sym, Permutation_nil in P; discriminate|].
    inversion S as [|? ? Sl Fx]; subst. inversion S' as [|? ? Sl' Fy]; subst.
    rewrite Forall_forall in Fx, Fy.
    assert (E : x = y).
    { assert (Ix : In x (y :: l')) by (eapply Permutation_in; [exact P | left; reflexivity]).
      assert (Iy : In y (x :: l)) by (eapply Permutation_in; [apply Permutation_sym; exact P | left; reflexivity]).
      destruct Ix as [Ix | Ix]; [auto|]. destruct Iy as [Iy | Iy]; [auto|].
      apply A; [left; reflexivity | right; exact Iy | apply Fx; exact Iy | apply Fy; exact Ix]. }
    subst y. f_equal. apply IH; auto.
    + eapply Permutation_cons_inv; eauto.
    + intros a b Ia Ib. apply A; right; auto.
Qed.

(** ------------------------------------------------------------------ the duplicate check *)

(** no two patterns with the same (address, verb) belong to methods of different names *)
Definition pats_consistent (l : list hpat) : Prop :=
  forall p q, In p l -> In q l -> fst p = fst q -> snd p = snd q.

(** no HttpPattern was given the empty string as its verb *)
Definition verbs_nonempty (l : list hpat) : Prop := forall p, In p l -> snd (fst p) <> Some [].

Lemma opt_text_eqb_eq a b : opt_text_eqb a b = true <-> a = b.
Proof.
  destruct a as [x|], b as [y|]; simpl; try (split; [discriminate | intro H; discriminate H]); [|tauto].
  rewrite text_eqb_eq. split; [intros ->; reflexivity | intro H; inversion H; reflexivity].
Qed.

Lemma same_pkey_eq p q : same_pkey p q = true <-> fst p = fst q.
Proof.
  unfold same_pkey. rewrite andb_true_iff, text_eqb_eq, opt_text_eqb_eq.
  destruct p as [[a v] n], q as [[a' v'] n']. simpl. split; [intros [-> ->]; reflexivity | intro H; inversion H; auto].
Qed.

Lemma taken_lookup_some p taken q : taken_lookup p taken = Some q -> In q taken /\ fst p = fst q.
Proof.
  induction taken as [|x r IH]; simpl; [discriminate|].
  destruct (same_pkey p x) eqn:E.
  - intro H. inversion H; subst. split; [left; reflexivity | apply same_pkey_eq; exact E].
  - intro H. destruct (IH H). split; [right|]; auto.
Qed.

Lemma taken_lookup_none p taken : taken_lookup p taken = None -> forall q, In q taken -> fst p <> fst q.
Proof.
  induction taken as [|x r IH]; simpl; intros H q I; [destruct I|].
  destruct (same_pkey p x) eqn:E; [discriminate|].
  destruct I as [<- | I]; [|apply IH; auto].
  intro X. apply same_pkey_eq in X. congruence.
Qed.

Lemma check_pats_iff : forall ps taken, pats_consistent taken ->
  (check_pats taken ps = Built tt <-> pats_consistent (taken ++ ps)).
Proof.
  induction ps as [|p r IH]; intros taken C; simpl.
  - rewrite app_nil_r. split; auto.
  - destruct (taken_lookup p taken) as [q|] eqn:L.
    + destruct (taken_lookup_some _ _ _ L) as [Iq Kq].
      destruct (text_eqb (snd q) (snd p)) eqn:E.
      * apply text_eqb_eq in E. rewrite (IH taken C). unfold pats_consistent. split; intros H a b Ia Ib K.
        -- assert (F : forall x, In x (taken ++ p :: r) -> In x (taken ++ r) \/ x = p).
           { intro x. rewrite !in_app_iff. simpl. intuition auto. }
           assert (G : forall x, In x (taken ++ r) -> fst x = fst p -> snd x = snd p).
           { intros x Ix Kx. rewrite <- E. apply H; auto; [rewrite in_app_iff; auto | congruence]. }
           destruct (F a Ia) as [Ja | ->], (F b Ib) as [Jb | ->]; auto.
           symmetry. apply G; auto.
        -- apply H; auto; rewrite in_app_iff in *; simpl; tauto.
      * split; [discriminate|]. intro H. exfalso. apply text_eqb_neq in E. apply E.
        apply H; [rewrite in_app_iff; auto | rewrite in_app_iff; right; left; reflexivity | congruence].
    + pose proof (taken_lookup_none _ _ L) as N.
      assert (C' : pats_consistent (taken ++ [p])).
      { intros a b Ia Ib K. rewrite in_app_iff in Ia, Ib. simpl in Ia, Ib.
        destruct Ia as [Ia | [<- | []]], Ib as [Ib | [<- | []]]; auto.
        - exfalso. apply (N a Ia). congruence.
        - exfalso. apply (N b Ib). congruence. }
      rewrite (IH (taken ++ [p]) C'). rewrite <- app_assoc. simpl. tauto.
Qed.

Lemma check_pats_tt taken ps u : check_pats taken ps = Built u -> check_pats taken ps = Built tt.
Proof. destruct u. auto. Qed.

Lemma check_pats_reject : forall ps taken r, check_pats taken ps = Rejected r -> r = RDupPattern.
Proof.
  induction ps as [|p ps IH]; simpl; intros taken r H; [discriminate|].
  destruct (taken_lookup p taken) as [q|]; [|eapply IH; eauto].
  destruct (text_eqb (snd q) (snd p)); [eapply IH; eauto | inversion H; reflexivity].
Qed.

Lemma pats_consistent_nil : pats_consistent [].
Proof. intros p q []. Qed.

Lemma server_patterns_iff t :
  (exists ps, server_patterns t = Built ps) <-> pats_consistent (collect_patterns t).
Proof.
  unfold server_patterns. rewrite <- (check_pats_iff (collect_patterns t) [] pats_consistent_nil : _ <-> pats_consistent ([] ++ _)).
  split.
  - intros [ps H]. destruct (check_pats [] (collect_patterns t)) as [u|] eqn:E; [|discriminate]. destruct u. reflexivity.
  - intros ->. simpl. eauto.
Qed.

Lemma server_patterns_built t ps :
  server_patterns t = Built ps -> ps = sort_desc (collect_patterns t) /\ pats_consistent (collect_patterns t).
Proof.
  intro H. split.
  - unfold server_patterns in H. destruct (check_pats [] (collect_patterns t)); simpl in H; [|discriminate].
    inversion H. reflexivity.
  - apply server_patterns_iff. eauto.
Qed.

Lemma server_patterns_rejected t r : server_patterns t = Rejected r -> r = RDupPattern.
Proof.
  unfold server_patterns. destruct (check_pats [] (collect_patterns t)) as [u|r'] eqn:E; simpl; [discriminate|].
  intro H. inversion H; subst. eapply check_pats_reject; eauto.
Qed.

(** equal sort keys, among consistent patterns with non-empty verbs: equal patterns *)
Lemma key_eq_pat_eq l p q :
  pats_consistent l -> verbs_nonempty l -> In p l -> In q l -> pkey p = pkey q -> p = q.
Proof.
  intros C V Ip Iq K.
  assert (F : fst p = fst q).
  { pose proof (V p Ip) as Vp. pose proof (V q Iq) as Vq. unfold pkey in K.
    destruct p as [[a v] n], q as [[a' v'] n']. simpl in *. inversion K; subst.
    destruct v as [v|], v' as [v'|]; simpl in *; subst; try reflexivity; exfalso; auto. }
  pose proof (C p q Ip Iq F). destruct p as [[a v] n], q as [[a' v'] n']. simpl in *. congruence.
Qed.

Lemma sort_desc_perm_eq l l' :
  Permutation l l' -> pats_consistent l -> verbs_nonempty l -> sort_desc l = sort_desc l'.
Proof.
  intros P C V. apply sorted_perm_eq; try apply sort_desc_sorted.
  - eapply perm_trans; [apply sort_desc_perm|]. eapply perm_trans; [exact P|]. apply Permutation_sym, sort_desc_perm.
  - intros a b Ia Ib H1 H2. apply (Permutation_in _ (sort_desc_perm l)) in Ia, Ib.
    apply (key_eq_pat_eq l); auto. unfold before in *. apply key_leb_antisym; auto.
Qed.

Lemma pats_consistent_perm l l' : Permutation l l' -> pats_consistent l -> pats_consistent l'.
Proof.
  intros P C p q Ip Iq. apply C; eapply Permutation_in; try apply Permutation_sym; eauto.
Qed.

(** ------------------------------------------------------------------ which patterns a constructed table carries *)

Definition desc_pats (d : desc) : list hpat := map (fun p => (fst p, snd p, d_name d)) (d_pats d).

Definition entry_pats (kv : text * list desc) : list hpat :=
  match snd kv with [] => [] | d :: _ => desc_pats d end.

Arguments entry_pats : simpl never.

Lemma entry_pats_key k k' v : entry_pats (k, v) = entry_pats (k', v).
Proof. reflexivity. Qed.

Lemma collect_patterns_flat t : collect_patterns t = flat_map entry_pats t.
Proof. reflexivity. Qed.

(** the patterns of the primary methods, in listing order *)
Definition prim_pats (D : list desc) : list hpat := flat_map desc_pats (filter (fun d => negb (d_aux d)) D).

(** auxiliary methods carry no HttpPatterns *)
Definition aux_no_pats (D : list desc) : Prop := forall d, In d D -> d_aux d = true -> d_pats d = [].

Lemma prim_pats_app D1 D2 : prim_pats (D1 ++ D2) = prim_pats D1 ++ prim_pats D2.
Proof. unfold prim_pats. rewrite filter_app, flat_map_app. reflexivity. Qed.

Lemma prim_pats_perm D D' : Permutation D D' -> Permutation (prim_pats D) (prim_pats D').
Proof. intro P. unfold prim_pats. apply Permutation_flat_map. apply Permutation_filter'. exact P. Qed.

Lemma collect_update_new_fm k v t :
  lookup k t = None -> flat_map entry_pats (update k v t) = flat_map entry_pats t ++ entry_pats (k, v).
Proof.
  induction t as [|[k' v'] r IH]; simpl; intro L.
  - rewrite app_nil_r. reflexivity.
  - destruct (text_eqb k k'); [discriminate|]. simpl. rewrite IH by exact L. rewrite app_assoc. reflexivity.
Qed.

Lemma collect_update_new k v t :
  lookup k t = None -> collect_patterns (update k v t) = collect_patterns t ++ entry_pats (k, v).
Proof. exact (collect_update_new_fm k v t). Qed.

Lemma collect_update_old_fm k v v0 t :
  lookup k t = Some v0 -> entry_pats (k, v0) = [] ->
  Permutation (flat_map entry_pats (update k v t)) (entry_pats (k, v) ++ flat_map entry_pats t).
Proof.
  induction t as [|[k' v'] r IH]; simpl; intros L E; [discriminate|].
  destruct (text_eqb k k') eqn:K.
  - inversion L; subst v'. simpl. rewrite (entry_pats_key k' k v0), E, (entry_pats_key k' k v). simpl. apply Permutation_refl.
  - simpl. eapply perm_trans; [apply Permutation_app_head; apply IH; auto|].
    rewrite !app_assoc. apply Permutation_app_tail. apply Permutation_app_comm.
Qed.

Lemma collect_update_old k v v0 t :
  lookup k t = Some v0 -> entry_pats (k, v0) = [] ->
  Permutation (collect_patterns (update k v t)) (entry_pats (k, v) ++ collect_patterns t).
Proof. exact (collect_update_old_fm k v v0 t). Qed.

Lemma collect_update_same_fm k v v0 t :
  lookup k t = Some v0 -> entry_pats (k, v) = entry_pats (k, v0) ->
  flat_map entry_pats (update k v t) = flat_map entry_pats t.
Proof.
  induction t as [|[k' v'] r IH]; simpl; intros L E; [discriminate|].
  destruct (text_eqb k k') eqn:K.
  - inversion L; subst v'. simpl. rewrite (entry_pats_key k' k v0), <- E, (entry_pats_key k' k v). reflexivity.
  - simpl. rewrite IH; auto.
Qed.

Lemma collect_update_same k v v0 t :
  lookup k t = Some v0 -> entry_pats (k, v) = entry_pats (k, v0) ->
  collect_patterns (update k v t) = collect_patterns t.
Proof. exact (collect_update_same_fm k v v0 t). Qed.

Lemma desc_pats_aux D d : aux_no_pats D -> In d D -> d_aux d = true -> desc_pats d = [].
Proof. intros H I A. unfold desc_pats. rewrite (H d I A). reflexivity. Qed.

Lemma prim_pats_single d : prim_pats [d] = if d_aux d then [] else desc_pats d.
Proof. unfold prim_pats. simpl. destruct (d_aux d); simpl; [|rewrite app_nil_r]; reflexivity. Qed.

(** one step of the route phase keeps "the table's patterns are the primary methods' patterns" *)
Lemma process_method_collect tns D st d st' :
  inv tns D st -> aux_no_pats (D ++ [d]) ->
  Permutation (collect_patterns (snd st)) (prim_pats D) ->
  process_method tns st d = Built st' ->
  Permutation (collect_patterns (snd st')) (prim_pats (D ++ [d])).
Proof.
  intros I A J H. destruct st as [ids smm]. unfold process_method in H. simpl in J.
  destruct (mem (d_mkey d) ids); [discriminate|].
  rewrite prim_pats_app, prim_pats_single.
  assert (AD : d_aux d = true -> desc_pats d = []).
  { intro X. apply (desc_pats_aux (D ++ [d])); auto. rewrite in_app_iff. right. left. reflexivity. }
  assert (NEW : forall v0 val, lookup (method_key tns (d_name d)) smm = Some v0 -> entry_pats (method_key tns (d_name d), v0) = [] ->
                Permutation (collect_patterns (update (method_key tns (d_name d)) (d :: val) smm))
                            (prim_pats D ++ (if d_aux d then [] else desc_pats d))).
  { intros v0 val L E. eapply perm_trans; [eapply collect_update_old; eauto|].
    unfold entry_pats. simpl. eapply perm_trans; [apply Permutation_app_comm|]. apply Permutation_app; auto.
    destruct (d_aux d) eqn:X; [rewrite AD by reflexivity|]; apply Permutation_refl. }
  pose proof (inv_route _ _ _ I (d_name d)) as R. simpl in R.
  destruct (lookup (method_key tns (d_name d)) smm) as [val|] eqn:L.
  - destruct val as [|v0 val].
    + inversion H; subst st'. simpl. apply (NEW [] []); auto.
    + assert (RV : route_of D (d_name d) = v0 :: val) by (destruct (route_of D (d_name d)); [discriminate | congruence]).
      assert (I0 : In v0 D).
      { assert (X : In v0 (route_of D (d_name d))) by (rewrite RV; left; reflexivity). apply route_of_In in X. tauto. }
      destruct (d_aux d) eqn:X.
      * inversion H; subst st'. simpl. rewrite app_nil_r.
        rewrite (collect_update_same _ _ (v0 :: val)); auto.
      * destruct (d_aux v0) eqn:X0; [|discriminate].
        inversion H; subst st'. simpl.
        assert (E0 : entry_pats (method_key tns (d_name d), v0 :: val) = []).
        { unfold entry_pats. simpl. apply (desc_pats_aux (D ++ [d])); auto. rewrite in_app_iff. auto. }
        pose proof (NEW (v0 :: val) (v0 :: val) eq_refl E0) as N. exact N.
  - inversion H; subst st'. simpl. rewrite collect_update_new by exact L.
    apply Permutation_app; auto. unfold entry_pats. simpl.
    destruct (d_aux d) eqn:X; [rewrite AD by reflexivity|]; apply Permutation_refl.
Qed.

Lemma aux_no_pats_prefix D1 D2 : aux_no_pats (D1 ++ D2) -> aux_no_pats D1.
Proof. intros H d I. apply H. rewrite in_app_iff. auto. Qed.

Lemma process_methods_collect tns : forall D2 D1 st st',
  inv tns D1 st -> aux_no_pats (D1 ++ D2) ->
  Permutation (collect_patterns (snd st)) (prim_pats D1) ->
  process_methods tns st D2 = Built st' ->
  Permutation (collect_patterns (snd st')) (prim_pats (D1 ++ D2)).
Proof.
  induction D2 as [|d D2 IH]; intros D1 st st' I A J H; simpl in H.
  - inversion H; subst. rewrite app_nil_r. exact J.
  - destruct (process_method tns st d) as [st1|] eqn:E; simpl in H; [|discriminate].
    replace (D1 ++ d :: D2) with ((D1 ++ [d]) ++ D2) in * by (rewrite <- app_assoc; reflexivity).
    eapply IH; eauto.
    + eapply process_method_step; eauto.
    + eapply process_method_collect; eauto. eapply aux_no_pats_prefix; eauto.
Qed.

Lemma construct_collect a t :
  construct a = Built t -> aux_no_pats (all_descs (a_services a)) ->
  Permutation (collect_patterns t) (prim_pats (all_descs (a_services a))).
Proof.
  intros H A. pose proof (construct_descs _ _ H) as E. unfold construct in H. rewrite E in H. simpl in H.
  destruct (check_unique [] _) as [u|]; simpl in H; [|discriminate].
  destruct (add_classes [] _) as [cs|]; simpl in H; [|discriminate].
  destruct (process_methods _ _ _) as [st|] eqn:PM; simpl in H; [|discriminate].
  inversion H; subst t.
  apply (process_methods_collect (a_tns a) _ [] ([], []) st (inv_init (a_tns a))); auto.
Qed.

(** a primary method's patterns are in the table's pattern list, whatever the auxiliary methods carry *)
Lemma lookup_In k t v : lookup k t = Some v -> exists k', In (k', v) t.
Proof.
  induction t as [|[k' v'] r IH]; simpl; [discriminate|].
  destruct (text_eqb k k').
  - intro H. inversion H; subst. eexists. left. reflexivity.
  - intro H. destruct (IH H) as [k'' X]. eexists. right. exact X.
Qed.

Lemma primary_pats_collected a t d p :
  construct a = Built t -> In d (all_descs (a_services a)) -> d_aux d = false -> In p (desc_pats d) ->
  In p (collect_patterns t).
Proof.
  intros C I A P. destruct (construct_table _ _ C) as (R & _ & L).
  set (D := all_descs (a_services a)) in *.
  assert (N : In d (named D (d_name d) false)) by (apply named_In; auto).
  specialize (L (d_name d)). specialize (R (d_name d)).
  destruct (named D (d_name d) false) as [|x [|y l]] eqn:E; [destruct N | | simpl in L; lia].
  destruct N as [-> | []].
  unfold route_of in R. rewrite E in R. simpl in R.
  destruct (lookup_In _ _ _ R) as [k' X].
  rewrite collect_patterns_flat. apply in_flat_map. exists (k', d :: named D (d_name d) true). split; auto.
Qed.
