(** Lemmas about decimal text of integers. *)
From SpyneV Require Import Base.Digits.
From Coq Require Import Lia ZifyBool.
Ltac Zify.zify_post_hook ::= Z.to_euclidean_division_equations.

Lemma digs_acc fuel : forall n acc, digs fuel n acc = digs fuel n [] ++ acc.
Proof.
  induction fuel as [|f IH]; intros n acc; cbn [digs]; [reflexivity|].
  destruct (n <? 10); [reflexivity|].
  rewrite (IH (n / 10) (_ :: acc)), (IH (n / 10) [_]), <- app_assoc. reflexivity.
Qed.

Lemma digs_fuel f1 : forall f2 n acc, 0 <= n -> (0 < f1)%nat -> (0 < f2)%nat ->
  n < 2 ^ Z.of_nat f1 -> n < 2 ^ Z.of_nat f2 -> digs f1 n acc = digs f2 n acc.
Proof.
  induction f1 as [|f1 IH]; intros f2 n acc Hn Hf1 Hf2 H1 H2; [lia|].
  destruct f2 as [|f2]; [lia|].
  cbn [digs]. destruct (n <? 10) eqn:E; [reflexivity|].
  rewrite Nat2Z.inj_succ, Z.pow_succ_r in H1, H2 by lia.
  assert (forall f, n < 2 * 2 ^ Z.of_nat f -> (0 < f)%nat).
  { intros f Hf. destruct f; [change (2 ^ Z.of_nat 0) with 1 in Hf; lia|lia]. }
  apply IH; auto; lia.
Qed.

Lemma nat_fuel_ok n : 0 <= n -> n < 2 ^ Z.of_nat (nat_fuel n).
Proof.
  intros Hn. unfold nat_fuel. rewrite Nat2Z.inj_succ, Z2Nat.id by apply Z.log2_nonneg.
  destruct (Z.eq_dec n 0) as [->|Hz]; [reflexivity|].
  apply Z.log2_spec. lia.
Qed.

Lemma str_nat_eq n : 0 <= n ->
  str_nat n = if n <? 10 then [48 + n] else str_nat (n / 10) ++ [48 + n mod 10].
Proof.
  intros Hn. unfold str_nat at 1. unfold nat_fuel. cbn [digs].
  destruct (n <? 10) eqn:E; [reflexivity|].
  rewrite digs_acc. f_equal. unfold str_nat.
  assert (Hl : 0 < Z.log2 n) by (apply Z.log2_pos; lia).
  apply digs_fuel; [lia|lia|unfold nat_fuel; lia| |apply nat_fuel_ok; lia].
  rewrite Z2Nat.id by apply Z.log2_nonneg.
  assert (H := Z.log2_spec n ltac:(lia)).
  rewrite Z.pow_succ_r in H by apply Z.log2_nonneg. lia.
Qed.

(** induction principle following the digit recursion *)
Lemma digit_ind (P : Z -> Prop) :
  (forall n, 0 <= n < 10 -> P n) ->
  (forall n, 10 <= n -> P (n / 10) -> P n) ->
  forall n, 0 <= n -> P n.
Proof.
  intros Hb Hs n Hn. pattern n. apply Zlt_0_ind; [|exact Hn].
  intros x IH Hx. destruct (Z_lt_dec x 10); [apply Hb; lia|].
  apply Hs; [lia|]. apply IH. lia.
Qed.

Lemma val_digits_app a l1 l2 : val_digits a (l1 ++ l2) = val_digits (val_digits a l1) l2.
Proof. unfold val_digits. apply fold_left_app. Qed.

Lemma val_str_nat n : 0 <= n -> forall a, val_digits a (str_nat n) = a * 10 ^ len (str_nat n) + n.
Proof.
  intros Hn. pattern n. apply digit_ind; [| |exact Hn]; clear n Hn.
  - intros n Hn a. rewrite str_nat_eq by lia. replace (n <? 10) with true by lia.
    unfold len, val_digits, dstep. cbn [length fold_left].
    change (Z.of_nat 1) with 1. change (10 ^ 1) with 10. lia.
  - intros n Hn IH a. rewrite str_nat_eq by lia. replace (n <? 10) with false by lia.
    rewrite val_digits_app, IH. unfold len. rewrite app_length, Nat2Z.inj_add.
    cbn [length val_digits fold_left]. unfold dstep, len.
    rewrite Z.pow_add_r by lia. change (10 ^ Z.of_nat 1) with 10.
    set (p := 10 ^ Z.of_nat (length (str_nat (n / 10)))). lia.
Qed.

Lemma val_str_nat0 n : 0 <= n -> val_digits 0 (str_nat n) = n.
Proof. intros Hn. rewrite val_str_nat by exact Hn. lia. Qed.

Lemma str_nat_digits n : 0 <= n -> Forall (fun c => is_digit c = true) (str_nat n).
Proof.
  intros Hn. pattern n. apply digit_ind; [| |exact Hn]; clear n Hn.
  - intros n Hn. rewrite str_nat_eq by lia. replace (n <? 10) with true by lia.
    constructor; [unfold is_digit; lia|constructor].
  - intros n Hn IH. rewrite str_nat_eq by lia. replace (n <? 10) with false by lia.
    apply Forall_app. split; [exact IH|]. constructor; [unfold is_digit; lia|constructor].
Qed.

Lemma str_nat_nonempty n : 0 <= n -> str_nat n <> [].
Proof.
  intros Hn. rewrite str_nat_eq by exact Hn. destruct (n <? 10); [discriminate|].
  intros H. apply app_eq_nil in H. destruct H; discriminate.
Qed.

(** length of the decimal text: exactly the number of digits *)
Lemma str_nat_len n : 0 <= n -> forall k, 1 <= k -> (len (str_nat n) <= k <-> n < 10 ^ k).
Proof.
  intros Hn. pattern n. apply digit_ind; [| |exact Hn]; clear n Hn.
  - intros n Hn k Hk. rewrite str_nat_eq by lia. replace (n <? 10) with true by lia.
    unfold len; cbn [length]. split; [|lia]. intros _.
    assert (10 ^ 1 <= 10 ^ k) by (apply Z.pow_le_mono_r; lia). lia.
  - intros n Hn IH k Hk. rewrite str_nat_eq by lia. replace (n <? 10) with false by lia.
    unfold len. rewrite app_length, Nat2Z.inj_add. cbn [length]. fold (len (str_nat (n / 10))).
    destruct (Z.eq_dec k 1) as [->|Hk1].
    + assert (0 < len (str_nat (n / 10))).
      { unfold len. pose proof (str_nat_nonempty (n / 10) ltac:(lia)).
        destruct (str_nat (n / 10)); [congruence|cbn [length]; lia]. }
      change (10 ^ 1) with 10. lia.
    + specialize (IH (k - 1) ltac:(lia)).
      replace k with (Z.succ (k - 1)) at 2 by lia. rewrite Z.pow_succ_r by lia.
      set (p := 10 ^ (k - 1)) in *. lia.
Qed.

Lemma parse_digits_all l : Forall (fun c => is_digit c = true) l ->
  forall started acc, (l <> [] \/ started = true) ->
  parse_digits started false acc l = Some (val_digits acc l).
Proof.
  induction 1 as [|c l Hc Hl IH]; intros started acc Hne.
  - destruct Hne as [Hne | ->]; [congruence|reflexivity].
  - cbn [parse_digits]. rewrite Hc. rewrite IH by (right; reflexivity). reflexivity.
Qed.

Lemma drop_space_nonspace c l : is_space c = false -> drop_space (c :: l) = c :: l.
Proof. intros H. cbn [drop_space]. rewrite H. reflexivity. Qed.

Lemma strip_id l c d m :
  l = c :: m -> is_space c = false ->
  (exists m', l = m' ++ [d]) -> is_space d = false -> strip l = l.
Proof.
  intros -> Hc [m' Hm'] Hd. unfold strip. rewrite drop_space_nonspace by exact Hc.
  rewrite Hm', rev_app_distr. cbn [rev app]. rewrite drop_space_nonspace by exact Hd.
  change (d :: rev m') with (rev [d] ++ rev m'). rewrite <- rev_app_distr, rev_involutive.
  reflexivity.
Qed.

Lemma digit_not_space c : is_digit c = true -> is_space c = false.
Proof. unfold is_digit, is_space. lia. Qed.

Lemma str_nat_last n : 0 <= n -> exists m d, str_nat n = m ++ [d] /\ is_digit d = true.
Proof.
  intros Hn. rewrite str_nat_eq by exact Hn. destruct (n <? 10) eqn:E.
  - exists [], (48 + n). split; [reflexivity|unfold is_digit; lia].
  - exists (str_nat (n / 10)), (48 + n mod 10). split; [reflexivity|unfold is_digit; lia].
Qed.

Lemma str_nat_head n : 0 <= n -> exists c m, str_nat n = c :: m /\ is_digit c = true.
Proof.
  intros Hn. pose proof (str_nat_digits n Hn) as HF. pose proof (str_nat_nonempty n Hn) as HN.
  destruct (str_nat n) as [|c m]; [congruence|]. exists c, m. split; [reflexivity|].
  inversion HF; assumption.
Qed.

Lemma int_of_text_str_nat n : 0 <= n -> int_of_text (str_nat n) = Some n.
Proof.
  intros Hn. unfold int_of_text.
  destruct (str_nat_head n Hn) as (c & m & Hcm & Hc).
  destruct (str_nat_last n Hn) as (m' & d & Hmd & Hd).
  rewrite (strip_id (str_nat n) c d m Hcm (digit_not_space c Hc)
             (ex_intro _ m' Hmd) (digit_not_space d Hd)).
  pose proof (str_nat_digits n Hn) as HF.
  assert (Hp : parse_digits false false 0 (str_nat n) = Some n).
  { rewrite parse_digits_all; [rewrite val_str_nat0 by exact Hn; reflexivity|exact HF|].
    left. apply str_nat_nonempty; exact Hn. }
  rewrite Hcm in *. unfold is_digit in Hc.
  destruct (Z.eq_dec c 45); [lia|]. destruct (Z.eq_dec c 43); [lia|].
  destruct c as [|p|p]; try exact Hp.
  do 6 (destruct p as [p|p|]; try exact Hp); lia.
Qed.

(** print / parse round trip for every Python int *)
Theorem int_of_text_str_int z : int_of_text (str_int z) = Some z.
Proof.
  unfold str_int. destruct (z <? 0) eqn:E.
  - assert (Hn : 0 <= - z) by lia.
    unfold int_of_text.
    destruct (str_nat_last (- z) Hn) as (m' & d & Hmd & Hd).
    assert (Hex : exists m'', 45 :: str_nat (- z) = m'' ++ [d]).
    { exists (45 :: m'). rewrite Hmd. reflexivity. }
    rewrite (strip_id (45 :: str_nat (- z)) 45 d (str_nat (- z)) eq_refl eq_refl
               Hex (digit_not_space d Hd)).
    rewrite parse_digits_all;
      [|apply str_nat_digits; exact Hn|left; apply str_nat_nonempty; exact Hn].
    rewrite val_str_nat0 by exact Hn. cbn [option_map]. f_equal. lia.
  - apply int_of_text_str_nat. lia.
Qed.

Lemma len_str_int z : len (str_int z) = if z <? 0 then 1 + len (str_nat (- z)) else len (str_nat z).
Proof. unfold str_int. destruct (z <? 0); [|reflexivity]. unfold len. cbn [length]. lia. Qed.

(** zero padding *)
Lemma pad_digits_acc w : forall n acc, pad_digits w n acc = pad_digits w n [] ++ acc.
Proof.
  induction w as [|w IH]; intros n acc; cbn [pad_digits]; [reflexivity|].
  rewrite (IH _ (_ :: acc)), (IH _ [_]), <- app_assoc. reflexivity.
Qed.

Lemma zpad_succ w n : zpad (S w) n = zpad w (n / 10) ++ [48 + n mod 10].
Proof. unfold zpad. cbn [pad_digits]. apply pad_digits_acc. Qed.

Lemma zpad_length w : forall n, length (zpad w n) = w.
Proof.
  induction w as [|w IH]; intros n; [reflexivity|].
  rewrite zpad_succ, app_length, IH. cbn. lia.
Qed.

Lemma zpad_digits w : forall n, Forall (fun c => is_digit c = true) (zpad w n).
Proof.
  induction w as [|w IH]; intros n; [constructor|].
  rewrite zpad_succ. apply Forall_app. split; [apply IH|].
  constructor; [unfold is_digit; lia|constructor].
Qed.

Lemma zpad_val w : forall n a, 0 <= n < 10 ^ Z.of_nat w ->
  val_digits a (zpad w n) = a * 10 ^ Z.of_nat w + n.
Proof.
  induction w as [|w IH]; intros n a Hn.
  - change (10 ^ Z.of_nat 0) with 1 in *. unfold zpad, val_digits. cbn [pad_digits fold_left]. lia.
  - rewrite zpad_succ, val_digits_app.
    rewrite Nat2Z.inj_succ, Z.pow_succ_r in * by lia.
    rewrite IH by lia. unfold val_digits, dstep. cbn [fold_left].
    set (p := 10 ^ Z.of_nat w) in *. lia.
Qed.
