(** Extended integers (Python numbers compared against Decimal('±inf')) and the
    attribute record the generated validation functions read.  Definitions only. *)
From SpyneV Require Export Base.Prelude.

Inductive ext := NegInf | Fin (z : Z) | PosInf.

Definition ext_ltb (a b : ext) : bool :=
  match a, b with
  | NegInf, NegInf => false | NegInf, _ => true
  | Fin _, NegInf => false | Fin x, Fin y => x <? y | Fin _, PosInf => true
  | PosInf, _ => false
  end.
Definition ext_leb (a b : ext) : bool :=
  match a, b with
  | NegInf, _ => true
  | Fin _, NegInf => false | Fin x, Fin y => x <=? y | Fin _, PosInf => true
  | PosInf, PosInf => true | PosInf, _ => false
  end.
Definition ext_eqb (a b : ext) : bool :=
  match a, b with
  | NegInf, NegInf | PosInf, PosInf => true
  | Fin x, Fin y => x =? y
  | _, _ => false
  end.

(** Attributes of a number model, as read by [validate_native] /
    [validate_string] (spyne/model/_base.py, spyne/model/primitive/number.py). *)
Record num_attrs := {
  na_nillable : bool;          (* Attributes.nillable == Attributes.nullable *)
  na_gt : ext; na_ge : ext; na_lt : ext; na_le : ext;
  na_values : list Z;          (* Attributes.values, as a list *)
  na_max_str_len : ext;
  na_min_bound : option Z; na_max_bound : option Z
}.

(** a number model class as the generated tables present it: default attributes and the four
    validation functions translated from its source (value / None instantiations) *)
Record int_type := mk_int_type {
  it_attrs : num_attrs;
  it_vn : num_attrs -> Z -> bool;        (* validate_native(cls, z) *)
  it_vn_none : num_attrs -> bool;        (* validate_native(cls, None) *)
  it_vs : num_attrs -> Z -> bool;        (* validate_string(cls, s), as a function of len(s) *)
  it_vs_none : num_attrs -> bool         (* validate_string(cls, None) *)
}.
