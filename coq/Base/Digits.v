(** Python's [str(int)] and [int(str)] on text (definitions only).
    Mirrors: CPython long_to_decimal_string / PyLong_FromString as observed
    (DESIGN Appendix C); used by spyne/protocol/_outbase.py:integer_to_unicode
    and spyne/protocol/_inbase.py:integer_from_bytes. *)
From SpyneV Require Export Base.Prelude.

Definition is_digit (c : Z) : bool := (48 <=? c) && (c <=? 57).

(** the characters [int()] strips from both ends: C isspace for ASCII, and the
    non-ASCII code points with Py_UNICODE_ISSPACE (0x1c-0x1f are str.isspace()
    but are *not* stripped: observed). *)
Definition is_space (c : Z) : bool :=
  ((9 <=? c) && (c <=? 13)) || (c =? 32) || (c =? 133) || (c =? 160)
  || (c =? 5760) || ((8192 <=? c) && (c <=? 8202)) || (c =? 8232) || (c =? 8233)
  || (c =? 8239) || (c =? 8287) || (c =? 12288).

(** decimal digits of a non-negative number, most significant first *)
Fixpoint digs (fuel : nat) (n : Z) (acc : text) : text :=
  match fuel with
  | O => acc
  | S f => if n <? 10 then (48 + n) :: acc
           else digs f (n / 10) ((48 + n mod 10) :: acc)
  end.
Definition nat_fuel (n : Z) : nat := S (Z.to_nat (Z.log2 n)).
Definition str_nat (n : Z) : text := digs (nat_fuel n) n [].

(** [str(z)] *)
Definition str_int (z : Z) : text :=
  if z <? 0 then 45 :: str_nat (- z) else str_nat z.

(** value of a digit string, accumulator style *)
Definition dstep (a c : Z) : Z := a * 10 + (c - 48).
Definition val_digits (acc : Z) (l : text) : Z := fold_left dstep l acc.

(** digits with single underscores between digits (PEP 515), at least one digit *)
Fixpoint parse_digits (started prev_us : bool) (acc : Z) (l : text) : option Z :=
  match l with
  | [] => if started && negb prev_us then Some acc else None
  | c :: r =>
      if is_digit c then parse_digits true false (dstep acc c) r
      else if c =? 95 then
             if started && negb prev_us then parse_digits true true acc r else None
           else None
  end.

Fixpoint drop_space (l : text) : text :=
  match l with
  | c :: r => if is_space c then drop_space r else l
  | [] => []
  end.
Definition strip (l : text) : text := rev (drop_space (rev (drop_space l))).

(** [int(s)] for a [str] argument: [None] is ValueError. Unicode decimal
    digits other than ASCII are outside the modelled universe. *)
Definition int_of_text (s : text) : option Z :=
  match strip s with
  | 45 :: r => option_map Z.opp (parse_digits false false 0 r)
  | 43 :: r => parse_digits false false 0 r
  | r => parse_digits false false 0 r
  end.

(** fixed-width zero padded decimal, as [%02d] / [%04d] / [%06d] do for
    non-negative numbers that fit *)
Fixpoint pad_digits (width : nat) (n : Z) (acc : text) : text :=
  match width with
  | O => acc
  | S w => pad_digits w (n / 10) ((48 + n mod 10) :: acc)
  end.
Definition zpad (width : nat) (n : Z) : text := pad_digits width n [].
