(** Shared vocabulary of the Spyne model: Python outcomes, text as code points.
    Definitions only (no proofs) so that the model still runs when a proof breaks. *)
From Coq Require Export ZArith List Bool.
Export ListNotations.
Open Scope Z_scope.

(** Text is a list of Unicode code points (Python [str]); bytes are code
    points below 256.  Negative numbers never occur in generated cases and are
    treated as "some other character" by every recogniser. *)
Definition text := list Z.

(** Python exception classes that matter to the modelled code. *)
Inductive exn :=
| ValueError | TypeError | AttributeError | KeyError | IndexError
| OverflowError | BinasciiError | InvalidOperation | UnicodeError
| AssertionError | OtherExn.

(** Outcome of a modelled Python function: a value, a spyne Fault of the
    Client.ValidationError family, any other Fault, or an exception that is not
    a Fault and escapes the function. *)
Inductive out (A : Type) :=
| Ok (a : A)
| VFault              (* spyne.error.ValidationError: Client.ValidationError *)
| Crash (e : exn).
Arguments Ok {A} a.
Arguments VFault {A}.
Arguments Crash {A} e.

Definition bind {A B} (x : out A) (f : A -> out B) : out B :=
  match x with Ok a => f a | VFault => VFault | Crash e => Crash e end.
Notation "'do' x <- e ; f" := (bind e (fun x => f))
  (at level 200, x pattern, e at level 100, f at level 200, right associativity).

Definition is_crash {A} (x : out A) : bool :=
  match x with Crash _ => true | _ => false end.
Definition is_ok {A} (x : out A) : bool :=
  match x with Ok _ => true | _ => false end.

Definition exn_eqb (a b : exn) : bool :=
  match a, b with
  | ValueError, ValueError | TypeError, TypeError | AttributeError, AttributeError
  | KeyError, KeyError | IndexError, IndexError | OverflowError, OverflowError
  | BinasciiError, BinasciiError | InvalidOperation, InvalidOperation
  | UnicodeError, UnicodeError | AssertionError, AssertionError
  | OtherExn, OtherExn => true
  | _, _ => false
  end.

Fixpoint text_eqb (a b : text) : bool :=
  match a, b with
  | [], [] => true
  | x :: a', y :: b' => (x =? y) && text_eqb a' b'
  | _, _ => false
  end.

Definition out_eqb {A} (eqb : A -> A -> bool) (x y : out A) : bool :=
  match x, y with
  | Ok a, Ok b => eqb a b
  | VFault, VFault => true
  | Crash e, Crash f => exn_eqb e f
  | _, _ => false
  end.

Definition len (t : text) : Z := Z.of_nat (length t).

(** indices (from 0) of the cases for which [f] is false: what a
    correspondence file prints. *)
Fixpoint bad_from {A} (i : Z) (f : A -> bool) (l : list A) : list Z :=
  match l with
  | [] => []
  | x :: r => if f x then bad_from (i + 1) f r else i :: bad_from (i + 1) f r
  end.
Definition bad {A} (f : A -> bool) (l : list A) : list Z := bad_from 0 f l.
