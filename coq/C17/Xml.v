(** C17 — what libxml2 2.14 / lxml 6.1 do with DTDs, entities and nesting under
    a given parser configuration, and what Spyne's request entry points do
    with the parser's answer.  Definitions only.

    Documents are abstract syntax (the harness renders the same syntax to
    bytes for the real parser): an optional DOCTYPE with an external subset, an
    internal subset of general-entity declarations, parameter entities that
    are declared and referenced, ATTLIST defaults; and an element tree whose
    text and attribute values may contain entity references.  The file system
    and the network are a function [world] from external identifiers to what
    is stored there; every attempt to use it is recorded as an [event].

    The option semantics below are libxml2's and lxml's as observed (not
    verified); the correspondence check of harness/c17.py runs the same
    documents through the real parser under the same configurations. *)
From SpyneV Require Import Base.Prelude C17.Cfg.

Inductive scheme := SFile | SHttp | SFtp.
Record extid := mkExt { x_scheme : scheme; x_res : Z }.

Inductive piece :=
| PText (t : text)
| PRef (n : Z).                 (* &n; *)

Inductive edef :=
| EInt (ps : list piece)        (* <!ENTITY n "..."> *)
| EExt (x : extid).             (* <!ENTITY n SYSTEM "..."> *)
Definition gdecl := (Z * edef)%type.

Inductive pedef :=
| PEInt (ds : list gdecl)       (* <!ENTITY % p "<!ENTITY ..>.."> %p; *)
| PEExt (x : extid).            (* <!ENTITY % p SYSTEM "..."> %p; *)

Inductive decl :=
| DEnt (n : Z) (d : edef)
| DPEUse (d : pedef)            (* a parameter entity, declared and referenced *)
| DAtt (elem attr : Z) (v : text).   (* <!ATTLIST elem attr CDATA "v"> *)

Inductive node :=
| NElem (tag : Z) (attrs : list (Z * list piece)) (kids : list node)
| NNest (k : Z) (tag : Z) (kid : node)     (* k >= 1 nested <tag> wrappers around kid *)
| NText (t : text)
| NRef (n : Z).

Record doc := mkDoc {
  d_doctype : bool;
  d_ext : option extid;         (* <!DOCTYPE r SYSTEM "..." [...]> *)
  d_decls : list decl;
  d_root : node;
  d_size : Z                    (* length of the document in bytes *)
}.

(** what is stored at an external identifier *)
Inductive rescontent :=
| RMissing
| RText (t : text)                                     (* plain text: fine as entity content, not a DTD *)
| RDtd (ds : list gdecl) (atts : list (Z * Z * text)). (* a DTD fragment: declarations *)
Definition world := extid -> rescontent.

Inductive event :=
| LoadFile (res : Z)                  (* a local file is opened *)
| NetConnect (s : scheme) (res : Z).  (* a network connection is attempted *)

Fixpoint lookup_ent (n : Z) (g : list gdecl) : option edef :=
  match g with
  | [] => None
  | (m, d) :: r => if n =? m then Some d else lookup_ent n r
  end.

Fixpoint memz (n : Z) (l : list Z) : bool :=
  match l with [] => false | m :: r => (n =? m) || memz n r end.

(** first declaration binds *)
Definition add_ent (g : list gdecl) (d : gdecl) : list gdecl :=
  match lookup_ent (fst d) g with Some _ => g | None => g ++ [d] end.
Definition add_ents (g : list gdecl) (ds : list gdecl) : list gdecl := fold_left add_ent ds g.

Definition is_rall (r : resolve) := match r with RAll => true | _ => false end.
Definition is_rno (r : resolve) := match r with RNo => true | _ => false end.
Definition is_rinternal (r : resolve) := match r with RInternal => true | _ => false end.

Section Parser.
  Variable c : pcfg.
  Variable w : world.

  (** libxml2 reads external parameter entities when any of these is set ... *)
  Definition pe_loading : bool :=
    is_rall (resolve_entities c) || load_dtd c || dtd_validation c || attribute_defaults c.
  (** ... and the external subset when any of these is set *)
  Definition subset_loading : bool := load_dtd c || dtd_validation c || attribute_defaults c.

  Inductive loadr := LFatal | LGot (r : rescontent).

  (** the entity loader: file paths are opened; http:// is refused under
      no_network and attempted otherwise; ftp:// has no client any more and is
      looked up (and not found) as a file name *)
  Definition load (x : extid) : list event * loadr :=
    match x_scheme x with
    | SFile => ([LoadFile (x_res x)], LGot (w x))
    | SHttp => if no_network c then ([], LFatal) else ([NetConnect SHttp (x_res x)], LGot (w x))
    | SFtp => ([], LGot RMissing)
    end.

  (** ---------------------------------------------------------------- the DTD *)
  Record dtd := mkDtd { g_ents : list gdecl; g_atts : list (Z * Z * text); g_lenient : bool }.
  Inductive dr := DFatal (evs : list event) | DOk (evs : list event) (d : dtd).

  Definition load_decls (x : extid) (st : dtd) : dr :=
    match load x with
    | (e, LFatal) => DFatal e
    | (e, LGot RMissing) => if dtd_validation c then DFatal e else DOk e st
    | (e, LGot (RText _)) => DFatal e
    | (e, LGot (RDtd gs atts)) =>
        DOk e (mkDtd (add_ents (g_ents st) gs) (g_atts st ++ atts) (g_lenient st))
    end.

  Fixpoint dtd_phase (ds : list decl) (st : dtd) : dr :=
    match ds with
    | [] => DOk [] st
    | d :: r =>
        let step :=
          match d with
          | DEnt n e => DOk [] (mkDtd (add_ent (g_ents st) (n, e)) (g_atts st) (g_lenient st))
          | DAtt el a v => DOk [] (mkDtd (g_ents st) (g_atts st ++ [(el, a, v)]) (g_lenient st))
          | DPEUse pd =>
              (* lxml's 'internal' mode refuses every parameter-entity reference *)
              if is_rinternal (resolve_entities c) then DFatal [] else
              let st' := mkDtd (g_ents st) (g_atts st) true in
              match pd with
              | PEInt gs => DOk [] (mkDtd (add_ents (g_ents st) gs) (g_atts st) true)
              | PEExt x => if pe_loading then load_decls x st' else DOk [] st'
              end
          end in
        match step with
        | DFatal e => DFatal e
        | DOk e st1 => match dtd_phase r st1 with
                       | DFatal e' => DFatal (e ++ e')
                       | DOk e' st2 => DOk (e ++ e') st2
                       end
        end
    end.

  Definition ext_phase (x : option extid) (st : dtd) : dr :=
    match x with
    | None => DOk [] st
    | Some x =>
        let st' := mkDtd (g_ents st) (g_atts st) true in
        if subset_loading then load_decls x st' else DOk [] st'
    end.

  (** ---------------------------------------------------------------- content *)
  Variable g : list gdecl.     (* general entities *)
  Variable atts : list (Z * Z * text).
  Variable lenient : bool.     (* an external subset or a PE reference was seen: an undeclared entity is not an error *)
  Variable size : Z.

  Definition depth_limit : Z := if huge_tree c then 2048 else 256.
  Definition ent_fuel : nat := if huge_tree c then 39%nat else 19%nat.
  (** libxml2's amplification guard (XML_PARSER_ALLOWED_EXPANSION, factor 5);
      huge_tree does not lift it in 2.14 *)
  Definition amp_exceeded (acc : Z) : bool := (1000000 <? acc) && (5 * size <? acc).
  Definition undefined_ok : bool := lenient && is_rno (resolve_entities c).

  Inductive xr := XFatal (evs : list event) | XOk (evs : list event) (t : text) (acc : Z).

  (** the replacement text of an internal entity: its literal text, with every
      reference in it expanded by [rec] and checked against the guard *)
  Fixpoint go_pieces (rec : Z -> Z -> xr) (ps : list piece) (acc : Z) : xr :=
    match ps with
    | [] => XOk [] [] acc
    | PText t :: r =>
        match go_pieces rec r (acc + len t) with
        | XFatal e => XFatal e
        | XOk e t' a => XOk e (t ++ t') a
        end
    | PRef m :: r =>
        match rec m acc with
        | XFatal e => XFatal e
        | XOk e1 t1 a1 =>
            if amp_exceeded (a1 + 20) then XFatal e1 else
            match go_pieces rec r (a1 + 20) with
            | XFatal e => XFatal (e1 ++ e)
            | XOk e2 t2 a2 => XOk (e1 ++ e2) (t1 ++ t2) a2
            end
        end
    end.

  (** full replacement text of &n;.  [acc] is libxml2's running total of
      entity expansion (text produced plus a fixed cost of 20 per reference),
      checked against the amplification guard at every reference, so an
      expansion bomb is abandoned as soon as the total passes the limit.
      [fuel] is libxml2's entity nesting limit, not an artefact. *)
  Fixpoint expand (inattr : bool) (fuel : nat) (path : list Z) (n : Z) (acc : Z) : xr :=
    match fuel with
    | O => XFatal []
    | S f =>
        if memz n path then XFatal [] else
        match lookup_ent n g with
        | None => if undefined_ok then XOk [] [] acc else XFatal []
        | Some (EExt x) =>
            if inattr then XFatal [] else
            match resolve_entities c with
            | RInternal => XFatal []
            | RNo =>
                if dtd_validation c then
                  match load x with
                  | (e, LFatal) | (e, LGot RMissing) | (e, LGot (RDtd _ _)) => XFatal e
                  | (e, LGot (RText t)) => XOk e [] acc
                  end
                else XOk [] [] acc
            | RAll =>
                match load x with
                | (e, LFatal) => XFatal e
                | (e, LGot RMissing) => if dtd_validation c then XFatal e else XOk e [] acc
                | (e, LGot (RText t)) => XOk e t (acc + len t)
                | (e, LGot (RDtd _ _)) => XFatal e
                end
            end
        | Some (EInt ps) => go_pieces (fun m a => expand inattr f (n :: path) m a) ps acc
        end
    end.

  Inductive wr (A : Type) := WFatal (evs : list event) | WOk (evs : list event) (acc : Z) (a : A).
  Arguments WFatal {A} evs.
  Arguments WOk {A} evs acc a.

  (** a reference to an undeclared entity that was let through (external subset
      or PE reference seen) leaves nothing in an attribute value *)
  Definition keep_ref (n : Z) : list piece :=
    match lookup_ent n g with Some _ => [PRef n] | None => [] end.

  (** an attribute value: every reference is checked and accounted; the tree
      keeps the reference unless entities are substituted *)
  Fixpoint walk_pieces (ps : list piece) (acc : Z) : wr (list piece) :=
    match ps with
    | [] => WOk [] acc []
    | PText t :: r =>
        match walk_pieces r acc with
        | WFatal e => WFatal e
        | WOk e a r' => WOk e a (PText t :: r')
        end
    | PRef n :: r =>
        match expand true ent_fuel [] n acc with
        | XFatal e => WFatal e
        | XOk e t a1 =>
            if amp_exceeded (a1 + 20) then WFatal e else
            match walk_pieces r (a1 + 20) with
            | WFatal e' => WFatal (e ++ e')
            | WOk e' a r' =>
                WOk (e ++ e') a (if is_rno (resolve_entities c)
                                 then keep_ref n ++ r'
                                 else PText t :: r')
            end
        end
    end.

  Fixpoint walk_attrs (l : list (Z * list piece)) (acc : Z) : wr (list (Z * list piece)) :=
    match l with
    | [] => WOk [] acc []
    | (a, ps) :: r =>
        match walk_pieces ps acc with
        | WFatal e => WFatal e
        | WOk e acc1 ps' =>
            match walk_attrs r acc1 with
            | WFatal e' => WFatal (e ++ e')
            | WOk e' acc2 r' => WOk (e ++ e') acc2 ((a, ps') :: r')
            end
        end
    end.

  Fixpoint has_attr (a : Z) (l : list (Z * list piece)) : bool :=
    match l with [] => false | (b, _) :: r => (a =? b) || has_attr a r end.

  (** attribute defaults of the DTD are added only under attribute_defaults *)
  Fixpoint defaults_for (tag : Z) (l : list (Z * Z * text)) (have : list (Z * list piece))
    : list (Z * list piece) :=
    match l with
    | [] => []
    | (el, a, v) :: r =>
        if (el =? tag) && negb (has_attr a have)
        then (a, [PText v]) :: defaults_for tag r ((a, [PText v]) :: have)
        else defaults_for tag r have
    end.
  Definition add_defaults (tag : Z) (l : list (Z * list piece)) : list (Z * list piece) :=
    if attribute_defaults c then l ++ defaults_for tag atts l else l.

  Definition walk_ref (n : Z) (acc : Z) : wr node :=
    match expand false ent_fuel [] n acc with
    | XFatal e => WFatal e
    | XOk e t a1 =>
        if amp_exceeded (a1 + 20) then WFatal e
        else WOk e (a1 + 20) (if is_rno (resolve_entities c) then NRef n else NText t)
    end.

  Definition walk_list (rec : node -> Z -> wr node) : list node -> Z -> wr (list node) :=
    fix wl (ks : list node) (acc : Z) : wr (list node) :=
    match ks with
    | [] => WOk [] acc []
    | k :: r =>
        match rec k acc with
        | WFatal e => WFatal e
        | WOk e a k' =>
            match wl r a with
            | WFatal e' => WFatal (e ++ e')
            | WOk e' a' r' => WOk (e ++ e') a' (k' :: r')
            end
        end
    end.

  Fixpoint walk (depth : Z) (n : node) (acc : Z) {struct n} : wr node :=
    match n with
    | NText t => WOk [] acc (NText t)
    | NRef r => walk_ref r acc
    | NNest k tag kid =>
        if depth_limit <? depth + k - 1 then WFatal [] else
        match walk (depth + k) kid acc with
        | WFatal e => WFatal e
        | WOk e a kid' => WOk e a (NNest k tag kid')
        end
    | NElem tag attrs kids =>
        if depth_limit <? depth then WFatal [] else
        match walk_attrs attrs acc with
        | WFatal e => WFatal e
        | WOk e1 a1 attrs' =>
            match walk_list (fun k a => walk (depth + 1) k a) kids a1 with
            | WFatal e2 => WFatal (e1 ++ e2)
            | WOk e2 a2 kids' => WOk (e1 ++ e2) a2 (NElem tag (add_defaults tag attrs') kids')
            end
        end
    end.

  Fixpoint subst_pieces (rec : Z -> text) (ps : list piece) : text :=
    match ps with
    | [] => []
    | PText t :: r => t ++ subst_pieces rec r
    | PRef m :: r => rec m ++ subst_pieces rec r
    end.

  (** plain substitution of internal general entities *)
  Fixpoint subst (fuel : nat) (path : list Z) (n : Z) : text :=
    match fuel with
    | O => []
    | S f =>
        if memz n path then [] else
        match lookup_ent n g with
        | Some (EInt ps) => subst_pieces (subst f (n :: path)) ps
        | _ => []
        end
    end.

  (** what [element.get(name)] / [element.attrib] return: libxml2 substitutes
      entity references when an attribute value is READ, whatever the parser
      options were *)
  Fixpoint attr_get (ps : list piece) : text :=
    match ps with
    | [] => []
    | PText t :: r => t ++ attr_get r
    | PRef n :: r => subst ent_fuel [] n ++ attr_get r
    end.
End Parser.

Arguments WFatal {A} evs.
Arguments WOk {A} evs acc a.

(** ---------------------------------------------------------------- a whole parse *)
Inductive pout :=
| PErr                                   (* lxml raises XMLSyntaxError *)
| PRecovered                             (* recover=True: no exception, tree unspecified *)
| PTree (t : node) (g : list gdecl).

Record presult := mkRes { p_events : list event; p_out : pout }.

Definition perr (c : pcfg) : pout := if recover c then PRecovered else PErr.

Definition parse (c : pcfg) (w : world) (d : doc) : presult :=
  let decls := if d_doctype d then d_decls d else [] in
  let ext := if d_doctype d then d_ext d else None in
  match dtd_phase c w decls (mkDtd [] [] false) with
  | DFatal e => mkRes e (perr c)
  | DOk e1 st1 =>
      match ext_phase c w ext st1 with
      | DFatal e2 => mkRes (e1 ++ e2) (perr c)
      | DOk e2 st =>
          match walk c w (g_ents st) (g_atts st) (g_lenient st) (d_size d) 1 (d_root d) 0 with
          | WFatal e3 => mkRes (e1 ++ e2 ++ e3) (perr c)
          | WOk e3 _ t =>
              mkRes (e1 ++ e2 ++ e3)
                    (if dtd_validation c then perr c     (* no element is ever declared: invalid *)
                     else PTree t (g_ents st))
          end
      end
  end.

(** ---------------------------------------------------------------- observations on a tree *)
Inductive tok :=
| TOpen (tag : Z) | TAttr (a : Z) (v : text) | TClose
| TNest (k : Z) (tag : Z) | TNestEnd
| TText (t : text) | TRef (n : Z).

Section View.
  Variable c : pcfg.
  Variable g : list gdecl.

  Definition aget (ps : list piece) : text := attr_get c g ps.

  Fixpoint flat (n : node) : list tok :=
    match n with
    | NText t => [TText t]
    | NRef r => [TRef r]
    | NNest k tag kid => TNest k tag :: flat kid ++ [TNestEnd]
    | NElem tag attrs kids =>
        TOpen tag :: map (fun a => TAttr (fst a) (aget (snd a))) attrs
          ++ flat_map flat kids
          ++ [TClose]
    end.
End View.

(** lxml presents adjacent text nodes as one string and no empty strings *)
Fixpoint norm_toks (l : list tok) : list tok :=
  match l with
  | [] => []
  | TText t :: r =>
      match t, norm_toks r with
      | [], r' => r'
      | _, TText t' :: r' => TText (t ++ t') :: r'
      | _, r' => TText t :: r'
      end
  | x :: r => x :: norm_toks r
  end.

Definition tok_eqb (a b : tok) : bool :=
  match a, b with
  | TOpen x, TOpen y => x =? y
  | TAttr x u, TAttr y v => (x =? y) && text_eqb u v
  | TClose, TClose | TNestEnd, TNestEnd => true
  | TNest k x, TNest j y => (k =? j) && (x =? y)
  | TText u, TText v => text_eqb u v
  | TRef x, TRef y => x =? y
  | _, _ => false
  end.
Fixpoint toks_eqb (a b : list tok) : bool :=
  match a, b with
  | [], [] => true
  | x :: a', y :: b' => tok_eqb x y && toks_eqb a' b'
  | _, _ => false
  end.

(** [element.text] of every element with the given tag, in document order:
    the text up to the first child that is not text *)
Fixpoint texts_of (tag : Z) (l : list tok) : list text :=
  match l with
  | [] => []
  | TOpen t :: r =>
      let fix skip (l : list tok) : list tok :=
          match l with TAttr _ _ :: r' => skip r' | _ => l end in
      (if t =? tag then [match skip r with TText s :: _ => s | _ => [] end] else [])
        ++ texts_of tag r
  | _ :: r => texts_of tag r
  end.

(** value of attribute [a] of every element with the given tag *)
Fixpoint attrs_of (tag a : Z) (l : list tok) : list text :=
  match l with
  | [] => []
  | TOpen t :: r =>
      let fix find (l : list tok) : list text :=
          match l with
          | TAttr b v :: r' => if b =? a then [v] else find r'
          | _ => []
          end in
      (if t =? tag then find r else []) ++ attrs_of tag a r
  | _ :: r => attrs_of tag a r
  end.

(** is an entity reference a direct child of an element with one of these tags?
    (Spyne's complex_from_element evaluates [c.tag.split] on every child) *)
Fixpoint ref_under (tags : list Z) (stack : list Z) (l : list tok) : bool :=
  match l with
  | [] => false
  | TOpen t :: r => ref_under tags (t :: stack) r
  | TNest _ t :: r => ref_under tags (t :: stack) r
  | TClose :: r | TNestEnd :: r => ref_under tags (tl stack) r
  | TRef _ :: r => match stack with t :: _ => memz t tags | [] => false end || ref_under tags stack r
  | _ :: r => ref_under tags stack r
  end.

(** ---------------------------------------------------------------- Spyne's entry points *)
Inductive req_out :=
| RSyntaxFault            (* Fault('Client.XMLSyntaxError', ...) *)
| REscapes                (* lxml's XMLSyntaxError leaves the protocol uncaught *)
| RDoc (t : node) (g : list gdecl)
| RUnspecified.           (* recover=True and libxml2 repaired something *)

(** XmlDocument.create_in_document / soap11._parse_xml_string: one parse inside
    try/except XMLSyntaxError (the [catch] flag comes from the generated table) *)
Definition create_in_document (catch : bool) (c : pcfg) (w : world) (d : doc) : list event * req_out :=
  let r := parse c w d in
  (p_events r,
   match p_out r with
   | PErr => if catch then RSyntaxFault else REscapes
   | PRecovered => RUnspecified
   | PTree t g => RDoc t g
   end).

(** lxml.etree.tostring(root): the element is written back without its DOCTYPE;
    references that were kept stay references *)
Definition reserialise (t : node) (size : Z) : doc := mkDoc false None [] t size.

(** Soap11.create_in_document for a multipart/related request with an
    attachment: mime._join_attachment parses the SOAP part (site A), writes it
    back, and _parse_xml_string parses the result (site B) *)
Definition swa_pipeline (catchA : bool) (cA : pcfg) (catchB : bool) (cB : pcfg) (w : world) (d : doc)
  : list event * req_out :=
  match create_in_document catchA cA w d with
  | (e, RDoc t _) =>
      let '(e', r) := create_in_document catchB cB w (reserialise t (d_size d)) in (e ++ e', r)
  | other => other
  end.

(** maximal element nesting of a tree *)
Fixpoint depth_of (n : node) : Z :=
  match n with
  | NText _ | NRef _ => 0
  | NNest k _ kid => k + depth_of kid
  | NElem _ _ kids => 1 + fold_right Z.max 0 (map depth_of kids)
  end.
