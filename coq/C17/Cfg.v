(** C17 — parser configuration data flow.  Definitions only.

    Mirrors (spyne/protocol/xml.py) the keyword defaults of
    [XmlDocument.__init__], the [self.parser_kwargs = dict(...)] assignment and
    the way every [etree.fromstring / etree.XMLID / ...] call site obtains its
    parser; and (lxml 6.1 / libxml2 2.14) the keyword defaults of
    [lxml.etree.XMLParser].  The tables themselves are generated from the
    working tree into Gen/XmlParserCfg.v by harness/translate/xmlparsercfg.py. *)
From Coq Require Import String.
From SpyneV Require Import Base.Prelude.

(** keyword arguments of lxml.etree.XMLParser *)
Inductive kw :=
| K_attribute_defaults | K_dtd_validation | K_load_dtd | K_no_network | K_ns_clean
| K_recover | K_remove_blank_text | K_remove_comments | K_remove_pis | K_strip_cdata
| K_resolve_entities | K_huge_tree | K_compact | K_encoding | K_collect_ids
| K_schema | K_target | K_decompress.

Definition kw_id (k : kw) : Z :=
  match k with
  | K_attribute_defaults => 0 | K_dtd_validation => 1 | K_load_dtd => 2 | K_no_network => 3
  | K_ns_clean => 4 | K_recover => 5 | K_remove_blank_text => 6 | K_remove_comments => 7
  | K_remove_pis => 8 | K_strip_cdata => 9 | K_resolve_entities => 10 | K_huge_tree => 11
  | K_compact => 12 | K_encoding => 13 | K_collect_ids => 14 | K_schema => 15 | K_target => 16
  | K_decompress => 17
  end.
Definition kw_eqb (a b : kw) : bool := kw_id a =? kw_id b.

(** the Python values that occur as parser options *)
Inductive pyval :=
| PVBool (b : bool)
| PVNone
| PVInternal          (* the string 'internal' *)
| PVStr.              (* any other non-empty string *)

Definition pyval_eqb (a b : pyval) : bool :=
  match a, b with
  | PVBool x, PVBool y => Bool.eqb x y
  | PVNone, PVNone | PVInternal, PVInternal | PVStr, PVStr => true
  | _, _ => false
  end.

(** Python truthiness *)
Definition truthy (v : pyval) : bool :=
  match v with PVBool b => b | PVNone => false | PVInternal | PVStr => true end.

(** where a value of the [parser_kwargs] dict comes from *)
Inductive src :=
| FromParam (k : kw)      (* the __init__ parameter of that name *)
| Const (v : pyval).      (* a literal in the dict(...) call *)

(** how a parse call site obtains its parser *)
Inductive parser_src :=
| PKwargs                           (* XMLParser( **self.parser_kwargs ) *)
| PDefault                          (* no parser argument: lxml's default parser *)
| PLiteral (l : list (kw * pyval))  (* XMLParser(k=v, ...) with literal keywords *)
| PUndefinedAttr.                   (* an attribute that is assigned nowhere: AttributeError before any parse *)

Inductive role :=
| Request          (* parses bytes of an incoming XML/SOAP request *)
| Output           (* parses text produced while serialising a response *)
| OtherProtocol.   (* only reachable from non-XML protocols (AnyXml carried as text) *)

Record site := mkSite {
  s_file : string; s_func : string; s_line : Z; s_call : string;
  s_parser : parser_src;
  s_catch : bool;     (* lexically inside try/except XMLSyntaxError -> raise Fault('Client.XMLSyntaxError') *)
  s_role : role;
  s_html : bool       (* lxml.html parser (no DTD / entity machinery) *)
}.

(** three-valued resolve_entities of lxml >= 5 *)
Inductive resolve := RNo | RAll | RInternal.

Record pcfg := mkCfg {
  attribute_defaults : bool; dtd_validation : bool; load_dtd : bool; no_network : bool;
  recover : bool; resolve_entities : resolve; huge_tree : bool;
  remove_comments : bool; remove_pis : bool; ns_clean : bool; remove_blank_text : bool;
  strip_cdata : bool; compact : bool
}.

(** lxml.etree.XMLParser() with no arguments (lxml 6.1) *)
Definition lxml_default : pcfg :=
  {| attribute_defaults := false; dtd_validation := false; load_dtd := false; no_network := true;
     recover := false; resolve_entities := RInternal; huge_tree := false;
     remove_comments := false; remove_pis := false; ns_clean := false; remove_blank_text := false;
     strip_cdata := true; compact := true |}.

Definition resolve_of (v : pyval) : resolve :=
  match v with
  | PVInternal => RInternal
  | _ => if truthy v then RAll else RNo
  end.

Definition set_kw (c : pcfg) (k : kw) (v : pyval) : pcfg :=
  let b := truthy v in
  match k with
  | K_attribute_defaults => {| attribute_defaults := b; dtd_validation := dtd_validation c; load_dtd := load_dtd c; no_network := no_network c; recover := recover c; resolve_entities := resolve_entities c; huge_tree := huge_tree c; remove_comments := remove_comments c; remove_pis := remove_pis c; ns_clean := ns_clean c; remove_blank_text := remove_blank_text c; strip_cdata := strip_cdata c; compact := compact c |}
  | K_dtd_validation => {| attribute_defaults := attribute_defaults c; dtd_validation := b; load_dtd := load_dtd c; no_network := no_network c; recover := recover c; resolve_entities := resolve_entities c; huge_tree := huge_tree c; remove_comments := remove_comments c; remove_pis := remove_pis c; ns_clean := ns_clean c; remove_blank_text := remove_blank_text c; strip_cdata := strip_cdata c; compact := compact c |}
  | K_load_dtd => {| attribute_defaults := attribute_defaults c; dtd_validation := dtd_validation c; load_dtd := b; no_network := no_network c; recover := recover c; resolve_entities := resolve_entities c; huge_tree := huge_tree c; remove_comments := remove_comments c; remove_pis := remove_pis c; ns_clean := ns_clean c; remove_blank_text := remove_blank_text c; strip_cdata := strip_cdata c; compact := compact c |}
  | K_no_network => {| attribute_defaults := attribute_defaults c; dtd_validation := dtd_validation c; load_dtd := load_dtd c; no_network := b; recover := recover c; resolve_entities := resolve_entities c; huge_tree := huge_tree c; remove_comments := remove_comments c; remove_pis := remove_pis c; ns_clean := ns_clean c; remove_blank_text := remove_blank_text c; strip_cdata := strip_cdata c; compact := compact c |}
  | K_recover => {| attribute_defaults := attribute_defaults c; dtd_validation := dtd_validation c; load_dtd := load_dtd c; no_network := no_network c; recover := b; resolve_entities := resolve_entities c; huge_tree := huge_tree c; remove_comments := remove_comments c; remove_pis := remove_pis c; ns_clean := ns_clean c; remove_blank_text := remove_blank_text c; strip_cdata := strip_cdata c; compact := compact c |}
  | K_resolve_entities => {| attribute_defaults := attribute_defaults c; dtd_validation := dtd_validation c; load_dtd := load_dtd c; no_network := no_network c; recover := recover c; resolve_entities := resolve_of v; huge_tree := huge_tree c; remove_comments := remove_comments c; remove_pis := remove_pis c; ns_clean := ns_clean c; remove_blank_text := remove_blank_text c; strip_cdata := strip_cdata c; compact := compact c |}
  | K_huge_tree => {| attribute_defaults := attribute_defaults c; dtd_validation := dtd_validation c; load_dtd := load_dtd c; no_network := no_network c; recover := recover c; resolve_entities := resolve_entities c; huge_tree := b; remove_comments := remove_comments c; remove_pis := remove_pis c; ns_clean := ns_clean c; remove_blank_text := remove_blank_text c; strip_cdata := strip_cdata c; compact := compact c |}
  | K_remove_comments => {| attribute_defaults := attribute_defaults c; dtd_validation := dtd_validation c; load_dtd := load_dtd c; no_network := no_network c; recover := recover c; resolve_entities := resolve_entities c; huge_tree := huge_tree c; remove_comments := b; remove_pis := remove_pis c; ns_clean := ns_clean c; remove_blank_text := remove_blank_text c; strip_cdata := strip_cdata c; compact := compact c |}
  | K_remove_pis => {| attribute_defaults := attribute_defaults c; dtd_validation := dtd_validation c; load_dtd := load_dtd c; no_network := no_network c; recover := recover c; resolve_entities := resolve_entities c; huge_tree := huge_tree c; remove_comments := remove_comments c; remove_pis := b; ns_clean := ns_clean c; remove_blank_text := remove_blank_text c; strip_cdata := strip_cdata c; compact := compact c |}
  | K_ns_clean => {| attribute_defaults := attribute_defaults c; dtd_validation := dtd_validation c; load_dtd := load_dtd c; no_network := no_network c; recover := recover c; resolve_entities := resolve_entities c; huge_tree := huge_tree c; remove_comments := remove_comments c; remove_pis := remove_pis c; ns_clean := b; remove_blank_text := remove_blank_text c; strip_cdata := strip_cdata c; compact := compact c |}
  | K_remove_blank_text => {| attribute_defaults := attribute_defaults c; dtd_validation := dtd_validation c; load_dtd := load_dtd c; no_network := no_network c; recover := recover c; resolve_entities := resolve_entities c; huge_tree := huge_tree c; remove_comments := remove_comments c; remove_pis := remove_pis c; ns_clean := ns_clean c; remove_blank_text := b; strip_cdata := strip_cdata c; compact := compact c |}
  | K_strip_cdata => {| attribute_defaults := attribute_defaults c; dtd_validation := dtd_validation c; load_dtd := load_dtd c; no_network := no_network c; recover := recover c; resolve_entities := resolve_entities c; huge_tree := huge_tree c; remove_comments := remove_comments c; remove_pis := remove_pis c; ns_clean := ns_clean c; remove_blank_text := remove_blank_text c; strip_cdata := b; compact := compact c |}
  | K_compact => {| attribute_defaults := attribute_defaults c; dtd_validation := dtd_validation c; load_dtd := load_dtd c; no_network := no_network c; recover := recover c; resolve_entities := resolve_entities c; huge_tree := huge_tree c; remove_comments := remove_comments c; remove_pis := remove_pis c; ns_clean := ns_clean c; remove_blank_text := remove_blank_text c; strip_cdata := strip_cdata c; compact := b |}
  | K_encoding | K_collect_ids | K_schema | K_target | K_decompress => c
  end.

(** XMLParser called with keyword arguments: every keyword overrides lxml's default *)
Definition cfg_of_kwargs (l : list (kw * pyval)) : pcfg :=
  fold_left (fun c kv => set_kw c (fst kv) (snd kv)) l lxml_default.

Fixpoint lookup_kw (k : kw) (l : list (kw * pyval)) : option pyval :=
  match l with
  | [] => None
  | (k', v) :: r => if kw_eqb k k' then Some v else lookup_kw k r
  end.

(** evaluate the dict(...) of [XmlDocument.__init__] under the keyword defaults
    (a protocol constructed with default settings) *)
Fixpoint kwargs_eval (defaults : list (kw * pyval)) (srcs : list (kw * src))
  : option (list (kw * pyval)) :=
  match srcs with
  | [] => Some []
  | (k, s) :: r =>
      match (match s with Const v => Some v | FromParam p => lookup_kw p defaults end),
            kwargs_eval defaults r with
      | Some v, Some l => Some ((k, v) :: l)
      | _, _ => None
      end
  end.

Inductive site_cfg_r :=
| SCfg (c : pcfg)     (* the call parses with this configuration *)
| SNoParse            (* evaluating the parser argument raises: nothing is parsed *)
| SUnknown.           (* the tables do not determine the configuration *)

Definition site_cfg (defaults : list (kw * pyval)) (srcs : list (kw * src)) (s : site) : site_cfg_r :=
  match s_parser s with
  | PKwargs => match kwargs_eval defaults srcs with
               | Some l => SCfg (cfg_of_kwargs l)
               | None => SUnknown
               end
  | PDefault => SCfg lxml_default
  | PLiteral l => SCfg (cfg_of_kwargs l)
  | PUndefinedAttr => SNoParse
  end.

(** the configuration the property relies on *)
Definition safeb (c : pcfg) : bool :=
  match resolve_entities c with RNo => true | _ => false end
  && negb (load_dtd c) && negb (dtd_validation c) && negb (attribute_defaults c)
  && no_network c && negb (huge_tree c) && negb (recover c).

Definition is_request (s : site) : bool :=
  match s_role s with Request => negb (s_html s) | _ => false end.

(** a request parse site is in order iff it parses with a safe configuration
    (or parses nothing) and turns libxml2's syntax errors into the client fault *)
Definition site_ok (defaults : list (kw * pyval)) (srcs : list (kw * src)) (s : site) : bool :=
  match site_cfg defaults srcs s with
  | SCfg c => safeb c && s_catch s
  | SNoParse => true
  | SUnknown => false
  end.

Definition resolve_id (r : resolve) : Z := match r with RNo => 0 | RAll => 1 | RInternal => 2 end.
Definition cfg_bits (c : pcfg) : list Z :=
  let b (x : bool) := if x then 1 else 0 in
  [b (attribute_defaults c); b (dtd_validation c); b (load_dtd c); b (no_network c); b (recover c);
   resolve_id (resolve_entities c); b (huge_tree c); b (remove_comments c); b (remove_pis c);
   b (ns_clean c); b (remove_blank_text c); b (strip_cdata c); b (compact c)].
