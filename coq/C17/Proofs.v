(** C17 — lemmas about the option model (coq/C17/Xml.v) under a safe configuration. *)
From Coq Require Import ZArith List Bool Lia.
From SpyneV Require Import Base.Prelude C17.Cfg C17.Xml.
Import ListNotations.
Open Scope Z_scope.

(** induction over trees (children are a list) *)
Section NodeInd.
  Variable P : node -> Prop.
  Hypothesis HT : forall t, P (NText t).
  Hypothesis HR : forall n, P (NRef n).
  Hypothesis HN : forall k tag kid, P kid -> P (NNest k tag kid).
  Hypothesis HE : forall tag attrs kids, Forall P kids -> P (NElem tag attrs kids).
  Fixpoint node_ind' (n : node) : P n :=
    match n with
    | NText t => HT t
    | NRef r => HR r
    | NNest k tag kid => HN k tag kid (node_ind' kid)
    | NElem tag attrs kids =>
        HE tag attrs kids
           ((fix go (ks : list node) : Forall P ks :=
               match ks with
               | [] => Forall_nil P
               | k :: r => Forall_cons k (node_ind' k) (go r)
               end) kids)
    end.
End NodeInd.

Lemma safeb_inv c : safeb c = true ->
  resolve_entities c = RNo /\ load_dtd c = false /\ dtd_validation c = false /\
  attribute_defaults c = false /\ no_network c = true /\ huge_tree c = false /\ recover c = false.
Proof.
  unfold safeb. destruct (resolve_entities c), (load_dtd c), (dtd_validation c),
    (attribute_defaults c), (no_network c), (huge_tree c), (recover c); simpl; intuition congruence.
Qed.

Definition xnoev (x : xr) : Prop := match x with XFatal e => e = [] | XOk e _ _ => e = [] end.
Definition wnoev {A} (x : wr A) : Prop := match x with WFatal e => e = [] | WOk e _ _ => e = [] end.
Definition dnoev (x : dr) : Prop := match x with DFatal e => e = [] | DOk e _ => e = [] end.

Section Safe.
  Variable c : pcfg.
  Hypothesis Hs : safeb c = true.
  Variables w w' : world.

  (** ------------------------------------------------------------ entity expansion *)
  Section Content.
    Variable g : list gdecl.
    Variable atts : list (Z * Z * text).
    Variable lenient : bool.
    Variable size : Z.

    Lemma go_pieces_safe (r1 r2 : Z -> Z -> xr) :
      (forall m a, r1 m a = r2 m a /\ xnoev (r1 m a)) ->
      forall ps acc, go_pieces size r1 ps acc = go_pieces size r2 ps acc /\ xnoev (go_pieces size r1 ps acc).
    Proof.
      intros H ps. induction ps as [|p ps IH]; intros acc; simpl.
      - split; reflexivity.
      - destruct p as [t|m].
        + destruct (IH (acc + len t)) as [E N]. rewrite <- E.
          destruct (go_pieces size r1 ps (acc + len t)); simpl in *; auto.
        + destruct (H m acc) as [E N]. rewrite <- E.
          destruct (r1 m acc) as [e|e1 t1 a1]; simpl in *; auto.
          destruct (amp_exceeded size (a1 + 20)); simpl; auto.
          destruct (IH (a1 + 20)) as [E2 N2]. rewrite <- E2.
          destruct (go_pieces size r1 ps (a1 + 20)); simpl in *; subst; auto.
    Qed.

    Lemma expand_safe inattr : forall fuel path n acc,
      expand c w g lenient size inattr fuel path n acc = expand c w' g lenient size inattr fuel path n acc
      /\ xnoev (expand c w g lenient size inattr fuel path n acc).
    Proof.
      destruct (safeb_inv c Hs) as (Hr & _ & Hv & _).
      induction fuel as [|f IH]; intros path n acc; simpl.
      - split; reflexivity.
      - destruct (memz n path); [split; reflexivity|].
        destruct (lookup_ent n g) as [[ps|x]|].
        + apply go_pieces_safe. intros m a. apply IH.
        + destruct inattr; [split; reflexivity|]. rewrite Hr, Hv. split; reflexivity.
        + destruct (undefined_ok c lenient); split; reflexivity.
    Qed.

    Lemma walk_pieces_safe : forall ps acc,
      walk_pieces c w g lenient size ps acc = walk_pieces c w' g lenient size ps acc
      /\ wnoev (walk_pieces c w g lenient size ps acc).
    Proof.
      induction ps as [|p ps IH]; intros acc; simpl.
      - split; reflexivity.
      - destruct p as [t|n].
        + destruct (IH acc) as [E N]. rewrite <- E.
          destruct (walk_pieces c w g lenient size ps acc); simpl in *; auto.
        + destruct (expand_safe true (ent_fuel c) [] n acc) as [E N]. rewrite <- E.
          destruct (expand c w g lenient size true (ent_fuel c) [] n acc) as [e|e t a1]; simpl in *; auto.
          destruct (amp_exceeded size (a1 + 20)); simpl; auto.
          destruct (IH (a1 + 20)) as [E2 N2]. rewrite <- E2.
          destruct (walk_pieces c w g lenient size ps (a1 + 20)); simpl in *; subst; auto.
    Qed.

    Lemma walk_attrs_safe : forall l acc,
      walk_attrs c w g lenient size l acc = walk_attrs c w' g lenient size l acc
      /\ wnoev (walk_attrs c w g lenient size l acc).
    Proof.
      induction l as [|[a ps] l IH]; intros acc; simpl.
      - split; reflexivity.
      - destruct (walk_pieces_safe ps acc) as [E N]. rewrite <- E.
        destruct (walk_pieces c w g lenient size ps acc) as [e|e acc1 ps']; simpl in *; auto.
        destruct (IH acc1) as [E2 N2]. rewrite <- E2.
        destruct (walk_attrs c w g lenient size l acc1); simpl in *; subst; auto.
    Qed.

    Lemma walk_ref_safe n acc :
      walk_ref c w g lenient size n acc = walk_ref c w' g lenient size n acc
      /\ wnoev (walk_ref c w g lenient size n acc).
    Proof.
      unfold walk_ref. destruct (expand_safe false (ent_fuel c) [] n acc) as [E N]. rewrite <- E.
      destruct (expand c w g lenient size false (ent_fuel c) [] n acc) as [e|e t a1]; simpl in *; auto.
      destruct (amp_exceeded size (a1 + 20)); simpl; auto.
    Qed.

    Lemma walk_list_safe (r1 r2 : node -> Z -> wr node) ks :
      Forall (fun k => forall a, r1 k a = r2 k a /\ wnoev (r1 k a)) ks ->
      forall acc, walk_list r1 ks acc = walk_list r2 ks acc /\ wnoev (walk_list r1 ks acc).
    Proof.
      induction 1 as [|k ks Hk _ IH]; intros acc; simpl.
      - split; reflexivity.
      - destruct (Hk acc) as [E N]. rewrite <- E.
        destruct (r1 k acc) as [e|e a k']; simpl in *; auto.
        destruct (IH a) as [E2 N2]. rewrite <- E2.
        destruct (walk_list r1 ks a); simpl in *; subst; auto.
    Qed.

    Lemma walk_safe : forall n depth acc,
      walk c w g atts lenient size depth n acc = walk c w' g atts lenient size depth n acc
      /\ wnoev (walk c w g atts lenient size depth n acc).
    Proof.
      induction n as [t|r|k tag kid IH|tag attrs kids IH] using node_ind'; intros depth acc; simpl.
      - split; reflexivity.
      - apply walk_ref_safe.
      - destruct (depth_limit c <? depth + k - 1); [split; reflexivity|].
        destruct (IH (depth + k) acc) as [E N]. rewrite <- E.
        destruct (walk c w g atts lenient size (depth + k) kid acc); simpl in *; auto.
      - destruct (depth_limit c <? depth); [split; reflexivity|].
        destruct (walk_attrs_safe attrs acc) as [E N]. rewrite <- E.
        destruct (walk_attrs c w g lenient size attrs acc) as [e|e1 a1 attrs']; simpl in *; auto.
        assert (HL := walk_list_safe (fun k a => walk c w g atts lenient size (depth + 1) k a)
                                     (fun k a => walk c w' g atts lenient size (depth + 1) k a) kids).
        assert (HF : Forall (fun k => forall a,
                     walk c w g atts lenient size (depth + 1) k a = walk c w' g atts lenient size (depth + 1) k a
                     /\ wnoev (walk c w g atts lenient size (depth + 1) k a)) kids).
        { eapply Forall_impl; [|exact IH]. intros k Hk a. apply Hk. }
        destruct (HL HF a1) as [E2 N2].
        rewrite <- E2.
        destruct (walk_list (fun k a => walk c w g atts lenient size (depth + 1) k a) kids a1);
          simpl in *; subst; auto.
    Qed.
  End Content.

  (** ------------------------------------------------------------ the DTD *)
  Lemma dtd_phase_safe : forall ds st,
    dtd_phase c w ds st = dtd_phase c w' ds st /\ dnoev (dtd_phase c w ds st).
  Proof.
    destruct (safeb_inv c Hs) as (Hr & Hl & Hv & Ha & _).
    assert (Hpe : pe_loading c = false) by (unfold pe_loading; rewrite Hr, Hl, Hv, Ha; reflexivity).
    induction ds as [|d ds IH]; intros st; simpl.
    - split; reflexivity.
    - destruct d as [n e|pd|el a v]; simpl.
      + destruct (IH (mkDtd (add_ent (g_ents st) (n, e)) (g_atts st) (g_lenient st))) as [E N].
        rewrite <- E. destruct (dtd_phase c w ds _); simpl in *; auto.
      + rewrite Hr. simpl. destruct pd as [gs|x].
        * destruct (IH (mkDtd (add_ents (g_ents st) gs) (g_atts st) true)) as [E N].
          rewrite <- E. destruct (dtd_phase c w ds _); simpl in *; auto.
        * rewrite Hpe.
          destruct (IH (mkDtd (g_ents st) (g_atts st) true)) as [E N].
          rewrite <- E. destruct (dtd_phase c w ds _); simpl in *; auto.
      + destruct (IH (mkDtd (g_ents st) (g_atts st ++ [(el, a, v)]) (g_lenient st))) as [E N].
        rewrite <- E. destruct (dtd_phase c w ds _); simpl in *; auto.
  Qed.

  Lemma ext_phase_safe x st :
    ext_phase c w x st = ext_phase c w' x st /\ dnoev (ext_phase c w x st).
  Proof.
    destruct (safeb_inv c Hs) as (Hr & Hl & Hv & Ha & _).
    unfold ext_phase, subset_loading. rewrite Hl, Hv, Ha. destruct x; split; reflexivity.
  Qed.

  (** ------------------------------------------------------------ a whole parse *)
  Lemma parse_safe d : parse c w d = parse c w' d /\ p_events (parse c w d) = [].
  Proof.
    unfold parse.
    destruct (dtd_phase_safe (if d_doctype d then d_decls d else []) (mkDtd [] [] false)) as [E N].
    rewrite <- E. destruct (dtd_phase c w _ _) as [e|e1 st1]; simpl in *; [subst; auto|].
    destruct (ext_phase_safe (if d_doctype d then d_ext d else None) st1) as [E2 N2].
    rewrite <- E2. destruct (ext_phase c w _ st1) as [e|e2 st]; simpl in *; [subst; auto|].
    destruct (walk_safe (g_ents st) (g_atts st) (g_lenient st) (d_size d) (d_root d) 1 0) as [E3 N3].
    rewrite <- E3. destruct (walk c w _ _ _ _ 1 (d_root d) 0); simpl in *; subst; auto.
  Qed.
End Safe.

Lemma no_external c w d : safeb c = true -> p_events (parse c w d) = [].
Proof. intros H. exact (proj2 (parse_safe c H w w d)). Qed.

Lemma world_independent c w w' d : safeb c = true -> parse c w d = parse c w' d.
Proof. intros H. exact (proj1 (parse_safe c H w w' d)). Qed.

(** ---------------------------------------------------------------- nothing is expanded into the tree *)
Definition scrub_pieces (g : list gdecl) (ps : list piece) : list piece :=
  flat_map (fun p => match p with PText t => [PText t] | PRef n => keep_ref g n end) ps.

Fixpoint scrub (g : list gdecl) (n : node) : node :=
  match n with
  | NElem tag attrs kids =>
      NElem tag (map (fun a => (fst a, scrub_pieces g (snd a))) attrs) (map (scrub g) kids)
  | NNest k tag kid => NNest k tag (scrub g kid)
  | NText t => NText t
  | NRef r => NRef r
  end.

Section Verbatim.
  Variable c : pcfg.
  Hypothesis Hs : safeb c = true.
  Variable w : world.
  Variable g : list gdecl.
  Variable atts : list (Z * Z * text).
  Variable lenient : bool.
  Variable size : Z.

  Lemma walk_pieces_verbatim : forall ps acc e a ps',
    walk_pieces c w g lenient size ps acc = WOk e a ps' -> ps' = scrub_pieces g ps.
  Proof.
    destruct (safeb_inv c Hs) as (Hr & _).
    induction ps as [|p ps IH]; intros acc e a ps'; simpl.
    - intros H; inversion H; reflexivity.
    - destruct p as [t|n].
      + destruct (walk_pieces c w g lenient size ps acc) as [e0|e0 a0 r'] eqn:E; [discriminate|].
        intros H; inversion H; subst. unfold scrub_pieces; simpl. f_equal. eapply IH; eauto.
      + destruct (expand c w g lenient size true (ent_fuel c) [] n acc) as [e0|e0 t a1]; [discriminate|].
        destruct (amp_exceeded size (a1 + 20)); [discriminate|].
        destruct (walk_pieces c w g lenient size ps (a1 + 20)) as [e1|e1 a2 r'] eqn:E; [discriminate|].
        rewrite Hr. simpl. intros H; inversion H; subst. unfold scrub_pieces; simpl. f_equal.
        eapply IH; eauto.
  Qed.

  Lemma walk_attrs_verbatim : forall l acc e a l',
    walk_attrs c w g lenient size l acc = WOk e a l' ->
    l' = map (fun a => (fst a, scrub_pieces g (snd a))) l.
  Proof.
    induction l as [|[x ps] l IH]; intros acc e a l'; simpl.
    - intros H; inversion H; reflexivity.
    - destruct (walk_pieces c w g lenient size ps acc) as [e0|e0 acc1 ps'] eqn:E; [discriminate|].
      destruct (walk_attrs c w g lenient size l acc1) as [e1|e1 acc2 r'] eqn:E2; [discriminate|].
      intros H; inversion H; subst. f_equal.
      + f_equal. eapply walk_pieces_verbatim; eauto.
      + eapply IH; eauto.
  Qed.

  Lemma walk_list_verbatim (r : node -> Z -> wr node) ks :
    Forall (fun k => forall acc e a k', r k acc = WOk e a k' -> k' = scrub g k) ks ->
    forall acc e a ks', walk_list r ks acc = WOk e a ks' -> ks' = map (scrub g) ks.
  Proof.
    induction 1 as [|k ks Hk _ IH]; intros acc e a ks'; simpl.
    - intros H; inversion H; reflexivity.
    - destruct (r k acc) as [e0|e0 a0 k'] eqn:E; [discriminate|].
      destruct (walk_list r ks a0) as [e1|e1 a1 r'] eqn:E2; [discriminate|].
      intros H; inversion H; subst. f_equal; eauto.
  Qed.

  Lemma walk_verbatim : forall n depth acc e a t,
    walk c w g atts lenient size depth n acc = WOk e a t -> t = scrub g n.
  Proof.
    destruct (safeb_inv c Hs) as (Hr & _ & _ & Ha & _).
    induction n as [t0|r|k tag kid IH|tag attrs kids IH] using node_ind'; intros depth acc e a t; simpl.
    - intros H; inversion H; reflexivity.
    - unfold walk_ref.
      destruct (expand c w g lenient size false (ent_fuel c) [] r acc) as [e0|e0 t0 a1]; [discriminate|].
      destruct (amp_exceeded size (a1 + 20)); [discriminate|].
      rewrite Hr. simpl. intros H; inversion H; reflexivity.
    - destruct (depth_limit c <? depth + k - 1); [discriminate|].
      destruct (walk c w g atts lenient size (depth + k) kid acc) as [e0|e0 a0 kid'] eqn:E; [discriminate|].
      intros H; inversion H; subst. f_equal. eapply IH; eauto.
    - destruct (depth_limit c <? depth); [discriminate|].
      destruct (walk_attrs c w g lenient size attrs acc) as [e0|e1 a1 attrs'] eqn:E; [discriminate|].
      destruct (walk_list _ kids a1) as [e2|e2 a2 kids'] eqn:E2; [discriminate|].
      intros H; inversion H; subst. unfold add_defaults. rewrite Ha. f_equal.
      + eapply walk_attrs_verbatim; eauto.
      + eapply walk_list_verbatim; [|exact E2].
        eapply Forall_impl; [|exact IH]. intros k Hk acc' e' a' k' Hw. eapply Hk; eauto.
  Qed.

  (** ---------------------------------------------------------------- nesting depth *)
  Lemma fold_max_le (l : list Z) (b : Z) : 0 <= b -> Forall (fun x => x <= b) l -> fold_right Z.max 0 l <= b.
  Proof. intros Hb. induction 1; simpl; lia. Qed.

  Lemma walk_list_ok_all (r : node -> Z -> wr node) (P : node -> Prop) ks :
    Forall (fun k => forall acc e a k', r k acc = WOk e a k' -> P k) ks ->
    forall acc e a ks', walk_list r ks acc = WOk e a ks' -> Forall P ks.
  Proof.
    induction 1 as [|k ks Hk _ IH]; intros acc e a ks'; simpl.
    - constructor.
    - destruct (r k acc) as [e0|e0 a0 k'] eqn:E; [discriminate|].
      destruct (walk_list r ks a0) as [e1|e1 a1 r'] eqn:E2; [discriminate|].
      intros _. constructor; eauto.
  Qed.

  Lemma walk_depth : forall n depth acc e a t,
    walk c w g atts lenient size depth n acc = WOk e a t ->
    depth_of n <= Z.max 0 (depth_limit c - depth + 1).
  Proof.
    induction n as [t0|r|k tag kid IH|tag attrs kids IH] using node_ind'; intros depth acc e a t; simpl.
    - lia.
    - lia.
    - destruct (depth_limit c <? depth + k - 1) eqn:L; [discriminate|].
      destruct (walk c w g atts lenient size (depth + k) kid acc) as [e0|e0 a0 kid'] eqn:E; [discriminate|].
      intros _. specialize (IH _ _ _ _ _ E). apply Z.ltb_ge in L. lia.
    - destruct (depth_limit c <? depth) eqn:L; [discriminate|].
      destruct (walk_attrs c w g lenient size attrs acc) as [e0|e1 a1 attrs']; [discriminate|].
      destruct (walk_list _ kids a1) as [e2|e2 a2 kids'] eqn:E2; [discriminate|].
      intros _. apply Z.ltb_ge in L.
      assert (HF : Forall (fun k => depth_of k <= Z.max 0 (depth_limit c - (depth + 1) + 1)) kids).
      { eapply walk_list_ok_all; [|exact E2].
        eapply Forall_impl; [|exact IH]. intros k Hk acc' e' a' k' Hw. eapply Hk; eauto. }
      assert (fold_right Z.max 0 (map depth_of kids) <= Z.max 0 (depth_limit c - (depth + 1) + 1)).
      { apply fold_max_le; [lia|]. rewrite Forall_map. exact HF. }
      change (1 + fold_right Z.max 0 (map depth_of kids) <= Z.max 0 (depth_limit c - depth + 1)). lia.
  Qed.
End Verbatim.

Lemma tree_verbatim c w d t g :
  safeb c = true -> p_out (parse c w d) = PTree t g -> t = scrub g (d_root d).
Proof.
  intros Hs. unfold parse.
  destruct (dtd_phase c w _ _) as [e|e1 st1]; simpl; [unfold perr; destruct (recover c); discriminate|].
  destruct (ext_phase c w _ st1) as [e|e2 st]; simpl; [unfold perr; destruct (recover c); discriminate|].
  destruct (walk c w _ _ _ _ 1 (d_root d) 0) as [e|e3 a t'] eqn:E; simpl;
    [unfold perr; destruct (recover c); discriminate|].
  destruct (dtd_validation c); [unfold perr; destruct (recover c); discriminate|].
  intros H; inversion H; subst. eapply walk_verbatim; eauto.
Qed.

Lemma depth_bounded c w d t g :
  safeb c = true -> p_out (parse c w d) = PTree t g -> depth_of (d_root d) <= 256.
Proof.
  intros Hs. destruct (safeb_inv c Hs) as (_ & _ & _ & _ & _ & Hh & _). unfold parse.
  destruct (dtd_phase c w _ _) as [e|e1 st1]; simpl; [unfold perr; destruct (recover c); discriminate|].
  destruct (ext_phase c w _ st1) as [e|e2 st]; simpl; [unfold perr; destruct (recover c); discriminate|].
  destruct (walk c w _ _ _ _ 1 (d_root d) 0) as [e|e3 a t'] eqn:E; simpl;
    [unfold perr; destruct (recover c); discriminate|].
  intros _. apply walk_depth in E. unfold depth_limit in E. rewrite Hh in E. lia.
Qed.

(** a safe parse never returns "recovered" *)
Lemma safe_outcomes c w d : safeb c = true ->
  p_out (parse c w d) = PErr \/ exists t g, p_out (parse c w d) = PTree t g.
Proof.
  intros Hs. destruct (safeb_inv c Hs) as (_ & _ & _ & _ & _ & _ & Hrec).
  destruct (p_out (parse c w d)) eqn:E; eauto.
  exfalso. unfold parse in E. unfold perr in E. rewrite Hrec in E.
  destruct (dtd_phase c w _ _); simpl in E; [discriminate|].
  destruct (ext_phase c w _ _); simpl in E; [discriminate|].
  destruct (walk c w _ _ _ _ 1 (d_root d) 0); simpl in E; [discriminate|].
  destruct (dtd_validation c); discriminate.
Qed.

(** ---------------------------------------------------------------- Spyne's entry points *)
Lemma create_in_document_safe c w d :
  safeb c = true ->
  fst (create_in_document true c w d) = [] /\
  (snd (create_in_document true c w d) = RSyntaxFault
   \/ exists g, snd (create_in_document true c w d) = RDoc (scrub g (d_root d)) g
               /\ depth_of (d_root d) <= 256).
Proof.
  intros Hs. unfold create_in_document; simpl. split; [apply no_external; auto|].
  destruct (safe_outcomes c w d Hs) as [E|(t & g & E)]; rewrite E; auto.
  right. exists g. split.
  - f_equal. eapply tree_verbatim; eauto.
  - eapply depth_bounded; eauto.
Qed.

Lemma swa_safe cA cB w w' d :
  safeb cA = true -> safeb cB = true ->
  fst (swa_pipeline true cA true cB w d) = [] /\
  swa_pipeline true cA true cB w d = swa_pipeline true cA true cB w' d /\
  snd (swa_pipeline true cA true cB w d) <> REscapes.
Proof.
  intros HA HB. unfold swa_pipeline.
  assert (EA : create_in_document true cA w d = create_in_document true cA w' d).
  { unfold create_in_document. rewrite (world_independent cA w w' d HA). reflexivity. }
  rewrite <- EA.
  destruct (create_in_document true cA w d) as [e r] eqn:E.
  assert (He : e = []).
  { change e with (fst (e, r)). rewrite <- E. unfold create_in_document; simpl. apply no_external; auto. }
  subst e.
  destruct r as [| |t g|].
  - repeat split; auto; intros; discriminate.
  - exfalso. unfold create_in_document in E. destruct (p_out (parse cA w d)); inversion E.
  - assert (EB : create_in_document true cB w (reserialise t (d_size d))
                 = create_in_document true cB w' (reserialise t (d_size d))).
    { unfold create_in_document. rewrite (world_independent cB w w' _ HB). reflexivity. }
    rewrite <- EB.
    destruct (create_in_document true cB w (reserialise t (d_size d))) as [e' r'] eqn:E'.
    assert (He' : e' = []).
    { change e' with (fst (e', r')). rewrite <- E'. unfold create_in_document; simpl. apply no_external; auto. }
    subst e'. simpl. repeat split; auto. intros Hc. subst r'.
    unfold create_in_document in E'. destruct (p_out (parse cB w _)); inversion E'.
  - repeat split; auto; intros; discriminate.
Qed.
