(** C17 — the obligations about the table generated from the working tree
    (Gen/XmlParserCfg.v), and concrete witnesses. *)
From Coq Require Import ZArith List Bool String.
From SpyneV Require Import Base.Prelude C17.Cfg C17.Xml C17.Proofs Gen.XmlParserCfg.
Import ListNotations.
Open Scope Z_scope.

Lemma defaults_safe :
  Forall (fun s => is_request s = true -> site_ok init_defaults parser_kwargs_src s = true) parse_sites.
Proof.
  apply Forall_forall. intros s Hin Hr.
  assert (H : forallb (fun s => negb (is_request s) || site_ok init_defaults parser_kwargs_src s)
                      parse_sites = true) by (vm_compute; reflexivity).
  rewrite forallb_forall in H. specialize (H s Hin). rewrite Hr in H. exact H.
Qed.

Lemma request_site_safe s c :
  In s parse_sites -> is_request s = true -> site_cfg init_defaults parser_kwargs_src s = SCfg c ->
  safeb c = true /\ s_catch s = true.
Proof.
  intros Hin Hr Hc. pose proof defaults_safe as H. rewrite Forall_forall in H.
  specialize (H s Hin Hr). unfold site_ok in H. rewrite Hc in H. apply andb_prop in H. exact H.
Qed.

Lemma request_sites_behave s c :
  In s parse_sites -> is_request s = true -> site_cfg init_defaults parser_kwargs_src s = SCfg c ->
  forall w d,
    fst (create_in_document (s_catch s) c w d) = [] /\
    (snd (create_in_document (s_catch s) c w d) = RSyntaxFault
     \/ exists g, snd (create_in_document (s_catch s) c w d) = RDoc (scrub g (d_root d)) g
                 /\ depth_of (d_root d) <= 256).
Proof.
  intros Hin Hr Hc w d. destruct (request_site_safe s c Hin Hr Hc) as [Hs Hcatch].
  rewrite Hcatch. apply create_in_document_safe. exact Hs.
Qed.

(** ---------------------------------------------------------------- witnesses *)
Definition safe_cfg : pcfg :=
  {| attribute_defaults := false; dtd_validation := false; load_dtd := false; no_network := true;
     recover := false; resolve_entities := RNo; huge_tree := false;
     remove_comments := true; remove_pis := true; ns_clean := false; remove_blank_text := false;
     strip_cdata := true; compact := true |}.

(** a world with a secret file (resource 1) and a DTD (resource 2) *)
Definition wworld (x : extid) : rescontent :=
  match x_scheme x with
  | SFile => if x_res x =? 1 then RText [83; 69; 67; 82; 69; 84]
             else if x_res x =? 2 then RDtd [(9, EInt [PText [68]])] [] else RMissing
  | _ => RText [78; 69; 84]
  end.

Definition with_resolve (r : resolve) (c : pcfg) : pcfg :=
  set_kw c K_resolve_entities (match r with RNo => PVBool false | RAll => PVBool true | RInternal => PVInternal end).

(** <!DOCTYPE d [<!ENTITY e1 "XYZ">]><echo tag="&e1;">&e1;</echo> *)
Definition d_internal : doc :=
  mkDoc true None [DEnt 1 (EInt [PText [88; 89; 90]])] (NElem 1 [(8, [PRef 1])] [NRef 1]) 70.
(** <!DOCTYPE d [<!ENTITY e1 SYSTEM "file:1">]><echo>&e1;</echo> *)
Definition d_external : doc := mkDoc true None [DEnt 1 (EExt (mkExt SFile 1))] (NElem 1 [] [NRef 1]) 60.
Definition d_external_http : doc := mkDoc true None [DEnt 1 (EExt (mkExt SHttp 1))] (NElem 1 [] [NRef 1]) 60.
(** <!DOCTYPE d SYSTEM "file:2"><echo/> *)
Definition d_subset : doc := mkDoc true (Some (mkExt SFile 2)) [] (NElem 1 [] []) 40.
(** <!DOCTYPE d [<!ENTITY % p SYSTEM "file:2"> %p;]><echo/> *)
Definition d_pe : doc := mkDoc true None [DPEUse (PEExt (mkExt SFile 2))] (NElem 1 [] []) 60.
(** 300 nested elements *)
Definition d_deep : doc := mkDoc false None [] (NElem 1 [] [NNest 300 10 (NText [120])]) 2200.
(** ten-fold fan-out, nine levels: 10^10 characters *)
Definition d_bomb : doc :=
  mkDoc true None
        (DEnt 0 (EInt [PText [66; 66; 66; 66; 66; 66; 66; 66; 66; 66]]) ::
         map (fun i => DEnt i (EInt (repeat (PRef (i - 1)) 10))) [1; 2; 3; 4; 5; 6; 7; 8; 9])
        (NElem 1 [] [NRef 9]) 600.

(** the full statement "no entity is ever expanded" is FALSE of the faithful
    model: reading an attribute substitutes internal entities *)
Lemma no_entity_expansion_refuted :
  exists c w d t g,
    safeb c = true /\ p_out (parse c w d) = PTree t g /\
    d_root d = NElem 1 [(8, [PRef 1])] [NRef 1] /\
    flat c g t = [TOpen 1; TAttr 8 [88; 89; 90]; TRef 1; TClose].
Proof.
  exists safe_cfg, wworld, d_internal. eexists. eexists.
  split; [reflexivity|]. split; [vm_compute; reflexivity|]. split; reflexivity.
Qed.

(** every clause of [safeb] that the theorems use is needed: flipping it alone
    (from the safe configuration) lets a violating document through *)
Lemma safe_clauses_needed :
  (* resolve_entities=True: a local file is read and its content is in the tree *)
  (p_events (parse (with_resolve RAll safe_cfg) wworld d_external) = [LoadFile 1] /\
   p_out (parse (with_resolve RAll safe_cfg) wworld d_external)
     = PTree (NElem 1 [] [NText [83; 69; 67; 82; 69; 84]]) [(1, EExt (mkExt SFile 1))]) /\
  (* resolve_entities='internal' (lxml's default): an internal entity is expanded into element text *)
  (exists g, p_out (parse (with_resolve RInternal safe_cfg) wworld d_internal)
     = PTree (NElem 1 [(8, [PText [88; 89; 90]])] [NText [88; 89; 90]]) g) /\
  (* load_dtd / attribute_defaults / dtd_validation: the external subset or a parameter entity is fetched *)
  p_events (parse (set_kw safe_cfg K_load_dtd (PVBool true)) wworld d_subset) = [LoadFile 2] /\
  p_events (parse (set_kw safe_cfg K_attribute_defaults (PVBool true)) wworld d_pe) = [LoadFile 2] /\
  p_events (parse (set_kw safe_cfg K_dtd_validation (PVBool true)) wworld d_subset) = [LoadFile 2] /\
  (* no_network=False matters as soon as anything is resolved *)
  p_events (parse (set_kw (with_resolve RAll safe_cfg) K_no_network (PVBool false)) wworld d_external_http)
     = [NetConnect SHttp 1] /\
  p_events (parse (with_resolve RAll safe_cfg) wworld d_external_http) = [] /\
  (* huge_tree=True: 300 nested elements are accepted *)
  (exists t g, p_out (parse (set_kw safe_cfg K_huge_tree (PVBool true)) wworld d_deep) = PTree t g) /\
  p_out (parse safe_cfg wworld d_deep) = PErr /\
  (* recover=True: a bomb is not reported as a syntax error *)
  p_out (parse (set_kw safe_cfg K_recover (PVBool true)) wworld d_bomb) = PRecovered /\
  p_out (parse safe_cfg wworld d_bomb) = PErr.
Proof.
  repeat split; try (vm_compute; reflexivity); try (eexists; vm_compute; reflexivity).
  eexists. eexists. vm_compute. reflexivity.
Qed.
