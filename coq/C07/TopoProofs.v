(** C07 -- toposort2: termination within the fuel, independence of the set
    iteration order when the sort key is injective, soundness of the order; and
    determinism of the whole document skeleton. *)
From Coq Require Import ZArith List Bool Lia Permutation Sorted.
From SpyneV Require Import Base.Prelude C07.Model C07.SortProofs.
Import ListNotations.
Open Scope Z_scope.

Lemma filter_len_le {A} (p : A -> bool) l : (length (filter p l) <= length l)%nat.
Proof. induction l as [|y l IH]; simpl; auto. destruct (p y); simpl; lia. Qed.

Lemma filter_length_lt {A} (p : A -> bool) l x : In x l -> p x = false ->
  (length (filter p l) < length l)%nat.
Proof.
  induction l as [|y l IH]; simpl; intros H E; [tauto|].
  destruct H as [->|H].
  - rewrite E. pose proof (filter_len_le p l). lia.
  - specialize (IH H E). destruct (p y); simpl; lia.
Qed.

Lemma strip_ready_length d : ready d <> [] ->
  (length (strip_ready (ready d) d) < length d)%nat.
Proof.
  intros H. unfold strip_ready. rewrite map_length.
  destruct (ready d) as [|k r] eqn:E; [congruence|]. rewrite <- E.
  assert (In k (ready d)) as Hk by (rewrite E; left; auto).
  unfold ready in Hk. apply in_map_iff in Hk as (kv & Ek & Hkv).
  apply filter_In in Hkv as [Hkv Hn].
  eapply filter_length_lt; eauto.
  apply negb_false_iff. apply memz_In. unfold ready. apply in_map.
  apply filter_In. auto.
Qed.

Lemma keys_strip ord d x : In x (keys (strip_ready ord d)) -> In x (keys d).
Proof.
  unfold keys, strip_ready. rewrite map_map. simpl. intros H.
  apply in_map_iff in H as (kv & <- & Hkv). apply filter_In in Hkv as [Hkv _]. apply in_map. auto.
Qed.

Section TopoP.
  Variable key : Z -> text.

  Lemma topo_total perm fuel : forall d, (length d < fuel)%nat ->
    topo_loop perm key fuel d <> RErr EModelLimit.
  Proof.
    induction fuel as [|f IH]; intros d H; [lia|]. simpl.
    destruct (is_nil (ready d)) eqn:E.
    - destruct (is_nil d); discriminate.
    - assert (ready d <> []) as NE by (destruct (ready d); simpl in E; congruence).
      pose proof (strip_ready_length d NE) as L.
      destruct (topo_loop perm key f (strip_ready (ready d) d)) as [r|e] eqn:T; simpl; try discriminate.
      intro X. inversion X; subst. revert T. apply IH. lia.
  Qed.

  Lemma toposort2_total perm d : toposort2 perm key d <> RErr EModelLimit.
  Proof. unfold toposort2. destruct (is_nil d); try discriminate. apply topo_total. lia. Qed.

  Variables perm1 perm2 : list Z -> list Z.
  Hypothesis perm1_ok : forall l, Permutation (perm1 l) l.
  Hypothesis perm2_ok : forall l, Permutation (perm2 l) l.

  Lemma key_leb_total x y : key_leb key x y = true \/ key_leb key y x = true.
  Proof. apply text_leb_total. Qed.
  Lemma key_leb_trans x y z : key_leb key x y = true -> key_leb key y z = true -> key_leb key x z = true.
  Proof. apply text_leb_trans. Qed.

  Lemma tier_det ord :
    (forall x y, In x ord -> In y ord -> key x = key y -> x = y) ->
    isort (key_leb key) (perm1 ord) = isort (key_leb key) (perm2 ord).
  Proof.
    intros INJ. apply isort_det.
    - apply key_leb_total.
    - apply key_leb_trans.
    - intros x y Hx Hy A B. apply INJ.
      + eapply Permutation_in; [apply perm1_ok|auto].
      + eapply Permutation_in; [apply perm1_ok|auto].
      + apply text_leb_antisym; auto.
    - rewrite perm1_ok, perm2_ok. auto.
  Qed.

  Lemma ready_keys d x : In x (ready d) -> In x (keys d).
  Proof.
    unfold ready, keys. intros H. apply in_map_iff in H as (kv & <- & Hkv).
    apply filter_In in Hkv as [Hkv _]. apply in_map. auto.
  Qed.

  Lemma topo_det fuel : forall d,
    (forall x y, In x (keys d) -> In y (keys d) -> key x = key y -> x = y) ->
    topo_loop perm1 key fuel d = topo_loop perm2 key fuel d.
  Proof.
    induction fuel as [|f IH]; intros d INJ; simpl; auto.
    destruct (is_nil (ready d)); auto.
    rewrite IH.
    - rewrite tier_det; auto. intros x y Hx Hy. apply INJ; apply ready_keys; auto.
    - intros x y Hx Hy. apply INJ; eapply keys_strip; eauto.
  Qed.

  Lemma toposort2_det d :
    (forall x y, In x (keys (data0 d)) -> In y (keys (data0 d)) -> key x = key y -> x = y) ->
    toposort2 perm1 key d = toposort2 perm2 key d.
  Proof. intros INJ. unfold toposort2. destruct (is_nil d); auto. apply topo_det. auto. Qed.
End TopoP.

(* ---------------------------------------------------------------- soundness of the order *)
(** every item is handed over after everything it (still) depends on *)
Definition deps_closed (d : tdata) : Prop :=
  forall k dep x, In (k, dep) d -> In x dep -> In x (keys d).

Lemma keys_unique (d : tdata) kv1 kv2 : NoDup (map fst d) -> In kv1 d -> In kv2 d ->
  fst kv1 = fst kv2 -> kv1 = kv2.
Proof.
  induction d as [|a d IH]; simpl; intros ND H1 H2 E; [tauto|].
  inversion ND as [|? ? N ND']; subst.
  destruct H1 as [->|H1]; destruct H2 as [->|H2]; auto.
  - exfalso. apply N. rewrite E. apply in_map. auto.
  - exfalso. apply N. rewrite <- E. apply in_map. auto.
Qed.

Section TopoSound.
  Variable key : Z -> text.
  Variable perm : list Z -> list Z.
  Hypothesis perm_ok : forall l, Permutation (perm l) l.

  Lemma tier_perm ord : Permutation (isort (key_leb key) (perm ord)) ord.
  Proof. rewrite isort_perm. apply perm_ok. Qed.

  Lemma split_perm (ord : list Z) (d : tdata) :
    (forall kv, In kv d -> memz (fst kv) ord = is_nil (snd kv)) ->
    Permutation (map fst (filter (fun kv => is_nil (snd kv)) d)
                 ++ map fst (filter (fun kv => negb (memz (fst kv) ord)) d)) (map fst d).
  Proof.
    induction d as [|kv d IH]; simpl; intros CH; auto.
    rewrite (CH kv) by (left; auto).
    destruct (is_nil (snd kv)); simpl.
    - constructor. apply IH. intros; apply CH; right; auto.
    - rewrite <- Permutation_middle. constructor. apply IH. intros; apply CH; right; auto.
  Qed.

  Lemma strip_keys_perm d : NoDup (keys d) ->
    Permutation (ready d ++ keys (strip_ready (ready d) d)) (keys d).
  Proof.
    intros ND. unfold strip_ready, keys. rewrite map_map. simpl.
    change (map (fun x : Z * list Z => fst x)) with (@map (Z * list Z) Z fst).
    unfold ready at 1. apply split_perm.
    intros kv Hkv. destruct (is_nil (snd kv)) eqn:E.
    - apply memz_In. unfold ready. apply in_map. apply filter_In. auto.
    - destruct (memz (fst kv) (ready d)) eqn:M; auto. apply memz_In in M. unfold ready in M.
      apply in_map_iff in M as (kv' & E' & Hkv'). apply filter_In in Hkv' as [Hkv' N'].
      assert (kv' = kv) as ->; [|congruence].
      clear -ND Hkv Hkv' E'. unfold keys in ND. induction d as [|a d IH]; simpl in *; [tauto|].
      inversion ND; subst.
      destruct Hkv as [->|Hkv]; destruct Hkv' as [->|Hkv']; auto.
      + exfalso. apply H1. rewrite <- E'. apply in_map. auto.
      + exfalso. apply H1. rewrite E'. apply in_map. auto.
  Qed.

  Lemma filter_keys_NoDup (p : Z * list Z -> bool) (d : tdata) :
    NoDup (map fst d) -> NoDup (map fst (filter p d)).
  Proof.
    induction d as [|kv d IH]; simpl; intros ND; [constructor|].
    inversion ND; subst. destruct (p kv); simpl; auto.
    constructor; auto. intro H. apply H1. apply in_map_iff in H as (kv' & E & H).
    apply filter_In in H as [H _]. rewrite <- E. apply in_map. auto.
  Qed.

  Lemma strip_NoDup d : NoDup (keys d) -> NoDup (keys (strip_ready (ready d) d)).
  Proof.
    intros ND. unfold strip_ready, keys. rewrite map_map. simpl.
    change (map (fun x : Z * list Z => fst x)) with (@map (Z * list Z) Z fst).
    apply filter_keys_NoDup. auto.
  Qed.

  (** the tiers together are exactly the keys, each once *)
  Lemma topo_perm fuel : forall d tiers, NoDup (keys d) ->
    topo_loop perm key fuel d = ROk tiers -> Permutation (concat tiers) (keys d).
  Proof.
    induction fuel as [|f IH]; intros d tiers ND H; simpl in H; try discriminate.
    destruct (is_nil (ready d)) eqn:E.
    - destruct d; simpl in H; try discriminate. inversion H; subst. simpl. auto.
    - destruct (topo_loop perm key f (strip_ready (ready d) d)) as [r|] eqn:T; simpl in H; try discriminate.
      inversion H; subst. simpl.
      rewrite tier_perm. rewrite (IH _ _ (strip_NoDup d ND) T). apply strip_keys_perm. auto.
  Qed.

  (** order: when [k] is handed over, everything in its dependency list was
      handed over strictly before (in an earlier tier) *)
  Lemma topo_order fuel : forall d tiers, NoDup (keys d) -> deps_closed d ->
    topo_loop perm key fuel d = ROk tiers ->
    forall k dep x l1 l2, In (k, dep) d -> In x dep -> concat tiers = l1 ++ k :: l2 -> In x l1.
  Proof.
    induction fuel as [|f IH]; intros d tiers ND CL H k dep x l1 l2 Hk Hx EQ; simpl in H; try discriminate.
    destruct (is_nil (ready d)) eqn:E.
    - destruct d; simpl in H; try discriminate. destruct Hk.
    - destruct (topo_loop perm key f (strip_ready (ready d) d)) as [r|] eqn:T; simpl in H; try discriminate.
      inversion H; subst; clear H. simpl in EQ.
      set (tier := isort (key_leb key) (perm (ready d))) in *.
      assert (Permutation (concat r) (keys (strip_ready (ready d) d))) as PR
        by (eapply topo_perm; eauto; apply strip_NoDup; auto).
      assert (NoDup (tier ++ concat r)) as NDall.
      { eapply Permutation_NoDup; [|exact ND]. symmetry.
        unfold tier. rewrite tier_perm, PR. apply strip_keys_perm. auto. }
      (* is k in this tier or later? *)
      destruct (in_dec Z.eq_dec k (ready d)) as [Hr|Hr].
      + (* k is ready: its dependency list is empty *)
        exfalso. unfold ready in Hr. apply in_map_iff in Hr as (kv & Ek & Hkv).
        apply filter_In in Hkv as [Hkv N].
        assert (kv = (k, dep)) as ->.
        { eapply keys_unique; eauto. }
        simpl in N. destruct dep; simpl in N; [destruct Hx | discriminate].
      + (* k comes later: split the equation at the tier boundary *)
        assert (~ In k tier) as NT.
        { intro X. apply Hr. eapply Permutation_in; [apply tier_perm | exact X]. }
        assert (exists l1', l1 = tier ++ l1' /\ concat r = l1' ++ k :: l2) as (l1' & -> & EQ').
        { clear -EQ NT. revert l1 EQ. induction tier as [|t tier IHt]; simpl; intros l1 EQ.
          - exists l1. auto.
          - destruct l1 as [|a l1]; simpl in EQ; inversion EQ; subst.
            + exfalso. apply NT. left. auto.
            + destruct (IHt (fun X => NT (or_intror X)) l1 H1) as (l1' & -> & E'). exists l1'. auto. }
        apply in_or_app.
        destruct (in_dec Z.eq_dec x (ready d)) as [Hxr|Hxr].
        * left. eapply Permutation_in; [symmetry; apply tier_perm | exact Hxr].
        * right. eapply (IH _ _ (strip_NoDup d ND) _ T k (filter (fun y => negb (memz y (ready d))) dep) x l1' l2); auto.
          -- unfold strip_ready. apply in_map_iff. exists (k, dep). split; auto.
             apply filter_In. split; auto. simpl. apply negb_true_iff.
             destruct (memz k (ready d)) eqn:M; auto. apply memz_In in M. contradiction.
          -- apply filter_In. split; auto. apply negb_true_iff.
             destruct (memz x (ready d)) eqn:M; auto. apply memz_In in M. contradiction.
      Unshelve.
      intros k0 dep0 x0 Hk0 Hx0. unfold strip_ready in Hk0.
      apply in_map_iff in Hk0 as (kv & Ekv & Hkv). inversion Ekv; subst.
      apply filter_In in Hkv as [Hkv _]. apply filter_In in Hx0 as [Hx0 Nx].
      destruct kv as [k1 d1]. simpl in *.
      pose proof (CL _ _ _ Hkv Hx0) as Kx.
      eapply Permutation_in in Kx; [|symmetry; apply strip_keys_perm; auto].
      apply in_app_iff in Kx as [Kx|Kx]; auto.
      apply negb_true_iff in Nx. apply memz_In in Kx. congruence.
  Qed.
End TopoSound.

(* ---------------------------------------------------------------- determinism of the document *)
Definition imports_equiv (i1 i2 : list (text * list text)) : Prop :=
  Forall2 (fun x y => fst x = fst y /\ Permutation (snd x) (snd y)) i1 i2.

Lemma lookup_equiv i1 i2 : imports_equiv i1 i2 -> forall k,
  match lookup k i1, lookup k i2 with
  | Some a, Some b => Permutation a b
  | None, None => True
  | _, _ => False
  end.
Proof.
  induction 1 as [|[k1 v1] [k2 v2] i1 i2 [E P] F IH]; intros k; simpl; auto.
  simpl in E, P. subst. destruct (text_eqb k k2); auto. apply IH.
Qed.

Lemma schemas_of_equiv i1 i2 m : imports_equiv i1 i2 -> schemas_of i1 m = schemas_of i2 m.
Proof.
  intros EQ. induction m as [|[ns i] m IH]; simpl; auto.
  pose proof (lookup_equiv _ _ EQ ns) as L.
  destruct (lookup ns i1) as [a|]; destruct (lookup ns i2) as [b|]; try tauto.
  rewrite IH. rewrite (sort_text_det _ _ L). reflexivity.
Qed.

Definition with_imports (a : snap) (imp : list (text * list text)) : snap :=
  {| a_tns := a_tns a; a_name := a_name a; a_classes := a_classes a; a_deps := a_deps a;
     a_imports := imp; a_svcs := a_svcs a; a_pst := a_pst a |}.

Theorem doc_det_thm perm1 perm2 a imp :
  (forall l, Permutation (perm1 l) l) -> (forall l, Permutation (perm2 l) l) ->
  imports_equiv (a_imports a) imp ->
  (forall x y, In x (keys (data0 (a_deps a))) -> In y (keys (data0 (a_deps a))) ->
               class_key a x = class_key a y -> x = y) ->
  wsdl_of perm1 a = wsdl_of perm2 (with_imports a imp) /\
  render perm1 a = render perm2 (with_imports a imp).
Proof.
  intros P1 P2 EQ INJ.
  assert (wsdl_of perm1 a = wsdl_of perm2 (with_imports a imp)) as W.
  { unfold wsdl_of.
    change (class_key (with_imports a imp)) with (class_key a).
    change (a_deps (with_imports a imp)) with (a_deps a).
    rewrite (toposort2_det (class_key a) perm1 perm2 P1 P2 (a_deps a) INJ).
    destruct (toposort2 perm2 (class_key a) (a_deps a)); simpl; auto.
    change (a_classes (with_imports a imp)) with (a_classes a).
    change (a_tns (with_imports a imp)) with (a_tns a).
    destruct (add_all _ _ _); simpl; auto.
    change (a_imports (with_imports a imp)) with imp.
    rewrite (schemas_of_equiv _ _ _ EQ).
    reflexivity. }
  split; auto. unfold render. rewrite W. reflexivity.
Qed.

(** toposort2 as a whole: the tiers are exactly the keys of the completed table,
    each once, and nothing is handed over before one of its dependencies *)
Theorem toposort2_sound key perm d tiers :
  (forall l, Permutation (perm l) l) ->
  NoDup (keys (data0 d)) -> deps_closed (data0 d) ->
  toposort2 perm key d = ROk tiers ->
  (d = [] /\ tiers = [] \/
   Permutation (concat tiers) (keys (data0 d)) /\
   forall k dep x l1 l2, In (k, dep) (data0 d) -> In x dep -> concat tiers = l1 ++ k :: l2 -> In x l1).
Proof.
  intros P ND CL H. unfold toposort2 in H. destruct d as [|kv d].
  - simpl in H. inversion H. auto.
  - right. simpl is_nil in H. cbv iota in H. split.
    + eapply topo_perm; eauto.
    + eapply topo_order; eauto.
Qed.

(* ---------------------------------------------------------------- the hypothesis of doc_det, decided *)
Lemma injb_ok key l : injb key l = true ->
  forall x y, In x l -> In y l -> key x = key y -> x = y.
Proof.
  induction l as [|a l IH]; simpl; intros H x y Hx Hy E; [tauto|].
  apply andb_true_iff in H as [H1 H2]. rewrite forallb_forall in H1.
  assert (forall z, In z l -> key a = key z -> a = z) as HA.
  { intros z Hz Ez. specialize (H1 z Hz). apply orb_true_iff in H1 as [H1|H1].
    - apply Z.eqb_eq. auto.
    - apply negb_true_iff in H1. apply text_eqb_neq in H1. contradiction. }
  destruct Hx as [<-|Hx]; destruct Hy as [<-|Hy]; auto.
  symmetry. apply HA; auto.
Qed.

Corollary doc_det_b perm1 perm2 a imp :
  (forall l, Permutation (perm1 l) l) -> (forall l, Permutation (perm2 l) l) ->
  imports_equiv (a_imports a) imp -> key_injb a = true ->
  wsdl_of perm1 a = wsdl_of perm2 (with_imports a imp) /\
  render perm1 a = render perm2 (with_imports a imp).
Proof.
  intros P1 P2 EQ INJ. apply doc_det_thm; auto. apply injb_ok. exact INJ.
Qed.

(** classes that toposort2 cannot tell apart are published under the same names:
    the sort key has the namespace, the type name and the element name among its
    components *)
Lemma topo_key_names :
  forallb (fun k => existsb (kcomp_eqb k) gen_topo_key) [KNamespace; KTypeName; KSubName] = true.
Proof. reflexivity. Qed.
